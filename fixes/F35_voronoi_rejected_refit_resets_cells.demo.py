"""F35 demo: a REJECTED cold fit of a fitted VoronoiFPS (invalid full_fraction, or invalid
n_trial_calculation with full_fraction=None) has already overwritten vlocation_of_idx and dSL_
when it raises, but keeps n_selected_/hausdorff_.  The user corrects the parameter and warm-starts:
the pruning rule now works on cell labels that are all 1, skips candidates it must update, and the
selection silently differs from plain FPS.  Exit 1 when that happens, 0 otherwise."""
import sys

import numpy as np

from skmatter.sample_selection import FPS, VoronoiFPS

bad = 0
for seed in range(20):
    rng = np.random.RandomState(seed)
    cen = rng.uniform(-10, 10, size=(6, 3))
    X = cen[rng.randint(6, size=60)] + 0.3 * rng.normal(size=(60, 3))
    s = VoronoiFPS(n_to_select=8, full_fraction=1.0, initialize=0).fit(X)
    s.full_fraction = 2.0
    try:
        s.fit(X)
    except ValueError:
        pass
    s.full_fraction = 1.0
    s.n_to_select = 20
    s.fit(X, warm_start=True)
    r = FPS(n_to_select=20, initialize=0).fit(X)
    d = ((X[:, None, :] - X[None, s.selected_idx_, :]) ** 2).sum(-1).min(1)
    if list(s.selected_idx_) != list(r.selected_idx_) or not np.allclose(d, s.get_distance()):
        bad += 1
print("FAIL: %d / 20 warm starts after a rejected refit differ from plain FPS" % bad if bad else "PASS")
sys.exit(1 if bad else 0)
