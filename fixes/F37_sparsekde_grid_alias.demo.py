"""F37 -- SparseKDE.fit keeps the caller's grid array itself (self._grids = X): when the caller
re-uses that buffer after fit, score_samples / score / sample of the fitted model change.

Run with PYTHONPATH=<repo>/src.  Exit code 1 = defect present."""
import sys
import warnings

import numpy as np

from skmatter.neighbors import SparseKDE

warnings.simplefilter("ignore")
rs = np.random.RandomState(0)
centers = np.array([[0.0, 0.0], [3.0, 3.0], [0.0, 4.0]])
desc = np.vstack([c + 0.5 * rs.normal(size=(14, 2)) for c in centers])
grid = desc[::6].copy()
probe = desc[::5].copy()

est = SparseKDE(descriptors=desc, weights=None, fspread=0.5).fit(grid)
before = est.score_samples(probe)
grid *= -0.37            # the caller re-uses his buffer
grid += 2.5
after = est.score_samples(probe)
print("max |change of score_samples| after the caller overwrote the grid array:", float(np.max(np.abs(after - before))))
sys.exit(0 if np.allclose(before, after, rtol=1e-9, atol=1e-12) else 1)
