import numpy as np, itertools
import skmatter.sample_selection._voronoi_fps as V
from skmatter.sample_selection import VoronoiFPS
# fake clock: the trial products of the sparse branch always look slower than the full one
ticks = itertools.count()
seq = []
def fake_time():
    k = next(ticks)
    return float(k)            # every interval between two calls is 1.0
V.time = fake_time
X = np.random.RandomState(0).rand(30, 4)
s = VoronoiFPS(n_to_select=3, full_fraction=None, n_trial_calculation=1)
s.fit(X)
print("calibrated full_fraction:", s.full_fraction)
s.fit(X)   # refit of the same object
print("refit ok")
