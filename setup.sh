#!/bin/sh
# Build the Coq development from files on disk (full .vo build; offline).
cd "$(dirname "$0")/coq" || exit 2
export OCAMLRUNPARAM="${OCAMLRUNPARAM:-i=32M}"
rm -f _CoqProject Makefile Makefile.conf .Makefile.d
cat _CoqProject.head > _CoqProject
find Base Model Proofs Properties Findings -name '*.v' | sort >> _CoqProject
coq_makefile -f _CoqProject -o Makefile || exit 2
date
timeout 10800 make -j3 2>&1 | tail -40
timeout 10800 make -j1 2>&1 | tail -5
timeout 600 make -j1 >/dev/null 2>&1 || { echo "BUILD FAILED"; exit 1; }
date
echo "coq build ok"
