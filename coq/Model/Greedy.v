(* Model of skmatter._selection.GreedySelector: n_to_select resolution, the greedy
   loop with score-threshold early exit, result buffers, support mask, views.
   Mirrors src/skmatter/_selection.py (fit, _init/_continue_greedy_search,
   _get_best_new_selection, _update_post_selection, _postprocess, get_support,
   transform).  Definitions only; proofs are in Proofs/GreedyP.v. *)
From Verif Require Import ListX.

(* score_threshold as an exact rational num/den (den > 0), absolute or relative *)
Inductive thr := NoThr | AbsThr (num den : Z) | RelThr (num den : Z).

(* [below t first s]: the threshold test of _get_best_new_selection.
   absolute:  s < num/den           <->  s*den < num
   relative:  s/first < num/den     <->  s*den < num*first   (first > 0)  *)
Definition below (t : thr) (first s : Z) : bool :=
  match t with
  | NoThr => false
  | AbsThr num den => s * den <? num
  | RelThr num den => s * den <? num * first
  end.

Definition has_thr (t : thr) : bool := match t with NoThr => false | _ => true end.

Section Greedy.
  Variable S : Type.                       (* scorer state *)
  Variable score : S -> list Z.            (* self.score(X, y): one score per candidate *)
  Variable upd : S -> nat -> S.            (* scorer part of _update_post_selection *)
  Variable cand : list (list Z).           (* candidates: rows (axis 0) or columns (axis 1) *)
  Variable ycand : option (list (list Z)). (* rows of y, recorded only for sample selection *)

  Record gst := mk_gst {
    sel   : list nat;              (* selected_idx_[:n_selected_] *)
    xsel  : list (list Z);         (* X_selected_ (rows, or columns for axis 1) *)
    ysel  : list (list Z);         (* y_selected_ (only meaningful if ycand <> None) *)
    sst   : S;
    first : option Z               (* first_score_ *)
  }.

  (* GreedySelector._update_post_selection followed by the scorer's part *)
  Definition post (g : gst) (i : nat) : gst :=
    {| sel := sel g ++ [i];
       xsel := xsel g ++ [nth i cand []];
       ysel := match ycand with
               | Some y => ysel g ++ [nth i y []]
               | None => ysel g end;
       sst := upd (sst g) i;
       first := first g |}.

  (* _get_best_new_selection: arg-max over the not-yet-selected candidates
     (first index on ties), first_score_ latch, threshold test. *)
  Definition best_new (t : thr) (g : gst) : option nat * gst :=
    match amax (mask (sel g) (score (sst g))) with
    | None => (None, g)
    | Some (i, v) =>
        if has_thr t then
          let f := match first g with Some f => f | None => v end in
          let g' := mk_gst (sel g) (xsel g) (ysel g) (sst g) (Some f) in
          if below t f v then (None, g') else (Some i, g')
        else (Some i, g)
    end.

  (* the loop `for n in range(n_iterations)`; returns the final state and whether
     the threshold stopped the search *)
  Fixpoint run (t : thr) (k : nat) (g : gst) : gst * bool :=
    match k with
    | O => (g, false)
    | Datatypes.S k' =>
        match best_new t g with
        | (None, g') => (g', true)
        | (Some i, g') => run t k' (post g' i)
        end
    end.

  (* support_ mask, get_support(indices=True), transform (feature selection) *)
  Definition support (n : nat) (s : list nat) : list bool :=
    map (fun i => memb i s) (seq 0 n).
  Definition support_indices (s : list nat) : list nat := sort_nat s.

  Fixpoint filter_mask {A} (m : list bool) (l : list A) : list A :=
    match m, l with
    | b :: m', a :: l' => if b then a :: filter_mask m' l' else filter_mask m' l'
    | _, _ => []
    end.
End Greedy.

Arguments mk_gst {S}.
Arguments sel {S}. Arguments xsel {S}. Arguments ysel {S}.
Arguments sst {S}. Arguments first {S}.

(* ---- n_to_select resolution ------------------------------------------------- *)
Inductive nts := NtsNone | NtsInt (z : Z) | NtsFrac (resolved : Z) (valid : bool).
(* NtsFrac carries int(n*f) computed by FloatX.trunc_mul on the binary64 product and
   the validity 0 < f <= 1; see Model/FloatX.v *)

Definition resolve_n (n : nat) (p : nts) : option nat :=
  match p with
  | NtsNone => Some (Nat.div n 2)
  | NtsInt z => if (0 <? z) && (z <=? Z.of_nat n) then Some (Z.to_nat z) else None
  | NtsFrac r ok => if ok then Some (Z.to_nat r) else None
  end.
