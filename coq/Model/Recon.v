(* Model of skmatter/metrics/_reconstruction_measures.py (GRE, GRD, LRE; pointwise and global).

   Definitions only.  The estimator, the orthogonal regression, the nearest-neighbour
   choice and the train/test split are NOT modelled here; they enter as oracle variables
   constrained by contracts (hypothesis programs below, evaluated as residuals per run):
     W      (p x q)  weights of the fitted estimator, predict(X) = X W
                     contract "ridge a":   (Xs^T Xs + a I) W = Xs^T Ys      (a = 0: least squares)
                     contract "cut-off":   W = V diag(1/S) U^T Ys with Xs V = U diag S, U^T U = I
     Omega  (r x r)  orthogonal_procrustes of the zero-padded (Xs_train, prediction_train),
                     r = max(p, q);  contract: Omega^T Omega = I and Omega^T M symmetric with
                     M = (Xs_train E_p)^T (Yhat_train E_q)   (first-order optimality)
     Sel    (k x n)  0/1 selection matrix of the k nearest training rows of one test point
     W_i    (p x q)  weights of the local fit of that test point.
   The scaler (StandardFlexibleScaler defaults: with_mean, with_std, column_wise=False) IS
   modelled: [std_prog].

   GRD models the REPAIRED code (fixes/F11_grd_wide_source.diff): the linear prediction is
   zero-padded to r = max(p, q) columns like the orthogonal prediction.  The unrepaired
   shape behaviour is modelled in Findings/F11_grd_wide_source.v. *)
From Coq Require Import ZArith List Bool PrimFloat.
From Verif Require Import MExp.
Import ListNotations.
Close Scope float_scope.
Open Scope nat_scope.

(* ------------------------------------------------------------------ layer D *)
(* X[idx] *)
Definition select_rows {A} (idx : list nat) (X : list (list A)) : list (list A) :=
  map (fun i => nth i X []) idx.

(* zero-padding matrix E (p x r): X E = np.pad(X, [(0,0),(0,r-p)]) for p <= r *)
Definition embed_rows (p r : nat) : list (list bool) :=
  map (fun i => map (fun j => Nat.eqb i j) (seq 0 r)) (seq 0 p).

(* selection matrix of an index list (k x n): row t is the unit vector of idx[t] *)
Definition sel_rows (n : nat) (idx : list nat) : list (list bool) :=
  map (fun i => map (fun j => Nat.eqb i j) (seq 0 n)) idx.

(* ------------------------------------------------------------------ layer A: programs *)
Definition c0 : mexp 1 1 := MConst 0.
Definition rcount (n : nat) : mexp 1 1 := MMul (MOnes 1 n) (MOnes n 1).      (* n as a scalar *)

Section Scaler.
  (* StandardFlexibleScaler().fit(X) then .transform(A) *)
  Variables (n p : nat).
  Variable X : mexp n p.
  (* mean_ = np.average(X, axis=0) *)
  Definition mean_prog : mexp 1 p := MScale (MMap Frecip c0 (rcount n)) (MMul (MOnes 1 n) X).
  Definition center_prog {a : nat} (A : mexp a p) : mexp a p := MSub A (MMul (MOnes a 1) mean_prog).
  (* var = np.average((X - X_mean)**2, axis=0);  var_sum = var.sum() *)
  Definition varsum_prog : mexp 1 1 :=
    MMul (MScale (MMap Frecip c0 (rcount n))
                 (MMul (MOnes 1 n) (MHad (center_prog X) (center_prog X)))) (MOnes p 1).
  (* 1 / scale_,  scale_ = np.sqrt(var_sum) *)
  Definition iscale_prog : mexp 1 1 := MMap Frecip c0 (MMap Fsqrt c0 varsum_prog).
  (* (A - mean_) / scale_ *)
  Definition std_prog {a : nat} (A : mexp a p) : mexp a p := MScale iscale_prog (center_prog A).
End Scaler.
Arguments mean_prog {n p} X.
Arguments center_prog {n p} X {a} A.
Arguments varsum_prog {n p} X.
Arguments iscale_prog {n p} X.
Arguments std_prog {n p} X {a} A.

(* np.linalg.norm(R, axis=1) *)
Definition rownorm_prog {m q : nat} (R : mexp m q) : mexp m 1 :=
  MMap Fsqrt c0 (MMul (MHad R R) (MOnes q 1)).
(* np.linalg.norm(pw) / np.sqrt(len(pw)) *)
Definition global_prog {m : nat} (pw : mexp m 1) : mexp 1 1 :=
  MScale (MMap Frecip c0 (MMap Fsqrt c0 (rcount m))) (MMap Fsqrt c0 (MMul (MTr pw) pw)).

(* variables: 0 X_train (n x p) | 1 X_test (m x p) | 2 Y_train (n x q) | 3 Y_test (m x q)
              4 W (p x q) | 5 Omega (r x r) | 6 E_p (p x r) | 7 E_q (q x r)
              8 Sel (k x n) | 9 e_i (1 x m) | 10 W_i (p x q) | 11 alpha (1 x 1)
              12 U (n x c) | 13 S (c x 1) | 14 V (p x c) *)
Section Measures.
  Variables (n m p q : nat).
  Definition vXtr : mexp n p := MVar 0.
  Definition vXte : mexp m p := MVar 1.
  Definition vYtr : mexp n q := MVar 2.
  Definition vYte : mexp m q := MVar 3.
  Definition vW : mexp p q := MVar 4.
  Definition vAlpha : mexp 1 1 := MVar 11.

  Definition xs_tr : mexp n p := std_prog vXtr vXtr.
  Definition xs_te : mexp m p := std_prog vXtr vXte.
  Definition ys_tr : mexp n q := std_prog vYtr vYtr.
  Definition ys_te : mexp m q := std_prog vYtr vYte.

  (* ---- GRE: np.linalg.norm(Y_test - estimator.predict(X_test), axis=1) *)
  Definition gre_prog : mexp m 1 := rownorm_prog (MSub ys_te (MMul xs_te vW)).

  (* contract "ridge alpha" on (Xs, Ys, W) as a residual:  Xs^T (Xs W) + alpha W - Xs^T Ys *)
  Definition ridge_resid {k : nat} (Xs : mexp k p) (Ys : mexp k q) (W : mexp p q) : mexp p q :=
    MSub (MAdd (MMul (MTr Xs) (MMul Xs W)) (MScale vAlpha W)) (MMul (MTr Xs) Ys).
  Definition ridge_hyp_prog : mexp p q := ridge_resid xs_tr ys_tr vW.

  (* contract "cut-off at c directions": thin SVD oracle of Xs_train *)
  Section Cutoff.
    Variable c : nat.
    Definition vU : mexp n c := MVar 12.
    Definition vS : mexp c 1 := MVar 13.
    Definition vV : mexp p c := MVar 14.
    Definition cutoff_w_prog : mexp p q :=
      MMul vV (MMul (MDiag (MMap Frecip c0 vS)) (MMul (MTr vU) ys_tr)).
    Definition svd_resid_prog : mexp n c := MSub (MMul xs_tr vV) (MMul vU (MDiag vS)).
    Definition uorth_resid_prog : mexp c c := MSub (MMul (MTr vU) vU) (MId c).
    Definition cutoff_hyp_prog : mexp p q := MSub vW cutoff_w_prog.
  End Cutoff.

  (* ---- GRD (repaired): padded linear prediction vs. padded orthogonal prediction *)
  Section GRD.
    Variable r : nat.                      (* max(p, q) *)
    Definition vOmega : mexp r r := MVar 5.
    Definition vEp : mexp p r := MVar 6.
    Definition vEq : mexp q r := MVar 7.
    Definition yhat_te : mexp m q := MMul xs_te vW.          (* estimator.predict(X_test) *)
    Definition yhat_tr : mexp n q := MMul xs_tr vW.          (* estimator.predict(X_train) *)
    Definition grd_prog : mexp m 1 :=
      rownorm_prog (MSub (MMul yhat_te vEq) (MMul (MMul xs_te vEp) vOmega)).
    (* Procrustes contract: orthogonality and first-order optimality (Omega^T M symmetric) *)
    Definition proc_m : mexp r r := MMul (MTr (MMul xs_tr vEp)) (MMul yhat_tr vEq).
    Definition omega_orth_resid : mexp r r := MSub (MMul (MTr vOmega) vOmega) (MId r).
    Definition omega_sym_resid : mexp r r :=
      MSub (MMul (MTr vOmega) proc_m) (MTr (MMul (MTr vOmega) proc_m)).
  End GRD.

  (* ---- LRE, one test point: Sel selects its k nearest training rows, e_i its own row *)
  Section LRE.
    Variable k : nat.
    Definition vSel : mexp k n := MVar 8.
    Definition vEi : mexp 1 m := MVar 9.
    Definition vWi : mexp p q := MVar 10.
    Definition loc_x : mexp k p := MMul vSel xs_tr.                      (* X_train[local_env_idx] *)
    Definition loc_y : mexp k q := MMul vSel ys_tr.
    Definition colmean {a b : nat} (A : mexp a b) : mexp 1 b :=
      MScale (MMap Frecip c0 (rcount a)) (MMul (MOnes 1 a) A).             (* np.mean(A, axis=0) *)
    Definition loc_xc : mexp k p := MSub loc_x (MMul (MOnes k 1) (colmean loc_x)).
    Definition loc_yc : mexp k q := MSub loc_y (MMul (MOnes k 1) (colmean loc_y)).
    Definition lre_hyp_prog : mexp p q := ridge_resid loc_xc loc_yc vWi.
    (* local_Y_train_mean + estimator.predict(X_test[i] - local_X_train_mean) *)
    Definition lre_pred : mexp 1 q :=
      MAdd (colmean loc_y) (MMul (MSub (MMul vEi xs_te) (colmean loc_x)) vWi).
    Definition lre_prog : mexp 1 1 := rownorm_prog (MSub (MMul vEi ys_te) lre_pred).
    (* squared_dist = |x_train|^2 + |x_test|^2[:, None] - 2 X_test X_train^T   (m x n) *)
    Definition sqdist_prog : mexp m n :=
      MSub (MAdd (MMul (MOnes m 1) (MTr (MMul (MHad xs_tr xs_tr) (MOnes p 1))))
                 (MMul (MMul (MHad xs_te xs_te) (MOnes p 1)) (MOnes 1 n)))
           (MScale (MConst 2) (MMul xs_te (MTr xs_tr))).
  End LRE.
End Measures.

(* ------------------------------------------------------------------ binary64 driver *)
Open Scope float_scope.
Definition b2f (b : bool) : float := if b then 1 else 0.
Definition bmat_f (B : list (list bool)) : fmat := map (map b2f) B.
Definition col0 (A : fmat) : list float := map (fun r => nth 0 r 0) A.
Definition envl (l : list fmat) (x : nat) : fmat := nth x l [].

Record recon_in := {
  c_X : fmat; c_Y : fmat; c_train : list nat; c_test : list nat;
  c_alpha : float;            (* ridge contract: regulariser (0 = least squares) *)
  c_W : fmat                  (* oracle: estimator weights (p x q) *)
}.

Section Driver.
  Variable inp : recon_in.
  Let Xtr := select_rows (c_train inp) (c_X inp).
  Let Xte := select_rows (c_test inp) (c_X inp).
  Let Ytr := select_rows (c_train inp) (c_Y inp).
  Let Yte := select_rows (c_test inp) (c_Y inp).
  Let n := length (c_train inp).
  Let m := length (c_test inp).
  Let p := length (hd [] (c_X inp)).
  Let q := length (hd [] (c_Y inp)).
  Let r := Nat.max p q.

  (* slots 0..14, see the variable table above *)
  Definition base_env (Omega Sel ei Wi U S V : fmat) : nat -> fmat :=
    envl [Xtr; Xte; Ytr; Yte; c_W inp; Omega; bmat_f (embed_rows p r); bmat_f (embed_rows q r);
          Sel; ei; Wi; [[c_alpha inp]]; U; S; V].
  Definition env0 : nat -> fmat := base_env [] [] [] [] [] [] [].

  Definition gre_pw_f : list float := col0 (eval_f env0 (gre_prog n m p q)).
  Definition ridge_resid_f : float := fmaxabs (eval_f env0 (ridge_hyp_prog n p q)).
  Definition global_f (pw : list float) : float :=
    fget (eval_f (envl [map (fun x => [x]) pw]) (global_prog (@MVar (length pw) 1 0))) 0 0.

  (* cut-off contract (default estimator): SVD oracle with c retained directions *)
  Definition cutoff_resid_f (U S V : fmat) : float :=
    let e := base_env [] [] [] [] U S V in
    let c := length S in
    let a := fmaxabs (eval_f e (svd_resid_prog n p c)) in
    let b := fmaxabs (eval_f e (uorth_resid_prog n c)) in
    let d := fmaxabs (eval_f e (cutoff_hyp_prog n p q c)) in
    let ab := if ltb a b then b else a in if ltb ab d then d else ab.

  Definition grd_pw_f (Omega : fmat) : list float :=
    col0 (eval_f (base_env Omega [] [] [] [] [] []) (grd_prog n m p q r)).
  Definition omega_resid_f (Omega : fmat) : float :=
    let e := base_env Omega [] [] [] [] [] [] in
    let a := fmaxabs (eval_f e (omega_orth_resid r)) in
    let b := fmaxabs (eval_f e (omega_sym_resid n p q r)) in
    if ltb a b then b else a.

  (* LRE: per test point its neighbour list and local weights *)
  Definition unit_row (len i : nat) : fmat := [map (fun j => b2f (Nat.eqb i j)) (seq 0 len)].
  Definition lre_env (i : nat) (nb : list nat) (Wi : fmat) : nat -> fmat :=
    base_env [] (bmat_f (sel_rows n nb)) (unit_row m i) Wi [] [] [].
  Definition lre_pw_f (nbrs : list (list nat)) (Ws : list fmat) : list float :=
    map (fun i => let nb := nth i nbrs [] in
                  fget (eval_f (lre_env i nb (nth i Ws [])) (lre_prog n m p q (length nb))) 0 0)
        (seq 0 m).
  Definition lre_resid_f (nbrs : list (list nat)) (Ws : list fmat) : float :=
    fold_left (fun acc i => let nb := nth i nbrs [] in
                 let x := fmaxabs (eval_f (lre_env i nb (nth i Ws [])) (lre_hyp_prog n p q (length nb))) in
                 if ltb acc x then x else acc) (seq 0 m) 0.
  (* the neighbour lists are admissible for the model's own squared distances: every chosen
     training row is at most as far (up to tol) as every row not chosen *)
  Definition memb (i : nat) (l : list nat) : bool := existsb (Nat.eqb i) l.
  Definition nbrs_ok_f (tol : float) (nbrs : list (list nat)) : bool :=
    let D := eval_f env0 (sqdist_prog n m p) in
    forallb (fun i =>
      let nb := nth i nbrs [] in let row := nth i D [] in
      let dmax := fold_left (fun a j => let x := nth j row 0 in if ltb a x then x else a) nb neg_infinity in
      forallb (fun j => memb j nb || leb dmax (nth j row 0 + tol)) (seq 0 n)) (seq 0 m).
End Driver.

(* ------------------------------------------------------------------ comparison *)
(* |a-b| <= atol + rtol * max(|a|,|b|); false on NaN *)
Definition close (rtol atol a b : float) : bool :=
  leb (abs (a - b)) (atol + rtol * (if ltb (abs a) (abs b) then abs b else abs a)).
Fixpoint vclose (rtol atol : float) (u v : list float) : bool :=
  match u, v with
  | [], [] => true
  | a :: u', b :: v' => close rtol atol a b && vclose rtol atol u' v'
  | _, _ => false
  end.

(* one GRE case: contract residual <= eps, pointwise and global values agree *)
Definition gre_case_ok (inp : recon_in) (eps rtol atol : float) (obs_pw : list float) (obs_g : float) : bool :=
  leb (ridge_resid_f inp) eps
  && vclose rtol atol (gre_pw_f inp) obs_pw
  && close rtol atol (global_f (gre_pw_f inp)) obs_g.
Definition gre_cutoff_case_ok (inp : recon_in) (U S V : fmat) (eps rtol atol : float)
           (obs_pw : list float) (obs_g : float) : bool :=
  leb (cutoff_resid_f inp U S V) eps
  && vclose rtol atol (gre_pw_f inp) obs_pw
  && close rtol atol (global_f (gre_pw_f inp)) obs_g.
Definition grd_case_ok (inp : recon_in) (Omega : fmat) (eps rtol atol : float)
           (obs_pw : list float) (obs_g : float) : bool :=
  leb (ridge_resid_f inp) eps && leb (omega_resid_f inp Omega) eps
  && vclose rtol atol (grd_pw_f inp Omega) obs_pw
  && close rtol atol (global_f (grd_pw_f inp Omega)) obs_g.
Definition grd_cutoff_case_ok (inp : recon_in) (U S V Omega : fmat) (eps rtol atol : float)
           (obs_pw : list float) (obs_g : float) : bool :=
  leb (cutoff_resid_f inp U S V) eps && leb (omega_resid_f inp Omega) eps
  && vclose rtol atol (grd_pw_f inp Omega) obs_pw
  && close rtol atol (global_f (grd_pw_f inp Omega)) obs_g.
Definition lre_case_ok (inp : recon_in) (nbrs : list (list nat)) (Ws : list fmat)
           (eps rtol atol dtol : float) (obs_pw : list float) (obs_g : float) : bool :=
  leb (lre_resid_f inp nbrs Ws) eps && nbrs_ok_f inp dtol nbrs
  && vclose rtol atol (lre_pw_f inp nbrs Ws) obs_pw
  && close rtol atol (global_f (lre_pw_f inp nbrs Ws)) obs_g.
