(* C05 — the rejection branches of KernelPCovR.fit (src/skmatter/decomposition/_kernel_pcovr.py
   lines 268-271, 276-282, 303-328, 570-582) and of utils._pcovr_utils.check_krr_fit (lines 72-94),
   layer D: a total decision function over the discrete description of a call.  Definitions only.

   Order of the checks in the code (the first that fails raises ValueError):
     1. regressor not in ["precomputed", None] and not isinstance(regressor, KernelRidge)
     2. (regressor is a KernelRidge) kernel, gamma, degree, coef0, kernel_params differ between the
        regressor and the KernelPCovR
     3. check_krr_fit, only for an already FITTED regressor:
        a. _validate_data(X, y, reset=False): n_features_in_ of the regressor != X.shape[1]
        b. dual_coef_.ndim != y.ndim
        c. y.ndim == 2 and dual_coef_.shape[1] != y.shape[1]
     4. _decompose_full (svd_solver "auto"/"full"): not 0 <= n_components_ <= n_samples, where
        n_components_ = n_samples when n_components is None.
   Integer n_components only (floats in (0,1) and "mle" are outside the property's quantifier). *)
From Coq Require Import ZArith Bool.
Open Scope Z_scope.

Inductive reg_arg :=
| GNone                       (* regressor=None *)
| GPre                        (* regressor="precomputed" *)
| GOther                      (* any other object, e.g. a Ridge instance or another string *)
| GKrr (params_match : bool)  (* a KernelRidge; do its kernel arguments equal the estimator's? *)
       (fitted : option (Z * Z * Z)).
       (* fitted: n_features_in_, dual_coef_.ndim, dual_coef_.shape[-1] *)

Record gin := mk_gin {
  g_reg : reg_arg;
  g_n : Z;             (* X.shape[0] *)
  g_d : Z;             (* X.shape[1] *)
  g_yndim : Z;         (* Y.ndim: 1 or 2 *)
  g_p : Z;             (* Y.shape[1] when Y.ndim = 2 *)
  g_k : option Z       (* n_components *)
}.

Inductive verdict :=
| Accept | RejRegressorType | RejKernelMismatch | RejFeatures | RejDualNdim | RejDualShape
| RejNComponents.

Definition ncomp (g : gin) : Z := match g_k g with None => g_n g | Some k => k end.

Definition guard_ncomp (g : gin) : verdict :=
  if (0 <=? ncomp g) && (ncomp g <=? g_n g) then Accept else RejNComponents.

Definition guard_krr (g : gin) (d0 nd cols : Z) : verdict :=
  if negb (d0 =? g_d g) then RejFeatures
  else if negb (nd =? g_yndim g) then RejDualNdim
  else if (g_yndim g =? 2) && negb (cols =? g_p g) then RejDualShape
  else guard_ncomp g.

Definition fit_guard (g : gin) : verdict :=
  match g_reg g with
  | GOther => RejRegressorType
  | GKrr false _ => RejKernelMismatch
  | GKrr true (Some (d0, nd, cols)) => guard_krr g d0 nd cols
  | GKrr true None => guard_ncomp g
  | GNone | GPre => guard_ncomp g
  end.

(* numbering used by the correspondence check *)
Definition vcode (v : verdict) : nat :=
  match v with
  | Accept => 0 | RejRegressorType => 1 | RejKernelMismatch => 2 | RejFeatures => 3
  | RejDualNdim => 4 | RejDualShape => 5 | RejNComponents => 6
  end%nat.

(* one observed call: the implementation's outcome code and, when it accepted, n_components_ and
   the number of columns of pkt_ *)
Definition guard_case (g : gin) (code : nat) (ncomp_obs pkt_cols : Z) : bool :=
  Nat.eqb (vcode (fit_guard g)) code &&
  match fit_guard g with
  | Accept => (ncomp_obs =? ncomp g) && (pkt_cols =? ncomp g)
  | _ => true
  end.

(* ---- svd_solver resolution (fit, lines 356-371) --------------------------------------------------
     self._fit_svd_solver = self.svd_solver
     if "auto":  max(n_samples, n_features) <= 500 (or n_components_ == "mle")   -> "full"
                 elif n_components_ >= 1 and n_components_ < 0.8 * max(n_samples, n_features) -> "randomized"
                 else                                                             -> "full"
   [k] is the resolved integer n_components_.  The float comparison k < 0.8*m is modelled exactly
   as 5 k < 4 m (the generator never produces the tie 5 k = 4 m, where binary64 rounding of 0.8*m
   could decide either way).  _fit then calls _decompose_full for "full" and _decompose_truncated
   for "arpack" / "randomized". *)
Inductive solver := SAuto | SFull | SArpack | SRandomized.

Definition resolve_solver (s : solver) (n d k : Z) : solver :=
  match s with
  | SAuto =>
      if Z.max n d <=? 500 then SFull
      else if (1 <=? k) && (5 * k <? 4 * Z.max n d) then SRandomized
      else SFull
  | _ => s
  end.

Definition scode (s : solver) : nat :=
  match s with SAuto => 0 | SFull => 1 | SArpack => 2 | SRandomized => 3 end%nat.

(* one observed fit: code of est._fit_svd_solver, number of calls of _decompose_full and of
   _decompose_truncated recorded by wrappers on the instance *)
Definition solver_case (s : solver) (n d k : Z) (code full_calls trunc_calls : nat) : bool :=
  let r := resolve_solver s n d k in
  Nat.eqb (scode r) code &&
  match r with
  | SFull => Nat.eqb full_calls 1 && Nat.eqb trunc_calls 0
  | _ => Nat.eqb full_calls 0 && Nat.eqb trunc_calls 1
  end.
