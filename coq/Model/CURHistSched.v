(* C07, layer D, histories: ONE estimator object, a cold fit followed by any number of warm
   starts, recompute_every being changed with set_params between the fits
   (src/skmatter/_selection.py: GreedySelector.fit(warm_start=True), _CUR/_PCovCUR
   ._continue_greedy_search, _update_post_selection).  Model/CURSched.v fixes recompute_every
   for the whole chain ([c_chain]); here every stage carries its own.

     stage (re, k):   set_params(recompute_every=re, n_to_select=k); fit(X, y, warm_start=True)
       _continue_greedy_search:  pi_ = _compute_pi(...)        next refresh vector, no zeroing,
                                                               whatever re is          [g_warm]
       loop of k - n_selected_ steps with the refresh rule of THIS stage's re, the counter
       n_selected_ counting the selections of all stages                               [c_run re]

   Definitions only; proofs in Proofs/CURHistSchedP.v (stdlib style). *)
From Verif Require Import ListX Greedy CURSched.

Section HSched.
  Variable cand : list (list Z).

  Fixpoint h_chain (g : gst cst) (sts : list (nat * nat)) (acc : list (list Z))
    : gst cst * list (list Z) :=
    match sts with
    | [] => (g, acc)
    | (re, k) :: sts' =>
        let g1 := g_warm g in
        let steps := (k - length (sel g1))%nat in
        h_chain (fst (c_run re cand NoThr steps g1)) sts' (acc ++ c_trace re cand NoThr steps g1)
    end.

  Definition h_fit (R : list (list Z)) (sts : list (nat * nat)) : gst cst * list (list Z) :=
    match sts with
    | [] => (g_cold R, [])
    | (re, k) :: sts' =>
        let g0 := g_cold R in
        h_chain (fst (c_run re cand NoThr k g0)) sts' (c_trace re cand NoThr k g0)
    end.
End HSched.

(* ---- the schedule of a history: number (in the stream of refresh vectors) of the vector in
   force at each selection.  [m] selections exist and vector number [c] is in force when the
   warm start of the first remaining stage begins; that warm start loads vector [S c]. *)
Fixpoint hw_idx (m c : nat) (sts : list (nat * nat)) : list nat :=
  match sts with
  | [] => []
  | (re, k) :: sts' =>
      let steps := (k - m)%nat in
      idx_steps re m (S c) steps ++ hw_idx (m + steps) (idx_after re m (S c) steps) sts'
  end.
Definition h_idx (sts : list (nat * nat)) : list nat :=
  match sts with
  | [] => []
  | (re, k) :: sts' => idx_steps re 0 0 k ++ hw_idx k (idx_after re 0 0 k) sts'
  end.
(* number of the last vector consumed *)
Fixpoint hw_last (m c : nat) (sts : list (nat * nat)) : nat :=
  match sts with
  | [] => c
  | (re, k) :: sts' => let steps := (k - m)%nat in hw_last (m + steps) (idx_after re m (S c) steps) sts'
  end.
Definition h_last (sts : list (nat * nat)) : nat :=
  match sts with
  | [] => O
  | (re, k) :: sts' => hw_last k (idx_after re 0 0 k) sts'
  end.

(* the n_to_select of the stages never decrease and never exceed the number of candidates *)
Fixpoint stages_ok (n m : nat) (sts : list (nat * nat)) : Prop :=
  match sts with
  | [] => True
  | (_, k) :: sts' => (m <= k)%nat /\ (k <= n)%nat /\ stages_ok n k sts'
  end.

(* ---- correspondence: selections and presented vectors of a history, from the refresh vectors *)
Definition hsched_ok (n : nat) (R : list (list Z)) (sts : list (nat * nat))
           (obs_sel : list nat) (obs_stream : list (list Z)) : bool :=
  let '(g, tr) := h_fit (repeat [] n) R sts in
  nl_eqb (sel g) obs_sel && zm_eqb tr obs_stream
  && c_ok (sst g)
  && match c_rest (sst g) with [] => true | _ => false end
  && forallb (fun r => Nat.eqb (length r) n) R.
