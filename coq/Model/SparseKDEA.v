(* C17, the numerical part of SparseKDE (src/skmatter/neighbors/_sparsekde.py).

   One definition, two interpretations: the routines below are written once over a record of
   scalar operations [numops] (the shallow counterpart of Base/MExp.v's dual interpreter, needed
   because exp/log, comparisons and data-dependent branches are outside the mexp language).
     - [fops]           binary64 (Coq primitive floats) with the elementary functions of the
                        small float library at the top of this file; this is what the
                        correspondence check runs against the implementation (rtol 1e-8);
     - Proofs/SparseKDEAP.v instantiates the same record with an arbitrary real closed field
                        and *uninterpreted* exp / log / round; the theorems are about that instance.
   -inf (np.log(0), the initial prob) is [None]; no theorem is stated about floats.
   Definitions only. *)
From Coq Require Import ZArith List Bool PrimFloat FloatOps.
From Verif Require Import FloatX MExp.
Import ListNotations.

(* ================================================================================== *)
(* A small binary64 library: rint, exp, log, sin, cos, atan2 (accurate to a few ulp on  *)
(* the ranges used; validated against numpy on every run, see harness/props/c17.py).      *)
(* ================================================================================== *)
Open Scope float_scope.

Definition f_ln2_hi := 0x1.62e42feep-1.
Definition f_ln2_lo := 0x1.a39ef35793c76p-33.
Definition f_inv_ln2 := 0x1.71547652b82fep+0.
Definition f_pi := 0x1.921fb54442d18p+1.
Definition f_pio2 := 0x1.921fb54442d18p+0.
Definition f_pio2_1 := 0x1.921fb544p+0.           (* first 33 bits of pi/2 *)
Definition f_pio2_1t := 0x1.0b4611a626331p-34.    (* pi/2 - f_pio2_1 *)
Definition f_2opi := 0x1.45f306dc9c883p-1.
Definition f_sqrt_half := 0x1.6a09e667f3bcdp-1.

(* np.round / rint: nearest integer, ties to even (|x| < 2^52; larger values are integers) *)
Definition frint (x : float) : float :=
  if ltb (abs x) 0x1p52 then
    (if ltb x 0 then (x - 0x1p52) + 0x1p52 else (x + 0x1p52) - 0x1p52)
  else x.

Definition fexp (x : float) : float :=
  if is_nan x then nan
  else if ltb 710 x then infinity
  else if ltb x (-746) then 0
  else
    let k := frint (x * f_inv_ln2) in
    let r := (x - k * f_ln2_hi) - k * f_ln2_lo in
    let p := fold_right (fun c acc => 1 + r * acc / c) 1
               [1; 2; 3; 4; 5; 6; 7; 8; 9; 10; 11; 12; 13; 14; 15] in
    Z.ldexp p (trunc_float k).

Definition flog (x : float) : float :=
  if is_nan x then nan
  else if ltb x 0 then nan
  else if eqb x 0 then neg_infinity
  else if eqb x infinity then infinity
  else
    let '(m0, e0) := Z.frexp x in
    let '(m, e) := if ltb m0 f_sqrt_half then (m0 * 2, (e0 - 1)%Z) else (m0, e0) in
    let t := (m - 1) / (m + 1) in
    let t2 := t * t in
    let s := fold_right (fun c acc => 1 / c + t2 * acc) 0
               [1; 3; 5; 7; 9; 11; 13; 15; 17; 19; 21; 23; 25; 27] in
    let fe := fof_Z e in
    fe * f_ln2_hi + (2 * t * s + fe * f_ln2_lo).

(* reduction to [-pi/4, pi/4] and the quadrant *)
Definition trig_reduce (x : float) : float * Z :=
  let k := frint (x * f_2opi) in
  ((x - k * f_pio2_1) - k * f_pio2_1t, Z.modulo (trunc_float k) 4).
Definition sin_poly (r : float) : float :=
  let r2 := r * r in
  r * fold_right (fun c acc => 1 - r2 * acc / c) 1 [6; 20; 42; 72; 110; 156; 210; 272; 342].
Definition cos_poly (r : float) : float :=
  let r2 := r * r in
  fold_right (fun c acc => 1 - r2 * acc / c) 1 [2; 12; 30; 56; 90; 132; 182; 240; 306].
Definition fsin (x : float) : float :=
  let '(r, q) := trig_reduce x in
  match q with 0%Z => sin_poly r | 1%Z => cos_poly r | 2%Z => - sin_poly r | _ => - cos_poly r end.
Definition fcos (x : float) : float :=
  let '(r, q) := trig_reduce x in
  match q with 0%Z => cos_poly r | 1%Z => - sin_poly r | 2%Z => - cos_poly r | _ => sin_poly r end.

Definition fatan_small (a : float) : float :=     (* 0 <= a <= 1 *)
  let a1 := a / (1 + sqrt (1 + a * a)) in
  let a2 := a1 / (1 + sqrt (1 + a1 * a1)) in
  let z := a2 * a2 in
  4 * (a2 * fold_right (fun c acc => 1 / c - z * acc) 0
               [1; 3; 5; 7; 9; 11; 13; 15; 17; 19; 21; 23; 25; 27]).
Definition fatan (t : float) : float :=
  let a := abs t in
  let v := if ltb 1 a then f_pio2 - fatan_small (1 / a) else fatan_small a in
  if ltb t 0 then - v else v.
Definition fatan2 (y x : float) : float :=
  if ltb 0 x then fatan (y / x)
  else if ltb x 0 then (if ltb y 0 then fatan (y / x) - f_pi else fatan (y / x) + f_pi)
  else if ltb 0 y then f_pio2 else if ltb y 0 then - f_pio2 else 0.

Close Scope float_scope.

(* ================================================================================== *)
(* scalar operations                                                                     *)
(* ================================================================================== *)
Record numops := mk_numops {
  nT : Type;
  nofZ : Z -> nT;
  nadd : nT -> nT -> nT;
  nsub : nT -> nT -> nT;
  nmul : nT -> nT -> nT;
  ndiv : nT -> nT -> nT;
  nsqrt : nT -> nT;
  nexp : nT -> nT;
  nlog : nT -> nT;
  nrint : nT -> nT;          (* np.round *)
  nltb : nT -> nT -> bool;   (* a < b   (false on NaN) *)
  neqb : nT -> nT -> bool    (* a == b  (false on NaN) *)
}.

Definition fops : numops :=
  mk_numops float fof_Z PrimFloat.add PrimFloat.sub PrimFloat.mul PrimFloat.div PrimFloat.sqrt
            fexp flog frint PrimFloat.ltb PrimFloat.eqb.

Fixpoint lmap2 {A B C} (f : A -> B -> C) (l : list A) (m : list B) : list C :=
  match l, m with
  | a :: l', b :: m' => f a b :: lmap2 f l' m'
  | _, _ => []
  end.

Fixpoint somes {A} (l : list (option A)) : list A :=
  match l with
  | [] => []
  | Some a :: t => a :: somes t
  | None :: t => somes t
  end.

(* ================================================================================== *)
(* _computes_kernel_density_estimation / score_samples / score                            *)
(* ================================================================================== *)
Section KDE.
  Variable N : numops.
  Let T := nT N.
  Let zero : T := nofZ N 0.
  Let one : T := nofZ N 1.

  (* np.sum on a short 1-d array: left to right *)
  Definition nsum (l : list T) : T := fold_left (nadd N) l zero.
  Definition ndot (u v : list T) : T := nsum (lmap2 (nmul N) u v).

  (* XY -= np.round(XY / cell) * cell, one coordinate *)
  Definition nwrap (c x : T) : T := nsub N x (nmul N (nrint N (ndiv N x c)) c).
  Definition ndelta (cell : option (list T)) (x y : list T) : list T :=
    match cell with
    | None => lmap2 (nsub N) x y
    | Some c => lmap2 nwrap c (lmap2 (nsub N) x y)
    end.
  (* pairwise_mahalanobis_distances(x, y, Hinv, cell, squared=True) for one pair:
     sum(XY * (Hinv @ XY)) *)
  Definition nmaha (cell : option (list T)) (Hinv : list (list T)) (x y : list T) : T :=
    let v := ndelta cell x y in ndot v (map (fun row => ndot row v) Hinv).

  (* np.any(descriptor != query) *)
  Definition row_neq (u v : list T) : bool :=
    existsb (fun b : bool => b) (lmap2 (fun a b => negb (neqb N a b)) u v).

  (* np.log with log(0) = -inf = None *)
  Definition xlog (w : T) : option T := if neqb N w zero then None else Some (nlog N w).
  Definition neghalf : T := ndiv N (nofZ N (-1)) (nofZ N 2).
  (* -0.5 * (normkernel + d2) + log(weight) *)
  Definition lnk (nk md w : T) : option T :=
    option_map (fun lw => nadd N (nmul N neghalf (nadd N nk md)) lw) (xlog w).

  Definition nmaxf (a b : T) : T := if nltb N a b then b else a.
  (* scipy.special.logsumexp on a 1-d array whose -inf entries are None *)
  Definition lse (l : list (option T)) : option T :=
    match somes l with
    | [] => None
    | a :: r =>
        let m := fold_left nmaxf r a in
        Some (nadd N (nlog N (nsum (map (fun z => nexp N (nsub N z m)) (a :: r)))) m)
    end.

  Variable cell : option (list T).
  Variables G D : list (list T).          (* _grids, descriptors *)
  Variables w W : list T.                 (* weights (per descriptor), _sample_weights (per grid) *)
  Variable mem : list (list nat).         (* _grid_neighbour *)
  Variable Hinv : list (list (list T)).   (* _bandwidth_inv *)
  Variable nk : list T.                   (* _normkernels *)
  Variable dim : Z.                       (* descriptors.shape[1] *)

  (* kdecut_squared = (3 * (sqrt(dim) + 1)) ** 2 *)
  Definition kdecut2 : T :=
    let a := nmul N (nofZ N 3) (nadd N (nsqrt N (nofZ N dim)) one) in nmul N a a.

  (* body of the loop over grid points for query x *)
  Definition kde_step (x : list T) (prob : option T) (j : nat) : option T :=
    let Hj := nth j Hinv [] in
    let nkj := nth j nk zero in
    let md := nmaha cell Hj x (nth j G []) in
    if nltb N kdecut2 md then
      lse [prob; lnk nkj md (nth j W zero)]
    else
      let nb := filter (fun i => row_neq (nth i D []) x) (nth j mem []) in
      match nb with
      | [] => prob                                           (* neighbours.size == 0: continue *)
      | _ => lse (prob :: map (fun i => lnk nkj (nmaha cell Hj (nth i D []) x) (nth i w zero)) nb)
      end.

  (* score_samples for one query: prob -= log(sum(_sample_weights)) *)
  Definition score_point (x : list T) : option T :=
    option_map (fun p => nsub N p (nlog N (nsum W)))
               (fold_left (kde_step x) (seq 0 (length G)) None).

  Definition score_samples (Q : list (list T)) : list (option T) := map score_point Q.

  (* score = np.sum(score_samples): -inf as soon as one entry is -inf *)
  Definition score (Q : list (list T)) : option T :=
    let l := score_samples Q in
    if forallb (fun o : option T => match o with Some _ => true | None => false end) l
    then Some (nsum (somes l)) else None.
End KDE.

(* ================================================================================== *)
(* float helpers for the correspondence check                                            *)
(* ================================================================================== *)
Open Scope float_scope.

(* |a - b| <= atol + rtol * max(|a|,|b|); false on NaN *)
Definition close1 (rtol atol a b : float) : bool :=
  let s := if ltb (abs a) (abs b) then abs b else abs a in
  leb (abs (a - b)) (atol + rtol * s).
(* extended values: None = -inf *)
Definition oclose (rtol atol : float) (a : option float) (b : float) : bool :=
  match a with
  | None => eqb b neg_infinity
  | Some v => close1 rtol atol v b
  end.
Fixpoint all2 {A B} (f : A -> B -> bool) (l : list A) (m : list B) : bool :=
  match l, m with
  | [], [] => true
  | a :: l', b :: m' => f a b && all2 f l' m'
  | _, _ => false
  end.

(* determinant by Laplace expansion along the first row (dimension <= 4 in the check) *)
Fixpoint drop_nth {A} (j : nat) (l : list A) : list A :=
  match l, j with
  | [], _ => []
  | _ :: t, O => t
  | a :: t, S j' => a :: drop_nth j' t
  end.
Fixpoint fdet (n : nat) (A : fmat) : float :=
  match n with
  | O => 1
  | S n' =>
      match A with
      | [] => 1
      | r :: rest =>
          fsum (map (fun j => (if Nat.even j then 1 else -1) * nth j r 0
                              * fdet n' (map (drop_nth j) rest)) (seq 0 (length r)))
      end
  end.

(* oracle-hint check: Hinv is the inverse of H (residual of H Hinv = I, relative to |H||Hinv|)
   and nk = dim*log(2 pi) + log det H *)
Definition hint_ok (tol : float) (dim : nat) (H Hinv : fmat) (nk : float) : bool :=
  let R := mmap2 sub (fmul dim H Hinv) (fid dim) in
  leb (fmaxabs R) (tol * (1 + fmaxabs H * fmaxabs Hinv)) &&
  close1 tol tol nk (fof_Z (Z.of_nat dim) * flog (2 * f_pi) + flog (fdet dim H)).

(* part B of the check: the mixture formula on the fitted state read from the implementation *)
Definition kde_case_ok (rtol atol htol : float) (dim : nat) (cell : option (list float))
    (G D : fmat) (w W : list float) (mem : list (list nat)) (H Hinv : list fmat) (nk : list float)
    (Q : fmat) (o_scores : list float) (o_score : float) : bool :=
  all2 (fun HH n => hint_ok htol dim (fst HH) (snd HH) n) (combine H Hinv) nk &&
  all2 (oclose rtol atol)
       (score_samples fops cell G D w W mem Hinv nk (Z.of_nat dim) Q) o_scores &&
  oclose rtol atol (score fops cell G D w W mem Hinv nk (Z.of_nat dim) Q) o_score.

(* self-test of the float library against values observed from numpy *)
Definition flib_ok (tol : float) (xs exps logs sins coss : list float)
    (ys at2 : list float) : bool :=
  all2 (fun x v => close1 tol 0 (fexp x) v) xs exps &&
  all2 (fun x v => close1 tol tol (flog (abs x)) v) xs logs &&
  all2 (fun x v => close1 tol tol (fsin x) v) xs sins &&
  all2 (fun x v => close1 tol tol (fcos x) v) xs coss &&
  all2 (fun xy v => close1 tol tol (fatan2 (fst xy) (snd xy)) v) (combine ys xs) at2.

(* ================================================================================== *)
(* Bandwidths: _covariance, _local_population, the two localisation tuners, effdim,     *)
(* oas, Silverman's factor.  The routines that are pure matrix algebra are mexp programs  *)
(* (theorems about eval_mx of the same terms in Proofs/SparseKDEAP.v); the rest is float- *)
(* only list code.  The model follows the REPAIRED code (fixes/F12, F14, F16):             *)
(*   effdim   0*log(0) := 0, negativity threshold relative to the largest eigenvalue;       *)
(*   oas      phi = min(1, num/den) if den > 0 else 1;                                       *)
(*   fspread tuner calls _local_population(cell, X, X[idx], ...).                             *)
(* ================================================================================== *)

(* ---- mexp programs ------------------------------------------------------------------- *)
Definition m_recip (a : mexp 1 1) : mexp 1 1 := MMap Frecip (MConst 0%Z) a.

(* _covariance(X, w, None); variables 0 := X (n x D), 1 := w (n x 1) *)
Section CovProg.
  Variables n D : nat.
  Let X : mexp n D := MVar 0.
  Let wv : mexp n 1 := MVar 1.
  Definition cp_totw : mexp 1 1 := MMul (MOnes 1 n) wv.
  Definition cp_p : mexp n 1 := MScale (m_recip cp_totw) wv.              (* w / totw *)
  Definition cp_xm : mexp 1 D :=                                          (* np.average *)
    MScale (m_recip (MMul (MOnes 1 n) cp_p)) (MMul (MTr cp_p) X).
  Definition cp_xxm : mexp n D := MSub X (MMul (MOnes n 1) cp_xm).
  Definition cp_c : mexp 1 1 := MSub (MConst 1%Z) (MMul (MTr cp_p) cp_p).  (* 1 - sum p^2 *)
  Definition cov_prog : mexp D D :=
    MScale (m_recip cp_c) (MMul (MTr (MMul (MDiag cp_p) cp_xxm)) cp_xxm).
End CovProg.

(* the weighted Gram matrix both branches of _covariance end with,
     xxmw = xxm * w.reshape(-1, 1) / totw;  cov = xxmw.T.dot(xxm);  cov /= 1 - sum((w / totw) ** 2),
   for ARBITRARY displacements xxm (whatever the centre xm was and whether or not they were wrapped
   into the cell); variables 0 := xxm (n x D), 1 := w (n x 1).  cov_prog is this program with
   xxm := X - average(X). *)
Definition gram_prog (n D : nat) : mexp D D :=
  MScale (m_recip (cp_c n)) (MMul (MTr (MMul (MDiag (cp_p n)) (MVar 0))) (MVar 0)).

(* oas (repaired) followed by the Silverman scaling; variables 0 := cov (D x D),
   1 := nlocal (1 x 1), 2 := Silverman factor s (1 x 1).
   psi = 1 - phi = max(0, (den - num)/den) if den > 0 else 0. *)
Section OasProg.
  Variable D : nat.
  Let cov : mexp D D := MVar 0.
  Let nl : mexp 1 1 := MVar 1.
  Let s : mexp 1 1 := MVar 2.
  Let one : mexp 1 1 := MConst 1%Z.
  Let Dc : mexp 1 1 := MConst (Z.of_nat D).
  Definition op_tr : mexp 1 1 := MTrace cov.
  Definition op_t2 : mexp 1 1 := MTrace (MHad cov cov).                   (* np.trace(cov**2) *)
  Definition op_a : mexp 1 1 := MSub one (MMul (MConst 2%Z) (m_recip Dc)). (* 1 - 2/D *)
  Definition op_num : mexp 1 1 := MAdd (MMul op_a op_t2) (MMul op_tr op_tr).
  Definition op_den : mexp 1 1 :=
    MSub (MMul (MAdd nl op_a) op_t2) (MMul (MMul op_tr op_tr) (m_recip Dc)).
  Definition op_psi : mexp 1 1 :=
    MMap Fpos_part (MConst 0%Z)
         (MMul (MSub op_den op_num) (MMap Finv_gt (MConst 0%Z) op_den)).
  Definition op_coef : mexp 1 1 := MMul (MMul (MSub one op_psi) op_tr) (m_recip Dc).
  Definition oas_prog : mexp D D :=
    MScale s (MAdd (MScale op_psi cov) (MScale op_coef (MId D))).
End OasProg.

(* ---- float-only list code ---------------------------------------------------------------- *)
Open Scope float_scope.

Definition fsqd (cell : option (list float)) (u v : list float) : float :=
  fsum (map (fun z => z * z) (ndelta fops cell u v)).

(* _local_population(cell, X, xi, W, sigma2) -> (wl, num) *)
Definition local_pop (cell : option (list float)) (X : fmat) (xi W : list float) (s2 : float)
  : list float * float :=
  let wl := lmap2 (fun xj wj => fexp (-0.5 / s2 * fsqd cell xj xi) * wj) X W in
  (wl, fsum wl).

Definition col1 (v : list float) : fmat := map (fun x => [x]) v.
Definition env2 (A B : fmat) (x : nat) : fmat := match x with O => A | _ => B end.
Definition env3 (A B C : fmat) (x : nat) : fmat :=
  match x with O => A | S O => B | _ => C end.

(* _covariance(X, w, cell): free space = the mexp program cov_prog; periodic = circular mean and
   wrapped displacements as written (float list code), then the mexp program gram_prog *)
Definition covariance_f (cell : option (list float)) (D : nat) (X : fmat) (wl : list float) : fmat :=
  match cell with
  | None => eval_f (env2 X (col1 wl)) (cov_prog (length X) D)
  | Some c =>
      let totw := fsum wl in
      let p := map (fun x => x / totw) wl in
      let sp := fsum p in
      let avg (f : float -> float) : list float :=
        map (fun k => fsum (lmap2 (fun r pi => f (nth k r 0) * (2 * f_pi) / nth k c 0 * pi) X p) / sp)
            (seq 0 D) in
      let xm := lmap2 fatan2 (avg fsin) (avg fcos) in
      let xxm := map (fun r => lmap2 (fun ck z => z - frint (z / ck) * ck) c (lmap2 sub r xm)) X in
      eval_f (env2 xxm (col1 wl)) (gram_prog (length X) D)
  end.

Definition ftrace (A : fmat) : float := fsum (map (fun i => fget A i i) (seq 0 (length A))).

(* the fraction-of-points tuner, on fuel; None = out of fuel (the implementation does not return) *)
Fixpoint grow (fuel : nat) (lp : float -> list float * float) (lim tune s2 : float)
    (cur : list float * float) : option (float * (list float * float)) :=
  if ltb (snd cur) lim then
    match fuel with
    | O => None
    | S f => let s2' := s2 + tune in grow f lp lim tune s2' (lp s2')
    end
  else Some (s2, cur).

Fixpoint bisect (fuel : nat) (lp : float -> list float * float) (lim delta : float)
    (step s2 fl : float) : option (float * (list float * float)) :=
  match fuel with
  | O => None
  | S f =>
      let s2' := if ltb lim fl then s2 - step else s2 + step in
      let cur := lp s2' in
      if ltb (abs (snd cur - lim)) delta then Some (s2', cur)
      else bisect f lp lim delta (step / 2) s2' (snd cur)
  end.

Definition tune_points (lp : float -> list float * float) (fpoints Wi delta tune s2 : float)
    (cur : list float * float) : option (float * (list float * float)) :=
  let lim := if leb fpoints Wi then Wi + delta else fpoints in
  match grow 5000 lp lim tune s2 cur with
  | None => None
  | Some (s2', cur') => bisect 1100 lp lim delta (tune / 2) s2' (snd cur')
  end.

(* effdim (repaired) from the eigenvalue hints; None = LinAlgError *)
Definition f_eps := 0x1p-52.
Definition fmaxl (l : list float) : float := fold_left (fun a x => if ltb a x then x else a) l neg_infinity.
Definition fminl (l : list float) : float := fold_left (fun a x => if ltb x a then x else a) l infinity.
Definition effdim_f (D : nat) (eig : list float) : option float :=
  let big := fmaxl (map abs eig) in
  if leb (fminl eig) (- (fof_Z (Z.of_nat D)) * f_eps * (if ltb 1 big then big else 1)) then None
  else
    let e := map (fun x => if ltb x 0 then 0 else x) eig in
    let s := fsum e in
    let p := filter (fun x => ltb 0 x) (map (fun x => x / s) e) in
    Some (fexp (- fsum (map (fun x => x * flog x) p))).

(* the eigenvalue hint is validated through the power sums  sum lambda^k = tr(cov^k), k = 1..D *)
Fixpoint fpowl (k : nat) (x : float) : float := match k with O => 1 | S k' => x * fpowl k' x end.
Fixpoint mpow (D k : nat) (A : fmat) : fmat := match k with O => fid D | S k' => fmul D A (mpow D k' A) end.
Definition eig_hint_ok (tol : float) (D : nat) (cov : fmat) (eig : list float) : bool :=
  let sc := fmaxabs cov in
  Nat.eqb (length eig) D &&
  forallb (fun k => leb (abs (fsum (map (fpowl k) eig) - ftrace (mpow D k cov)))
                        (tol * fof_Z (Z.of_nat D) * fpowl k (fof_Z (Z.of_nat D) * sc)))
          (seq 1 D).

(* _bandwidth_estimation_from_localization *)
Definition bandwidth_from (tol : float) (cell : option (list float)) (D : nat) (ns : float)
    (X : fmat) (wl : list float) (fl : float) (eig : list float) : option fmat :=
  let cov := covariance_f cell D X wl in
  let nlocal := fl * ns in
  if negb (eig_hint_ok tol D cov eig) then None
  else match effdim_f D eig with
       | None => None
       | Some d =>
           let s := fexp (2 / (d + 4) * flog (4 / nlocal / (d + 2))) in
           Some (eval_f (env3 cov [[nlocal]] [[s]]) (oas_prog D))
       end.

(* min over the other grid points of the squared (periodic) distance *)
Definition mindist_f (cell : option (list float)) (X : fmat) (i : nat) : float :=
  fminl (map (fun j => if Nat.eqb i j then infinity else fsqd cell (nth i X []) (nth j X []))
             (seq 0 (length X))).

(* _computes_localized_bandwidth; ns = nsamples, W = _sample_weights, eigs = hints per grid point *)
Definition fit_bandwidths (tol : float) (cell : option (list float)) (D : nat) (ns : float)
    (X : fmat) (W : list float) (fpoints fspread : float) (eigs : list (list float))
  : list (option fmat) :=
  let cov := covariance_f cell D X W in
  let tune := match cell with
              | Some c => fsum (map (fun x => x * x) c)
              | None => ftrace cov
              end in
  let s20 := if ltb 0 fspread then tune * (fspread * fspread) else tune in
  let fp := if ltb 0 fspread then -1 else fpoints in
  let delta := 1 / ns in
  map (fun i =>
         let xi := nth i X [] in
         let lp := local_pop cell X xi W in
         let cur := lp s20 in
         let res :=
           if ltb 0 fp then tune_points lp fp (nth i W 0) delta tune s20 cur
           else if ltb s20 (snd cur) then let m := mindist_f cell X i in Some (m, lp m)
           else Some (s20, cur) in
         match res with
         | None => None
         | Some (_, (wl, fl)) => bandwidth_from tol cell D ns X wl fl (nth i eigs [])
         end)
      (seq 0 (length X)).

(* part C of the check *)
Definition bw_case_ok (rtol atol htol : float) (cell : option (list float)) (D : nat) (ns : float)
    (X : fmat) (W : list float) (fpoints fspread : float) (eigs : list (list float))
    (o_bw : list fmat) : bool :=
  all2 (fun m o => match m with Some h => fclose rtol atol h o | None => false end)
       (fit_bandwidths htol cell D ns X W fpoints fspread eigs) o_bw.
