(* C17, the numerical part of SparseKDE (src/skmatter/neighbors/_sparsekde.py).

   One definition, two interpretations: the routines below are written once over a record of
   scalar operations [numops] (the shallow counterpart of Base/MExp.v's dual interpreter, needed
   because exp/log, comparisons and data-dependent branches are outside the mexp language).
     - [fops]           binary64 (Coq primitive floats) with the elementary functions of the
                        small float library at the top of this file; this is what the
                        correspondence check runs against the implementation (rtol 1e-8);
     - Proofs/SparseKDEAP.v instantiates the same record with an arbitrary real closed field
                        and *uninterpreted* exp / log / round; the theorems are about that instance.
   -inf (np.log(0), the initial prob) is [None]; no theorem is stated about floats.
   Definitions only. *)
From Coq Require Import ZArith List Bool PrimFloat FloatOps.
From Verif Require Import FloatX MExp.
Import ListNotations.

(* ================================================================================== *)
(* A small binary64 library: rint, exp, log, sin, cos, atan2 (accurate to a few ulp on  *)
(* the ranges used; validated against numpy on every run, see harness/props/c17.py).      *)
(* ================================================================================== *)
Open Scope float_scope.

Definition f_ln2_hi := 0x1.62e42feep-1.
Definition f_ln2_lo := 0x1.a39ef35793c76p-33.
Definition f_inv_ln2 := 0x1.71547652b82fep+0.
Definition f_pi := 0x1.921fb54442d18p+1.
Definition f_pio2 := 0x1.921fb54442d18p+0.
Definition f_pio2_1 := 0x1.921fb544p+0.           (* first 33 bits of pi/2 *)
Definition f_pio2_1t := 0x1.0b4611a626331p-34.    (* pi/2 - f_pio2_1 *)
Definition f_2opi := 0x1.45f306dc9c883p-1.
Definition f_sqrt_half := 0x1.6a09e667f3bcdp-1.

(* np.round / rint: nearest integer, ties to even (|x| < 2^52; larger values are integers) *)
Definition frint (x : float) : float :=
  if ltb (abs x) 0x1p52 then
    (if ltb x 0 then (x - 0x1p52) + 0x1p52 else (x + 0x1p52) - 0x1p52)
  else x.

Definition fexp (x : float) : float :=
  if is_nan x then nan
  else if ltb 710 x then infinity
  else if ltb x (-746) then 0
  else
    let k := frint (x * f_inv_ln2) in
    let r := (x - k * f_ln2_hi) - k * f_ln2_lo in
    let p := fold_right (fun c acc => 1 + r * acc / c) 1
               [1; 2; 3; 4; 5; 6; 7; 8; 9; 10; 11; 12; 13; 14; 15] in
    Z.ldexp p (trunc_float k).

Definition flog (x : float) : float :=
  if is_nan x then nan
  else if ltb x 0 then nan
  else if eqb x 0 then neg_infinity
  else if eqb x infinity then infinity
  else
    let '(m0, e0) := Z.frexp x in
    let '(m, e) := if ltb m0 f_sqrt_half then (m0 * 2, (e0 - 1)%Z) else (m0, e0) in
    let t := (m - 1) / (m + 1) in
    let t2 := t * t in
    let s := fold_right (fun c acc => 1 / c + t2 * acc) 0
               [1; 3; 5; 7; 9; 11; 13; 15; 17; 19; 21; 23; 25; 27] in
    let fe := fof_Z e in
    fe * f_ln2_hi + (2 * t * s + fe * f_ln2_lo).

(* reduction to [-pi/4, pi/4] and the quadrant *)
Definition trig_reduce (x : float) : float * Z :=
  let k := frint (x * f_2opi) in
  ((x - k * f_pio2_1) - k * f_pio2_1t, Z.modulo (trunc_float k) 4).
Definition sin_poly (r : float) : float :=
  let r2 := r * r in
  r * fold_right (fun c acc => 1 - r2 * acc / c) 1 [6; 20; 42; 72; 110; 156; 210; 272; 342].
Definition cos_poly (r : float) : float :=
  let r2 := r * r in
  fold_right (fun c acc => 1 - r2 * acc / c) 1 [2; 12; 30; 56; 90; 132; 182; 240; 306].
Definition fsin (x : float) : float :=
  let '(r, q) := trig_reduce x in
  match q with 0%Z => sin_poly r | 1%Z => cos_poly r | 2%Z => - sin_poly r | _ => - cos_poly r end.
Definition fcos (x : float) : float :=
  let '(r, q) := trig_reduce x in
  match q with 0%Z => cos_poly r | 1%Z => - sin_poly r | 2%Z => - cos_poly r | _ => sin_poly r end.

Definition fatan_small (a : float) : float :=     (* 0 <= a <= 1 *)
  let a1 := a / (1 + sqrt (1 + a * a)) in
  let a2 := a1 / (1 + sqrt (1 + a1 * a1)) in
  let z := a2 * a2 in
  4 * (a2 * fold_right (fun c acc => 1 / c - z * acc) 0
               [1; 3; 5; 7; 9; 11; 13; 15; 17; 19; 21; 23; 25; 27]).
Definition fatan (t : float) : float :=
  let a := abs t in
  let v := if ltb 1 a then f_pio2 - fatan_small (1 / a) else fatan_small a in
  if ltb t 0 then - v else v.
Definition fatan2 (y x : float) : float :=
  if ltb 0 x then fatan (y / x)
  else if ltb x 0 then (if ltb y 0 then fatan (y / x) - f_pi else fatan (y / x) + f_pi)
  else if ltb 0 y then f_pio2 else if ltb y 0 then - f_pio2 else 0.

Close Scope float_scope.

(* ================================================================================== *)
(* scalar operations                                                                     *)
(* ================================================================================== *)
Record numops := mk_numops {
  nT : Type;
  nofZ : Z -> nT;
  nadd : nT -> nT -> nT;
  nsub : nT -> nT -> nT;
  nmul : nT -> nT -> nT;
  ndiv : nT -> nT -> nT;
  nsqrt : nT -> nT;
  nexp : nT -> nT;
  nlog : nT -> nT;
  nrint : nT -> nT;          (* np.round *)
  nltb : nT -> nT -> bool;   (* a < b   (false on NaN) *)
  neqb : nT -> nT -> bool    (* a == b  (false on NaN) *)
}.

Definition fops : numops :=
  mk_numops float fof_Z PrimFloat.add PrimFloat.sub PrimFloat.mul PrimFloat.div PrimFloat.sqrt
            fexp flog frint PrimFloat.ltb PrimFloat.eqb.

Fixpoint lmap2 {A B C} (f : A -> B -> C) (l : list A) (m : list B) : list C :=
  match l, m with
  | a :: l', b :: m' => f a b :: lmap2 f l' m'
  | _, _ => []
  end.

Fixpoint somes {A} (l : list (option A)) : list A :=
  match l with
  | [] => []
  | Some a :: t => a :: somes t
  | None :: t => somes t
  end.

(* ================================================================================== *)
(* _computes_kernel_density_estimation / score_samples / score                            *)
(* ================================================================================== *)
Section KDE.
  Variable N : numops.
  Let T := nT N.
  Let zero : T := nofZ N 0.
  Let one : T := nofZ N 1.

  (* np.sum on a short 1-d array: left to right *)
  Definition nsum (l : list T) : T := fold_left (nadd N) l zero.
  Definition ndot (u v : list T) : T := nsum (lmap2 (nmul N) u v).

  (* XY -= np.round(XY / cell) * cell, one coordinate *)
  Definition nwrap (c x : T) : T := nsub N x (nmul N (nrint N (ndiv N x c)) c).
  Definition ndelta (cell : option (list T)) (x y : list T) : list T :=
    match cell with
    | None => lmap2 (nsub N) x y
    | Some c => lmap2 nwrap c (lmap2 (nsub N) x y)
    end.
  (* pairwise_mahalanobis_distances(x, y, Hinv, cell, squared=True) for one pair:
     sum(XY * (Hinv @ XY)) *)
  Definition nmaha (cell : option (list T)) (Hinv : list (list T)) (x y : list T) : T :=
    let v := ndelta cell x y in ndot v (map (fun row => ndot row v) Hinv).

  (* np.any(descriptor != query) *)
  Definition row_neq (u v : list T) : bool :=
    existsb (fun b : bool => b) (lmap2 (fun a b => negb (neqb N a b)) u v).

  (* np.log with log(0) = -inf = None *)
  Definition xlog (w : T) : option T := if neqb N w zero then None else Some (nlog N w).
  Definition neghalf : T := ndiv N (nofZ N (-1)) (nofZ N 2).
  (* -0.5 * (normkernel + d2) + log(weight) *)
  Definition lnk (nk md w : T) : option T :=
    option_map (fun lw => nadd N (nmul N neghalf (nadd N nk md)) lw) (xlog w).

  Definition nmaxf (a b : T) : T := if nltb N a b then b else a.
  (* scipy.special.logsumexp on a 1-d array whose -inf entries are None *)
  Definition lse (l : list (option T)) : option T :=
    match somes l with
    | [] => None
    | a :: r =>
        let m := fold_left nmaxf r a in
        Some (nadd N (nlog N (nsum (map (fun z => nexp N (nsub N z m)) (a :: r)))) m)
    end.

  Variable cell : option (list T).
  Variables G D : list (list T).          (* _grids, descriptors *)
  Variables w W : list T.                 (* weights (per descriptor), _sample_weights (per grid) *)
  Variable mem : list (list nat).         (* _grid_neighbour *)
  Variable Hinv : list (list (list T)).   (* _bandwidth_inv *)
  Variable nk : list T.                   (* _normkernels *)
  Variable dim : Z.                       (* descriptors.shape[1] *)

  (* kdecut_squared = (3 * (sqrt(dim) + 1)) ** 2 *)
  Definition kdecut2 : T :=
    let a := nmul N (nofZ N 3) (nadd N (nsqrt N (nofZ N dim)) one) in nmul N a a.

  (* body of the loop over grid points for query x *)
  Definition kde_step (x : list T) (prob : option T) (j : nat) : option T :=
    let Hj := nth j Hinv [] in
    let nkj := nth j nk zero in
    let md := nmaha cell Hj x (nth j G []) in
    if nltb N kdecut2 md then
      lse [prob; lnk nkj md (nth j W zero)]
    else
      let nb := filter (fun i => row_neq (nth i D []) x) (nth j mem []) in
      match nb with
      | [] => prob                                           (* neighbours.size == 0: continue *)
      | _ => lse (prob :: map (fun i => lnk nkj (nmaha cell Hj (nth i D []) x) (nth i w zero)) nb)
      end.

  (* score_samples for one query: prob -= log(sum(_sample_weights)) *)
  Definition score_point (x : list T) : option T :=
    option_map (fun p => nsub N p (nlog N (nsum W)))
               (fold_left (kde_step x) (seq 0 (length G)) None).

  Definition score_samples (Q : list (list T)) : list (option T) := map score_point Q.

  (* score = np.sum(score_samples): -inf as soon as one entry is -inf *)
  Definition score (Q : list (list T)) : option T :=
    let l := score_samples Q in
    if forallb (fun o : option T => match o with Some _ => true | None => false end) l
    then Some (nsum (somes l)) else None.
End KDE.

(* ================================================================================== *)
(* float helpers for the correspondence check                                            *)
(* ================================================================================== *)
Open Scope float_scope.

(* |a - b| <= atol + rtol * max(|a|,|b|); false on NaN *)
Definition close1 (rtol atol a b : float) : bool :=
  let s := if ltb (abs a) (abs b) then abs b else abs a in
  leb (abs (a - b)) (atol + rtol * s).
(* extended values: None = -inf *)
Definition oclose (rtol atol : float) (a : option float) (b : float) : bool :=
  match a with
  | None => eqb b neg_infinity
  | Some v => close1 rtol atol v b
  end.
Fixpoint all2 {A B} (f : A -> B -> bool) (l : list A) (m : list B) : bool :=
  match l, m with
  | [], [] => true
  | a :: l', b :: m' => f a b && all2 f l' m'
  | _, _ => false
  end.

(* determinant by Laplace expansion along the first row (dimension <= 4 in the check) *)
Fixpoint drop_nth {A} (j : nat) (l : list A) : list A :=
  match l, j with
  | [], _ => []
  | _ :: t, O => t
  | a :: t, S j' => a :: drop_nth j' t
  end.
Fixpoint fdet (n : nat) (A : fmat) : float :=
  match n with
  | O => 1
  | S n' =>
      match A with
      | [] => 1
      | r :: rest =>
          fsum (map (fun j => (if Nat.even j then 1 else -1) * nth j r 0
                              * fdet n' (map (drop_nth j) rest)) (seq 0 (length r)))
      end
  end.

(* oracle-hint check: Hinv is the inverse of H (residual of H Hinv = I, relative to |H||Hinv|)
   and nk = dim*log(2 pi) + log det H *)
Definition hint_ok (tol : float) (dim : nat) (H Hinv : fmat) (nk : float) : bool :=
  let R := mmap2 sub (fmul dim H Hinv) (fid dim) in
  leb (fmaxabs R) (tol * (1 + fmaxabs H * fmaxabs Hinv)) &&
  close1 tol tol nk (fof_Z (Z.of_nat dim) * flog (2 * f_pi) + flog (fdet dim H)).

(* part B of the check: the mixture formula on the fitted state read from the implementation *)
Definition kde_case_ok (rtol atol htol : float) (dim : nat) (cell : option (list float))
    (G D : fmat) (w W : list float) (mem : list (list nat)) (H Hinv : list fmat) (nk : list float)
    (Q : fmat) (o_scores : list float) (o_score : float) : bool :=
  all2 (fun HH n => hint_ok htol dim (fst HH) (snd HH) n) (combine H Hinv) nk &&
  all2 (oclose rtol atol)
       (score_samples fops cell G D w W mem Hinv nk (Z.of_nat dim) Q) o_scores &&
  oclose rtol atol (score fops cell G D w W mem Hinv nk (Z.of_nat dim) Q) o_score.

(* self-test of the float library against values observed from numpy *)
Definition flib_ok (tol : float) (xs exps logs sins coss : list float)
    (ys at2 : list float) : bool :=
  all2 (fun x v => close1 tol 0 (fexp x) v) xs exps &&
  all2 (fun x v => close1 tol tol (flog (abs x)) v) xs logs &&
  all2 (fun x v => close1 tol tol (fsin x) v) xs sins &&
  all2 (fun x v => close1 tol tol (fcos x) v) xs coss &&
  all2 (fun xy v => close1 tol tol (fatan2 (fst xy) (snd xy)) v) (combine ys xs) at2.
