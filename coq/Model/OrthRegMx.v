(* OrthogonalRegression over an arbitrary real closed field: the hypotheses on the SVD oracle
   variables, stated with the programs of Model/OrthReg.v interpreted by [eval_mx].
   Definitions only.  ssreflect style. *)
From mathcomp Require Import all_ssreflect all_algebra.
From Verif Require Import MExp MExpMx Ridge2Fold Ridge2FoldMx OrthReg.
Set Implicit Arguments.
Unset Strict Implicit.
Unset Printing Implicit Defensive.
Import GRing.Theory Num.Theory.
Local Open Scope ring_scope.

Section OrthRegMx.
  Variable F : rcfType.

  (* padded mode: (oUp, oSp, oVp) is an SVD of A^T B with square orthogonal factors *)
  Definition pad_hyp (env : env_mx F) (n q : nat) : Prop :=
    [/\ eval_mx env (orth_of q q (MVar (m:=q) (n:=q) oUp)) = 0,
        eval_mx env (orth_of q q (MVar (m:=q) (n:=q) oVp)) = 0,
        eval_mx env (recon_of q (cross_prog n q (pA n q) (pB n q)) oUp oSp oVp) = 0
      & forall i : 'I_q, 0 <= env q 1%N oSp i ord0].

  (* projector mode: Uc (p x r), Vc (t x r) have orthonormal columns (the thin SVD factors of
     the linear coefficients - nothing else about them is needed), (oUi, oSi, oVi) is an SVD of
     (X Uc)^T (y Vc) with square orthogonal factors *)
  Definition proj_hyp (env : env_mx F) (n p t r : nat) : Prop :=
    [/\ eval_mx env (orth_of p r (MVar (m:=p) (n:=r) oUc)) = 0,
        eval_mx env (orth_of t r (MVar (m:=t) (n:=r) oVc)) = 0,
        eval_mx env (orth_of r r (MVar (m:=r) (n:=r) oUi)) = 0,
        eval_mx env (orth_of r r (MVar (m:=r) (n:=r) oVi)) = 0
      & eval_mx env (recon_of r (cross_prog n r (jA n p r) (jB n t r)) oUi oSi oVi) = 0
        /\ forall i : 'I_r, 0 <= env r 1%N oSi i ord0].

  (* value of a 1 x 1 program *)
  Definition val11 (env : env_mx F) (e : mexp 1 1) : F := eval_mx env e ord0 ord0.
End OrthRegMx.
