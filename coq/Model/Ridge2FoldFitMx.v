(* Ridge2FoldCV.fit as ONE function of the data over an arbitrary real closed field:
   guards ([fit_guard] of Model/Ridge2FoldFit.v at the field operations), fold choice (first
   yield of the split, [kfold_first] for unshuffled KFold), row selection X[fold_idx]
   ([take_rows]), then the `_2fold_cv` model of Model/Ridge2FoldMx.v on the environment built
   from the data ([data_env]).  The SVD factors remain oracle values ([r2f_oracles]),
   constrained by [is_svd] in the theorems.
   Definitions only.  ssreflect style. *)
From mathcomp Require Import all_ssreflect all_algebra.
From Verif Require Import MExp MExpMx Ridge2Fold Ridge2FoldMx Ridge2FoldFit.
Set Implicit Arguments.
Unset Strict Implicit.
Unset Printing Implicit Defensive.
Import GRing.Theory Num.Theory.
Local Open Scope ring_scope.

Section FitMx.
  Variable F : rcfType.

  (* A[idx] for an integer index array (rows; an index outside the data gives a zero row here,
     an IndexError in numpy: the theorems assume all indices < n where it matters) *)
  Definition take_rows n q (idx : seq nat) (A : 'M[F]_(n, q)) : 'M[F]_(size idx, q) :=
    \matrix_(i, j) (if insub (nth 0%N idx i) is Some r then A r j else 0).

  Record r2f_data := Data {
    a_n : nat; a_p : nat; a_t : nat; a_nn : nat;
    a_X : 'M[F]_(a_n, a_p); a_y : 'M[F]_(a_n, a_t); a_Xnew : 'M[F]_(a_nn, a_p);
    a_spec : cv_spec;                       (* how the folds are chosen *)
    a_k1 : nat; a_k2 : nat; a_k : nat }.    (* numbers of singular values *)

  (* fold1_idx, fold2_idx = next(cv.split(X)) *)
  Definition a_f1 (a : r2f_data) : seq nat :=
    fst (List.hd (nil, nil) (splits_of_spec (a_n a) (a_spec a))).
  Definition a_f2 (a : r2f_data) : seq nat :=
    snd (List.hd (nil, nil) (splits_of_spec (a_n a) (a_spec a))).

  Definition X_fold1 a := take_rows (a_f1 a) (a_X a).
  Definition y_fold1 a := take_rows (a_f1 a) (a_y a).
  Definition X_fold2 a := take_rows (a_f2 a) (a_X a).
  Definition y_fold2 a := take_rows (a_f2 a) (a_y a).

  (* np.linalg.svd results (oracle) *)
  Record r2f_oracles (a : r2f_data) := Oracles {
    q_U1 : 'M[F]_(size (a_f1 a), a_k1 a); q_S1 : 'cV[F]_(a_k1 a); q_V1 : 'M[F]_(a_p a, a_k1 a);
    q_U2 : 'M[F]_(size (a_f2 a), a_k2 a); q_S2 : 'cV[F]_(a_k2 a); q_V2 : 'M[F]_(a_p a, a_k2 a);
    q_U : 'M[F]_(a_n a, a_k a); q_S : 'cV[F]_(a_k a); q_V : 'M[F]_(a_p a, a_k a) }.

  Definition is_svd m p k (A : 'M[F]_(m, p)) (U : 'M[F]_(m, k)) (S : 'cV[F]_k) (V : 'M[F]_(p, k)) : Prop :=
    [/\ U^T *m U = 1%:M, V^T *m V = 1%:M, A = U *m diag_mx S^T *m V^T,
        (forall i j : 'I_k, (i <= j)%N -> S j ord0 <= S i ord0)
      & (forall i : 'I_k, 0 <= S i ord0)].

  Definition data_env (a : r2f_data) (q : r2f_oracles a) : env_mx F := fun m n x =>
    if x == vX1 then inj_mx (X_fold1 a) m n else if x == vy1 then inj_mx (y_fold1 a) m n
    else if x == vX2 then inj_mx (X_fold2 a) m n else if x == vy2 then inj_mx (y_fold2 a) m n
    else if x == vX then inj_mx (a_X a) m n else if x == vy then inj_mx (a_y a) m n
    else if x == vU1 then inj_mx (q_U1 q) m n else if x == vS1 then inj_mx (q_S1 q) m n
    else if x == vV1 then inj_mx (q_V1 q) m n
    else if x == vU2 then inj_mx (q_U2 q) m n else if x == vS2 then inj_mx (q_S2 q) m n
    else if x == vV2 then inj_mx (q_V2 q) m n
    else if x == vU then inj_mx (q_U q) m n else if x == vS then inj_mx (q_S q) m n
    else if x == vV then inj_mx (q_V q) m n
    else if x == vXnew then inj_mx (a_Xnew a) m n else 0.

  Definition data_dims (a : r2f_data) : r2f_dims :=
    Dims (size (a_f1 a)) (size (a_f2 a)) (a_n a) (a_p a) (a_t a) (a_k1 a) (a_k2 a) (a_k a) (a_nn a).

  (* the remaining constructor arguments of the estimator *)
  Record r2f_params (t : nat) := Params {
    p_scorer : forall m : nat, 'M[F]_(m, t) -> 'M[F]_(m, t) -> F;
    p_alphas : seq F;
    p_method : nat;      (* 0 "tikhonov", 1 "cutoff", other: unknown string *)
    p_atype : nat;       (* 0 "absolute", 1 "relative", other: unknown string *)
    p_rcond : F }.       (* max(X.shape) * eps *)

  Definition data_cfg (a : r2f_data) (q : r2f_oracles a) (w : r2f_params (a_t a)) :
      r2f_cfg F (d_t (data_dims a)) :=
    Cfg (data_env q) (p_scorer w) (p_alphas w) (p_atype w == 1%N) (p_method w == 1%N) (p_rcond w).

  Record r2f_result (t p nn : nat) := Result {
    res_cv : seq F; res_alpha : F; res_best : F;
    res_coef : 'M[F]_(t, p); res_predict : 'M[F]_(nn, t) }.

  (* fit (then predict on Xnew): rejected with the error of the first failing guard, or the
     fitted attributes *)
  Definition fit_mx (a : r2f_data) (q : r2f_oracles a) (w : r2f_params (a_t a)) :
      fit_error + r2f_result (a_t a) (a_p a) (a_nn a) :=
    match fit_guard (rops F) (p_method w) (p_atype w) (p_alphas w) with
    | Some e => inl e
    | None => let c := data_cfg q w in
              inr (@Result (a_t a) (a_p a) (a_nn a)
                     (cv_values c) (alpha_ c) (best_score c) (coef_ c) (predict c))
    end.

  (* what the theorems assume: the three oracle triples are SVDs of the matrices the code
     decomposes (rows of fold 1, rows of fold 2, all rows), rcond >= 0, the grid is non-empty,
     and - for the absolute type only; the relative type is checked by the guard - it is
     non-negative *)
  Definition data_hyps (a : r2f_data) (q : r2f_oracles a) (w : r2f_params (a_t a)) : Prop :=
    [/\ is_svd (X_fold1 a) (q_U1 q) (q_S1 q) (q_V1 q),
        is_svd (X_fold2 a) (q_U2 q) (q_S2 q) (q_V2 q),
        is_svd (a_X a) (q_U q) (q_S q) (q_V q),
        0 <= p_rcond w
      & (0 < size (p_alphas w))%N /\ (p_atype w != 1%N -> all (fun x => 0 <= x) (p_alphas w))].

  (* an explicit regularised least-squares fit of y on A for the parameter alpha, restricted to
     the singular directions the method keeps (those above rcond, and above alpha for the
     cut-off method): ANY W that solves the regularised normal equations of
     Ar = U diag(strunc s) V^T and lies in the row space of Ar *)
  Definition explicit_fit m p k t (U : 'M[F]_(m, k)) (S : 'cV[F]_k) (V : 'M[F]_(p, k))
      (y : 'M[F]_(m, t)) (cutoff : bool) (rcond alpha : F) (W : 'M[F]_(p, t)) : Prop :=
    reg_solution U (strunc cutoff rcond alpha S) V y (aeff cutoff alpha) W.
End FitMx.
