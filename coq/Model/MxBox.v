(* Building a layer-A environment [env_mx F] from a list of matrices of different
   shapes, so that a Gallina wrapper can feed the result of one mexp program (mean_,
   scale_, ...) to another one through a variable.  A variable read at a shape other
   than the stored one yields 0 (the programs of the models never do that; the
   lemma [inj_mxE] is what the proofs use).  Definitions only. *)
From mathcomp Require Import all_ssreflect all_algebra.
From Verif Require Import MExp MExpMx.
Set Implicit Arguments.
Unset Strict Implicit.
Unset Printing Implicit Defensive.
Import GRing.Theory.
Local Open Scope ring_scope.

Section Box.
  Variable F : rcfType.

  Definition inj_mx (a b m n : nat) (A : 'M[F]_(a, b)) : 'M[F]_(m, n) :=
    match a =P m, b =P n with
    | ReflectT e1, ReflectT e2 => castmx (e1, e2) A
    | _, _ => 0
    end.

  Definition boxed := {a : nat & {b : nat & 'M[F]_(a, b)}}.
  Definition box (a b : nat) (A : 'M[F]_(a, b)) : boxed := existT _ a (existT _ b A).
  Definition unbox (m n : nat) (bx : boxed) : 'M[F]_(m, n) := inj_mx m n (projT2 (projT2 bx)).
  Definition box0 : boxed := box (0 : 'M[F]_(0, 0)).

  (* variable x of shape m x n  :=  the x-th matrix of the list *)
  Definition env_of (l : seq boxed) : env_mx F := fun m n x => unbox m n (nth box0 l x).
End Box.
