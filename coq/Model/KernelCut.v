(* C12 (extension) — the cut-off of np.linalg.pinv(Kmm, rcond) inside the model.

   SparseKernelCenterer.fit calls  np.linalg.pinv(Kmm, self.rcond):  singular values
   s_j <= rcond * max(s) are discarded, the others inverted.  For a symmetric Kmm with the
   spectral decomposition  Kmm = U diag(v) U^T  (U orthogonal; LAPACK oracle, validated per
   case by its residuals) the singular values are |v_j|, and
        pinv(Kmm, rcond) = U diag(f_j) U^T,   f_j = 1/v_j  if |v_j| > t  else 0,
        t = rcond * max_j |v_j|                       (a RELATIVE cut-off).
   Model/KernelNorm.v takes the pseudo-inverse as an opaque hint P; here P is COMPUTED by the
   model from (U, v, rcond), so the guard itself is part of the model.

   Variables (in addition to those of Model/KernelNorm.v):
     10 := U (m x m)    11 := v (1 x m eigenvalues)    12 := t^2 (1 x 1, the squared cut-off)
   The comparison |v_j| > t is written v_j^2 > t^2 (the menu of Base/MExp.v has no |.|),
   and 1/v_j as v_j * (1/v_j^2). *)
From Coq Require Import ZArith List Bool PrimFloat.
From Verif Require Import MExp KernelNorm.
Import ListNotations.

Section Prog.
  Variable m : nat.
  Definition cU : mexp m m := MVar 10.
  Definition cV : mexp 1 m := MVar 11.
  Definition cT2 : mexp 1 1 := MVar 12.
  (* f_j *)
  Definition pc_inv : mexp 1 m := MHad cV (MMap Finv_gt cT2 (MHad cV cV)).
  (* pinv(Kmm, rcond) *)
  Definition pc_P : mexp m m := MMul (MMul cU (MDiag (MTr pc_inv))) (MTr cU).
  (* residuals of the spectral hint: U^T U - 1 and U diag(v) U^T (to be compared with Kmm) *)
  Definition pc_orth : mexp m m := MSub (MMul (MTr cU) cU) (MId m).
  Definition pc_recon : mexp m m := MMul (MMul cU (MDiag (MTr cV))) (MTr cU).
End Prog.

(* ---- binary64 wrapper ------------------------------------------------------------------ *)
Open Scope float_scope.

Definition pc_env (U v t2 : fmat) : nat -> fmat :=
  fun x => nth x [[]; []; []; []; []; []; []; []; []; []; U; v; t2] [].
(* t = rcond * amax(s);  the program reads t^2 *)
Definition pc_cut (rc : float) (v : fmat) : float := rc * fmaxabs v.
Definition pc_cut2 (rc : float) (v : fmat) : fmat := let t := pc_cut rc v in [[t * t]].
Definition pc_P_f (m : nat) (rc : float) (U v : fmat) : fmat :=
  eval_f (pc_env U v (pc_cut2 rc v)) (pc_P m).

(* the spectral hint is acceptable: U^T U = 1 and U diag(v) U^T = Kmm up to eps (relative) *)
Definition pc_hint_ok (m : nat) (eps : float) (Kmm U v : fmat) : bool :=
  let env := pc_env U v [[0]] in
  (fclose_ref eps 1 (eval_f env (pc_orth m)) (fconst m m 0) &&
   fclose_ref eps (fmaxabs Kmm) (eval_f env (pc_recon m)) Kmm)%bool.

(* SparseKernelCenterer.fit with the pseudo-inverse computed by the model *)
Definition sc_fit_f (cfg : kn_cfg) (n m : nat) (rc : float) (Knm w Kmm U v : fmat) : kn_state :=
  sk_fit_f cfg n m Knm w Kmm (pc_P_f m rc U v).

(* ---- one SparseKernelCenterer case, both routes -------------------------------------------
   hint route (as before): P = numpy's pinv(Kmm, rcond) of the Kmm the implementation was given;
   its Penrose residuals are checked when [pen] (no eigenvalue of size was discarded: the
   truncated pseudo-inverse is then THE pseudo-inverse of Kmm);
   spectral route: P computed by [pc_P] from numpy's eigh(Kmm) and the rcond of the estimator.
   [tolp]: tolerance of the spectral route (P is reproduced up to eps * condition number). *)
Definition sc_case_checks (cfg : kn_cfg) (n m k : nat) (tol tolp eps rc : float) (pen : bool)
           (Knm w Kmm P U v Kt : fmat)
           (imp_rows imp_scale imp_T imp_Tt imp_FT : fmat) : list bool :=
  let st := sk_fit_f cfg n m Knm w Kmm P in
  let Ps := pc_P_f m rc U v in
  let sts := sk_fit_f cfg n m Knm w Kmm Ps in
  let kmax := fmaxabs Knm in
  let ktmax := let a := fmaxabs Kt in if ltb a kmax then kmax else a in
  let s := abs (fscalar (st_scale st)) in
  let ss := abs (fscalar (st_scale sts)) in
  let cond := if kn_trace cfg then kmax * kmax * fmaxabs P / (s * s) else 0 in
  let conds := if kn_trace cfg then kmax * kmax * fmaxabs Ps / (ss * ss) else 0 in
  [if pen then sk_penrose_ok cfg n m eps Kmm P else true;
   fclose_ref tol kmax (st_rows st) imp_rows;
   fclose_ref tol (s * cond) (st_scale st) imp_scale;
   fclose_ref tol (kmax / s * (1 + cond)) (sk_transform_f m n st Knm) imp_T;
   fclose_ref tol (ktmax / s * (1 + cond)) (sk_transform_f m k st Kt) imp_Tt;
   fclose_ref tol (kmax / s * (1 + cond)) (sk_transform_f m n st Knm) imp_FT;
   pc_hint_ok m eps Kmm U v;
   fclose_ref tolp (fmaxabs P) Ps P;
   fclose_ref tolp (ss * conds) (st_scale sts) imp_scale;
   fclose_ref tolp (kmax / ss * (1 + conds)) (sk_transform_f m n sts Knm) imp_T;
   fclose_ref tolp (ktmax / ss * (1 + conds)) (sk_transform_f m k sts Kt) imp_Tt].
Definition sc_case_ok cfg n m k tol tolp eps rc pen Knm w Kmm P U v Kt r s t tt ft : bool :=
  forallb (fun b => b) (sc_case_checks cfg n m k tol tolp eps rc pen Knm w Kmm P U v Kt r s t tt ft).
