(* Ridge2FoldCV over an arbitrary real closed field: the SAME scalar code ([count_gt],
   [gvec], [scaled_alphas], [argmax], [lmax] of Model/Ridge2Fold.v, instantiated at the
   field operations) and the SAME [mexp] programs ([pred_prog], [coef_prog],
   [predict_prog], hypotheses [orth_prog], [recon_prog]) interpreted by [eval_mx].
   Definitions only.  ssreflect style. *)
From mathcomp Require Import all_ssreflect all_algebra.
From Verif Require Import MExp MExpMx Ridge2Fold.
Set Implicit Arguments.
Unset Strict Implicit.
Unset Printing Implicit Defensive.
Import GRing.Theory Num.Theory.
Local Open Scope ring_scope.

Section R2FMx.
  Variable F : rcfType.

  Definition rops : nops F :=
    NOps 0 1 +%R *%R (fun x y => x / y) (fun x y => x < y).

  (* column vector <-> list *)
  Definition col_list k (s : 'cV[F]_k) : seq F := [seq s i ord0 | i <- enum 'I_k].
  Definition list_col k (l : seq F) : 'cV[F]_k := \col_i nth 0 l i.

  (* environment update at one (shape, variable) *)
  Definition inj_mx m0 n0 (A : 'M[F]_(m0, n0)) m n : 'M[F]_(m, n) :=
    match m0 =P m, n0 =P n with
    | ReflectT em, ReflectT en => castmx (em, en) A
    | _, _ => 0
    end.
  Definition env_set (env : env_mx F) (x0 : nat) m0 n0 (A : 'M[F]_(m0, n0)) : env_mx F :=
    fun m n x => if x == x0 then inj_mx A m n else env m n x.

  (* shapes: n1, n2 fold sizes; n samples; p features; t targets; k* = number of singular
     values of fold 1, fold 2, full data; nn rows of the matrix passed to predict *)
  Record r2f_dims := Dims {
    d_n1 : nat; d_n2 : nat; d_n : nat; d_p : nat; d_t : nat;
    d_k1 : nat; d_k2 : nat; d_k : nat; d_nn : nat }.

  (* inputs: the environment (fold data, full data, SVD oracle values, Xnew), the scorer
     as a function of (y_true, y_pred), the alpha grid, alpha_type == "relative",
     regularization_method == "cutoff", and rcond *)
  Record r2f_cfg (t : nat) := Cfg {
    c_env : env_mx F;
    c_scorer : forall m : nat, 'M[F]_(m, t) -> 'M[F]_(m, t) -> F;
    c_alphas : seq F; c_relative : bool; c_cutoff : bool; c_rcond : F }.

  Section Fit.
    Variable d : r2f_dims.
    Variable c : r2f_cfg (d_t d).
    Local Notation n1 := (d_n1 d).  Local Notation n2 := (d_n2 d).  Local Notation n := (d_n d).
    Local Notation p := (d_p d).    Local Notation t := (d_t d).
    Local Notation k1 := (d_k1 d).  Local Notation k2 := (d_k2 d).  Local Notation k := (d_k d).
    Local Notation nn := (d_nn d).
    Local Notation env := (c_env c).        Local Notation scorer := (c_scorer c).
    Local Notation alphas := (c_alphas c).  Local Notation relative := (c_relative c).
    Local Notation cutoff := (c_cutoff c).  Local Notation rcond := (c_rcond c).

    Definition s1 := col_list (env k1 1%N vS1).
    Definition s2 := col_list (env k2 1%N vS2).
    Definition sfull := col_list (env k 1%N vS).

    Definition nf1 := count_gt rops rcond s1.
    Definition nf2 := count_gt rops rcond s2.
    Definition nfull := count_gt rops rcond sfull.
    Definition salphas := scaled_alphas rops relative alphas s1 s2.

    Definition g1 (alpha : F) : 'cV[F]_k1 := list_col k1 (gvec rops cutoff nf1 alpha s1).
    Definition g2 (alpha : F) : 'cV[F]_k2 := list_col k2 (gvec rops cutoff nf2 alpha s2).
    (* filter of the final solution with truncation index nf *)
    Definition gfull_n (nf : nat) (alpha : F) : 'cV[F]_k := list_col k (gvec rops cutoff nf alpha sfull).
    Definition gfull := gfull_n nfull.

    Definition pred12 (alpha : F) : 'M[F]_(n2, t) :=
      eval_mx (env_set env vG (g1 alpha)) (pred_prog n2 n1 p k1 t vX2 vV1 vG vU1 vy1).
    Definition pred21 (alpha : F) : 'M[F]_(n1, t) :=
      eval_mx (env_set env vG (g2 alpha)) (pred_prog n1 n2 p k2 t vX1 vV2 vG vU2 vy2).

    Definition cv_value (alpha : F) : F :=
      (scorer (env n2 t vy2) (pred12 alpha) + scorer (env n1 t vy1) (pred21 alpha)) / 2%:R.

    Definition cv_values : seq F := [seq cv_value a | a <- salphas].
    Definition best_idx : nat := argmax rops cv_values.
    Definition alpha_ : F := nth 0 alphas best_idx.
    Definition best_score : F := lmax rops cv_values.
    Definition best_scaled_alpha : F := nth 0 salphas best_idx.

    (* final solution with truncation index nf: the repaired code uses nf = sum(s > rcond)
       ([nfull]); the code as written used nf = len(s > rcond) = len(s) = k *)
    Definition genv_n (nf : nat) : env_mx F := env_set env vG (gfull_n nf best_scaled_alpha).
    Definition coef_n (nf : nat) : 'M[F]_(t, p) := eval_mx (genv_n nf) (coef_prog n p k t).
    Definition genv : env_mx F := genv_n nfull.
    Definition coef_ : 'M[F]_(t, p) := coef_n nfull.
    Definition predict : 'M[F]_(nn, t) := eval_mx genv (predict_prog nn n p k t).
  End Fit.

  (* the SVD oracle hypotheses for the variables (xX; xU, xS, xV) of shapes m x p, k *)
  Definition svd_hyp (env : env_mx F) (m p k : nat) (xX xU xS xV : nat) : Prop :=
    [/\ eval_mx env (orth_prog m k xU) = 0,
        eval_mx env (orth_prog p k xV) = 0,
        eval_mx env (recon_prog m p k xX xU xS xV) = 0,
        (forall i j : 'I_k, (i <= j)%N -> env k 1%N xS j ord0 <= env k 1%N xS i ord0)
      & (forall i : 'I_k, 0 <= env k 1%N xS i ord0)].

  (* what the theorems assume about one fit: the three SVD oracles, rcond >= 0, a
     non-empty grid of non-negative alphas *)
  Definition r2f_hyps (d : r2f_dims) (c : r2f_cfg (d_t d)) : Prop :=
    [/\ svd_hyp (c_env c) (d_n1 d) (d_p d) (d_k1 d) vX1 vU1 vS1 vV1,
        svd_hyp (c_env c) (d_n2 d) (d_p d) (d_k2 d) vX2 vU2 vS2 vV2,
        svd_hyp (c_env c) (d_n d) (d_p d) (d_k d) vX vU vS vV,
        0 <= c_rcond c
      & (0 < size (c_alphas c))%N /\ all (fun a => 0 <= a) (c_alphas c)].

  (* a singular direction is kept iff its singular value exceeds rcond (and alpha, for the
     cut-off method); [strunc] zeroes the singular values that are not kept *)
  Definition keep (cutoff : bool) (rcond alpha x : F) : bool :=
    (rcond < x) && (~~ cutoff || (alpha < x)).
  Definition strunc k (cutoff : bool) (rcond alpha : F) (s : 'cV[F]_k) : 'cV[F]_k :=
    \col_i (if keep cutoff rcond alpha (s i ord0) then s i ord0 else 0).
  (* the Tikhonov parameter in effect: alpha, resp. 0 for the cut-off method *)
  Definition aeff (cutoff : bool) (alpha : F) : F := if cutoff then 0 else alpha.

  (* W is THE explicit regularised least-squares fit of y on the matrix Xr := U diag(sr) V^T:
     it solves the (regularised) normal equations and lies in the row space of Xr.
     (Proofs/Ridge2FoldP.v: such a W minimises |y - Xr w|^2 + a |w|^2 over all w, is the
     only minimiser when a > 0 and the minimum-norm one when a = 0.) *)
  Definition reg_solution m p k t (U : 'M[F]_(m, k)) (sr : 'cV[F]_k) (V : 'M[F]_(p, k))
      (y : 'M[F]_(m, t)) (a : F) (W : 'M[F]_(p, t)) : Prop :=
    let Xr := U *m diag_mx sr^T *m V^T in
    (Xr^T *m Xr + a%:M) *m W = Xr^T *m y /\ exists z, W = Xr^T *m z.
End R2FMx.
