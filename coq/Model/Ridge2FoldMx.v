(* Ridge2FoldCV over an arbitrary real closed field: the SAME scalar code ([count_gt],
   [gvec], [scaled_alphas], [argmax], [lmax] of Model/Ridge2Fold.v, instantiated at the
   field operations) and the SAME [mexp] programs ([pred_prog], [coef_prog],
   [predict_prog], hypotheses [orth_prog], [recon_prog]) interpreted by [eval_mx].
   Definitions only.  ssreflect style. *)
From mathcomp Require Import all_ssreflect all_algebra.
From Verif Require Import MExp MExpMx Ridge2Fold.
Set Implicit Arguments.
Unset Strict Implicit.
Unset Printing Implicit Defensive.
Import GRing.Theory Num.Theory.
Local Open Scope ring_scope.

Section R2FMx.
  Variable F : rcfType.

  Definition rops : nops F :=
    NOps 0 1 +%R *%R (fun x y => x / y) (fun x y => x < y).

  (* column vector <-> list *)
  Definition col_list k (s : 'cV[F]_k) : seq F := [seq s i ord0 | i <- enum 'I_k].
  Definition list_col k (l : seq F) : 'cV[F]_k := \col_i nth 0 l i.

  (* environment update at one (shape, variable) *)
  Definition inj_mx m0 n0 (A : 'M[F]_(m0, n0)) m n : 'M[F]_(m, n) :=
    match m0 =P m, n0 =P n with
    | ReflectT em, ReflectT en => castmx (em, en) A
    | _, _ => 0
    end.
  Definition env_set (env : env_mx F) (x0 : nat) m0 n0 (A : 'M[F]_(m0, n0)) : env_mx F :=
    fun m n x => if x == x0 then inj_mx A m n else env m n x.

  Section Fit.
    (* n1, n2 fold sizes; n samples; p features; t targets; k* = number of singular values *)
    Variables (n1 n2 n p t k1 k2 k nn : nat).
    Variable env : env_mx F.
    Variable scorer : forall m : nat, 'M[F]_(m, t) -> 'M[F]_(m, t) -> F.   (* (y_true, y_pred) *)
    Variables (alphas : seq F) (relative cutoff : bool) (rcond : F).

    Definition s1 := col_list (env k1 1%N vS1).
    Definition s2 := col_list (env k2 1%N vS2).
    Definition sfull := col_list (env k 1%N vS).

    Definition nf1 := count_gt rops rcond s1.
    Definition nf2 := count_gt rops rcond s2.
    Definition nfull := count_gt rops rcond sfull.
    Definition salphas := scaled_alphas rops relative alphas s1 s2.

    Definition g1 (alpha : F) : 'cV[F]_k1 := list_col k1 (gvec rops cutoff nf1 alpha s1).
    Definition g2 (alpha : F) : 'cV[F]_k2 := list_col k2 (gvec rops cutoff nf2 alpha s2).
    (* filter of the final solution with truncation index nf *)
    Definition gfull_n (nf : nat) (alpha : F) : 'cV[F]_k := list_col k (gvec rops cutoff nf alpha sfull).
    Definition gfull := gfull_n nfull.

    Definition pred12 (alpha : F) : 'M[F]_(n2, t) :=
      eval_mx (env_set env vG (g1 alpha)) (pred_prog n2 n1 p k1 t vX2 vV1 vG vU1 vy1).
    Definition pred21 (alpha : F) : 'M[F]_(n1, t) :=
      eval_mx (env_set env vG (g2 alpha)) (pred_prog n1 n2 p k2 t vX1 vV2 vG vU2 vy2).

    Definition cv_value (alpha : F) : F :=
      (scorer (env n2 t vy2) (pred12 alpha) + scorer (env n1 t vy1) (pred21 alpha)) / 2%:R.

    Definition cv_values : seq F := [seq cv_value a | a <- salphas].
    Definition best_idx : nat := argmax rops cv_values.
    Definition alpha_ : F := nth 0 alphas best_idx.
    Definition best_score : F := lmax rops cv_values.
    Definition best_scaled_alpha : F := nth 0 salphas best_idx.

    (* final solution with truncation index nf: the repaired code uses nf = sum(s > rcond)
       ([nfull]); the code as written used nf = len(s > rcond) = len(s) = k *)
    Definition genv_n (nf : nat) : env_mx F := env_set env vG (gfull_n nf best_scaled_alpha).
    Definition coef_n (nf : nat) : 'M[F]_(t, p) := eval_mx (genv_n nf) (coef_prog n p k t).
    Definition genv : env_mx F := genv_n nfull.
    Definition coef_ : 'M[F]_(t, p) := coef_n nfull.
    Definition predict : 'M[F]_(nn, t) := eval_mx genv (predict_prog nn n p k t).
  End Fit.

  (* the SVD oracle hypotheses for the variables (xX; xU, xS, xV) of shapes m x p, k *)
  Definition svd_hyp (env : env_mx F) (m p k : nat) (xX xU xS xV : nat) : Prop :=
    [/\ eval_mx env (orth_prog m k xU) = 0,
        eval_mx env (orth_prog p k xV) = 0,
        eval_mx env (recon_prog m p k xX xU xS xV) = 0,
        (forall i j : 'I_k, (i <= j)%N -> env k 1%N xS j ord0 <= env k 1%N xS i ord0)
      & (forall i : 'I_k, 0 <= env k 1%N xS i ord0)].
End R2FMx.
