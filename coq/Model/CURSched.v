(* C07, layer D: the refresh schedule, the zeroing and the arg-max of _CUR / _PCovCUR
   (src/skmatter/_selection.py: score, _init_greedy_search, _continue_greedy_search,
   _update_post_selection), as a scorer for the generic greedy loop of Model/Greedy.v.

   The importance vectors produced by _compute_pi (the "refresh vectors") are an observed
   stream of integer vectors (order-preserving IEEE codes of the binary64 scores; the code of
   0.0 is 0); what they must be is layer A (Model/CURLoop.v).  What is modelled exactly here:

     score():                    returns self.pi_                      (no computation)
     cold start:                 pi_ = _compute_pi(X_current_)         (first refresh vector)
     warm start:                 pi_ = _compute_pi(X_current_)         (next refresh vector, no zeroing)
     _update_post_selection(i):  n_selected_ += 1
                                 if recompute_every != 0 and n_selected_ % recompute_every == 0:
                                     pi_ = _compute_pi(...)            (next refresh vector)
                                 pi_[i] = 0.0

   Definitions only; proofs are in Proofs/CURSchedP.v (stdlib style). *)
From Verif Require Import ListX Greedy.

Record cst := mk_cst {
  c_vec  : list Z;          (* self.pi_, as integer codes *)
  c_nsel : nat;             (* self.n_selected_ *)
  c_rest : list (list Z);   (* refresh vectors not yet consumed *)
  c_ok   : bool             (* false once a refresh was due but the stream was empty *)
}.

(* `self.recompute_every != 0 and self.n_selected_ % self.recompute_every == 0` *)
Definition refresh_due (re nsel : nat) : bool :=
  negb (Nat.eqb re 0) && Nat.eqb (Nat.modulo nsel re) 0.

Definition c_score (s : cst) : list Z := c_vec s.

Definition c_upd (re : nat) (s : cst) (i : nat) : cst :=
  let m := S (c_nsel s) in
  if refresh_due re m then
    match c_rest s with
    | r :: rest => mk_cst (upd_nth i 0 r) m rest (c_ok s)
    | [] => mk_cst (upd_nth i 0 (c_vec s)) m [] false
    end
  else mk_cst (upd_nth i 0 (c_vec s)) m (c_rest s) (c_ok s).

(* _init_greedy_search: the first refresh vector, nothing selected *)
Definition c_cold (R : list (list Z)) : cst :=
  match R with
  | r :: rest => mk_cst r 0 rest true
  | [] => mk_cst [] 0 [] false
  end.

(* _continue_greedy_search: pi_ is recomputed, whatever recompute_every is *)
Definition c_warm (s : cst) : cst :=
  match c_rest s with
  | r :: rest => mk_cst r (c_nsel s) rest (c_ok s)
  | [] => mk_cst (c_vec s) (c_nsel s) [] false
  end.

Section Sched.
  Variable re : nat.                     (* recompute_every *)
  Variable cand : list (list Z).         (* candidates (only their number matters here) *)

  Definition c_run := run cst c_score (c_upd re) cand None.
  Definition c_best := best_new cst c_score.
  Definition c_post := post cst (c_upd re) cand None.

  (* the score vectors presented to the arg-max by the loop, in order *)
  Fixpoint c_trace (t : thr) (k : nat) (g : gst cst) : list (list Z) :=
    match k with
    | O => []
    | S k' =>
        c_score (sst g) ::
        match c_best t g with
        | (Some i, g1) => c_trace t k' (c_post g1 i)
        | (None, _) => []
        end
    end.

  Definition g_cold (R : list (list Z)) : gst cst := mk_gst [] [] [] (c_cold R) None.
  Definition g_warm (g : gst cst) : gst cst :=
    mk_gst (sel g) (xsel g) (ysel g) (c_warm (sst g)) (first g).

  (* a chain of fits on the same data: the first is a cold start, the others warm starts;
     each stage is the resolved n_to_select.  Returns the final state and everything that
     was presented to the arg-max. *)
  Fixpoint c_chain (g : gst cst) (ks : list nat) (acc : list (list Z))
    : gst cst * list (list Z) :=
    match ks with
    | [] => (g, acc)
    | k :: ks' =>
        let g1 := g_warm g in
        let steps := (k - length (sel g1))%nat in
        c_chain (fst (c_run NoThr steps g1)) ks' (acc ++ c_trace NoThr steps g1)
    end.

  Definition c_fit (R : list (list Z)) (ks : list nat) : gst cst * list (list Z) :=
    match ks with
    | [] => (g_cold R, [])
    | k :: ks' =>
        let g0 := g_cold R in
        c_chain (fst (c_run NoThr k g0)) ks' (c_trace NoThr k g0)
    end.
End Sched.

(* ---- the schedule alone (no vectors): which refresh vector is in force at each step ------
   [m] selections exist, the vector in force has number [c] in the refresh stream; the
   result lists, for each of the next [steps] selections, the number of the vector in force
   when that selection is made. *)
Fixpoint idx_steps (re m c steps : nat) : list nat :=
  match steps with
  | O => []
  | S s => c :: idx_steps re (S m) (if refresh_due re (S m) then S c else c) s
  end.
Fixpoint idx_after (re m c steps : nat) : nat :=
  match steps with
  | O => c
  | S s => idx_after re (S m) (if refresh_due re (S m) then S c else c) s
  end.

(* [i] is the first arg-max of [V] among the items not in [chosen] *)
Definition best_wrt (n : nat) (V : list Z) (chosen : list nat) (i : nat) : Prop :=
  (i < n)%nat /\ ~ In i chosen /\
  (forall u, (u < n)%nat -> ~ In u chosen -> nth u V 0 <= nth i V 0) /\
  (forall u, (u < i)%nat -> ~ In u chosen -> nth u V 0 < nth i V 0).

(* ---- correspondence: selections and presented vectors, from the refresh vectors alone ---- *)
Definition sched_ok (re n : nat) (R : list (list Z)) (ks : list nat)
           (obs_sel : list nat) (obs_stream : list (list Z)) : bool :=
  let '(g, tr) := c_fit re (repeat [] n) R ks in
  nl_eqb (sel g) obs_sel && zm_eqb tr obs_stream
  && c_ok (sst g)
  && match c_rest (sst g) with [] => true | _ => false end     (* every refresh was consumed *)
  && forallb (fun r => Nat.eqb (length r) n) R.
