(* C02, distance matrix of PCov-FPS on float data (src/skmatter/_selection.py,
   _PCovFPS._init_greedy_search):

       axis 1 (features):  pcovr_distance_ = pcovr_covariance(mixing, X, y)     = cov_prog
       axis 0 (samples):   pcovr_distance_ = pcovr_kernel(mixing, X, y)         = kern_prog

   Both programs are the layer-A programs of Model/PCovR.v (theorems about them over an
   arbitrary real closed field: Properties/C03.v, and Properties/C02.v for the distance they
   induce).  _PCovFPS hands the targets themselves to pcovr_covariance / pcovr_kernel (no
   regression), so the environment variable Yh carries y, and rcond is the default 1e-12.
   The eigendecomposition of X^T X is an oracle (environment variables UC, vC, numpy's eigh of
   the matrix the model forms); its hypotheses are evaluated on the float side.

   One case = one fit of PCovFPS:  (1) the model's matrix is compared entrywise with the
   implementation's pcovr_distance_ (tolerances), (2) the oracle residuals are recorded,
   (3) the selection loop is replayed bit for bit on the implementation's own matrix
   (Model/FPSFloat.v).  Definitions only. *)
From Coq Require Import ZArith List Bool PrimFloat.
From Verif Require Import MExp PCovR.
From Verif Require FPSFloat.
Import ListNotations.
Local Open Scope float_scope.

Record dcase := mk_dcase {
  dc_n : nat; dc_m : nat; dc_p : nat;
  dc_axis1 : bool;
  dc_env : list fmat;          (* X; y; y; []; [[mixing]]; [[rcond]]; UC; vC *)
  dc_D : fmat;                 (* pcovr_distance_ read off the fitted selector *)
  dc_i0 : nat; dc_niter : nat; (* initialize, n_to_select *)
  dc_sel : list nat;           (* selected_idx_ *)
  dc_haus : list float;        (* get_distance() *)
  dc_seld : list float }.      (* get_select_distance() *)

Definition dc_model (c : dcase) : fmat :=
  let e := env_of (dc_env c) in
  if dc_axis1 c then eval_f e (cov_prog (dc_n c) (dc_m c) (dc_p c))
  else eval_f e (kern_prog (dc_n c) (dc_m c) (dc_p c)).

(* (residual, scale) of the eigh hypotheses (feature direction only) *)
Definition dc_residuals (c : dcase) : list (float * float) :=
  if dc_axis1 c then
    let n := dc_n c in let m := dc_m c in
    let e := env_of (dc_env c) in
    let r {a b} (x : mexp a b) := fmaxabs (eval_f e x) in
    let UC := eUC m in
    [ (r (MSub (MMul (MTr UC) UC) (MId m)), 1);                                        (* UC^T UC = I *)
      (r (MSub (MMul (xtx_prog n m) UC) (MMul UC (MDiag (evC m)))), r (xtx_prog n m)); (* X^T X UC = UC diag vC *)
      (fsorted_defect (map (fun row => nth 0 row 0) (e vvC)), r (evC m)) ]             (* vC decreasing *)
  else [].

Definition dc_loop_ok (c : dcase) : bool :=
  FPSFloat.fcase_ok (dc_D c) (dc_axis1 c) (dc_i0 c) (dc_niter c) (dc_sel c) (dc_haus c) (dc_seld c).

(* verdict code: 0 = all agree; +1 matrix differs; +2 an oracle hypothesis fails; +4 loop replay differs *)
Definition dc_code (rtol atol eps : float) (c : dcase) : nat :=
  ((if fclose rtol atol (dc_model c) (dc_D c) then 0 else 1)
   + (if forallb (fun rs => leb (fst rs) (eps * (1 + snd rs))) (dc_residuals c) then 0 else 2)
   + (if dc_loop_ok c then 0 else 4))%nat.

(* deviation of the matrix (absolute, and the scale it is measured against) and the residuals *)
Definition dc_devs (c : dcase) : list float :=
  fdev (dc_model c) (dc_D c) :: fmaxabs (dc_D c) :: map fst (dc_residuals c).
