(* Sessions with QuickShift estimator objects (C16, layer D): the constructor, its rejection
   branch, the guard of fit, and what survives from one call to the next.

   Model of /repo/src/skmatter/clustering/_quick_shift.py as a state machine.  The state holds
   - the caller's cut-off arrays [s_cuts] (units of 1/8; each may be handed to any number of
     constructors),
   - the caller's data sets [s_data] (dimension of X, integer squared distance matrix of X under
     the session's metric, weights),
   - the estimator objects [s_est]: their attributes dist_cutoff_sq (the estimator's OWN array
     `dist_cutoff_sq * scale**2`, units of 1/32), gabriel_shell, labels_.
   Nothing else survives a call: fit builds dist_matrix, gabrial, idmindist, idxroot afresh.
   Definitions only. *)
From Verif Require Export ListX QuickShift.

Record qdata := mkData { q_dim : nat; q_D : list (list ExtZ); q_w : list Z }.
Record qest := mkEst { e_cut : option (list Z); e_shell : option nat; e_labels : option (list (option nat)) }.
Record qstate := mkState { s_cuts : list (list Z); s_data : list qdata; s_est : list qest }.

Definition no_est : qest := mkEst None None None.           (* a name not bound to an estimator yet *)
Definition no_data : qdata := mkData 0 [] [].

Inductive qop :=
| New (e : nat) (c : option nat) (s2 : Z) (sh : option nat)
    (* est[e] = QuickShift(dist_cutoff_sq = cuts[c] (or None), gabriel_shell = sh, scale = s2/2) *)
| Fit (e d : nat)                    (* est[e].fit(X_d, samples_weight = w_d) *)
| SetShell (e : nat) (sh : nat)      (* est[e].gabriel_shell = sh *)
| SetW (d : nat) (w : list Z)        (* the CALLER overwrites w_d in place *)
| Read (e : nat).                    (* look at est[e].labels_ *)

Inductive qobs :=
| ObsErr                                                   (* the call raised *)
| ObsNew (cutattr : option (list Z))                       (* est.dist_cutoff_sq after construction *)
| ObsFit (labels : list (option nat)) (ctr : list nat)     (* labels_, cluster_centers_idx_ *)
| ObsRead (labels : option (list (option nat)))            (* None: the attribute does not exist *)
| ObsUnit.

Definition get_est (S : qstate) (e : nat) : qest := nth e (s_est S) no_est.
Definition get_data (S : qstate) (d : nat) : qdata := nth d (s_data S) no_data.
Definition set_est (S : qstate) (e : nat) (x : qest) : qstate :=
  mkState (s_cuts S) (s_data S) (upd_nth e x (s_est S)).
Definition set_data (S : qstate) (d : nat) (q : qdata) : qstate :=
  mkState (s_cuts S) (upd_nth d q (s_data S)) (s_est S).

(* __init__: ValueError unless one of the two rules is configured; the scaled cut-offs are a NEW
   array (`self.dist_cutoff_sq * self.scale**2`), the caller's array is only read *)
Definition construct (cuts : list (list Z)) (c : option nat) (s2 : Z) (sh : option nat) : option qest :=
  match c, sh with
  | None, None => None
  | _, _ => Some (mkEst (option_map (fun ci => eff_cut (nth ci cuts []) s2) c) sh None)
  end.

(* the body of fit after the guard: the rule is chosen by `self.dist_cutoff_sq is None` *)
Definition est_fit (x : qest) (q : qdata) : option (list (option nat)) :=
  match e_cut x with
  | Some ec => fit_cut (scaleD 32 (q_D q)) (q_w q) ec
  | None => match e_shell x with
            | Some sh => fit_gab (q_D q) (q_w q) sh
            | None => None
            end
  end.

(* `(self.cell is not None) and (X.shape[1] != len(self.cell))` *)
Definition dim_mismatch (celldim : option nat) (dim : nat) : bool :=
  match celldim with Some k => negb (Nat.eqb dim k) | None => false end.

Definition qstep (celldim : option nat) (S : qstate) (o : qop) : qstate * qobs :=
  match o with
  | New e c s2 sh =>
      match construct (s_cuts S) c s2 sh with
      | Some x => (set_est S e x, ObsNew (e_cut x))
      | None => (S, ObsErr)
      end
  | Fit e d =>
      let x := get_est S e in
      let q := get_data S d in
      if dim_mismatch celldim (q_dim q) then (S, ObsErr)        (* raised before anything is touched *)
      else match est_fit x q with
           | Some R => (set_est S e (mkEst (e_cut x) (e_shell x) (Some R)), ObsFit R (centres R))
           | None => (S, ObsErr)
           end
  | SetShell e sh =>
      let x := get_est S e in
      (set_est S e (mkEst (e_cut x) (Some sh) (e_labels x)), ObsUnit)
  | SetW d w =>
      let q := get_data S d in
      (set_data S d (mkData (q_dim q) (q_D q) w), ObsUnit)
  | Read e => (S, ObsRead (e_labels (get_est S e)))
  end.

Fixpoint qrun (celldim : option nat) (S : qstate) (ops : list qop) : qstate * list qobs :=
  match ops with
  | [] => (S, [])
  | o :: rest =>
      let (S1, b) := qstep celldim S o in
      let (S2, bs) := qrun celldim S1 rest in
      (S2, b :: bs)
  end.

(* ---- correspondence ------------------------------------------------------------------- *)
Definition olab_eqb : list (option nat) -> list (option nat) -> bool := list_eqb (opt_eqb Nat.eqb).
Definition obs_eqb (a b : qobs) : bool :=
  match a, b with
  | ObsErr, ObsErr => true
  | ObsNew x, ObsNew y => opt_eqb zl_eqb x y
  | ObsFit l c, ObsFit l' c' => olab_eqb l l' && nl_eqb c c'
  | ObsRead x, ObsRead y => opt_eqb olab_eqb x y
  | ObsUnit, ObsUnit => true
  | _, _ => false
  end.

(* the implementation's trace of the session and the caller's cut-off arrays afterwards *)
Definition session_ok (celldim : option nat) (S : qstate) (ops : list qop) (trace : list qobs)
           (cuts_after : list (list Z)) : bool :=
  let (S', tr) := qrun celldim S ops in
  list_eqb obs_eqb tr trace && list_eqb zl_eqb (s_cuts S') cuts_after.

(* positions of the steps whose observation differs (for the report) *)
Definition session_diff (celldim : option nat) (S : qstate) (ops : list qop) (trace : list qobs) : list nat :=
  failing (map2 obs_eqb (snd (qrun celldim S ops)) trace).
