(* Sessions with QuickShift estimator objects (C16, layer D): the constructor, its rejection
   branch, set_params on the constructor parameters, the guards of fit, and what survives from one
   call to the next.

   Model of /repo/src/skmatter/clustering/_quick_shift.py as a state machine.  The state holds
   - the caller's cut-off arrays [s_cuts] (units of 1/8; each may be handed to any number of
     constructors / set_params calls),
   - the caller's cell arrays [s_cells] (only their length matters here),
   - the caller's data sets [s_data]: dimension of X, the integer squared distance matrices of X
     under every metric configuration ([q_D]: index 0 = no cell, k+1 = cell k), weights,
   - the estimator objects [s_est]: their attributes
       dist_cutoff_sq  [e_cut]   (the estimator's OWN array `dist_cutoff_sq * scale**2` after
                                  __init__; whatever set_params put there afterwards; units 1/32),
       gabriel_shell   [e_shell],
       metric_params["cell_length"] [e_cell]  (read by the metric closure WHEN fit CALLS IT),
       cell            [e_cell0] (set by __init__ only -- set_params does not refresh it; it feeds
                                  the first guard of fit),
       labels_         [e_labels].
   Nothing else survives a call: fit builds dist_matrix, gabrial, idmindist, idxroot afresh.
   Definitions only. *)
From Verif Require Export ListX QuickShift.

Record qdata := mkData { q_dim : nat; q_D : list (list (list ExtZ)); q_w : list Z }.
Record qest := mkEst { e_cut : option (list Z); e_shell : option nat;
                       e_cell : option nat; e_cell0 : option nat;
                       e_labels : option (list (option nat)) }.
Record qstate := mkState { s_cuts : list (list Z); s_cells : list nat; s_data : list qdata; s_est : list qest }.

Definition no_est : qest := mkEst None None None None None.   (* a name not bound to an estimator yet *)
Definition no_data : qdata := mkData 0 [] [].

Inductive qop :=
| New (e : nat) (c : option nat) (s2 : Z) (sh : option nat) (cell : option nat)
    (* est[e] = QuickShift(dist_cutoff_sq = cuts[c] | None, gabriel_shell = sh, scale = s2/2,
                           metric_params = {"cell_length": cells[cell] | None}) *)
| Fit (e d : nat)                    (* est[e].fit(X_d, samples_weight = w_d) *)
| SetShell (e : nat) (sh : nat)      (* est[e].set_params(gabriel_shell = sh)  /  est[e].gabriel_shell = sh *)
| SetCell (e : nat) (cell : option nat)   (* est[e].set_params(metric_params = {"cell_length": cells[cell] | None}) *)
| SetCut (e : nat) (c : option nat)  (* est[e].set_params(dist_cutoff_sq = cuts[c] | None): stored as given, NOT scaled *)
| SetScale (e : nat) (s2 : Z)        (* est[e].set_params(scale = s2/2): the attribute is not read by fit *)
| SetW (d : nat) (w : list Z)        (* the CALLER overwrites w_d in place *)
| Read (e : nat).                    (* look at est[e].labels_ *)

Inductive qobs :=
| ObsErr                                                   (* the call raised *)
| ObsNew (cutattr : option (list Z))                       (* est.dist_cutoff_sq after construction / set_params *)
| ObsFit (labels : list (option nat)) (ctr : list nat)     (* labels_, cluster_centers_idx_ *)
| ObsRead (labels : option (list (option nat)))            (* None: the attribute does not exist *)
| ObsUnit.

Definition get_est (S : qstate) (e : nat) : qest := nth e (s_est S) no_est.
Definition get_data (S : qstate) (d : nat) : qdata := nth d (s_data S) no_data.
Definition set_est (S : qstate) (e : nat) (x : qest) : qstate :=
  mkState (s_cuts S) (s_cells S) (s_data S) (upd_nth e x (s_est S)).
Definition set_data (S : qstate) (d : nat) (q : qdata) : qstate :=
  mkState (s_cuts S) (s_cells S) (upd_nth d q (s_data S)) (s_est S).

(* the distance matrix of data q under metric configuration [cell] *)
Definition dsel (q : qdata) (cell : option nat) : list (list ExtZ) :=
  nth (match cell with None => 0%nat | Some k => S k end) (q_D q) [].

(* __init__: ValueError unless one of the two rules is configured; the scaled cut-offs are a NEW
   array (`self.dist_cutoff_sq * self.scale**2`), the caller's array is only read *)
Definition construct (cuts : list (list Z)) (c : option nat) (s2 : Z) (sh : option nat) (cell : option nat)
  : option qest :=
  match c, sh with
  | None, None => None
  | _, _ => Some (mkEst (option_map (fun ci => eff_cut (nth ci cuts []) s2) c) sh cell cell None)
  end.

(* the effect of one configuration call on the estimator record it addresses
   (set_params = setattr of the constructor parameter, nothing else):
   dist_cutoff_sq given to set_params is used as it is, i.e. as with scale 1 (s2 = 2) *)
Definition cfg_step (cuts : list (list Z)) (x : qest) (o : qop) : qest :=
  match o with
  | New _ c s2 sh cell => match construct cuts c s2 sh cell with Some y => y | None => x end
  | SetShell _ sh => mkEst (e_cut x) (Some sh) (e_cell x) (e_cell0 x) (e_labels x)
  | SetCell _ cell => mkEst (e_cut x) (e_shell x) cell (e_cell0 x) (e_labels x)
  | SetCut _ c => mkEst (option_map (fun ci => eff_cut (nth ci cuts []) 2) c) (e_shell x) (e_cell x) (e_cell0 x) (e_labels x)
  | _ => x
  end.

(* the body of fit after the guards, from the parameters in force: the rule is chosen by
   `self.dist_cutoff_sq is None`; gabriel_shell None in Gabriel mode makes range(1, None) raise *)
Definition fit_of_params (cut : option (list Z)) (sh : option nat) (D : list (list ExtZ)) (w : list Z)
  : option (list (option nat)) :=
  match cut with
  | Some ec => fit_cut (scaleD 32 D) w ec
  | None => match sh with
            | Some s => fit_gab D w s
            | None => None
            end
  end.
Definition est_fit (x : qest) (q : qdata) : option (list (option nat)) :=
  fit_of_params (e_cut x) (e_shell x) (dsel q (e_cell x)) (q_w q).

(* `(cell is not None) and (X.shape[1] != len(cell))` *)
Definition cell_mismatch (cells : list nat) (cell : option nat) (dim : nat) : bool :=
  match cell with Some k => negb (Nat.eqb dim (nth k cells 0%nat)) | None => false end.
(* fit raises ValueError before anything is touched if the cell recorded by __init__ (self.cell)
   does not fit the data, or -- inside the metric, _check_dimension -- the cell in force does not *)
Definition fit_guard (cells : list nat) (x : qest) (q : qdata) : bool :=
  cell_mismatch cells (e_cell0 x) (q_dim q) || cell_mismatch cells (e_cell x) (q_dim q).

Definition qstep (S : qstate) (o : qop) : qstate * qobs :=
  match o with
  | New e c s2 sh cell =>
      match construct (s_cuts S) c s2 sh cell with
      | Some x => (set_est S e x, ObsNew (e_cut x))
      | None => (S, ObsErr)
      end
  | Fit e d =>
      let x := get_est S e in
      let q := get_data S d in
      if fit_guard (s_cells S) x q then (S, ObsErr)
      else match est_fit x q with
           | Some R => (set_est S e (mkEst (e_cut x) (e_shell x) (e_cell x) (e_cell0 x) (Some R)), ObsFit R (centres R))
           | None => (S, ObsErr)
           end
  | SetShell e _ | SetCell e _ | SetScale e _ =>
      (set_est S e (cfg_step (s_cuts S) (get_est S e) o), ObsUnit)
  | SetCut e _ =>
      let y := cfg_step (s_cuts S) (get_est S e) o in
      (set_est S e y, ObsNew (e_cut y))
  | SetW d w =>
      let q := get_data S d in
      (set_data S d (mkData (q_dim q) (q_D q) w), ObsUnit)
  | Read e => (S, ObsRead (e_labels (get_est S e)))
  end.

Fixpoint qrun (S : qstate) (ops : list qop) : qstate * list qobs :=
  match ops with
  | [] => (S, [])
  | o :: rest =>
      let (S1, b) := qstep S o in
      let (S2, bs) := qrun S1 rest in
      (S2, b :: bs)
  end.

(* ---- correspondence ------------------------------------------------------------------- *)
Definition olab_eqb : list (option nat) -> list (option nat) -> bool := list_eqb (opt_eqb Nat.eqb).
Definition obs_eqb (a b : qobs) : bool :=
  match a, b with
  | ObsErr, ObsErr => true
  | ObsNew x, ObsNew y => opt_eqb zl_eqb x y
  | ObsFit l c, ObsFit l' c' => olab_eqb l l' && nl_eqb c c'
  | ObsRead x, ObsRead y => opt_eqb olab_eqb x y
  | ObsUnit, ObsUnit => true
  | _, _ => false
  end.

(* the implementation's trace of the session and the caller's cut-off arrays afterwards *)
Definition session_ok (S : qstate) (ops : list qop) (trace : list qobs) (cuts_after : list (list Z)) : bool :=
  let (S', tr) := qrun S ops in
  list_eqb obs_eqb tr trace && list_eqb zl_eqb (s_cuts S') cuts_after.

(* positions of the steps whose observation differs (for the report) *)
Definition session_diff (S : qstate) (ops : list qop) (trace : list qobs) : list nat :=
  failing (map2 obs_eqb (snd (qrun S ops)) trace).
