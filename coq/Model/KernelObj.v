(* C12 (extension) — KernelNormalizer and SparseKernelCenterer as OBJECTS with a history.

   Model/KernelNorm.v has the array computations of one fit and one transform.  This file has
   the protocol around them, statement by statement as in preprocessing/_data.py: which
   attributes each method assigns (and in which branch), which ones it reads, the rejection
   branches, set_params between calls, re-fitting a fitted object.  The array computations are
   parameters of the state machines ([fit_num], [tr_num], ...), so the statements proved in
   Proofs/KernelObjP.v hold for EVERY interpretation of the numerics (binary64 programs of
   Model/KernelNorm.v / Model/KernelCut.v as instantiated below and run by the check, or the
   real-closed-field one).

   Unmodelled (the generator never produces it): non-square K for KernelNormalizer.fit,
   arrays that are not 2-D, transform after a rejected fit on data of another size. *)
From Coq Require Import ZArith List Bool PrimFloat.
From Verif Require Import MExp KernelNorm KernelCut.
Import ListNotations.

Inductive ob_res (T : Type) := RDone | RRaise | ROut (X : T).
Arguments RDone {T}. Arguments RRaise {T}. Arguments ROut {T}.

(* =========================== KernelNormalizer =========================== *)
Section KnObj.
  Variable T : Type.                         (* arrays *)
  Variables nrows ncols : T -> nat.
  (* sample_weight / np.sum(sample_weight) *)
  Variable norm_w : T -> T.
  (* with_center, with_trace, K, sample_weight_  |->  K_fit_rows_, K_fit_all_, scale_ *)
  Variable fit_num : bool -> bool -> T -> option T -> T * T * T.
  (* with_center (read at transform time), sample_weight_, K_fit_rows_, K_fit_all_, scale_, K *)
  Variable tr_num : bool -> option T -> T -> T -> T -> T -> T.

  Record kn_attrs := KnAttrs { a_sw : option T; a_rows : T; a_all : T; a_scale : T }.
  (* constructor parameters, n_features_in_ (set by _validate_data), fitted attributes *)
  Record kn_obj := KnObj { o_center : bool; o_trace : bool; o_nfeat : option nat;
                           o_attrs : option kn_attrs }.
  Definition kn_new (c t : bool) : kn_obj := KnObj c t None None.

  Inductive kn_op :=
  | OSet (c t : bool)                     (* set_params(with_center=c, with_trace=t) *)
  | OFit (K : T) (w : option T)
  | OTransform (Kt : T)
  | OFitTransform (K : T) (w : option T).

  (* _check_sample_weight accepts the weights: one weight per row of K *)
  Definition kn_w_ok (K : T) (w : option T) : bool :=
    match w with Some w0 => Nat.eqb (nrows w0) (nrows K) | None => true end.

  Definition kn_do_fit (o : kn_obj) (K : T) (w : option T) : kn_obj * ob_res T :=
    (* K = self._validate_data(K, copy=True): n_features_in_ is reset before anything else *)
    let nf := Some (ncols K) in
    if kn_w_ok K w then
      (* sample_weight_ is assigned in BOTH branches of `if sample_weight is not None` *)
      let sw := match w with Some w0 => Some (norm_w w0) | None => None end in
      let '(r, a, s) := fit_num (o_center o) (o_trace o) K sw in
      (KnObj (o_center o) (o_trace o) nf (Some (KnAttrs sw r a s)), RDone)
    else
      (* ValueError from _check_sample_weight: nothing else was assigned *)
      (KnObj (o_center o) (o_trace o) nf (o_attrs o), RRaise).

  Definition kn_do_transform (o : kn_obj) (Kt : T) : kn_obj * ob_res T :=
    match o_attrs o, o_nfeat o with
    | Some a, Some nf =>
        (* _validate_data(reset=False): the number of columns must be n_features_in_;
           the stored weights / means must broadcast against the columns *)
        if (Nat.eqb (ncols Kt) nf && Nat.eqb (ncols (a_rows a)) nf
            && match a_sw a with Some s => Nat.eqb (nrows s) nf | None => true end)%bool
        then (o, ROut (tr_num (o_center o) (a_sw a) (a_rows a) (a_all a) (a_scale a) Kt))
        else (o, RRaise)
    | _, _ => (o, RRaise)                  (* NotFittedError / AttributeError *)
    end.

  Definition kn_step (o : kn_obj) (op : kn_op) : kn_obj * ob_res T :=
    match op with
    | OSet c t => (KnObj c t (o_nfeat o) (o_attrs o), RDone)
    | OFit K w => kn_do_fit o K w
    | OTransform Kt => kn_do_transform o Kt
    | OFitTransform K w =>
        (* self.fit(K, y, sample_weight=sample_weight); return self.transform(K, copy) *)
        let (o1, r) := kn_do_fit o K w in
        match r with RRaise => (o1, RRaise) | _ => kn_do_transform o1 K end
    end.

  Fixpoint kn_run (o : kn_obj) (ops : list kn_op) : kn_obj * list (ob_res T) :=
    match ops with
    | [] => (o, [])
    | op :: ops' => let (o1, r) := kn_step o op in
                    let (o2, rs) := kn_run o1 ops' in (o2, r :: rs)
    end.
End KnObj.
Arguments KnObj {T}. Arguments KnAttrs {T}. Arguments OSet {T}. Arguments OFit {T}.
Arguments OTransform {T}. Arguments OFitTransform {T}.

(* =========================== SparseKernelCenterer =========================== *)
Section SkObj.
  Variable T : Type.
  Variable C : Type.                          (* the type of rcond *)
  Variables nrows ncols : T -> nat.
  (* the spectral data handed to the numerics with Kmm (oracle; Model/KernelCut.v) *)
  Variable H : Type.
  (* with_center, with_trace, rcond, Knm, Kmm, hint, sample_weight |-> K_fit_rows_, scale_ *)
  Variable sfit_num : bool -> bool -> C -> T -> T -> H -> option T -> T * T.
  (* K_fit_rows_, scale_, Knm *)
  Variable str_num : T -> T -> T -> T.

  Record sk_attrs := SkAttrs { s_nact : nat; s_rows : T; s_scale : T }.
  Record sk_obj := SkObj { so_center : bool; so_trace : bool; so_rcond : C;
                           so_attrs : option sk_attrs }.
  Definition sk_new (c t : bool) (rc : C) : sk_obj := SkObj c t rc None.

  Inductive sk_op :=
  | SSet (c t : bool) (rc : C)
  | SFit (Knm Kmm : T) (h : H) (w : option T)
  | STransform (Kt : T)
  | SFitTransform (Knm Kmm : T) (h : H) (w : option T).

  Definition sk_fit_ok (Knm Kmm : T) (w : option T) : bool :=
    (Nat.eqb (ncols Knm) (nrows Kmm)             (* "not commensurate shape" *)
     && Nat.eqb (nrows Kmm) (ncols Kmm)          (* "The active kernel is not square." *)
     && match w with Some w0 => Nat.eqb (nrows w0) (nrows Knm) | None => true end)%bool.

  Definition sk_do_fit (o : sk_obj) (Knm Kmm : T) (h : H) (w : option T) : sk_obj * ob_res T :=
    if sk_fit_ok Knm Kmm w then
      (* sample_weight is a local; n_active_, K_fit_rows_, scale_ assigned on every path *)
      let '(r, s) := sfit_num (so_center o) (so_trace o) (so_rcond o) Knm Kmm h w in
      (SkObj (so_center o) (so_trace o) (so_rcond o) (Some (SkAttrs (nrows Kmm) r s)), RDone)
    else (o, RRaise).                         (* all three checks precede every assignment *)

  Definition sk_do_transform (o : sk_obj) (Kt : T) : sk_obj * ob_res T :=
    match so_attrs o with
    | Some a => if Nat.eqb (ncols Kt) (s_nact a)
                then (o, ROut (str_num (s_rows a) (s_scale a) Kt))
                else (o, RRaise)              (* "different shape" *)
    | None => (o, RRaise)                     (* NotFittedError *)
    end.

  Definition sk_step (o : sk_obj) (op : sk_op) : sk_obj * ob_res T :=
    match op with
    | SSet c t rc => (SkObj c t rc (so_attrs o), RDone)
    | SFit Knm Kmm h w => sk_do_fit o Knm Kmm h w
    | STransform Kt => sk_do_transform o Kt
    | SFitTransform Knm Kmm h w =>
        let (o1, r) := sk_do_fit o Knm Kmm h w in
        match r with RRaise => (o1, RRaise) | _ => sk_do_transform o1 Knm end
    end.

  Fixpoint sk_run (o : sk_obj) (ops : list sk_op) : sk_obj * list (ob_res T) :=
    match ops with
    | [] => (o, [])
    | op :: ops' => let (o1, r) := sk_step o op in
                    let (o2, rs) := sk_run o1 ops' in (o2, r :: rs)
    end.
End SkObj.
Arguments SkObj {T C}. Arguments SkAttrs {T}. Arguments SSet {T C H}. Arguments SFit {T C H}.
Arguments STransform {T C H}. Arguments SFitTransform {T C H}.

(* =========================== binary64 instantiation =========================== *)
Open Scope float_scope.

Definition f_nrows (A : fmat) : nat := length A.
Definition f_ncols (A : fmat) : nat := match A with r :: _ => length r | [] => 0 end.
Definition opt_w (w : option fmat) : fmat := match w with Some x => x | None => [] end.
Definition has_w (w : option fmat) : bool := match w with Some _ => true | None => false end.

Definition f_norm_w (w : fmat) : fmat :=
  eval_f (kn_env [] w [] [] [] [] [] [] [] []) (kn_wts (KnCfg true true true) (length w)).
Definition f_fit_num (c t : bool) (K : fmat) (sw : option fmat) : fmat * fmat * fmat :=
  let st := kn_fit_f (KnCfg c t (has_w sw)) (length K) K (opt_w sw) in
  (st_rows st, st_all st, st_scale st).
Definition f_tr_num (c : bool) (sw : option fmat) (rows all scale Kt : fmat) : fmat :=
  kn_transform_f (KnCfg c true (has_w sw)) (f_ncols Kt) (length Kt) (opt_w sw)
                 (KnState rows all scale) Kt.

(* what transform(K, copy=False) leaves in the caller's array: K after the three in-place updates
   K -= K_fit_rows_; K -= K_pred_cols; K += K_fit_all_  (centred, NOT divided by scale_) *)
Definition f_cen_num (c : bool) (sw : option fmat) (rows all Kt : fmat) : fmat :=
  let n := f_ncols Kt in
  let cfg := KnCfg c true (has_w sw) in
  eval_f (kn_env [] (opt_w sw) Kt rows all [] [] [] [] [])
         (kn_centered cfg n (kKt n (length Kt)) (kRows n) kAll).

Definition fkn_obj := kn_obj fmat.
Definition fkn_step : fkn_obj -> kn_op fmat -> fkn_obj * ob_res fmat :=
  kn_step fmat f_nrows f_ncols f_norm_w f_fit_num f_tr_num.

Definition f_sfit_num (c t : bool) (rc : float) (Knm Kmm : fmat) (h : fmat * fmat) (w : option fmat)
  : fmat * fmat :=
  let st := sc_fit_f (KnCfg c t (has_w w)) (length Knm) (length Kmm) rc Knm (opt_w w) Kmm (fst h) (snd h) in
  (st_rows st, st_scale st).
Definition f_str_num (rows scale Kt : fmat) : fmat :=
  sk_transform_f (f_ncols Kt) (length Kt) (KnState rows [] scale) Kt.

Definition fsk_obj := sk_obj fmat float.
Definition fsk_step : fsk_obj -> sk_op fmat float (fmat * fmat) -> fsk_obj * ob_res fmat :=
  sk_step fmat float f_nrows f_ncols (fmat * fmat)%type f_sfit_num f_str_num.

(* ---- what the implementation did at each step of a history ------------------------------- *)
Inductive imp_res :=
| IDone                                           (* set_params *)
| IRaise
| IFit (rows all scale : fmat)                    (* attributes after fit (all = [] for sparse) *)
| IOut (X : fmat)
| IFitOut (rows all scale X : fmat)
(* copy=False: additionally the contents of the caller's array after the call *)
| IOutL (X left : fmat)
| IFitOutL (rows all scale X left : fmat).

Definition fmax2 (a b : float) : float := if ltb a b then b else a.

(* One step of a KernelNormalizer history: model step on the model object, compared with what
   the implementation returned / stored.  [kmax]: max|K| of the last successful fit (the
   magnitude the centred entries were obtained from by subtraction). *)
Definition fkn_cmp (tol : float) (st : fkn_obj * float) (op : kn_op fmat) (imp : imp_res)
  : (fkn_obj * float) * bool :=
  let '(o, kmax) := st in
  let (o1, r) := fkn_step o op in
  let attrs_ok (K : fmat) (ir ia isc : fmat) :=
      match o_attrs fmat o1 with
      | Some a => let km := fmaxabs K in
                  (fclose_ref tol km (a_rows fmat a) ir && fclose_ref tol km (a_all fmat a) ia
                   && fclose_ref tol (if o_center fmat o1 then km else 0) (a_scale fmat a) isc)%bool
      | None => false
      end in
  let out_ok (km : float) (Kt X Y : fmat) :=
      match o_attrs fmat o1 with
      | Some a => fclose_ref tol (fmax2 km (fmaxabs Kt) / abs (fscalar (a_scale fmat a))) X Y
      | None => false
      end in
  let left_ok (km : float) (Kt L : fmat) :=
      match o_attrs fmat o1 with
      | Some a => fclose_ref tol (fmax2 km (fmaxabs Kt))
                             (f_cen_num (o_center fmat o1) (a_sw fmat a) (a_rows fmat a) (a_all fmat a) Kt) L
      | None => false
      end in
  match op, r, imp with
  | OTransform Kt, ROut X, IOutL Y L => ((o1, kmax), (out_ok kmax Kt X Y && left_ok kmax Kt L)%bool)
  | OFitTransform K _, ROut X, IFitOutL ir ia isc Y L =>
      ((o1, fmaxabs K), (attrs_ok K ir ia isc && out_ok (fmaxabs K) K X Y && left_ok (fmaxabs K) K L)%bool)
  | OSet _ _, RDone, IDone => ((o1, kmax), true)
  | OFit K _, RDone, IFit ir ia isc => ((o1, fmaxabs K), attrs_ok K ir ia isc)
  | OFit _ _, RRaise, IRaise => ((o1, kmax), true)
  | OTransform Kt, ROut X, IOut Y => ((o1, kmax), out_ok kmax Kt X Y)
  | OTransform _, RRaise, IRaise => ((o1, kmax), true)
  | OFitTransform K _, ROut X, IFitOut ir ia isc Y =>
      ((o1, fmaxabs K), (attrs_ok K ir ia isc && out_ok (fmaxabs K) K X Y)%bool)
  | OFitTransform _ _, RRaise, IRaise => ((o1, kmax), true)
  | _, _, _ => ((o1, kmax), false)
  end.

Fixpoint fkn_hist (tol : float) (st : fkn_obj * float) (ops : list (kn_op fmat * imp_res)) : list bool :=
  match ops with
  | [] => []
  | (op, imp) :: ops' => let (st1, b) := fkn_cmp tol st op imp in b :: fkn_hist tol st1 ops'
  end.
Definition fkn_hist_ok (tol : float) (c t : bool) (ops : list (kn_op fmat * imp_res)) : bool :=
  forallb (fun b => b) (fkn_hist tol (kn_new fmat c t, 0) ops).

(* the same for SparseKernelCenterer; state carries max|Knm| and the conditioning factor of
   the last successful fit *)
Definition fsk_cmp (tol eps : float) (st : fsk_obj * float * float) (op : sk_op fmat float (fmat * fmat))
           (imp : imp_res) : (fsk_obj * float * float) * bool :=
  let '(o, kmax, cond) := st in
  let (o1, r) := fsk_step o op in
  let cond_of (Knm Kmm : fmat) (h : fmat * fmat) :=
      match so_attrs fmat float o1 with
      | Some a => let s := abs (fscalar (s_scale fmat a)) in
                  let km := fmaxabs Knm in
                  if so_trace fmat float o1
                  then km * km * fmaxabs (pc_P_f (length Kmm) (so_rcond fmat float o1) (fst h) (snd h)) / (s * s)
                  else 0
      | None => 0
      end in
  let attrs_ok (Knm Kmm : fmat) (h : fmat * fmat) (ir isc : fmat) :=
      match so_attrs fmat float o1 with
      | Some a => let s := abs (fscalar (s_scale fmat a)) in
                  (pc_hint_ok (length Kmm) eps Kmm (fst h) (snd h)
                   && fclose_ref tol (fmaxabs Knm) (s_rows fmat a) ir
                   && fclose_ref tol (s * cond_of Knm Kmm h) (s_scale fmat a) isc)%bool
      | None => false
      end in
  let out_ok (km cd : float) (Kt X Y : fmat) :=
      match so_attrs fmat float o1 with
      | Some a => fclose_ref tol (fmax2 km (fmaxabs Kt) / abs (fscalar (s_scale fmat a)) * (1 + cd)) X Y
      | None => false
      end in
  match op, r, imp with
  | SSet _ _ _, RDone, IDone => ((o1, kmax, cond), true)
  | SFit Knm Kmm h _, RDone, IFit ir _ isc =>
      ((o1, fmaxabs Knm, cond_of Knm Kmm h), attrs_ok Knm Kmm h ir isc)
  | SFit _ _ _ _, RRaise, IRaise => ((o1, kmax, cond), true)
  | STransform Kt, ROut X, IOut Y => ((o1, kmax, cond), out_ok kmax cond Kt X Y)
  | STransform _, RRaise, IRaise => ((o1, kmax, cond), true)
  | SFitTransform Knm Kmm h _, ROut X, IFitOut ir _ isc Y =>
      let cd := cond_of Knm Kmm h in
      ((o1, fmaxabs Knm, cd), (attrs_ok Knm Kmm h ir isc && out_ok (fmaxabs Knm) cd Knm X Y)%bool)
  | SFitTransform _ _ _ _, RRaise, IRaise => ((o1, kmax, cond), true)
  | _, _, _ => ((o1, kmax, cond), false)
  end.

Fixpoint fsk_hist (tol eps : float) (st : fsk_obj * float * float)
         (ops : list (sk_op fmat float (fmat * fmat) * imp_res)) : list bool :=
  match ops with
  | [] => []
  | (op, imp) :: ops' => let (st1, b) := fsk_cmp tol eps st op imp in b :: fsk_hist tol eps st1 ops'
  end.
Definition fsk_hist_ok (tol eps : float) (c t : bool) (rc : float)
           (ops : list (sk_op fmat float (fmat * fmat) * imp_res)) : bool :=
  forallb (fun b => b) (fsk_hist tol eps (sk_new fmat float c t rc, 0, 0) ops).

(* abbreviations used by the generated case files *)
Definition wNone : option fmat := None.
Definition fOSet := @OSet fmat.
Definition fOFit := @OFit fmat.
Definition fOTransform := @OTransform fmat.
Definition fOFitTransform := @OFitTransform fmat.
Definition fSSet := @SSet fmat float (fmat * fmat)%type.
Definition fSFit := @SFit fmat float (fmat * fmat)%type.
Definition fSTransform := @STransform fmat float (fmat * fmat)%type.
Definition fSFitTransform := @SFitTransform fmat float (fmat * fmat)%type.
