(* Model of skmatter.decomposition.PCovR (src/skmatter/decomposition/_pcovr.py) and of
   pcovr_covariance / pcovr_kernel (src/skmatter/utils/_pcovr_utils.py) as programs of the
   layer-A matrix-expression language [mexp] (Base/MExp.v).  Definitions only.

   The same programs are (1) run on binary64 by [eval_f] against the implementation in the
   correspondence checks of C14 / C03 / C04 (functions [pc_report] ... at the end of this
   file) and (2) interpreted over an arbitrary real closed field by [eval_mx] in
   Proofs/PCovRP.v ..., where the theorems are proved.

   LAPACK calls are oracles: their results are environment variables, constrained by
   hypotheses in the theorems and by residual checks ([pc_residuals]) at run time.

   Environment (variable numbers), n samples, m features, p targets, k components:
     0  X    n x m   training data (as passed to fit)
     1  Y    n x p   targets, reshaped to Yhat's shape  (Y.reshape(Yhat.shape))
     2  Yh   n x p   regressed targets  Yhat = regressor_.predict(X)   (contract Yh = X W)
     3  W    m x p   regression weights regressor_.coef_.T
     4  a    1 x 1   mixing
     5  tol  1 x 1   self.tol (rcond of pcovr_covariance and the `s > tol` guards)
     6  UC   m x m   oracle: eigenvectors of X^T X   (np.linalg.eigh, flipped)
     7  vC   m x 1   oracle: eigenvalues  of X^T X, decreasing
     8  V    d x k   oracle: top-k right singular vectors (= eigenvectors) of the modified
                     matrix, d = m (feature space, C~) or d = n (sample space, K~)
     9  S    k x 1   oracle: the corresponding singular values (= eigenvalues), decreasing
     10 Csq  m x m   oracle: np.linalg.lstsq(C^-1/2, I)  (feature space only)
     11 Xn   q x m   new data handed to transform / predict / score
     12 Yn   q x p   new targets handed to score
     13 Q    n x k   competitor subspace, orthonormal columns (C04 loss_prog only)          *)
From Coq Require Import ZArith List Bool PrimFloat.
From Verif Require Import MExp.
Import ListNotations.

Definition vX := 0%nat.   Definition vY := 1%nat.   Definition vYh := 2%nat.
Definition vW := 3%nat.   Definition va := 4%nat.   Definition vtol := 5%nat.
Definition vUC := 6%nat.  Definition vvC := 7%nat.  Definition vV := 8%nat.
Definition vS := 9%nat.   Definition vCsq := 10%nat. Definition vXn := 11%nat.
Definition vYn := 12%nat. Definition vQ := 13%nat.

Definition sc_a : mexp 1 1 := MVar va.
Definition sc_tol : mexp 1 1 := MVar vtol.
Definition sc_one : mexp 1 1 := MConst 1%Z.
Definition sc_zero : mexp 1 1 := MConst 0%Z.
Definition sc_oma : mexp 1 1 := MSub sc_one sc_a.               (* (1 - mixing) *)
Definition sc_recip (c : mexp 1 1) : mexp 1 1 := MMap Frecip sc_zero c.

(* squared Frobenius norm, np.linalg.norm(A) ** 2 *)
Definition sqnorm {r c : nat} (A : mexp r c) : mexp 1 1 := MTrace (MMul (MTr A) A).

Section Progs.
  Variables n m p k : nat.

  Definition eX : mexp n m := MVar vX.
  Definition eY : mexp n p := MVar vY.
  Definition eYh : mexp n p := MVar vYh.
  Definition eW : mexp m p := MVar vW.
  Definition eUC : mexp m m := MVar vUC.
  Definition evC : mexp m 1 := MVar vvC.
  Definition eS : mexp k 1 := MVar vS.
  Definition eCsq : mexp m m := MVar vCsq.
  Definition eQ : mexp n k := MVar vQ.

  (* ---- pcovr_covariance(mixing, X, Yhat, rcond = tol, return_isqrt = True) -------------
       vC, UC = eigh(X.T @ X); flip; keep vC > rcond; vC = sqrt(vC)
       C_isqrt = UC @ diagflat(1 / vC) @ UC.T
     The column selection `[:, vC > rcond]` is expressed by zeroing the discarded
     diagonal entries (x > rcond ? 1/sqrt x : 0), which gives the same matrix.          *)
  Definition xtx_prog : mexp m m := MMul (MTr eX) eX.
  Definition cisqrt_prog : mexp m m :=
    MMul (MMul eUC (MDiag (MMap Fisqrt_gt sc_tol evC))) (MTr eUC).
  (* C_Y = C_isqrt @ (X.T @ Y) *)
  Definition cy_prog : mexp m p := MMul cisqrt_prog (MMul (MTr eX) eYh).
  (* C = 0;  C += (1 - mixing) * (C_Y @ C_Y.T);  C += mixing * (X.T @ X) *)
  Definition cov_prog : mexp m m :=
    MAdd (MScale sc_oma (MMul cy_prog (MTr cy_prog))) (MScale sc_a xtx_prog).

  (* ---- pcovr_kernel(mixing, X, Yhat):
       K = 0;  K += (1 - mixing) * Y @ Y.T;  K += mixing * X @ X.T                       *)
  Definition kern_prog : mexp n n :=
    MAdd (MMul (MScale sc_oma eYh) (MTr eYh)) (MMul (MScale sc_a eX) (MTr eX)).

  (* S_sqrt = diagflat([sqrt(s) if s > tol else 0]);  S_sqrt_inv likewise with 1/sqrt(s) *)
  Definition ssqrt_prog : mexp k k := MDiag (MMap Fsqrt_gt sc_tol eS).
  Definition sisqrt_prog : mexp k k := MDiag (MMap Fisqrt_gt sc_tol eS).

  (* ---- _fit_feature_space: (U, S, Vt) = svd(Ct); V below is Vt.T (m x k)
       pxt_ = C_isqrt @ Vt.T @ S_sqrt
       ptx_ = S_sqrt_inv @ Vt @ Csqrt          Csqrt = lstsq(C_isqrt, I)  (oracle Csq)
       pty_ = S_sqrt_inv @ Vt @ C_isqrt @ X.T @ Y                                        *)
  Definition eVf : mexp m k := MVar vV.
  Definition pxt_f : mexp m k := MMul (MMul cisqrt_prog eVf) ssqrt_prog.
  Definition ptx_f : mexp k m := MMul (MMul sisqrt_prog (MTr eVf)) eCsq.
  Definition pty_f : mexp k p :=
    MMul (MMul (MMul (MMul sisqrt_prog (MTr eVf)) cisqrt_prog) (MTr eX)) eY.

  (* ---- _fit_sample_space: (U, S, Vt) = svd(Kt); V below is Vt.T (n x k)
       P = mixing * X.T + (1 - mixing) * W @ Yhat.T
       T = Vt.T @ S_sqrt_inv;  pxt_ = P @ T;  pty_ = T.T @ Y;  ptx_ = T.T @ X            *)
  Definition eVs : mexp n k := MVar vV.
  Definition pmat_prog : mexp m n :=
    MAdd (MScale sc_a (MTr eX)) (MMul (MScale sc_oma eW) (MTr eYh)).
  Definition tmat_prog : mexp n k := MMul eVs sisqrt_prog.
  Definition pxt_s : mexp m k := MMul pmat_prog tmat_prog.
  Definition pty_s : mexp k p := MMul (MTr tmat_prog) eY.
  Definition ptx_s : mexp k m := MMul (MTr tmat_prog) eX.

  (* ---- space dispatch (fit, lines 299-310): true = sample space ---------------------- *)
  Definition pxt_prog (sample : bool) : mexp m k := if sample then pxt_s else pxt_f.
  Definition ptx_prog (sample : bool) : mexp k m := if sample then ptx_s else ptx_f.
  Definition pty_prog (sample : bool) : mexp k p := if sample then pty_s else pty_f.
  (* the matrix that is decomposed, d x d with d = n (sample) or m (feature) *)
  Definition dim_of (sample : bool) : nat := if sample then n else m.

  Section Fitted.
    (* everything below only uses the fitted projectors *)
    Variable sample : bool.
    Let pxt := pxt_prog sample.
    Let ptx := ptx_prog sample.
    Let pty := pty_prog sample.

    (* pxy_ = pxt_ @ pty_ *)
    Definition pxy_prog : mexp m p := MMul pxt pty.

    (* mean_ = np.mean(X, axis=0) *)
    Definition mean_prog : mexp 1 m :=
      MScale (sc_recip (MConst (Z.of_nat n))) (MMul (MOnes 1 n) eX).

    (* sklearn _BasePCA.transform: X @ components_.T - mean_ @ components_.T,
       components_ = pxt_.T *)
    Definition transform_prog {q : nat} (Xn : mexp q m) : mexp q k :=
      MSub (MMul Xn pxt) (MMul (MOnes q 1) (MMul mean_prog pxt)).
    (* inverse_transform: T @ ptx_   (no mean added back) *)
    Definition inverse_prog {q : nat} (T : mexp q k) : mexp q m := MMul T ptx.
    (* predict(X): X @ pxy_ (no mean subtracted);  predict(T=T): T @ pty_ *)
    Definition predict_x_prog {q : nat} (Xn : mexp q m) : mexp q p := MMul Xn pxy_prog.
    Definition predict_t_prog {q : nat} (T : mexp q k) : mexp q p := MMul T pty.

    (* score(X, Y) = -(|X - T ptx|^2 / |X|^2 + |Y - T pty|^2 / |Y|^2),  T = transform(X) *)
    Definition lx_prog {q : nat} (Xn : mexp q m) : mexp 1 1 :=
      let T := transform_prog Xn in
      MMul (sqnorm (MSub Xn (inverse_prog T))) (sc_recip (sqnorm Xn)).
    Definition ly_prog {q : nat} (Xn : mexp q m) (Yn : mexp q p) : mexp 1 1 :=
      let T := transform_prog Xn in
      MMul (sqnorm (MSub Yn (predict_t_prog T))) (sc_recip (sqnorm Yn)).
    Definition score_prog {q : nat} (Xn : mexp q m) (Yn : mexp q p) : mexp 1 1 :=
      MMap Fneg sc_zero (MAdd (lx_prog Xn) (ly_prog Xn Yn)).
  End Fitted.

  (* singular_values_ = sqrt(S);  explained_variance_ = S / (n - 1) *)
  Definition singular_values_prog : mexp k 1 := MMap Fsqrt sc_zero eS.
  Definition explained_variance_prog : mexp k 1 :=
    MScale (sc_recip (MConst (Z.of_nat n - 1))) eS.

  (* ---- C04: the mixed objective for a k-dimensional subspace spanned by orthonormal Q --
       loss a Q = a |X - Q Q^T X|^2 + (1 - a) |Yh - Q Q^T Yh|^2                          *)
  Definition resid_prog {c : nat} (Q : mexp n k) (A : mexp n c) : mexp n c :=
    MSub A (MMul Q (MMul (MTr Q) A)).
  Definition lossx_prog (Q : mexp n k) : mexp 1 1 := sqnorm (resid_prog Q eX).
  Definition lossy_prog (Q : mexp n k) : mexp 1 1 := sqnorm (resid_prog Q eYh).
  Definition loss_prog (Q : mexp n k) : mexp 1 1 :=
    MAdd (MMul sc_a (lossx_prog Q)) (MMul sc_oma (lossy_prog Q)).
End Progs.

(* space = 'auto' / None:  feature space iff n_samples > n_features *)
Definition auto_sample (n m : nat) : bool := negb (Nat.ltb m n).

(* ======================================================================================
   Float side of the correspondence check (C14, C03, C04).  A case carries the shapes,
   the environment (inputs + oracle hints computed by numpy from the matrices the model
   forms) and the sign-/basis-invariant quantities observed on the implementation.      *)
Local Open Scope float_scope.

Definition env_of (l : list fmat) : nat -> fmat := fun i => nth i l [].

Record pcase := mk_pcase {
  pc_n : nat; pc_m : nat; pc_p : nat; pc_k : nat; pc_q : nat;
  pc_sample : bool;
  pc_env : list fmat;
  pc_obs : list fmat }.

(* the modified matrix of the chosen route *)
Definition modmat_f (c : pcase) : fmat :=
  let e := env_of (pc_env c) in
  if pc_sample c then eval_f e (kern_prog (pc_n c) (pc_m c) (pc_p c))
  else eval_f e (cov_prog (pc_n c) (pc_m c) (pc_p c)).

(* invariant outputs of the model, in the order the harness observes them *)
Definition pc_outputs (c : pcase) : list fmat :=
  let n := pc_n c in let m := pc_m c in let p := pc_p c in let k := pc_k c in
  let q := pc_q c in let sp := pc_sample c in
  let e := env_of (pc_env c) in
  let pxt := pxt_prog n m p k sp in
  let ptx := ptx_prog n m k sp in
  let X : mexp n m := eX n m in
  let Xn : mexp q m := MVar vXn in
  let Yn : mexp q p := MVar vYn in
  let T := transform_prog n m p k sp X in
  let Tn := transform_prog n m p k sp Xn in
  [ eval_f e (MMul pxt ptx);                                   (* 0  pxt_ @ ptx_            *)
    eval_f e (MMul ptx pxt);                                   (* 1  ptx_ @ pxt_            *)
    eval_f e (pxy_prog n m p k sp);                            (* 2  pxy_                   *)
    eval_f e (MMul T (MTr T));                                 (* 3  T T^T, T=transform(X)  *)
    eval_f e (MHad (MMul (MTr T) T) (MMul (MTr T) T));         (* 4  (T^T T)**2 entrywise: invariant
                                                                      under the sign of each component *)
    eval_f e (inverse_prog n m k sp T);                      (* 5  inverse_transform(T)   *)
    eval_f e (predict_x_prog n m p k sp X);                    (* 6  predict(X)             *)
    eval_f e (predict_t_prog n m p k sp T);                    (* 7  predict(T=T)           *)
    eval_f e (singular_values_prog k);                         (* 8  singular_values_       *)
    eval_f e (explained_variance_prog n k);                    (* 9  explained_variance_    *)
    eval_f e (score_prog n m p k sp X (eY n p));               (* 10 score(X, Y)            *)
    eval_f e (inverse_prog n m k sp Tn);                     (* 11 inv_transform(transform(Xn)) *)
    eval_f e (MMul Tn (MTr Tn));                               (* 12 Tn Tn^T                *)
    eval_f e (predict_x_prog n m p k sp Xn);                   (* 13 predict(Xn)            *)
    eval_f e (predict_t_prog n m p k sp Tn);                   (* 14 predict(T=transform(Xn)) *)
    eval_f e (score_prog n m p k sp Xn Yn)                     (* 15 score(Xn, Yn)          *)
  ].

(* largest violation of "decreasing" in a column vector *)
Fixpoint fsorted_defect (v : list float) : float :=
  match v with
  | x :: ((y :: _) as t) => let d := y - x in let r := fsorted_defect t in
                            if ltb r d then d else r
  | _ => 0
  end.

(* (residual, scale) of every oracle hypothesis; the check demands residual <= eps*(1+scale) *)
Definition pc_residuals (c : pcase) : list (float * float) :=
  let n := pc_n c in let m := pc_m c in let p := pc_p c in let k := pc_k c in
  let sp := pc_sample c in
  let e := env_of (pc_env c) in
  let r {a b} (x : mexp a b) := fmaxabs (eval_f e x) in
  let X := eX n m in let UC := eUC m in
  let d := if sp then n else m in
  let V : mexp d k := MVar vV in
  let Mt : mexp d d := MVar 100%nat in
  let e' := fun i => if Nat.eqb i 100 then modmat_f c else e i in
  let r' {a b} (x : mexp a b) := fmaxabs (eval_f e' x) in
  let A := cisqrt_prog m in let B := eCsq m in
  let sA := r A in let sB := r B in
  [ (r (MSub (eYh n p) (MMul X (eW m p))), r (eYh n p));                 (* 0 Yh = X W *)
    (r (MSub (MMul (MTr UC) UC) (MId m)), 1);                             (* 1 UC^T UC = I *)
    (r (MSub (MMul (xtx_prog n m) UC) (MMul UC (MDiag (evC m)))), r (xtx_prog n m)); (* 2 *)
    (fsorted_defect (map (fun row => nth 0 row 0) (e vvC)), r (evC m));   (* 3 vC decreasing *)
    (r (MSub (MMul (MTr V) V) (MId k)), 1);                               (* 4 V^T V = I *)
    (r' (MSub (MMul Mt V) (MMul V (MDiag (eS k)))), r' Mt);               (* 5 M V = V diag S *)
    (fsorted_defect (map (fun row => nth 0 row 0) (e vS)), r (eS k));     (* 6 S decreasing *)
    (r' (MSub Mt (MTr Mt)), r' Mt)                                        (* 7 M symmetric *)
  ] ++
  (if sp then [] else
   [ (r (MSub (MMul (MMul A B) A) A), sA * sB * sA);                      (* 8  A B A = A *)
     (r (MSub (MMul (MMul B A) B) B), sB * sA * sB);                      (* 9  B A B = B *)
     (r (MSub (MTr (MMul A B)) (MMul A B)), sA * sB);                     (* 10 (A B)^T = A B *)
     (r (MSub (MTr (MMul B A)) (MMul B A)), sA * sB) ]).                  (* 11 (B A)^T = B A *)

Definition fdev (A B : fmat) : float := fmaxabs (mmap2 sub A B).

Fixpoint map2l {A B C} (f : A -> B -> C) (u : list A) (v : list B) : list C :=
  match u, v with a :: u', b :: v' => f a b :: map2l f u' v' | _, _ => [] end.

(* report of one case: (flags of the outputs that agree with the implementation,
   flags of the hypotheses that hold, deviations, residuals) *)
Definition pc_report (rtol atol eps : float) (c : pcase)
  : list bool * list bool * list float * list float :=
  let outs := pc_outputs c in
  let res := pc_residuals c in
  (map2l (fclose rtol atol) outs (pc_obs c),
   map (fun rs => leb (fst rs) (eps * (1 + snd rs))) res,
   map2l fdev outs (pc_obs c),
   map fst res).

Definition pc_ok (rtol atol eps : float) (c : pcase) : bool :=
  let '(a, b, _, _) := pc_report rtol atol eps c in
  (Nat.eqb (length a) (length (pc_obs c)) && forallb (fun x => x) a && forallb (fun x => x) b)%bool.

(* ---- C03: the two routes on the same data ----------------------------------------------
   cf / cs : the feature-space and the sample-space case of one data set;  cov_obs, kern_obs:
   skmatter.utils.pcovr_covariance / pcovr_kernel called directly.
   flags: [C~ vs impl; K~ vs impl; T T^T; inverse_transform(T); predict(T=T); singular values]
   where the last four compare the MODEL's two routes with each other.                      *)
Definition c03_cross (rtol atol : float) (cf cs : pcase) (cov_obs kern_obs : fmat)
  : list bool * list float :=
  let ef := env_of (pc_env cf) in
  let cv := eval_f ef (cov_prog (pc_n cf) (pc_m cf) (pc_p cf)) in
  let kn := eval_f ef (kern_prog (pc_n cf) (pc_m cf) (pc_p cf)) in
  let of := pc_outputs cf in let os := pc_outputs cs in
  let pick (l : list fmat) i := nth i l [] in
  let pairs := [ (cv, cov_obs); (kn, kern_obs);
                 (pick of 3%nat, pick os 3%nat); (pick of 5%nat, pick os 5%nat);
                 (pick of 7%nat, pick os 7%nat); (pick of 8%nat, pick os 8%nat) ] in
  (map (fun ab => fclose rtol atol (fst ab) (snd ab)) pairs,
   map (fun ab => fdev (fst ab) (snd ab)) pairs).

(* ---- C04: the mixed objective of PCovR's own subspace and of competitor subspaces --------
   c : a sample-space case (V = top-k eigenvectors of K~);  Qs : orthonormal competitors;
   own_obs : the loss recomputed from the implementation's transform / inverse_transform;
   comp_obs : the competitors' losses computed by numpy.
   flags: (own vs impl) :: (own vs tr K~ - sum S) :: per competitor [model vs numpy; Q^T Q = I;
           own <= competitor (up to rounding)]                                               *)
Definition set_Q (env : list fmat) (Q : fmat) : list fmat := firstn vQ env ++ [Q].

Definition c04_report (rtol atol eps : float) (c : pcase) (Qs : list fmat) (own_obs : fmat)
                      (comp_obs : list fmat) : list bool * list float * list float :=
  let n := pc_n c in let m := pc_m c in let p := pc_p c in let k := pc_k c in
  let e := env_of (pc_env c) in
  let own := eval_f e (loss_prog n m p k (eVs n k)) in
  let ownx := eval_f e (lossx_prog n m k (eVs n k)) in
  let owny := eval_f e (lossy_prog n p k (eVs n k)) in
  let trform := eval_f e (MSub (MTrace (kern_prog n m p))
                               (MMul (MOnes 1 k) (eS k))) in
  let ownv := fget own 0 0 in
  let comp := map (fun Q => let e' := env_of (set_Q (pc_env c) Q) in
                            (fget (eval_f e' (loss_prog n m p k (eQ n k))) 0 0,
                             fmaxabs (eval_f e' (MSub (MMul (MTr (eQ n k)) (eQ n k)) (MId k))))) Qs in
  let res := pc_residuals c in
  ( [fclose rtol atol own own_obs; fclose rtol atol own trform]
    ++ map (fun rs => leb (fst rs) (eps * (1 + snd rs))) res
    ++ concat (map2l (fun cq ob =>
                 let lq := fst cq in
                 [fclose rtol atol [[lq]] ob; leb (snd cq) eps;
                  leb ownv (lq + (atol + rtol * (if ltb lq 0 then - lq else lq)))])
               comp comp_obs),
    [ownv; fget ownx 0 0; fget owny 0 0; fget trform 0 0] ++ map fst comp,
    map fst res ).
