(* C12 (extension) — the caller's arrays.  Model/KernelObj.v passes VALUES to the methods; here
   the caller owns arrays (addresses into a heap), may overwrite them between calls, and
   transform(K, copy=False) writes into the caller's array.  The object of Model/KernelObj.v
   holds values, not references: a method reads its arguments when it is called
   (KernelNormalizer.fit copies K in _validate_data(copy=True) and builds sample_weight_ as the
   NEW array  w / np.sum(w)), so nothing the caller does to its arrays afterwards is visible
   to the object.  Parametric in the numerics as Model/KernelObj.v.  Definitions only. *)
From Coq Require Import List Bool Arith.
From Verif Require Import KernelObj.
Import ListNotations.

Section KnHeap.
  Variable T : Type.
  Variables nrows ncols : T -> nat.
  Variable norm_w : T -> T.
  Variable fit_num : bool -> bool -> T -> option T -> T * T * T.
  Variable tr_num : bool -> option T -> T -> T -> T -> T -> T.
  (* what transform(K, copy=False) leaves in the caller's array: K after the three in-place
     updates  K -= K_fit_rows_; K -= K_pred_cols; K += K_fit_all_  (centred, not scaled) *)
  Variable cen_num : bool -> option T -> T -> T -> T -> T.

  Definition heap := nat -> T.
  Definition hupd (h : heap) (a : nat) (v : T) : heap := fun b => if Nat.eqb b a then v else h b.
  Definition hrd (h : heap) (aw : option nat) : option T :=
    match aw with Some a => Some (h a) | None => None end.

  Inductive kh_op :=
  | HWrite (a : nat) (v : T)                 (* the caller overwrites its array a in place *)
  | HSet (c t : bool)
  | HFit (aK : nat) (aw : option nat)        (* fit(K, sample_weight=w) with the caller's arrays *)
  | HTransform (aK : nat)                    (* transform(K)              (copy=True) *)
  | HTransformIP (aK : nat)                  (* transform(K, copy=False): writes into array aK *)
  | HFitTransform (aK : nat) (aw : option nat)
  | HFitTransformIP (aK : nat) (aw : option nat).   (* fit_transform(K, w, copy=False) *)

  Notation kstep := (kn_step T nrows ncols norm_w fit_num tr_num).

  (* the call as the object sees it: the VALUES of the arrays at the time of the call *)
  Definition kh_view (h : heap) (op : kh_op) : option (kn_op T) :=
    match op with
    | HWrite _ _ => None
    | HSet c t => Some (OSet c t)
    | HFit aK aw => Some (OFit (h aK) (hrd h aw))
    | HTransform aK => Some (OTransform (h aK))
    | HTransformIP aK => Some (OTransform (h aK))
    | HFitTransform aK aw => Some (OFitTransform (h aK) (hrd h aw))
    | HFitTransformIP aK aw => Some (OFitTransform (h aK) (hrd h aw))
    end.

  (* addresses a call reads *)
  Definition kh_reads (op : kh_op) : list nat :=
    match op with
    | HWrite _ _ => [] | HSet _ _ => []
    | HFit aK aw | HFitTransform aK aw | HFitTransformIP aK aw =>
        aK :: match aw with Some a => [a] | None => [] end
    | HTransform aK | HTransformIP aK => [aK]
    end.

  (* one step: new object, new heap, and the result of the call (None for a caller write) *)
  Definition kh_step (o : kn_obj T) (h : heap) (op : kh_op) : kn_obj T * heap * option (ob_res T) :=
    match op with
    | HWrite a v => (o, hupd h a v, None)
    | HTransformIP aK =>
        let (o1, r) := kstep o (OTransform (h aK)) in
        match r, o_attrs T o with
        | ROut _, Some a =>
            (o1, hupd h aK (cen_num (o_center T o) (a_sw T a) (a_rows T a) (a_all T a) (h aK)), Some r)
        | _, _ => (o1, h, Some r)            (* rejected before anything is written *)
        end
    | HFitTransformIP aK aw =>
        (* fit reads (and copies) the values; the transform that follows then works in the caller's
           array with the attributes just fitted *)
        let (o1, r) := kstep o (OFitTransform (h aK) (hrd h aw)) in
        match r, o_attrs T o1 with
        | ROut _, Some a =>
            (o1, hupd h aK (cen_num (o_center T o1) (a_sw T a) (a_rows T a) (a_all T a) (h aK)), Some r)
        | _, _ => (o1, h, Some r)
        end
    | _ => match kh_view h op with
           | Some k => let (o1, r) := kstep o k in (o1, h, Some r)
           | None => (o, h, None)
           end
    end.

  Fixpoint kh_run (o : kn_obj T) (h : heap) (ops : list kh_op) : kn_obj T * heap * list (ob_res T) :=
    match ops with
    | [] => (o, h, [])
    | op :: ops' =>
        let '(o1, h1, r) := kh_step o h op in
        let '(o2, h2, rs) := kh_run o1 h1 ops' in
        (o2, h2, match r with Some x => x :: rs | None => rs end)
    end.

  (* the history as the object sees it *)
  Fixpoint kh_resolve (o : kn_obj T) (h : heap) (ops : list kh_op) : list (kn_op T) :=
    match ops with
    | [] => []
    | op :: ops' =>
        let '(o1, h1, _) := kh_step o h op in
        match kh_view h op with
        | Some k => k :: kh_resolve o1 h1 ops'
        | None => kh_resolve o1 h1 ops'
        end
    end.
End KnHeap.
Arguments HWrite {T}. Arguments HSet {T}. Arguments HFit {T}. Arguments HTransform {T}.
Arguments HTransformIP {T}. Arguments HFitTransform {T}. Arguments HFitTransformIP {T}.

(* ---- binary64 instantiation ------------------------------------------------------------- *)
From Coq Require Import PrimFloat.
From Verif Require Import MExp KernelNorm.
Definition fkh_run := kh_run fmat f_nrows f_ncols f_norm_w f_fit_num f_tr_num f_cen_num.
