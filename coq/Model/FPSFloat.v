(* Binary64 replay of the PCov-FPS selection loop (src/skmatter/_selection.py, _PCovFPS):
   the loop reads the matrix pcovr_distance_ and performs only element-wise IEEE operations
   in a fixed order — (norms_ + norms_[l]) - 2*D[l] then np.minimum — so the implementation
   is reproduced BIT FOR BIT on arbitrary float data.  Structure mirrors Model/FPS.v +
   Model/Greedy.v (whose exact-arithmetic instance carries the theorems); no theorem is
   stated about floats. *)
From Coq Require Import List PrimFloat Bool.
Import ListNotations.
Open Scope float_scope.

Fixpoint fmap2 {A B C} (f : A -> B -> C) (l : list A) (m : list B) : list C :=
  match l, m with a :: l', b :: m' => f a b :: fmap2 f l' m' | _, _ => [] end.

Fixpoint fupd_nth {A} (i : nat) (x : A) (l : list A) : list A :=
  match l, i with
  | [], _ => []
  | _ :: t, O => x :: t
  | a :: t, S i' => a :: fupd_nth i' x t
  end.

Definition fmemb (i : nat) (l : list nat) : bool := existsb (Nat.eqb i) l.

(* first index of the maximum among unselected entries (selected ones count as -inf) *)
Fixpoint famax_from (i : nat) (sel : list nat) (sc : list float) : option (nat * float) :=
  match sc with
  | [] => None
  | x :: t =>
      let x' := if fmemb i sel then neg_infinity else x in
      match famax_from (S i) sel t with
      | None => Some (i, x')
      | Some (j, w) => if PrimFloat.leb w x' then Some (i, x') else Some (j, w)
      end
  end.

Record fstate := mk_fstate { f_sel : list nat; f_haus : list float; f_hsel : list float }.

Section Loop.
  Variable D : list (list float).      (* pcovr_distance_ *)
  Variable axis1 : bool.
  Let n := length D.
  Definition fdiag : list float := map (fun i => nth i (nth i D []) 0) (seq 0 n).
  Definition fline (l : nat) : list float :=
    if axis1 then map (fun r => nth l r 0) D else nth l D [].

  (* _update_hausdorff + bookkeeping *)
  Definition fpost (s : fstate) (l : nat) : fstate :=
    let nl := nth l fdiag 0 in
    let new := fmap2 (fun nn c => (nn + nl) - 2 * c) fdiag (fline l) in
    {| f_sel := f_sel s ++ [l];
       f_hsel := fupd_nth l (nth l (f_haus s) infinity) (f_hsel s);
       f_haus := fmap2 (fun h x => if PrimFloat.ltb x h then x else h) (f_haus s) new |}.

  Fixpoint frun (k : nat) (s : fstate) : fstate :=
    match k with
    | O => s
    | S k' => match famax_from 0 (f_sel s) (f_haus s) with
              | None => s
              | Some (i, _) => frun k' (fpost s i)
              end
    end.

  Definition ffit (i0 : nat) (niter : nat) : fstate :=
    frun (niter - 1) (fpost (mk_fstate [] (repeat infinity n) (repeat infinity n)) i0).
End Loop.

Fixpoint fl_eqb (a b : list float) : bool :=
  match a, b with
  | [], [] => true
  | x :: a', y :: b' => (PrimFloat.eqb x y || (negb (PrimFloat.eqb x x) && negb (PrimFloat.eqb y y))) && fl_eqb a' b'
  | _, _ => false
  end.
Fixpoint nl_eqb (a b : list nat) : bool :=
  match a, b with
  | [], [] => true
  | x :: a', y :: b' => Nat.eqb x y && nl_eqb a' b'
  | _, _ => false
  end.

Definition fcase_ok (D : list (list float)) (axis1 : bool) (i0 niter : nat)
           (o_sel : list nat) (o_haus o_seld : list float) : bool :=
  let s := ffit D axis1 i0 niter in
  nl_eqb (f_sel s) o_sel && fl_eqb (f_haus s) o_haus
  && fl_eqb (map (fun i => nth i (f_hsel s) infinity) (f_sel s)) o_seld.
