(* OrthogonalRegression as a STATE MACHINE over histories of calls (src/skmatter/linear_model/_base.py):
   several OrthogonalRegression objects, a heap of user-supplied linear-estimator objects that the
   regressions hold BY REFERENCE (`linear_estimator=<object>`, possibly shared, possibly already
   fitted by the user), and the operations  fit / attribute assignment of the two constructor
   parameters / the user fitting one of his estimator objects / predict.

   What the code does (and the machine therefore does):
     fit(X, y):   check_X_y first - a rejected input leaves coef_ and max_components_ as they were;
                  projector mode: `clone(self.linear_estimator)` (or a new LinearRegression()) is
                  fitted - the user's object is neither read for its fitted state nor written;
                  coef_ := function of (hyper-parameters of the estimator, X, y) only;
                  padded mode: the linear estimator is not touched at all;
                  max_components_ := max(p, t), coef_ := function of (X, y) only;
                  max_components_ is NOT reset by a projector-mode fit (stale attribute, kept).
     predict(X):  check_array, then check_is_fitted(coef_), then pads with the stored
                  max_components_ iff the CURRENT use_orthogonal_projector is False.

   Part 1 is generic in the numeric content (types M of data, P of fitted coefficients, H of
   hyper-parameters; the numeric routines are section variables - the theorems of
   Proofs/OrthRegHistP.v hold for every choice).  Part 2 instantiates it with shapes, finiteness
   flags, data identities and error kinds (layer D); that instance is run by vm_compute against the
   implementation on generated histories (harness/orthreg_hist.py).
   Definitions only.  Stdlib style. *)
From Coq Require Import List Bool Arith.
Import ListNotations.

(* replace element i (nothing happens when i is out of range) *)
Fixpoint lupd {A : Type} (l : list A) (i : nat) (a : A) : list A :=
  match l, i with
  | [], _ => []
  | _ :: t, O => a :: t
  | x :: t, S j => x :: lupd t j a
  end.

Section Machine.
  Variables (M P H E R : Type).
  Variable fit_check : bool -> M -> M -> option E.   (* OrthogonalRegression.fit's rejections in the given mode; None = accepted *)
  Variable est_check : M -> M -> option E.           (* rejections of the user's own estimator.fit *)
  Variable lin_fit : option H -> M -> M -> P.        (* coefficients of a FRESH linear estimator (None = LinearRegression()) fitted on X, y *)
  Variable proj_solve : P -> M -> M -> P.            (* lines 83-91: coef_ from the linear coefficients, X, y *)
  Variable pad_solve : M -> M -> P.                  (* lines 94-96 *)
  Variable pad_q : M -> M -> nat.                    (* line 93 *)
  Variable predict_of : bool -> option nat -> option P -> M -> R.   (* lines 108-113 from (current mode, max_components_, coef_) *)

  Record est := mk_est { e_hyper : H; e_fitted : option P }.
  Record obj := mk_obj { o_proj : bool; o_lin : option nat; o_coef : option P; o_maxc : option nat }.
  Record world := mk_world { w_heap : list est; w_objs : list obj }.

  Inductive op :=
  | OFit (o : nat) (X y : M)
  | OSetProj (o : nat) (b : bool)
  | OSetLin (o : nat) (l : option nat)
  | OUserFit (e : nat) (X y : M)
  | OPredict (o : nat) (Xn : M).

  Inductive outcome := OutOk | OutErr (e : E) | OutPred (r : R) | OutBadRef.

  (* the value a fit produces: depends on the mode, the hyper-parameters, X, y - nothing else *)
  Definition fit_value (b : bool) (hy : option H) (X y : M) : P :=
    if b then proj_solve (lin_fit hy X y) X y else pad_solve X y.

  Definition resolve_lin (heap : list est) (l : option nat) : option (option H) :=
    match l with
    | None => Some None
    | Some i => option_map (fun e => Some (e_hyper e)) (nth_error heap i)
    end.

  Definition fit_obj (heap : list est) (ob : obj) (X y : M) : obj * outcome :=
    match fit_check (o_proj ob) X y with
    | Some e => (ob, OutErr e)
    | None =>
      if o_proj ob then
        match resolve_lin heap (o_lin ob) with
        | None => (ob, OutBadRef)
        | Some hy => (mk_obj true (o_lin ob) (Some (fit_value true hy X y)) (o_maxc ob), OutOk)
        end
      else (mk_obj false (o_lin ob) (Some (fit_value false None X y)) (Some (pad_q X y)), OutOk)
    end.

  Definition step (a : op) (w : world) : world * outcome :=
    match a with
    | OFit o X y =>
      match nth_error (w_objs w) o with
      | None => (w, OutBadRef)
      | Some ob => let (ob', r) := fit_obj (w_heap w) ob X y in
                   (mk_world (w_heap w) (lupd (w_objs w) o ob'), r)
      end
    | OSetProj o b =>
      match nth_error (w_objs w) o with
      | None => (w, OutBadRef)
      | Some ob => (mk_world (w_heap w) (lupd (w_objs w) o (mk_obj b (o_lin ob) (o_coef ob) (o_maxc ob))), OutOk)
      end
    | OSetLin o l =>
      match nth_error (w_objs w) o with
      | None => (w, OutBadRef)
      | Some ob => (mk_world (w_heap w) (lupd (w_objs w) o (mk_obj (o_proj ob) l (o_coef ob) (o_maxc ob))), OutOk)
      end
    | OUserFit e X y =>
      match nth_error (w_heap w) e with
      | None => (w, OutBadRef)
      | Some es =>
        match est_check X y with
        | Some err => (w, OutErr err)
        | None => (mk_world (lupd (w_heap w) e (mk_est (e_hyper es) (Some (lin_fit (Some (e_hyper es)) X y))))
                            (w_objs w), OutOk)
        end
      end
    | OPredict o Xn =>
      match nth_error (w_objs w) o with
      | None => (w, OutBadRef)
      | Some ob => (w, OutPred (predict_of (o_proj ob) (o_maxc ob) (o_coef ob) Xn))
      end
    end.

  Fixpoint run (h : list op) (w : world) : world :=
    match h with
    | [] => w
    | a :: h' => run h' (fst (step a w))
    end.

  (* every intermediate (outcome, world) *)
  Fixpoint trace (h : list op) (w : world) : list (outcome * world) :=
    match h with
    | [] => []
    | a :: h' => let (w', r) := step a w in (r, w') :: trace h' w'
    end.

  (* forget everything that was ever fitted (parameters stay) *)
  Definition reset_obj (ob : obj) : obj := mk_obj (o_proj ob) (o_lin ob) None None.
  Definition reset_est (e : est) : est := mk_est (e_hyper e) None.
  Definition reset (w : world) : world := mk_world (map reset_est (w_heap w)) (map reset_obj (w_objs w)).

  (* what a fit leaves behind that predict reads in the mode it was fitted in *)
  Definition fitted_view (ob : obj) : option P * option nat :=
    (o_coef ob, if o_proj ob then None else o_maxc ob).

  (* c is the fresh-fit value of an ACCEPTED fit call on object o that occurs in h, with
     hyper-parameters taken from hs (or those of the default estimator) *)
  Definition prov (hs : list H) (h : list op) (o : nat) (c : P) : Prop :=
    exists b hy X y, c = fit_value b hy X y /\ In (OFit o X y) h /\ fit_check b X y = None
                     /\ (forall k, hy = Some k -> In k hs).

  Definition is_user_fit (a : op) : bool := match a with OUserFit _ _ _ => true | _ => false end.
End Machine.

(* the numeric routines bundled (statements in Properties/C18.v quantify over one record) *)
Record routines (M P H E R : Type) := mk_routines {
  r_fit_check : bool -> M -> M -> option E;
  r_est_check : M -> M -> option E;
  r_lin_fit : option H -> M -> M -> P;
  r_proj_solve : P -> M -> M -> P;
  r_pad_solve : M -> M -> P;
  r_pad_q : M -> M -> nat;
  r_predict_of : bool -> option nat -> option P -> M -> R }.

Section Bundled.
  Variables (M P H E R : Type) (rt : routines M P H E R).
  Definition mstep : op M -> world P H -> world P H * outcome E R :=
    step M P H E R (r_fit_check _ _ _ _ _ rt) (r_est_check _ _ _ _ _ rt) (r_lin_fit _ _ _ _ _ rt)
         (r_proj_solve _ _ _ _ _ rt) (r_pad_solve _ _ _ _ _ rt) (r_pad_q _ _ _ _ _ rt) (r_predict_of _ _ _ _ _ rt).
  Definition mrun : list (op M) -> world P H -> world P H :=
    run M P H E R (r_fit_check _ _ _ _ _ rt) (r_est_check _ _ _ _ _ rt) (r_lin_fit _ _ _ _ _ rt)
        (r_proj_solve _ _ _ _ _ rt) (r_pad_solve _ _ _ _ _ rt) (r_pad_q _ _ _ _ _ rt) (r_predict_of _ _ _ _ _ rt).
  Definition mprov : list H -> list (op M) -> nat -> P -> Prop :=
    prov M P H E (r_fit_check _ _ _ _ _ rt) (r_lin_fit _ _ _ _ _ rt) (r_proj_solve _ _ _ _ _ rt) (r_pad_solve _ _ _ _ _ rt).
  Definition mfit_value : bool -> option H -> M -> M -> P :=
    fit_value M P H (r_lin_fit _ _ _ _ _ rt) (r_proj_solve _ _ _ _ _ rt) (r_pad_solve _ _ _ _ _ rt).
End Bundled.
Arguments mstep {M P H E R}.
Arguments mrun {M P H E R}.
Arguments mprov {M P H E R}.
Arguments mfit_value {M P H E R}.
Arguments r_fit_check {M P H E R}.
Arguments r_pad_q {M P H E R}.

(* ---- Part 2: the layer-D instance (shapes, finiteness, identities, error kinds) ------------- *)
(* a numpy array argument: rows, columns (None = 1-D), all entries finite?, identity of the data *)
Record dmat := mk_dmat { d_rows : nat; d_cols : option nat; d_fin : bool; d_id : nat }.
Inductive ekind := EValue | EIndex | ENotFitted | EAttr.
(* a coefficient array: shape, and WHICH computation produced it (mode, hyper-parameter id, data ids) *)
Record dcoef := mk_dcoef { c_rows : nat; c_cols : nat; c_proj : bool; c_hy : option nat; c_x : nat; c_y : nat }.
Inductive dres := DErr (e : ekind) | DShape (r c : nat).

Definition d_ncols (A : dmat) : nat := match d_cols A with Some c => c | None => 1 end.

(* check_X_y(X, y, y_numeric, ensure_min_features=1, ensure_min_samples=1, multi_output=True), then
   line 93 `y.shape[1]` which raises IndexError for a 1-D y in padded mode *)
Definition d_fit_check (b : bool) (X y : dmat) : option ekind :=
  match d_cols X with
  | None => Some EValue
  | Some p =>
    if negb (d_fin X && d_fin y) then Some EValue
    else if (d_rows X =? 0) || (p =? 0) then Some EValue
    else if negb (d_rows X =? d_rows y) then Some EValue
    else match d_cols y with
         | Some 0 => Some EValue
         | None => if b then None else Some EIndex
         | Some _ => None
         end
  end.

(* np.reshape(linear_estimator.coef_.T, (p, -1)) is p x t' with t' = 1 for a 1-D y; stored transposed *)
Definition d_lin_fit (hy : option nat) (X y : dmat) : dcoef :=
  mk_dcoef (d_ncols y) (d_ncols X) true hy (d_id X) (d_id y).
(* (U (p x r)  R (r x r)  Vt (r x t'))^T : t' x p *)
Definition d_proj_solve (c : dcoef) (X y : dmat) : dcoef :=
  mk_dcoef (c_rows c) (c_cols c) true (c_hy c) (d_id X) (d_id y).
Definition d_pad_q (X y : dmat) : nat := Nat.max (d_ncols X) (d_ncols y).
Definition d_pad_solve (X y : dmat) : dcoef :=
  mk_dcoef (d_pad_q X y) (d_pad_q X y) false None (d_id X) (d_id y).

(* check_array(X, ensure_min_features=1, ensure_min_samples=1); check_is_fitted; np.pad with a
   negative width raises ValueError; matmul with a mismatching inner dimension raises ValueError;
   a missing max_components_ raises AttributeError *)
Definition d_predict (b : bool) (maxc : option nat) (coef : option dcoef) (Xn : dmat) : dres :=
  match d_cols Xn with
  | None => DErr EValue
  | Some c =>
    if negb (d_fin Xn) || (d_rows Xn =? 0) || (c =? 0) then DErr EValue
    else match coef with
         | None => DErr ENotFitted
         | Some cf =>
           if b then (if c =? c_cols cf then DShape (d_rows Xn) (c_rows cf) else DErr EValue)
           else match maxc with
                | None => DErr EAttr
                | Some q => if q <? c then DErr EValue
                            else if q =? c_cols cf then DShape (d_rows Xn) (c_rows cf) else DErr EValue
                end
         end
  end.

Definition dest := est dcoef nat.
Definition dobj := obj dcoef.
Definition dworld := world dcoef nat.
Definition dop := op dmat.
Definition dout := outcome ekind dres.

Definition dFit : nat -> dmat -> dmat -> dop := OFit dmat.
Definition dSetProj : nat -> bool -> dop := OSetProj dmat.
Definition dSetLin : nat -> option nat -> dop := OSetLin dmat.
Definition dUserFit : nat -> dmat -> dmat -> dop := OUserFit dmat.
Definition dPredict : nat -> dmat -> dop := OPredict dmat.
Definition dOk : dout := OutOk ekind dres.
Definition dErr (e : ekind) : dout := OutErr ekind dres e.
Definition dPred (r : dres) : dout := OutPred ekind dres r.
Definition dEst (hy : nat) (f : option dcoef) : dest := mk_est dcoef nat hy f.
Definition dObj (b : bool) (l : option nat) (c : option dcoef) (q : option nat) : dobj := mk_obj dcoef b l c q.
Definition dWorld (hp : list dest) (os : list dobj) : dworld := mk_world dcoef nat hp os.

Definition d_step : dop -> dworld -> dworld * dout :=
  step dmat dcoef nat ekind dres d_fit_check (d_fit_check true) d_lin_fit d_proj_solve d_pad_solve d_pad_q d_predict.
Definition d_trace : list dop -> dworld -> list (dout * dworld) :=
  trace dmat dcoef nat ekind dres d_fit_check (d_fit_check true) d_lin_fit d_proj_solve d_pad_solve d_pad_q d_predict.
Definition d_run : list dop -> dworld -> dworld :=
  run dmat dcoef nat ekind dres d_fit_check (d_fit_check true) d_lin_fit d_proj_solve d_pad_solve d_pad_q d_predict.

(* ---- decidable equality of observations -------------------------------------------------- *)
Definition opt_eqb {A : Type} (f : A -> A -> bool) (a b : option A) : bool :=
  match a, b with Some x, Some y => f x y | None, None => true | _, _ => false end.
Fixpoint lall2 {A : Type} (f : A -> A -> bool) (a b : list A) : bool :=
  match a, b with
  | x :: a', y :: b' => f x y && lall2 f a' b'
  | [], [] => true
  | _, _ => false
  end.
Definition ekind_eqb (a b : ekind) : bool :=
  match a, b with
  | EValue, EValue | EIndex, EIndex | ENotFitted, ENotFitted | EAttr, EAttr => true
  | _, _ => false
  end.
Definition dcoef_eqb (a b : dcoef) : bool :=
  (c_rows a =? c_rows b) && (c_cols a =? c_cols b) && Bool.eqb (c_proj a) (c_proj b)
  && opt_eqb Nat.eqb (c_hy a) (c_hy b) && (c_x a =? c_x b) && (c_y a =? c_y b).
Definition dres_eqb (a b : dres) : bool :=
  match a, b with
  | DErr x, DErr y => ekind_eqb x y
  | DShape r c, DShape r' c' => (r =? r') && (c =? c')
  | _, _ => false
  end.
Definition dout_eqb (a b : dout) : bool :=
  match a, b with
  | OutOk _ _, OutOk _ _ => true
  | OutErr _ _ x, OutErr _ _ y => ekind_eqb x y
  | OutPred _ _ x, OutPred _ _ y => dres_eqb x y
  | OutBadRef _ _, OutBadRef _ _ => true
  | _, _ => false
  end.

(* what the harness observes after every call: its outcome; per regression object whether coef_
   exists, its shape, the configuration whose fresh fit reproduces it, max_components_; per
   estimator object whether the user's instance is fitted and from which data *)
Definition dobs : Type := dout * list (option dcoef * option nat) * list (option dcoef).

Definition observe (x : dout * dworld) : dobs :=
  (fst x, map (fun ob : dobj => (o_coef _ ob, o_maxc _ ob)) (w_objs _ _ (snd x)),
   map (fun e : dest => e_fitted _ _ e) (w_heap _ _ (snd x))).

Definition dobs_eqb (a b : dobs) : bool :=
  let '(ra, oa, ea) := a in let '(rb, ob, eb) := b in
  dout_eqb ra rb
  && lall2 (fun x y => opt_eqb dcoef_eqb (fst x) (fst y) && opt_eqb Nat.eqb (snd x) (snd y)) oa ob
  && lall2 (opt_eqb dcoef_eqb) ea eb.

(* one verdict per call of the history *)
Definition hist_ok (w0 : dworld) (h : list dop) (obs : list dobs) : list bool :=
  let tr := map observe (d_trace h w0) in
  if Nat.eqb (length tr) (length obs) then map (fun p => dobs_eqb (fst p) (snd p)) (combine tr obs)
  else [false].
