(* C11 — the programs of Model/Scaler.v interpreted over mathcomp matrices on an
   arbitrary real closed field, with the same thin wrapper as the binary64 side
   (2-sample minimum, zero-variance guards, option result), and the specification
   vocabulary of the theorems (weighted mean / variance).  Definitions only. *)
From mathcomp Require Import all_ssreflect all_algebra.
From Verif Require Import MExp MExpMx MxBox Scaler.
Set Implicit Arguments.
Unset Strict Implicit.
Unset Printing Implicit Defensive.
Import GRing.Theory Num.Theory.
Local Open Scope ring_scope.

(* ---- specification vocabulary ----------------------------------------------------- *)
Section Spec.
  Variable F : rcfType.
  Variable n : nat.

  (* sum of the weights *)
  Definition wsum (w : 'cV[F]_n) : F := \sum_i w i ord0.
  (* weighted column means   sum_i w_i A_ij / sum_i w_i   (a row) *)
  Definition wmean (p : nat) (w : 'cV[F]_n) (A : 'M[F]_(n, p)) : 'rV[F]_p :=
    \row_j ((\sum_i w i ord0 * A i j) / wsum w).
  (* weighted column variances   sum_i w_i (A_ij - wmean_j)^2 / sum_i w_i *)
  Definition wvar (p : nat) (w : 'cV[F]_n) (A : 'M[F]_(n, p)) : 'rV[F]_p :=
    wmean w (\matrix_(i, j) (A i j - wmean w A ord0 j) ^+ 2).
  (* every row of the k x p result is the row r *)
  Definition rows_of (k p : nat) (r : 'rV[F]_p) : 'M[F]_(k, p) := \matrix_(i, j) r ord0 j.
End Spec.

(* ---- the wrapper ---------------------------------------------------------------------- *)
Section Wrapper.
  Variable F : rcfType.
  Variables (cfg : sc_cfg) (n d : nat).

  Definition sc_env_fit_mx (X : 'M[F]_(n, d)) (w : 'cV[F]_n) : env_mx F :=
    env_of [:: box X; box w].
  Definition sc_env_tr_mx (k : nat) (Y : 'M[F]_(k, d)) (mu s : 'rV[F]_d) : env_mx F :=
    env_of [:: box0 F; box0 F; box Y; box mu; box s].

  (* true = `raise ValueError("Cannot normalize ... with zero variance")` *)
  Definition sc_guard_mx (rtol atol : F) (env : env_mx F) : bool :=
    if with_std cfg then
      if column_wise cfg then
        [exists j, (eval_mx env (sc_var cfg n d)) ord0 j
                   < atol + `|(eval_mx env (sc_xmean cfg n d)) ord0 j| * rtol]
      else
        (eval_mx env (sc_varsum cfg n d)) ord0 ord0
        < `|(eval_mx env (sc_avgmean cfg n d)) ord0 ord0| * rtol + atol
    else false.

  (* fit: None = ValueError; Some (mean_, scale_) *)
  Definition sc_fit_mx (rtol atol : F) (X : 'M[F]_(n, d)) (w : 'cV[F]_n)
    : option ('rV[F]_d * 'rV[F]_d) :=
    let env := sc_env_fit_mx X w in
    if (n < 2)%N then None
    else if sc_guard_mx rtol atol env then None
    else Some (eval_mx env (sc_mean cfg n d), eval_mx env (sc_scale cfg n d)).

  Definition sc_transform_mx (k : nat) (st : 'rV[F]_d * 'rV[F]_d) (Y : 'M[F]_(k, d)) : 'M[F]_(k, d) :=
    eval_mx (sc_env_tr_mx Y st.1 st.2) (sc_transform d k).
  Definition sc_inverse_mx (k : nat) (st : 'rV[F]_d * 'rV[F]_d) (T : 'M[F]_(k, d)) : 'M[F]_(k, d) :=
    eval_mx (sc_env_tr_mx T st.1 st.2) (sc_inverse d k).

  (* the weights the statistics refer to: sample_weight, or all ones when it is None *)
  Definition sc_effw (w : 'cV[F]_n) : 'cV[F]_n := if has_w cfg then w else const_mx 1.
  (* the weights are usable: given sample weights have a non-zero sum *)
  Definition sc_wok (w : 'cV[F]_n) : bool := has_w cfg ==> (wsum w != 0).
End Wrapper.
