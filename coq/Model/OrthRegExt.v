(* Extension of the OrthogonalRegression model (Model/OrthReg.v): the tie of projector mode to the
   UNDERLYING LINEAR FIT.  Programs for the hypotheses "C = Uc diag(sc) Vc^T" (thin SVD of the linear
   coefficients) and "C solves the normal equations of (J X, J y)" (J = identity: least squares
   without intercept; J = centering matrix: LinearRegression() with intercept), the range projectors
   W W^T - Uc Uc^T, W^T W - Vc Vc^T, and the binary64 comparator that evaluates them on the
   implementation's coef_ and on the coefficients of the linear estimator.  Definitions only.
   Stdlib style. *)
From Coq Require Import ZArith List Bool Arith PrimFloat.
From Verif Require Import MExp Ridge2Fold OrthReg.
Import ListNotations.

Definition oJ := 18%nat.                                     (* n x n, see above *)

(* C - Uc diag(sc) Vc^T *)
Definition lin_recon_prog (p t r : nat) : mexp p t :=
  MSub (MVar (m:=p) (n:=t) oC)
       (MMul (MMul (MVar (m:=p) (n:=r) oUc) (MDiag (MVar (m:=r) (n:=1) oSc))) (MTr (MVar (m:=t) (n:=r) oVc))).

(* (J X)^T (J X) C - (J X)^T (J y) *)
Definition normal_eq_prog (n p t : nat) (J : mexp n n) : mexp p t :=
  let Z := MMul J (MVar (m:=n) (n:=p) oX) in
  MSub (MMul (MMul (MTr Z) Z) (MVar (m:=p) (n:=t) oC)) (MMul (MTr Z) (MMul J (MVar (m:=n) (n:=t) oY))).

(* I - (1/n) 1 1^T *)
Definition center_prog (n : nat) : mexp n n :=
  MSub (MId n) (MScale (MMap Frecip (MConst 0) (MConst (Z.of_nat n))) (MOnes n n)).

(* W W^T - Uc Uc^T   and   W^T W - Vc Vc^T *)
Definition rangeL_prog (p t r : nat) (w : mexp p t) : mexp p p :=
  MSub (MMul w (MTr w)) (MMul (MVar (m:=p) (n:=r) oUc) (MTr (MVar (m:=p) (n:=r) oUc))).
Definition rangeR_prog (p t r : nat) (w : mexp p t) : mexp t t :=
  MSub (MMul (MTr w) w) (MMul (MVar (m:=t) (n:=r) oVc) (MTr (MVar (m:=t) (n:=r) oVc))).

Open Scope float_scope.

(* Components: [W W^T = Uc Uc^T and W^T W = Vc Vc^T for the implementation's W = coef_^T (only when the
   linear coefficients have full rank: grange); the linear estimator's coefficients solve the normal
   equations (ols = 1: without intercept, 2: centred, 0: not a least-squares estimator - skipped)] *)
Definition proj_ext_ok (X Y C : fmat) (hc : svdh) (obs_coef : fmat) (grange : bool) (ols : nat) : list bool :=
  let n := length X in let p := ncols X in let t := ncols Y in
  let r := length (gS hc) in
  let Wi := ftr p obs_coef in
  let env := envl [[]; []; []; []; []; []; []; X; Y; gU hc; colv (gS hc); gV hc; []; []; []; C; []; Wi] in
  let vWp := MVar (m:=p) (n:=t) oWp in
  let J := match ols with 2%nat => center_prog n | _ => MId n end in
  let Z := eval_f env (MMul J (MVar (m:=n) (n:=p) oX)) in
  let Zy := eval_f env (MMul J (MVar (m:=n) (n:=t) oY)) in
  let fro2 (A : fmat) := fsum (map (fun r => fdot r r) A) in
  [ negb grange
    || (leb (fmaxabs (eval_f env (rangeL_prog p t r vWp))) 0x1p-23
        && leb (fmaxabs (eval_f env (rangeR_prog p t r vWp))) 0x1p-23);
    Nat.eqb ols 0
    || leb (fmaxabs (eval_f env (normal_eq_prog n p t J)))
           (0x1p-30 * (fro2 Z * (1 + fmaxabs C) + fro2 Zy)) ]%bool.
