(* C04, extension round 3: additions to the layer-A model Model/PCovR.v (shared with C03 / C14,
   therefore left untouched) that only C04 needs.  Definitions only.

   1. PCovR's own k-dimensional subspace of SAMPLE space as a program, for BOTH routes of fit:
        sample space   Q = V                      (eigenvectors of K~ returned by the svd oracle)
        feature space  Q = X C^-1/2 V             (V: eigenvectors of C~; _fit_feature_space never
                                                   forms Q, but T = X pxt_ = Q S^1/2)
      so that loss_prog can be evaluated - on floats and over the field - for a feature-space fit.
   2. The training losses as the user observes them:
        |X - inverse_transform(transform(X))|^2   and   |Y - predict(T = transform(X))|^2.
   3. The float report that ties (1) and (2) to the implementation, loss by loss (not only the
      mixed aggregate).                                                                      *)
From Coq Require Import ZArith List Bool PrimFloat.
From Verif Require Import MExp PCovR.
Import ListNotations.

Section Own.
  Variables n m p k : nat.

  Definition ownq_f : mexp n k := MMul (MMul (eX n m) (cisqrt_prog m)) (eVf m k).
  Definition ownq_prog (sample : bool) : mexp n k := if sample then eVs n k else ownq_f.

  (* the retained columns of Q: a column is zeroed when its eigenvalue is <= tol, exactly as the
     guards `if s > self.tol else 0.0` zero the corresponding latent coordinate *)
  Definition retmask_prog : mexp k k := MMul (ssqrt_prog k) (sisqrt_prog k).
  Definition ownq_ret (sample : bool) : mexp n k := MMul (ownq_prog sample) retmask_prog.

  (* T = transform(X);  the two training losses of a fitted estimator *)
  Definition train_T (sample : bool) : mexp n k := transform_prog n m p k sample (eX n m).
  Definition obs_lossx_prog (sample : bool) : mexp 1 1 :=
    sqnorm (MSub (eX n m) (inverse_prog n m k sample (train_T sample))).
  Definition obs_lossy_prog (sample : bool) : mexp 1 1 :=
    sqnorm (MSub (eY n p) (predict_t_prog n m p k sample (train_T sample))).
  (* the constant part of the regression loss: |Y - Yhat|^2 *)
  Definition resid_ls_prog : mexp 1 1 := sqnorm (MSub (eY n p) (eYh n p)).
End Own.

(* ---- float side -------------------------------------------------------------------------
   c : the case of the route the fit actually took.  own_obs / lx_obs / ly_obs / lY_obs : the
   mixed loss, the X loss, the loss of the regressed targets and the loss of the targets,
   recomputed from the implementation's transform / inverse_transform / predict.
   Q below is ownq_ret: the retained columns of the fit's own subspace.
   flags: [ loss_prog(own Q) vs impl;  lossx_prog(own Q) vs impl;  lossy_prog(own Q) vs impl;
            observed X-loss program vs impl;  observed Y-loss program vs impl;
            Q^T Q idempotent (orthonormal or masked columns);
            loss_prog(own Q) vs  tr M - sum of the retained eigenvalues ]
   (third component empty: same type as PCovR.c04_report, so that both go into one Eval)     *)
Local Open Scope float_scope.

Definition c04_own_report (rtol atol eps : float) (c : pcase) (own_obs lx_obs ly_obs lY_obs : fmat)
  : list bool * list float * list float :=
  let n := pc_n c in let m := pc_m c in let p := pc_p c in let k := pc_k c in
  let sp := pc_sample c in
  let e := env_of (pc_env c) in
  let Q := ownq_ret n m k sp in
  let own := eval_f e (loss_prog n m p k Q) in
  let lx := eval_f e (lossx_prog n m k Q) in
  let ly := eval_f e (lossy_prog n p k Q) in
  let olx := eval_f e (obs_lossx_prog n m p k sp) in
  let oly := eval_f e (obs_lossy_prog n m p k sp) in
  let G := MMul (MTr Q) Q in
  let idem := fmaxabs (eval_f e (MSub (MMul G G) G)) in
  let trM : mexp 1 1 := if sp then MTrace (kern_prog n m p) else MTrace (cov_prog n m p) in
  let trf := eval_f e (MSub trM (MTrace (MMul (ssqrt_prog k) (ssqrt_prog k)))) in
  ( [ fclose rtol atol own own_obs; fclose rtol atol lx lx_obs; fclose rtol atol ly ly_obs;
      fclose rtol atol olx lx_obs; fclose rtol atol oly lY_obs; leb idem eps;
      fclose rtol atol own trf ],
    [ fget own 0 0; fget lx 0 0; fget ly 0 0; fget olx 0 0; fget oly 0 0; idem; fget trf 0 0 ],
    [] ).
