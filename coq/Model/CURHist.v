(* C07, layer A, histories on ONE estimator object: a cold fit followed by warm starts, with
   recompute_every / k / mixing / tolerance / n_to_select changed by set_params in between
   (src/skmatter/_selection.py: _CUR / _PCovCUR ._init_greedy_search, ._continue_greedy_search,
   ._update_post_selection, ._orthogonalize).  Binary64 side; the programs are those of
   Model/CURLoop.v.  What Model/CURLoop.v does NOT contain and is modelled here:

     * the re-orthogonalisation loop of _continue_greedy_search WITH a firing guard
           for c in selected_idx_:
               if recompute_every != 0 and norm(X_current_[c]) > tolerance * norm(X[c]):
                   _orthogonalize(c)                                     [warm_step_f / warm_fold_f]
       (items selected while recompute_every was 0 are still in X_current_; they are projected
       out one after the other, in selection order, at the next warm start with
       recompute_every != 0; the PCov-CUR y residual is recomputed once per firing item with the
       whole X_selected_ buffer of the previous fit)
     * a residual that is NOT updated while recompute_every = 0 although selections are made
     * per-stage k / mixing in _compute_pi, per-stage tolerance in X_orthogonalizer, in the guard
       and as rcond of pinv / lstsq
     * every exposed X_current_ / y_current_ (after each fit of the history), not only the last.

   Scale: every comparison is relative to the scale of the data (max|X|, max|y|, max|M|), so that
   matrices with entries of order 1e-8 are checked as tightly as those of order 1.

   Definitions only (stdlib style).  Over an arbitrary real closed field the same wrappers are
   in Model/CURHistMx.v, theorems in Proofs/CURHistP.v. *)
From Coq Require Import ZArith List Bool PrimFloat.
From Verif Require Import MExp PCovR CURLoop.
Import ListNotations.
Local Open Scope float_scope.

(* ---- the warm-start loop ---------------------------------------------------------------- *)
Section Warm.
  Variables r c : nat.                 (* oriented shape: items are columns *)
  Variable tol : float.
  Variable X : fmat.                   (* the training matrix (oriented) *)

  Definition guard_f (Xc : fmat) (j : nat) : bool :=
    ltb (tol * pivot_norm_f r c X j) (pivot_norm_f r c Xc j).
  Definition warm_step_f (Xc : fmat) (j : nat) : fmat :=
    if guard_f Xc j then orth_step_f r c tol Xc j else Xc.
  Definition warm_fold_f (Xc : fmat) (old : list nat) : fmat := fold_left warm_step_f old Xc.
  (* number of items re-orthogonalised *)
  Fixpoint warm_count_f (Xc : fmat) (old : list nat) : nat :=
    match old with
    | [] => O
    | j :: s => ((if guard_f Xc j then 1 else 0) + warm_count_f (warm_step_f Xc j) s)%nat
    end.

  (* a and b differ, but by less than 1e-9 relative: the branch taken is decided by rounding *)
  Definition near_f (a b : float) : bool :=
    negb (eqb a b) && leb (abs (a - b)) (0x1.12e0be826d695p-30 * abs b).   (* 1e-9 *)
  (* residual of item j is not negligible relative to the item (more than rounding noise) *)
  Definition live_f (Xc : fmat) (j : nat) : bool :=
    ltb (0x1.b7cdfd9d7bdbbp-34 * pivot_norm_f r c X j) (pivot_norm_f r c Xc j).   (* 1e-10 *)

  (* (raw-branch pivots, borderline decisions, stale items skipped by a quiet guard although
      their residual is not negligible) of the warm-start loop *)
  Fixpoint warm_diag_f (Xc : fmat) (old : list nat) : nat * nat * nat :=
    match old with
    | [] => (O, O, O)
    | j :: s =>
        let g := guard_f Xc j in
        let nr := pivot_norm_f r c Xc j in
        let '(a, b, d) := warm_diag_f (warm_step_f Xc j) s in
        ((if g && ltb nr tol then S a else a),
         (if near_f nr (tol * pivot_norm_f r c X j) || (g && near_f nr tol) then S b else b),
         (if negb g && live_f Xc j then S d else d))
    end.
  (* the same for the selections of the loop (no guard) *)
  Fixpoint loop_diag_f (Xc : fmat) (news : list nat) : nat * nat :=
    match news with
    | [] => (O, O)
    | j :: s =>
        let nr := pivot_norm_f r c Xc j in
        let '(a, b) := loop_diag_f (orth_step_f r c tol Xc j) s in
        ((if ltb nr tol then S a else a), (if near_f nr tol then S b else b))
    end.
End Warm.

(* ---- records ------------------------------------------------------------------------------ *)
Record hrefresh := mk_hrefresh {
  hr_V : fmat; hr_lam : fmat;          (* oracle: eigendecomposition of the model's matrix *)
  hr_UC : fmat; hr_vC : fmat;          (* oracle inside pcovr_covariance (feature PCov-CUR) *)
  hr_pi : fmat }.                      (* observed: what the implementation's _compute_pi returned *)

Record hstage := mk_hstage {
  hs_re : nat;                         (* recompute_every of this fit *)
  hs_nts : nat;                        (* resolved n_to_select of this fit *)
  hs_k : nat;                          (* k (number of eigenvectors) *)
  hs_a : float;                        (* mixing *)
  hs_tol : float;                      (* tolerance *)
  hs_wyf : list (nat * fmat);          (* feature PCov-CUR, warm start: [] or [(K_old, pinv hint)] *)
  hs_wys : list (fmat * fmat);         (* sample PCov-CUR, warm start: [] or [(W, Z)] *)
  hs_yf : list (nat * fmat);           (* per selection of this fit: (n_to_select, pinv hint) *)
  hs_ys : list (fmat * fmat);          (* per selection of this fit: (W, Z) *)
  hs_refresh : list hrefresh;          (* the refreshes of this fit, in order *)
  hs_Xcur : fmat; hs_ycur : fmat }.    (* observed X_current_, y_current_ after this fit *)

Record hcase := mk_hcase {
  hc_sample : bool; hc_pcov : bool;
  hc_n : nat; hc_m : nat; hc_p : nat;
  hc_X : fmat; hc_Y : fmat;
  hc_sel : list nat;                   (* all selections, in order *)
  hc_stages : list hstage }.

Section HCase.
  Variable P : cparams.                (* cp_tol is not used: every stage has its own tolerance *)
  Variable h : hcase.
  Let n := hc_n h. Let m := hc_m h. Let p := hc_p h.
  Let sample := hc_sample h. Let pcov := hc_pcov h.
  Let N := if sample then n else m.
  Let r := if sample then m else n.            (* oriented shape *)
  Let c := if sample then n else m.
  Let X := hc_X h. Let Y := hc_Y h. Let sel := hc_sel h.
  Let Xo := if sample then ftr m X else X.      (* items as columns *)
  Definition unor (A : fmat) : fmat := if sample then ftr n A else A.

  Definition hholds (rs : float * float) : bool := leb (fst rs) (cp_eps P * snd rs).
  Definition worst_of (l : list (float * float)) (acc0 : float) : float :=
    fold_left (fun acc rs => let q := fst rs / snd rs in if ltb acc q then q else acc) l acc0.

  (* ---- one refresh: as CURLoop.refresh_check, with the residuals / k / mixing passed in ---- *)
  Definition hscore_env (a : float) (Xt yt : fmat) (rf : hrefresh) : nat -> fmat :=
    eset (eset (eset (eset (eset (eset e0 vX Xt) vYh yt) va [[a]]) vtol [[cp_rcond P]])
               vUC (hr_UC rf)) vvC (hr_vC rf).
  Definition hscore_mat_f (a : float) (Xt yt : fmat) (rf : hrefresh) : fmat :=
    let e := hscore_env a Xt yt rf in
    match pcov, sample with
    | false, true => eval_f e (gram_prog n m)
    | false, false => eval_f e (xtx_prog n m)
    | true, true => eval_f e (kern_prog n m p)
    | true, false => eval_f e (cov_prog n m p)
    end.
  Definition hcolv (A : fmat) : list float := map (fun row => nth 0 row 0) A.

  (* status: 0 agrees, 1 gated (eigenvalue gap), 2 gated (rcond of pcovr_covariance), 3 an oracle
     hypothesis fails, 4 pi differs; then (worst hypothesis residual / scale, |pi - pi_obs|) *)
  Definition hrefresh_check (k : nat) (a : float) (Xt yt : fmat) (rf : hrefresh) : nat * float * float :=
    let e := hscore_env a Xt yt rf in
    let M := hscore_mat_f a Xt yt rf in
    let e' := eset (eset (eset (eset e uM M) uVV (hr_V rf)) uLam (hr_lam rf)) uD (fdk N k) in
    let inner :=
      if pcov && negb sample then
        [ (rmax e (MSub (MMul (MTr (eUC m)) (eUC m)) (MId m)), 1);
          (rmax e (MSub (MMul (xtx_prog n m) (eUC m)) (MMul (eUC m) (MDiag (evC m)))), rmax e (xtx_prog n m));
          (fsorted_defect (hcolv (hr_vC rf)), rmax e (evC m)) ]
      else [] in
    let outer :=
      [ (rmax e' (eig_orth N), 1);
        (rmax e' (eig_eq N), rmax e' (pM N));
        (rmax e' (eig_sym N), rmax e' (pM N));
        (fsorted_defect (hcolv (hr_lam rf)), rmax e' (pLam N)) ] in
    let hyps := inner ++ outer in
    let worst := worst_of hyps 0 in
    let lam := hcolv (hr_lam rf) in
    let l0 := nth 0 lam 0 in
    let gap_ok := if Nat.leb N k then ltb 0 l0
                  else ltb (cp_gap P * l0) (nth (k - 1) lam 0 - nth k lam 0) in
    let vmax := nth 0 (hcolv (hr_vC rf)) 0 in
    let near := existsb (fun v => ltb (cp_rcond P / 100) v &&
                                  (ltb v (cp_rcond P * 100) || ltb v (cp_cond P * vmax)))
                        (hcolv (hr_vC rf)) in
    let pi := eval_f e' (pi_prog N) in
    let dev := fmaxabs (mmap2 sub pi (hr_pi rf)) in
    let st :=
      if pcov && negb sample && near then 2%nat
      else if negb (forallb hholds hyps) then 3%nat
      else if negb gap_ok then 1%nat
      else if fclose (cp_pirtol P) (cp_piatol P) pi (hr_pi rf) then 0%nat else 4%nat in
    (st, worst, dev).

  (* ---- y_current_ ------------------------------------------------------------------------- *)
  (* one call of Y_feature_orthogonalizer with the buffer holding the first t selections, width K *)
  Definition yfeat_step_f (y : fmat) (t : nat) (KV : nat * fmat) : fmat :=
    eval_f (yfeat_env y (buf_f X sel t (fst KV)) (snd KV)) (yfeat_prog n p (fst KV)).
  (* Y_sample_orthogonalizer(y_ref_, X_ref_, ...) : always from the training y *)
  Definition ysamp_step_f (WZ : fmat * fmat) : fmat :=
    eval_f (ysamp_env X Y (fst WZ) [] [] (snd WZ)) (ysamp_prog n m p).

  (* ---- the running state -------------------------------------------------------------------
     hm: n_selected_;  hX: X_current_ (oriented);  hy: y_current_;
     reports: refresh statuses (newest first), hypothesis residuals of the y hints,
     deviations / flags of the exposed residuals per fit, diagnostics *)
  Record hstate := mk_hstate {
    hm : nat; hX : fmat; hy : fmat;
    h_rs : list (nat * float * float);
    h_yh : list (float * float);
    h_okx : bool; h_oky : bool; h_dx : float; h_dy : float;
    h_dm : float; h_di : float;        (* orthogonality defects / (max|X|)^2, model and observed *)
    h_raw : nat; h_fire : nat; h_skip : nat; h_border : nat; h_lost : nat }.

  Definition fmaxf (a b : float) : float := if ltb a b then b else a.

  (* the loop of one fit: selections t+1 .. of [news], refresh records [rfs] *)
  Fixpoint hloop (s : hstage) (t : nat) (news : list nat) (Xc y : fmat)
           (yf : list (nat * fmat)) (ys : list (fmat * fmat)) (rfs : list hrefresh)
           (rs : list (nat * float * float)) (lost : nat)
    : fmat * fmat * list (nat * float * float) * nat :=
    match news with
    | [] => (Xc, y, rs, (lost + length rfs)%nat)
    | j :: news' =>
        let iter := negb (Nat.eqb (hs_re s) 0) in
        let t' := S t in
        let Xc' := if iter then orth_step_f r c (hs_tol s) Xc j else Xc in
        let y' := if iter && pcov then
                    if sample then match ys with wz :: _ => ysamp_step_f wz | [] => [] end
                    else match yf with kv :: _ => yfeat_step_f y t' kv | [] => [] end
                  else y in
        let yf' := tl yf in let ys' := tl ys in
        if iter && Nat.eqb (Nat.modulo t' (hs_re s)) 0 then
          match rfs with
          | rf :: rfs' =>
              hloop s t' news' Xc' y' yf' ys' rfs'
                    (hrefresh_check (hs_k s) (hs_a s) (unor Xc') y' rf :: rs) lost
          | [] => hloop s t' news' Xc' y' yf' ys' [] rs (S lost)
          end
        else hloop s t' news' Xc' y' yf' ys' rfs rs lost
    end.

  Definition hstage_f (st : hstate) (s : hstage) : hstate :=
    let m0 := hm st in
    let tol := hs_tol s in
    let iter := negb (Nat.eqb (hs_re s) 0) in
    let old := firstn m0 sel in
    let news := skipn m0 (firstn (hs_nts s) sel) in
    (* _continue_greedy_search (for the first fit [old] is empty: _init_greedy_search) *)
    let fires := if iter then warm_count_f r c tol Xo (hX st) old else O in
    let '(wraw, wborder, wskip) := if iter then warm_diag_f r c tol Xo (hX st) old else (O, O, O) in
    let Xw := if iter then warm_fold_f r c tol Xo (hX st) old else hX st in
    let yw := if pcov && negb (Nat.eqb fires 0) then
                if sample then match hs_wys s with wz :: _ => ysamp_step_f wz | [] => [] end
                else match hs_wyf s with
                     | kv :: _ => fold_left (fun y _ => yfeat_step_f y m0 kv) (seq 0 fires) (hy st)
                     | [] => []
                     end
              else hy st in
    let yh_w := if pcov && negb (Nat.eqb fires 0) then
                  if sample then ysamp_res_f n m p X Y sel (m0 - 1) (hs_wys s)
                  else yfeat_res_f n p X sel (m0 - 1) (hs_wyf s)
                else [] in
    (* the refresh of _init / _continue_greedy_search *)
    let '(rs0, rfs, lost0) :=
      match hs_refresh s with
      | rf :: rfs => (hrefresh_check (hs_k s) (hs_a s) (unor Xw) yw rf :: h_rs st, rfs, h_lost st)
      | [] => (h_rs st, [], S (h_lost st))
      end in
    let '(lraw, lborder) := if iter then loop_diag_f r c tol Xw news else (O, O) in
    let '(Xe, ye, rs1, lost1) := hloop s m0 news Xw yw (hs_yf s) (hs_ys s) rfs rs0 lost0 in
    let yh_l := if pcov && iter then
                  if sample then ysamp_res_f n m p X Y sel m0 (hs_ys s)
                  else yfeat_res_f n p X sel m0 (hs_yf s)
                else [] in
    (* exposed residuals after this fit *)
    let sx := fmaxabs X in let sy := fmaxabs Y in
    let Xm := unor Xe in
    let okx := fclose (cp_rtol P) (cp_atol P * sx) Xm (hs_Xcur s) in
    let dx := fmaxabs (mmap2 sub Xm (hs_Xcur s)) / sx in
    let oky := if pcov then fclose (cp_rtol P) (cp_atol P * sy) ye (hs_ycur s) else true in
    let dy := if pcov then fmaxabs (mmap2 sub ye (hs_ycur s)) / sy else 0 in
    let done := firstn (m0 + length news) sel in
    let raw := (h_raw st + wraw + lraw)%nat in
    let skip := (h_skip st + wskip)%nat in
    (* orthogonality is only claimed when every selected item was projected out with a
       normalised pivot: recompute_every != 0 now, no warning-branch pivot, no skipped item *)
    let claim := iter && Nat.eqb raw 0 && Nat.eqb skip 0 in
    let dm := if claim then orth_defect_f sample n m Xm X done / (sx * sx) else 0 in
    let di := if claim then orth_defect_f sample n m (hs_Xcur s) X done / (sx * sx) else 0 in
    mk_hstate (m0 + length news) Xe ye rs1 (h_yh st ++ yh_w ++ yh_l)
              (h_okx st && okx) (h_oky st && oky) (fmaxf (h_dx st) dx) (fmaxf (h_dy st) dy)
              (fmaxf (h_dm st) dm) (fmaxf (h_di st) di)
              raw (h_fire st + fires) skip (h_border st + wborder + lborder) lost1.

  Definition hstate0 : hstate :=
    mk_hstate 0 Xo Y [] [] true true 0 0 0 0 0 0 0 0 0.
  Definition hrun : hstate := fold_left hstage_f (hc_stages h) hstate0.

  (* flags: [X_current_ agrees after every fit; model residual orthogonal; observed residual
             orthogonal; y_current_ agrees after every fit; y-oracle hypotheses hold;
             no refresh fails and none is missing / left over]
     counters: [refreshes agreeing; gated by gap; gated by rcond; hypothesis failures; pi failures;
                warning-branch pivots; stale items re-orthogonalised at warm starts; stale items
                skipped by a quiet guard; borderline branch decisions; refresh records lost]
     floats: [max|X_cur - obs|/max|X|; orth defect model /max|X|^2; observed; max|y_cur - obs|/max|y|;
              worst y-hypothesis residual/scale; worst eigen-hypothesis residual/scale; worst pi dev] *)
  Definition hc_report : list bool * list nat * list float :=
    let st := hrun in
    let rs := h_rs st in
    let cnt (s : nat) := length (filter (fun x => Nat.eqb (fst (fst x)) s) rs) in
    let we := fold_left (fun acc x => fmaxf acc (snd (fst x))) rs 0 in
    let wp := fold_left (fun acc x => if Nat.eqb (fst (fst x)) 0 then fmaxf acc (snd x) else acc) rs 0 in
    let wy := worst_of (h_yh st) 0 in
    ([h_okx st; leb (h_dm st) (cp_atol P); leb (h_di st) (cp_atol P); h_oky st;
      forallb hholds (h_yh st);
      Nat.eqb (cnt 3%nat) 0 && Nat.eqb (cnt 4%nat) 0 && Nat.eqb (h_lost st) 0],
     [cnt 0%nat; cnt 1%nat; cnt 2%nat; cnt 3%nat; cnt 4%nat;
      h_raw st; h_fire st; h_skip st; h_border st; h_lost st],
     [h_dx st; h_dm st; h_di st; h_dy st; wy; we; wp]).
End HCase.
