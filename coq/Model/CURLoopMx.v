(* C07, layer A over an arbitrary real closed field: the Gallina wrappers of Model/CURLoop.v
   (environment construction, the `norm < tol` branch, the fold over the selections) with the
   programs interpreted by [eval_mx] instead of [eval_f].  Definitions only, ssreflect style.
   The wrappers mirror the float ones one for one:
     orth_env / pivot_norm_f / orth_step_f / orth_fold_f / resid_f / buf_f / rows_f /
     yfeat_env / yfeat_fold_f / ysamp_env / score_env / fdk                                  *)
From mathcomp Require Import all_ssreflect all_algebra.
From Verif Require Import MExp MExpMx MxBox PCovR CURLoop.
Set Implicit Arguments.
Unset Strict Implicit.
Unset Printing Implicit Defensive.
Import GRing.Theory Num.Theory.
Local Open Scope ring_scope.

Section CURLoopMx.
  Variable F : rcfType.

  (* ---- X_orthogonalizer ---------------------------------------------------------------- *)
  Section Orth.
    Variables r c : nat.
    Definition orth_env_mx (X : 'M[F]_(r, c)) (j : 'I_c) : env_mx F :=
      fun a b x => if x == uX then inj_mx a b X
                   else if x == uE then inj_mx a b (delta_mx j ord0 : 'M[F]_(c, 1))
                   else 0.
    Definition pivot_norm_mx (X : 'M[F]_(r, c)) (j : 'I_c) : F :=
      eval_mx (orth_env_mx X j) (norm_prog r c) ord0 ord0.
    Definition orth_step_mx (tol : F) (X : 'M[F]_(r, c)) (j : 'I_c) : 'M[F]_(r, c) :=
      if pivot_norm_mx X j < tol then eval_mx (orth_env_mx X j) (orth_raw_prog r c)
      else eval_mx (orth_env_mx X j) (orth_norm_prog r c).
    Definition orth_fold_mx (tol : F) (X : 'M[F]_(r, c)) (sel : seq 'I_c) : 'M[F]_(r, c) :=
      foldl (orth_step_mx tol) X sel.
    (* every pivot takes the normalising branch ("pivots non-zero") *)
    Fixpoint pivots_ok (tol : F) (X : 'M[F]_(r, c)) (sel : seq 'I_c) : Prop :=
      match sel with
      | [::] => True
      | j :: s => tol <= pivot_norm_mx X j /\ pivots_ok tol (orth_step_mx tol X j) s
      end.
  End Orth.

  (* X_current_ after the selections: feature selection works on X, sample selection on X^T *)
  Definition resid_feat_mx n m (tol : F) (X : 'M[F]_(n, m)) (sel : seq 'I_m) : 'M[F]_(n, m) :=
    orth_fold_mx tol X sel.
  Definition resid_samp_mx n m (tol : F) (X : 'M[F]_(n, m)) (sel : seq 'I_n) : 'M[F]_(n, m) :=
    (orth_fold_mx tol X^T sel)^T.

  (* ---- y orthogonalisers ------------------------------------------------------------------ *)
  (* entry of a matrix at a natural-number column / row, 0 outside (as [nth _ row 0] on floats) *)
  Definition xcol n m (X : 'M[F]_(n, m)) (i : 'I_n) (k : nat) : F :=
    if insub k is Some k' then X i k' else 0.
  Definition xrow n m (X : 'M[F]_(n, m)) (k : nat) (j : 'I_m) : F :=
    if insub k is Some k' then X k' j else 0.
  (* X_selected_ buffer of feature selection: n x K, the first t columns are filled *)
  Definition buf_mx n m (X : 'M[F]_(n, m)) (sel : seq nat) (t K : nat) : 'M[F]_(n, K) :=
    \matrix_(i, j) (if (j < t)%N then xcol X i (nth 0%N sel j) else 0).
  (* X_selected_[:t] / y_selected_[:t] of sample selection *)
  Definition rows_mx n m (X : 'M[F]_(n, m)) (sel : seq nat) (t : nat) : 'M[F]_(t, m) :=
    \matrix_(i, j) xrow X (nth 0%N sel i) j.

  Definition yfeat_env_mx n p K (y : 'M[F]_(n, p)) (Xs : 'M[F]_(n, K)) (V : 'M[F]_K) : env_mx F :=
    fun a b x => if x == uY then inj_mx a b y
                 else if x == uXs then inj_mx a b Xs
                 else if x == uV then inj_mx a b V else 0.
  Definition hintV := {K : nat & 'M[F]_K}.
  Fixpoint yfeat_fold_mx n m p (X : 'M[F]_(n, m)) (sel : seq nat) (t : nat) (hs : seq hintV)
           (y : 'M[F]_(n, p)) : 'M[F]_(n, p) :=
    match hs with
    | [::] => y
    | existT K V :: hs' =>
        yfeat_fold_mx X sel t.+1 hs'
          (eval_mx (yfeat_env_mx y (buf_mx X sel t.+1 K) V) (yfeat_prog n p K))
    end.

  Definition ysamp_env_mx n m p t (X : 'M[F]_(n, m)) (y : 'M[F]_(n, p)) (W : 'M[F]_(m, p))
             (Xr : 'M[F]_(t, m)) (Yr : 'M[F]_(t, p)) (Z : 'M[F]_(t, p)) : env_mx F :=
    fun a b x => if x == uX then inj_mx a b X
                 else if x == uY then inj_mx a b y
                 else if x == uW then inj_mx a b W
                 else if x == uXr then inj_mx a b Xr
                 else if x == uYr then inj_mx a b Yr
                 else if x == uZ then inj_mx a b Z else 0.

  (* ---- importance score --------------------------------------------------------------------- *)
  Definition dk_mx (N k : nat) : 'cV[F]_N := \col_i (if (i < k)%N then 1 else 0).
  Definition pi_env_mx N (V : 'M[F]_N) (d : 'cV[F]_N) : env_mx F :=
    fun a b x => if x == uVV then inj_mx a b V else if x == uD then inj_mx a b d else 0.
End CURLoopMx.
