(* C07, layer A: what _CUR / _PCovCUR (src/skmatter/_selection.py) compute between two
   arg-max calls, as programs of the matrix-expression language [mexp] (Base/MExp.v), and the
   binary64 side of the correspondence check.  Definitions only (stdlib style).

   The same programs are interpreted over an arbitrary real closed field in Model/CURLoopMx.v
   and the theorems about them are in Proofs/CURLoopP.v.

   Modelled code
     X_orthogonalizer(x1, c, tol)        utils/_orthogonalizers.py
         col = x1[:, [c]]
         if norm(col) < tol: warn               -> [orth_raw_prog]  (col is NOT normalised)
         else: col = col / norm(col)            -> [orth_norm_prog]
         xnew -= col @ (col.T @ xnew)
       applied to X_current_ (feature selection) or to X_current_.T, transposed back (sample
       selection), once per selection, in selection order               -> [resid_f]
     _continue_greedy_search (warm start): re-orthogonalisation guard  -> [warm_guard_quiet]
     Y_feature_orthogonalizer(y, X_selected_, tol)                     -> [yfeat_prog]
         v = pinv(X.T @ X, rcond=tol)   (oracle: variable uV);  y - X @ v @ X.T @ y
       with X the whole zero-padded X_selected_ buffer                   -> [buf_f]
     Y_sample_orthogonalizer(y_ref, X_ref, y_sel, X_sel, tol)           -> [ysamp_prog]
         y_ref - X_ref @ lstsq(X_sel, y_sel)[0]   (oracle: variable uW)
     _compute_pi                                                         -> [pi_prog] on the
       complete eigendecomposition (oracle: uVV, uLam) of the matrix the model forms:
         CUR sample:      X_cur X_cur^T          [gram_prog]   (left singular vectors of X_cur)
         CUR feature:     X_cur^T X_cur          [xtx_prog]    (right singular vectors)
         PCov-CUR sample: pcovr_kernel           [kern_prog]  of Model/PCovR.v
         PCov-CUR feature: pcovr_covariance      [cov_prog]   of Model/PCovR.v (inner eigh oracle)
       pi = (U[:, :k] ** 2).sum(axis=1) = (V o V) d_k,  d_k = (1,..,1,0,..,0)^T (k ones).

   Deviation from the text of the code: np.divide(col, norm) is modelled as col * (1/norm)
   (one rounding more; the comparison tolerance is 1e-9). *)
From Coq Require Import ZArith List Bool PrimFloat.
From Verif Require Import MExp PCovR.
Import ListNotations.

Definition uX := 20%nat.   Definition uE := 21%nat.   Definition uY := 22%nat.
Definition uXs := 23%nat.  Definition uV := 24%nat.   Definition uW := 25%nat.
Definition uXr := 26%nat.  Definition uYr := 27%nat.  Definition uZ := 28%nat.
Definition uVV := 29%nat.  Definition uLam := 30%nat. Definition uD := 31%nat.
Definition uM := 32%nat.

Definition k0 : mexp 1 1 := MConst 0%Z.

(* ---- X_orthogonalizer, one pivot ------------------------------------------------------ *)
Section Orth.
  Variables r c : nat.                           (* shape of x1 *)
  Definition oX : mexp r c := MVar uX.
  Definition oE : mexp c 1 := MVar uE.           (* unit vector of the pivot column *)
  Definition col_prog : mexp r 1 := MMul oX oE.                         (* x1[:, [c]] *)
  Definition sq_prog : mexp 1 1 := MMul (MTr col_prog) col_prog.
  Definition norm_prog : mexp 1 1 := MMap Fsqrt k0 sq_prog.             (* np.linalg.norm(col) *)
  Definition ucol_prog : mexp r 1 := MScale (MMap Frecip k0 norm_prog) col_prog.
  Definition sub_outer (v : mexp r 1) : mexp r c := MSub oX (MMul v (MMul (MTr v) oX)).
  Definition orth_norm_prog : mexp r c := sub_outer ucol_prog.
  Definition orth_raw_prog : mexp r c := sub_outer col_prog.
End Orth.

(* ---- y orthogonalisers ------------------------------------------------------------------ *)
Section YOrth.
  Variables n m p K t : nat.
  Definition yY : mexp n p := MVar uY.
  Definition yXs : mexp n K := MVar uXs.         (* X_selected_ buffer, n x n_to_select *)
  Definition yV : mexp K K := MVar uV.           (* oracle: pinv(Xs^T Xs) *)
  Definition sgram_prog : mexp K K := MMul (MTr yXs) yXs.
  Definition yfeat_prog : mexp n p := MSub yY (MMul (MMul (MMul yXs yV) (MTr yXs)) yY).
  (* hypotheses on the oracle: G V G = G, V^T = V *)
  Definition yf_h1 : mexp K K := MSub (MMul (MMul sgram_prog yV) sgram_prog) sgram_prog.
  Definition yf_h2 : mexp K K := MSub (MTr yV) yV.

  Definition sX : mexp n m := MVar uX.           (* X_ref_ = the training X *)
  Definition sW : mexp m p := MVar uW.           (* oracle: lstsq(X_sel, y_sel) *)
  Definition sXr : mexp t m := MVar uXr.         (* X_selected_[:n_selected_] *)
  Definition sYr : mexp t p := MVar uYr.         (* y_selected_[:n_selected_] *)
  Definition sZ : mexp t p := MVar uZ.           (* oracle: W = Xr^T Z (minimum norm) *)
  Definition ysamp_prog : mexp n p := MSub yY (MMul sX sW).
  (* hypotheses: normal equations, W in the row space of the selected samples *)
  Definition ys_h1 : mexp m p := MSub (MMul (MTr sXr) (MMul sXr sW)) (MMul (MTr sXr) sYr).
  Definition ys_h2 : mexp m p := MSub sW (MMul (MTr sXr) sZ).
End YOrth.

(* ---- importance score ------------------------------------------------------------------- *)
Section Pi.
  Variables n m N : nat.
  Definition gram_prog : mexp n n := MMul (eX n m) (MTr (eX n m)).     (* X X^T; X^T X is PCovR.xtx_prog *)
  Definition pVV : mexp N N := MVar uVV.         (* oracle: all eigenvectors, as columns *)
  Definition pLam : mexp N 1 := MVar uLam.       (* oracle: all eigenvalues, decreasing *)
  Definition pD : mexp N 1 := MVar uD.           (* indicator of the first k positions *)
  Definition pM : mexp N N := MVar uM.           (* the matrix that is decomposed *)
  Definition pi_prog : mexp N 1 := MMul (MHad pVV pVV) pD.
  (* hypotheses on the oracle *)
  Definition eig_orth : mexp N N := MSub (MMul (MTr pVV) pVV) (MId N).
  Definition eig_eq : mexp N N := MSub (MMul pM pVV) (MMul pVV (MDiag pLam)).
  Definition eig_sym : mexp N N := MSub pM (MTr pM).
End Pi.

(* =========================================================================================
   binary64 side                                                                             *)
Local Open Scope float_scope.

Definition e0 : nat -> fmat := fun _ => [].
Definition eset (e : nat -> fmat) (x : nat) (A : fmat) : nat -> fmat :=
  fun i => if Nat.eqb i x then A else e i.

Definition funit (c j : nat) : fmat := map (fun i => [if Nat.eqb i j then 1 else 0]) (seq 0 c).
Definition fdk (N k : nat) : fmat := map (fun i => [if Nat.ltb i k then 1 else 0]) (seq 0 N).

Definition orth_env (X : fmat) (c j : nat) : nat -> fmat := eset (eset e0 uX X) uE (funit c j).
Definition pivot_norm_f (r c : nat) (X : fmat) (j : nat) : float :=
  fget (eval_f (orth_env X c j) (norm_prog r c)) 0 0.
Definition orth_step_f (r c : nat) (tol : float) (X : fmat) (j : nat) : fmat :=
  let e := orth_env X c j in
  if ltb (pivot_norm_f r c X j) tol then eval_f e (orth_raw_prog r c)
  else eval_f e (orth_norm_prog r c).
Definition orth_fold_f (r c : nat) (tol : float) (X : fmat) (sel : list nat) : fmat :=
  fold_left (orth_step_f r c tol) sel X.

(* number of pivots that took the warning branch *)
Fixpoint raw_count_f (r c : nat) (tol : float) (X : fmat) (sel : list nat) : nat :=
  match sel with
  | [] => O
  | j :: s => ((if ltb (pivot_norm_f r c X j) tol then 1 else 0)
               + raw_count_f r c tol (orth_step_f r c tol X j) s)%nat
  end.

(* X_current_ after the selections [sel]: n x m, sample = orthogonalise X^T *)
Definition resid_f (sample : bool) (n m : nat) (tol : float) (X : fmat) (sel : list nat) : fmat :=
  if sample then ftr n (orth_fold_f m n tol (ftr m X) sel) else orth_fold_f n m tol X sel.

(* largest |<residual item, selected original item>| *)
Definition cross_f (sample : bool) (n m : nat) (Xc X : fmat) : fmat :=
  let e := eset (eset e0 uX Xc) uY X in
  if sample then eval_f e (MMul (MVar uX : mexp n m) (MTr (MVar uY : mexp n m)))
  else eval_f e (MMul (MTr (MVar uX : mexp n m)) (MVar uY : mexp n m)).
Definition orth_defect_f (sample : bool) (n m : nat) (Xc X : fmat) (sel : list nat) : float :=
  let G := cross_f sample n m Xc X in
  fold_left (fun acc j => let d := fmaxabs [fcol G j] in if ltb acc d then d else acc) sel 0.

(* X_selected_ buffer of feature selection after t selections, n x K *)
Definition buf_f (X : fmat) (sel : list nat) (t K : nat) : fmat :=
  map (fun row => map (fun j => if Nat.ltb j t then nth (nth j sel O) row 0 else 0) (seq 0 K)) X.
Definition rows_f (X : fmat) (sel : list nat) : fmat := map (fun i => nth i X []) sel.

Definition yfeat_env (y Xs V : fmat) : nat -> fmat := eset (eset (eset e0 uY y) uXs Xs) uV V.
Fixpoint yfeat_fold_f (n p : nat) (X : fmat) (sel : list nat) (t : nat)
         (hs : list (nat * fmat)) (y : fmat) : fmat :=
  match hs with
  | [] => y
  | (K, V) :: hs' =>
      yfeat_fold_f n p X sel (S t) hs'
        (eval_f (yfeat_env y (buf_f X sel (S t) K) V) (yfeat_prog n p K))
  end.
Definition ysamp_env (X y W Xr Yr Z : fmat) : nat -> fmat :=
  eset (eset (eset (eset (eset (eset e0 uX X) uY y) uW W) uXr Xr) uYr Yr) uZ Z.

Definition rmax {a b : nat} (e : nat -> fmat) (x : mexp a b) : float := fmaxabs (eval_f e x).

(* (residual, scale) of the hypotheses on the y oracles *)
Fixpoint yfeat_res_f (n p : nat) (X : fmat) (sel : list nat) (t : nat) (hs : list (nat * fmat))
  : list (float * float) :=
  match hs with
  | [] => []
  | (K, V) :: hs' =>
      let e := yfeat_env [] (buf_f X sel (S t) K) V in
      let g := rmax e (sgram_prog n K) in let v := rmax e (yV K) in
      (rmax e (yf_h1 n K), g * v * g) :: (rmax e (yf_h2 K), v) :: yfeat_res_f n p X sel (S t) hs'
  end.
Fixpoint ysamp_res_f (n m p : nat) (X Y : fmat) (sel : list nat) (t : nat) (hs : list (fmat * fmat))
  : list (float * float) :=
  match hs with
  | [] => []
  | (W, Z) :: hs' =>
      let s := firstn (S t) sel in
      let e := ysamp_env X Y W (rows_f X s) (rows_f Y s) Z in
      let x := rmax e (sXr m (S t)) in let w := rmax e (sW m p) in
      (rmax e (ys_h1 m p (S t)), x * x * w + x * rmax e (sYr p (S t)))
        :: (rmax e (ys_h2 m p (S t)), w + x * rmax e (sZ p (S t)))
        :: ysamp_res_f n m p X Y sel (S t) hs'
  end.

Record refresh := mk_refresh {
  rf_t : nat;            (* n_selected_ when _compute_pi ran *)
  rf_warm : bool;        (* the refresh of _continue_greedy_search (warm start) *)
  rf_V : fmat; rf_lam : fmat;          (* oracle: eigendecomposition of the model's matrix *)
  rf_UC : fmat; rf_vC : fmat;          (* oracle inside pcovr_covariance (feature PCov-CUR) *)
  rf_pi : fmat }.                      (* observed: what the implementation's _compute_pi returned *)

Record ccase := mk_ccase {
  cc_sample : bool; cc_pcov : bool;
  cc_n : nat; cc_m : nat; cc_p : nat; cc_k : nat; cc_re : nat;
  cc_a : float;
  cc_X : fmat; cc_Y : fmat;
  cc_sel : list nat;
  cc_yf : list (nat * fmat);           (* feature PCov-CUR: per selection (n_to_select, pinv hint) *)
  cc_ys : list (fmat * fmat);          (* sample PCov-CUR: per selection (W, Z) *)
  cc_refresh : list refresh;
  cc_Xcur : fmat; cc_ycur : fmat }.    (* observed X_current_, y_current_ *)

Record cparams := mk_cparams {
  cp_tol : float;        (* the selectors' tolerance *)
  cp_rcond : float;      (* rcond handed to pcovr_covariance *)
  cp_rtol : float; cp_atol : float;    (* residual comparison: atol is multiplied by max|X| resp. max|y| *)
  cp_eps : float;        (* oracle hypotheses: residual <= eps * (1 + scale) *)
  cp_gap : float;        (* minimal relative eigenvalue gap *)
  cp_pirtol : float; cp_piatol : float;
  cp_cond : float }.     (* X^T X is too ill-conditioned for C^-1/2 when an eigenvalue kept by rcond
                            is below cp_cond * (largest eigenvalue) *)

Section Case.
  Variable P : cparams.
  Variable c : ccase.
  Let n := cc_n c. Let m := cc_m c. Let p := cc_p c. Let k := cc_k c.
  Let N := if cc_sample c then n else m.
  Let iter := negb (Nat.eqb (cc_re c) 0).

  (* X_current_ / y_current_ when n_selected_ = t *)
  Definition Xat (t : nat) : fmat :=
    if iter then resid_f (cc_sample c) n m (cp_tol P) (cc_X c) (firstn t (cc_sel c)) else cc_X c.
  Definition yat (t : nat) : fmat :=
    if iter && negb (Nat.eqb t 0) then
      if cc_sample c then
        match nth_error (cc_ys c) (t - 1) with
        | Some (W, Z) => eval_f (ysamp_env (cc_X c) (cc_Y c) W [] [] Z) (ysamp_prog n m p)
        | None => []
        end
      else yfeat_fold_f n p (cc_X c) (cc_sel c) 0 (firstn t (cc_yf c)) (cc_Y c)
    else cc_Y c.

  (* the matrix whose leading eigenvectors define pi *)
  Definition score_env (Xt yt : fmat) (r : refresh) : nat -> fmat :=
    eset (eset (eset (eset (eset (eset e0 vX Xt) vYh yt) va [[cc_a c]]) vtol [[cp_rcond P]])
               vUC (rf_UC r)) vvC (rf_vC r).
  Definition score_mat_f (Xt yt : fmat) (r : refresh) : fmat :=
    let e := score_env Xt yt r in
    match cc_pcov c, cc_sample c with
    | false, true => eval_f e (gram_prog n m)
    | false, false => eval_f e (xtx_prog n m)
    | true, true => eval_f e (kern_prog n m p)
    | true, false => eval_f e (cov_prog n m p)
    end.

  Definition colv (A : fmat) : list float := map (fun row => nth 0 row 0) A.
  Definition holds (rs : float * float) : bool := leb (fst rs) (cp_eps P * (1 + snd rs)).

  (* _continue_greedy_search re-orthogonalises by every selected item c whose residual is not
     negligible:  norm(X_current_[c]) > tolerance * norm(X[c])   (the relative guard of the repaired
     code, fixes/F28; the unrepaired code compares with the absolute tolerance).  By
     C07_residual_is_projection (iii) the residual of a selected item is exactly zero, so the guard
     is quiet; the model checks that on its own residual and does not model a firing guard. *)
  Definition item_norm_f (A : fmat) (j : nat) : float :=
    if cc_sample c then pivot_norm_f m n (ftr m A) j else pivot_norm_f n m A j.
  Definition warm_guard_quiet (t : nat) : bool :=
    negb iter ||
    forallb (fun j => leb (item_norm_f (Xat t) j) (cp_tol P * item_norm_f (cc_X c) j))
            (firstn t (cc_sel c)).

  (* status of one refresh: 5 the warm-start guard would fire in the model (not modelled), 0 agrees, 1 gated (eigenvalue gap), 2 gated (an eigenvalue of X^T X is
     next to rcond, or kept by rcond although X^T X is numerically singular: C^-1/2 then amplifies
     rounding noise), 3 an oracle hypothesis fails, 4 pi differs;  then (largest hypothesis residual
     relative to its bound's scale, largest |pi - pi_obs|) *)
  Definition refresh_check (r : refresh) : nat * float * float :=
    let Xt := Xat (rf_t r) in let yt := yat (rf_t r) in
    let e := score_env Xt yt r in
    let M := score_mat_f Xt yt r in
    let e' := eset (eset (eset (eset e uM M) uVV (rf_V r)) uLam (rf_lam r)) uD (fdk N k) in
    let inner :=
      if cc_pcov c && negb (cc_sample c) then
        [ (rmax e (MSub (MMul (MTr (eUC m)) (eUC m)) (MId m)), 1);
          (rmax e (MSub (MMul (xtx_prog n m) (eUC m)) (MMul (eUC m) (MDiag (evC m)))), rmax e (xtx_prog n m));
          (fsorted_defect (colv (rf_vC r)), rmax e (evC m)) ]
      else [] in
    let outer :=
      [ (rmax e' (eig_orth N), 1);
        (rmax e' (eig_eq N), rmax e' (pM N));
        (rmax e' (eig_sym N), rmax e' (pM N));
        (fsorted_defect (colv (rf_lam r)), rmax e' (pLam N)) ] in
    let hyps := inner ++ outer in
    let worst := fold_left (fun acc rs => let q := fst rs / (1 + snd rs) in if ltb acc q then q else acc) hyps 0 in
    let lam := colv (rf_lam r) in
    let l0 := nth 0 lam 0 in
    let gap_ok := if Nat.leb N k then ltb 0 l0
                  else ltb (cp_gap P * l0) (nth (k - 1) lam 0 - nth k lam 0) in
    let vmax := nth 0 (colv (rf_vC r)) 0 in
    let near := existsb (fun v => ltb (cp_rcond P / 100) v &&
                                  (ltb v (cp_rcond P * 100) || ltb v (cp_cond P * vmax)))
                        (colv (rf_vC r)) in
    let pi := eval_f e' (pi_prog N) in
    let dev := fmaxabs (mmap2 sub pi (rf_pi r)) in
    let st :=
      if rf_warm r && negb (warm_guard_quiet (rf_t r)) then 5%nat
      else if cc_pcov c && negb (cc_sample c) && near then 2%nat
      else if negb (forallb holds hyps) then 3%nat
      else if negb gap_ok then 1%nat
      else if fclose (cp_pirtol P) (cp_piatol P) pi (rf_pi r) then 0%nat else 4%nat in
    (st, worst, dev).

  Definition nsel := length (cc_sel c).

  (* flags: [X_current_ agrees; model residual orthogonal; observed residual orthogonal;
             y_current_ agrees; y-oracle hypotheses hold; no refresh fails]
     counters: [refreshes agreeing; gated by gap; gated by rcond; hypothesis failures; pi failures;
                warning-branch pivots; warm-start guard firing in the model]
     floats: [max|X_cur - obs|; orthogonality defect model; defect observed; max|y_cur - obs|;
              worst y-hypothesis residual/scale; worst eigen-hypothesis residual/scale; worst pi deviation] *)
  Definition cc_report : list bool * list nat * list float :=
    let X := cc_X c in
    let sx := fmaxabs X in let sy := fmaxabs (cc_Y c) in
    let Xm := Xat nsel in
    let ym := yat nsel in
    let dx := fmaxabs (mmap2 sub Xm (cc_Xcur c)) in
    let okx := fclose (cp_rtol P) (cp_atol P * sx) Xm (cc_Xcur c) in
    let bound := cp_atol P * (1 + sx) * (1 + sx) in
    let dm := if iter then orth_defect_f (cc_sample c) n m Xm X (cc_sel c) else 0 in
    let di := if iter then orth_defect_f (cc_sample c) n m (cc_Xcur c) X (cc_sel c) else 0 in
    let dy := if cc_pcov c then fmaxabs (mmap2 sub ym (cc_ycur c)) else 0 in
    let oky := if cc_pcov c then fclose (cp_rtol P) (cp_atol P * (1 + sy)) ym (cc_ycur c) else true in
    let yh := if cc_pcov c && iter then
                if cc_sample c then ysamp_res_f n m p X (cc_Y c) (cc_sel c) 0 (cc_ys c)
                else yfeat_res_f n p X (cc_sel c) 0 (cc_yf c)
              else [] in
    let wy := fold_left (fun acc rs => let q := fst rs / (1 + snd rs) in if ltb acc q then q else acc) yh 0 in
    let rs := map refresh_check (cc_refresh c) in
    let cnt (s : nat) := length (filter (fun x => Nat.eqb (fst (fst x)) s) rs) in
    let we := fold_left (fun acc x => if ltb acc (snd (fst x)) then snd (fst x) else acc) rs 0 in
    let wp := fold_left (fun acc x => if Nat.eqb (fst (fst x)) 0 && ltb acc (snd x) then snd x else acc) rs 0 in
    let raws := if iter then
                  (if cc_sample c then raw_count_f m n (cp_tol P) (ftr m X) (cc_sel c)
                   else raw_count_f n m (cp_tol P) X (cc_sel c))
                else O in
    ([okx; leb dm bound; leb di bound; oky; forallb holds yh;
      Nat.eqb (cnt 3%nat) 0 && Nat.eqb (cnt 4%nat) 0 && Nat.eqb (cnt 5%nat) 0],
     [cnt 0%nat; cnt 1%nat; cnt 2%nat; cnt 3%nat; cnt 4%nat; raws; cnt 5%nat],
     [dx; dm; di; dy; wy; we; wp]).

  Definition cc_ok : bool := forallb (fun b => b) (fst (fst cc_report)).
End Case.
