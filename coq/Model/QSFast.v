(* C16: an evaluation-friendly variant of the Gabriel part of Model/QuickShift.v, for point sets of
   a few hundred points.  Same loops, same writes; two differences in HOW values are obtained:
   - the test `np.sum(D[i] + D[j] < D[i, j])` walks the two rows in parallel ([existsb2]) instead of
     indexing both rows for every k (list indexing is linear, which made [gabriel] n^4);
   - the graph is built ONCE per fit and handed to every call of _gs_next ([fit_gab_fast]), as the
     code does, instead of being rebuilt for every point (which made [fit_gab] n^4 under vm_compute).
   Proofs/QSFastP.v: [gabriel_fast D = gabriel D] and [fit_gab_fast D w s = fit_gab D w s] for square
   D, so every theorem about the model applies to what is evaluated.  Definitions only. *)
From Verif Require Export ListX QuickShift.

Fixpoint existsb2 {A B} (f : A -> B -> bool) (l : list A) (m : list B) : bool :=
  match l, m with
  | a :: l', b :: m' => f a b || existsb2 f l' m'
  | _, _ => false
  end.

Definition gab_cond_fast (D : list (list ExtZ)) (i j : nat) : bool :=
  let ri := nth i D [] in
  let dij := nth j ri None in
  existsb2 (fun a b => ext_lt (ext_add a b) dij) ri (nth j D []).

Definition gab_inner_fast (D : list (list ExtZ)) (n i : nat) (G : list (list bool)) : list (list bool) :=
  fold_left (fun G j => if gab_cond_fast D i j then set2 (set2 G i j false) j i false else G)
            (seq i (n - i)) G.

Definition gabriel_fast (D : list (list ExtZ)) : list (list bool) :=
  let n := length D in
  fold_left (fun G i => gab_inner_fast D n i (set2 G i i false)) (seq 0 n) (repeat (repeat true n) n).

(* fit with the graph computed once (call-by-value [let]) *)
Definition fit_gab_fast (D : list (list ExtZ)) (w : list Z) (shell : nat) : option (list (option nat)) :=
  let G := gabriel_fast D in
  fit_with (length D) (gs_next D w G shell).

Definition qs_gab_case_ok (Dint : list (list ExtZ)) (w : list Z) (shell : nat)
           (labels centres_idx : list nat) : bool :=
  match fit_gab_fast Dint w shell with
  | Some R => labels_eqb R labels && nl_eqb (centres R) centres_idx
  | None => false
  end.

(* the graph alone, row-compressed: the implementation's graph given as, per row, the list of
   neighbour indices *)
Definition row_idx (r : list bool) : list nat :=
  filter (fun j => nth j r false) (seq 0 (length r)).
Definition gabriel_fast_ok (Dint : list (list ExtZ)) (adj : list (list nat)) : bool :=
  list_eqb nl_eqb (map row_idx (gabriel_fast Dint)) adj.
