(* C12 — model of skmatter.preprocessing._data.KernelNormalizer and SparseKernelCenterer
   (layer A).  Every array computation is ONE [mexp] term of Base/MExp.v; this file holds
   the terms and the binary64 wrapper run by the correspondence check.
   Model/KernelNormMx.v wraps the same terms with [eval_mx] over a real closed field.

   Variables:   0 := K (n x n training kernel)  |  Knm (n x m) for the sparse variant
                1 := sample_weight (n x 1, raw; read only if [kn_has_w])
                2 := kernel passed to transform (k x n | k x m)
                3 := K_fit_rows_ (1 x n | 1 x m)    4 := K_fit_all_ (1 x 1)
                5 := scale_ (1 x 1)
                6 := Kmm (m x m)    7 := the pseudo-inverse hint P for pinv(Kmm, rcond)
                8 := Phi (n x p features)  9 := Psi (k x p features)   (feature route) *)
From Coq Require Import ZArith List Bool PrimFloat.
From Verif Require Import MExp.
Import ListNotations.

Record kn_cfg := KnCfg {
  kn_center : bool;     (* constructor flag with_center *)
  kn_trace : bool;      (* constructor flag with_trace *)
  kn_has_w : bool       (* sample_weight is not None *)
}.

Definition kc0 : mexp 1 1 := MConst 0.   (* unused tolerance argument of MMap *)
Definition kone : mexp 1 1 := MConst 1.
Definition krecip (a : mexp 1 1) : mexp 1 1 := MMap Frecip kc0 a.

Section Prog.
  Variables (cfg : kn_cfg) (n : nat).

  Definition kW : mexp n 1 := MVar 1.
  (* sample_weight_ = sample_weight / np.sum(sample_weight); with None, np.average is the
     plain mean and sklearn's KernelCenterer.fit uses sum/n: both are weights 1 *)
  Definition kn_wts : mexp n 1 :=
    if kn_has_w cfg then MScale (krecip (MMul (MTr (MOnes n 1)) kW)) kW else MOnes n 1.
  Definition kn_wsum : mexp 1 1 := MMul (MTr (MOnes n 1)) kn_wts.
  (* np.average(A, weights, axis=0): 1 x q row of weighted column means (A is n x q) *)
  Definition kn_avg0 {q : nat} (A : mexp n q) : mexp 1 q :=
    MScale (krecip kn_wsum) (MMul (MTr kn_wts) A).
  (* np.average(A, weights, axis=1)[:, None]: k x 1 column of weighted row means (A is k x n) *)
  Definition kn_avg1 {k : nat} (A : mexp k n) : mexp k 1 :=
    MScale (krecip kn_wsum) (MMul A kn_wts).

  (* ---- KernelNormalizer ---- *)
  Definition kK : mexp n n := MVar 0.
  Definition kn_rows : mexp 1 n := if kn_center cfg then kn_avg0 kK else MZero 1 n.
  (* np.average(K_fit_rows_, weights)   |   K_fit_rows_.sum() / n   (same value) *)
  Definition kn_all : mexp 1 1 :=
    if kn_center cfg then MScale (krecip kn_wsum) (MMul kn_rows kn_wts) else MZero 1 1.
  Definition kn_cols {k : nat} (A : mexp k n) : mexp k 1 :=
    if kn_center cfg then kn_avg1 A else MZero k 1.
  (* K -= K_fit_rows_; K -= K_pred_cols; K += K_fit_all_ *)
  Definition kn_centered {k : nat} (A : mexp k n) (rows : mexp 1 n) (all : mexp 1 1) : mexp k n :=
    MAdd (MSub (MSub A (MMul (MOnes k 1) rows)) (MMul (kn_cols A) (MOnes 1 n)))
         (MScale all (MOnes k n)).
  (* scale_ = np.trace(K) / K.shape[0] on the centred training kernel, or 1.0 *)
  Definition kn_scale : mexp 1 1 :=
    if kn_trace cfg
    then MScale (krecip (MMul (MOnes 1 n) (MOnes n 1))) (MTrace (kn_centered kK kn_rows kn_all))
    else kone.
  (* transform with the fitted attributes *)
  Definition kKt (k : nat) : mexp k n := MVar 2.
  Definition kRows : mexp 1 n := MVar 3.
  Definition kAll : mexp 1 1 := MVar 4.
  Definition kScale : mexp 1 1 := MVar 5.
  Definition kn_transform (k : nat) : mexp k n :=
    MScale (krecip kScale) (kn_centered (kKt k) kRows kAll).
  (* fit_transform(K) as a single term *)
  Definition kn_fit_transform : mexp n n :=
    MScale (krecip kn_scale) (kn_centered kK kn_rows kn_all).

  (* feature route: centre the explicit features by the weighted training mean, take the
     Gram matrices, divide by trace/n of the centred training Gram matrix *)
  Section Feat.
    Variable p : nat.
    Definition kPhi : mexp n p := MVar 8.
    Definition kPsi (k : nat) : mexp k p := MVar 9.
    Definition kf_mu : mexp 1 p := if kn_center cfg then kn_avg0 kPhi else MZero 1 p.
    Definition kf_cen {k : nat} (A : mexp k p) : mexp k p := MSub A (MMul (MOnes k 1) kf_mu).
    Definition kf_scale : mexp 1 1 :=
      if kn_trace cfg
      then MScale (krecip (MMul (MOnes 1 n) (MOnes n 1)))
                  (MTrace (MMul (kf_cen kPhi) (MTr (kf_cen kPhi))))
      else kone.
    Definition kf_transform (k : nat) : mexp k n :=
      MScale (krecip kf_scale) (MMul (kf_cen (kPsi k)) (MTr (kf_cen kPhi))).
  End Feat.

  (* ---- SparseKernelCenterer ---- *)
  Section Sparse.
    Variable m : nat.
    Definition sKnm : mexp n m := MVar 0.
    Definition sP : mexp m m := MVar 7.
    Definition sKmm : mexp m m := MVar 6.
    Definition sk_rows : mexp 1 m := if kn_center cfg then kn_avg0 sKnm else MZero 1 m.
    (* Knm_centered = Knm - K_fit_rows_ *)
    Definition sk_kc : mexp n m := MSub sKnm (MMul (MOnes n 1) sk_rows).
    (* Khat = Knm_centered @ pinv(Kmm, rcond) @ Knm_centered.T *)
    Definition sk_khat : mexp n n := MMul (MMul sk_kc sP) (MTr sk_kc).
    (* scale_ = sqrt(trace(Khat) / n) or 1.0 *)
    Definition sk_scale : mexp 1 1 :=
      if kn_trace cfg
      then MMap Fsqrt kc0 (MScale (krecip (MMul (MOnes 1 n) (MOnes n 1))) (MTrace sk_khat))
      else kone.
    Definition sKt (k : nat) : mexp k m := MVar 2.
    Definition sRows : mexp 1 m := MVar 3.
    (* (Knm - K_fit_rows_) / scale_ *)
    Definition sk_transform (k : nat) : mexp k m :=
      MScale (krecip kScale) (MSub (sKt k) (MMul (MOnes k 1) sRows)).
    (* Penrose residuals of the hint (all four should vanish) *)
    Definition sk_pen1 : mexp m m := MSub (MMul (MMul sKmm sP) sKmm) sKmm.
    Definition sk_pen2 : mexp m m := MSub (MMul (MMul sP sKmm) sP) sP.
    Definition sk_pen3 : mexp m m := MSub (MTr (MMul sKmm sP)) (MMul sKmm sP).
    Definition sk_pen4 : mexp m m := MSub (MTr (MMul sP sKmm)) (MMul sP sKmm).
  End Sparse.
End Prog.

(* ---- binary64 wrapper ------------------------------------------------------------------ *)
Open Scope float_scope.

Definition kn_env (v0 v1 v2 v3 v4 v5 v6 v7 v8 v9 : fmat) : nat -> fmat :=
  fun x => nth x [v0; v1; v2; v3; v4; v5; v6; v7; v8; v9] [].

Record kn_state := KnState { st_rows : fmat; st_all : fmat; st_scale : fmat }.

Definition kn_fit_f (cfg : kn_cfg) (n : nat) (K w : fmat) : kn_state :=
  let env := kn_env K w [] [] [] [] [] [] [] [] in
  KnState (eval_f env (kn_rows cfg n)) (eval_f env (kn_all cfg n)) (eval_f env (kn_scale cfg n)).
Definition kn_transform_f (cfg : kn_cfg) (n k : nat) (w : fmat) (st : kn_state) (Kt : fmat) : fmat :=
  eval_f (kn_env [] w Kt (st_rows st) (st_all st) (st_scale st) [] [] [] []) (kn_transform cfg n k).
Definition kn_fit_transform_f (cfg : kn_cfg) (n : nat) (K w : fmat) : fmat :=
  eval_f (kn_env K w [] [] [] [] [] [] [] []) (kn_fit_transform cfg n).
Definition kf_transform_f (cfg : kn_cfg) (n p k : nat) (w Phi Psi : fmat) : fmat :=
  eval_f (kn_env [] w [] [] [] [] [] [] Phi Psi) (kf_transform cfg n p k).

Definition sk_fit_f (cfg : kn_cfg) (n m : nat) (Knm w Kmm P : fmat) : kn_state :=
  let env := kn_env Knm w [] [] [] [] Kmm P [] [] in
  KnState (eval_f env (sk_rows cfg n m)) [] (eval_f env (sk_scale cfg n m)).
Definition sk_transform_f (m k : nat) (st : kn_state) (Kt : fmat) : fmat :=
  eval_f (kn_env [] [] Kt (st_rows st) [] (st_scale st) [] [] [] []) (sk_transform m k).

(* |A_ij - B_ij| <= tol * (ref + |A_ij| + |B_ij|) for every entry; false on NaN / shape mismatch.
   [ref] is the magnitude of the data the entries were computed from by subtraction. *)
Fixpoint rclose (tol ref : float) (u v : list float) : bool :=
  match u, v with
  | a :: u', b :: v' => (leb (abs (a - b)) (tol * (ref + abs a + abs b)) && rclose tol ref u' v')%bool
  | [], [] => true
  | _, _ => false
  end.
Fixpoint fclose_ref (tol ref : float) (A B : fmat) : bool :=
  match A, B with
  | r :: A', s :: B' => (rclose tol ref r s && fclose_ref tol ref A' B')%bool
  | [], [] => true
  | _, _ => false
  end.

Definition fscalar (A : fmat) : float := fget A 0 0.

(* ---- one KernelNormalizer case ------------------------------------------------------------
   imp_*: what the implementation returned for fit(K, w) [K_fit_rows_, K_fit_all_, scale_],
   transform(K), transform(Kt), fit_transform(K).  The kernel route (model on the same K, Kt)
   is compared at [tol], the feature route (model on Phi, Psi, from which the harness formed
   K = Phi Phi^T, Kt = Psi Phi^T in binary64) at [tolf].  Reference magnitude of a centred,
   scaled entry: max|K| / |scale_|. *)
Definition kn_case_checks (cfg : kn_cfg) (feat : bool) (n p k : nat) (tol tolf : float)
           (K w Kt Phi Psi : fmat)
           (imp_rows imp_all imp_scale imp_TK imp_TKt imp_FT : fmat) : list bool :=
  let st := kn_fit_f cfg n K w in
  let kmax := fmaxabs K in
  let ktmax := let a := fmaxabs Kt in if ltb a kmax then kmax else a in
  let s := abs (fscalar (st_scale st)) in
  [fclose_ref tol kmax (st_rows st) imp_rows;
   fclose_ref tol kmax (st_all st) imp_all;
   fclose_ref tol (if kn_center cfg then kmax else 0) (st_scale st) imp_scale;
   fclose_ref tol (kmax / s) (kn_transform_f cfg n n w st K) imp_TK;
   fclose_ref tol (ktmax / s) (kn_transform_f cfg n k w st Kt) imp_TKt;
   fclose_ref tol (kmax / s) (kn_fit_transform_f cfg n K w) imp_FT;
   (* feature route; [feat = false]: K is not an explicit Gram matrix (e.g. an RBF kernel) *)
   if feat then fclose_ref tolf (kmax / s) (kf_transform_f cfg n p n w Phi Phi) imp_TK else true;
   if feat then fclose_ref tolf (ktmax / s) (kf_transform_f cfg n p k w Phi Psi) imp_TKt else true].
Definition kn_case_ok cfg feat n p k tol tolf K w Kt Phi Psi r a s tk tkt ft : bool :=
  forallb (fun b => b) (kn_case_checks cfg feat n p k tol tolf K w Kt Phi Psi r a s tk tkt ft).

(* ---- one SparseKernelCenterer case ----------------------------------------------------------
   [P] = numpy's pinv(Kmm, rcond) of the very Kmm the implementation was given (the hint);
   [eps] bounds the relative Penrose residuals of the hint. *)
Definition sk_penrose_ok (cfg : kn_cfg) (n m : nat) (eps : float) (Kmm P : fmat) : bool :=
  let env := kn_env [] [] [] [] [] [] Kmm P [] [] in
  let z := fconst m m 0 in
  let kp := fmaxabs Kmm * fmaxabs P in
  (fclose_ref eps (fmaxabs Kmm * (1 + kp)) (eval_f env (sk_pen1 m)) z &&
   fclose_ref eps (fmaxabs P * (1 + kp)) (eval_f env (sk_pen2 m)) z &&
   fclose_ref eps (1 + kp) (eval_f env (sk_pen3 m)) z &&
   fclose_ref eps (1 + kp) (eval_f env (sk_pen4 m)) z)%bool.

Definition sk_case_checks (cfg : kn_cfg) (n m k : nat) (tol eps : float)
           (Knm w Kmm P Kt : fmat)
           (imp_rows imp_scale imp_T imp_Tt imp_FT : fmat) : list bool :=
  let st := sk_fit_f cfg n m Knm w Kmm P in
  let kmax := fmaxabs Knm in
  let ktmax := let a := fmaxabs Kt in if ltb a kmax then kmax else a in
  let s := abs (fscalar (st_scale st)) in
  (* conditioning of scale_^2 = trace(Kc P Kc^T)/n: size of the summed terms over the result *)
  let cond := if kn_trace cfg then kmax * kmax * fmaxabs P / (s * s) else 0 in
  [sk_penrose_ok cfg n m eps Kmm P;
   fclose_ref tol kmax (st_rows st) imp_rows;
   fclose_ref tol (s * cond) (st_scale st) imp_scale;
   fclose_ref tol (kmax / s * (1 + cond)) (sk_transform_f m n st Knm) imp_T;
   fclose_ref tol (ktmax / s * (1 + cond)) (sk_transform_f m k st Kt) imp_Tt;
   fclose_ref tol (kmax / s * (1 + cond)) (sk_transform_f m n st Knm) imp_FT].
Definition sk_case_ok cfg n m k tol eps Knm w Kmm P Kt r s t tt ft : bool :=
  forallb (fun b => b) (sk_case_checks cfg n m k tol eps Knm w Kmm P Kt r s t tt ft).
