(* C08 extension (round 3): SESSIONS on one selector object.

   A session is any sequence of calls of fit on the same object, on the same data, with
   hyper-parameters changed in between (set_params): cold fits, warm starts, and calls that
   RAISE.  What a raising call leaves behind is part of the model:

     - a call rejected BEFORE any fitted attribute is written (validation of full/score_threshold,
       of n_to_select, a warm start asking for fewer items than are selected, the warm-start guard `not hasattr(self, "n_selected_") or n_selected_ == 0`,
       argument checks a subclass makes before it calls GreedySelector._init_greedy_search:
       VoronoiFPS full_fraction / n_trial_calculation, _CUR._compute_pi) leaves the object as it was;
     - a cold fit that raises INSIDE _init_greedy_search (the FPS family validates `initialize`
       only there, after GreedySelector._init_greedy_search has reset n_selected_ = 0 and
       re-allocated the buffers; an index outside the data or a list longer than n_to_select
       raises IndexError half-way through the list) leaves an object that is NOT fitted:
       n_selected_ = 0.  (Repaired behaviour, fixes/F33_failed_init_leaves_selections.diff: the
       unrepaired code keeps the selections made before the IndexError, and a later warm start
       is then accepted.)

   The fits themselves are [sfit] of Model/Select.v (arbitrary scorer as an oracle stream).
   Definitions only; proofs in Proofs/SelSessionP.v. *)
From Verif Require Import ListX Greedy Select.

(* the `initialize` hyper-parameter as fit sees it *)
Inductive init_req :=
| InitIdx (l : list Z)       (* an integer (singleton), a list/array of integers, or the draw of 'random' *)
| InitNone                   (* the class has no `initialize` (CUR family): nothing is pre-selected *)
| InitInvalid.               (* anything else (str other than 'random', float, list with a non-integer) *)

(* _FPS._init_greedy_search: `selected_idx_[i] = val` needs i < n_to_select, and
   `_update_post_selection(X, y, val)` needs a valid index: numpy accepts -n <= val < n, a negative
   value addressing item n + val (the code stores the value as given; the harness reduces the
   reported indices modulo n before comparing), anything else raises IndexError *)
Definition init_check (n k : nat) (r : init_req) : option (list nat) :=
  match r with
  | InitInvalid => None
  | InitNone => Some []
  | InitIdx l =>
      if Nat.leb (length l) k && forallb (fun z => (- Z.of_nat n <=? z) && (z <? Z.of_nat n)) l
      then Some (map (fun z => Z.to_nat (z mod Z.of_nat n)) l) else None
  end.

(* what a call of fit did *)
Inductive sres :=
| RPre                                   (* raised; object untouched *)
| RInit                                  (* raised inside _init_greedy_search; object reset *)
| ROk (g : gst stream) (stopped : bool). (* returned *)

Inductive event :=
| EFit (c : cfg) (r : init_req) (str : stream)   (* fit with the configuration in force *)
| EPre                                           (* a call of fit that raises before any attribute is written,
                                                    for a reason outside Select.v (see above) *)
| ESet.                                          (* set_params(...) : no fitted attribute changes *)

Section Session.
  Variable cand : list (list Z).
  Variable ycand : option (list (list Z)).
  Let n := length cand.

  Definition ostate := option (gst stream).      (* None: n_selected_ does not exist *)
  Definition g_reset : gst stream := mk_gst [] [] [] [] None.

  Definition sess_fit (o : ostate) (c : cfg) (r : init_req) (str : stream) : ostate * sres :=
    if c_full c && has_thr (c_thr c) then (o, RPre) else
    match resolve_n n (c_nts c) with
    | None => (o, RPre)
    | Some k =>
        if c_warm c then
          (* a request that resolves to FEWER items than are selected: np.pad of the result
             buffers with a negative width raises ValueError before anything is assigned *)
          if match o with Some g0 => Nat.ltb k (length (sel g0)) | None => false end then (o, RPre) else
          match sfit cand ycand o c [] str with
          | Rejected => (o, RPre)
          | Fitted g st => (Some g, ROk g st)
          end
        else
          match init_check n k r with
          | None => (Some g_reset, RInit)
          | Some inits =>
              match sfit cand ycand o c inits str with
              | Rejected => (o, RPre)
              | Fitted g st => (Some g, ROk g st)
              end
          end
    end.

  Definition sess_step (o : ostate) (e : event) : ostate * option sres :=
    match e with
    | EFit c r str => let '(o', res) := sess_fit o c r str in (o', Some res)
    | EPre => (o, Some RPre)
    | ESet => (o, None)
    end.

  Fixpoint sess_run (o : ostate) (evs : list event) : ostate :=
    match evs with
    | [] => o
    | e :: rest => sess_run (fst (sess_step o e)) rest
    end.

  (* the events that were not rejected (computed along the run) *)
  Fixpoint sess_kept (o : ostate) (evs : list event) : list event :=
    match evs with
    | [] => []
    | e :: rest =>
        let '(o', res) := sess_step o e in
        match res with
        | Some RPre => sess_kept o' rest
        | _ => e :: sess_kept o' rest
        end
    end.

  Definition returned (r : option sres) : bool :=
    match r with Some (ROk g _) => negb (Nat.eqb (length (sel g)) 0) | _ => false end.

  (* no call so far has returned with a selection *)
  Fixpoint never_returned (o : ostate) (evs : list event) : bool :=
    match evs with
    | [] => true
    | e :: rest => let '(o', res) := sess_step o e in negb (returned res) && never_returned o' rest
    end.

  Definition unfitted (o : ostate) : Prop :=
    o = None \/ exists g, o = Some g /\ sel g = [].

  (* ---- correspondence ------------------------------------------------------------------ *)
  (* observed outcome of a call: 0 = returned (with the observation), 1 = ValueError,
     2 = another exception class *)
  Inductive seen := SeenOk (ob : sobs) | SeenValueError | SeenOther.

  Definition hasy : bool := match ycand with Some _ => true | None => false end.

  (* every modelled rejection is a ValueError, except the half-way IndexError of the FPS
     family's initial selections, which the class reports as IndexError or ValueError *)
  Fixpoint sess_ok (o : ostate) (evs : list (event * option seen)) : bool :=
    match evs with
    | [] => true
    | (e, ob) :: rest =>
        let '(o', res) := sess_step o e in
        match res, ob with
        | None, None => sess_ok o' rest
        | Some RPre, Some SeenValueError => sess_ok o' rest
        | Some RPre, Some SeenOther => match e with EPre => sess_ok o' rest | _ => false end
        | Some RInit, Some SeenValueError => sess_ok o' rest
        | Some RInit, Some SeenOther => sess_ok o' rest
        | Some (ROk g st), Some (SeenOk so) =>
            match e with
            | EFit c r _ =>
                sobs_ok cand hasy g st
                        (if c_warm c then match o with Some g0 => length (sel g0) | None => O end
                         else match r with InitIdx l => length l | _ => O end) so
                && sess_ok o' rest
            | _ => false
            end
        | _, _ => false
        end
    end.
End Session.
