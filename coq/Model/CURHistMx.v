(* C07, layer A over an arbitrary real closed field, histories: the wrappers of Model/CURHist.v
   that Model/CURLoopMx.v does not have, with the programs interpreted by [eval_mx].
     guard_f / warm_step_f / warm_fold_f   ->  guard_mx / warm_step_mx / warm_fold_mx
        (the re-orthogonalisation loop of _continue_greedy_search, with its guard)
     yfeat_step_f folded over the y events ->  yfeat_events_mx
        (Y_feature_orthogonalizer called with the buffer at fill level t and width K, for ANY
         sequence of (t, K): once per selection while recompute_every != 0, once per re-orthogonalised
         item at a warm start, not at all while recompute_every = 0)
   Definitions only, ssreflect style. *)
From mathcomp Require Import all_ssreflect all_algebra.
From Verif Require Import MExp MExpMx MxBox PCovR CURLoop CURLoopMx.
Set Implicit Arguments.
Unset Strict Implicit.
Unset Printing Implicit Defensive.
Import GRing.Theory Num.Theory.
Local Open Scope ring_scope.

Section CURHistMx.
  Variable F : rcfType.

  Section Warm.
    Variables r c : nat.
    (*  norm(X_current_[:, j]) > tolerance * norm(X[:, j])  *)
    Definition guard_mx (tol : F) (X Xc : 'M[F]_(r, c)) (j : 'I_c) : bool :=
      tol * pivot_norm_mx X j < pivot_norm_mx Xc j.
    Definition warm_step_mx (tol : F) (X Xc : 'M[F]_(r, c)) (j : 'I_c) : 'M[F]_(r, c) :=
      if guard_mx tol X Xc j then orth_step_mx tol Xc j else Xc.
    Definition warm_fold_mx (tol : F) (X Xc : 'M[F]_(r, c)) (old : seq 'I_c) : 'M[F]_(r, c) :=
      foldl (warm_step_mx tol X) Xc old.
    (* every item of [s] is, at its turn, still present in the residual: the guard fires *)
    Fixpoint stale_live (tol : F) (X Xc : 'M[F]_(r, c)) (s : seq 'I_c) : Prop :=
      match s with
      | [::] => True
      | j :: s' => guard_mx tol X Xc j /\ stale_live tol X (orth_step_mx tol Xc j) s'
      end.
  End Warm.

  (* the y events of a history: (fill level t, (buffer width K, pinv hint V)) *)
  Fixpoint yfeat_events_mx n m p (X : 'M[F]_(n, m)) (sel : seq nat) (evs : seq (nat * hintV F))
           (y : 'M[F]_(n, p)) : 'M[F]_(n, p) :=
    match evs with
    | [::] => y
    | (t, existT K V) :: evs' =>
        yfeat_events_mx X sel evs'
          (eval_mx (yfeat_env_mx y (buf_mx X sel t K) V) (yfeat_prog n p K))
    end.
End CURHistMx.
