(* Ridge2FoldCV.fit around `_2fold_cv` (src/skmatter/linear_model/_ridge.py:153-188, 190-202):
   the parts of the anchored code that Model/Ridge2Fold.v leaves to the harness.

     * the three rejection guards of `fit`, in the order of the code ([fit_guard], written once
       over the numeric signature [nops T] like the rest of the scalar code);
     * `scoring is None` -> "neg_mean_squared_error" ([resolve_scoring]);
     * the fold choice: `cv is None` -> KFold(n_splits=2, shuffle, random_state), otherwise
       check_cv(cv); the FIRST yield of cv.split(X) is (fold1_idx, fold2_idx).  For every
       unshuffled KFold (cv=None with shuffle=False, an integer cv, a KFold object) the split is
       computed by the model itself ([kfold_first]: sklearn's KFold gives the first
       n mod k folds one extra sample, the first yield is (complement, first fold)); shuffled /
       explicit splits stay oracle input ([CvGiven]);
     * shape bookkeeping of the outputs: a 1-D y gives coef_ of shape (p,) and predictions of
       shape (nn,), a 2-D y gives (t, p) and (nn, t); cv_values_ has one entry per alpha
       ([model_shapes]).
   Definitions only.  Stdlib style. *)
From Coq Require Import ZArith List Bool Arith PrimFloat.
From Verif Require Import MExp Ridge2Fold.
Import ListNotations.

(* ---- guards ----------------------------------------------------------------------- *)
(* strings are numbered: regularization_method 0 = "tikhonov", 1 = "cutoff", anything else is
   unknown; alpha_type 0 = "absolute", 1 = "relative", anything else is unknown *)
Inductive fit_error := ErrMethod | ErrAlphaType | ErrRelativeRange.

Section Guard.
  Context {T : Type} (ops : nops T).
  (* np.any(alphas < 0), np.any(alphas >= 1)  (no NaN in the grid) *)
  Definition any_lt0 (alphas : list T) : bool := existsb (fun a => oltb ops a (o0 ops)) alphas.
  Definition any_ge1 (alphas : list T) : bool := existsb (fun a => negb (oltb ops a (o1 ops))) alphas.

  Definition fit_guard (method atype : nat) (alphas : list T) : option fit_error :=
    if negb (Nat.leb method 1) then Some ErrMethod
    else if negb (Nat.leb atype 1) then Some ErrAlphaType
    else if (Nat.eqb atype 1 && (any_lt0 alphas || any_ge1 alphas))%bool then Some ErrRelativeRange
    else None.
End Guard.

(* observed outcome of fit as a number: 0 = returned, 1/2/3 = ValueError of the first / second /
   third guard (recognised by its message), anything else = another exception *)
Definition error_code (e : option fit_error) : nat :=
  match e with
  | None => 0 | Some ErrMethod => 1 | Some ErrAlphaType => 2 | Some ErrRelativeRange => 3
  end.

(* ---- scoring=None ----------------------------------------------------------------- *)
Definition resolve_scoring (scoring : option nat) : nat :=
  match scoring with None => 0 (* neg_mean_squared_error *) | Some i => i end.

(* ---- fold choice ------------------------------------------------------------------- *)
(* size of the first test fold of KFold(k) on n samples: n // k, plus 1 when n % k > 0 *)
Definition kfold_h (n k : nat) : nat := (n / k + (if Nat.eqb (n mod k) 0 then 0 else 1))%nat.
(* first yield of KFold(k, shuffle=False).split(X): (train, test) = (complement, first fold) *)
Definition kfold_first (n k : nat) : list nat * list nat :=
  let h := kfold_h n k in (seq h (n - h), seq 0 h).

Inductive cv_spec :=
| CvKFold (k : nat)                               (* unshuffled KFold with k splits *)
| CvGiven (splits : list (list nat * list nat)).  (* what cv.split(X) yields (oracle) *)

Definition splits_of_spec (n : nat) (spec : cv_spec) : list (list nat * list nat) :=
  match spec with CvKFold k => [kfold_first n k] | CvGiven s => s end.

(* ---- shapes ------------------------------------------------------------------------- *)
Record r2f_shapes := mk_shapes { sh_cv : nat; sh_coef : list nat; sh_pred : list nat }.
Definition model_shapes (y1d : bool) (nalpha t p nn : nat) : r2f_shapes :=
  {| sh_cv := nalpha;
     sh_coef := if y1d then [p] else [t; p];
     sh_pred := if y1d then [nn] else [nn; t] |}.

Fixpoint natl_eqb (a b : list nat) : bool :=
  match a, b with
  | [], [] => true
  | x :: a', y :: b' => (Nat.eqb x y && natl_eqb a' b')%bool
  | _, _ => false
  end.
Definition shapes_eqb (a b : r2f_shapes) : bool :=
  (Nat.eqb (sh_cv a) (sh_cv b) && natl_eqb (sh_coef a) (sh_coef b) && natl_eqb (sh_pred a) (sh_pred b))%bool.

Definition split_eqb (a b : list nat * list nat) : bool :=
  (natl_eqb (fst a) (fst b) && natl_eqb (snd a) (snd b))%bool.

(* ---- binary64 run of the whole fit -------------------------------------------------- *)
Open Scope float_scope.

(* a fit request: the data and hints of [r2f_case] (its [csplits] / [cscorer] fields are
   overridden by what the model derives from [spec] / [scoring]) *)
Definition case_with (c : r2f_case) (spec : cv_spec) (scoring : option nat) : r2f_case :=
  mk_case (cX c) (cY c) (splits_of_spec (length (cX c)) spec) (calphas c) (crel c) (ccut c)
          (resolve_scoring scoring) (ch1 c) (ch2 c) (ch c) (cXnew c).

(* components: the six of [r2f_case_ok] (hints; cv; alpha; best; coef; predict), then
   [6] output shapes, [7] the model's own KFold split equals sklearn's first yield *)
Definition r2f_fit_ok (c : r2f_case) (spec : cv_spec) (scoring : option nat) (y1d : bool)
    (sk_first : list nat * list nat)
    (rtol atol_cv atol : float) (gcv : list bool) (gsel gcoef gpred : bool)
    (obs : r2f_out) (obs_sh : r2f_shapes) : list bool :=
  let c' := case_with c spec scoring in
  (match fit_guard fops (if ccut c then 1 else 0) (if crel c then 1 else 0) (calphas c) with
   | None => r2f_case_ok c' rtol atol_cv atol gcv gsel gcoef gpred obs
   | Some _ => [false; false; false; false; false; false]     (* the model rejects: fit must raise *)
   end)
  ++ [ shapes_eqb (model_shapes y1d (length (calphas c)) (r_t c) (r_p c) (length (cXnew c))) obs_sh;
       match spec with
       | CvKFold _ => split_eqb (hd ([], []) (csplits c')) sk_first
       | CvGiven _ => true
       end ].

(* a rejected (or boundary) configuration: the implementation's outcome code must be the model's *)
Definition guard_case_ok (method atype : nat) (alphas : list float) (observed : nat) : bool :=
  Nat.eqb (error_code (fit_guard fops method atype alphas)) observed.

(* failing component numbers: 8 * case + component *)
Definition failing_flat8 (l : list (list bool)) : list nat := r2f_failing_from 0 (concat l).
Fixpoint failing_bools (i : nat) (l : list bool) : list nat :=
  match l with
  | [] => []
  | b :: t => if b then failing_bools (S i) t else i :: failing_bools (S i) t
  end.
