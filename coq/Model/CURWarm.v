(* C08 extension (round 3): the CUR family as an OBJECT with its residual matrix, including the
   warm-start path.  Mirrors _CUR / _PCovCUR of src/skmatter/_selection.py:

     _init_greedy_search:      X_current_ = X.copy();  pi_ = _compute_pi(X_current_)
     _update_post_selection:   n_selected_ += 1
                               if recompute_every != 0:
                                   _orthogonalize(last_selected)
                                   if n_selected_ % recompute_every == 0: pi_ = _compute_pi(X_current_)
                               pi_[last_selected] = 0.0
     _continue_greedy_search:  for c in selected_idx_:
                                   if recompute_every != 0 and
                                      norm(X_current_[c]) > tolerance * norm(X[c]):   (the "stale" guard)
                                       _orthogonalize(last_selected=c)
                               pi_ = _compute_pi(X_current_)

   The linear algebra is abstract: [M] is whatever _orthogonalize rewrites (X_current_, and
   y_current_ for PCov-CUR), [orth x l c] is _orthogonalize(c) when the result buffers hold the
   selections [l] (only _PCovCUR reads them, for y_current_), [pi_of] is _compute_pi as
   order-preserving integer codes, [stale] the guard of _continue_greedy_search.  What they must
   satisfy is stated as hypotheses of the theorems (Proofs/CURWarmP.v); what they are is layer A
   (Model/CURLoop.v, property C07).  recompute_every is an argument of every step, so that it can
   change between the fits of a session (set_params).  Definitions only. *)
From Verif Require Import ListX Greedy CURSched.

Section CURWarm.
  Variable M : Type.
  Variable orth : M -> list nat -> nat -> M.
  Variable pi_of : M -> list Z.
  Variable stale : M -> nat -> bool.
  Variable cand : list (list Z).
  Variable ycand : option (list (list Z)).

  Record cur := mk_cur {
    xc : M;                 (* X_current_ (, y_current_) *)
    cpi : list Z;           (* pi_ *)
    cns : nat;              (* n_selected_ *)
    csl : list nat          (* selected_idx_[:n_selected_] (read by _PCovCUR._orthogonalize) *)
  }.

  Definition cu_score (s : cur) : list Z := cpi s.

  Definition cu_upd (re : nat) (s : cur) (i : nat) : cur :=
    let m := S (cns s) in
    let sl := csl s ++ [i] in
    let x1 := if Nat.eqb re 0 then xc s else orth (xc s) sl i in
    let p1 := if refresh_due re m then pi_of x1 else cpi s in
    mk_cur x1 (upd_nth i 0 p1) m sl.

  Definition cu_cold (X : M) : cur := mk_cur X (pi_of X) 0 [].

  (* the loop over selected_idx_ of _continue_greedy_search *)
  Definition cu_reorth (re : nat) (sl : list nat) (x : M) : M :=
    fold_left (fun x c => if negb (Nat.eqb re 0) && stale x c then orth x sl c else x) sl x.

  Definition cu_cont (re : nat) (s : cur) : cur :=
    let x1 := cu_reorth re (csl s) (xc s) in
    mk_cur x1 (pi_of x1) (cns s) (csl s).

  Definition cu_g0 (X : M) : gst cur := mk_gst [] [] [] (cu_cold X) None.
  Definition cu_run (re : nat) := run cur cu_score (cu_upd re) cand ycand.
  Definition cu_post (re : nat) := post cur (cu_upd re) cand ycand.

  (* fit(warm_start=True) with recompute_every = re and resolved n_to_select = k *)
  Definition cu_warm (re : nat) (g : gst cur) : gst cur :=
    mk_gst (sel g) (xsel g) (ysel g) (cu_cont re (sst g)) (first g).
  Definition cu_warm_fit (re k : nat) (g : gst cur) : gst cur :=
    fst (cu_run re NoThr (k - length (sel g)) (cu_warm re g)).

  (* a chain of warm-started fits, recompute_every fixed *)
  Definition cu_chain (re : nat) (g : gst cur) (sched : list nat) : gst cur :=
    fold_left (fun g k => cu_warm_fit re k g) sched g.

  (* a session: each stage carries the recompute_every in force (set_params between fits) *)
  Definition cu_session (g : gst cur) (stages : list (nat * nat)) : gst cur :=
    fold_left (fun g st => cu_warm_fit (fst st) (snd st) g) stages g.

  (* a selector with recompute_every = re made to select the sequence [sl] (the state the loop
     is in if these were its selections) *)
  Definition cu_forced (re : nat) (X : M) (sl : list nat) : gst cur :=
    fold_left (cu_post re) sl (cu_g0 X).

  (* two object states that the rest of a session cannot tell apart: same residual, same
     counters, scores equal on every item that can still be selected *)
  Definition agree_off (sl : list nat) (a b : list Z) : Prop :=
    length a = length b /\ forall j, ~ In j sl -> nth j a 0 = nth j b 0.
  Definition cu_equiv (s1 s2 : cur) (sl : list nat) : Prop :=
    xc s1 = xc s2 /\ cns s1 = cns s2 /\ csl s1 = csl s2 /\ agree_off sl (cpi s1) (cpi s2).
  Definition g_equiv (g1 g2 : gst cur) : Prop :=
    sel g1 = sel g2 /\ xsel g1 = xsel g2 /\ ysel g1 = ysel g2 /\ first g1 = first g2 /\
    cu_equiv (sst g1) (sst g2) (sel g1).
End CURWarm.

Arguments mk_cur {M}. Arguments xc {M}. Arguments cpi {M}. Arguments cns {M}. Arguments csl {M}.
