(* Extension (round 3) of the model of skmatter/metrics/_reconstruction_measures.py.
   Definitions only; imports Model/Recon.v and leaves it unchanged.

   1. A CHECKABLE contract for the orthogonal regression of GRD.  Recon.v ties Omega through
      orthogonality and first-order optimality (Omega^T M symmetric) only, while the theorems
      assumed global optimality / uniqueness.  Here the contract is
          Omega^T Omega = I   and   Omega^T M = L^T L      (M = (Xs E_p)^T (Yhat E_q))
      with an oracle factor L (slot 15): Omega^T M is symmetric positive semi-definite.  This is
      what scipy's orthogonal_procrustes returns (M = U S V^T, Omega = U V^T, Omega^T M = V S V^T,
      L = sqrt(S) V^T); Proofs/ReconExtP.v proves that it implies global optimality and, for a
      training source of full column rank, determines the GRD values.
   2. check_global/local_reconstruction_measures_input: the two assertions, the resolution of
      the train / test indices (np.setdiff1d complement) and the silent truncation of
      n_local_points to the number of training rows by argsort(...)[:n_local_points].
   3. The rejection branches of StandardFlexibleScaler.fit reached from the measures
      (fewer than two training rows; total variance below atol = 1e-12, rtol = 0). *)
From Coq Require Import ZArith List Bool PrimFloat.
From Verif Require Import MExp Recon.
Import ListNotations.
Close Scope float_scope.
Open Scope nat_scope.

(* ------------------------------------------------------------------ 1. Procrustes contract *)
Definition vL (r : nat) : mexp r r := MVar 15.
(* Omega^T M - L^T L *)
Definition omega_psd_resid (n p q r : nat) : mexp r r :=
  MSub (MMul (MTr (vOmega r)) (proc_m n p q r)) (MMul (MTr (vL r)) (vL r)).

(* ------------------------------------------------------------------ 2. input checks (layer D) *)
(* assert len(X) == len(Y) *)
Definition global_guard (nX nY : nat) : bool := Nat.eqb nX nY.
(* assert len(X) >= n_local_points, then the global check *)
Definition local_guard (nX nY k : nat) : bool := Nat.leb k nX && Nat.eqb nX nY.

(* np.setdiff1d(np.arange(n), idx): the sorted, duplicate-free complement *)
Definition complement (n : nat) (idx : list nat) : list nat :=
  filter (fun i => negb (memb i idx)) (seq 0 n).

(* train_idx / test_idx as returned by check_global_reconstruction_measures_input; [dflt] is the
   shuffled 50/50 split of sklearn (oracle) used when both are None *)
Definition resolve_idx (n : nat) (train test : option (list nat)) (dflt : list nat * list nat)
  : list nat * list nat :=
  match train, test with
  | None, None => dflt
  | None, Some te => (complement n te, te)
  | Some tr, None => (tr, complement n tr)
  | Some tr, Some te => (tr, te)
  end.

(* np.argsort(squared_dist[i])[:n_local_points] has min(n_local_points, n_train) entries: the
   guard compares n_local_points with len(X), not with the number of training rows *)
Definition eff_k (k ntrain : nat) : nat := Nat.min k ntrain.

(* ------------------------------------------------------------------ binary64 driver *)
Open Scope float_scope.

(* StandardFlexibleScaler().fit(A) does not raise: at least two rows (ensure_min_samples=2) and
   not (var_sum < atol) *)
Definition scaler_fit_ok_f (atol : float) (A : fmat) : bool :=
  let n := length A in let p := length (hd [] A) in
  Nat.leb 2 n
  && negb (ltb (fget (eval_f (envl [A]) (varsum_prog (@MVar n p 0))) 0 0) atol).

Section DriverExt.
  Variable inp : recon_in.
  Let n := length (c_train inp).
  Let m := length (c_test inp).
  Let p := length (hd [] (c_X inp)).
  Let q := length (hd [] (c_Y inp)).
  Let r := Nat.max p q.

  (* the measure raises in scaler.fit(X_train) or scaler.fit(Y_train) *)
  Definition measure_rejects_f (atol : float) : bool :=
    negb (scaler_fit_ok_f atol (select_rows (c_train inp) (c_X inp))
          && scaler_fit_ok_f atol (select_rows (c_train inp) (c_Y inp))).

  (* slots 0..15 *)
  Definition env_grd2 (Omega L : fmat) : nat -> fmat :=
    fun x => if Nat.eqb x 15 then L else base_env inp Omega [] [] [] [] [] [] x.
  Definition omega_contract_resid_f (Omega L : fmat) : float :=
    let e := env_grd2 Omega L in
    let a := fmaxabs (eval_f e (omega_orth_resid r)) in
    let b := fmaxabs (eval_f e (omega_psd_resid n p q r)) in
    if ltb a b then b else a.
End DriverExt.

(* GRD case under the PSD-factor contract (peps: eps scaled by max |M| in the harness) *)
Definition grd_case_ok2 (inp : recon_in) (Omega L : fmat) (eps peps rtol atol : float)
           (obs_pw : list float) (obs_g : float) : bool :=
  leb (ridge_resid_f inp) eps && leb (omega_contract_resid_f inp Omega L) peps
  && vclose rtol atol (grd_pw_f inp Omega) obs_pw
  && close rtol atol (global_f (grd_pw_f inp Omega)) obs_g.
Definition grd_cutoff_case_ok2 (inp : recon_in) (U S V Omega L : fmat) (eps peps rtol atol : float)
           (obs_pw : list float) (obs_g : float) : bool :=
  leb (cutoff_resid_f inp U S V) eps && leb (omega_contract_resid_f inp Omega L) peps
  && vclose rtol atol (grd_pw_f inp Omega) obs_pw
  && close rtol atol (global_f (grd_pw_f inp Omega)) obs_g.

(* the input-check function: guards and resolved indices, exact *)
Fixpoint natlist_eqb (a b : list nat) : bool :=
  match a, b with
  | [], [] => true
  | x :: a', y :: b' => Nat.eqb x y && natlist_eqb a' b'
  | _, _ => false
  end.
Definition idx_case_ok (nX nY : nat) (k : option nat) (train test : option (list nat))
           (dflt : list nat * list nat) (obs_raises : bool) (obs_train obs_test : list nat) : bool :=
  let g := match k with Some k' => local_guard nX nY k' | None => global_guard nX nY end in
  if g then negb obs_raises
            && (let (tr, te) := resolve_idx nX train test dflt in
                natlist_eqb tr obs_train && natlist_eqb te obs_test)
  else obs_raises.

(* every hinted neighbour list has min(n_local_points, n_train) entries *)
Definition nbrs_len_ok (k ntrain : nat) (nbrs : list (list nat)) : bool :=
  forallb (fun nb => Nat.eqb (length nb) (eff_k k ntrain)) nbrs.

(* a measure call that must raise / must not raise in the scaler *)
Definition reject_case_ok (inp : recon_in) (atol : float) (obs_raises : bool) : bool :=
  Bool.eqb (measure_rejects_f inp atol) obs_raises.
