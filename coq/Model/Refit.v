(* Layer E, second IR — structured "attribute state" IR for sub-claim (b) of C09:
   a cold refit leaves exactly the state of a fresh estimator (definitions only).

   harness/effects_translate.py regenerates, for every public class, one command per method from
   /repo's current source (all skmatter-internal calls inlined).  A command keeps the CONTROL
   FLOW of the Python code (sequence, branches, loops with break/continue, inlined calls with
   their returns, raise, try/except) but abstracts all data: the only state is

     st : attr -> option val     the instance dictionary of the estimator (and of the objects it
                                 owns, flattened to "object.attribute" keys); None = absent
     m  : mem                    an opaque summary of everything else the call has seen so far:
                                 its arguments, its local variables, and every attribute value
                                 it has read

   and every data-dependent decision or value is an *uninterpreted function* of m supplied by an
   [oracle] (the theorems quantify over all oracles):

     CRead a s     m := rd s m (st a)        any look at self.a (load, hasattr, getattr, check_is_fitted)
     CAssign a s   st a := Some (wr s m)     self.a = <anything computed from what the call has seen>
     CDel a s      del self.a                (raises when a is absent)
     CReset a s    if hasattr(self, a): del self.a
     CLocal s      m := lc s m               local computation (loop counters, rng, ...)
     CIf s c1 c2   branch on br s m
     CWhile s c    while br s m: c ; m := lc s m
     CCall c       inlined callee: a `return` inside c ends the callee only
     CTry s c h    an exception raised in c is caught (when br s m) by h

   An in-place update of the object held by an attribute (self.a[i] = v, self.a += v,
   self.a.fit(...)) is emitted as CRead a ; CAssign a.

   Analyser [da]: forward definite-assignment analysis.  D = attributes whose state (value or
   absence) has been DETERMINED by this very call; an attribute is [known] when it is in D or is
   not a learned attribute at all (hyper-parameters).  Every CRead / CDel must hit a known
   attribute, otherwise its site is reported.  [da] returns one set per way of leaving the
   command (normal / return / exception / break / continue; None = that exit is unreachable).
   [refit_ok L c]: no offending site, and at every normal or return exit every learned attribute
   is determined. *)
From Coq Require Import List PArith Bool Arith MSets.MSetPositive.
Import ListNotations.
From Verif Require Import Effects.

Definition mem := nat.
Definition val := nat.
Definition store := attr -> option val.

Inductive cmd : Type :=
| CSkip
| CRead (a : attr) (s : site)
| CAssign (a : attr) (s : site)
| CDel (a : attr) (s : site)
| CReset (a : attr) (s : site)
| CLocal (s : site)
| CSeq (c1 c2 : cmd)
| CIf (s : site) (c1 c2 : cmd)
| CWhile (s : site) (c : cmd)
| CCall (c : cmd)
| CReturn
| CRaise
| CBreak
| CContinue
| CTry (s : site) (c h : cmd).

Arguments CRead a%positive s%nat.
Arguments CAssign a%positive s%nat.
Arguments CDel a%positive s%nat.
Arguments CReset a%positive s%nat.
Arguments CLocal s%nat.
Arguments CIf s%nat c1 c2.
Arguments CWhile s%nat c.
Arguments CTry s%nat c h.

(* sequence of a list of commands (what the generated files use) *)
Fixpoint cseq (l : list cmd) : cmd :=
  match l with
  | [] => CSkip
  | [c] => c
  | c :: t => CSeq c (cseq t)
  end.

(* ------------------------------------------------------------------ semantics *)
Record oracle : Type := mkOracle {
  rd : site -> mem -> option val -> mem;
  wr : site -> mem -> val;
  br : site -> mem -> bool;
  lc : site -> mem -> mem }.

Inductive kind : Type := KN | KR | KE | KB | KC.     (* normal, return, exception, break, continue *)

Definition res : Type := (kind * mem * store)%type.

Definition supd (st : store) (a : attr) (v : option val) : store :=
  fun b => if Pos.eqb b a then v else st b.

(* one step of the interpreter; [rec] runs the sub-commands (with less fuel) *)
Definition exec_body (Oc : oracle) (rec : cmd -> mem -> store -> option res)
           (c : cmd) (m : mem) (st : store) : option res :=
  match c with
  | CSkip => Some (KN, m, st)
  | CRead a s => Some (KN, rd Oc s m (st a), st)
  | CAssign a s => Some (KN, m, supd st a (Some (wr Oc s m)))
  | CDel a s => match st a with
                | Some _ => Some (KN, m, supd st a None)
                | None => Some (KE, m, st)               (* AttributeError *)
                end
  | CReset a s => Some (KN, m, supd st a None)
  | CLocal s => Some (KN, lc Oc s m, st)
  | CSeq c1 c2 => match rec c1 m st with
                  | Some (KN, m', st') => rec c2 m' st'
                  | r => r
                  end
  | CIf s c1 c2 => if br Oc s m then rec c1 m st else rec c2 m st
  | CWhile s c1 =>
      if br Oc s m then
        match rec c1 m st with
        | Some (KN, m', st') | Some (KC, m', st') => rec (CWhile s c1) (lc Oc s m') st'
        | Some (KB, m', st') => Some (KN, m', st')
        | r => r
        end
      else Some (KN, m, st)
  | CCall c1 => match rec c1 m st with
                | Some (KR, m', st') => Some (KN, m', st')
                | r => r
                end
  | CReturn => Some (KR, m, st)
  | CRaise => Some (KE, m, st)
  | CBreak => Some (KB, m, st)
  | CContinue => Some (KC, m, st)
  | CTry s c1 h => match rec c1 m st with
                   | Some (KE, m', st') => if br Oc s m' then rec h m' st' else Some (KE, m', st')
                   | r => r
                   end
  end.

(* fuel only bounds the recursion: None = out of fuel (the theorems speak about the
   executions that terminate, with any fuel) *)
Fixpoint exec (Oc : oracle) (fuel : nat) : cmd -> mem -> store -> option res :=
  match fuel with
  | 0 => fun _ _ _ => None
  | S f => exec_body Oc (exec Oc f)
  end.

(* terminating executions *)
Definition runs (Oc : oracle) (c : cmd) (m : mem) (st : store) (r : res) : Prop :=
  exists fuel, exec Oc fuel c m st = Some r.

(* ------------------------------------------------------------------ analyser *)
Record exits : Type := mkExits { xn : option PS.t; xr : option PS.t; xe : option PS.t;
                                 xb : option PS.t; xc : option PS.t }.

Definition sel (k : kind) (x : exits) : option PS.t :=
  match k with KN => xn x | KR => xr x | KE => xe x | KB => xb x | KC => xc x end.

Definition omeet (a b : option PS.t) : option PS.t :=
  match a, b with
  | None, x | x, None => x
  | Some u, Some v => Some (PS.inter u v)
  end.

Definition xmeet (x y : exits) : exits :=
  mkExits (omeet (xn x) (xn y)) (omeet (xr x) (xr y)) (omeet (xe x) (xe y))
          (omeet (xb x) (xb y)) (omeet (xc x) (xc y)).

Definition only_n (D : PS.t) : exits := mkExits (Some D) None None None None.

(* the state of a is the same whatever happened to the object before this call *)
Definition known (L D : PS.t) (a : attr) : bool := PS.mem a D || negb (PS.mem a L).

(* D is contained in an exit set (None = unreachable: nothing to check) *)
Definition osub (D : PS.t) (o : option PS.t) : bool :=
  match o with None => true | Some E => PS.subset D E end.

Fixpoint da (L D : PS.t) (c : cmd) : exits * list site :=
  match c with
  | CSkip | CLocal _ => (only_n D, [])
  | CRead a s => (only_n D, if known L D a then [] else [s])
  | CAssign a _ | CReset a _ => (only_n (PS.add a D), [])
  | CDel a s => (mkExits (Some (PS.add a D)) None (Some D) None None, if known L D a then [] else [s])
  | CSeq c1 c2 =>
      let '(x1, b1) := da L D c1 in
      match xn x1 with
      | None => (x1, b1)                       (* c2 is unreachable *)
      | Some D1 =>
          let '(x2, b2) := da L D1 c2 in
          (mkExits (xn x2) (omeet (xr x1) (xr x2)) (omeet (xe x1) (xe x2))
                   (omeet (xb x1) (xb x2)) (omeet (xc x1) (xc x2)), b1 ++ b2)
      end
  | CIf _ c1 c2 =>
      let '(x1, b1) := da L D c1 in
      let '(x2, b2) := da L D c2 in
      (xmeet x1 x2, b1 ++ b2)
  | CWhile s c1 =>
      (* the body is analysed from D; a further iteration starts from what a normal end or a
         `continue` of the body established, which must contain D (always true, but checked
         here instead of proved: a failing check is reported at the loop's site) *)
      let '(x1, b1) := da L D c1 in
      (mkExits (omeet (Some D) (xb x1)) (xr x1) (xe x1) None None,
       b1 ++ (if osub D (xn x1) && osub D (xc x1) then [] else [s]))
  | CCall c1 =>
      let '(x1, b1) := da L D c1 in
      (mkExits (omeet (xn x1) (xr x1)) None (xe x1) (xb x1) (xc x1), b1)
  | CReturn => (mkExits None (Some D) None None None, [])
  | CRaise => (mkExits None None (Some D) None None, [])
  | CBreak => (mkExits None None None (Some D) None, [])
  | CContinue => (mkExits None None None None (Some D), [])
  | CTry _ c1 h =>
      let '(x1, b1) := da L D c1 in
      match xe x1 with
      | None => (x1, b1)                       (* nothing to catch *)
      | Some De =>
          let '(x2, b2) := da L De h in
          (mkExits (omeet (xn x1) (xn x2)) (omeet (xr x1) (xr x2)) (omeet (Some De) (xe x2))
                   (omeet (xb x1) (xb x2)) (omeet (xc x1) (xc x2)), b1 ++ b2)
      end
  end.

Definition covers (L : PS.t) (o : option PS.t) : bool := osub L o.

Definition refit_sites (L : PS.t) (c : cmd) : list site := snd (da L PS.empty c).

Definition refit_final (L : PS.t) (c : cmd) : option PS.t :=
  let x := fst (da L PS.empty c) in omeet (xn x) (xr x).

(* learned attributes that some normal / return exit of c leaves undetermined (reporting) *)
Definition refit_missing (L : PS.t) (c : cmd) : list attr :=
  match refit_final L c with
  | None => []
  | Some D => PS.elements (PS.diff L D)
  end.

Definition refit_ok (L : PS.t) (c : cmd) : bool :=
  match refit_sites L c with [] => covers L (refit_final L c) | _ => false end.

(* ------------------------------------------------------------------ learned attributes *)
(* attributes a command may assign or delete *)
Fixpoint writes (c : cmd) : PS.t :=
  match c with
  | CAssign a _ | CDel a _ | CReset a _ => PS.singleton a
  | CSeq c1 c2 | CIf _ c1 c2 | CTry _ c1 c2 => PS.union (writes c1) (writes c2)
  | CWhile _ c1 | CCall c1 => writes c1
  | _ => PS.empty
  end.

(* a class: the cold fit and every other method (warm fits, transform, predict, ...) *)
Record cls : Type := mkCls { fit : cmd; others : list cmd }.

Definition methods (P : cls) : list cmd := fit P :: others P.

Definition learned (P : cls) : PS.t := fold_right (fun c acc => PS.union (writes c) acc) PS.empty (methods P).

Definition refit_fresh (P : cls) : bool := refit_ok (learned P) (fit P).

(* any finite sequence of terminating calls of methods of the class, whatever they end with *)
Inductive history (Oc : oracle) (P : cls) : store -> store -> Prop :=
| hist_nil : forall st, history Oc P st st
| hist_cons : forall c m st k m' st' st'',
    In c (methods P) -> runs Oc c m st (k, m', st') -> history Oc P st' st'' -> history Oc P st st''.

(* ------------------------------------------------------------------ observable freshness *)
(* Weaker acceptance for classes whose cold fit leaves some learned attribute undetermined on
   some path (an attribute assigned only under a hyper-parameter or data condition may be LEFT
   OVER from an earlier fit): the leftovers are harmless when no method ever looks at them
   before determining them itself.  [method_ok L D c]: started with exactly the attributes D
   determined, c reads only known attributes, and keeps D determined at each of its exits
   (always true, checked instead of proved). *)
Definition method_ok (L D : PS.t) (c : cmd) : bool :=
  let '(x, b) := da L D c in
  match b with
  | [] => osub D (xn x) && osub D (xr x) && osub D (xe x) && osub D (xb x) && osub D (xc x)
  | _ => false
  end.

Definition refit_observable (P : cls) : bool :=
  let L := learned P in
  match refit_sites L (fit P), refit_final L (fit P) with
  | [], Some D => forallb (method_ok L D) (methods P)
  | [], None => true
  | _, _ => false
  end.

(* a sequence of calls (method, local memory = arguments), each started on the dictionary the
   previous one left, whatever way it ended; the observable outcome is the list of exits and
   local memories (returned values) *)
Fixpoint run_calls (Oc : oracle) (fuel : nat) (calls : list (cmd * mem)) (st : store)
  : option (list (kind * mem)) :=
  match calls with
  | [] => Some []
  | (c, m) :: t =>
      match exec Oc fuel c m st with
      | Some (k, m', st') =>
          match run_calls Oc fuel t st' with
          | Some l => Some ((k, m') :: l)
          | None => None
          end
      | None => None
      end
  end.

(* reporting: the reads of method c that may see an attribute the cold fit left undetermined *)
Definition method_sites (L : PS.t) (o : option PS.t) (c : cmd) : list site :=
  match o with None => [] | Some D => snd (da L D c) end.

(* flat encoding printed by the generated case files:
   [fresh; observable; #sites; sites...; #missing; missing attributes...;
    #methods; then per method: #sites; sites...] *)
Definition refit_enc (P : cls) : list nat :=
  let L := learned P in
  let ss := refit_sites L (fit P) in
  let ms := map Pos.to_nat (refit_missing L (fit P)) in
  let per := map (method_sites L (refit_final L (fit P))) (methods P) in
  [Nat.b2n (refit_fresh P); Nat.b2n (refit_observable P); length ss] ++ ss ++ [length ms] ++ ms
    ++ [length per] ++ flat_map (fun l => length l :: l) per.
