(* Model of DirectionalConvexHull (src/skmatter/sample_selection/_base.py).

   Part 1 (over Q, exact): everything the class does AFTER scipy's ConvexHull returned.
     qhull is an ORACLE: a list of facets (normal, offset, vertex ids) = rows of
     convex_hull_.equations / convex_hull_.simplices.  The model is: the filter
     `y_normal < 0`, `np.unique(simplices.flatten())`, _directional_distance,
     _directional_convex_hull_distance, score_samples, score_feature_matrix.
   Part 2 (over Z, exact): an independent SPECIFICATION of "lower-hull vertex":
     [below_combo]/[is_lower_vertex] (convex combinations with integer weights over a common
     denominator), its executable simplex form [lower_vertex_b] (orientation determinants,
     any hull dimension) and a monotone-chain lower hull for one hull dimension.
   Part 3: the per-case verdicts evaluated by the correspondence check.
   Definitions only; proofs are in Proofs/DCHP.v. *)
From Coq Require Import QArith Qabs.
From Verif Require Import ListX.

(* ================================================================ Part 1: model over Q *)

Definition Qltb (a b : Q) : bool := negb (Qle_bool b a).          (* a < b *)

Fixpoint qsum (l : list Q) : Q :=
  match l with [] => 0%Q | a :: t => (a + qsum t)%Q end.
Definition qdot (u v : list Q) : Q := qsum (map2 Qmult u v).

Definition qmin (a b : Q) : Q := if Qle_bool a b then a else b.
Definition qmax (a b : Q) : Q := if Qle_bool a b then b else a.
(* np.min / np.max along an axis; None = the reduction of an empty axis (numpy raises) *)
Fixpoint qmin_list (l : list Q) : option Q :=
  match l with
  | [] => None
  | a :: t => match qmin_list t with None => Some a | Some m => Some (qmin a m) end
  end.
Fixpoint qmax_list (l : list Q) : option Q :=
  match l with
  | [] => None
  | a :: t => match qmax_list t with None => Some a | Some m => Some (qmax a m) end
  end.

(* one row of convex_hull_.equations with the matching row of convex_hull_.simplices *)
Record facet := mkFacet { fnormal : list Q; foffset : Q; fverts : list nat }.

Definition f_ny (f : facet) : Q := hd 0%Q (fnormal f).            (* equations[:, 0] *)
Definition is_lower (f : facet) : bool := Qltb (f_ny f) 0.         (* y_normal < 0 *)
(* directional_facets_idx = np.where(y_normal < 0)[0] *)
Definition lower_facets (fs : list facet) : list facet := filter is_lower fs.

(* np.unique: sorted, without repetitions *)
Fixpoint insu (x : nat) (l : list nat) : list nat :=
  match l with
  | [] => [x]
  | y :: t => if Nat.ltb x y then x :: l else if Nat.eqb x y then l else y :: insu x t
  end.
Definition unique_sorted (l : list nat) : list nat := fold_right insu [] l.

(* selected_idx_ = np.unique(directional_simplices_.flatten()) *)
Definition selected (fs : list facet) : list nat :=
  unique_sorted (flat_map fverts (lower_facets fs)).

(* _directional_distance, one (point, facet) entry:
     orthogonal = -(p @ n) - b ;  result = -orthogonal / n_y                         *)
Definition ddist (f : facet) (p : list Q) : Q :=
  (- (- (qdot p (fnormal f)) - foffset f) / f_ny f)%Q.

(* _directional_convex_hull_distance for one point.  [keep tol d] says which facet
   distances survive the masking in the "below" branch:
     code as found:   negative[all > 0] = -inf        keep = (d <= 0)
     repaired (F15):  negative[all >= -tol] = -inf    keep = (d < -tol)
   (max over an all-masked row would be -inf; the model returns None there, which cannot
   happen for the repaired mask because the row is "below" only if some d < -tol). *)
Definition hull_distance_with (keep : Q -> Q -> bool) (tol : Q) (lf : list facet)
                              (p : list Q) : option Q :=
  let all := map (fun f => ddist f p) lf in
  let below := existsb (fun d => Qltb d (- tol)%Q) all in
  if below then qmax_list (filter (keep tol) all) else qmin_list all.

Definition keep_fixed (tol d : Q) : bool := Qltb d (- tol)%Q.
Definition keep_found (tol d : Q) : bool := Qle_bool d 0.
Definition hull_distance := hull_distance_with keep_fixed.
Definition hull_distance_found := hull_distance_with keep_found.

(* hull-space point of a sample: np.hstack((y, X[:, low_dim_idx])) *)
Definition select {A} (d : A) (idx : list nat) (x : list A) : list A :=
  map (fun j => nth j x d) idx.
Definition hull_point (low : list nat) (x : list Q) (y : Q) : list Q :=
  y :: select 0%Q low x.

(* score_samples(X, y) *)
Definition score_samples_with (keep : Q -> Q -> bool) (tol : Q) (lf : list facet) (low : list nat)
                         (X : list (list Q)) (y : list Q) : list (option Q) :=
  map2 (fun x yy => hull_distance_with keep tol lf (hull_point low x yy)) X y.
Definition score_samples := score_samples_with keep_fixed.

(* score_feature_matrix(X): residual to the interpolant (an oracle [interp] from the
   low-dimensional position to the interpolated high-dimensional features) *)
Definition score_feature_matrix (interp : list Q -> list Q) (low high : list nat)
                                (X : list (list Q)) : list (list Q) :=
  map (fun x => map2 Qminus (select 0%Q high x) (interp (select 0%Q low x))) X.

(* ---- quantities the theorems talk about ---------------------------------------- *)
Definition gval (f : facet) (p : list Q) : Q := (qdot p (fnormal f) + foffset f)%Q.   (* n.p + b *)
(* height of the facet's plane over the low-dimensional position x *)
Definition plane (f : facet) (x : list Q) : Q :=
  (- (qdot x (tl (fnormal f)) + foffset f) / f_ny f)%Q.
(* the piecewise-linear surface  max_f plane_f(x)  over the lower facets *)
Definition surface (lf : list facet) (x : list Q) : option Q :=
  qmax_list (map (fun f => plane f x) lf).

(* oracle contract (validated numerically on every run, not proved of qhull) *)
Definition wf_dim (d : nat) (fs : list facet) (P : list (list Q)) : Prop :=
  (forall f, In f fs -> length (fnormal f) = S d) /\ (forall p, In p P -> length p = S d).
Definition contract_h1 (fs : list facet) (P : list (list Q)) : Prop :=
  forall f p, In f fs -> In p P -> (gval f p <= 0)%Q.
Definition contract_h2 (fs : list facet) (P : list (list Q)) : Prop :=
  forall f v, In f (lower_facets fs) -> In v (fverts f) ->
    (v < length P)%nat /\ (gval f (nth v P []) == 0)%Q.
(* position x (length d) is a convex combination of the projected vertices of facet f *)
Definition covers (d : nat) (P : list (list Q)) (f : facet) (lam : list Q) (x : list Q) : Prop :=
  length lam = length (fverts f) /\ (forall l, In l lam -> (0 <= l)%Q) /\ (qsum lam == 1)%Q /\
  forall c, (c < d)%nat ->
    (qdot lam (map (fun v => nth (S c) (nth v P []) 0%Q) (fverts f)) == nth c x 0%Q)%Q.
Definition in_footprint (d : nat) (fs : list facet) (P : list (list Q)) (x : list Q) : Prop :=
  exists f lam, In f (lower_facets fs) /\ covers d P f lam x.
Definition contract_h3 (d : nat) (fs : list facet) (P : list (list Q)) : Prop :=
  forall p, In p P -> in_footprint d fs P (tl p).
(* general position w.r.t. the hull: a sample on a lower facet's plane is one of its vertices *)
Definition contract_gp (fs : list facet) (P : list (list Q)) : Prop :=
  forall f i, In f (lower_facets fs) -> (i < length P)%nat ->
    (gval f (nth i P []) == 0)%Q -> In i (fverts f).

(* a convex combination of the samples P (weights w, one per sample) whose position
   (coordinates 1..d) is x; [combo_target] is its target (coordinate 0) *)
Definition qcol (P : list (list Q)) (c : nat) : list Q := map (fun p => nth c p 0%Q) P.
Definition is_combo (d : nat) (P : list (list Q)) (w : list Q) (x : list Q) : Prop :=
  length w = length P /\ (forall l, In l w -> (0 <= l)%Q) /\ (qsum w == 1)%Q /\
  forall c, (c < d)%nat -> (qdot w (qcol P (S c)) == nth c x 0%Q)%Q.
Definition combo_target (P : list (list Q)) (w : list Q) : Q := qdot w (qcol P 0).

(* y -> a*y + c on the target: what the hull's facets become (up to positive scaling) *)
Definition taffine (a c : Q) (f : facet) : facet :=
  mkFacet ((f_ny f / a)%Q :: tl (fnormal f)) (foffset f - f_ny f * c / a)%Q (fverts f).
Definition fscale (k : Q) (f : facet) : facet :=
  mkFacet (map (Qmult k) (fnormal f)) (k * foffset f)%Q (fverts f).
Definition paffine (a c : Q) (p : list Q) : list Q := (a * hd 0%Q p + c)%Q :: tl p.
(* two optional distances, the second a times the first *)
Definition orel (a : Q) (o o' : option Q) : Prop :=
  match o, o' with
  | Some m, Some m' => (m' == a * m)%Q
  | None, None => True
  | _, _ => False
  end.

(* ================================================================ Part 2: specification over Z *)
(* points are rows  y :: x_1 .. x_d  of integers *)

(* "sample i is NOT a lower vertex": some convex combination of the OTHER samples, located
   at the same low-dimensional position, has a target <= y_i.  Rational weights w_j / W. *)
Definition below_combo (d : nat) (P : list (list Z)) (i : nat) : Prop :=
  exists (w : list Z) (W : Z),
    0 < W /\ length w = length P /\ (forall j, 0 <= nth j w 0) /\ nth i w 0 = 0 /\
    zsum w = W /\
    (forall c, (1 <= c <= d)%nat -> dot w (col P c) = W * nth c (nth i P []) 0) /\
    dot w (col P 0) <= W * nth 0 (nth i P []) 0.
Definition is_lower_vertex (d : nat) (P : list (list Z)) (i : nat) : Prop := ~ below_combo d P i.

(* strictly above the hull of P: some convex combination of P at the same position has a
   strictly smaller target *)
Definition strictly_above (d : nat) (P : list (list Z)) (q : list Z) : Prop :=
  exists (w : list Z) (W : Z),
    0 < W /\ length w = length P /\ (forall j, 0 <= nth j w 0) /\ zsum w = W /\
    (forall c, (1 <= c <= d)%nat -> dot w (col P c) = W * nth c q 0) /\
    dot w (col P 0) < W * nth 0 q 0.

(* y -> a*y + c on the target *)
Definition zaffine (a c : Z) (P : list (list Z)) : list (list Z) :=
  map (fun p => (a * nth 0 p 0 + c) :: tl p) P.

(* ---- executable simplex form ---------------------------------------------------- *)
Fixpoint subsets {A} (k : nat) (l : list A) : list (list A) :=
  match k, l with
  | O, _ => [[]]
  | S _, [] => []
  | S k', a :: t => map (cons a) (subsets k' t) ++ subsets k t
  end.

Definition drop_col (j : nat) (r : list Z) : list Z := firstn j r ++ skipn (S j) r.
(* Laplace expansion along the first row; [n] = number of rows (fuel) *)
Fixpoint alt_sum (sgn : Z) (l : list Z) : Z :=
  match l with [] => 0 | a :: t => sgn * a + alt_sum (- sgn) t end.
Fixpoint detn (n : nat) (M : list (list Z)) : Z :=
  match n, M with
  | S n', r :: rows =>
      alt_sum 1 (map (fun j => nth j r 0 * detn n' (map (drop_col j) rows)) (seq 0 (length r)))
  | _, _ => 1
  end.
Definition det (M : list (list Z)) : Z := detn (length M) M.

Definition hrow (p : list Z) : list Z := 1 :: tl p.                  (* (1, x) *)
(* D = det [1 x_v]_v  and the Cramer numerators D_k (row k replaced by (1, x_q)) *)
Definition simplex_D (S : list (list Z)) : Z := det (map hrow S).
Definition simplex_Dk (S : list (list Z)) (q : list Z) : list Z :=
  map (fun k => det (upd_nth k (hrow q) (map hrow S))) (seq 0 (length S)).
Fixpoint all_nonneg_scaled (D : Z) (l : list Z) : bool :=
  match l with [] => true | a :: t => if 0 <=? a * D then all_nonneg_scaled D t else false end.
(* the projected simplex is non-degenerate, contains x_q, and interpolates a target <= y_q *)
Definition simplex_witness (S : list (list Z)) (q : list Z) : bool :=
  let D := simplex_D S in
  if D =? 0 then false else
  let Dk := simplex_Dk S q in
  if all_nonneg_scaled D Dk
  then (dot Dk (map (fun p => nth 0 p 0) S) - nth 0 q 0 * D) * D <=? 0
  else false.
Fixpoint exists_lazy {A} (f : A -> bool) (l : list A) : bool :=
  match l with [] => false | a :: t => if f a then true else exists_lazy f t end.
Fixpoint remove_nth {A} (i : nat) (l : list A) : list A :=
  match l, i with
  | [], _ => []
  | _ :: t, O => t
  | a :: t, S i' => a :: remove_nth i' t
  end.
(* some d+1 OTHER samples (ids js) form such a simplex *)
Definition not_lower_b (d : nat) (P : list (list Z)) (i : nat) : bool :=
  exists_lazy (fun js => simplex_witness (map (fun j => nth j P []) js) (nth i P []))
              (subsets (S d) (remove_nth i (seq 0 (length P)))).
Definition lower_vertex_b (d : nat) (P : list (list Z)) (i : nat) : bool := negb (not_lower_b d P i).
Definition lower_vertices (d : nat) (P : list (list Z)) : list nat :=
  filter (lower_vertex_b d P) (seq 0 (length P)).

(* ---- one hull dimension: monotone chain on points (x, y) sorted by x ------------- *)
Definition cross (a b c : Z * Z) : Z :=
  (fst b - fst a) * (snd c - snd a) - (snd b - snd a) * (fst c - fst a).
(* [st] is the chain so far, last point first *)
Fixpoint pop (st : list (Z * Z)) (p : Z * Z) : list (Z * Z) :=
  match st with
  | s1 :: ((s2 :: _) as st') => if cross s2 s1 p <=? 0 then pop st' p else st
  | _ => st
  end.
Definition push (st : list (Z * Z)) (p : Z * Z) : list (Z * Z) := p :: pop st p.
Definition chain (pts : list (Z * Z)) : list (Z * Z) := rev (fold_left push pts []).

Definition pt := (Z * Z)%type.
Definition xlt (a b : pt) : Prop := fst a < fst b.
(* 1-D specification: q lies on or above a segment between two other points that straddle it *)
Definition not_lower_1d (pts : list pt) (q : pt) : Prop :=
  exists a b, In a pts /\ In b pts /\ fst a < fst q /\ fst q < fst b /\ 0 <= cross a b q.
(* ... and its brute-force decision procedure *)
Definition not_lower_1d_b (pts : list (Z * Z)) (q : Z * Z) : bool :=
  existsb (fun a => existsb (fun b =>
     (fst a <? fst q) && (fst q <? fst b) && (0 <=? cross a b q)) pts) pts.
Definition lower_1d_b (pts : list (Z * Z)) (q : Z * Z) : bool := negb (not_lower_1d_b pts q).
Fixpoint sorted_x (pts : list (Z * Z)) : bool :=
  match pts with
  | a :: ((b :: _) as t) => (fst a <? fst b) && sorted_x t
  | _ => true
  end.

(* ================================================================ Part 3: verdicts *)
Definition zq (l : list Z) : list Q := map inject_Z l.
Definition zqm (M : list (list Z)) : list (list Q) := map zq M.

(* hull-space integer points from X, y and low_dim_idx *)
Definition hull_points_Z (low : list nat) (X : list (list Z)) (y : list Z) : list (list Z) :=
  map2 (fun x yy => yy :: select 0 low x) X y.

Definition qclose (rtol atol a b : Q) : bool :=
  Qle_bool (Qabs (a - b)) (atol + rtol * Qabs b).
Definition oqclose (rtol atol : Q) (a : option Q) (b : Q) : bool :=
  match a with Some x => qclose rtol atol x b | None => false end.
Fixpoint all2 {A B} (f : A -> B -> bool) (l : list A) (m : list B) : bool :=
  match l, m with
  | [], [] => true
  | a :: l', b :: m' => if f a b then all2 f l' m' else false
  | _, _ => false
  end.

(* (M) the model's selection from the observed facets equals selected_idx_ *)
Definition sel_model_ok (fs : list facet) (sel : list nat) : bool := nl_eqb (selected fs) sel.
(* (S) the specification's lower vertices equal selected_idx_ *)
Definition sel_spec_ok (low : list nat) (X : list (list Z)) (y : list Z) (sel : list nat) : bool :=
  nl_eqb (lower_vertices (length low) (hull_points_Z low X y)) sel.
(* (D) score_samples of the model on the observed facets vs. the implementation's output *)
(* one verdict per point, preceded by a shape check *)
Definition dist_oks_with (keep : Q -> Q -> bool) (rtol atol tol : Q) (fs : list facet)
                   (low : list nat) (X : list (list Q)) (y : list Q) (obs : list Q) : list bool :=
  (Nat.eqb (length X) (length obs) && Nat.eqb (length y) (length obs))
  :: map2 (oqclose rtol atol) (score_samples_with keep tol (lower_facets fs) low X y) obs.
Definition dist_oks := dist_oks_with keep_fixed.
(* informational: the masking as found in the code (see Findings/F15) *)
Definition dist_found_oks := dist_oks_with keep_found.

(* (C) one hull dimension, any n: [perm] lists the samples by increasing x; the chain's
   vertices (as sample ids, sorted) equal selected_idx_ *)
Definition pt1 (p : list Z) : Z * Z := (nth 1 p 0, nth 0 p 0).
Definition chain_ids (P : list (list Z)) (perm : list nat) : list nat :=
  let pts := map (fun j => pt1 (nth j P [])) perm in
  let ch := chain pts in
  sort_nat (map fst (filter (fun jp => existsb (fun h => (fst h =? fst (snd jp)) && (snd h =? snd (snd jp))) ch)
                            (combine perm pts))).
Definition chain_case_ok (low : list nat) (X : list (list Z)) (y : list Z)
                         (perm sel : list nat) : bool :=
  let P := hull_points_Z low X y in
  nl_eqb (sort_nat perm) (seq 0 (length P)) &&
  sorted_x (map (fun j => pt1 (nth j P [])) perm) &&
  nl_eqb (chain_ids P perm) sel.
