(* Model of OrthogonalRegression (src/skmatter/linear_model/_base.py), layer A.

   Padded mode (use_orthogonal_projector=False): X, y are zero-padded to M = max(p, t)
   columns (A, B); scipy's orthogonal_procrustes(A, B) is  u, w, vt = svd(A^T B); R = u vt.
   coef_ = R^T, predict(Xnew) = pad(Xnew) R.
   Projector mode: C = linear_estimator.coef_^T (p x t, an oracle input), Uc, Vc = thin SVD
   factors of C (r = min(p, t)), R0 = orthogonal_procrustes(X Uc, y Vc), coef_ = (Uc R0 Vc^T)^T,
   predict(Xnew) = Xnew Uc R0 Vc^T.
   All SVD results are oracle variables.  The matrix programs below are run on binary64 here
   ([MExp.eval_f]) and interpreted over any real closed field in Proofs/OrthRegP.v
   ([MExpMx.eval_mx]).  Definitions only.  Stdlib style. *)
From Coq Require Import ZArith List Bool Arith PrimFloat.
From Verif Require Import MExp Ridge2Fold.
Import ListNotations.

(* ---- variables ------------------------------------------------------------------- *)
Definition oA := 0%nat.   Definition oB := 1%nat.            (* padded X, padded y   (n x M) *)
Definition oUp := 2%nat.  Definition oSp := 3%nat.  Definition oVp := 4%nat.   (* svd(A^T B) *)
Definition oW := 5%nat.                                     (* some M x M map (competitor / observed) *)
Definition oXn := 6%nat.                                    (* new X (padded in padded mode) *)
Definition oX := 7%nat.   Definition oY := 8%nat.            (* X (n x p), y (n x t) *)
Definition oUc := 9%nat.  Definition oSc := 10%nat. Definition oVc := 11%nat.  (* svd(C), thin *)
Definition oUi := 12%nat. Definition oSi := 13%nat. Definition oVi := 14%nat.  (* svd((X Uc)^T (y Vc)) *)
Definition oC := 15%nat.                                    (* linear coefficients, p x t *)
Definition oW0 := 16%nat.                                   (* some r x r map (competitor) *)
Definition oWp := 17%nat.                                   (* some p x t map (observed coef_^T) *)

(* ---- programs ---------------------------------------------------------------------- *)
(* A^T B *)
Definition cross_prog (n q : nat) (a b : mexp n q) : mexp q q := MMul (MTr a) b.
(* R = U V^T *)
Definition rot_prog (q : nat) (xU xV : nat) : mexp q q :=
  MMul (MVar (m:=q) (n:=q) xU) (MTr (MVar (m:=q) (n:=q) xV)).
(* |B - A W|_F^2 *)
Definition resid_prog (n p t : nat) (a : mexp n p) (b : mexp n t) (w : mexp p t) : mexp 1 1 :=
  let D := MSub b (MMul a w) in MTrace (MMul (MTr D) D).
(* |A|_F^2 *)
Definition fn2_prog (n p : nat) (a : mexp n p) : mexp 1 1 := MTrace (MMul (MTr a) a).
(* T - U diag(s) V^T *)
Definition recon_of (q : nat) (T : mexp q q) (xU xS xV : nat) : mexp q q :=
  MSub T (MMul (MMul (MVar (m:=q) (n:=q) xU) (MDiag (MVar (m:=q) (n:=1) xS))) (MTr (MVar (m:=q) (n:=q) xV))).
(* W^T W - I *)
Definition orth_of (p q : nat) (w : mexp p q) : mexp q q := MSub (MMul (MTr w) w) (MId q).

(* padded mode *)
Definition pA (n q : nat) : mexp n q := MVar (m:=n) (n:=q) oA.
Definition pB (n q : nat) : mexp n q := MVar (m:=n) (n:=q) oB.
Definition pad_R (q : nat) : mexp q q := rot_prog q oUp oVp.
Definition pad_coef (q : nat) : mexp q q := MTr (pad_R q).
Definition pad_predict (nn q : nat) : mexp nn q := MMul (MVar (m:=nn) (n:=q) oXn) (MTr (pad_coef q)).

(* projector mode *)
Definition jA (n p r : nat) : mexp n r := MMul (MVar (m:=n) (n:=p) oX) (MVar (m:=p) (n:=r) oUc).
Definition jB (n t r : nat) : mexp n r := MMul (MVar (m:=n) (n:=t) oY) (MVar (m:=t) (n:=r) oVc).
Definition proj_of (p t r : nat) (w0 : mexp r r) : mexp p t :=
  MMul (MMul (MVar (m:=p) (n:=r) oUc) w0) (MTr (MVar (m:=t) (n:=r) oVc)).
Definition proj_W (p t r : nat) : mexp p t := proj_of p t r (rot_prog r oUi oVi).
Definition proj_coef (p t r : nat) : mexp t p := MTr (proj_W p t r).
Definition proj_predict (nn p t r : nat) : mexp nn t := MMul (MVar (m:=nn) (n:=p) oXn) (MTr (proj_coef p t r)).

(* ---- binary64 run -------------------------------------------------------------------- *)
Open Scope float_scope.

(* np.pad(X, [(0, 0), (0, q - X.shape[1])]) *)
Definition fpad (q : nat) (A : fmat) : fmat := map (fun r => r ++ repeat 0 (q - length r)) A.
Definition fblock (rows cols : nat) (A : fmat) : fmat := map (firstn cols) (firstn rows A).
Definition f11 (A : fmat) : float := fget A 0 0.
Definition le_tol (rtol atol a b : float) : bool := leb a (b + rtol * abs b + atol).   (* a <= b up to tol *)

Definition envl (l : list fmat) : nat -> fmat := fun x => nth x l [].

(* hint check for an SVD of the q x q matrix T (square factors) *)
Definition sq_hint_ok (env : nat -> fmat) (eps : float) (q : nat) (T : mexp q q) (xU xS xV : nat)
    (s : list float) : bool :=
  (leb (fmaxabs (eval_f env (orth_of q q (MVar (m:=q) (n:=q) xU)))) eps
   && leb (fmaxabs (eval_f env (orth_of q q (MVar (m:=q) (n:=q) xV)))) eps
   && leb (fmaxabs (eval_f env (recon_of q T xU xS xV))) (eps * (1 + lmax fops s))
   && nonneg fops s)%bool.

Record svdh := mk_svdh { gU : fmat; gS : list float; gV : fmat }.

(* --- padded mode.  Components:
   [hints; max_components_; coef_ (full, gated); coef_[:t,:p] block (gated); residual of the
    implementation's map = residual of the model's map; implementation's coef_ orthogonal;
    no competitor beats the implementation's map; predict (gated); predict = pad(Xnew) coef_^T] *)
Definition pad_case_ok (X Y Xn : fmat) (h : svdh) (comps : list fmat)
    (obs_q : nat) (obs_coef obs_pred : fmat) (rtol atol : float) (gfull gblock : bool) : list bool :=
  let n := length X in let p := ncols X in let t := ncols Y in
  let q := Nat.max p t in
  let A := fpad q X in let B := fpad q Y in let Xnp := fpad q Xn in
  let env := envl [A; B; gU h; colv (gS h); gV h; ftr q obs_coef; Xnp] in   (* oW := observed coef_^T *)
  let Rm := eval_f env (pad_R q) in
  let coef_m := eval_f env (pad_coef q) in
  let pred_m := eval_f env (pad_predict (length Xn) q) in
  let res_m := f11 (eval_f env (resid_prog n q q (pA n q) (pB n q) (pad_R q))) in
  let res_i := f11 (eval_f env (resid_prog n q q (pA n q) (pB n q) (MVar (m:=q) (n:=q) oW))) in
  let scale := f11 (eval_f env (fn2_prog n q (pA n q))) + f11 (eval_f env (fn2_prog n q (pB n q))) in
  [ sq_hint_ok env 0x1p-36 q (cross_prog n q (pA n q) (pB n q)) oUp oSp oVp (gS h);
    Nat.eqb obs_q q;
    negb gfull || fclose rtol atol coef_m obs_coef;
    negb gblock || fclose rtol atol (fblock t p coef_m) (fblock t p obs_coef);
    le_tol rtol (rtol * scale) res_i res_m && le_tol rtol (rtol * scale) res_m res_i;
    leb (fmaxabs (eval_f env (orth_of q q (MVar (m:=q) (n:=q) oW)))) 0x1p-30;
    forallb (fun Om =>
      let e := fenv_set env oW Om in
      leb (fmaxabs (eval_f e (orth_of q q (MVar (m:=q) (n:=q) oW)))) 0x1p-30
      && le_tol rtol (rtol * scale) res_i
           (f11 (eval_f e (resid_prog n q q (pA n q) (pB n q) (MVar (m:=q) (n:=q) oW))))) comps;
    negb gblock || (if gfull then fclose rtol atol pred_m obs_pred
                    else fclose rtol atol (map (firstn t) pred_m) (map (firstn t) obs_pred));
    fclose rtol atol (fmul q Xnp (ftr q obs_coef)) obs_pred ]%bool.

(* --- projector mode.  C = observed linear coefficients (p x t).  Components:
   [hints (Uc, Vc orthonormal, C = Uc diag Vc^T; inner SVD); coef_ (gated);
    implementation's map is a partial isometry (W W^T W = W); predict(Xnew) not longer than Xnew
    (row-wise); no competitor Uc Omega0 Vc^T has a smaller training residual; predict (gated);
    predict = Xnew coef_^T] *)
Definition rownorm2 (A : fmat) : list float := map (fun r => fdot r r) A.
Fixpoint all2 (f : float -> float -> bool) (a b : list float) : bool :=
  match a, b with
  | x :: a', y :: b' => (f x y && all2 f a' b')%bool
  | [], [] => true
  | _, _ => false
  end.

Definition proj_case_ok (X Y Xn C : fmat) (hc hi : svdh) (comps : list fmat)
    (obs_coef obs_pred : fmat) (rtol atol : float) (gcoef : bool) : list bool :=
  let n := length X in let p := ncols X in let t := ncols Y in
  let r := length (gS hc) in
  let Wi := ftr p obs_coef in                                   (* observed coef_^T, p x t *)
  let env := envl [[]; []; []; []; []; []; Xn; X; Y; gU hc; colv (gS hc); gV hc;
                   gU hi; colv (gS hi); gV hi; C; []; Wi] in
  let coef_m := eval_f env (proj_coef p t r) in
  let pred_m := eval_f env (proj_predict (length Xn) p t r) in
  let vX := MVar (m:=n) (n:=p) oX in let vY := MVar (m:=n) (n:=t) oY in
  let vWp := MVar (m:=p) (n:=t) oWp in
  let res_i := f11 (eval_f env (resid_prog n p t vX vY vWp)) in
  let scale := f11 (eval_f env (fn2_prog n p vX)) + f11 (eval_f env (fn2_prog n t vY)) in
  [ (Nat.eqb r (Nat.min p t)
     && leb (fmaxabs (eval_f env (orth_of p r (MVar (m:=p) (n:=r) oUc)))) 0x1p-36
     && leb (fmaxabs (eval_f env (orth_of t r (MVar (m:=t) (n:=r) oVc)))) 0x1p-36
     && leb (fmaxabs (eval_f env (MSub (MVar (m:=p) (n:=t) oC)
                        (MMul (MMul (MVar (m:=p) (n:=r) oUc) (MDiag (MVar (m:=r) (n:=1) oSc)))
                              (MTr (MVar (m:=t) (n:=r) oVc))))))
            (0x1p-36 * (1 + lmax fops (gS hc)))
     && sq_hint_ok env 0x1p-36 r (cross_prog n r (jA n p r) (jB n t r)) oUi oSi oVi (gS hi));
    negb gcoef || fclose rtol atol coef_m obs_coef;
    fclose 0x1p-30 0x1p-40 (eval_f env (MMul (MMul vWp (MTr vWp)) vWp)) Wi;
    all2 (fun a b => le_tol 0x1p-30 0x1p-60 a b) (rownorm2 obs_pred) (rownorm2 Xn);
    forallb (fun Om =>
      let e := fenv_set env oW0 Om in
      leb (fmaxabs (eval_f e (orth_of r r (MVar (m:=r) (n:=r) oW0)))) 0x1p-30
      && le_tol rtol (rtol * scale) res_i
           (f11 (eval_f e (resid_prog n p t vX vY (proj_of p t r (MVar (m:=r) (n:=r) oW0)))))) comps;
    negb gcoef || fclose rtol atol pred_m obs_pred;
    fclose rtol atol (fmul t Xn Wi) obs_pred ]%bool.
