(* Layer-D model of the CONTROL FLOW and SHAPE BOOK-KEEPING of skmatter.decomposition.PCovR.fit
   (src/skmatter/decomposition/_pcovr.py: fit, _fit_feature_space, _fit_sample_space,
   _decompose_full, _decompose_truncated, predict, transform, inverse_transform), statement by
   statement.  Definitions only.  The numerical content of the same routines is the layer-A
   model Model/PCovR.v; this file adds what that model takes for granted:

     - which configurations fit() accepts and which ValueError it raises, in the order the code
       tests them (space, regressor type, svd_solver dispatch, the n_components guards of
       _decompose_full / _decompose_truncated);
     - n_components = None, svd_solver = 'auto', space = 'auto' / None resolution;
     - the shapes of every array fit() forms (numpy reshape(r, -1), reshape(shape), .T, @,
       multi_dot, slicing [:k], diagflat) for a 1-D and a 2-D target, for every way the
       regression weights arrive, and the shapes returned by the public methods.

   Not modelled (answer [Unmodelled]): n_components = 'mle' after its guard and a float
   n_components in (0, 1) - both depend on the spectrum.                                      *)
From Coq Require Import ZArith QArith List Bool.
Import ListNotations.
Local Open Scope Z_scope.

(* ---- configuration -------------------------------------------------------------------- *)
Inductive ncomp := NCNone | NCInt (z : Z) | NCFloat (q : Q) | NCMle.
Inductive solver := SvAuto | SvFull | SvArpack | SvRandomized | SvOther.
Inductive spacep := SpNone | SpAuto | SpFeature | SpSample | SpOther.
(* regressor parameter: None, 'precomputed', LinearRegression, Ridge, RidgeCV, anything else *)
Inductive regk := RgNone | RgPrecomputed | RgLinear | RgRidge | RgRidgeCV | RgOther.

(* the ValueErrors of fit, by message *)
Inductive err :=
| ErrSpace          (* "Only feature and sample space are supported." *)
| ErrRegressor      (* "Regressor must be an instance of ..." *)
| ErrSolver         (* "Unrecognized svd_solver=..." *)
| ErrNCompRange     (* "n_components=%r must be between 1 and min(n_samples, n_features)=..." *)
| ErrNCompType      (* "n_components=%r must be of type int when greater than or equal to 1" *)
| ErrArpackAll      (* "n_components=%r must be strictly less than min(n_samples, n_features)" *)
| ErrMleWide        (* "n_components='mle' is only supported if n_samples >= n_features" *)
| ErrReshape.       (* numpy: cannot reshape array of size .. into shape .. / matmul mismatch *)

Inductive outcome (A : Type) := Ok (a : A) | Err (e : err) | Unmodelled.
Arguments Ok {A}. Arguments Err {A}. Arguments Unmodelled {A}.

Definition obind {A B} (x : outcome A) (f : A -> outcome B) : outcome B :=
  match x with Ok a => f a | Err e => Err e | Unmodelled => Unmodelled end.

(* ---- control flow ----------------------------------------------------------------------- *)
Definition mn (n m : nat) : Z := Z.of_nat (Nat.min n m).          (* min(X.shape) *)

(* self.n_components_ after "Handle self.n_components==None" *)
Inductive ncv := VInt (z : Z) | VFloat (q : Q) | VMle.
Definition resolve_nc (n m : nat) (sv : solver) (nc : ncomp) : ncv :=
  match nc with
  | NCNone => VInt (match sv with SvArpack => mn n m - 1 | _ => mn n m end)
  | NCInt z => VInt z
  | NCFloat q => VFloat q
  | NCMle => VMle
  end.

Definition Qltb (x y : Q) : bool := negb (Qle_bool y x).

(* "Handle svd_solver": fit_svd_solver_ *)
Definition fit_solver (n m : nat) (sv : solver) (v : ncv) : solver :=
  match sv with
  | SvAuto =>
      if (Nat.max n m <=? 500)%nat then SvFull else
      match v with
      | VMle => SvFull
      | VInt z => if (1 <=? z) && (5 * z <? 4 * mn n m) then SvRandomized else SvFull
      | VFloat q => if Qle_bool 1 q && Qltb (5 * q) (inject_Z (4 * mn n m))
                    then SvRandomized else SvFull
      end
  | s => s
  end.

(* space_: true = sample space.  None / 'auto': feature iff n_samples > n_features *)
Definition fit_space (n m : nat) (sp : spacep) : bool :=
  match sp with
  | SpFeature => false
  | SpSample => true
  | _ => negb (m <? n)%nat
  end.

(* _decompose_full: the guard, then (for an int) the number of components kept *)
Definition guard_full (n m : nat) (v : ncv) : outcome nat :=
  match v with
  | VMle => if (n <? m)%nat then Err ErrMleWide else Unmodelled
  | VInt z => if negb ((0 <=? z) && (z <=? mn n m)) then Err ErrNCompRange
              else Ok (Z.to_nat z)
  | VFloat q => if negb (Qle_bool 0 q && Qle_bool q (inject_Z (mn n m))) then Err ErrNCompRange
                else if Qle_bool 1 q then Err ErrNCompType
                else Unmodelled
  end.

(* _decompose_truncated: [sv0] is self.svd_solver (NOT fit_svd_solver_) as in the code *)
Definition guard_trunc (n m : nat) (sv0 : solver) (v : ncv) : outcome nat :=
  match v with
  | VMle => Unmodelled
  | VInt z => if negb ((1 <=? z) && (z <=? mn n m)) then Err ErrNCompRange
              else if (match sv0 with SvArpack => true | _ => false end) && (z =? mn n m)
                   then Err ErrArpackAll
              else Ok (Z.to_nat z)
  | VFloat q => if negb (Qle_bool 1 q && Qle_bool q (inject_Z (mn n m))) then Err ErrNCompRange
                else Err ErrNCompType
  end.

Record ctrl := mk_ctrl { c_k : nat; c_solver : solver; c_sample : bool }.

Definition fit_ctrl (n m : nat) (nc : ncomp) (sv : solver) (sp : spacep) (rg : regk)
  : outcome ctrl :=
  match sp with
  | SpOther => Err ErrSpace
  | _ =>
    match rg with
    | RgOther => Err ErrRegressor
    | _ =>
      let v := resolve_nc n m sv nc in
      let fs := fit_solver n m sv v in
      let smp := fit_space n m sp in
      match fs with
      | SvFull => obind (guard_full n m v) (fun k => Ok (mk_ctrl k fs smp))
      | SvArpack | SvRandomized => obind (guard_trunc n m sv v) (fun k => Ok (mk_ctrl k fs smp))
      | _ => Err ErrSolver
      end
    end
  end.

(* ---- numpy shapes ----------------------------------------------------------------------- *)
Local Open Scope nat_scope.
Definition shape := list nat.
Definition size (s : shape) : nat := fold_right Nat.mul 1 s.

(* a.reshape(r, -1) *)
Definition reshape_r_m1 (s : shape) (r : nat) : option shape :=
  if r =? 0 then None
  else if (size s) mod r =? 0 then Some [r; size s / r] else None.
(* a.reshape(t) *)
Definition reshape_to (s t : shape) : option shape :=
  if size s =? size t then Some t else None.
(* a.T *)
Definition tr (s : shape) : shape := rev s.
(* a @ b for operands of dimension 1 or 2 *)
Definition matmul (a b : shape) : option shape :=
  match a, b with
  | [i; j], [j'; l] => if j =? j' then Some [i; l] else None
  | [i; j], [j'] => if j =? j' then Some [i] else None
  | [j], [j'; l] => if j =? j' then Some [l] else None
  | [j], [j'] => if j =? j' then Some [] else None
  | _, _ => None
  end.
(* a + b without broadcasting surprises: equal shapes *)
Definition addsh (a b : shape) : option shape :=
  if list_eq_dec Nat.eq_dec a b then Some a else None.

Definition sbind {A B} (x : option A) (f : A -> option B) : option B :=
  match x with Some a => f a | None => None end.
Notation "'do' x <- a ; b" := (sbind a (fun x => b)) (at level 200, x name, a at level 100, b at level 200).

(* np.linalg.multi_dot *)
Fixpoint multi_dot (a : shape) (l : list shape) : option shape :=
  match l with
  | [] => Some a
  | b :: l' => do ab <- matmul a b; multi_dot ab l'
  end.

(* the target as handed to fit *)
Inductive yform := Y1 | Y2 (p : nat).
Definition y_shape (n : nat) (y : yform) : shape :=
  match y with Y1 => [n] | Y2 p => [n; p] end.
Definition y_is_1d (y : yform) : bool := match y with Y1 => true | _ => false end.

(* how the regression weights arrive *)
Inductive wform :=
| WRegressor          (* regressor_.coef_.T ; sklearn: coef_ is (m,) for 1-D y, (p, m) for 2-D *)
| WLstsq              (* regressor = 'precomputed', W = None: np.linalg.lstsq(X, Yhat)[0] *)
| WGiven (s : shape). (* regressor = 'precomputed', W passed with this shape *)

Record fitted := mk_fitted {
  f_ctrl : ctrl;
  f_W : shape; f_Yhat : shape;
  f_pxt : shape; f_ptx : shape; f_pty : shape; f_pxy : shape; f_components : shape;
  f_singular_values : shape }.

Definition fit_shapes (n m : nat) (c : ctrl) (y : yform) (w : wform) : option fitted :=
  let k := c_k c in
  let X := [n; m] in
  let Ysh := y_shape n y in
  (* Yhat = regressor_.predict(X).reshape(n, -1)  |  Y.copy().reshape(n, -1): predict returns
     an array of y's shape *)
  do Yhat <- reshape_r_m1 Ysh n;
  do W <- match w with
          | WRegressor => reshape_r_m1 (tr (match y with Y1 => [m] | Y2 p => [p; m] end)) m
          | WLstsq => matmul [m; n] Yhat       (* shape of the least-squares solution *)
          | WGiven s => reshape_r_m1 s m
          end;
  (* Y.reshape(Yhat.shape) *)
  do Ym <- reshape_to Ysh Yhat;
  let d := if c_sample c then n else m in
  (* svd(mat, full_matrices=False) of the d x d matrix; U[:, :k], S[:k], Vt[:k] *)
  let kk := Nat.min k d in
  let Vt := [kk; d] in
  let Ssq := [kk; kk] in                       (* np.diagflat of a list of len(S) numbers *)
  do prj <-
    (if c_sample c then
       (* P = mixing * X.T + (1 - mixing) * W @ Yhat.T;  T = Vt.T @ S_sqrt_inv *)
       do WY <- matmul W (tr Yhat);
       do P <- addsh (tr X) WY;
       do T <- matmul (tr Vt) Ssq;
       do pxt <- matmul P T;
       do pty <- matmul (tr T) Ym;
       do ptx <- matmul (tr T) X;
       Some (pxt, ptx, pty)
     else
       let iC := [m; m] in
       do pxt <- multi_dot iC [tr Vt; Ssq];
       do ptx <- multi_dot Ssq [Vt; iC];
       do pty <- multi_dot Ssq [Vt; iC; tr X; Ym];
       Some (pxt, ptx, pty));
  let '(pxt, ptx, pty) := prj in
  do pxy <- matmul pxt pty;
  (* if len(Y.shape) == 1: pxy_.reshape(X.shape[1],), pty_.reshape(n_components_,) *)
  do pxy' <- (if y_is_1d y then reshape_to pxy [m] else Some pxy);
  do pty' <- (if y_is_1d y then reshape_to pty [k] else Some pty);
  Some (mk_fitted c W Yhat pxt ptx pty' pxy' (tr pxt) [kk]).

(* shapes returned by transform(Xq), inverse_transform(T), predict(Xq), predict(T=T) for q rows;
   sklearn's transform is X @ components_.T (minus the mean term of the same shape) *)
Definition method_shapes (m : nat) (f : fitted) (q : nat) : option (list shape) :=
  do T <- matmul [q; m] (tr (f_components f));
  do Xr <- matmul T (f_ptx f);
  do px <- matmul [q; m] (f_pxy f);
  do pt <- matmul T (f_pty f);
  Some [T; Xr; px; pt].

(* the two reshapes that fit performs BEFORE the solver / n_components guards are reached
   (lines "W = ....reshape(X.shape[1], -1)", "Yhat = ....reshape(X.shape[0], -1)") *)
Definition pre_shapes (n m : nat) (y : yform) (w : wform) : option (shape * shape) :=
  do Yhat <- reshape_r_m1 (y_shape n y) n;
  do W <- match w with
          | WRegressor => reshape_r_m1 (tr (match y with Y1 => [m] | Y2 p => [p; m] end)) m
          | WLstsq => matmul [m; n] Yhat
          | WGiven s => reshape_r_m1 s m
          end;
  Some (W, Yhat).

(* the whole of fit, in the order of the code: space check, regressor check, the regressor /
   precomputed block (reshapes), solver and space resolution, the guard of the decomposition,
   then the products *)
Definition fit_model (n m : nat) (nc : ncomp) (sv : solver) (sp : spacep) (rg : regk)
                     (y : yform) (w : wform) : outcome fitted :=
  match sp with
  | SpOther => Err ErrSpace
  | _ =>
    match rg with
    | RgOther => Err ErrRegressor
    | _ =>
      match pre_shapes n m y w with
      | None => Err ErrReshape
      | Some _ =>
        obind (fit_ctrl n m nc sv sp rg) (fun c =>
          match fit_shapes n m c y w with Some f => Ok f | None => Err ErrReshape end)
      end
    end
  end.

(* ---- correspondence: what the harness observed on the implementation --------------------- *)
Definition solver_eqb (a b : solver) : bool :=
  match a, b with
  | SvAuto, SvAuto | SvFull, SvFull | SvArpack, SvArpack | SvRandomized, SvRandomized
  | SvOther, SvOther => true
  | _, _ => false
  end.
Definition err_eqb (a b : err) : bool :=
  match a, b with
  | ErrSpace, ErrSpace | ErrRegressor, ErrRegressor | ErrSolver, ErrSolver
  | ErrNCompRange, ErrNCompRange | ErrNCompType, ErrNCompType | ErrArpackAll, ErrArpackAll
  | ErrMleWide, ErrMleWide | ErrReshape, ErrReshape => true
  | _, _ => false
  end.
Definition shape_eqb (a b : shape) : bool := if list_eq_dec Nat.eq_dec a b then true else false.
Definition ctrl_eqb (a b : ctrl) : bool :=
  (c_k a =? c_k b) && solver_eqb (c_solver a) (c_solver b) && Bool.eqb (c_sample a) (c_sample b).
(* W and Yhat are locals of fit, not observable through the public API: the comparison covers
   the public attributes only *)
Definition fitted_eqb (a b : fitted) : bool :=
  ctrl_eqb (f_ctrl a) (f_ctrl b)
  && shape_eqb (f_pxt a) (f_pxt b) && shape_eqb (f_ptx a) (f_ptx b)
  && shape_eqb (f_pty a) (f_pty b) && shape_eqb (f_pxy a) (f_pxy b)
  && shape_eqb (f_components a) (f_components b)
  && shape_eqb (f_singular_values a) (f_singular_values b).

(* one observed fit: configuration, what fit did, and (when it succeeded) the shapes the four
   public methods returned for q rows *)
Record fcase := mk_fcase {
  fc_n : nat; fc_m : nat; fc_nc : ncomp; fc_sv : solver; fc_sp : spacep; fc_rg : regk;
  fc_y : yform; fc_w : wform; fc_q : nat;
  fc_obs : outcome fitted;
  fc_methods : bool;               (* were the four methods called (not for n_components_ = 0) *)
  fc_obs_methods : list shape }.

(* true = the model reproduces the observation.  [Unmodelled] configurations are only required
   to have been accepted or rejected consistently with the guard: they never pass as agreement
   here, the harness does not generate them for this verdict. *)
Definition fcase_ok (c : fcase) : bool :=
  match fit_model (fc_n c) (fc_m c) (fc_nc c) (fc_sv c) (fc_sp c) (fc_rg c) (fc_y c) (fc_w c),
        fc_obs c with
  | Ok f, Ok g =>
      fitted_eqb f g && negb (fc_methods c) ||
      fitted_eqb f g &&
      match method_shapes (fc_m c) f (fc_q c) with
      | Some l => if list_eq_dec (list_eq_dec Nat.eq_dec) l (fc_obs_methods c) then true else false
      | None => false
      end
  | Err e, Err e' => err_eqb e e'
  | _, _ => false
  end.

Fixpoint failing_from (i : nat) (l : list bool) : list nat :=
  match l with
  | [] => []
  | b :: l' => if b then failing_from (S i) l' else i :: failing_from (S i) l'
  end.
