(* Fold choice of Ridge2FoldCV.fit for a SHUFFLED KFold (the default configuration: cv=None,
   shuffle=True): sklearn shuffles arange(n) with the random state (the resulting permutation
   [perm] is the only oracle input), takes the first h = ceil(n / k) entries as the test fold
   and returns boolean-mask selections, i.e. both index arrays in ASCENDING order:
     fold2_idx = sorted(perm[:h]),  fold1_idx = the other samples, ascending.
   Definitions only.  Stdlib style. *)
From Coq Require Import ZArith List Bool Arith PrimFloat.
From Verif Require Import MExp Ridge2Fold Ridge2FoldFit.
Import ListNotations.

Definition memb (i : nat) (l : list nat) : bool := existsb (Nat.eqb i) l.

Definition kfold_first_shuffled (n k : nat) (perm : list nat) : list nat * list nat :=
  let top := firstn (kfold_h n k) perm in
  (filter (fun i => negb (memb i top)) (seq 0 n), filter (fun i => memb i top) (seq 0 n)).

(* binary64 driver: as [r2f_fit_ok] with the folds computed from the permutation; component 7
   compares the model's split with sklearn's first yield *)
Definition r2f_fit_ok_shuffled (c : r2f_case) (k : nat) (perm : list nat) (scoring : option nat)
    (y1d : bool) (sk_first : list nat * list nat)
    (rtol atol_cv atol : float) (gcv : list bool) (gsel gcoef gpred : bool)
    (obs : r2f_out) (obs_sh : r2f_shapes) : list bool :=
  let sp := kfold_first_shuffled (length (cX c)) k perm in
  firstn 7 (r2f_fit_ok c (CvGiven [sp]) scoring y1d sk_first rtol atol_cv atol gcv gsel gcoef gpred obs obs_sh)
  ++ [split_eqb sp sk_first].
