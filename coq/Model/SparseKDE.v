(* C17, layer D — exact model of the discrete part of SparseKDE
   (src/skmatter/neighbors/_sparsekde.py):

     SparseKDE.__init__            weights = ones(n) if None;  weights /= sum(weights)
     _NearestGridAssigner.fit      zeroed counters / weights / empty member lists
     _NearestGridAssigner.predict  per descriptor: argmin of the metric row (first index),
                                   grid_npoints[l] += 1, grid_weight[l] += w[i],
                                   grid_neighbour[l].append(i)
     metric                        periodic_pairwise_euclidean_distances(.., squared=True):
                                   free space  |p - g|^2,
                                   with a cell |d - round(d / cell) * cell|^2, d = p - g,
                                   np.round = round-half-to-even.

   Positions are integers (the harness scales dyadic data by a power of two; every quantity
   here is homogeneous, lemma [label_scale] in Proofs/SparseKDEP.v), weights are rationals.
   Definitions only. *)
From Verif Require Import ListX.
From Coq Require Import QArith Qabs.
Open Scope Z_scope.

(* ---- the metric ------------------------------------------------------------------ *)
(* np.round(x / c) for c > 0: nearest integer, ties to even *)
Definition rhe (x c : Z) : Z :=
  let q := x / c in
  let r := x mod c in
  if 2 * r <? c then q
  else if c <? 2 * r then q + 1
  else if Z.even q then q else q + 1.

(* xy -= np.round(xy / cell) * cell   (one coordinate) *)
Definition wrap (c x : Z) : Z := x - rhe x c * c.

Definition cellT := option (list Z).       (* metric_params["cell_length"]; None = free space *)

(* the displacement the metric squares *)
Definition delta (cell : cellT) (p g : list Z) : list Z :=
  match cell with
  | None => vsub p g
  | Some c => map2 wrap c (vsub p g)
  end.

(* metric(p, g) with squared=True *)
Definition pdist (cell : cellT) (p g : list Z) : Z := sqn (delta cell p g).

(* descriptor2grid = metric(point.reshape(1,-1), grid_pos) *)
Definition drow (cell : cellT) (G : list (list Z)) (p : list Z) : list Z :=
  map (pdist cell p) G.

(* np.argmin(descriptor2grid); only used when G <> [] (see [predict]) *)
Definition label (cell : cellT) (G : list (list Z)) (p : list Z) : nat :=
  match amin (drow cell G p) with Some (j, _) => j | None => O end.

(* ---- constructor: weight normalisation ---------------------------------------------- *)
Definition qsum (l : list Q) : Q := fold_right Qplus 0%Q l.

(* self.weights = weights if weights is not None else np.ones(len(descriptors)) *)
Definition raw_weights (w : option (list Q)) (n : nat) : list Q :=
  match w with Some l => l | None => repeat 1%Q n end.

(* self.weights /= np.sum(self.weights) *)
Definition norm_weights (w : option (list Q)) (n : nat) : list Q :=
  let l := raw_weights w n in map (fun x => (x / qsum l)%Q) l.

(* ---- _NearestGridAssigner ---------------------------------------------------------------- *)
Record ast := mk_ast {
  labels  : list nat;          (* labels_                         *)
  npoints : list Z;            (* grid_npoints                    *)
  gweight : list Q;            (* grid_weight                     *)
  members : list (list nat)    (* grid_neighbour[j], in insertion order *)
}.

(* fit *)
Definition ast0 (ng : nat) : ast :=
  mk_ast [] (repeat 0 ng) (repeat 0%Q ng) (repeat [] ng).

(* one iteration of the loop in predict; i = len(labels_) is the enumerate index *)
Definition astep (cell : cellT) (G : list (list Z)) (sw : list Q) (s : ast) (p : list Z) : ast :=
  let i := length (labels s) in
  let l := label cell G p in
  mk_ast (labels s ++ [l])
         (upd_nth l (nth l (npoints s) 0 + 1) (npoints s))
         (upd_nth l (nth l (gweight s) 0%Q + nth i sw 0%Q)%Q (gweight s))
         (upd_nth l (nth l (members s) [] ++ [i]) (members s)).

(* predict(descriptors, sample_weight = sw).  np.argmin of an empty row raises: None. *)
Definition predict (cell : cellT) (G D : list (list Z)) (sw : list Q) : option ast :=
  match G, D with
  | [], _ :: _ => None
  | _, _ => Some (fold_left (astep cell G sw) D (ast0 (length G)))
  end.

(* SparseKDE._assign_descriptors_to_grids with the constructor's weights *)
Definition assign (cell : cellT) (G D : list (list Z)) (w : option (list Q)) : option ast :=
  predict cell G D (norm_weights w (length D)).

(* ---- shapes / transformations used by the statements -------------------------------------- *)
Definition dimsZ (d : nat) (X : list (list Z)) : Prop := Forall (fun r => length r = d) X.
Definition vaddZ (t u : list Z) : list Z := map2 Z.add u t.           (* u + t *)
Definition cell_pos (c : list Z) : Prop := Forall (fun x => 0 < x) c.
(* p' = p + m (.) c  for an integer vector m: p shifted by whole cells *)
Definition image_of (c p p' : list Z) : Prop :=
  exists m, length m = length p /\ p' = map2 Z.add p (map2 Z.mul m c).

(* ---- correspondence predicates (run by the harness with vm_compute) ------------------------- *)
Definition ql_eqb := list_eqb Qeq_bool.
Definition qclose (eps a b : Q) : bool := Qle_bool (Qabs (a - b)) eps.
Definition nm_eqb := list_eqb nl_eqb.

(* observed: normalised weights, labels, counts, grid weights, member lists.
   [exact] = the weight total is a power of two, so binary64 is exact and everything
   must agree with [=]; otherwise weights are compared to within [eps]. *)
Definition assign_case_ok (exact : bool) (eps : Q) (cell : cellT) (G D : list (list Z))
    (w : option (list Q)) (o_w : list Q) (o_lab : list nat) (o_np : list Z)
    (o_gw : list Q) (o_mem : list (list nat)) : bool :=
  match assign cell G D w with
  | None => false
  | Some s =>
      let weq := if exact then ql_eqb else list_eqb (qclose eps) in
      weq (norm_weights w (length D)) o_w &&
      nl_eqb (labels s) o_lab && zl_eqb (npoints s) o_np &&
      weq (gweight s) o_gw && nm_eqb (members s) o_mem
  end.
