(* Model of skmatter/metrics/_prediction_rigidities.py
     local_prediction_rigidity(X_train, X_test, alpha)            -> (LPR, rank_diff)
     componentwise_prediction_rigidity(X_train, X_test, alpha, comp_dims) -> (CPR, LCPR, rank_diff)

   Definitions only.  Two parts:
   * layer D (lists, polymorphic): np.cumsum([0]+lens), slicing by consecutive offsets, the
     component masks, and the encoding of "a list of structures" as (stacked rows, 0/1
     membership matrix);
   * layer A: every numeric routine is ONE [mexp] term (Base/MExp.v), run on binary64 by
     [eval_f] here and interpreted over an arbitrary real closed field by [eval_mx] in
     Proofs/RigidityP.v.

   np.linalg.pinv(Xprime) and np.linalg.matrix_rank(Xprime) are oracles: the variable
   [Xinv] (constrained by  Xprime * Xinv = I, residual evaluated by [hyp_prog]) and the list
   of singular values [sv] (thresholded as matrix_rank does). *)
From Coq Require Import ZArith List Bool PrimFloat.
From Verif Require Import MExp.
Import ListNotations.
Close Scope float_scope.
Open Scope nat_scope.

(* ------------------------------------------------------------------ layer D *)
Fixpoint lsum (l : list nat) : nat := match l with [] => 0 | x :: r => x + lsum r end.

(* np.cumsum([0] + lens) *)
Fixpoint cumsum_from (acc : nat) (l : list nat) : list nat :=
  match l with [] => [acc] | x :: r => acc :: cumsum_from (acc + x) r end.
Definition cumsum0 (l : list nat) : list nat := cumsum_from 0 l.

(* l[a:b] *)
Definition slice {A} (a b : nat) (l : list A) : list A := firstn (b - a) (skipn a l).

(* [ l[idx[i] : idx[i+1]]  for i in range(len(lens)) ]   with idx = cumsum([0]+lens) *)
Definition split_lens {A} (lens : list nat) (l : list A) : list (list A) :=
  let idx := cumsum0 lens in
  map (fun i => slice (nth i idx 0) (nth (S i) idx 0) l) (seq 0 (length lens)).

(* mask of component ci: (t >= comp_idxs[ci]) & (t < comp_idxs[ci+1]) for t in arange(sum(comp_dims)) *)
Definition comp_mask (comp_dims : list nat) (ci : nat) : list bool :=
  let idx := cumsum0 comp_dims in
  map (fun t => Nat.leb (nth ci idx 0) t && Nat.ltb t (nth (S ci) idx 0)) (seq 0 (lsum comp_dims)).

(* A list of structures with [lens] environments each is handed to the matrix programs as
   the stacked rows (np.vstack) plus the membership matrix: row s is 1 exactly on the rows
   that belong to structure s. *)
Fixpoint member_rows_from (before : nat) (lens : list nat) : list (list bool) :=
  match lens with
  | [] => []
  | l :: r => (repeat false before ++ repeat true l ++ repeat false (lsum r))
              :: member_rows_from (before + l) r
  end.
Definition member_rows (lens : list nat) : list (list bool) := member_rows_from 0 lens.

(* ------------------------------------------------------------------ layer A: programs *)
(* variables: 0 X_train stacked (N x d) | 1 membership train (S x N) | 2 X_test stacked (Nt x d)
              3 membership test (St x Nt) | 4 alpha (1x1) | 5 Xinv (d x d) | 6 component mask (1 x d) *)
Section Progs.
  Variables (d N S Nt St : nat).
  Definition vXtr : mexp N d := MVar 0.
  Definition vMtr : mexp S N := MVar 1.
  Definition vXte : mexp Nt d := MVar 2.
  Definition vMte : mexp St Nt := MVar 3.
  Definition vAlpha : mexp 1 1 := MVar 4.
  Definition vXinv : mexp d d := MVar 5.
  Definition vMask : mexp 1 d := MVar 6.
  Definition t0 : mexp 1 1 := MConst 0.          (* unused threshold argument of Frecip/Fsqrt *)

  (* number of rows as a scalar: 1^T 1 *)
  Definition cnt1 (n : nat) : mexp 1 1 := MMul (MOnes 1 n) (MOnes n 1).

  (* np.mean(X_atom**2, axis=0).sum() *)
  Definition sf2_prog : mexp 1 1 :=
    MMul (MScale (MMap Frecip t0 (cnt1 N)) (MMul (MOnes 1 N) (MHad vXtr vXtr))) (MOnes d 1).
  (* 1 / sfactor,  sfactor = np.sqrt(...) *)
  Definition isf_prog : mexp 1 1 := MMap Frecip t0 (MMap Fsqrt t0 sf2_prog).

  (* [np.mean(X_i / sfactor, axis=0) for X_i in structures] *)
  Definition means_prog {k n : nat} (M : mexp k n) (X : mexp n d) : mexp k d :=
    MMul (MDiag (MMap Frecip t0 (MMul M (MOnes n 1)))) (MMul M (MScale isf_prog X)).

  Definition xstruc_prog : mexp S d := means_prog vMtr vXtr.
  (* XX + alpha * np.eye(d) *)
  Definition xprime_prog : mexp d d :=
    MAdd (MMul (MTr xstruc_prog) xstruc_prog) (MScale vAlpha (MId d)).
  (* oracle hypothesis  Xprime * Xinv = I, as a residual *)
  Definition hyp_prog : mexp d d := MSub (MMul xprime_prog vXinv) (MId d).

  (* row-wise  z Xinv z^T  for every row z of Z *)
  Definition quad_prog {k : nat} (Z : mexp k d) : mexp k 1 :=
    MMul (MHad (MMul Z vXinv) Z) (MOnes d 1).
  (* np.multiply(row, mask) for every row *)
  Definition masked {k : nat} (Z : mexp k d) : mexp k d := MHad Z (MMul (MOnes k 1) vMask).

  Definition xtest_prog : mexp Nt d := MScale isf_prog vXte.         (* X_test[ai] / sfactor *)
  Definition lpr_prog : mexp Nt 1 := MMap Frecip t0 (quad_prog xtest_prog).
  Definition lcpr_prog : mexp Nt 1 := MMap Frecip t0 (quad_prog (masked xtest_prog)).
  Definition cpr_prog : mexp St 1 := MMap Frecip t0 (quad_prog (masked (means_prog vMte vXte))).
End Progs.

(* ------------------------------------------------------------------ binary64 driver *)
Open Scope float_scope.
Definition b2f (b : bool) : float := if b then 1 else 0.
Definition bmat_f (B : list (list bool)) : fmat := map (map b2f) B.
Definition col0 (A : fmat) : list float := map (fun r => nth 0 r 0) A.

Definition rig_env (Xtr Mtr Xte Mte : fmat) (alpha : float) (Xinv mask : fmat) (x : nat) : fmat :=
  match x with
  | 0%nat => Xtr | 1%nat => Mtr | 2%nat => Xte | 3%nat => Mte
  | 4%nat => [[alpha]] | 5%nat => Xinv | _ => mask
  end.

Record rig_in := { r_train : list fmat; r_test : list fmat; r_alpha : float; r_xinv : fmat }.

Section Driver.
  Variable inp : rig_in.
  Let Xtr := concat (r_train inp).                      (* np.vstack(X_train) *)
  Let Xte := concat (r_test inp).
  Let ltr := map (@length _) (r_train inp).
  Let lte := map (@length _) (r_test inp).
  Let d := length (hd [] Xtr).
  Let N := length Xtr.
  Let S := length ltr.
  Let Nt := length Xte.
  Let St := length lte.
  Definition rig_env_of (mask : list bool) : nat -> fmat :=
    rig_env Xtr (bmat_f (member_rows ltr)) Xte (bmat_f (member_rows lte)) (r_alpha inp)
            (r_xinv inp) [map b2f mask].

  Definition xprime_f : fmat := eval_f (rig_env_of []) (xprime_prog d N S).
  Definition hyp_resid_f : float := fmaxabs (eval_f (rig_env_of []) (hyp_prog d N S)).
  Definition sfactor2_f : float := fget (eval_f (rig_env_of []) (sf2_prog d N)) 0 0.

  (* LPR: one list per test structure *)
  Definition lpr_model : list (list float) :=
    split_lens lte (col0 (eval_f (rig_env_of []) (lpr_prog d N Nt))).

  (* LCPR_np (atoms x components) and CPR (structures x components), LCPR split by structure *)
  Definition lcpr_model (comp_dims : list nat) : list fmat :=
    split_lens lte (ftr Nt (map (fun ci =>
        col0 (eval_f (rig_env_of (comp_mask comp_dims ci)) (lcpr_prog d N Nt)))
        (seq 0 (length comp_dims)))).      (* list of columns, transposed to atoms x components *)
  Definition cpr_model (comp_dims : list nat) : fmat :=
    ftr St (map (fun ci => col0 (eval_f (rig_env_of (comp_mask comp_dims ci)) (cpr_prog d N Nt St)))
                (seq 0 (length comp_dims))).
End Driver.

(* np.linalg.matrix_rank(M): count of singular values above S.max() * max(M.shape) * eps *)
Definition rank_of_sv (dim : nat) (sv : list float) : nat :=
  let mx := fold_left (fun a x => if ltb a x then x else a) sv 0 in
  let tol := mx * fof_Z (Z.of_nat dim) * 0x1p-52 in
  length (filter (fun s => ltb tol s) sv).
Definition rank_diff_model (dim : nat) (sv : list float) : nat := dim - rank_of_sv dim sv.
(* sanity of the singular-value hint against the model's own symmetric PSD matrix:
   sum sv = trace, relative residual *)
Definition sv_resid_f (A : fmat) (sv : list float) : float :=
  let tr := fsum (map (fun i => fget A i i) (seq 0 (length A))) in
  fabs (fsum sv - tr) / tr.

(* ------------------------------------------------------------------ comparison *)
(* entrywise relative closeness  |a-b| <= rtol * max(|a|,|b|);  false on NaN *)
Definition rel_close (rtol a b : float) : bool :=
  leb (fabs (a - b)) (rtol * (if ltb (fabs a) (fabs b) then fabs b else fabs a)).
Fixpoint vec_close (rtol : float) (u v : list float) : bool :=
  match u, v with
  | [], [] => true
  | a :: u', b :: v' => rel_close rtol a b && vec_close rtol u' v'
  | _, _ => false
  end.
Fixpoint mat_close (rtol : float) (A B : fmat) : bool :=
  match A, B with
  | [], [] => true
  | r :: A', s :: B' => vec_close rtol r s && mat_close rtol A' B'
  | _, _ => false
  end.
Fixpoint mats_close (rtol : float) (A B : list fmat) : bool :=
  match A, B with
  | [], [] => true
  | r :: A', s :: B' => mat_close rtol r s && mats_close rtol A' B'
  | _, _ => false
  end.

(* rank_diff alone (used where alpha is below the pinv cut-off and only rank_diff is compared) *)
Definition rank_case_ok (inp : rig_in) (sv : list float) (obs_rd : nat) (rd_gated : bool) : bool :=
  leb (sv_resid_f (xprime_f inp) sv) 0x1p-30
  && (rd_gated || Nat.eqb (rank_diff_model (length (hd [] (concat (r_train inp)))) sv) obs_rd).

(* verdict of one LPR case: oracle residual within eps, outputs within rtol, singular-value
   hint consistent with the model's matrix (sum sv = trace), rank_diff equal *)
Definition lpr_case_ok (inp : rig_in) (sv : list float) (eps rtol : float)
           (obs : list (list float)) (obs_rd : nat) (rd_gated : bool) : bool :=
  leb (hyp_resid_f inp) eps
  && mat_close rtol (lpr_model inp) obs
  && rank_case_ok inp sv obs_rd rd_gated.

Definition cpr_case_ok (inp : rig_in) (comp_dims : list nat) (sv : list float) (eps rtol : float)
           (obs_cpr : fmat) (obs_lcpr : list fmat) (obs_rd : nat) (rd_gated : bool) : bool :=
  leb (hyp_resid_f inp) eps
  && mat_close rtol (cpr_model inp comp_dims) obs_cpr
  && mats_close rtol (lcpr_model inp comp_dims) obs_lcpr
  && rank_case_ok inp sv obs_rd rd_gated.
