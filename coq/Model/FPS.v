(* Model of _FPS / _PCovFPS (src/skmatter/_selection.py): distance tables, the
   in-place running minimum, initial selections.  Exact over Z. *)
From Verif Require Import ListX Greedy.

Record dst := mk_dst {
  haus : list ExtZ;        (* hausdorff_            (np.inf = None) *)
  hsel : list ExtZ         (* hausdorff_at_select_  (per candidate, read via selected_idx_) *)
}.

Section DistTable.
  Variable nm : list Z.                 (* norms_ *)
  Variable cross : nat -> list Z.       (* l |-> X[l] @ X.T   resp.  pcovr_distance_[l] *)

  (* new_dist = norms_ + norms_[l] - 2 * cross(l) *)
  Definition newdist (l : nat) : list Z :=
    map2 (fun n c => n + nth l nm 0 - 2 * c) nm (cross l).

  (* _update_hausdorff *)
  Definition dupd (s : dst) (l : nat) : dst :=
    {| hsel := upd_nth l (nth l (haus s) None) (hsel s);
       haus := map2 ext_min (haus s) (newdist l) |}.

  Definition dscore (s : dst) : list Z := map ext_get (haus s).
End DistTable.

Definition dst0 (n : nat) : dst := {| haus := repeat None n; hsel := repeat None n |}.

(* ---- plain FPS on candidates [cs] ------------------------------------------- *)
Definition fps_norms (cs : list (list Z)) : list Z := map sqn cs.
Definition fps_cross (cs : list (list Z)) (l : nat) : list Z := map (dot (nth l cs [])) cs.

Definition fps_g := gst dst.

Definition fps_post cs ycand : fps_g -> nat -> fps_g :=
  post dst (dupd (fps_norms cs) (fps_cross cs)) cs ycand.

Definition fps_init cs ycand (inits : list nat) : fps_g :=
  fold_left (fps_post cs ycand) inits (mk_gst [] [] [] (dst0 (length cs)) None).

Definition fps_run cs ycand (t : thr) (niter : nat) (g : fps_g) : fps_g * bool :=
  run dst dscore (dupd (fps_norms cs) (fps_cross cs)) cs ycand t (niter - length (sel g)) g.

(* cold fit: initial selections, then the loop *)
Definition fps_fit cs ycand inits t niter := fps_run cs ycand t niter (fps_init cs ycand inits).

(* get_select_distance(): hausdorff_at_select_[selected_idx_] *)
Definition select_distance (g : fps_g) : list ExtZ :=
  map (fun i => nth i (hsel (sst g)) None) (sel g).

(* ---- PCov-FPS: the same loop reading a matrix D (pcovr_distance_) ------------ *)
Definition diagm (D : list (list Z)) : list Z :=
  map (fun i => nth i (nth i D []) 0) (seq 0 (length D)).
Definition pcov_cross (axis1 : bool) (D : list (list Z)) (l : nat) : list Z :=
  if axis1 then col D l else nth l D [].

Definition pcov_post axis1 D cs ycand : fps_g -> nat -> fps_g :=
  post dst (dupd (diagm D) (pcov_cross axis1 D)) cs ycand.
Definition pcov_init axis1 D cs ycand (i0 : nat) : fps_g :=
  pcov_post axis1 D cs ycand (mk_gst [] [] [] (dst0 (length cs)) None) i0.
Definition pcov_run axis1 D cs ycand t niter (g : fps_g) :=
  run dst dscore (dupd (diagm D) (pcov_cross axis1 D)) cs ycand t (niter - length (sel g)) g.
Definition pcov_fit axis1 D cs ycand i0 t niter :=
  pcov_run axis1 D cs ycand t niter (pcov_init axis1 D cs ycand i0).

(* sample-space pcovr_kernel with mixing = a/4 (dyadic), scaled by 4 to stay in Z:
   4*K~ = a * X X^T + (4-a) * Y Y^T *)
Definition kentry (a : Z) (X Y : list (list Z)) (l j : nat) : Z :=
  a * dot (nth l X []) (nth j X []) + (4 - a) * dot (nth l Y []) (nth j Y []).
Definition kernel4 (a : Z) (X Y : list (list Z)) : list (list Z) :=
  map (fun l => map (kentry a X Y l) (seq 0 (length X))) (seq 0 (length X)).

(* ---- correspondence: one chain of fits (cold, then warm-started) ------------- *)
Record obs := mk_obs {
  o_sel : list nat; o_haus : list ExtZ; o_seld : list ExtZ;
  o_xsel : list (list Z); o_ysel : list (list Z); o_support : list bool;
  o_sorted : list nat; o_stopped : bool; o_nsel : nat
}.

Definition obs_ok (n : nat) (hasy : bool) (g : fps_g) (stopped : bool) (o : obs) : bool :=
  nl_eqb (sel g) (o_sel o) && el_eqb (haus (sst g)) (o_haus o)
  && el_eqb (select_distance g) (o_seld o)
  && zm_eqb (xsel g) (o_xsel o)
  && (if hasy then zm_eqb (ysel g) (o_ysel o) else true)
  && bl_eqb (support n (sel g)) (o_support o)
  && nl_eqb (support_indices (sel g)) (o_sorted o)
  && Bool.eqb stopped (o_stopped o)
  && Nat.eqb (length (sel g)) (o_nsel o).

(* stages: (threshold, n_iterations, observation) ; first stage cold *)
Fixpoint chain_ok (runf : thr -> nat -> fps_g -> fps_g * bool) n hasy
         (g : fps_g) (stages : list (thr * nat * obs)) : bool :=
  match stages with
  | [] => true
  | (t, k, o) :: rest =>
      let '(g', st) := runf t k g in
      obs_ok n hasy g' st o && chain_ok runf n hasy g' rest
  end.

Definition fps_case_ok cs ycand inits stages : bool :=
  chain_ok (fps_run cs ycand) (length cs) (match ycand with Some _ => true | None => false end)
           (fps_init cs ycand inits) stages.

Definition pcov_case_ok axis1 D cs ycand i0 stages : bool :=
  chain_ok (pcov_run axis1 D cs ycand) (length cs)
           (match ycand with Some _ => true | None => false end)
           (pcov_init axis1 D cs ycand i0) stages.
