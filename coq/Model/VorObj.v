(* C06 extension (round 3): object-level model of VoronoiFPS.

   Model/Voronoi.v computes every distance from the data [cs] of the current call.  The
   Python object does not: `_get_active` and `_update_post_selection` read the ATTRIBUTES
   norms_, X_selected_, selected_idx_, dSL_ (a buffer with a capacity), vlocation_of_idx,
   hausdorff_, hausdorff_at_select_, new_dist_ that earlier calls on the same object left
   behind.  Here these attributes are explicit state, `_init_greedy_search` /
   `_continue_greedy_search` are the functions that (re)establish them, and a SESSION is
   an arbitrary list of fit calls on one object (cold on any data, warm-started, accepted or
   rejected).  Definitions only; proofs in Proofs/VorObjP.v.

   Distances are kept as in Voronoi.v (dSL_ undivided: the buffer holds 4 * dSL_). *)
From Verif Require Import ListX Greedy FPS Voronoi.

Record ost := mk_ost {
  o_norms : list Z;          (* norms_                          (set by a cold fit only)     *)
  o_xs    : list (list Z);   (* X_selected_[: n_selected_]      (read by _get_active)        *)
  o_sel   : list nat;        (* selected_idx_[: n_selected_]    (read by _get_active)        *)
  o_haus  : list ExtZ;       (* hausdorff_                                                  *)
  o_hsel  : list ExtZ;       (* hausdorff_at_select_  (whole array)                         *)
  o_vloc  : list nat;        (* vlocation_of_idx                                            *)
  o_dsl   : list Z;          (* 4 * dSL_, the WHOLE buffer (capacity = n_to_select)         *)
  o_new   : list ExtZ;       (* new_dist_   (never reset; rewritten when a point is active) *)
  o_ok    : bool             (* no numpy shape / index error has been raised so far         *)
}.

Section Obj.
  Variable X : list (list Z).                   (* the X handed to THIS call of fit *)
  Variable br : nat -> nat -> bool.             (* step -> |active| -> full branch? *)
  Let n := length X.

  (* norms_[j] + norms_[l] - 2 * X[l] @ X[j]   — stored norms, current data *)
  Definition o_d2 (o : ost) (j l : nat) : Z :=
    nth j (o_norms o) 0 + nth l (o_norms o) 0 - 2 * dot (nth l X []) (nth j X []).

  (* (norms_[selected_idx_[:k]] + norms_[l] - 2 * X_selected_[:k] @ X[l].T)   (* 0.25 kept out *) *)
  Definition o_dslnew (o : ost) (l : nat) : list Z :=
    map2 (fun i xr => nth i (o_norms o) 0 + nth l (o_norms o) 0 - 2 * dot xr (nth l X []))
         (o_sel o) (o_xs o).

  (* buf[: len(new)] = new *)
  Definition write_prefix (new old : list Z) : list Z := new ++ skipn (length new) old.

  (* dSL_ after _get_active *)
  Definition o_buf (o : ost) (l : nat) : list Z :=
    match o_sel o with
    | [] => o_dsl o
    | _ => write_prefix (o_dslnew o l) (o_dsl o)
    end.

  (* _get_active as a mask: np.arange(n) when nothing is selected yet, else
     dSL_[vlocation_of_idx] < hausdorff_  (reads the buffer, stale entries included) *)
  Definition o_active (o : ost) (l : nat) : list bool :=
    match o_sel o with
    | [] => map (fun _ => true) (seq 0 n)
    | _ => map2 (fun v h => match h with
                            | None => true
                            | Some hz => nth v (o_buf o l) 0 <? 4 * hz end)
                (o_vloc o) (o_haus o)
    end.

  (* the numpy operations of one step that can raise: index l, broadcasting norms_ against
     X, the slice assignment into dSL_, the fancy index dSL_[vlocation_of_idx] *)
  Definition o_step_ok (o : ost) (l : nat) : bool :=
    (l <? n)%nat && (length (o_norms o) =? n)%nat &&
    match o_sel o with
    | [] => true
    | _ => (length (o_sel o) <=? length (o_dsl o))%nat &&
           forallb (fun v => (v <? length (o_buf o l))%nat) (o_vloc o)
    end.

  (* new_dist_ *)
  Definition onew (o : ost) (l : nat) (act : list bool) (full : bool) : list ExtZ :=
    if full then map (fun j => Some (o_d2 o j l)) (seq 0 n)
    else upd_nth l (Some 0)
           (zip3 (fun j (a : bool) h => if a then Some (o_d2 o j l) else h) (seq 0 n) act (o_haus o)).

  (* VoronoiFPS._update_post_selection, GreedySelector's part included *)
  Definition oupd (o : ost) (l : nat) : ost :=
    let nsel := length (o_sel o) in
    let hsel' := upd_nth l (nth l (o_haus o) None) (o_hsel o) in
    let act := o_active o l in
    let cnt := count_true act in
    let ok' := o_ok o && o_step_ok o l in
    let xs' := o_xs o ++ [nth l X []] in
    let sel' := o_sel o ++ [l] in
    if Nat.eqb cnt 0 then
      mk_ost (o_norms o) xs' sel' (o_haus o) hsel' (upd_nth l nsel (o_vloc o)) (o_buf o l) (o_new o) ok'
    else
      let new := onew o l act (br nsel cnt) in
      let updated := map2 ext_lt new (o_haus o) in
      let haus' := map2 ext_min2 (o_haus o) new in
      let vloc' := map2 (fun (u : bool) v => if u then nsel else v) updated (o_vloc o) in
      mk_ost (o_norms o) xs' sel' haus' hsel' (upd_nth l nsel vloc') (o_buf o l) new ok'.

  Definition oscore (o : ost) : list Z := map ext_get (o_haus o).

  (* _init_greedy_search up to (not including) its final _update_post_selection.  Every
     attribute is overwritten except new_dist_, which a previous fit may have left. *)
  Definition ost_cold (prev : option ost) (k : nat) : ost :=
    mk_ost (fps_norms X) [] [] (repeat None n) (repeat None n) (repeat 1%nat n) (repeat 0 k)
           (match prev with Some p => o_new p | None => [] end) true.

  (* _continue_greedy_search: np.pad(dSL_, (0, n_to_select - n_selected_)) *)
  Definition ost_warm (k : nat) (o : ost) : ost :=
    mk_ost (o_norms o) (o_xs o) (o_sel o) (o_haus o) (o_hsel o) (o_vloc o)
           (o_dsl o ++ repeat 0 (k - length (o_sel o))) (o_new o) (o_ok o).

  Definition ogst := gst ost.
  Definition obj_post ycand : ogst -> nat -> ogst := post ost oupd X ycand.
  Definition obj_cold ycand (prev : option ogst) (i0 k : nat) : ogst :=
    obj_post ycand (mk_gst [] [] [] (ost_cold (option_map sst prev) k) None) i0.
  Definition obj_run ycand (t : thr) (k : nat) (g : ogst) : ogst * bool :=
    run ost oscore oupd X ycand t (k - length (sel g)) g.
  Definition obj_fit_cold ycand prev i0 t k : ogst * bool :=
    obj_run ycand t k (obj_cold ycand prev i0 k).
  Definition obj_fit_warm ycand (g : ogst) t k : ogst * bool :=
    obj_run ycand t k (mk_gst (sel g) (xsel g) (ysel g) (ost_warm k (sst g)) (first g)).
End Obj.

Definition obj_select_distance (g : ogst) : list ExtZ :=
  map (fun i => nth i (o_hsel (sst g)) None) (sel g).

(* ---- parameter types of a cold fit (used by sessions and by vor_validate below) ---------- *)
Inductive ffp := FFNone | FFReal (num den : Z) | FFOther.     (* None | the real num/den (den > 0) | not a real *)
Inductive ntp := NTInt (z : Z) | NTOther.                     (* n_trial_calculation *)
Inductive inp := InInt (i : nat) | InRandom | InOther.        (* initialize (non-negative ints) *)
Inductive verr := ETypeError | EValueError | EIndexError.

(* the switching-point branch of _init_greedy_search: None = accepted *)
Definition ff_check (ff : ffp) (nt : ntp) : option verr :=
  match ff with
  | FFNone => match nt with
              | NTOther => Some ETypeError
              | NTInt z => if z <=? 0 then Some EValueError else None
              end
  | FFReal num den => if (0 <? num) && (num <=? den) then None else Some EValueError
  | FFOther => Some EValueError
  end.

(* ---- sessions: any sequence of fit calls on ONE object ----------------------------------- *)
Inductive vcall :=
| VCold (X : list (list Z)) (br : nat -> nat -> bool) (i0 : nat) (p : nts)   (* fit(X) *)
| VWarm (X : list (list Z)) (br : nat -> nat -> bool) (p : nts)              (* fit(X, warm_start=True) *)
| VColdFF (X : list (list Z)) (ff : ffp) (nt : ntp)                          (* fit(X) with the switching-point *)
          (br : nat -> nat -> bool) (i0 : nat) (p : nts).                    (* parameters given explicitly     *)

(* check_array(ensure_min_samples=2, ensure_min_features=2) *)
Definition shape_ok (X : list (list Z)) : bool :=
  (2 <=? length X)%nat && (2 <=? length (nth 0 X []))%nat.

(* one call; the Boolean says whether fit returned normally.  State None = the object has no
   usable selection (never fitted, or a cold fit failed after `n_selected_ = 0`). *)
Definition sess_step (s : option ogst) (c : vcall) : option ogst * bool :=
  match c with
  | VCold X br i0 p =>
      if negb (shape_ok X) then (s, false) else              (* ValueError, nothing touched *)
      match resolve_n (length X) p with
      | None => (s, false)                                   (* ValueError, nothing touched *)
      | Some k =>
          if ((i0 <? length X) && (1 <=? k))%nat
          then (Some (fst (obj_fit_cold X br None s i0 NoThr k)), true)
          else (None, false)                                 (* IndexError after the reset  *)
      end
  | VWarm X br p =>
      if negb (shape_ok X) then (s, false) else
      match resolve_n (length X) p with
      | None => (s, false)
      | Some k =>
          match s with
          | None => (None, false)                            (* "Cannot fit with warm_start=True ..." *)
          | Some g =>
              if (k <? length (sel g))%nat then (s, false)   (* np.pad with a negative width  *)
              else (Some (fst (obj_fit_warm X br None g NoThr k)), true)
          end
      end
  | VColdFF X ff nt br i0 p =>
      (* since /repo ac09377 the switching-point validation of _init_greedy_search comes BEFORE the
         first attribute is overwritten: a call rejected there leaves the whole object unchanged *)
      if negb (shape_ok X) then (s, false) else
      match resolve_n (length X) p with
      | None => (s, false)
      | Some k =>
          match ff_check ff nt with
          | Some _ => (s, false)                             (* ValueError / TypeError, nothing touched *)
          | None =>
              if ((i0 <? length X) && (1 <=? k))%nat
              then (Some (fst (obj_fit_cold X br None s i0 NoThr k)), true)
              else (None, false)
          end
      end
  end.

Fixpoint sess_run (s : option ogst) (cs : list vcall) : option ogst :=
  match cs with
  | [] => s
  | c :: rest => sess_run (fst (sess_step s c)) rest
  end.

(* ---- correspondence: what the harness reads off the object after every call --------------- *)
Record otrace := mk_otrace {
  ot_sel : list nat; ot_xsel : list (list Z); ot_norms : list Z; ot_haus : list ExtZ;
  ot_hsel : list ExtZ; ot_vloc : list nat; ot_dsl : list Z; ot_new : list ExtZ;
  ot_seld : list ExtZ
}.

Definition oobs_ok (g : ogst) (o : otrace) : bool :=
  nl_eqb (sel g) (ot_sel o) && nl_eqb (o_sel (sst g)) (ot_sel o)
  && zm_eqb (xsel g) (ot_xsel o) && zm_eqb (o_xs (sst g)) (ot_xsel o)
  && zl_eqb (o_norms (sst g)) (ot_norms o)
  && el_eqb (o_haus (sst g)) (ot_haus o) && el_eqb (o_hsel (sst g)) (ot_hsel o)
  && nl_eqb (o_vloc (sst g)) (ot_vloc o)
  && zl_eqb (o_dsl (sst g)) (ot_dsl o)
  && el_eqb (o_new (sst g)) (ot_new o)
  && el_eqb (obj_select_distance g) (ot_seld o)
  && o_ok (sst g).

(* everything except get_select_distance() (which reads selected_idx_, truncated by the known
   GreedySelector defect after a score-threshold stop); [ot_sel] is then the order of the calls of
   _update_post_selection recorded by a harness-side wrapper *)
Definition oobs_core_ok (g : ogst) (o : otrace) : bool :=
  nl_eqb (sel g) (ot_sel o) && nl_eqb (o_sel (sst g)) (ot_sel o)
  && zm_eqb (xsel g) (ot_xsel o) && zm_eqb (o_xs (sst g)) (ot_xsel o)
  && zl_eqb (o_norms (sst g)) (ot_norms o)
  && el_eqb (o_haus (sst g)) (ot_haus o) && el_eqb (o_hsel (sst g)) (ot_hsel o)
  && nl_eqb (o_vloc (sst g)) (ot_vloc o)
  && zl_eqb (o_dsl (sst g)) (ot_dsl o)
  && el_eqb (o_new (sst g)) (ot_new o)
  && o_ok (sst g).

(* one cold fit with a score threshold [t] (on the integer lattice: the harness rescales the
   threshold with the data): same stop flag, same state up to the stop.  The threshold enters
   through the shared [best_new] only — neither _get_active nor the update ([oupd]) takes it *)
Definition thr_case_ok (X : list (list Z)) br (i0 : nat) (t : thr) (k : nat)
           (stopped : bool) (o : otrace) : bool :=
  let '(g, st) := obj_fit_cold X br None None i0 t k in
  Bool.eqb st stopped && oobs_core_ok g o
  && (if stopped then true else el_eqb (obj_select_distance g) (ot_seld o)).

(* a session as observed: per call, did it return normally, and if so the attributes *)
Fixpoint sess_ok (s : option ogst) (cs : list (vcall * option otrace)) : bool :=
  match cs with
  | [] => true
  | (c, o) :: rest =>
      let '(s', ok) := sess_step s c in
      match o, ok, s' with
      | Some tr, true, Some g => oobs_ok g tr && sess_ok s' rest
      | None, false, _ => sess_ok s' rest
      | _, _, _ => false
      end
  end.

(* ---- parameter validation of a cold fit (the raising branches of _init_greedy_search) ----- *)
(* None = accepted; the checks in the order the code performs them *)
Definition vor_validate (n : nat) (p : nts) (ff : ffp) (nt : ntp) (ini : inp) : option verr :=
  match resolve_n n p with
  | None => Some EValueError
  | Some k =>
      match ff_check ff nt with
      | Some e => Some e
      | None =>
          match ini with
          | InOther => Some EValueError
          | InRandom => if (1 <=? k)%nat then None else Some EIndexError
          | InInt i => if ((i <? n) && (1 <=? k))%nat then None else Some EIndexError
          end
      end
  end.

Definition verr_eqb (a b : option verr) : bool :=
  match a, b with
  | None, None => true
  | Some ETypeError, Some ETypeError | Some EValueError, Some EValueError
  | Some EIndexError, Some EIndexError => true
  | _, _ => false
  end.

(* the parameter region the property quantifies over *)
Definition in_quantifier (n : nat) (p : nts) (ff : ffp) (nt : ntp) (ini : inp) : Prop :=
  (exists k, resolve_n n p = Some k /\ (1 <= k)%nat) /\
  (match ff with
   | FFNone => exists z, nt = NTInt z /\ 1 <= z
   | FFReal num den => 0 < num <= den
   | FFOther => False end) /\
  (match ini with InInt i => (i < n)%nat | InRandom => True | InOther => False end).
