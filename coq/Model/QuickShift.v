(* Model of /repo/src/skmatter/clustering/_quick_shift.py (layer D, exact).

   The model works on the squared distance matrix [D : list (list ExtZ)] after
   np.fill_diagonal(dist_matrix, np.inf) (None = +inf) and integer weights; -1 in
   idxroot is None.  Loops are folds over [seq]; the inner `while` runs on explicit fuel
   with an out-of-fuel error (None).  Definitions only. *)
From Verif Require Export ListX.

(* ---- extended integers (np.inf arithmetic) ------------------------------------ *)
Definition ext_add (a b : ExtZ) : ExtZ :=
  match a, b with Some x, Some y => Some (x + y) | _, _ => None end.
Definition ext_lt (a b : ExtZ) : bool :=                (* a < b ; inf < inf is False *)
  match a, b with
  | Some x, Some y => x <? y
  | Some _, None => true
  | None, _ => false
  end.
Definition ext_min2 (a b : ExtZ) : ExtZ :=              (* min(a, b) *)
  match a, b with
  | Some x, Some y => Some (Z.min x y)
  | Some x, None => Some x
  | None, _ => b
  end.

Definition dget (D : list (list ExtZ)) (i j : nat) : ExtZ := nth j (nth i D []) None.
Definition wt (w : list Z) (i : nat) : Z := nth i w 0.
Definition bget (G : list (list bool)) (i j : nat) : bool := nth j (nth i G []) false.

(* ---- _get_gabriel_graph -------------------------------------------------------- *)
(* np.sum(D[i] + D[j] < D[i, j]) is truthy iff some k has D[i][k] + D[j][k] < D[i][j] *)
Definition gab_cond (D : list (list ExtZ)) (n i j : nat) : bool :=
  existsb (fun k => ext_lt (ext_add (dget D i k) (dget D j k)) (dget D i j)) (seq 0 n).

Definition set2 (G : list (list bool)) (i j : nat) (b : bool) : list (list bool) :=
  upd_nth i (upd_nth j b (nth i G [])) G.

(* for j in range(i, n): if cond: gabriel[i, j] = False; gabriel[j, i] = False *)
Definition gab_inner (D : list (list ExtZ)) (n i : nat) (G : list (list bool)) : list (list bool) :=
  fold_left (fun G j => if gab_cond D n i j then set2 (set2 G i j false) j i false else G)
            (seq i (n - i)) G.

(* gabriel = full True; for i: gabriel[i, i] = False; inner loop *)
Definition gabriel (D : list (list ExtZ)) : list (list bool) :=
  let n := length D in
  fold_left (fun G i => gab_inner D n i (set2 G i i false)) (seq 0 n) (repeat (repeat true n) n).

(* ---- the two "next point" rules -------------------------------------------------- *)
(* common scan:  for j in range(ngrid):
                   if probs[j] > probs[idx] and distmm[idx, j] < min(dmin, bound) and allowed[j]:
                       next_idx = j; dmin = distmm[idx, j]
   ([bound] = None and [allowed] = neighs for _gs_next, [bound] = cutoff and no mask for _qs_next) *)
Definition scan_step (D : list (list ExtZ)) (w : list Z) (idx : nat) (bound : ExtZ)
           (allowed : nat -> bool) (st : nat * ExtZ) (j : nat) : nat * ExtZ :=
  if (wt w idx <? wt w j) && ext_lt (dget D idx j) (ext_min2 (snd st) bound) && allowed j
  then (j, dget D idx j) else st.
Definition scan (D : list (list ExtZ)) (w : list Z) (idx : nat) (bound : ExtZ)
           (allowed : nat -> bool) (init : nat) : nat :=
  fst (fold_left (scan_step D w idx bound allowed) (seq 0 (length w)) (init, None)).

(* np.argmin of one row: first index of the minimum *)
Definition argmin_row (row : list ExtZ) : nat :=
  fst (fold_left (fun (st : nat * ExtZ) j => if ext_lt (nth j row None) (snd st) then (j, nth j row None) else st)
                 (seq 1 (length row - 1)) (O, nth O row None)).

(* _qs_next(idx, idxn, probs, distmm, cutoff) *)
Definition qs_next (D : list (list ExtZ)) (w : list Z) (idx idxn : nat) (cutoff : Z) : nat :=
  let init := if wt w idx <? wt w idxn then idxn else idx in
  scan D w idx (Some cutoff) (fun _ => true) init.

(* one pass of  nneighs = False; for j: if neighs[j]: nneighs |= gabriel[j];  neighs |= nneighs *)
Definition expand (G : list (list bool)) (neighs : list bool) : list bool :=
  let n := length neighs in
  map2 orb neighs
       (fold_left (fun nn j => if nth j neighs false then map2 orb nn (nth j G []) else nn)
                  (seq 0 n) (repeat false n)).

(* neighs after `for _ in range(1, gabriel_shell)` *)
Definition shell_set (G : list (list bool)) (shell : nat) (idx : nat) : list bool :=
  Nat.iter (shell - 1) (expand G) (nth idx G []).

(* _gs_next(idx, probs, distmm, gabriel) *)
Definition gs_next (D : list (list ExtZ)) (w : list Z) (G : list (list bool)) (shell : nat) (idx : nat) : nat :=
  let neighs := shell_set G shell idx in
  scan D w idx None (fun j => nth j neighs false) idx.

(* ---- fit: the ascent loop with path list and root propagation ------------------------ *)
Definition oget (R : list (option nat)) (i : nat) : option nat := nth i R None.

(* idxroot[qspath] = v *)
Fixpoint assign (path : list nat) (v : option nat) (R : list (option nat)) : list (option nat) :=
  match path with
  | [] => R
  | x :: p => assign p v (upd_nth x v R)
  end.
(* idxroot[idxroot[current]] *)
Definition root_of (R : list (option nat)) (cur : nat) : option nat :=
  match oget R cur with Some c => oget R c | None => None end.

(* while current != idxroot[current]:
       idxroot[current] = next(current)
       if idxroot[idxroot[current]] != -1: break
       qspath.append(idxroot[current]); current = qspath[-1]
   idxroot[qspath] = idxroot[idxroot[current]]
   None = fuel exhausted (never happens: C16_terminates) *)
Fixpoint ascend (next : nat -> nat) (fuel : nat) (cur : nat) (path : list nat) (R : list (option nat))
  : option (list (option nat)) :=
  match fuel with
  | O => None
  | S f =>
      if opt_eqb Nat.eqb (oget R cur) (Some cur) then Some (assign path (root_of R cur) R)
      else
        let R1 := upd_nth cur (Some (next cur)) R in
        match root_of R1 cur with
        | Some r => Some (assign path (Some r) R1)
        | None => ascend next f (next cur) (path ++ [next cur]) R1
        end
  end.

(* idxroot = full(n, -1); for i in range(n): if idxroot[i] != -1: continue; ... *)
Definition fit_step (n : nat) (next : nat -> nat) (oR : option (list (option nat))) (i : nat)
  : option (list (option nat)) :=
  match oR with
  | None => None
  | Some R => match oget R i with Some _ => Some R | None => ascend next n i [i] R end
  end.
Definition fit_with (n : nat) (next : nat -> nat) : option (list (option nat)) :=
  fold_left (fit_step n next) (seq 0 n) (Some (repeat None n)).

(* the two configurations of QuickShift.fit on distance matrix D (diagonal +inf) *)
Definition next_cut (D : list (list ExtZ)) (w : list Z) (cut : list Z) (c : nat) : nat :=
  qs_next D w c (argmin_row (nth c D [])) (nth c cut 0).           (* idmindist[c], dist_cutoff_sq[c] *)
Definition next_gab (D : list (list ExtZ)) (w : list Z) (shell : nat) (c : nat) : nat :=
  gs_next D w (gabriel D) shell c.

Definition fit_cut (D : list (list ExtZ)) (w : list Z) (cut : list Z) : option (list (option nat)) :=
  fit_with (length D) (next_cut D w cut).
Definition fit_gab (D : list (list ExtZ)) (w : list Z) (shell : nat) : option (list (option nat)) :=
  fit_with (length D) (next_gab D w shell).

(* cluster_centers_idx_ = argwhere(idxroot == arange(n)) *)
Definition centres (R : list (option nat)) : list nat :=
  filter (fun i => opt_eqb Nat.eqb (oget R i) (Some i)) (seq 0 (length R)).

(* ---- constructor + correspondence --------------------------------------------------- *)
(* The harness passes the implementation's integer squared distances [Dint]; cut-offs as
   8*dist_cutoff_sq and 2*scale (both integers).  dist_cutoff_sq *= scale**2 is then
   cut8 * s2^2 in units of 1/32, and distances are brought to the same unit. *)
(* [Both]: dist_cutoff_sq and gabriel_shell both given -- "If both of them are set, the distance
   cutoff is used" (class docstring); the rule is chosen by `dist_cutoff_sq is None`, the same
   test that decides whether the Gabriel graph is computed (fixes/F23_quickshift_both_rules.diff) *)
Inductive mode := Cut (cut8 : list Z) (s2 : Z) | Gab (shell : nat) | Both (cut8 : list Z) (s2 : Z) (shell : nat).
Definition eff_cut (cut8 : list Z) (s2 : Z) : list Z := map (fun c => c * s2 * s2) cut8.
Definition scaleD (k : Z) (D : list (list ExtZ)) : list (list ExtZ) :=
  map (map (fun d => match d with Some x => Some (k * x) | None => None end)) D.

Definition quickshift (Dint : list (list ExtZ)) (w : list Z) (m : mode) : option (list (option nat)) :=
  match m with
  | Cut cut8 s2 | Both cut8 s2 _ => fit_cut (scaleD 32 Dint) w (eff_cut cut8 s2)
  | Gab shell => fit_gab Dint w shell
  end.

Definition labels_eqb (R : list (option nat)) (labels : list nat) : bool :=
  list_eqb (opt_eqb Nat.eqb) R (map Some labels).

Definition qs_case_ok (Dint : list (list ExtZ)) (w : list Z) (m : mode)
           (labels centres_idx : list nat) : bool :=
  match quickshift Dint w m with
  | Some R => labels_eqb R labels && nl_eqb (centres R) centres_idx
  | None => false
  end.

(* the Gabriel graph alone (observed through _get_gabriel_graph on the same matrix) *)
Definition gabriel_ok (Dint : list (list ExtZ)) (G : list (list bool)) : bool :=
  list_eqb bl_eqb (gabriel Dint) G.
