(* C11 (extension, round 3) — the StandardFlexibleScaler OBJECT as a state machine, binary64
   side.  Model/Scaler.v models one call of fit / transform / inverse_transform on a fresh
   estimator; this file models what the Python object does over a sequence of calls:

     set_params(...)                       changes the constructor parameters only
     fit(X, sample_weight)                 * fewer than 2 rows: _validate_data raises before any
                                             attribute is touched (state unchanged)
                                           * otherwise n_samples_in_, n_features_in_, mean_ are
                                             overwritten, scale_ is reset to the float 1.0, and only
                                             then the zero-variance guard may raise: a rejected
                                             (re)fit leaves the object FITTED with the new mean_ and
                                             scale_ = 1.0 (quirk of the code, modelled as it is)
                                           * accepted: scale_ is an ndarray iff with_std and
                                             column_wise, else a scalar
     transform(Y) / inverse_transform(T)   NotFittedError when no fit has set the attributes,
                                           ValueError when the width differs from n_features_in_,
                                           else the programs sc_transform / sc_inverse on the
                                           stored (mean_, scale_).
   Definitions only.  The real-closed-field twin is Model/ScalerObjMx.v. *)
From Coq Require Import ZArith List Bool PrimFloat.
From Verif Require Import MExp Scaler.
Import ListNotations.
Open Scope float_scope.

Record sof_par := SofPar {
  fp_wm : bool; fp_ws : bool; fp_cw : bool;      (* with_mean, with_std, column_wise *)
  fp_rtol : float; fp_atol : float }.

(* fitted attributes: n_samples_in_, n_features_in_, `scale_ is an ndarray`, (mean_, scale_
   broadcast to a row), and (bookkeeping of the comparison only) the column magnitudes of the
   data the state was fitted on *)
Record sof_fitted := SofFit {
  ff_n : nat; ff_d : nat; ff_arr : bool; ff_st : fmat * fmat; ff_ref : list float }.

Record sof_obj := SofObj { fo_par : sof_par; fo_fit : option sof_fitted }.

Inductive sof_op :=
| FSet (p : sof_par)
| FFit (n d : nat) (X : fmat) (hw : bool) (w : fmat)
| FTransform (k c : nat) (Y : fmat)
| FInverse (k c : nat) (T : fmat).

Inductive sof_out := FSelf | FValueError | FNotFitted | FMat (A : fmat).

Definition sof_cfg (p : sof_par) (hw : bool) : sc_cfg := ScCfg (fp_wm p) (fp_ws p) (fp_cw p) hw.

(* fit: (new fitted attributes or None = untouched, outcome) *)
Definition sof_fit (p : sof_par) (n d : nat) (X : fmat) (hw : bool) (w : fmat)
  : option sof_fitted * sof_out :=
  let cfg := sof_cfg p hw in
  match sc_fit_f cfg n d (fp_rtol p) (fp_atol p) X w with
  | Some st => (Some (SofFit n d (fp_ws p && fp_cw p) st (fcolmaxes X d)), FSelf)
  | None =>
      if Nat.ltb n 2 then (None, FValueError)
      else (* guard raised after mean_ was stored and scale_ was reset to 1.0 *)
        (Some (SofFit n d false
                 (eval_f (sc_env_fit X w) (sc_mean cfg n d), eval_f (sc_env_fit X w) (MOnes 1 d))
                 (fcolmaxes X d)), FValueError)
  end.

(* one call: new object, outcome, and the reference magnitudes for comparing a returned
   matrix (rounding of (y-m)/s is eps*(|y|+|m|)/s, of t*s+m is eps*(|t| s + |m|)) *)
Definition sof_step (o : sof_obj) (op : sof_op) : sof_obj * sof_out * list float :=
  match op with
  | FSet p => (SofObj p (fo_fit o), FSelf, [])
  | FFit n d X hw w =>
      match sof_fit (fo_par o) n d X hw w with
      | (Some f, out) => (SofObj (fo_par o) (Some f), out, [])
      | (None, out) => (o, out, [])
      end
  | FTransform k c Y =>
      match fo_fit o with
      | None => (o, FNotFitted, [])
      | Some f =>
          if Nat.eqb c (ff_d f)
          then (o, FMat (sc_transform_f (ff_d f) k (ff_st f) Y),
                fmap2 div (fmap2 add (ff_ref f) (fcolmaxes Y (ff_d f))) (frow0 (snd (ff_st f))))
          else (o, FValueError, [])
      end
  | FInverse k c T =>
      match fo_fit o with
      | None => (o, FNotFitted, [])
      | Some f =>
          if Nat.eqb c (ff_d f)
          then (o, FMat (sc_inverse_f (ff_d f) k (ff_st f) T),
                fmap2 add (ff_ref f)
                          (fmap2 mul (fcolmaxes T (ff_d f)) (map abs (frow0 (snd (ff_st f))))))
          else (o, FValueError, [])
      end
  end.

(* ---- what the harness observed on the Python object after one call -------------------- *)
Record sof_obs := SofObs {
  ob_kind : nat;                 (* 0 returned self / 1 ValueError / 2 NotFittedError / 3 matrix *)
  ob_mat : fmat;                 (* the returned matrix (kind 3) *)
  ob_fitted : bool;              (* hasattr(mean_) and hasattr(scale_) after the call *)
  ob_n : nat; ob_d : nat;        (* n_samples_in_, n_features_in_ *)
  ob_arr : bool;                 (* np.ndim(scale_) == 1 *)
  ob_mean : fmat; ob_scale : fmat }.

Definition sof_out_ok (tol : float) (d : nat) (ref : list float) (out : sof_out) (b : sof_obs) : bool :=
  match out with
  | FSelf => Nat.eqb (ob_kind b) 0
  | FValueError => Nat.eqb (ob_kind b) 1
  | FNotFitted => Nat.eqb (ob_kind b) 2
  | FMat A => (Nat.eqb (ob_kind b) 3 && fclose_cols tol ref d A (ob_mat b))%bool
  end.

Definition sof_state_ok (tol : float) (o : sof_obj) (b : sof_obs) : bool :=
  match fo_fit o with
  | None => negb (ob_fitted b)
  | Some f =>
      (ob_fitted b && Nat.eqb (ob_n b) (ff_n f) && Nat.eqb (ob_d b) (ff_d f)
       && Bool.eqb (ob_arr b) (ff_arr f)
       && fclose_cols tol (ff_ref f) (ff_d f) (fst (ff_st f)) (ob_mean b)
       && fclose_cols tol (map (fun _ => 0) (ff_ref f)) (ff_d f) (snd (ff_st f)) (ob_scale b))%bool
  end.

Definition sof_width (o : sof_obj) : nat :=
  match fo_fit o with None => O | Some f => ff_d f end.

(* run a whole trace: per call, [outcome matches; state after the call matches] *)
Fixpoint sof_trace (tol : float) (o : sof_obj) (tr : list (sof_op * sof_obs)) : list bool :=
  match tr with
  | [] => []
  | (op, b) :: rest =>
      let '(o', out, ref) := sof_step o op in
      (sof_out_ok tol (sof_width o') ref out b && sof_state_ok tol o' b)%bool
      :: sof_trace tol o' rest
  end.

Definition sof_trace_ok (tol : float) (p0 : sof_par) (tr : list (sof_op * sof_obs)) : bool :=
  forallb (fun b => b) (sof_trace tol (SofObj p0 None) tr).
Definition sof_trace_diag := sof_trace.
