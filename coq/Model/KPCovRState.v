(* C05 — the KernelPCovR estimator OBJECT as a state machine
   (src/skmatter/decomposition/_kernel_pcovr.py: __init__/set_params, fit, transform, predict,
   score, inverse_transform).  Definitions only.

   Model/KPCovR.v describes ONE fit as matrix programs.  This file describes what the Python
   object remembers between calls: constructor arguments (changed by set_params), the fitted
   attributes, and - the point of the file - the attributes that a later fit does NOT
   overwrite: `centerer_` survives a refit with center=False, `regressor_` survives a refit with
   regressor="precomputed", `ptx_` survives a refit with fit_inverse_transform=False.  The
   methods decide from the CONSTRUCTOR ARGUMENT `self.center`, not from the presence of the
   attribute, whether the kernel is centred; that guard is what makes a refit equal to a
   fresh fit (Proofs/KPCovRStateP.v).

   Everything numerical is a primitive operation of the machine (a Section variable): the
   machine is about plumbing and is valid for every interpretation of the primitives; the
   binary64 interpretation used by the correspondence check is Model/KPCovRStateF.v.

     getk kid A B       self._get_kernel(A, B)  (pairwise_kernels with the estimator's kernel
                        name and gamma/degree/coef0; kernel="precomputed" returns A)
     kn_fit K           KernelNormalizer().fit(K)           (K_fit_rows_, K_fit_all_, scale_)
     kn_tr c M          c.transform(M)
     kn_vv c Kvn Kvv    the V x V block of score, centred with the training means:
                        (K_VV - mean(K_VN,1)[:,None] - mean(K_VN,1)[None,:] + c.K_fit_all_)/c.scale_
     regress r K Y      check_krr_fit(regressor, K, X, Y).dual_coef_  (r: None / KernelRidge,
                        fitted or not)
     lstsq nm K Y       np.linalg.lstsq(K, Yhat, self.tol)[0]   (regressor="precomputed", W=None)
     fit_core nm K Yh W KernelPCovR._fit: (pkt_, pt__)
     loss nm ...        the value returned by score from the three kernel blocks, pkt_, pky_, Y
     mmul               @                                                                      *)
From Coq Require Import List Bool.
Import ListNotations.
Set Implicit Arguments.

Section Machine.
  Variables mat kid num rg cen : Type.
  Variable getk : kid -> mat -> mat -> mat.
  Variable kn_fit : mat -> cen.
  Variable kn_tr : cen -> mat -> mat.
  Variable kn_vv : cen -> mat -> mat -> mat.
  Variable regress : rg -> mat -> mat -> mat.
  Variable lstsq : num -> mat -> mat -> mat.
  Variable fit_core : num -> mat -> mat -> mat -> mat * mat.
  Variable loss : num -> mat -> mat -> mat -> mat -> mat -> mat -> mat.
  Variable mmul : mat -> mat -> mat.

  (* regressor argument: None / a KernelRidge instance (both end in check_krr_fit), or the
     string "precomputed" *)
  Inductive regressor := RegFit (r : rg) | RegPre.

  (* constructor arguments read by the modelled methods.  [p_num] bundles mixing, n_components,
     tol (and svd_solver): everything _fit and score read besides the kernel blocks *)
  Record cargs := mk_cargs {
    p_center : bool; p_kernel : kid; p_num : num; p_regr : regressor; p_inv : bool }.

  Record state := mk_state {
    prm : cargs;
    X_fit : option mat;        (* X_fit_ *)
    centerer : option cen;     (* centerer_ : only assigned when center=True *)
    pkt : option mat; pky : option mat; pty : option mat; ptk : option mat;
    ptx : option mat;          (* ptx_ : only assigned when fit_inverse_transform=True *)
    regr_W : option mat        (* regressor_.dual_coef_ : only assigned when regressor != "precomputed" *)
  }.

  Definition init (p : cargs) : state := mk_state p None None None None None None None None.

  (* set_params: only the constructor arguments change *)
  Definition set_params (st : state) (p : cargs) : state :=
    mk_state p (X_fit st) (centerer st) (pkt st) (pky st) (pty st) (ptk st) (ptx st) (regr_W st).

  (* fit(X, Y, W=None), statement by statement (accepted inputs; the rejection guards are
     Model/KPCovRGuard.v) *)
  Definition fit (st : state) (X Y : mat) (Wopt : option mat) : state :=
    let p := prm st in
    let K0 := getk (p_kernel p) X X in
    let c' := if p_center p then Some (kn_fit K0) else centerer st in
    let K := if p_center p then kn_tr (kn_fit K0) K0 else K0 in
    let W := match p_regr p with
             | RegFit r => regress r K Y
             | RegPre => match Wopt with Some W => W | None => lstsq (p_num p) K Y end
             end in
    let Yhat := match p_regr p with RegFit _ => mmul K W | RegPre => Y end in
    let rW := match p_regr p with RegFit _ => Some W | RegPre => regr_W st end in
    let pp := fit_core (p_num p) K Yhat W in
    let pty' := mmul (snd pp) Y in
    mk_state p (Some X) c' (Some (fst pp)) (Some (mmul (fst pp) pty')) (Some pty')
             (Some (mmul (snd pp) K))
             (if p_inv p then Some (mmul (snd pp) X) else ptx st) rW.

  (* what a method call can do *)
  Inductive res (A : Type) := Val (a : A) | NotFitted | AttrError.
  Arguments Val {A}. Arguments NotFitted {A}. Arguments AttrError {A}.

  (* K = self._get_kernel(X, self.X_fit_); if self.center: K = self.centerer_.transform(K) *)
  Definition new_kernel (st : state) (Xf Xn : mat) : res mat :=
    let K := getk (p_kernel (prm st)) Xn Xf in
    if p_center (prm st)
    then match centerer st with Some c => Val (kn_tr c K) | None => AttrError end
    else Val K.

  (* check_is_fitted(self, ["pkt_", "X_fit_"]) *)
  Definition transform (st : state) (Xn : mat) : res mat :=
    match pkt st, X_fit st with
    | Some P, Some Xf =>
        match new_kernel st Xf Xn with Val K => Val (mmul K P) | NotFitted => NotFitted | AttrError => AttrError end
    | _, _ => NotFitted
    end.

  (* check_is_fitted(self, ["pky_", "pty_"]) *)
  Definition predict (st : state) (Xn : mat) : res mat :=
    match pky st, pty st, X_fit st with
    | Some P, Some _, Some Xf =>
        match new_kernel st Xf Xn with Val K => Val (mmul K P) | NotFitted => NotFitted | AttrError => AttrError end
    | _, _, _ => NotFitted
    end.

  (* score(X, Y): the three blocks, centred when self.center, then the loss *)
  Definition score (st : state) (Xn Yn : mat) : res mat :=
    match pkt st, pky st, X_fit st with
    | Some P, Some Q, Some Xf =>
        let kid0 := p_kernel (prm st) in
        let Knn := getk kid0 Xf Xf in
        let Kvn := getk kid0 Xn Xf in
        let Kvv := getk kid0 Xn Xn in
        if p_center (prm st)
        then match centerer st with
             | Some c => Val (loss (p_num (prm st)) (kn_tr c Knn) (kn_tr c Kvn) (kn_vv c Kvn Kvv) P Q Yn)
             | None => AttrError
             end
        else Val (loss (p_num (prm st)) Knn Kvn Kvv P Q Yn)
    | _, _, _ => NotFitted
    end.

  (* inverse_transform(T) = T @ self.ptx_   (no guard at all in the code) *)
  Definition inverse_transform (st : state) (T : mat) : res mat :=
    match ptx st with Some p => Val (mmul T p) | None => AttrError end.

  (* histories *)
  Inductive event := SetParams (p : cargs) | Fit (X Y : mat) (W : option mat).
  Definition step (st : state) (e : event) : state :=
    match e with SetParams p => set_params st p | Fit X Y W => fit st X Y W end.
  Definition run (st : state) (h : list event) : state := fold_left step h st.

  (* two objects are indistinguishable through the property's observables: the fitted attributes
     named in the property and transform / predict / score on every input *)
  Definition same_obs (s1 s2 : state) : Prop :=
    prm s1 = prm s2 /\ X_fit s1 = X_fit s2 /\
    pkt s1 = pkt s2 /\ pky s1 = pky s2 /\ pty s1 = pty s2 /\ ptk s1 = ptk s2 /\
    (forall Xn, transform s1 Xn = transform s2 Xn) /\
    (forall Xn, predict s1 Xn = predict s2 Xn) /\
    (forall Xn Yn, score s1 Xn Yn = score s2 Xn Yn).

  (* the variant of the three methods that keys the centring on the PRESENCE of centerer_
     (hasattr) instead of on self.center: used to show that the guard matters *)
  Definition new_kernel_hasattr (st : state) (Xf Xn : mat) : res mat :=
    let K := getk (p_kernel (prm st)) Xn Xf in
    match centerer st with Some c => Val (kn_tr c K) | None => Val K end.
  Definition transform_hasattr (st : state) (Xn : mat) : res mat :=
    match pkt st, X_fit st with
    | Some P, Some Xf =>
        match new_kernel_hasattr st Xf Xn with Val K => Val (mmul K P) | NotFitted => NotFitted | AttrError => AttrError end
    | _, _ => NotFitted
    end.
End Machine.

Arguments Val {A}. Arguments NotFitted {A}. Arguments AttrError {A}.
Arguments RegPre {rg}.
