(* Extension of Model/Pairwise.v (property C15, round 3).  Definitions only.

   1. The array bookkeeping of _pairwise.py as written: XY = np.concatenate([x - Y for x in X]) is
      a FLAT list of n_X * n_Y difference rows, the cell is broadcast along the rows
      (XY -= np.round(XY / cell) * cell, skipped when cell is None), the norm / quadratic form is
      taken row by row and the flat result is reshaped to (n_X, n_Y) resp. (n_cov, n_X, n_Y).
      [periodic_pairwise_flat] / [pairwise_mahal_flat] are the functions of Model/Pairwise.v
      rewritten on that layout (Proofs/PairwiseXP.v: they are equal for all sizes).
   2. pairwise_mahalanobis_distances(X, None, ...): check_pairwise_arrays turns Y=None into Y=X.
   3. The [squared] flag: the model works with exact squared distances; an output with
      squared=False is any non-negative r with r*r = the squared value ([is_root]).
   4. When can the fold be skipped: [within_half]. *)
From Verif Require Export Pairwise.
Open Scope Q_scope.

(* ---- 1. flat layout ------------------------------------------------------------- *)
(* np.concatenate([x - Y for x in X]): rows (i, j) in row-major order *)
Definition diffs (X Y : list (list Q)) : list (list Q) :=
  flat_map (fun x => map (fun y => vdiff x y) Y) X.

(* if cell is not None: XY -= np.round(XY / cell) * cell   (cell broadcast along axis 0) *)
Definition fold_rows (cell : option (list Q)) (XY : list (list Q)) : list (list Q) :=
  match cell with None => XY | Some c => map (map2 wrap c) XY end.

(* .reshape(rows, ny) of a flat list *)
Fixpoint chunks {A} (rows ny : nat) (l : list A) : list (list A) :=
  match rows with
  | O => []
  | S r => firstn ny l :: chunks r ny (skipn ny l)
  end.

(* np.linalg.norm(XY, axis=1) ** 2, reshaped *)
Definition pp_flat (X Y : list (list Q)) (cell : option (list Q)) : list (list Q) :=
  chunks (length X) (length Y) (map qsqn (fold_rows cell (diffs X Y))).

(* np.sum(XY * transpose(P @ XY.T), axis=-1) for one P of the stack, reshaped *)
Definition mh_flat (P : list (list Q)) (X Y : list (list Q)) (cell : option (list Q)) : list (list Q) :=
  chunks (length X) (length Y) (map (qform P) (fold_rows cell (diffs X Y))).

Definition periodic_pairwise_flat (X : list (list Q)) (Y : option (list (list Q))) (cell : option (list Q))
  : option (list (list Q)) :=
  if check_dimension X cell then
    match check_pairwise X Y with
    | None => None
    | Some Y' => Some (pp_flat X Y' cell)
    end
  else None.

(* ---- 2. Mahalanobis with Y possibly None ------------------------------------------ *)
Definition pairwise_mahal_opt (X : list (list Q)) (Y : option (list (list Q))) (cov : covarg)
           (cell : option (list Q)) : option (list (list (list Q))) :=
  if check_dimension X cell then
    match check_pairwise X Y with
    | None => None
    | Some Y' =>
        if forallb (square (width X)) (cov_stack cov) then
          Some (map (fun P => map (fun x => map (fun y => mahal2 P cell x y) Y') X) (cov_stack cov))
        else None
    end
  else None.

Definition pairwise_mahal_flat (X : list (list Q)) (Y : option (list (list Q))) (cov : covarg)
           (cell : option (list Q)) : option (list (list (list Q))) :=
  if check_dimension X cell then
    match check_pairwise X Y with
    | None => None
    | Some Y' =>
        if forallb (square (width X)) (cov_stack cov) then
          Some (map (fun P => mh_flat P X Y' cell) (cov_stack cov))
        else None
    end
  else None.

(* ---- 3. the squared flag ----------------------------------------------------------- *)
Definition is_root (r s : Q) : Prop := 0 <= r /\ r * r == s.
(* what a call may return at an entry whose exact squared distance is s *)
Definition out_rel (squared : bool) (s r : Q) : Prop := if squared then r == s else is_root r s.
Definition mat_rel (R : Q -> Q -> Prop) (A B : list (list Q)) : Prop := Forall2 (Forall2 R) A B.
(* R is a possible (exact-arithmetic) result of
   periodic_pairwise_euclidean_distances(X, Y, squared=squared, cell_length=cell) *)
Definition pp_returns (squared : bool) (X : list (list Q)) (Y : option (list (list Q)))
           (cell : option (list Q)) (R : list (list Q)) : Prop :=
  exists M, periodic_pairwise X Y cell = Some M /\ mat_rel (out_rel squared) M R.

(* ---- 4. when the fold is the identity ---------------------------------------------- *)
(* every coordinate difference lies within half a cell length: |x_k - y_k| <= c_k / 2 *)
Definition within_half (cell x y : list Q) : Prop :=
  Forall2 (fun c t => - c <= 2 * t <= c) cell (vdiff x y).
(* every coordinate of the point lies in the centred primary cell: |x_k| <= c_k / 2 *)
Definition in_cell (cell x : list Q) : Prop := Forall2 (fun c a => - c <= 2 * a <= c) cell x.

(* rows of X (resp. Y) moved by their own integer image vectors *)
Definition mshift (cell : list Q) (ms : list (list Z)) (X : list (list Q)) : list (list Q) :=
  map2 (vshift cell) ms X.

(* ---- correspondence checks ----------------------------------------------------------- *)
(* [root] is the output with squared=False, [sq] the output with squared=True of the same call *)
Definition flag_mat_ok (root sq : list (list Q)) : bool := mat_ok close_sqrt root sq.
Definition flag_ok {A} (ok : A -> A -> bool) (squared : bool) (out other : option A) : bool :=
  match out, other with
  | Some a, Some b => if squared then ok b a else ok a b
  | None, None => true
  | _, _ => false
  end.

(* one periodic_pairwise_euclidean_distances call, evaluated on the flat layout; [other] is the
   output of the same call with the opposite [squared] flag *)
Definition ppx_case_ok (X : list (list Q)) (Y : option (list (list Q))) (cell : option (list Q))
           (squared : bool) (out other : option (list (list Q))) : bool :=
  omat_ok (if squared then close_sq else close_sqrt) out (periodic_pairwise_flat X Y cell)
  && flag_ok flag_mat_ok squared out other.

Definition mhx_case_ok (X : list (list Q)) (Y : option (list (list Q))) (cov : covarg)
           (cell : option (list Q)) (squared : bool) (out other : option (list (list (list Q)))) : bool :=
  ostack_ok (if squared then exact_sq else close_sqrt) out (pairwise_mahal_flat X Y cov cell)
  && flag_ok (list_eqb flag_mat_ok) squared out other.
