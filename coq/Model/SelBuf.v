(* C01 (extension, round 3): buffer-level model of GreedySelector.fit.

   Model/Select.v keeps the selection as an abstract list and adds the reported views
   afterwards ([reported_sel]).  This file models what the Python object really holds between
   calls of fit, statement by statement:

     n_selected_ (counter), selected_idx_ / X_selected_ / y_selected_ as BUFFERS with their
     capacity (np.zeros(n_to_select) in _init_greedy_search, np.pad + prefix assignment with
     numpy's broadcasting rule in _continue_greedy_search, indexed writes at n_selected_ in
     _update_post_selection, the three truncations of the threshold early-exit), first_score_,
     support_ built from the WHOLE selected_idx_ buffer in _postprocess.

   Out-of-range writes are IndexError, the prefix assignment with a non-broadcastable length is
   ValueError: both are explicit outcomes ([BRaised]), never a totalised default.  The threshold
   test is a parameter [tst : option (first -> score -> bool)], instantiated by the exact
   integer tests of Greedy.below and by the binary64 tests the code performs on float scores
   (absolute: s < t; relative: s / first < t) — see [tst_fabs], [tst_frel].

   The scorer is the observed stream of score vectors (as in Select.v), but consumed strictly:
   a missing or mis-sized score vector is the explicit outcome [EOut], and a stage must consume
   exactly the vectors the implementation produced.  Definitions only; proofs in
   Proofs/SelBufP.v. *)
From Coq Require Import PrimFloat FloatOps SpecFloat.
From Verif Require Import ListX Greedy Select.

Inductive berr := EIndex | EValue | EOut.
(* EIndex: IndexError (write beyond a buffer); EValue: ValueError raised inside
   _continue_greedy_search (negative pad width / non-broadcastable prefix assignment);
   EOut: outside the model (score stream exhausted or mis-sized, all candidates masked) *)

Inductive res (A : Type) := Ok (a : A) | Err (e : berr).
Arguments Ok {A}. Arguments Err {A}.

Definition tstfun := option (Z -> Z -> bool).     (* Some below: below first score *)
Definition tst_of_thr (t : thr) : tstfun :=
  match t with NoThr => None | _ => Some (below t) end.

(* ---- binary64 threshold tests on float scores (given by their IEEE bit pattern) ---------- *)
Definition dec_pos (z : Z) : float :=
  let e := z / 2 ^ 52 in
  let m := z mod 2 ^ 52 in
  if e =? 0 then (if m =? 0 then zero else SF2Prim (S754_finite false (Z.to_pos m) (-1074)))
  else if e =? 2047 then (if m =? 0 then infinity else nan)
  else SF2Prim (S754_finite false (Z.to_pos (2 ^ 52 + m)) (e - 1075)).
(* code of x >= 0 is its bit pattern, code of x < 0 is minus the bit pattern of -x.
   NaN: every NaN is coded as the canonical quiet NaN 0x7FF8000000000000, which lies ABOVE the code
   of +infinity; the integer order of the codes is then numpy's arg-max order (np.argmax treats NaN
   as maximal and returns the FIRST one = first-index arg-max of the codes, [amax]).  [dec] maps that
   code to nan, on which both threshold tests below are false (IEEE comparisons), as in numpy. *)
Definition dec (z : Z) : float := if z <? 0 then PrimFloat.opp (dec_pos (- z)) else dec_pos z.

Definition tst_fabs (t : float) : tstfun := Some (fun _ s => PrimFloat.ltb (dec s) t).
Definition tst_frel (t : float) : tstfun :=
  Some (fun f s => PrimFloat.ltb (PrimFloat.div (dec s) (dec f)) t).

(* ---- numpy helpers ------------------------------------------------------------------------ *)
(* a[i] = x  (IndexError if i is out of range) *)
Definition set_nth {A} (i : nat) (x : A) (l : list A) : option (list A) :=
  if (i <? length l)%nat then Some (upd_nth i x l) else None.

(* buf[:m] = old   with numpy's broadcasting: equal length, or a length-1 right-hand side *)
Definition assign_prefix (m : nat) (old buf : list nat) : option (list nat) :=
  let m' := Nat.min m (length buf) in
  if Nat.eqb (length old) m' then Some (old ++ skipn m' buf)
  else if Nat.eqb (length old) 1 then Some (repeat (hd O old) m' ++ skipn m' buf)
  else None.

Record bst := mk_bst {
  b_n : nat;                         (* n_selected_ *)
  b_idx : list nat;                  (* selected_idx_, the whole buffer *)
  b_x : list (list Z);               (* X_selected_ along the selection axis, the whole buffer *)
  b_y : option (list (list Z));      (* y_selected_ if the attribute exists *)
  b_first : option Z;                (* first_score_ *)
  b_str : stream                     (* score vectors not yet presented *)
}.

Record bcfg := mk_bcfg { bc_nts : nts; bc_tst : tstfun; bc_full : bool; bc_warm : bool }.

(* one step of the loop as seen from outside: index, its score, first_score_, kept? *)
Definition tentry := (nat * Z * Z * bool)%type.
Definition te_idx (e : tentry) : nat := fst (fst (fst e)).
Definition te_kept (e : tentry) : bool := snd e.
Definition te_below (below : Z -> Z -> bool) (e : tentry) : bool :=
  below (snd (fst e)) (snd (fst (fst e))).

Inductive bout :=
| BRejected                                   (* ValueError from parameter validation *)
| BRaised (e : berr)                          (* exception inside the search *)
| BFitted (b : bst) (stopped : bool) (tr : list tentry).

Section Buf.
  Variable cand : list (list Z).              (* candidates: rows (axis 0) / columns (axis 1) *)
  Variable ycand : option (list (list Z)).    (* rows of y, sample selection with targets only *)
  Let n := length cand.
  Definition zx : list Z := repeat 0 (length (nth O cand [])).
  Definition zy : list Z := match ycand with Some y => repeat 0 (length (nth O y [])) | None => [] end.

  (* GreedySelector._init_greedy_search *)
  Definition b_init (k : nat) (str : stream) : bst :=
    mk_bst O (repeat O k) (repeat zx k)
           (match ycand with Some _ => Some (repeat zy k) | None => None end) None str.

  (* GreedySelector._continue_greedy_search *)
  Definition b_continue (k : nat) (str : stream) (b : bst) : res bst :=
    if (k <? b_n b)%nat then Err EValue else
    let pad := (k - b_n b)%nat in
    match assign_prefix (b_n b) (b_idx b) (repeat O k) with
    | None => Err EValue
    | Some idx =>
        Ok (mk_bst (b_n b) idx (b_x b ++ repeat zx pad)
                   (match b_y b with Some y => Some (y ++ repeat zy pad) | None => None end)
                   (b_first b) str)
    end.

  (* GreedySelector._update_post_selection *)
  Definition b_post (b : bst) (i : nat) : res bst :=
    if (n <=? i)%nat then Err EIndex else
    match set_nth (b_n b) (nth i cand []) (b_x b) with
    | None => Err EIndex
    | Some x' =>
        match (match b_y b, ycand with
               | Some yb, Some y =>
                   match set_nth (b_n b) (nth i y []) yb with
                   | Some y' => Ok (Some y') | None => Err EIndex end
               | Some _, None => Err EOut
               | None, _ => Ok None
               end) with
        | Err e => Err e
        | Ok y' =>
            match set_nth (b_n b) i (b_idx b) with
            | None => Err EIndex
            | Some idx' => Ok (mk_bst (S (b_n b)) idx' x' y' (b_first b) (b_str b))
            end
        end
    end.

  (* GreedySelector._get_best_new_selection; consumes one score vector *)
  Definition b_best (tst : tstfun) (b : bst) : res (option nat * tentry * bst) :=
    match b_str b with
    | [] => Err EOut
    | sc :: rest =>
        if negb (Nat.eqb (length sc) n) then Err EOut else
        match amax (mask (firstn (b_n b) (b_idx b)) sc) with
        | None => Err EOut
        | Some (i, v) =>
            match tst with
            | None => Ok (Some i, (i, v, 0, true),
                          mk_bst (b_n b) (b_idx b) (b_x b) (b_y b) (b_first b) rest)
            | Some below =>
                let f := match b_first b with Some f => f | None => v end in
                let b' := mk_bst (b_n b) (b_idx b) (b_x b) (b_y b) (Some f) rest in
                if below f v then Ok (None, (i, v, f, false), b')
                else Ok (Some i, (i, v, f, true), b')
            end
        end
    end.

  (* the early exit of fit at loop counter j *)
  Definition b_truncate (j : nat) (b : bst) : res bst :=
    if (length (b_x b) <? b_n b)%nat then Err EIndex else
    Ok (mk_bst (b_n b) (firstn j (b_idx b)) (firstn (b_n b) (b_x b))
               (match b_y b with Some y => Some (firstn j y) | None => None end)
               (b_first b) (b_str b)).

  (* for n in range(n_iterations): ...   [j] is the loop counter n *)
  Fixpoint b_run (tst : tstfun) (j fuel : nat) (b : bst) : res (bst * bool * list tentry) :=
    match fuel with
    | O => Ok (b, false, [])
    | S fuel' =>
        match b_best tst b with
        | Err e => Err e
        | Ok (None, te, b') =>
            match b_truncate j b' with
            | Err e => Err e
            | Ok b'' => Ok (b'', true, [te])
            end
        | Ok (Some i, te, b') =>
            match b_post b' i with
            | Err e => Err e
            | Ok b'' =>
                match b_run tst (S j) fuel' b'' with
                | Err e => Err e
                | Ok (bf, st, tr) => Ok (bf, st, te :: tr)
                end
            end
        end
    end.

  (* the initial selections of the FPS family *)
  Fixpoint b_inits (inits : list nat) (b : bst) : res bst :=
    match inits with
    | [] => Ok b
    | i :: r => match b_post b i with Err e => Err e | Ok b' => b_inits r b' end
    end.

  Definition has_tst (t : tstfun) : bool := match t with Some _ => true | None => false end.

  (* one call of fit on the object state [prev] *)
  Definition bfit (prev : option bst) (c : bcfg) (inits : list nat) (str : stream) : bout :=
    if bc_full c && has_tst (bc_tst c) then BRejected else
    match resolve_n n (bc_nts c) with
    | None => BRejected
    | Some k =>
        let start :=
          if bc_warm c then
            match prev with
            | None => None
            | Some b => if Nat.eqb (b_n b) O then None else Some (b_continue k str b)
            end
          else Some (b_inits inits (b_init k str)) in
        match start with
        | None => BRejected
        | Some (Err e) => BRaised e
        | Some (Ok b0) =>
            match b_run (bc_tst c) O (k - b_n b0) b0 with
            | Err e => BRaised e
            | Ok (b, st, tr) => BFitted b st tr
            end
        end
    end.
End Buf.

(* ---- correspondence ------------------------------------------------------------------------ *)
(* what is observed after a stage: an [sobs] record (fit returned) or the exception class *)
Inductive bobs := ObsFit (o : sobs) | ObsValueError | ObsIndexError.

Definition bobs_ok cand (b : bst) (stopped : bool) (o : sobs) : bool :=
  nl_eqb (b_idx b) (so_sel o) && Nat.eqb (b_n b) (so_nsel o)
  && zm_eqb (b_x b) (so_xsel o)
  && match b_y b with Some y => zm_eqb y (so_ysel o) | None => match so_ysel o with [] => true | _ => false end end
  && bl_eqb (support (length cand) (b_idx b)) (so_support o)
  && nl_eqb (support_indices (b_idx b)) (so_sorted o)
  && nl_eqb (b_idx b) (so_ordered o)
  && match so_transform o with
     | Some t => zm_eqb (transform_cols cand (b_idx b)) t
     | None => true end
  && Bool.eqb stopped (so_stopped o)
  && match b_str b with [] => true | _ => false end.     (* every score vector consumed *)

(* a chain of fits on the same data, continued through threshold stops and warm starts in any
   order; an exception inside the search ends the chain (the object is then half-updated) *)
Fixpoint bchain_ok cand ycand (prev : option bst)
         (stages : list (bcfg * list nat * stream * bobs)) : bool :=
  match stages with
  | [] => true
  | (c, inits, str, o) :: rest =>
      match bfit cand ycand prev c inits str, o with
      | BRejected, ObsValueError => bchain_ok cand ycand prev rest
      | BRaised EValue, ObsValueError => match rest with [] => true | _ => false end
      | BRaised EIndex, ObsIndexError => match rest with [] => true | _ => false end
      | BFitted b st _, ObsFit ob => bobs_ok cand b st ob && bchain_ok cand ycand (Some b) rest
      | _, _ => false
      end
  end.

(* the decoded bit patterns agree with the float literals the harness read from the object *)
Definition dec_ok (l : list (Z * float)) : bool :=
  forallb (fun p => PrimFloat.eqb (dec (fst p)) (snd p)) l.
