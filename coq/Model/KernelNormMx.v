(* C12 — the programs of Model/KernelNorm.v interpreted over mathcomp matrices on an
   arbitrary real closed field, wrapped like the Python classes (fit returns the fitted
   attributes, transform reads them).  Specification vocabulary [wsum], [wmean],
   [rows_of] comes from Model/ScalerMx.v.  Definitions only. *)
From mathcomp Require Import all_ssreflect all_algebra.
From Verif Require Import MExp MExpMx MxBox ScalerMx KernelNorm.
Set Implicit Arguments.
Unset Strict Implicit.
Unset Printing Implicit Defensive.
Import GRing.Theory Num.Theory.
Local Open Scope ring_scope.

Section Wrapper.
  Variable F : rcfType.
  Variables (cfg : kn_cfg) (n : nat).
  Let b0 := box0 F.

  (* the weights the means refer to: sample_weight, or all ones when it is None *)
  Definition kn_effw (w : 'cV[F]_n) : 'cV[F]_n := if kn_has_w cfg then w else const_mx 1.
  (* usable: the weights the means refer to have a non-zero sum (n > 0 when unweighted) *)
  Definition kn_wok (w : 'cV[F]_n) : bool := wsum (kn_effw w) != 0.

  (* ---- KernelNormalizer: state = (K_fit_rows_, K_fit_all_, scale_) ---- *)
  Definition kn_st := ('rV[F]_n * 'M[F]_(1, 1) * 'M[F]_(1, 1))%type.
  Definition kn_fit_mx (K : 'M[F]_(n, n)) (w : 'cV[F]_n) : kn_st :=
    let env := env_of [:: box K; box w] in
    (eval_mx env (kn_rows cfg n), eval_mx env (kn_all cfg n), eval_mx env (kn_scale cfg n)).
  Definition kn_transform_mx (k : nat) (w : 'cV[F]_n) (st : kn_st) (Kt : 'M[F]_(k, n))
    : 'M[F]_(k, n) :=
    eval_mx (env_of [:: b0; box w; box Kt; box st.1.1; box st.1.2; box st.2]) (kn_transform cfg n k).
  Definition kn_fit_transform_mx (K : 'M[F]_(n, n)) (w : 'cV[F]_n) : 'M[F]_(n, n) :=
    eval_mx (env_of [:: box K; box w]) (kn_fit_transform cfg n).
  (* the explicit feature route *)
  Definition kf_transform_mx (p k : nat) (w : 'cV[F]_n) (Phi : 'M[F]_(n, p)) (Psi : 'M[F]_(k, p))
    : 'M[F]_(k, n) :=
    eval_mx (env_of [:: b0; box w; b0; b0; b0; b0; b0; b0; box Phi; box Psi]) (kf_transform cfg n p k).

  (* ---- SparseKernelCenterer: state = (K_fit_rows_, scale_); P is the pseudo-inverse oracle ---- *)
  Definition sk_st (m : nat) := ('rV[F]_m * 'M[F]_(1, 1))%type.
  Definition sk_fit_mx (m : nat) (Knm : 'M[F]_(n, m)) (w : 'cV[F]_n) (Kmm P : 'M[F]_(m, m)) : sk_st m :=
    let env := env_of [:: box Knm; box w; b0; b0; b0; b0; box Kmm; box P] in
    (eval_mx env (sk_rows cfg n m), eval_mx env (sk_scale cfg n m)).
  Definition sk_transform_mx (m k : nat) (st : sk_st m) (Kt : 'M[F]_(k, m)) : 'M[F]_(k, m) :=
    eval_mx (env_of [:: b0; b0; box Kt; box st.1; b0; box st.2]) (sk_transform m k).
End Wrapper.

(* the four Penrose equations: P is the Moore-Penrose pseudo-inverse of K *)
Definition penrose (F : rcfType) (m : nat) (K P : 'M[F]_(m, m)) : Prop :=
  [/\ K *m P *m K = K, P *m K *m P = P, (K *m P)^T = K *m P & (P *m K)^T = P *m K].
