(* Extension of the DirectionalConvexHull model (round 3).  Definitions only; proofs are in
   Proofs/DCHExtP.v.

   Part 1: samples that share their low-dimensional position.  [stacked_below]: another sample
           sits at the same position with a target <= y_i.  For one hull dimension a COMPLETE
           decision procedure [lower_vertex_1d_b] for is_lower_vertex on ANY sample list (no
           distinctness, no sortedness).
   Part 2: inserting a sample at an arbitrary index (the order of the samples is irrelevant
           for adding samples above the hull).
   Part 3: the contract clause that makes "selected => STRICTLY below every combination of the
           others" provable: the projection of a kept facet is a non-degenerate simplex.
   Part 4: the estimator OBJECT as a state machine: constructor parameters, the guard of fit
           (with its quirks), the attributes fit overwrites, _check_is_fitted, and score_samples
           reading low_dim_idx / tolerance at call time. *)
From Coq Require Import QArith.
From Verif Require Import ListX DCH.

(* ================================================================ Part 1: shared positions *)
(* any number of hull dimensions: sample j <> i at the same position with a target <= y_i *)
Definition stacked_below (d : nat) (P : list (list Z)) (i : nat) : Prop :=
  exists j, (j < length P)%nat /\ j <> i /\
    (forall c, (1 <= c <= d)%nat -> nth c (nth j P []) 0 = nth c (nth i P []) 0) /\
    nth 0 (nth j P []) 0 <= nth 0 (nth i P []) 0.

Definition stacked_below_1d_b (P : list (list Z)) (i : nat) : bool :=
  existsb (fun j => negb (Nat.eqb j i) &&
                    (nth 1 (nth j P []) 0 =? nth 1 (nth i P []) 0) &&
                    (nth 0 (nth j P []) 0 <=? nth 0 (nth i P []) 0))
          (seq 0 (length P)).

(* one hull dimension, any sample list: i is a lower vertex iff no other sample sits at its
   position with a target <= y_i and no two samples straddle it with a segment on or below it *)
Definition lower_vertex_1d_b (P : list (list Z)) (i : nat) : bool :=
  negb (stacked_below_1d_b P i) && negb (not_lower_1d_b (map pt1 P) (pt1 (nth i P []))).
Definition lower_vertices_1d (P : list (list Z)) : list nat :=
  filter (lower_vertex_1d_b P) (seq 0 (length P)).

(* verdict: selected_idx_ equals the complete 1-D decision procedure *)
Definition lower_1d_case_ok (low : list nat) (X : list (list Z)) (y : list Z) (sel : list nat) : bool :=
  nl_eqb (lower_vertices_1d (hull_points_Z low X y)) sel.

(* ================================================================ Part 2: insertion anywhere *)
Definition insert_at {A} (k : nat) (q : A) (l : list A) : list A := firstn k l ++ q :: skipn k l.
(* index of old sample i after inserting a new one at index k *)
Definition shift_idx (k i : nat) : nat := if Nat.ltb i k then i else S i.

(* ================================================================ Part 3: simplicial facets *)
(* the projected vertices of a kept facet are affinely independent: a convex combination of
   the facet's vertices located at the position of its vertex i must use vertex i *)
Definition contract_simplex (d : nat) (fs : list facet) (P : list (list Q)) : Prop :=
  forall f i w, In f (lower_facets fs) -> In i (fverts f) ->
    is_combo d P w (tl (nth i P [])) ->
    (forall j, (j < length P)%nat -> ~ In j (fverts f) -> (nth j w 0 == 0)%Q) ->
    ~ (nth i w 0 == 0)%Q.

(* ================================================================ Part 4: the object *)
Inductive outcome := Done | ValueErr | IndexErr | NotFitted.
Definition outcome_code (o : outcome) : nat :=
  match o with Done => 0 | ValueErr => 1 | IndexErr => 2 | NotFitted => 3 end%nat.

Definition zmax_list (l : list Z) : Z := fold_right Z.max 0 l.        (* entries are >= 0 *)
Definition zmin_list (l : list Z) : Z :=
  match l with [] => 0 | a :: t => fold_right Z.min a t end.

(* fit's guard, as written:
     if max(|low_dim_idx|) > n_features and min(low_dim_idx) >= 0: raise ValueError
   followed by numpy's own bounds check when X[:, low_dim_idx] is taken (IndexError):
   an index equal to n_features passes the guard (quirk), negative indices -n..-1 are legal *)
Definition fit_guard (low : list Z) (nfeat : Z) : outcome :=
  if (nfeat <? zmax_list (map Z.abs low)) && (0 <=? zmin_list low) then ValueErr
  else if existsb (fun j => (nfeat <=? j) || (j <? - nfeat)) low then IndexErr
  else Done.

(* np.setdiff1d(np.arange(n), low_dim_idx) *)
Definition setdiff_range (n : nat) (low : list Z) : list nat :=
  filter (fun c => negb (existsb (Z.eqb (Z.of_nat c)) low)) (seq 0 n).

(* what fit leaves on the object *)
Record hull_state := mkHull {
  hs_facets : list facet;        (* _directional_equations_ / directional_simplices_ *)
  hs_sel : list nat              (* selected_idx_ *)
}.
Record dch_obj := mkObj {
  o_low : list Z;                (* low_dim_idx  (public, read at fit AND at score time) *)
  o_tol : Q;                     (* tolerance    (public, read at score time) *)
  o_nfeat : option nat;          (* n_features_in_ *)
  o_high : option (list nat);    (* high_dim_idx_ *)
  o_hull : option hull_state     (* convex hull attributes, selected_idx_, interpolator *)
}.
Definition fresh (low : list Z) (tol : Q) : dch_obj := mkObj low tol None None None.
Definition set_params (o : dch_obj) (low : list Z) (tol : Q) : dch_obj :=
  mkObj low tol (o_nfeat o) (o_high o) (o_hull o).

(* fit(X, y) on an object; [nfeat] = X.shape[1], [fs] = what qhull returns for (y, X[:, low]).
   Statement order of the code: n_features_in_ is assigned BEFORE the guard, high_dim_idx_
   between the guard and the indexing that can raise IndexError; everything else after. *)
Definition obj_fit (o : dch_obj) (nfeat : nat) (fs : list facet) : outcome * dch_obj :=
  match fit_guard (o_low o) (Z.of_nat nfeat) with
  | ValueErr => (ValueErr, mkObj (o_low o) (o_tol o) (Some nfeat) (o_high o) (o_hull o))
  | IndexErr => (IndexErr, mkObj (o_low o) (o_tol o) (Some nfeat)
                                 (Some (setdiff_range nfeat (o_low o))) (o_hull o))
  | _ => (Done, mkObj (o_low o) (o_tol o) (Some nfeat) (Some (setdiff_range nfeat (o_low o)))
                      (Some (mkHull (lower_facets fs) (selected fs))))
  end.

Definition low_nat (low : list Z) : list nat := map Z.to_nat low.

(* score_samples(X, y) on an object: _check_is_fitted (attributes present, then the feature
   count), X[:, low_dim_idx] (numpy's bounds check), the matrix product with the stored
   equations (shape check), then the distances with the object's CURRENT low_dim_idx and
   tolerance.  (Negative in-range indices are legal in numpy; the distances of the model are
   those of the code only for non-negative indices.) *)
Definition idx_out_of_range (n : nat) (low : list Z) : bool :=
  existsb (fun j => (Z.of_nat n <=? j) || (j <? - Z.of_nat n)) low.
Definition dim_mismatch (low : list Z) (lf : list facet) : bool :=
  existsb (fun f => negb (Nat.eqb (length (fnormal f)) (S (length low)))) lf.
Definition obj_score (o : dch_obj) (ncols : nat) (X : list (list Q)) (y : list Q)
  : outcome * list (option Q) :=
  match o_hull o, o_high o, o_nfeat o with
  | Some h, Some _, Some n =>
      if negb (Nat.eqb ncols n) then (ValueErr, [])
      else if idx_out_of_range ncols (o_low o) then (IndexErr, [])
      else if dim_mismatch (o_low o) (hs_facets h) then (ValueErr, [])
      else (Done, score_samples (o_tol o) (hs_facets h) (low_nat (o_low o)) X y)
  | _, _, _ => (NotFitted, [])
  end.

(* ---- lives of an object, for the guard / state probes of the check ---------------------- *)
Inductive op := OpFit (nfeat : nat) | OpSet (low : list Z) | OpScore (ncols : nat).
(* qhull's answer is irrelevant for the outcome codes; a stand-in facet of the right dimension *)
Definition stand_in (low : list Z) : list facet :=
  [mkFacet (repeat (- (1))%Q (S (length low))) 0%Q []].
Fixpoint run_life (o : dch_obj) (ops : list op) : list nat :=
  match ops with
  | [] => []
  | OpFit n :: t => let r := obj_fit o n (stand_in (o_low o)) in outcome_code (fst r) :: run_life (snd r) t
  | OpSet low :: t => run_life (set_params o low (o_tol o)) t
  | OpScore c :: t => outcome_code (fst (obj_score o c [] [])) :: run_life o t
  end.
Definition life_ok (low0 : list Z) (ops : list op) (codes : list nat) : bool :=
  nl_eqb (run_life (fresh low0 0%Q) ops) codes.

(* ================================================================ Part 5: scaling the positions *)
(* x -> s * x on every low-dimensional coordinate (specification over Z) *)
Definition zpscale (s : Z) (P : list (list Z)) : list (list Z) :=
  map (fun p => nth 0 p 0 :: map (Z.mul s) (tl p)) P.
