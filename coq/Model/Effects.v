(* Layer E — effect IR for property C09 (definitions only).

   One IR program is regenerated from /repo's source by harness/effects_translate.py for
   every public entry point.  A program is a *set* of pointer/effect statements: the
   semantics below executes ANY finite sequence of statements drawn from the program
   (any order, any repetition, any subset), which over-approximates every branch, every
   loop count and every call history of the Python code; MayAlias is a non-deterministic
   choice between "same buffer" and "fresh copy".

   Heap: a list of cells, each tagged with an owner (Caller = storage handed in by the
   caller through an argument or a constructor hyper-parameter; Local = allocated by the
   library) and an opaque content.  Variables and object attributes hold references.

   [ctx p]  : statements of every method of the same class (the object's possible history),
   [body p] : statements of the entry point under analysis,
   [roots p]/[aroots p] : variables / attributes that may initially reference Caller cells.

   Analyser: flow-insensitive taint closure "may reference a Caller cell" over
   ctx ++ body; [safe p] holds when the computed set is closed under the propagation
   rules (checked, so no fuel argument is needed for soundness), no [Write] of the body
   hits a tainted variable and the body contains no [SetParam]. *)
From Coq Require Import List PArith Bool Arith MSets.MSetPositive.
Import ListNotations.

Definition var := positive.
Definition attr := positive.
Definition pname := positive.
Definition site := nat.

Inductive stmt : Type :=
| Fresh (x : var)                  (* x := reference to a newly allocated Local cell *)
| Alias (x y : var)                (* x := y            (same cell: views, .T, slices, attribute of an argument) *)
| MayAlias (x y : var)             (* x := y  or  x := fresh copy   (check_array, asarray, astype, ...) *)
| Write (x : var) (s : site)       (* the cell referenced by x is overwritten (x op= e, x[..] = e, out=x, x.sort()) *)
| SetParam (q : pname) (s : site)  (* a constructor hyper-parameter is re-assigned outside __init__ *)
| StoreAttr (a : attr) (x : var)   (* self.a := x *)
| LoadAttr (x : var) (a : attr).   (* x := self.a *)

Arguments Fresh x%positive.
Arguments Alias (x y)%positive.
Arguments MayAlias (x y)%positive.
Arguments Write x%positive s%nat.
Arguments SetParam q%positive s%nat.
Arguments StoreAttr a%positive x%positive.
Arguments LoadAttr x%positive a%positive.

Record prog : Type := mkProg {
  roots : list var;
  aroots : list attr;
  ctx : list stmt;
  body : list stmt }.

(* ------------------------------------------------------------------ heap semantics *)
Inductive owner : Type := Caller | Local.
Record cell : Type := mkCell { own : owner; val : nat }.
Definition loc := nat.

Record state : Type := mkState {
  env : var -> option loc;
  ats : attr -> option loc;
  heap : list cell;
  pars : pname -> nat }.

Definition upd {A : Type} (f : positive -> A) (k : positive) (v : A) : positive -> A :=
  fun k' => if Pos.eqb k' k then v else f k'.

Fixpoint set_nth (h : list cell) (l : loc) (c : cell) : list cell :=
  match h, l with
  | [], _ => []
  | _ :: t, O => c :: t
  | x :: t, S l' => x :: set_nth t l' c
  end.

Definition is_caller (c : cell) : bool := match own c with Caller => true | Local => false end.

Inductive step : stmt -> state -> state -> Prop :=
| step_fresh : forall x s v,
    step (Fresh x) s
         (mkState (upd (env s) x (Some (length (heap s)))) (ats s) (heap s ++ [mkCell Local v]) (pars s))
| step_alias : forall x y s,
    step (Alias x y) s (mkState (upd (env s) x (env s y)) (ats s) (heap s) (pars s))
| step_may_same : forall x y s,
    step (MayAlias x y) s (mkState (upd (env s) x (env s y)) (ats s) (heap s) (pars s))
| step_may_copy : forall x y s v,
    step (MayAlias x y) s
         (mkState (upd (env s) x (Some (length (heap s)))) (ats s) (heap s ++ [mkCell Local v]) (pars s))
| step_write : forall x st s l c v,
    env s x = Some l -> nth_error (heap s) l = Some c ->
    step (Write x st) s (mkState (env s) (ats s) (set_nth (heap s) l (mkCell (own c) v)) (pars s))
| step_write_none : forall x st s,          (* x holds no reference (None / scalar): nothing happens *)
    env s x = None ->
    step (Write x st) s s
| step_setparam : forall q st s v,
    step (SetParam q st) s (mkState (env s) (ats s) (heap s) (upd (pars s) q v))
| step_store : forall a x s,
    step (StoreAttr a x) s (mkState (env s) (upd (ats s) a (env s x)) (heap s) (pars s))
| step_load : forall x a s,
    step (LoadAttr x a) s (mkState (upd (env s) x (ats s a)) (ats s) (heap s) (pars s)).

(* any finite sequence of statements drawn from l *)
Inductive run (l : list stmt) : state -> state -> Prop :=
| run_nil : forall s, run l s s
| run_cons : forall i s s' s'', In i l -> step i s s' -> run l s' s'' -> run l s s''.

(* initially, only the declared roots reference Caller cells *)
Definition init_ok (p : prog) (s : state) : Prop :=
  (forall x l c, env s x = Some l -> nth_error (heap s) l = Some c -> own c = Caller -> In x (roots p)) /\
  (forall a l c, ats s a = Some l -> nth_error (heap s) l = Some c -> own c = Caller -> In a (aroots p)).

(* every Caller cell of s1 is still there, same owner, same content *)
Definition caller_unchanged (s1 s2 : state) : Prop :=
  forall l c, nth_error (heap s1) l = Some c -> own c = Caller -> nth_error (heap s2) l = Some c.

Definition params_unchanged (s1 s2 : state) : Prop := forall q, pars s2 q = pars s1 q.

(* ------------------------------------------------------------------ analyser *)
Module PS := PositiveSet.

Record taint : Type := mkTaint { tv : PS.t; ta : PS.t }.

Definition of_list (l : list positive) : PS.t := fold_right PS.add PS.empty l.

Definition tstep (t : taint) (i : stmt) : taint :=
  match i with
  | Alias x y | MayAlias x y => if PS.mem y (tv t) then mkTaint (PS.add x (tv t)) (ta t) else t
  | StoreAttr a x => if PS.mem x (tv t) then mkTaint (tv t) (PS.add a (ta t)) else t
  | LoadAttr x a => if PS.mem a (ta t) then mkTaint (PS.add x (tv t)) (ta t) else t
  | Fresh _ | Write _ _ | SetParam _ _ => t
  end.

Definition tpass (l : list stmt) (t : taint) : taint := fold_left tstep l t.

Definition tsize (t : taint) : nat := PS.cardinal (tv t) + PS.cardinal (ta t).

(* iterate whole passes until the sets stop growing (fuel only bounds the search) *)
Fixpoint titer (fuel : nat) (l : list stmt) (t : taint) : taint :=
  match fuel with
  | O => t
  | S f => let t' := tpass l t in
           if Nat.eqb (tsize t') (tsize t) then t' else titer f l t'
  end.

Definition closed_stmt (t : taint) (i : stmt) : bool :=
  match i with
  | Alias x y | MayAlias x y => implb (PS.mem y (tv t)) (PS.mem x (tv t))
  | StoreAttr a x => implb (PS.mem x (tv t)) (PS.mem a (ta t))
  | LoadAttr x a => implb (PS.mem a (ta t)) (PS.mem x (tv t))
  | Fresh _ | Write _ _ | SetParam _ _ => true
  end.

Definition ok_stmt (t : taint) (i : stmt) : bool :=
  match i with
  | Write x _ => negb (PS.mem x (tv t))
  | SetParam _ _ => false
  | _ => true
  end.

Definition all_stmts (p : prog) : list stmt := ctx p ++ body p.

Definition taint0 (p : prog) : taint := mkTaint (of_list (roots p)) (of_list (aroots p)).

Definition analyse (p : prog) : taint :=
  titer (S (length (all_stmts p))) (all_stmts p) (taint0 p).

Definition safe (p : prog) : bool :=
  let t := analyse p in
  forallb (closed_stmt t) (all_stmts p) && forallb (ok_stmt t) (body p).

(* reporting only: the sites of the offending statements of the body *)
Definition bad_site (t : taint) (i : stmt) : list site :=
  match i with
  | Write x s => if PS.mem x (tv t) then [s] else []
  | SetParam _ s => [s]
  | _ => []
  end.

Definition bad_sites (p : prog) : list site := flat_map (bad_site (analyse p)) (body p).

Definition closed_ok (p : prog) : bool := forallb (closed_stmt (analyse p)) (all_stmts p).

(* ------------------------------------------------------------------ generated case files *)
(* Statements of a history must not count as effects of the entry point: Write/SetParam
   are irrelevant in [ctx] (the analyser ignores them there), so the generator may pass the
   bodies of all methods of a class unchanged. *)
Definition entry_prog (rs : list var) (bodies : list (list stmt)) (k : nat) : prog :=
  mkProg rs [] (concat bodies) (nth k bodies []).

(* one verdict per entry point: (safe?, closure check passed?, offending sites) *)
Definition verdict (p : prog) : bool * bool * list site := (safe p, closed_ok p, bad_sites p).

(* flat encoding printed by the case files: per entry point  [safe; closed; #sites; sites...] *)
Definition enc (p : prog) : list nat :=
  let '(s, c, l) := verdict p in [Nat.b2n s; Nat.b2n c; length l] ++ l.

Definition unit_enc (rs : list var) (bodies : list (list stmt)) : list nat :=
  flat_map (fun k => enc (entry_prog rs bodies k)) (seq 0 (length bodies)).

(* ------------------------------------------------------------------ fitted state aliasing caller storage *)
(* attributes that may hold a reference to a caller-owned cell after some history (reporting; every
   other attribute provably never does: EffectsP.untainted_attr_not_caller) *)
Definition tainted_attrs (p : prog) : list attr := PS.elements (ta (analyse p)).

(* per class: [closure check passed; tainted attributes...] for the program of all methods *)
Definition unit_tainted (rs : list var) (bodies : list (list stmt)) : list nat :=
  let p := mkProg rs [] (concat bodies) [] in
  Nat.b2n (closed_ok p) :: map Pos.to_nat (tainted_attrs p).
