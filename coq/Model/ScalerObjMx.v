(* C11 (extension, round 3) — the StandardFlexibleScaler object as a state machine over an
   arbitrary real closed field: the twin of Model/ScalerObj.v (same transitions, the same
   programs run by [eval_mx]).  Matrices of different calls have different shapes, so a
   returned matrix is [boxed] (Model/MxBox.v) and data of width c is read at the fitted
   width d through [unbox] (the identity when c = d, the only case in which it is used).
   Definitions only. *)
From mathcomp Require Import all_ssreflect all_algebra.
From Verif Require Import MExp MExpMx MxBox Scaler ScalerMx.
Set Implicit Arguments.
Unset Strict Implicit.
Unset Printing Implicit Defensive.
Import GRing.Theory Num.Theory.
Local Open Scope ring_scope.

Section Obj.
  Variable F : rcfType.

  Record so_par := SoPar {
    p_wm : bool; p_ws : bool; p_cw : bool;       (* with_mean, with_std, column_wise *)
    p_rtol : F; p_atol : F }.

  (* n_samples_in_, n_features_in_, `scale_ is an ndarray`, (mean_, scale_ as a row) *)
  Record so_fitted := SoFit {
    f_n : nat; f_d : nat; f_arr : bool; f_st : 'rV[F]_f_d * 'rV[F]_f_d }.

  Record so_obj := SoObj { o_par : so_par; o_fit : option so_fitted }.

  Inductive so_op :=
  | OpSet (p : so_par)
  | OpFit (n d : nat) (X : 'M[F]_(n, d)) (hw : bool) (w : 'cV[F]_n)
  | OpTransform (k c : nat) (Y : 'M[F]_(k, c))
  | OpInverse (k c : nat) (T : 'M[F]_(k, c)).

  Inductive so_out := OutSelf | OutValueError | OutNotFitted | OutMat (B : boxed F).

  Definition so_cfg (p : so_par) (hw : bool) : sc_cfg := ScCfg (p_wm p) (p_ws p) (p_cw p) hw.

  Definition so_fit (p : so_par) (n d : nat) (X : 'M[F]_(n, d)) (hw : bool) (w : 'cV[F]_n)
    : option so_fitted * so_out :=
    let cfg := so_cfg p hw in
    match sc_fit_mx cfg (p_rtol p) (p_atol p) X w with
    | Some st => (Some (@SoFit n d (p_ws p && p_cw p) st), OutSelf)
    | None =>
        if (n < 2)%N then (None, OutValueError)
        else (Some (@SoFit n d false
                      (eval_mx (sc_env_fit_mx X w) (sc_mean cfg n d), const_mx 1)), OutValueError)
    end.

  Definition so_step (o : so_obj) (op : so_op) : so_obj * so_out :=
    match op with
    | OpSet p => (SoObj p (o_fit o), OutSelf)
    | OpFit n d X hw w =>
        match so_fit (o_par o) X hw w with
        | (Some f, out) => (SoObj (o_par o) (Some f), out)
        | (None, out) => (o, out)
        end
    | OpTransform k c Y =>
        match o_fit o with
        | None => (o, OutNotFitted)
        | Some f =>
            if c == f_d f
            then (o, OutMat (box (sc_transform_mx (f_st f) (unbox k (f_d f) (box Y)))))
            else (o, OutValueError)
        end
    | OpInverse k c T =>
        match o_fit o with
        | None => (o, OutNotFitted)
        | Some f =>
            if c == f_d f
            then (o, OutMat (box (sc_inverse_mx (f_st f) (unbox k (f_d f) (box T)))))
            else (o, OutValueError)
        end
    end.

  Fixpoint so_run (o : so_obj) (ops : seq so_op) : so_obj * seq so_out :=
    match ops with
    | [::] => (o, [::])
    | op :: rest =>
        let: (o1, out) := so_step o op in
        let: (o2, outs) := so_run o1 rest in (o2, out :: outs)
    end.

  (* ---- vocabulary of the theorems ------------------------------------------------------ *)
  (* the tolerances are sane and atol is at least a0 *)
  Definition par_ok (a0 : F) (p : so_par) : bool := (a0 <= p_atol p) && (0 <= p_rtol p).
  (* a call is admissible: set_params keeps the tolerances sane; given weights have a
     non-zero sum *)
  Definition op_ok (a0 : F) (op : so_op) : bool :=
    match op with
    | OpSet p => par_ok a0 p
    | OpFit _ _ _ hw w => hw ==> (wsum w != 0)
    | _ => true
    end.
  (* the stored scale_ is safe to divide by: positive, and either exactly 1 or its square is
     at least a0 *)
  Definition fit_good (a0 : F) (f : so_fitted) : Prop :=
    forall j, 0 < (f_st f).2 ord0 j
              /\ ((f_st f).2 ord0 j = 1 \/ a0 <= (f_st f).2 ord0 j ^+ 2).
  Definition obj_good (a0 : F) (o : so_obj) : Prop :=
    par_ok a0 (o_par o) /\ (forall f, o_fit o = Some f -> fit_good a0 f).
End Obj.
