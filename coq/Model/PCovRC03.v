(* C03, extension round 3: additions to the layer-A model Model/PCovR.v (shared with C04 / C14,
   therefore left untouched) that only C03 needs.  Definitions only.

   1. The ridge regressors inside the model: the normal equations
        (X^T X + alpha I) W = X^T Y
      of Ridge(alpha, fit_intercept=False) - the default regressor is Ridge(alpha=1e-6) - and of
      least squares (alpha = 0: LinearRegression(fit_intercept=False), and
      np.linalg.lstsq(X, Yhat) of regressor='precomputed' without W) as a residual program.
      Environment variable 14: alpha (1 x 1).
   2. _decompose_full as the code runs it: the oracle is scipy.linalg.svd's contract
        M = U diag(s) V^T,  U^T U = I,  V^T V = I,  s >= 0 decreasing
      for the FULL d x d modified matrix; sklearn's svd_flip (sign of the entry of largest
      absolute value in each column of U made positive, the same signs applied to the rows of
      Vt) and the truncation  U[:, :k], S[:k], Vt[:k]  are computed by the model.  With the signs
      fixed the projectors pxt_, ptx_, pty_ and the latent coordinates transform(X) are compared
      with the implementation ENTRY BY ENTRY (Model/PCovR.v compares sign-free aggregates only). *)
From Coq Require Import ZArith List Bool PrimFloat.
From Verif Require Import MExp PCovR.
Import ListNotations.

Definition valpha := 14%nat.

Section Progs.
  Variables n m p : nat.
  Definition sc_alpha : mexp 1 1 := MVar valpha.
  (* (X^T X + alpha I) W - X^T Y *)
  Definition ridge_res_prog : mexp m p :=
    MSub (MMul (MAdd (xtx_prog n m) (MScale sc_alpha (MId m))) (eW m p))
         (MMul (MTr (eX n m)) (eY n p)).
End Progs.

(* ======================================================================================= *)
Local Open Scope float_scope.

(* np.argmax(np.abs(col)): index of the FIRST maximal absolute value *)
Fixpoint argmax_abs_aux (l : list float) (i best : nat) (bv : float) : nat :=
  match l with
  | [] => best
  | x :: t => if ltb bv (abs x) then argmax_abs_aux t (S i) i (abs x)
              else argmax_abs_aux t (S i) best bv
  end.
Definition argmax_abs (l : list float) : nat :=
  match l with [] => 0%nat | x :: t => argmax_abs_aux t 1 0 (abs x) end.

(* np.sign *)
Definition fsign (x : float) : float := if ltb 0 x then 1 else if ltb x 0 then (-1) else 0.

(* svd_flip(U, Vt), u_based_decision=True: signs[j] = sign(U[argmax |U[:, j]|, j]) *)
Definition flip_signs (U : fmat) (k : nat) : list float :=
  map (fun j => let c := fcol U j in fsign (nth (argmax_abs c) c 0)) (seq 0 k).

(* Vt[:k] after the flip, as columns: V[:, :k] * signs *)
Definition flip_trunc (V : fmat) (signs : list float) (k : nat) : fmat :=
  map (fun row => fmap2 mul (firstn k row) signs) V.

(* how far the largest |entry| of a column of U is ahead of the second largest, relatively:
   the sign decision of svd_flip is stable under rounding iff this margin is not tiny *)
Definition replace_nth {A} (i : nat) (x : A) (l : list A) : list A :=
  firstn i l ++ x :: skipn (S i) l.

Definition c03x_outputs (c : pcase) (Vk Sk : fmat) : list fmat :=
  let n := pc_n c in let m := pc_m c in let p := pc_p c in let k := pc_k c in
  let q := pc_q c in let sp := pc_sample c in
  let e := env_of (replace_nth vS Sk (replace_nth vV Vk (pc_env c))) in
  let Xn : mexp q m := MVar vXn in
  [ eval_f e (pxt_prog n m p k sp);                        (* 0 pxt_  (= components_.T)  *)
    eval_f e (ptx_prog n m k sp);                          (* 1 ptx_                     *)
    eval_f e (pty_prog n m p k sp);                        (* 2 pty_                     *)
    eval_f e (transform_prog n m p k sp (eX n m));         (* 3 transform(X)             *)
    eval_f e (transform_prog n m p k sp Xn) ].             (* 4 transform(Xn)            *)

(* (residual, scale) of the svd contract and of the regressor's normal equations *)
Definition c03x_residuals (c : pcase) (Uf sf Vf : fmat) (ridge : bool) : list (float * float) :=
  let n := pc_n c in let m := pc_m c in let p := pc_p c in
  let d := if pc_sample c then n else m in
  let M := modmat_f c in
  let e := env_of (pc_env c) in
  let e' := fun i => if Nat.eqb i 100 then M else if Nat.eqb i 101 then Uf
                     else if Nat.eqb i 102 then sf else if Nat.eqb i 103 then Vf else e i in
  let r {a b} (x : mexp a b) := fmaxabs (eval_f e' x) in
  let Mt : mexp d d := MVar 100%nat in let U : mexp d d := MVar 101%nat in
  let s : mexp d 1 := MVar 102%nat in let V : mexp d d := MVar 103%nat in
  let sv := map (fun row => nth 0 row 0) sf in
  [ (r (MSub Mt (MMul (MMul U (MDiag s)) (MTr V))), r Mt);            (* 0 M = U diag s V^T *)
    (r (MSub (MMul (MTr U) U) (MId d)), 1);                           (* 1 U^T U = I *)
    (r (MSub (MMul (MTr V) V) (MId d)), 1);                           (* 2 V^T V = I *)
    (fsorted_defect sv, r s);                                         (* 3 s decreasing *)
    (fold_left (fun acc x => if ltb acc (- x) then - x else acc) sv 0, r s) ]   (* 4 s >= 0 *)
  ++ (if ridge then
        [ (r (ridge_res_prog n m p),
           r (MMul (MTr (eX n m)) (eY n p)) + r (xtx_prog n m) * r (eW m p)) ]   (* 5 normal eqs *)
      else []).

(* one case: flags of the entrywise comparisons, flags of the hypotheses, deviations, residuals;
   epsr: tolerance of the regressor's normal equations (an iterative / dual solver's answer) *)
Definition c03x_report (rtol atol eps epsr : float) (c : pcase) (Uf sf Vf : fmat) (ridge : bool)
                       (obs : list fmat) : list bool * list bool * list float * list float :=
  let k := pc_k c in
  let signs := flip_signs Uf k in
  let Vk := flip_trunc Vf signs k in
  let Sk := firstn k sf in
  let outs := c03x_outputs c Vk Sk in
  let res := c03x_residuals c Uf sf Vf ridge in
  (map2l (fclose rtol atol) outs obs,
   map2l (fun i rs => leb (fst rs) ((if Nat.eqb i 5 then epsr else eps) * (1 + snd rs)))
         (seq 0 (length res)) res,
   map2l fdev outs obs,
   map fst res).
