(* C02 extension (round 3): definitions only.
   (1) the distance induced by an arbitrary square matrix D, as _PCovFPS._update_hausdorff reads it:
         new_dist[j] = diag(D)[j] + diag(D)[l] - 2 * np.take(D, l, axis)[j]
       (axis 0: row l of D, axis 1: column l of D);
   (2) chains of fits of one estimator: a cold fit followed by warm-started continuations
       (GreedySelector.fit(warm_start=True) keeps norms_/hausdorff_/hausdorff_at_select_ and only pads
       the result buffers; _FPS/_PCovFPS do not override _continue_greedy_search). *)
From Verif Require Import ListX Greedy FPS.

Definition mentry (D : list (list Z)) (i j : nat) : Z := nth j (nth i D []) 0.

Definition mdist (axis1 : bool) (D : list (list Z)) (j l : nat) : Z :=
  mentry D j j + mentry D l l - 2 * (if axis1 then mentry D j l else mentry D l j).

Definition sqmat (n : nat) (D : list (list Z)) : Prop :=
  length D = n /\ Forall (fun r => length r = n) D.

(* stages (threshold, n_iterations) run one after the other on the same state *)
Fixpoint chain (runf : thr -> nat -> fps_g -> fps_g * bool) (g : fps_g) (stages : list (thr * nat)) : fps_g :=
  match stages with
  | [] => g
  | (t, k) :: rest => chain runf (fst (runf t k g)) rest
  end.

Definition fps_chain cs ycand inits stages : fps_g :=
  chain (fps_run cs ycand) (fps_init cs ycand inits) stages.
Definition pcov_chain axis1 D cs ycand i0 stages : fps_g :=
  chain (pcov_run axis1 D cs ycand) (pcov_init axis1 D cs ycand i0) stages.
