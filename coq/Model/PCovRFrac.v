(* C04, round 5: how PCovR._decompose_full resolves a FRACTIONAL n_components (0 < f < 1, full
   solver) to an integer number of components.  Definitions only.

     explained_variance_       = S / (n_samples - 1)            (S: all singular values = eigenvalues
     total_var                 = explained_variance_.sum()         of the modified matrix, decreasing)
     explained_variance_ratio_ = explained_variance_ / total_var
     ratio_cumsum              = stable_cumsum(explained_variance_ratio_)
     n_components_             = np.searchsorted(ratio_cumsum, f, side="right") + 1

   np.searchsorted(c, f, side="right") on a non-decreasing c is the number of LEADING entries
   that are <= f (every entry before the insertion point is <= f, the entry at it is > f).
   Exact model over Q (theorems: Proofs/PCovRFracP.v) and the same statements on binary64
   (run against the implementation's n_components_).                                          *)
From Coq Require Import ZArith QArith List Bool PrimFloat.
Import ListNotations.

(* ---- exact model ------------------------------------------------------------------------ *)
Fixpoint cumsum_q (acc : Q) (l : list Q) : list Q :=
  match l with [] => [] | x :: t => (acc + x)%Q :: cumsum_q (acc + x)%Q t end.

Definition total_q (l : list Q) : Q := fold_left Qplus l 0%Q.

Fixpoint searchsorted_right_q (f : Q) (c : list Q) : nat :=
  match c with
  | [] => 0%nat
  | x :: t => if Qle_bool x f then S (searchsorted_right_q f t) else 0%nat
  end.

Definition ratio_cumsum_q (sv : list Q) (n1 : Q) : list Q :=
  let ev := map (fun s => (s / n1)%Q) sv in
  let tot := total_q ev in
  cumsum_q 0%Q (map (fun e => (e / tot)%Q) ev).

Definition resolve_q (f : Q) (sv : list Q) (n1 : Q) : nat :=
  S (searchsorted_right_q f (ratio_cumsum_q sv n1)).

(* ---- binary64 --------------------------------------------------------------------------- *)
Local Open Scope float_scope.

Fixpoint cumsum_f (acc : float) (l : list float) : list float :=
  match l with [] => [] | x :: t => (acc + x) :: cumsum_f (acc + x) t end.

Definition total_f (l : list float) : float := fold_left add l 0.

Fixpoint searchsorted_right_f (f : float) (c : list float) : nat :=
  match c with
  | [] => 0%nat
  | x :: t => if leb x f then S (searchsorted_right_f f t) else 0%nat
  end.

Definition ratio_cumsum_f (sv : list float) (n1 : float) : list float :=
  let ev := map (fun s => s / n1) sv in
  let tot := total_f ev in
  cumsum_f 0 (map (fun e => e / tot) ev).

Definition resolve_f (f : float) (sv : list float) (n1 : float) : nat :=
  S (searchsorted_right_f f (ratio_cumsum_f sv n1)).

(* report of one case (same type as PCovR.c04_report so that it goes into the same Eval):
   sv: column matrix of ALL singular values of the modified matrix, n1 = n_samples - 1,
   kobs = the implementation's n_components_ after fit(n_components = f).
   flags: [resolve_f = kobs];  values: [the cumulative ratios]                                *)
Definition c04_frac_report (f n1 : float) (sv : list (list float)) (kobs : nat)
  : list bool * list float * list float :=
  let s := map (fun row => nth 0 row 0) sv in
  ([Nat.eqb (resolve_f f s n1) kobs], ratio_cumsum_f s n1, []).
