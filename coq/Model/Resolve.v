(* n_to_select given as a float fraction: resolved on binary64 as Python does. *)
From Coq Require Import PrimFloat.
From Verif Require Import ListX FloatX Greedy.
Definition nts_frac (n : nat) (f : float) : nts :=
  NtsFrac (frac_resolve (Z.of_nat n) f) (frac_valid f).
