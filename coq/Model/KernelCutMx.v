(* C12 (extension) — the pinv cut-off program of Model/KernelCut.v interpreted over mathcomp
   matrices on an arbitrary real closed field, and the vocabulary of its theorems.
   Definitions only. *)
From mathcomp Require Import all_ssreflect all_algebra.
From Verif Require Import MExp MExpMx MxBox ScalerMx KernelNorm KernelNormMx KernelCut.
Set Implicit Arguments.
Unset Strict Implicit.
Unset Printing Implicit Defensive.
Import GRing.Theory Num.Theory.
Local Open Scope ring_scope.

Section Cut.
  Variable F : rcfType.
  Variable m : nat.
  Let b0 := box0 F.

  (* the program [pc_P] with the cut-off t on |eigenvalue| (variable 12 holds t^2) *)
  Definition pc_P_mx (t : F) (U : 'M[F]_m) (v : 'rV[F]_m) : 'M[F]_m :=
    eval_mx (env_of [:: b0; b0; b0; b0; b0; b0; b0; b0; b0; b0; box U; box v;
                        box ((t ^+ 2)%:M : 'M[F]_1)]) (pc_P m).

  (* eigenvalues inverted above the cut-off, zero below; the retained eigenvalues *)
  Definition cut_inv (t : F) (v : 'rV[F]_m) : 'rV[F]_m :=
    \row_j (if t < `|v ord0 j| then (v ord0 j)^-1 else 0).
  Definition cut_keep (t : F) (v : 'rV[F]_m) : 'rV[F]_m :=
    \row_j (if t < `|v ord0 j| then v ord0 j else 0).

  (* x = amax(s): the largest |eigenvalue| *)
  Definition is_vmax (x : F) (v : 'rV[F]_m) : Prop :=
    (forall j, `|v ord0 j| <= x) /\ (exists j, `|v ord0 j| = x).

  (* the spectral oracle (numpy.linalg.eigh): U orthogonal, K = U diag(v) U^T *)
  Definition spectral (K U : 'M[F]_m) (v : 'rV[F]_m) : Prop :=
    U^T *m U = 1%:M /\ K = U *m diag_mx v *m U^T.
End Cut.
