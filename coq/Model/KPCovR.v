(* C05 — model of skmatter.decomposition.KernelPCovR (src/skmatter/decomposition/_kernel_pcovr.py),
   the KernelNormalizer it uses for center=True (preprocessing/_data.py) and the "precomputed"
   branch of utils._pcovr_utils.pcovr_kernel, as programs of the typed matrix-expression
   language of Base/MExp.v.  Definitions only.  The same programs are run on binary64 by
   [MExp.eval_f] in the correspondence check (cases at the end of this file) and interpreted over
   an arbitrary real closed field by [MExpMx.eval_mx] in Proofs/KPCovRP.v.

   Shapes: n training samples, p targets, k components, v held-out samples, d features.

   Kernel evaluation (sklearn pairwise_kernels) is an oracle: programs start from kernel matrices.
   LAPACK results are oracles held in variables and constrained by hypotheses:
     (V,S)  top-k singular pairs of K~   (code: linalg.svd, Vt.T and S are used)
     PT     np.linalg.lstsq(T, I, rcond=tol)[0]          = pseudo-inverse of T
     G      np.linalg.lstsq(t_n^T t_n, I, rcond=tol)[0]  = pseudo-inverse of t_n^T t_n  (score)
   The regression weights W (KernelRidge.dual_coef_, the W argument, or lstsq(K, Yhat)) are an
   input; Yhat = K W is formed by the program on the regressor path, Yhat = Y on the
   regressor="precomputed" path. *)
From Coq Require Import ZArith List Bool PrimFloat.
From Verif Require Import MExp.
Import ListNotations.

(* ---- variables ------------------------------------------------------------------------------ *)
Definition vK := 0%nat.      (* n x n   training kernel handed to _fit (centred if center=True) *)
Definition vYh := 1%nat.     (* n x p   Yhat *)
Definition vW := 2%nat.      (* n x p   dual regression weights *)
Definition va := 3%nat.      (* 1 x 1   mixing *)
Definition vV := 4%nat.      (* n x k   oracle: right singular vectors of K~ (columns) *)
Definition vS := 5%nat.      (* k x 1   oracle: singular values of K~ *)
Definition vtol := 6%nat.    (* 1 x 1   tol *)
Definition vY := 7%nat.      (* n x p   Y as passed to fit *)
Definition vPT := 8%nat.     (* k x n   oracle: pt__ *)
Definition vKt := 9%nat.     (* v x n   K_VN: kernel between new samples and X_fit_ *)
Definition vKvv := 10%nat.   (* v x v   K_VV *)
Definition vYv := 11%nat.    (* v x p   targets passed to score *)
Definition vG := 12%nat.     (* k x k   oracle: pinv(t_n^T t_n) in score *)
Definition vX := 13%nat.     (* n x d   features (linear-kernel statements only) *)
Definition vXt := 14%nat.    (* v x d   new features (linear-kernel statements only) *)
Definition vWx := 15%nat.    (* d x p   primal regression weights (sample-space PCovR) *)

Definition c1 : mexp 1 1 := MConst 1%Z.
Definition c2 : mexp 1 1 := MConst 2%Z.
Definition aa : mexp 1 1 := MVar (m:=1) (n:=1) va.
Definition tl : mexp 1 1 := MVar (m:=1) (n:=1) vtol.

(* ---- substitution of variables by expressions (used for center=True, linear kernel, the two
        regressor paths, and V = N in score) ------------------------------------------------- *)
Definition subst_t := forall m n : nat, nat -> mexp m n.
Fixpoint msubst (s : subst_t) {m n : nat} (e : mexp m n) : mexp m n :=
  match e in mexp m n return mexp m n with
  | @MVar m n x => s m n x
  | MConst z => MConst z
  | MZero m n => MZero m n
  | MOnes m n => MOnes m n
  | MId n => MId n
  | MAdd a b => MAdd (msubst s a) (msubst s b)
  | MSub a b => MSub (msubst s a) (msubst s b)
  | MMul a b => MMul (msubst s a) (msubst s b)
  | MScale c a => MScale (msubst s c) (msubst s a)
  | MTr a => MTr (msubst s a)
  | MDiag v => MDiag (msubst s v)
  | MDiagOf a => MDiagOf (msubst s a)
  | MMap f t a => MMap f (msubst s t) (msubst s a)
  | MHad a b => MHad (msubst s a) (msubst s b)
  | MTrace a => MTrace (msubst s a)
  end.

(* replace variable x at shape (m0,n0) by e0, leave everything else *)
Definition sub1 (x : nat) (m0 n0 : nat) (e0 : mexp m0 n0) (rest : subst_t) : subst_t :=
  fun m n y =>
    match Nat.eq_dec m0 m, Nat.eq_dec n0 n with
    | left em, left en =>
        if Nat.eqb x y
        then eq_rect n0 (fun n' => mexp m n') (eq_rect m0 (fun m' => mexp m' n0) e0 m em) n en
        else rest m n y
    | _, _ => rest m n y
    end.
Definition sid : subst_t := fun m n y => MVar y.

(* ---- _fit ---------------------------------------------------------------------------------- *)
Section Fit.
  Variables n p k : nat.
  Let K : mexp n n := MVar vK.
  Let Yh : mexp n p := MVar vYh.
  Let W : mexp n p := MVar vW.
  Let V : mexp n k := MVar vV.
  Let S : mexp k 1 := MVar vS.
  Let Y : mexp n p := MVar vY.
  Let PT : mexp k n := MVar vPT.

  (* pcovr_kernel(mixing, X=K, Y=Yhat, kernel="precomputed"):
       K~ = 0; if mixing < 1: K~ += (1-mixing)*Yhat@Yhat.T; if mixing > 0: K~ += mixing*K.
     The two guards only skip adding a term whose coefficient is 0, so the value is the
     unconditional sum below (for finite inputs). *)
  Definition ktilde_prog : mexp n n :=
    MAdd (MScale (MSub c1 aa) (MMul Yh (MTr Yh))) (MScale aa K).

  (* P = mixing*eye(n) + (1-mixing) * (W @ Yhat.T) *)
  Definition P_prog : mexp n n :=
    MAdd (MScale aa (MId n)) (MScale (MSub c1 aa) (MMul W (MTr Yh))).

  (* np.sqrt(np.diagflat([1/s if s > tol else 0 for s in S])) *)
  Definition isqrtS_prog : mexp k k := MMap Fsqrt c1 (MDiag (MMap Finv_gt tl S)).

  (* pkt_ = P @ U @ sqrt(diagflat(S_inv)) *)
  Definition pkt_prog : mexp n k := MMul (MMul P_prog V) isqrtS_prog.

  (* T = K @ pkt_ *)
  Definition T_prog : mexp n k := MMul K pkt_prog.

  (* pt__ = lstsq(T, eye, rcond=tol)[0] -> oracle PT;  ptk_, pty_, pky_ *)
  Definition ptk_prog : mexp k n := MMul PT K.
  Definition pty_prog : mexp k p := MMul PT Y.
  Definition pky_prog : mexp n p := MMul pkt_prog pty_prog.

  (* oracle hypotheses as residual programs (zero matrices when the hypotheses hold) *)
  Definition orth_res : mexp k k := MSub (MMul (MTr V) V) (MId k).
  Definition eig_res : mexp n k := MSub (MMul ktilde_prog V) (MMul V (MDiag S)).
  Definition pen1_res : mexp n k := MSub (MMul (MMul T_prog PT) T_prog) T_prog.
  Definition pen2_res : mexp k n := MSub (MMul (MMul PT T_prog) PT) PT.
  Definition pen3_res : mexp n n := MSub (MTr (MMul T_prog PT)) (MMul T_prog PT).
  Definition pen4_res : mexp k k := MSub (MTr (MMul PT T_prog)) (MMul PT T_prog).

  (* sign-invariant observables of the fitted attributes *)
  Definition pktpkt_prog : mexp n n := MMul pkt_prog (MTr pkt_prog).
  Definition ptypty_prog : mexp p p := MMul (MTr pty_prog) pty_prog.

  (* the regressor path: Yhat = K @ W *)
  Definition yhat_KW : mexp n p := MMul K W.
  (* KernelRidge fitted on the (precomputed) kernel: (K + alpha I) W = Y; alpha is variable 18 *)
  Definition krr_res : mexp n p :=
    MSub (MMul (MAdd K (MScale (MVar (m:=1) (n:=1) 18%nat) (MId n))) W) Y.

  Section NewData.
    Variable v : nat.
    Let Kt : mexp v n := MVar vKt.
    Let Kvv : mexp v v := MVar vKvv.
    Let Yv : mexp v p := MVar vYv.
    Let G : mexp k k := MVar vG.

    (* transform: K_VN @ pkt_ ; predict: K_VN @ pky_ *)
    Definition transform_prog : mexp v k := MMul Kt pkt_prog.
    Definition predict_prog : mexp v p := MMul Kt pky_prog.
    Definition tt_prog : mexp v v := MMul transform_prog (MTr transform_prog).

    (* ---- score ------------------------------------------------------------------------------
       y = K_VN @ pky_;  Lkrr = norm(Y - y)**2 / norm(Y)**2
       t_n = K_NN @ pkt_;  t_v = K_VN @ pkt_
       w = t_n @ lstsq(t_n.T @ t_n, eye(k), rcond=tol)[0] @ t_v.T          (n x v)
       Lkpca = trace(K_VV - 2*K_VN@w + w.T @ B @ w) / trace(K_VV)
       return -sum([Lkpca, Lkrr])
       where the documentation has B = K_NN; the unrepaired code has B = K_VV (finding F4).
       [sqnorm A] = trace(A^T A) = norm(A)**2. *)
    Definition sqnorm {a b : nat} (A : mexp a b) : mexp 1 1 := MTrace (MMul (MTr A) A).
    Definition lkrr_prog : mexp 1 1 :=
      MMul (sqnorm (MSub Yv predict_prog)) (MMap Frecip c1 (sqnorm Yv)).
    Definition tn_prog : mexp n k := MMul K pkt_prog.
    Definition gram_tn : mexp k k := MMul (MTr tn_prog) tn_prog.
    Definition w_prog : mexp n v := MMul (MMul tn_prog G) (MTr transform_prog).
    (* the quadratic term's block B is a parameter so that the formula of the code before the
       repair (B = K_VV, only typeable when v = n) can be stated next to the documented one *)
    Definition lkpca_num_B (B : mexp n n) : mexp v v :=
      MAdd (MSub Kvv (MScale c2 (MMul Kt w_prog))) (MMul (MMul (MTr w_prog) B) w_prog).
    Definition lkpca_prog_B (B : mexp n n) : mexp 1 1 :=
      MMul (MTrace (lkpca_num_B B)) (MMap Frecip c1 (MTrace Kvv)).
    Definition score_prog_B (B : mexp n n) : mexp 1 1 :=
      MMap Fneg c1 (MAdd (MAdd (MZero 1 1) (lkpca_prog_B B)) lkrr_prog).
    Definition score_prog : mexp 1 1 := score_prog_B K.

    (* Penrose residuals for the oracle G against A = t_n^T t_n *)
    Definition gpen1_res : mexp k k := MSub (MMul (MMul gram_tn G) gram_tn) gram_tn.
    Definition gpen2_res : mexp k k := MSub (MMul (MMul G gram_tn) G) G.
    Definition gpen3_res : mexp k k := MSub (MTr (MMul gram_tn G)) (MMul gram_tn G).
    Definition gpen4_res : mexp k k := MSub (MTr (MMul G gram_tn)) (MMul G gram_tn).
  End NewData.

  (* the in-sample expression (tests/test_kernel_pcovr.py::test_kpcovr_error):
       w = t pinv(t^T t) t^T;  Lkpca = trace(K - K w)/trace(K);  Lkrr on the training targets *)
  Definition w_train : mexp n n := MMul (MMul tn_prog (MVar vG)) (MTr tn_prog).
  Definition lkpca_train : mexp 1 1 :=
    MMul (MTrace (MSub K (MMul K w_train))) (MMap Frecip c1 (MTrace K)).
  Definition lkrr_train : mexp 1 1 :=
    MMul (sqnorm (MSub (MVar (m:=n) (n:=p) vYv) (MMul K pky_prog)))
         (MMap Frecip c1 (sqnorm (MVar (m:=n) (n:=p) vYv))).
  Definition score_train_prog : mexp 1 1 :=
    MMap Fneg c1 (MAdd (MAdd (MZero 1 1) lkpca_train) lkrr_train).
End Fit.

(* V = N: the three kernel blocks are the training kernel *)
Definition s_train (n : nat) : subst_t :=
  sub1 vKt n n (MVar vK) (sub1 vKvv n n (MVar vK) sid).

(* regressor != "precomputed": Yhat = K @ W;  regressor == "precomputed": Yhat = Y *)
Definition s_regr (n p : nat) : subst_t := sub1 vYh n p (yhat_KW n p) sid.
Definition s_precomp (n p : nat) : subst_t := sub1 vYh n p (MVar vY) sid.

(* ---- KernelNormalizer (with_center=True, with_trace=True, no sample weights) -----------------
   fit(K):  K_fit_rows_ = K.sum(axis=0)/n;  K_fit_all_ = K_fit_rows_.sum()/n;
            scale_ = trace(K - K_fit_rows_ - rowmeans(K)[:,None] + K_fit_all_)/n
   transform(M) (M is m x n):  (M - K_fit_rows_ - rowmeans(M)[:,None] + K_fit_all_)/scale_     *)
Section Normalizer.
  Variable n : nat.
  Variable Kr : mexp n n.          (* the kernel the normalizer was fitted on *)
  Definition invn : mexp 1 1 := MMap Frecip c1 (MConst (Z.of_nat n)).
  Definition kfit_rows : mexp 1 n := MScale invn (MMul (MOnes 1 n) Kr).
  Definition kfit_all : mexp 1 1 := MScale invn (MMul kfit_rows (MOnes n 1)).
  Definition rowmeans {m : nat} (M : mexp m n) : mexp m 1 := MScale invn (MMul M (MOnes n 1)).
  Definition cen {m : nat} (M : mexp m n) : mexp m n :=
    MAdd (MSub (MSub M (MMul (MOnes m 1) kfit_rows)) (MMul (rowmeans M) (MOnes 1 n)))
         (MScale kfit_all (MOnes m n)).
  Definition kscale : mexp 1 1 := MScale invn (MTrace (cen Kr)).
  Definition knorm {m : nat} (M : mexp m n) : mexp m n := MScale (MMap Frecip c1 kscale) (cen M).
  (* the V x V block in the same centred and scaled feature space: both means are taken over the
     training set, i.e. they are the row means of the raw V x N block (repaired code, F4) *)
  Definition knorm_vv {v : nat} (Kvn : mexp v n) (Kvv : mexp v v) : mexp v v :=
    MScale (MMap Frecip c1 kscale)
      (MAdd (MSub (MSub Kvv (MMul (rowmeans Kvn) (MOnes 1 v))) (MMul (MOnes v 1) (MTr (rowmeans Kvn))))
            (MScale kfit_all (MOnes v v))).
End Normalizer.

(* center=True: every kernel block is replaced by its normalised version; the raw blocks are the
   variables vK, vKt, vKvv themselves *)
Definition s_center (n v : nat) : subst_t :=
  sub1 vK n n (knorm n (MVar vK) (MVar vK))
   (sub1 vKt v n (knorm n (MVar vK) (MVar vKt))
     (sub1 vKvv v v (knorm_vv n (MVar vK) (MVar vKt) (MVar vKvv)) sid)).

(* ---- linear kernel and sample-space PCovR (decomposition/_pcovr.py::_fit_sample_space) ------- *)
Definition s_linear (n d v : nat) : subst_t :=
  sub1 vK n n (MMul (MVar (m:=n) (n:=d) vX) (MTr (MVar (m:=n) (n:=d) vX)))
   (sub1 vKt v n (MMul (MVar (m:=v) (n:=d) vXt) (MTr (MVar (m:=n) (n:=d) vX))) sid).

Section SampleSpacePCovR.
  Variables n d p k : nat.
  Let X : mexp n d := MVar vX.
  Let Yh : mexp n p := MVar vYh.
  Let Wx : mexp d p := MVar vWx.
  Let V : mexp n k := MVar vV.
  Let S : mexp k 1 := MVar vS.
  Let Y : mexp n p := MVar vY.
  (* Kt = pcovr_kernel(mixing, X, Yhat)  (no kernel argument: linear) *)
  Definition pc_ktilde : mexp n n :=
    MAdd (MScale (MSub c1 aa) (MMul Yh (MTr Yh))) (MScale aa (MMul X (MTr X))).
  (* P = mixing*X.T + (1-mixing) * W @ Yhat.T *)
  Definition pc_P : mexp d n := MAdd (MScale aa (MTr X)) (MScale (MSub c1 aa) (MMul Wx (MTr Yh))).
  (* T = Vt.T @ diagflat([1/sqrt(s) if s > tol else 0]) *)
  Definition pc_T : mexp n k := MMul V (MDiag (MMap Fisqrt_gt tl S)).
  Definition pc_pxt : mexp d k := MMul pc_P pc_T.
  Definition pc_pty : mexp k p := MMul (MTr pc_T) Y.
  Definition pc_pxy : mexp d p := MMul pc_pxt pc_pty.
  Definition pc_transform {v : nat} : mexp v k := MMul (MVar (m:=v) (n:=d) vXt) pc_pxt.
  Definition pc_predict {v : nat} : mexp v p := MMul (MVar (m:=v) (n:=d) vXt) pc_pxy.
End SampleSpacePCovR.

(* ---- shapes of the score formula: untyped syntax and a shape checker --------------------------
   In [mexp] an ill-formed product cannot be written.  To state "the formula is well-formed for
   every n_V" (and that the unrepaired code's formula is not) expressions are erased to an
   untyped syntax on which shapes are computed the way numpy checks them. *)
Inductive rexp :=
| RVar (m n x : nat) | RConst (z : Z) | RZero (m n : nat) | ROnes (m n : nat) | RId (n : nat)
| RAdd (a b : rexp) | RSub (a b : rexp) | RMul (a b : rexp) | RScale (c a : rexp) | RTr (a : rexp)
| RDiag (a : rexp) | RDiagOf (a : rexp) | RMap (f : sfun) (t a : rexp) | RHad (a b : rexp)
| RTrace (a : rexp).

Fixpoint erase {m n : nat} (e : mexp m n) : rexp :=
  match e with
  | @MVar m n x => RVar m n x
  | MConst z => RConst z
  | MZero m n => RZero m n
  | MOnes m n => ROnes m n
  | MId n => RId n
  | MAdd a b => RAdd (erase a) (erase b)
  | MSub a b => RSub (erase a) (erase b)
  | MMul a b => RMul (erase a) (erase b)
  | MScale c a => RScale (erase c) (erase a)
  | MTr a => RTr (erase a)
  | MDiag v => RDiag (erase v)
  | MDiagOf a => RDiagOf (erase a)
  | MMap f t a => RMap f (erase t) (erase a)
  | MHad a b => RHad (erase a) (erase b)
  | MTrace a => RTrace (erase a)
  end.

Definition shape := (nat * nat)%type.
Definition shape_eqb (s t : shape) : bool := (Nat.eqb (fst s) (fst t) && Nat.eqb (snd s) (snd t))%bool.
Definition same (s t : option shape) : option shape :=
  match s, t with Some a, Some b => if shape_eqb a b then Some a else None | _, _ => None end.
Definition is11 (s : option shape) : bool :=
  match s with Some a => shape_eqb a (1, 1)%nat | None => false end.
Fixpoint rshape (r : rexp) : option shape :=
  match r with
  | RVar m n _ => Some (m, n)
  | RConst _ => Some (1, 1)%nat
  | RZero m n | ROnes m n => Some (m, n)
  | RId n => Some (n, n)
  | RAdd a b | RSub a b | RHad a b => same (rshape a) (rshape b)
  | RMul a b => match rshape a, rshape b with
                | Some (m, n), Some (n', q) => if Nat.eqb n n' then Some (m, q) else None
                | _, _ => None end
  | RScale c a => if is11 (rshape c) then rshape a else None
  | RTr a => match rshape a with Some (m, n) => Some (n, m) | None => None end
  | RDiag a => match rshape a with Some (n, 1%nat) => Some (n, n) | _ => None end
  | RDiagOf a => match rshape a with Some (m, n) => if Nat.eqb m n then Some (n, 1%nat) else None
                                | None => None end
  | RMap _ t a => if is11 (rshape t) then rshape a else None
  | RTrace a => match rshape a with Some (m, n) => if Nat.eqb m n then Some (1, 1)%nat else None
                               | None => None end
  end.

(* the score formula with the block B of the quadratic term left open:
   B = K_NN (documented; n x n)  or  B = K_VV (code before the repair; v x v) *)
Section RawScore.
  Variables n p k v : nat.
  Definition rKt := RVar v n vKt.
  Definition rKvv := RVar v v vKvv.
  Definition rw : rexp := erase (w_prog n p k v).
  Definition raw_score (B : rexp) : rexp :=
    RMap Fneg (RConst 1)
      (RAdd (RAdd (RZero 1 1)
               (RMul (RTrace (RAdd (RSub rKvv (RScale (RConst 2) (RMul rKt rw)))
                                   (RMul (RMul (RTr rw) B) rw)))
                     (RMap Frecip (RConst 1) (RTrace rKvv))))
            (erase (lkrr_prog n p k v))).
  Definition raw_score_doc : rexp := raw_score (RVar n n vK).
  Definition raw_score_code_before_fix : rexp := raw_score rKvv.
End RawScore.

(* ---- correspondence cases (binary64) ---------------------------------------------------------- *)
Open Scope float_scope.
Definition mkenv (l : list (nat * fmat)) : nat -> fmat :=
  fun x => match find (fun q => Nat.eqb (fst q) x) l with Some q => snd q | None => [] end.

(* |R| <= eps * max(1, scale) entrywise *)
Definition small (eps scale : float) (R : fmat) : bool :=
  leb (fmaxabs R) (eps * (if ltb 1 scale then scale else 1)).

Record newdata := mk_new {
  nd_v : nat; nd_Kt : fmat; nd_Kvv : fmat; nd_Yv : fmat; nd_G : fmat;
  nd_tt : fmat;        (* implementation: transform(Xv) @ transform(Xv).T *)
  nd_pred : fmat;      (* implementation: predict(Xv) as v x p *)
  nd_score : option float   (* implementation: score(Xv, Yv); None = not compared *)
}.

(* configurations are lists of substitutions applied in order (e.g. regressor path, then
   center=True) *)
Fixpoint msubsts (l : list subst_t) {m n : nat} (e : mexp m n) : mexp m n :=
  match l with [] => e | s :: l' => msubsts l' (msubst s e) end.
Definition evs (env : nat -> fmat) (s : list subst_t) {a b : nat} (e : mexp a b) : fmat :=
  eval_f env (msubsts s e).

(* configuration: regressor path (Yhat = K W) or regressor="precomputed" (Yhat = Y); center *)
Definition cfg (regr center : bool) (n p v : nat) : list subst_t :=
  (if regr then [s_regr n p] else [s_precomp n p]) ++ (if center then [s_center n v] else []).

Definition check_new (rtol : float) (n p k : nat) (cf : nat -> list subst_t) (base : list (nat * fmat))
           (nd : newdata) : list bool :=
  let v := nd_v nd in
  let s := cf v in
  let env := mkenv ((vKt, nd_Kt nd) :: (vKvv, nd_Kvv nd) :: (vYv, nd_Yv nd) :: (vG, nd_G nd) :: base) in
  let ev := @evs env s in
  let A := ev _ _ (gram_tn n p k) in
  let sc := fmaxabs A in
  let isc := fmaxabs (nd_G nd) in
  [ fclose rtol 0x1p-40 (ev _ _ (tt_prog n p k v)) (nd_tt nd);
    fclose rtol 0x1p-40 (ev _ _ (predict_prog n p k v)) (nd_pred nd);
    match nd_score nd with
    | None => true
    | Some sc_impl =>
        (small 0x1p-30 (sc * sc * isc) (ev _ _ (gpen1_res n p k)) &&
         small 0x1p-30 (isc * isc * sc) (ev _ _ (gpen2_res n p k)) &&
         small 0x1p-30 (sc * isc) (ev _ _ (gpen3_res n p k)) &&
         small 0x1p-30 (sc * isc) (ev _ _ (gpen4_res n p k)))%bool
    end;
    match nd_score nd with
    | None => true
    | Some sc_impl => fclose rtol 0x1p-40 (ev _ _ (score_prog n p k v)) [[sc_impl]]
    end ].

(* one fitted estimator with several new-data sets.  [s] selects the configuration
   (regressor path, center, ...).  Returns the list of individual verdicts. *)
Definition check_fit (rtol : float) (n p k : nat) (cf : nat -> list subst_t) (base : list (nat * fmat))
           (krr : bool) (pktpkt pky ptypty : fmat) (nds : list newdata) : list bool :=
  let env := mkenv base in
  let s := cf 0%nat in
  let ev := @evs env s in
  let kt := fmaxabs (ev _ _ (ktilde_prog n p)) in
  let T := ev _ _ (T_prog n p k) in
  let tsc := fmaxabs T in
  let psc := fmaxabs (env vPT) in
  [ small 0x1p-36 1 (ev _ _ (orth_res n k));
    small 0x1p-36 kt (ev _ _ (eig_res n p k));
    (small 0x1p-30 (tsc * tsc * psc) (ev _ _ (pen1_res n p k)) &&
     small 0x1p-30 (psc * psc * tsc) (ev _ _ (pen2_res n p k)) &&
     small 0x1p-30 (tsc * psc) (ev _ _ (pen3_res n p k)) &&
     small 0x1p-30 (tsc * psc) (ev _ _ (pen4_res n p k)))%bool;
    (if krr then small 0x1p-30 (fmaxabs (env vY)) (ev _ _ (krr_res n p)) else true);
    fclose rtol 0x1p-40 (ev _ _ (pktpkt_prog n p k)) pktpkt;
    fclose rtol 0x1p-40 (ev _ _ (pky_prog n p k)) pky;
    fclose rtol 0x1p-40 (ev _ _ (ptypty_prog n p k)) ptypty ]
  ++ flat_map (check_new rtol n p k cf base) nds.

Definition all_true (l : list bool) : bool := forallb (fun b => b) l.
(* positions of failed verdicts of one case (for diagnostics) *)
Definition failed_at (l : list bool) : list nat :=
  map fst (filter (fun q => negb (snd q)) (combine (seq 0 (length l)) l)).
