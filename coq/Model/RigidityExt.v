(* Extension of Model/Rigidity.v (round 3).  Definitions only.

   1. np.linalg.matrix_rank's rule as ONE polymorphic definition [rank_of_sv_g] over a record of
      operations: instantiated with binary64 ([float_ops], provably the same function as
      Rigidity.rank_of_sv) for the run, and with an arbitrary real closed field in
      Proofs/RigidityExtP.v for the theorems.
   2. The singular value decomposition that matrix_rank computes is an oracle (U, s, Vt) held
      in three more environment variables; its defining equations are mexp programs
      ([svd_recon_prog], [svd_orthU_prog], [svd_orthV_prog]) whose residuals Coq evaluates in
      binary64 on the MODEL's regularised covariance - the same programs are the hypotheses of
      the rank theorems.
   3. The denominators x Xinv x^T as programs of their own ([lpr_den_prog] ...): the
      rigidity programs are Frecip of them; on a zero (masked) row the denominator is exactly
      0 and binary64 returns 1/0 = +inf, which the extended comparison [rel_close_x] accepts
      only against +inf.
   4. Verdicts for the intermediate state of the implementation (the matrix handed to
      np.linalg.pinv / matrix_rank, the value pinv returned, the rank matrix_rank returned). *)
From Coq Require Import ZArith List Bool PrimFloat.
From Verif Require Import MExp Rigidity.
Import ListNotations.
Close Scope float_scope.
Open Scope nat_scope.

(* ------------------------------------------------------------------ 1. threshold rule *)
Record fops (T : Type) := {
  o_zero : T; o_ltb : T -> T -> bool; o_mul : T -> T -> T; o_ofnat : nat -> T; o_eps : T }.
Arguments o_zero {T}. Arguments o_ltb {T}. Arguments o_mul {T}. Arguments o_ofnat {T}.
Arguments o_eps {T}.

Section Threshold.
  Context {T : Type} (o : fops T).
  (* S.max() (of non-negative values; 0 for the empty list) *)
  Definition sv_max (sv : list T) : T :=
    fold_left (fun a x => if o_ltb o a x then x else a) sv (o_zero o).
  (* tol = S.max() * max(M.shape) * eps *)
  Definition sv_tol (dim : nat) (sv : list T) : T :=
    o_mul o (o_mul o (sv_max sv) (o_ofnat o dim)) (o_eps o).
  (* count_nonzero(S > tol) *)
  Definition rank_of_sv_g (dim : nat) (sv : list T) : nat :=
    length (filter (fun s => o_ltb o (sv_tol dim sv) s) sv).
  (* X_struc.shape[1] - matrix_rank(Xprime) *)
  Definition rank_diff_g (dim : nat) (sv : list T) : nat := dim - rank_of_sv_g dim sv.
End Threshold.

Definition float_ops : fops float :=
  {| o_zero := 0%float; o_ltb := ltb; o_mul := mul;
     o_ofnat := fun n => fof_Z (Z.of_nat n); o_eps := 0x1p-52%float |}.

(* ------------------------------------------------------------------ 2. SVD oracle *)
(* further variables: 7 U (d x d) | 8 s (d x 1, singular values) | 9 Vt (d x d) *)
Section RankProgs.
  Variables (d N S : nat).
  Definition vU : mexp d d := MVar 7.
  Definition vS : mexp d 1 := MVar 8.
  Definition vVt : mexp d d := MVar 9.
  (* U diag(s) Vt - Xprime *)
  Definition svd_recon_prog : mexp d d :=
    MSub (MMul (MMul vU (MDiag vS)) vVt) (xprime_prog d N S).
  Definition svd_orthU_prog : mexp d d := MSub (MMul (MTr vU) vU) (MId d).
  Definition svd_orthV_prog : mexp d d := MSub (MMul vVt (MTr vVt)) (MId d).
End RankProgs.

(* ------------------------------------------------------------------ 3. denominators *)
Section DenProgs.
  Variables (d N Nt St : nat).
  Definition lpr_den_prog : mexp Nt 1 := quad_prog d (xtest_prog d N Nt).
  Definition lcpr_den_prog : mexp Nt 1 := quad_prog d (masked d (xtest_prog d N Nt)).
  Definition cpr_den_prog : mexp St 1 :=
    quad_prog d (masked d (means_prog d N (vMte Nt St) (vXte d Nt))).
End DenProgs.

(* ------------------------------------------------------------------ binary64 driver *)
Open Scope float_scope.

Definition col_of (sv : list float) : fmat := map (fun s => [s]) sv.

Record svd_hint := { h_U : fmat; h_sv : list float; h_Vt : fmat }.

Section DriverX.
  Variable inp : rig_in.
  Variable h : svd_hint.
  Let Xtr := concat (r_train inp).
  Let d := length (hd [] Xtr).
  Let N := length Xtr.
  Let Sn := length (r_train inp).
  Definition rank_env_of (x : nat) : fmat :=
    match x with
    | 7%nat => h_U h | 8%nat => col_of (h_sv h) | 9%nat => h_Vt h
    | _ => rig_env_of inp [] x
    end.
  Definition svd_recon_f : float := fmaxabs (eval_f rank_env_of (svd_recon_prog d N Sn)).
  Definition svd_orthU_f : float := fmaxabs (eval_f rank_env_of (svd_orthU_prog d)).
  Definition svd_orthV_f : float := fmaxabs (eval_f rank_env_of (svd_orthV_prog d)).
  Definition feat_dim : nat := d.
End DriverX.

(* the hint is a decomposition of the model's own matrix: square of the right size,
   non-negative values, U diag(s) Vt = Xprime within tol * s_max, orthogonal factors *)
Definition square_of (n : nat) (A : fmat) : bool :=
  Nat.eqb (length A) n && forallb (fun r => Nat.eqb (length r) n) A.
Definition svd_hint_ok (inp : rig_in) (h : svd_hint) (tol : float) : bool :=
  let d := feat_dim inp in
  square_of d (h_U h) && square_of d (h_Vt h) && Nat.eqb (length (h_sv h)) d
  && forallb (fun s => leb 0 s) (h_sv h)
  && leb (svd_recon_f inp h) (tol * sv_max float_ops (h_sv h))
  && leb (svd_orthU_f inp h) tol && leb (svd_orthV_f inp h) tol.

(* rank_diff (and the rank matrix_rank itself returned, and the dimension it is subtracted
   from) reproduced from the validated hint; [gated] = a singular value within a factor 4 of
   the threshold *)
Definition rank_case_ok2 (inp : rig_in) (h : svd_hint) (tol : float)
           (obs_rd obs_rank obs_dim : nat) (gated : bool) : bool :=
  svd_hint_ok inp h tol
  && Nat.eqb obs_dim (feat_dim inp)
  && (gated || (Nat.eqb (rank_diff_g float_ops (feat_dim inp) (h_sv h)) obs_rd
                && Nat.eqb (rank_of_sv_g float_ops (feat_dim inp) (h_sv h)) obs_rank)).

(* ------------------------------------------------------------------ 4. intermediate state *)
(* the matrix the implementation handed to pinv / matrix_rank, entry by entry *)
Definition xprime_close (inp : rig_in) (obs : fmat) (rtol atol : float) : bool :=
  fclose rtol atol (xprime_f inp) obs.
(* the value pinv returned satisfies the oracle hypothesis on the model's matrix *)
Definition with_xinv (inp : rig_in) (P : fmat) : rig_in :=
  {| r_train := r_train inp; r_test := r_test inp; r_alpha := r_alpha inp; r_xinv := P |}.
Definition impl_xinv_ok (inp : rig_in) (P : fmat) (eps : float) : bool :=
  leb (hyp_resid_f (with_xinv inp P)) eps.
Definition inter_case_ok (inp : rig_in) (obsXp obsXinv : fmat) (rtol atol eps : float)
           (check_inv : bool) : bool :=
  xprime_close inp obsXp rtol atol && (negb check_inv || impl_xinv_ok inp obsXinv eps).

(* ------------------------------------------------------------------ comparison with +inf *)
(* (Rigidity.rel_close alone would accept an infinite value against anything: its tolerance
   is relative to the larger magnitude) *)
Definition is_inf (x : float) : bool := eqb (abs x) infinity.
Definition rel_close_x (rtol a b : float) : bool :=
  if is_inf a || is_inf b then eqb a b else rel_close rtol a b.
Fixpoint vec_close_x (rtol : float) (u v : list float) : bool :=
  match u, v with
  | [], [] => true
  | a :: u', b :: v' => rel_close_x rtol a b && vec_close_x rtol u' v'
  | _, _ => false
  end.
Fixpoint mat_close_x (rtol : float) (A B : fmat) : bool :=
  match A, B with
  | [], [] => true
  | r :: A', s :: B' => vec_close_x rtol r s && mat_close_x rtol A' B'
  | _, _ => false
  end.
Fixpoint mats_close_x (rtol : float) (A B : list fmat) : bool :=
  match A, B with
  | [], [] => true
  | r :: A', s :: B' => mat_close_x rtol r s && mats_close_x rtol A' B'
  | _, _ => false
  end.
Definition count_inf (A : fmat) : nat :=
  fold_left (fun n r => (n + length (filter (fun x => eqb x infinity) r))%nat) A 0%nat.

(* outputs of the zero-block family (rows / structure means with an exactly-zero component
   block): +inf exactly where the model's denominator is 0, close elsewhere *)
Definition lpr_case_ok_x (inp : rig_in) (eps rtol : float) (obs : list (list float)) : bool :=
  leb (hyp_resid_f inp) eps && mat_close_x rtol (lpr_model inp) obs.
Definition cpr_case_ok_x (inp : rig_in) (comp_dims : list nat) (eps rtol : float)
           (obs_cpr : fmat) (obs_lcpr : list fmat) : bool :=
  leb (hyp_resid_f inp) eps
  && mat_close_x rtol (cpr_model inp comp_dims) obs_cpr
  && mats_close_x rtol (lcpr_model inp comp_dims) obs_lcpr.
