(* The timing calibration of VoronoiFPS' switching point (full_fraction=None):
     lower, top = 0, 1
     while top - lower > 0.01: ff = (top + lower)/2; if t_voronoi < t_simple: lower = ff else: top = ff
     full_fraction = lower
   Wall-clock comparisons are an arbitrary stream of booleans.  All values are dyadic and the
   invariant top = lower + 2^-k holds, so the state is (k, lo) meaning lower = lo / 2^k. *)
From Verif Require Import ListX.

(* top - lower = 2^-k > 0.01  <->  2^k < 100 *)
Definition calib_continue (k : nat) : bool := 2 ^ Z.of_nat k <? 100.

Fixpoint calib (fuel : nat) (outs : nat -> bool) (k : nat) (lo : Z) : nat * Z :=
  match fuel with
  | O => (k, lo)
  | S f => if calib_continue k
           then calib f outs (S k) (if outs k then 2 * lo + 1 else 2 * lo)
           else (k, lo)
  end.

(* 7 halvings suffice: 2^7 = 128 >= 100 *)
Definition calibrate (outs : nat -> bool) : nat * Z := calib 8 outs 0 0.
