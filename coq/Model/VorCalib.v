(* The timing calibration of VoronoiFPS' switching point (full_fraction=None):
     lower, top = 0, 1
     while top - lower > 0.01: ff = (top + lower)/2; if t_voronoi < t_simple: lower = ff else: top = ff
     full_fraction = lower if lower > 0 else top        (see calib_store below)
   Wall-clock comparisons are an arbitrary stream of booleans.  All values are dyadic and the
   invariant top = lower + 2^-k holds, so the state is (k, lo) meaning lower = lo / 2^k. *)
From Verif Require Import ListX.

(* top - lower = 2^-k > 0.01  <->  2^k < 100 *)
Definition calib_continue (k : nat) : bool := 2 ^ Z.of_nat k <? 100.

Fixpoint calib (fuel : nat) (outs : nat -> bool) (k : nat) (lo : Z) : nat * Z :=
  match fuel with
  | O => (k, lo)
  | S f => if calib_continue k
           then calib f outs (S k) (if outs k then 2 * lo + 1 else 2 * lo)
           else (k, lo)
  end.

(* 7 halvings suffice: 2^7 = 128 >= 100 *)
Definition calibrate (outs : nat -> bool) : nat * Z := calib 8 outs 0 0.

(* what _init_greedy_search STORES in self.full_fraction (since /repo 0a955d1):
     self.full_fraction = lower_fraction if lower_fraction > 0 else top_fraction
   with top = lower + 2^-k, i.e. numerator lo + 1 over 2^k when lo = 0 *)
Definition calib_store (r : nat * Z) : nat * Z :=
  let '(k, lo) := r in (k, if 0 <? lo then lo else lo + 1).
Definition calibrate_stored (outs : nat -> bool) : nat * Z := calib_store (calibrate outs).

(* correspondence: the harness drives the wall clock, so the comparison outcomes are known *)
Definition calib_case_ok (outs : list bool) (num den : Z) : bool :=
  let '(k, v) := calibrate_stored (fun i => nth i outs false) in
  (v * den =? num * 2 ^ Z.of_nat k) && (0 <? den).
