(* C01: the whole of GreedySelector.fit for an arbitrary scorer.  The scorer is an
   oracle stream: the score vector the implementation presented to
   _get_best_new_selection at each call (integers; for float scores the harness passes
   an order-preserving integer encoding).  What is modelled exactly: parameter
   validation, n_to_select resolution, cold/warm start, initial selections, the masked
   first arg-max, the threshold latch and early exit, result buffers, support mask and
   the derived views. *)
From Verif Require Import ListX Greedy.

Definition stream := list (list Z).

Section Stream.
  Variable n : nat.
  Definition s_score (s : stream) : list Z :=
    match s with [] => repeat 0 n | v :: _ => v end.
  Definition s_upd (s : stream) (_ : nat) : stream := tl s.
End Stream.

Record cfg := mk_cfg { c_nts : nts; c_thr : thr; c_full : bool; c_warm : bool }.

Inductive outcome :=
| Rejected                                   (* ValueError *)
| Fitted (g : gst stream) (stopped : bool).

Section Fit.
  Variable cand : list (list Z).
  Variable ycand : option (list (list Z)).
  Let n := length cand.

  Definition s_post := post stream s_upd cand ycand.
  Definition s_run := run stream (s_score n) s_upd cand ycand.
  (* a threshold stop consumed one score vector without selecting *)
  Definition s_pop (r : gst stream * bool) : gst stream * bool :=
    let '(g, st) := r in
    (if st then mk_gst (sel g) (xsel g) (ysel g) (tl (sst g)) (first g) else g, st).

  (* one call of fit: previous state (None = never fitted), configuration, the initial
     selections a cold start makes before the loop (FPS family), and the score vectors the
     implementation presents to the arg-max DURING THIS FIT (a cold fit discards everything a
     previous fit left behind; a warm start keeps selections and first_score_) *)
  Definition with_stream (g : gst stream) (str : stream) : gst stream :=
    mk_gst (sel g) (xsel g) (ysel g) str (first g).

  Definition sfit (prev : option (gst stream)) (c : cfg) (inits : list nat) (str : stream)
    : outcome :=
    if c_full c && has_thr (c_thr c) then Rejected else
    match resolve_n n (c_nts c) with
    | None => Rejected
    | Some k =>
        if c_warm c then
          match prev with
          | None => Rejected
          | Some g =>
              if Nat.eqb (length (sel g)) 0 then Rejected
              else let '(g', st) := s_pop (s_run (c_thr c) (k - length (sel g)) (with_stream g str)) in
                   Fitted g' st
          end
        else
          let g0 := fold_left s_post inits (mk_gst [] [] [] (repeat [] (length inits) ++ str) None) in
          let '(g', st) := s_pop (s_run (c_thr c) (k - length inits) g0) in Fitted g' st
    end.

  (* transform(X) for feature selection: the columns where the mask is set, i.e. the
     candidates at the sorted selected indices *)
  Definition transform_cols (s : list nat) : list (list Z) :=
    filter_mask (support n s) cand.
End Fit.

(* What the estimator reports after a fit.  On a threshold stop the code truncates
   selected_idx_ and y_selected_ with the *loop counter of the current fit* (the number of
   selections the loop of this fit made, [length (sel g) - n0] where [n0] selections existed
   before the loop), while X_selected_ and n_selected_ keep every selection; support_ is then
   built from the truncated selected_idx_.  (Pinned by the repository's test_threshold tests;
   known finding C01/F2.) *)
Definition reported_sel (g : gst stream) (stopped : bool) (n0 : nat) : list nat :=
  if stopped then firstn (length (sel g) - n0) (sel g) else sel g.
Definition reported_ysel (g : gst stream) (stopped : bool) (n0 : nat) : list (list Z) :=
  if stopped then firstn (length (sel g) - n0) (ysel g) else ysel g.

(* number of selections present before the loop of the fit that produced the outcome *)
Definition n_before (prev : option (gst stream)) (c : cfg) (inits : list nat) : nat :=
  if c_warm c then match prev with Some g => length (sel g) | None => O end else length inits.

(* ---- correspondence ---------------------------------------------------------------- *)
Record sobs := mk_sobs {
  so_sel : list nat; so_nsel : nat; so_xsel : list (list Z); so_ysel : list (list Z);
  so_support : list bool; so_sorted : list nat; so_ordered : list nat;
  so_transform : option (list (list Z)); so_stopped : bool
}.

Definition sobs_ok cand (hasy : bool) (g : gst stream) (stopped : bool) (n0 : nat) (o : sobs) : bool :=
  let rs := reported_sel g stopped n0 in
  nl_eqb rs (so_sel o) && Nat.eqb (length (sel g)) (so_nsel o)
  && zm_eqb (xsel g) (so_xsel o)
  && (if hasy then zm_eqb (reported_ysel g stopped n0) (so_ysel o) else true)
  && bl_eqb (support (length cand) rs) (so_support o)
  && nl_eqb (support_indices rs) (so_sorted o)
  && nl_eqb rs (so_ordered o)
  && match so_transform o with
     | Some t => zm_eqb (transform_cols cand rs) t
     | None => true end
  && Bool.eqb stopped (so_stopped o).

(* a chain of fits on the same data; each stage: cfg, initial selections (cold), the score
   vectors of that fit, observed outcome (None = ValueError).  Cold re-fits of an already
   fitted object may occur anywhere in the chain.  A chain is not continued by a warm start
   after a threshold stop (the buffers are then inconsistent). *)
Fixpoint schain_ok cand ycand (prev : option (gst stream))
         (stages : list (cfg * list nat * stream * option sobs)) : bool :=
  match stages with
  | [] => true
  | (c, inits, str, o) :: rest =>
      match sfit cand ycand prev c inits str, o with
      | Rejected, None => schain_ok cand ycand prev rest
      | Fitted g st, Some ob =>
          sobs_ok cand (match ycand with Some _ => true | None => false end) g st
                  (n_before prev c inits) ob
          && (if st then match rest with
                         | [] => true
                         | (c', _, _, _) :: _ => negb (c_warm c') && schain_ok cand ycand (Some g) rest
                         end
              else schain_ok cand ycand (Some g) rest)
      | _, _ => false
      end
  end.
