(* Model of VoronoiFPS (src/skmatter/sample_selection/_voronoi_fps.py): Voronoi-cell
   bookkeeping, triangle-inequality pruning (_get_active), full vs. sparse distance
   update, cell reassignment.  Exact over Z.  The quarter distances dSL_ (= d2 * 0.25) are
   kept undivided: the test `dSL_[v] < hausdorff_[j]` becomes `d2(S_v, L) < 4 * haus[j]`
   (multiplication by 0.25 is exact in binary64 on the integer domain). *)
From Verif Require Import ListX Greedy FPS.

Record vst := mk_vst {
  v_haus : list ExtZ;       (* hausdorff_ *)
  v_hsel : list ExtZ;       (* hausdorff_at_select_ *)
  v_vloc : list nat;        (* vlocation_of_idx *)
  v_sel  : list nat         (* selected_idx_[:n_selected_] as seen by _get_active *)
}.

Section Vor.
  Variable cs : list (list Z).                  (* rows of X *)
  Variable br : nat -> nat -> bool.             (* step -> |active| -> take the full branch?
                                                   (len(active)/n > full_fraction) *)
  Let nm := fps_norms cs.
  Let n := length cs.

  Definition d2 (j l : nat) : Z :=              (* norms_[j] + norms_[l] - 2 X[l] @ X[j] *)
    nth j nm 0 + nth l nm 0 - 2 * dot (nth l cs []) (nth j cs []).

  (* 4 * dSL_[: n_selected_] *)
  Definition dSL4 (s : vst) (l : nat) : list Z := map (fun k => d2 k l) (v_sel s).

  (* _get_active: boolean mask over the candidates *)
  Definition active (s : vst) (l : nat) : list bool :=
    match v_sel s with
    | [] => map (fun _ => true) (v_haus s)
    | _ => map2 (fun v h => match h with
                            | None => true
                            | Some hz => nth v (dSL4 s l) 0 <? 4 * hz end)
                (v_vloc s) (v_haus s)
    end.

  Definition count_true (m : list bool) : nat := length (filter (fun b => b) m).

  Fixpoint zip3 {A B C D} (f : A -> B -> C -> D) (a : list A) (b : list B) (c : list C) : list D :=
    match a, b, c with
    | x :: a', y :: b', z :: c' => f x y z :: zip3 f a' b' c'
    | _, _, _ => []
    end.

  (* new_dist_ *)
  Definition vnew (s : vst) (l : nat) (act : list bool) (full : bool) : list ExtZ :=
    if full then map (fun j => Some (d2 j l)) (seq 0 n)
    else upd_nth l (Some 0)
           (zip3 (fun j (a : bool) h => if a then Some (d2 j l) else h) (seq 0 n) act (v_haus s)).

  Definition ext_lt (a b : ExtZ) : bool :=
    match a, b with
    | Some x, Some y => x <? y
    | Some _, None => true
    | None, _ => false
    end.
  Definition ext_min2 (a b : ExtZ) : ExtZ := if ext_lt b a then b else a.

  (* _update_post_selection (the Voronoi part) *)
  Definition vupd (s : vst) (l : nat) : vst :=
    let nsel := length (v_sel s) in
    let hsel' := upd_nth l (nth l (v_haus s) None) (v_hsel s) in
    let act := active s l in
    let cnt := count_true act in
    if Nat.eqb cnt 0 then
      mk_vst (v_haus s) hsel' (upd_nth l nsel (v_vloc s)) (v_sel s ++ [l])
    else
      let new := vnew s l act (br nsel cnt) in
      let updated := map2 ext_lt new (v_haus s) in
      let haus' := map2 ext_min2 (v_haus s) new in
      let vloc' := map2 (fun (u : bool) v => if u then nsel else v) updated (v_vloc s) in
      mk_vst haus' hsel' (upd_nth l nsel vloc') (v_sel s ++ [l]).

  Definition vscore (s : vst) : list Z := map ext_get (v_haus s).

  Definition vst0 : vst := mk_vst (repeat None n) (repeat None n) (repeat 1%nat n) [].
  Definition vor_g := gst vst.
  Definition vor_post ycand : vor_g -> nat -> vor_g := post vst vupd cs ycand.
  Definition vor_init ycand (i0 : nat) : vor_g := vor_post ycand (mk_gst [] [] [] vst0 None) i0.
  Definition vor_run ycand (t : thr) (niter : nat) (g : vor_g) : vor_g * bool :=
    run vst vscore vupd cs ycand t (niter - length (sel g)) g.
  Definition vor_fit ycand i0 t niter := vor_run ycand t niter (vor_init ycand i0).
End Vor.

(* the faithful branch rule: len(active)/n > full_fraction  with full_fraction = num/den *)
Definition br_fraction (n : nat) (num den : Z) (_ : nat) (cnt : nat) : bool :=
  num * Z.of_nat n <? Z.of_nat cnt * den.

(* ---- correspondence: per-step trace of a fit ------------------------------------------ *)
Record vtrace := mk_vtrace {
  vt_sel : list nat; vt_haus : list ExtZ; vt_vloc : list nat; vt_seld : list ExtZ
}.

Definition vor_select_distance (g : vor_g) : list ExtZ :=
  map (fun i => nth i (v_hsel (sst g)) None) (sel g).

Definition vobs_ok (g : vor_g) (o : vtrace) : bool :=
  nl_eqb (sel g) (vt_sel o) && el_eqb (v_haus (sst g)) (vt_haus o)
  && nl_eqb (v_vloc (sst g)) (vt_vloc o) && el_eqb (vor_select_distance g) (vt_seld o).

(* stages: (n_iterations, observation after the fit); first cold, then warm *)
Fixpoint vchain_ok cs br ycand (g : vor_g) (stages : list (nat * vtrace)) : bool :=
  match stages with
  | [] => true
  | (k, o) :: rest =>
      let '(g', _) := vor_run cs br ycand NoThr k g in
      vobs_ok g' o && vchain_ok cs br ycand g' rest
  end.

Definition vor_case_ok cs br ycand i0 stages : bool :=
  vchain_ok cs br ycand (vor_init cs br ycand i0) stages.

(* full_fraction may differ from step to step (the harness changes it between warm-started
   fits to force every branch schedule); [sched] lists num/den per step index *)
Definition br_sched (n : nat) (sched : list (Z * Z)) (step cnt : nat) : bool :=
  let '(num, den) := nth step sched (0, 1) in br_fraction n num den step cnt.
