(* C11 — model of skmatter.preprocessing._data.StandardFlexibleScaler (layer A).
   Every array computation of fit / transform / inverse_transform is ONE [mexp] term of
   Base/MExp.v; this file holds the terms and the thin binary64 wrapper (guards,
   min-samples check, option result) that the correspondence check runs with
   [eval_f].  Model/ScalerMx.v wraps the very same terms with [eval_mx] over an
   arbitrary real closed field; the theorems are about that wrapper.

   Variables of the programs:  0 := X (n x d, training data)
                               1 := sample_weight (n x 1, raw, read only if [has_w])
                               2 := Y (k x d, data passed to transform)
                               3 := mean_ (1 x d)     4 := scale_ (1 x d; a scalar
                               scale_ is stored broadcast over the d columns).     *)
From Coq Require Import ZArith List Bool PrimFloat.
From Verif Require Import MExp.
Import ListNotations.

Record sc_cfg := ScCfg {
  with_mean : bool;      (* constructor flag with_mean *)
  with_std : bool;       (* constructor flag with_std *)
  column_wise : bool;    (* constructor flag column_wise *)
  has_w : bool           (* sample_weight is not None *)
}.

Definition c0 : mexp 1 1 := MConst 0.   (* unused tolerance argument of MMap *)

Section Prog.
  Variables (cfg : sc_cfg) (n d : nat).

  Definition vX : mexp n d := MVar 0.
  Definition vW : mexp n 1 := MVar 1.

  (* `sample_weight / np.sum(sample_weight)`;  sample_weight=None makes np.average the
     plain mean, i.e. weights 1 (np.average divides by the sum of the weights itself) *)
  Definition sc_wts : mexp n 1 :=
    if has_w cfg
    then MScale (MMap Frecip c0 (MMul (MTr (MOnes n 1)) vW)) vW
    else MOnes n 1.

  (* np.average(A, weights=wts, axis=0)  =  (wts . A) / wts.sum()   as a 1 x p row *)
  Definition sc_avg {p : nat} (A : mexp n p) : mexp 1 p :=
    MScale (MMap Frecip c0 (MMul (MTr (MOnes n 1)) sc_wts)) (MMul (MTr sc_wts) A).

  (* X_mean *)
  Definition sc_xmean : mexp 1 d := sc_avg vX.
  (* mean_ *)
  Definition sc_mean : mexp 1 d := if with_mean cfg then sc_xmean else MZero 1 d.
  (* var = np.average((X - X_mean) ** 2, weights, axis=0) *)
  Definition sc_var : mexp 1 d :=
    sc_avg (MMap Fsquare c0 (MSub vX (MMul (MOnes n 1) sc_xmean))).
  (* var.sum() *)
  Definition sc_varsum : mexp 1 1 := MMul sc_var (MOnes d 1).
  (* np.average(X_mean) — the plain mean of the d column means *)
  Definition sc_avgmean : mexp 1 1 :=
    MScale (MMap Frecip c0 (MMul (MOnes 1 d) (MOnes d 1))) (MMul sc_xmean (MOnes d 1)).
  (* scale_ (broadcast to a row) *)
  Definition sc_scale : mexp 1 d :=
    if with_std cfg then
      if column_wise cfg then MMap Fsqrt c0 sc_var
      else MMul (MMap Fsqrt c0 sc_varsum) (MOnes 1 d)
    else MOnes 1 d.

  (* transform: (Y - mean_) / scale_      inverse_transform: T * scale_ + mean_ *)
  Definition vY (k : nat) : mexp k d := MVar 2.
  Definition vMean : mexp 1 d := MVar 3.
  Definition vScale : mexp 1 d := MVar 4.
  Definition sc_transform (k : nat) : mexp k d :=
    MHad (MSub (vY k) (MMul (MOnes k 1) vMean)) (MMul (MOnes k 1) (MMap Frecip c0 vScale)).
  Definition sc_inverse (k : nat) : mexp k d :=
    MAdd (MHad (vY k) (MMul (MOnes k 1) vScale)) (MMul (MOnes k 1) vMean).
End Prog.

(* ---- binary64 wrapper ------------------------------------------------------------ *)
Open Scope float_scope.

Definition sc_env_fit (X w : fmat) : nat -> fmat :=
  fun x => match x with O => X | 1%nat => w | _ => [] end.
Definition sc_env_tr (Y mu s : fmat) : nat -> fmat :=
  fun x => match x with 2%nat => Y | 3%nat => mu | 4%nat => s | _ => [] end.

Definition frow0 (A : fmat) : list float := nth 0 A [].

(* the guard of fit: true = `raise ValueError("Cannot normalize ... zero variance")` *)
Definition sc_guard_f (cfg : sc_cfg) (n d : nat) (rtol atol : float) (env : nat -> fmat) : bool :=
  if with_std cfg then
    if column_wise cfg then
      (* np.any(var < self.atol + abs(X_mean) * self.rtol) *)
      existsb (fun vm => ltb (fst vm) (atol + abs (snd vm) * rtol))
              (combine (frow0 (eval_f env (sc_var cfg n d))) (frow0 (eval_f env (sc_xmean cfg n d))))
    else
      (* var_sum < abs(np.average(X_mean)) * self.rtol + self.atol *)
      ltb (fget (eval_f env (sc_varsum cfg n d)) 0 0)
          (abs (fget (eval_f env (sc_avgmean cfg n d)) 0 0) * rtol + atol)
  else false.

(* fit: None = ValueError (fewer than 2 samples, or a zero-variance guard fired) *)
Definition sc_fit_f (cfg : sc_cfg) (n d : nat) (rtol atol : float) (X w : fmat)
  : option (fmat * fmat) :=
  let env := sc_env_fit X w in
  if Nat.ltb n 2 then None
  else if sc_guard_f cfg n d rtol atol env then None
  else Some (eval_f env (sc_mean cfg n d), eval_f env (sc_scale cfg n d)).

Definition sc_transform_f (d k : nat) (st : fmat * fmat) (Y : fmat) : fmat :=
  eval_f (sc_env_tr Y (fst st) (snd st)) (sc_transform d k).
Definition sc_inverse_f (d k : nat) (st : fmat * fmat) (T : fmat) : fmat :=
  eval_f (sc_env_tr T (fst st) (snd st)) (sc_inverse d k).

(* ---- comparison: column by column, relative to the magnitude of that column --------
   |A_ij - B_ij| <= rtol * (ref_j + max_i |A_ij| + max_i |B_ij|); false on NaN or shape
   mismatch.  [ref] carries the magnitude of the data the column was computed from
   (a mean of +-1 values may legitimately be 1e-17 in one evaluation order and 0 in
   another).  Columns of very different scale are thus not compared against each other. *)
Definition fcolmax (A : fmat) (j : nat) : float :=
  fold_left (fun a x => if ltb a (abs x) then abs x else a) (fcol A j) 0.
Definition fcolmaxes (A : fmat) (d : nat) : list float := map (fcolmax A) (seq 0 d).
Definition fclose_cols (rtol : float) (ref : list float) (d : nat) (A B : fmat) : bool :=
  (shape_eqb A B &&
   forallb (fun j =>
      let bound := rtol * (nth j ref 0 + fcolmax A j + fcolmax B j) in
      (* every entry is tested with leb, so a NaN difference fails *)
      forallb (fun x => leb (abs x) bound) (fmap2 sub (fcol A j) (fcol B j)))
    (seq 0 d))%bool.

(* one correspondence case: the implementation's observable results [imp_*] against the
   model run on the same inputs.  [raised] = fit raised ValueError.  [Y] new data,
   [imp_TX]/[imp_TY] transform of X / Y, [imp_IY] inverse_transform(transform(Y)).
   Components: [fit outcome; mean_; scale_; transform(X); transform(Y); inverse].
   Reference magnitudes: a transformed entry (x - m)/s carries rounding of size
   eps*|x|/s, a round trip eps*(|y| + |m|).                                           *)
Definition sc_case_checks (cfg : sc_cfg) (n d k : nat) (rtol atol tol : float)
           (X w Y : fmat) (raised : bool)
           (imp_mean imp_scale imp_TX imp_TY imp_IY : fmat) : list bool :=
  match sc_fit_f cfg n d rtol atol X w with
  | None => [raised]
  | Some st =>
       let refX := fcolmaxes X d in
       let refXY := fmap2 add refX (fcolmaxes Y d) in
       let s := frow0 (snd st) in
       let zero := map (fun _ => 0) (seq 0 d) in
       [negb raised;
        fclose_cols tol refX d (fst st) imp_mean;
        fclose_cols tol zero d (snd st) imp_scale;
        fclose_cols tol (fmap2 div refX s) d (sc_transform_f d n st X) imp_TX;
        fclose_cols tol (fmap2 div refXY s) d (sc_transform_f d k st Y) imp_TY;
        fclose_cols tol refXY d (sc_inverse_f d k st (sc_transform_f d k st Y)) imp_IY]
  end.
Definition sc_case_diag := sc_case_checks.
Definition sc_case_ok (cfg : sc_cfg) (n d k : nat) (rtol atol tol : float)
           (X w Y : fmat) (raised : bool)
           (imp_mean imp_scale imp_TX imp_TY imp_IY : fmat) : bool :=
  forallb (fun b => b)
    (sc_case_checks cfg n d k rtol atol tol X w Y raised imp_mean imp_scale imp_TX imp_TY imp_IY).

(* exact sub-family (integer data, n a power of two, no or uniform power-of-two weights):
   mean_ and scale_ must agree bit for bit *)
Definition sc_case_exact (cfg : sc_cfg) (n d : nat) (rtol atol : float)
           (X w : fmat) (imp_mean imp_scale : fmat) : bool :=
  match sc_fit_f cfg n d rtol atol X w with
  | None => false
  | Some st => (fclose 0 0 (fst st) imp_mean && fclose 0 0 (snd st) imp_scale)%bool
  end.
