(* Model of Ridge2FoldCV (src/skmatter/linear_model/_ridge.py), layer A.

   Shared between the two interpretations:
     * the scalar / list part of `_2fold_cv` ([count_gt] = sum(s > t), the index-sliced
       filter vectors, relative alpha scaling, first arg-max) is written ONCE over an
       abstract numeric signature [nops T]; it is run at [T := float] (binary64) here and
       reasoned about at [T := F] (any real closed field) in Model/Ridge2FoldMx.v;
     * the matrix part (per-fold predictions from the cached products, the final
       full-data solution, predict, the SVD hypotheses) is a set of [mexp] programs,
       run by [MExp.eval_f] here and interpreted by [MExpMx.eval_mx] for the theorems.
   The SVD factors are oracle variables (hints at run time, hypotheses in theorems).

   The model follows the code after the two proposed repairs
     fixes/F06_ridge2fold_rank_cut.diff     (n = sum(s > rcond), not len(s > rcond))
     fixes/F25_ridge2fold_scorer_args.diff  (scorer gets (prediction, truth) in sklearn's order)
   The behaviour of the unrepaired code is kept in Findings/F06_ridge2fold_rank.v.
   Definitions only.  Stdlib style. *)
From Coq Require Import ZArith List Bool Arith PrimFloat.
From Verif Require Import MExp.
Import ListNotations.

(* ---- numeric signature --------------------------------------------------------- *)
Record nops (T : Type) := NOps {
  o0 : T; o1 : T;
  oadd : T -> T -> T; omul : T -> T -> T; odiv : T -> T -> T;
  oltb : T -> T -> bool }.
Arguments NOps {T}. Arguments o0 {T}. Arguments o1 {T}. Arguments oadd {T}.
Arguments omul {T}. Arguments odiv {T}. Arguments oltb {T}.

Section Generic.
  Context {T : Type} (ops : nops T).

  (* sum(s > t) *)
  Fixpoint count_gt (t : T) (s : list T) : nat :=
    match s with
    | [] => O
    | x :: s' => if oltb ops t x then S (count_gt t s') else count_gt t s'
    end.

  (* np.max (the argument is never empty: sklearn validation, KFold) *)
  Definition omax (a b : T) : T := if oltb ops a b then b else a.
  Definition lmax (s : list T) : T := fold_left omax (tl s) (hd (o0 ops) s).

  (* v[:n] treated entrywise by f, the remaining entries dropped (= multiplied by 0) *)
  Fixpoint map_upto (f : T -> T) (n : nat) (s : list T) : list T :=
    match s with
    | [] => []
    | x :: s' => match n with
                 | O => o0 ops :: map_upto f O s'
                 | S n' => f x :: map_upto f n' s'
                 end
    end.

  (* s[:n] / (s[:n] ** 2 + alpha) *)
  Definition filt_tik (n : nat) (alpha : T) (s : list T) : list T :=
    map_upto (fun x => odiv ops x (oadd ops (omul ops x x) alpha)) n s.
  (* 1 / s[:n] *)
  Definition filt_cut (n : nat) (s : list T) : list T :=
    map_upto (fun x => odiv ops (o1 ops) x) n s.

  Definition nmin (a b : nat) : nat := if Nat.leb a b then a else b.

  (* the filter used by one loss closure / by the final solution:
     cut-off:  n_alpha = min(n, sum(s > alpha)), columns [:n_alpha] divided by s
     Tikhonov: columns [:n] times s / (s^2 + alpha) *)
  Definition gvec (cutoff : bool) (n : nat) (alpha : T) (s : list T) : list T :=
    if cutoff then filt_cut (nmin n (count_gt alpha s)) s else filt_tik n alpha s.

  (* scaled_alphas = alphas * max(max(s_fold1), max(s_fold2)) for alpha_type="relative" *)
  Definition scaled_alphas (relative : bool) (alphas s1 s2 : list T) : list T :=
    if relative then let m := omax (lmax s1) (lmax s2) in map (fun a => omul ops a m) alphas
    else alphas.

  (* np.argmax: first index attaining the maximum *)
  Fixpoint argmax_from (best : T) (bi i : nat) (l : list T) : nat :=
    match l with
    | [] => bi
    | x :: l' => if oltb ops best x then argmax_from x i (S i) l' else argmax_from best bi (S i) l'
    end.
  Definition argmax (l : list T) : nat :=
    match l with [] => O | x :: l' => argmax_from x O 1 l' end.

  (* LAPACK's promise on s: non-increasing, non-negative *)
  Fixpoint sorted_desc (s : list T) : bool :=
    match s with
    | [] => true
    | x :: s' => match s' with [] => true | y :: _ => negb (oltb ops x y) end && sorted_desc s'
    end.
  Definition nonneg (s : list T) : bool := forallb (fun x => negb (oltb ops x (o0 ops))) s.
End Generic.

(* ---- variable numbering of the environment ------------------------------------ *)
Definition vX1 := 0%nat.  Definition vy1 := 1%nat.  Definition vX2 := 2%nat.  Definition vy2 := 3%nat.
Definition vX := 4%nat.   Definition vy := 5%nat.
Definition vU1 := 6%nat.  Definition vS1 := 7%nat.  Definition vV1 := 8%nat.
Definition vU2 := 9%nat.  Definition vS2 := 10%nat. Definition vV2 := 11%nat.
Definition vU := 12%nat.  Definition vS := 13%nat.  Definition vV := 14%nat.
Definition vG := 15%nat.  Definition vXnew := 16%nat.

(* ---- the matrix programs -------------------------------------------------------- *)
(* W = V diag(g) (U^T y): weights fitted on (U,s,V,y); m samples, p features, k = len(s), t targets *)
Definition w_prog (m p k t : nat) (xV xG xU xy : nat) : mexp p t :=
  MMul (MMul (MVar (m:=p) (n:=k) xV) (MDiag (MVar (m:=k) (n:=1) xG)))
       (MMul (MTr (MVar (m:=m) (n:=k) xU)) (MVar (m:=m) (n:=t) xy)).

(* ((X_te V) * g) @ (U^T y): prediction on the other fold from the cached products *)
Definition pred_prog (nte m p k t : nat) (xXte xV xG xU xy : nat) : mexp nte t :=
  MMul (MMul (MMul (MVar (m:=nte) (n:=p) xXte) (MVar (m:=p) (n:=k) xV)) (MDiag (MVar (m:=k) (n:=1) xG)))
       (MMul (MTr (MVar (m:=m) (n:=k) xU)) (MVar (m:=m) (n:=t) xy)).

(* coef_ = W^T on the full data;  predict = Xnew coef_^T *)
Definition coef_prog (m p k t : nat) : mexp t p := MTr (w_prog m p k t vV vG vU vy).
Definition predict_prog (nn m p k t : nat) : mexp nn t :=
  MMul (MVar (m:=nn) (n:=p) vXnew) (MTr (coef_prog m p k t)).

(* SVD hypotheses as residual programs: U^T U - I, V^T V - I, X - U diag(s) V^T *)
Definition orth_prog (m k : nat) (xU : nat) : mexp k k :=
  MSub (MMul (MTr (MVar (m:=m) (n:=k) xU)) (MVar (m:=m) (n:=k) xU)) (MId k).
Definition recon_prog (m p k : nat) (xX xU xS xV : nat) : mexp m p :=
  MSub (MVar (m:=m) (n:=p) xX)
       (MMul (MMul (MVar (m:=m) (n:=k) xU) (MDiag (MVar (m:=k) (n:=1) xS))) (MTr (MVar (m:=p) (n:=k) xV))).

(* ---- binary64 run ----------------------------------------------------------------- *)
Open Scope float_scope.
Definition fops : nops float := NOps 0 1 add mul div ltb.

Definition frows (idx : list nat) (A : fmat) : fmat := map (fun i => nth i A []) idx.
Definition colv (l : list float) : fmat := map (fun x => [x]) l.
Definition ncols (A : fmat) : nat := length (hd [] A).
Definition fof_nat (n : nat) : float := fof_Z (Z.of_nat n).
Definition fenv_set (env : nat -> fmat) (x : nat) (A : fmat) : nat -> fmat :=
  fun y => if Nat.eqb y x then A else env y.

(* scorers: sklearn's neg_mean_squared_error / neg_root_mean_squared_error / r2 with
   multioutput="uniform_average"; arguments (y_true, y_pred) *)
Definition fmean (l : list float) : float := fsum l / fof_nat (length l).
Definition col_sums_sq (t : nat) (D : fmat) : list float :=
  map (fun j => fsum (map (fun r => let x := nth j r 0 in x * x) D)) (seq 0 t).
Definition sc_mse_cols (yt yp : fmat) : list float :=
  let n := fof_nat (length yt) in
  map (fun x => x / n) (col_sums_sq (ncols yt) (mmap2 sub yt yp)).
Definition sc_neg_mse (yt yp : fmat) : float := - fmean (sc_mse_cols yt yp).
Definition sc_neg_rmse (yt yp : fmat) : float := - fmean (map sqrt (sc_mse_cols yt yp)).
Definition sc_r2 (yt yp : fmat) : float :=
  let t := ncols yt in
  let num := col_sums_sq t (mmap2 sub yt yp) in
  let mu := map (fun j => fmean (map (fun r => nth j r 0) yt)) (seq 0 t) in
  let den := col_sums_sq t (map (fun r => fmap2 sub r mu) yt) in
  fmean (fmap2 (fun a b => 1 - a / b) num den).
Definition scorer_f (id : nat) : fmat -> fmat -> float :=
  match id with O => sc_neg_mse | 1%nat => sc_neg_rmse | _ => sc_r2 end.

Record svdhint := mk_svd { hU : fmat; hS : list float; hV : fmat }.

Record r2f_case := mk_case {
  cX : fmat; cY : fmat;
  csplits : list (list nat * list nat);     (* what cv.split(X) yields; the code takes the first *)
  calphas : list float; crel : bool; ccut : bool; cscorer : nat;
  ch1 : svdhint; ch2 : svdhint; ch : svdhint;  (* numpy's SVD of X_fold1, X_fold2, X (hints) *)
  cXnew : fmat }.

Record r2f_out := mk_out {
  o_cv : list float; o_alpha : float; o_best : float; o_coef : fmat; o_pred : fmat }.

Section Run.
  Variable c : r2f_case.
  Definition r_f1 := fst (hd ([], []) (csplits c)).
  Definition r_f2 := snd (hd ([], []) (csplits c)).
  Definition r_n := length (cX c).  Definition r_p := ncols (cX c).  Definition r_t := ncols (cY c).
  Definition r_n1 := length r_f1.   Definition r_n2 := length r_f2.
  Definition r_k1 := length (hS (ch1 c)).  Definition r_k2 := length (hS (ch2 c)).
  Definition r_k := length (hS (ch c)).
  Definition r_env : nat -> fmat :=
    fun x => nth x [frows r_f1 (cX c); frows r_f1 (cY c); frows r_f2 (cX c); frows r_f2 (cY c);
                    cX c; cY c;
                    hU (ch1 c); colv (hS (ch1 c)); hV (ch1 c);
                    hU (ch2 c); colv (hS (ch2 c)); hV (ch2 c);
                    hU (ch c); colv (hS (ch c)); hV (ch c); []; cXnew c] [].
  (* rcond = max(X.shape) * np.spacing(1.0) *)
  Definition r_rcond : float := fof_nat (Nat.max r_n r_p) * 0x1p-52.
  Definition r_nf1 := count_gt fops r_rcond (hS (ch1 c)).
  Definition r_nf2 := count_gt fops r_rcond (hS (ch2 c)).
  Definition r_salphas := scaled_alphas fops (crel c) (calphas c) (hS (ch1 c)) (hS (ch2 c)).
  Definition r_sc := scorer_f (cscorer c).

  Definition r_cv_value (alpha : float) : float :=
    let g1 := gvec fops (ccut c) r_nf1 alpha (hS (ch1 c)) in
    let g2 := gvec fops (ccut c) r_nf2 alpha (hS (ch2 c)) in
    let p12 := eval_f (fenv_set r_env vG (colv g1)) (pred_prog r_n2 r_n1 r_p r_k1 r_t vX2 vV1 vG vU1 vy1) in
    let p21 := eval_f (fenv_set r_env vG (colv g2)) (pred_prog r_n1 r_n2 r_p r_k2 r_t vX1 vV2 vG vU2 vy2) in
    (r_sc (r_env vy2) p12 + r_sc (r_env vy1) p21) / 2.

  Definition r_cv := map r_cv_value r_salphas.
  Definition r_best := argmax fops r_cv.
  (* n of the final solution (repaired: a count, not len) *)
  Definition r_nfull := count_gt fops r_rcond (hS (ch c)).
  Definition r_genv := fenv_set r_env vG
    (colv (gvec fops (ccut c) r_nfull (nth r_best r_salphas 0) (hS (ch c)))).

  Definition r2f_fit : r2f_out :=
    {| o_cv := r_cv;
       o_alpha := nth r_best (calphas c) 0;
       o_best := lmax fops r_cv;
       o_coef := eval_f r_genv (coef_prog r_n r_p r_k r_t);
       o_pred := eval_f r_genv (predict_prog (length (cXnew c)) r_n r_p r_k r_t) |}.

  (* the hints satisfy the oracle hypotheses on the model's own matrices, within eps *)
  Definition hint_ok (eps : float) (m p k : nat) (xX xU xS xV : nat) (s : list float) : bool :=
    (leb (fmaxabs (eval_f r_env (orth_prog m k xU))) eps
     && leb (fmaxabs (eval_f r_env (orth_prog p k xV))) eps
     && leb (fmaxabs (eval_f r_env (recon_prog m p k xX xU xS xV))) (eps * (1 + lmax fops s))
     && sorted_desc fops s && nonneg fops s)%bool.
  Definition hints_ok (eps : float) : bool :=
    (hint_ok eps r_n1 r_p r_k1 vX1 vU1 vS1 vV1 (hS (ch1 c))
     && hint_ok eps r_n2 r_p r_k2 vX2 vU2 vS2 vV2 (hS (ch2 c))
     && hint_ok eps r_n r_p r_k vX vU vS vV (hS (ch c)))%bool.
End Run.

(* ---- comparison with the implementation's observed outputs ------------------------- *)
Definition close1 (rtol atol a b : float) : bool :=
  let s := if ltb (abs a) (abs b) then abs b else abs a in leb (abs (a - b)) (atol + rtol * s).
Fixpoint close_list (rtol atol : float) (gate : list bool) (a b : list float) : bool :=
  match a, b, gate with
  | [], [], _ => true
  | x :: a', y :: b', g :: gate' => ((negb g || close1 rtol atol x y) && close_list rtol atol gate' a' b')%bool
  | x :: a', y :: b', [] => (close1 rtol atol x y && close_list rtol atol [] a' b')%bool
  | _, _, _ => false
  end.

(* [gates]: cv (per alpha) / alpha+best / coef / predict comparisons enabled (the harness
   disables the ill-conditioned ones and counts them as skipped).  Result: one boolean per
   component [hints; cv; alpha; best; coef; predict]. *)
Definition r2f_case_ok (c : r2f_case) (rtol atol_cv atol : float) (gcv : list bool)
    (gsel gcoef gpred : bool) (obs : r2f_out) : list bool :=
  let m := r2f_fit c in
  [ hints_ok c 0x1p-36;
    close_list rtol atol_cv gcv (o_cv m) (o_cv obs);
    negb gsel || eqb (o_alpha m) (o_alpha obs);
    negb gsel || close1 rtol atol_cv (o_best m) (o_best obs);
    negb gcoef || fclose rtol 0x1p-40 (o_coef m) (o_coef obs);
    negb gpred || fclose rtol atol (o_pred m) (o_pred obs) ]%bool.

Fixpoint r2f_failing_from (i : nat) (l : list bool) : list nat :=
  match l with
  | [] => []
  | b :: t => if b then r2f_failing_from (S i) t else i :: r2f_failing_from (S i) t
  end.
(* failing component numbers: 6 * case + component *)
Definition failing_flat (l : list (list bool)) : list nat := r2f_failing_from 0 (concat l).
