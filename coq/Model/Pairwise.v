(* Model of /repo/src/skmatter/metrics/_pairwise.py over the rationals (layer D, exact).

   periodic_pairwise_euclidean_distances / _periodic_euclidean_distances and
   pairwise_mahalanobis_distances, statement by statement.  The model returns SQUARED
   distances (exact in Q); the implementation's square root (np.linalg.norm, **0.5) is
   compared root-free in the correspondence ([close_sqrt]: r*r within 2^-50 of the square).
   np.round is round-half-to-even ([rhe]).  Definitions only. *)
From Coq Require Export QArith Qround Qabs.
From Verif Require Export ListX.
Open Scope Q_scope.

(* ---- np.round on a scalar: nearest integer, ties to the even one ------------- *)
Definition rhe (q : Q) : Z :=
  let f := Qfloor (q + (1 # 2)) in
  if Qeq_bool (inject_Z f) (q + (1 # 2)) && Z.odd f then (f - 1)%Z else f.

(* XY -= np.round(XY / cell) * cell, one coordinate *)
Definition wrap (c x : Q) : Q := x - inject_Z (rhe (x / c)) * c.

Definition qsum (l : list Q) : Q := fold_right Qplus 0 l.
Definition qsq (x : Q) : Q := x * x.
Definition qdot (u v : list Q) : Q := qsum (map2 Qmult u v).
Definition qsqn (v : list Q) : Q := qsum (map qsq v).       (* norm(v)**2 *)
Definition vdiff (x y : list Q) : list Q := map2 Qminus x y.  (* one row of x - Y *)

(* the wrapped difference vector of one pair; cell = None: no periodic boundary *)
Definition wvec (cell : list Q) (x y : list Q) : list Q := map2 wrap cell (vdiff x y).
Definition dvec (cell : option (list Q)) (x y : list Q) : list Q :=
  match cell with None => vdiff x y | Some c => wvec c x y end.

(* squared periodic / free distance of one pair *)
Definition pd2 (cell : list Q) (x y : list Q) : Q := qsqn (wvec cell x y).
Definition fd2 (x y : list Q) : Q := qsqn (vdiff x y).
Definition dist2 (cell : option (list Q)) (x y : list Q) : Q := qsqn (dvec cell x y).

(* ---- array-level functions ---------------------------------------------------- *)
Definition width (X : list (list Q)) : nat := length (hd [] X).       (* X.shape[1] *)
Definition rect (d : nat) (X : list (list Q)) : bool := forallb (fun r => Nat.eqb (length r) d) X.

(* _check_dimension: raises iff a cell is given and X.shape[1] != len(cell) *)
Definition check_dimension (X : list (list Q)) (cell : option (list Q)) : bool :=
  match cell with None => true | Some c => Nat.eqb (width X) (length c) end.

(* check_pairwise_arrays: Y=None means Y=X; X and Y must have the same number of columns *)
Definition check_pairwise (X : list (list Q)) (Y : option (list (list Q))) : option (list (list Q)) :=
  let Y' := match Y with None => X | Some Y => Y end in
  if rect (width X) X && rect (width X) Y' && negb (Nat.eqb (length X) 0) && negb (Nat.eqb (length Y') 0)
  then Some Y' else None.

(* periodic_pairwise_euclidean_distances(X, Y, squared=True, cell_length=cell);
   None = the call raises.  Entry [i][j] belongs to the pair (X[i], Y[j]):
   XY = concatenate([x - Y for x in X]) is row-major in (i, j). *)
Definition periodic_pairwise (X : list (list Q)) (Y : option (list (list Q))) (cell : option (list Q))
  : option (list (list Q)) :=
  if check_dimension X cell then
    match check_pairwise X Y with
    | None => None
    | Some Y' => Some (map (fun x => map (fun y => dist2 cell x y) Y') X)
    end
  else None.

(* Mahalanobis: np.sum(XY * (cov_inv @ XY.T).T, axis=-1) per pair = v^T P v *)
Definition mvec (P : list (list Q)) (v : list Q) : list Q := map (fun row => qdot row v) P.
Definition qform (P : list (list Q)) (v : list Q) : Q := qdot v (mvec P v).
Definition mahal2 (P : list (list Q)) (cell : option (list Q)) (x y : list Q) : Q :=
  qform P (dvec cell x y).

(* cov_inv is 2-D (one matrix) or 3-D (a stack): 2-D gets a new leading axis *)
Inductive covarg := Cov2 (P : list (list Q)) | Cov3 (Ps : list (list (list Q))).
Definition cov_stack (c : covarg) : list (list (list Q)) :=
  match c with Cov2 P => [P] | Cov3 Ps => Ps end.
Definition square (d : nat) (P : list (list Q)) : bool := Nat.eqb (length P) d && rect d P.

(* pairwise_mahalanobis_distances(X, Y, cov_inv, cell_length=cell, squared=True);
   result[k][i][j] for precision k and the pair (X[i], Y[j]).  A precision whose shape
   is not (d, d) makes numpy's matmul raise: None. *)
Definition pairwise_mahal (X Y : list (list Q)) (cov : covarg) (cell : option (list Q))
  : option (list (list (list Q))) :=
  if check_dimension X cell then
    match check_pairwise X (Some Y) with
    | None => None
    | Some Y' =>
        if forallb (square (width X)) (cov_stack cov) then
          Some (map (fun P => map (fun x => map (fun y => mahal2 P cell x y) Y') X) (cov_stack cov))
        else None
    end
  else None.

(* identity precision, np.eye(n) *)
Fixpoint ident (n : nat) : list (list Q) :=
  match n with
  | O => []
  | S n' => (1 :: repeat 0 n') :: map (cons 0) (ident n')
  end.
(* L L^T for L given as list of rows: entry (i, j) = <L_i, L_j> *)
Definition gram (L : list (list Q)) : list (list Q) := map (fun ri => map (fun rj => qdot ri rj) L) L.
(* L^T v = sum_i v_i L_i, a vector with as many entries as L has columns [r] *)
Fixpoint tmvec (r : nat) (L : list (list Q)) (v : list Q) : list Q :=
  match L, v with
  | row :: L', a :: v' => map2 Qplus (map (Qmult a) row) (tmvec r L' v')
  | _, _ => repeat 0 r
  end.

(* a point moved by integer multiples m_k of the cell lengths *)
Fixpoint vshift (cell : list Q) (m : list Z) (x : list Q) : list Q :=
  match cell, m, x with
  | c :: cell', k :: m', a :: x' => (a + inject_Z k * c) :: vshift cell' m' x'
  | _, _, _ => []
  end.
Definition cell_pos (cell : list Q) : Prop := Forall (fun c => 0 < c) cell.

(* ---- correspondence checks (run by the harness inside Coq) --------------------- *)
Definition eps50 : Q := 1 # 1125899906842624.     (* 2^-50 *)
(* r is the implementation's binary64 output read as an exact rational, s the model's
   exact squared distance *)
Definition close_sq (r s : Q) : bool := Qle_bool (Qabs (r - s)) (eps50 * s).       (* r ~ s *)
Definition close_sqrt (r s : Q) : bool := Qle_bool 0 r && close_sq (r * r) s.       (* r ~ sqrt s *)
Definition exact_sq (r s : Q) : bool := Qeq_bool r s.

Definition mat_ok (cmp : Q -> Q -> bool) (out model : list (list Q)) : bool :=
  list_eqb (list_eqb cmp) out model.
Definition omat_ok (cmp : Q -> Q -> bool) (out model : option (list (list Q))) : bool :=
  opt_eqb (mat_ok cmp) out model.
Definition ostack_ok (cmp : Q -> Q -> bool) (out model : option (list (list (list Q)))) : bool :=
  opt_eqb (list_eqb (mat_ok cmp)) out model.

(* one periodic_pairwise_euclidean_distances call: [out] = None if the call raised ValueError.
   squared=True outputs come from norm(...)**2 (two roundings): compared within 2^-50. *)
Definition pp_case_ok (X : list (list Q)) (Y : option (list (list Q))) (cell : option (list Q))
           (squared : bool) (out : option (list (list Q))) : bool :=
  omat_ok (if squared then close_sq else close_sqrt) out (periodic_pairwise X Y cell).

(* one pairwise_mahalanobis_distances call; squared=True outputs are exact on the
   dyadic domain and compared with = *)
Definition mh_case_ok (X Y : list (list Q)) (cov : covarg) (cell : option (list Q))
           (squared : bool) (out : option (list (list (list Q)))) : bool :=
  ostack_ok (if squared then exact_sq else close_sqrt) out (pairwise_mahal X Y cov cell).
