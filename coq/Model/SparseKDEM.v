(* C17, layer D — the assignment for an ARBITRARY metric.

   _NearestGridAssigner.predict never looks at positions: per descriptor it evaluates
       descriptor2grid = self.metric(point.reshape(1, -1), self.grid_pos)
   (self.metric = the user's `metric=` callable closed over squared=True and metric_params, the
   default being periodic_pairwise_euclidean_distances) and takes np.argmin of that row.  The model
   below therefore takes the metric's own rows as input: rows[i][k] = metric(descriptor i, grid k).
   Model/SparseKDE.v is the instance rows = map (drow cell G) D (lemma predict_is_predict_rows in
   Proofs/SparseKDEMP.v).  Values are integers (the harness scales dyadic data), weights rationals.
   Definitions only. *)
From Verif Require Import ListX SparseKDE.
From Coq Require Import QArith.
Open Scope Z_scope.

(* np.argmin(descriptor2grid): first index of the minimum *)
Definition label_row (row : list Z) : nat :=
  match amin row with Some (j, _) => j | None => O end.

(* one iteration of the loop in predict, given the metric row of the current descriptor *)
Definition astep_row (sw : list Q) (s : ast) (row : list Z) : ast :=
  let i := length (labels s) in
  let l := label_row row in
  mk_ast (labels s ++ [l])
         (upd_nth l (nth l (npoints s) 0 + 1) (npoints s))
         (upd_nth l (nth l (gweight s) 0%Q + nth i sw 0%Q)%Q (gweight s))
         (upd_nth l (nth l (members s) [] ++ [i]) (members s)).

(* predict on ng grid points; np.argmin of an empty row raises: None *)
Definition predict_rows (ng : nat) (rows : list (list Z)) (sw : list Q) : option ast :=
  match ng, rows with
  | O, _ :: _ => None
  | _, _ => Some (fold_left (astep_row sw) rows (ast0 ng))
  end.

(* with the constructor's weight normalisation *)
Definition assign_rows (ng : nat) (rows : list (list Z)) (w : option (list Q)) : option ast :=
  predict_rows ng rows (norm_weights w (length rows)).

(* rows of the right shape *)
Definition rows_ok (ng : nat) (rows : list (list Z)) : Prop := Forall (fun r => length r = ng) rows.

(* correspondence predicate: as assign_case_ok, on the metric's rows *)
Definition assign_rows_case_ok (exact : bool) (eps : Q) (ng : nat) (rows : list (list Z))
    (w : option (list Q)) (o_w : list Q) (o_lab : list nat) (o_np : list Z)
    (o_gw : list Q) (o_mem : list (list nat)) : bool :=
  forallb (fun r => Nat.eqb (length r) ng) rows &&
  match assign_rows ng rows w with
  | None => false
  | Some s =>
      let weq := if exact then ql_eqb else list_eqb (qclose eps) in
      weq (norm_weights w (length rows)) o_w &&
      nl_eqb (labels s) o_lab && zl_eqb (npoints s) o_np &&
      weq (gweight s) o_gw && nm_eqb (members s) o_mem
  end.
