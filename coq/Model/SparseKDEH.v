(* C17 — the SparseKDE estimator OBJECT as a state machine (histories of calls on one object).

   src/skmatter/neighbors/_sparsekde.py keeps, besides the public parameters, the fitted state
   (_grids, _grid_neighbour, _sample_labels_, _sample_weights, bandwidth_) and two lazily filled
   caches (_bandwidth_inv_, _normkernels_) behind the properties _bandwidth_inv / _normkernels:

     fit(X)             self._bandwidth_inv_ = None; self._normkernels_ = None      (reset)
                        ... every fitted attribute is recomputed from the CURRENT public
                        parameters (descriptors, weights, cell, fpoints, fspread) and X ...
                        self.fitted_ = True
     _bandwidth_inv     if self._bandwidth_inv_ is None: fill from bandwidth_;  return it
     _normkernels       if self._normkernels_ is None: fill from bandwidth_;    return it
     score_samples(Q)   reads _grids, _bandwidth_inv (always), _normkernels (inside the loop over
                        queries x grid points, i.e. only when both are non-empty), the fitted
                        attributes and the CURRENT descriptors / weights
     bandwidth_ / _sample_weights   plain attribute reads

   The machine is generic in the types and in the functions that compute a fit, the two cache
   contents and the score; Section KDEInst instantiates it with the routines of Model/SparseKDEA.v.
   A call on an unfitted object raises (AttributeError on _grids): output None, state unchanged.
   Assignments to the public attributes between calls are the operation [OSet].
   Definitions only. *)
From Coq Require Import ZArith List Bool PrimFloat.
From Verif Require Import FloatX MExp SparseKDEA.
Import ListNotations.

Section Machine.
  Variables (P G S CI CN Qy O : Type).
  Variable fitf : P -> G -> S.                 (* what fit computes from the current parameters *)
  Variable invf : S -> CI.                     (* [inv(h) for h in bandwidth_]                  *)
  Variable nkf : S -> CN.                      (* [D log 2pi + logdet h for h in bandwidth_]    *)
  Variable needs_nk : S -> Qy -> bool.         (* the loop body of the KDE is entered           *)
  Variable scoref : P -> S -> CI -> CN -> Qy -> O.
  Variable peekf : S -> O.                     (* reading bandwidth_, _sample_weights, ...      *)

  Record kst := mk_kst {
    k_pars : P;               (* descriptors, weights, cell, fpoints, fspread *)
    k_fit : option S;         (* None = fit was never called (no fitted_ attribute) *)
    k_inv : option CI;        (* _bandwidth_inv_ *)
    k_nk : option CN          (* _normkernels_ *)
  }.

  Inductive kop := OFit (g : G) | OScore (q : Qy) | OPeek | OSet (p : P).

  (* SparseKDE.__init__ *)
  Definition kinit (p : P) : kst := mk_kst p None None None.

  Definition oget {A} (o : option A) (d : A) : A := match o with Some a => a | None => d end.

  Definition kstep (s : kst) (o : kop) : kst * option O :=
    match o with
    | OFit g => (mk_kst (k_pars s) (Some (fitf (k_pars s) g)) None None, None)
    | OSet p => (mk_kst p (k_fit s) (k_inv s) (k_nk s), None)
    | OPeek => (s, option_map peekf (k_fit s))
    | OScore q =>
        match k_fit s with
        | None => (s, None)
        | Some f =>
            let ci := oget (k_inv s) (invf f) in
            let touch := needs_nk f q in
            let cn := oget (k_nk s) (nkf f) in
            (mk_kst (k_pars s) (Some f) (Some ci) (if touch then Some cn else k_nk s),
             Some (scoref (k_pars s) f ci cn q))
        end
    end.

  Fixpoint krun (s : kst) (ops : list kop) : kst * list (option O) :=
    match ops with
    | [] => (s, [])
    | o :: r => let '(s1, out) := kstep s o in
                let '(s2, outs) := krun s1 r in (s2, out :: outs)
    end.

  (* the caches, when filled, hold what the CURRENT fit determines *)
  Definition coherent (s : kst) : Prop :=
    match k_fit s with
    | None => k_inv s = None /\ k_nk s = None
    | Some f => (k_inv s = None \/ k_inv s = Some (invf f)) /\
                (k_nk s = None \/ k_nk s = Some (nkf f))
    end.

  (* the last fit of a history and the parameters in force at that moment / at the end *)
  Fixpoint last_fit (p : P) (cur : option S) (ops : list kop) : P * option S :=
    match ops with
    | [] => (p, cur)
    | OFit g :: r => last_fit p (Some (fitf p g)) r
    | OSet p' :: r => last_fit p' cur r
    | _ :: r => last_fit p cur r
    end.
End Machine.

Arguments mk_kst {P S CI CN}.
Arguments k_pars {P S CI CN}.
Arguments k_fit {P S CI CN}.
Arguments k_inv {P S CI CN}.
Arguments k_nk {P S CI CN}.
Arguments kinit {P S CI CN}.
Arguments kstep {P G S CI CN Qy O}.
Arguments krun {P G S CI CN Qy O}.
Arguments coherent {P S CI CN}.
Arguments last_fit {P G S Qy}.
Arguments OFit {P G Qy}.
Arguments OScore {P G Qy}.
Arguments OPeek {P G Qy}.
Arguments OSet {P G Qy}.

(* ---- the instance: SparseKDE over a record of scalar operations ------------------------------ *)
Section KDEInst.
  Variable N : numops.
  Let T := nT N.

  Record kpars := mk_kpars {
    kp_cell : option (list T); kp_D : list (list T); kp_w : list T; kp_dim : Z }.
  Record kfit := mk_kfit {
    kf_G : list (list T); kf_W : list T; kf_mem : list (list nat); kf_H : list (list (list T)) }.
  (* outputs: score_samples with score, or the public read of (bandwidth_, _sample_weights) *)
  Inductive kout :=
  | KScores (s : list (option T)) (tot : option T)
  | KState (H : list (list (list T))) (W : list T).

  Definition kde_scoref (p : kpars) (f : kfit) (ci : list (list (list T))) (cn : list T)
      (q : list (list T)) : kout :=
    KScores (score_samples N (kp_cell p) (kf_G f) (kp_D p) (kp_w p) (kf_W f) (kf_mem f) ci cn (kp_dim p) q)
            (score N (kp_cell p) (kf_G f) (kp_D p) (kp_w p) (kf_W f) (kf_mem f) ci cn (kp_dim p) q).
  Definition kde_needs_nk (f : kfit) (q : list (list T)) : bool :=
    match q, kf_G f with _ :: _, _ :: _ => true | _, _ => false end.
  Definition kde_peekf (f : kfit) : kout := KState (kf_H f) (kf_W f).
End KDEInst.

(* ---- the correspondence predicate for histories (binary64) ------------------------------------ *)
(* The harness runs a history on ONE estimator object.  For every fit in it, a FRESH estimator with
   the parameters in force at that moment is fitted on the same grid; its state is row [k] of [tab]
   (validated on its own by parts B and C) and numpy's inverse / log-determinant of that state's
   bandwidths is row [k] of [hints] (re-checked here with hint_ok).  In the run a grid is named by
   its row, so fitf is the table lookup, invf / nkf are the hint lookups.  The machine must
   reproduce every observed output of the history. *)
Local Open Scope float_scope.

Definition hfit := (nat * kfit fops)%type.
Definition h_fitf (tab : list (kfit fops)) (_ : kpars fops) (k : nat) : hfit :=
  (k, nth k tab (mk_kfit fops [] [] [] [])).
Definition h_invf (hints : list (list fmat * list float)) (f : hfit) : list fmat :=
  fst (nth (fst f) hints ([], [])).
Definition h_nkf (hints : list (list fmat * list float)) (f : hfit) : list float :=
  snd (nth (fst f) hints ([], [])).

Definition h_step (tab : list (kfit fops)) (hints : list (list fmat * list float)) :=
  kstep (h_fitf tab) (h_invf hints) (h_nkf hints)
        (fun f q => kde_needs_nk fops (snd f) q)
        (fun p f ci cn q => kde_scoref fops p (snd f) ci cn q)
        (fun f => kde_peekf fops (snd f)).
Definition h_run (tab : list (kfit fops)) (hints : list (list fmat * list float)) :=
  krun (h_fitf tab) (h_invf hints) (h_nkf hints)
       (fun f q => kde_needs_nk fops (snd f) q)
       (fun p f ci cn q => kde_scoref fops p (snd f) ci cn q)
       (fun f => kde_peekf fops (snd f)).

(* observed outputs of the implementation, per operation *)
Inductive hobs :=
| HNone                                              (* fit / attribute assignment / raised *)
| HScores (s : list float) (tot : float)             (* score_samples, score *)
| HState (H : list fmat) (W : list float).           (* bandwidth_, _sample_weights *)

Definition hout_ok (rtol atol : float) (m : option (kout fops)) (o : hobs) : bool :=
  match m, o with
  | None, HNone => true
  | Some (KScores _ s t), HScores os ot => all2 (oclose rtol atol) s os && oclose rtol atol t ot
  | Some (KState _ H W), HState oH oW =>
      all2 (fun a b => fclose rtol atol a b) H oH && all2 (close1 rtol atol) W oW
  | _, _ => false
  end.

Definition hist_case_ok (rtol atol htol : float) (dim : nat) (tab : list (kfit fops))
    (hints : list (list fmat * list float)) (p0 : kpars fops)
    (ops : list (@kop (kpars fops) nat fmat)) (obs : list hobs) : bool :=
  all2 (fun f h => all2 (fun HH n => hint_ok htol dim (fst HH) (snd HH) n)
                        (combine (kf_H fops f) (fst h)) (snd h)) tab hints &&
  all2 (hout_ok rtol atol) (snd (h_run tab hints (kinit p0) ops)) obs.
