(* F6 — Ridge2FoldCV as written computes the truncation index of the final full-data
   solution as  n = len(s > rcond),  which is len(s): no singular direction is excluded.
   [coef_n c (d_k d)] is the model of that behaviour (truncation index k = len(s)).
   Witness (over every real closed field): X = diag(2, 1), s = (2, 1), rcond = 1,
   alphas = [0], Tikhonov, y = (1, 1)^T — the second singular value is <= rcond but
   coef_ has the component 1 along the second right singular vector.
   The repaired code (n = sum(s > rcond), Model [coef_]) satisfies C10_rank_excluded. *)
From mathcomp Require Import all_ssreflect all_algebra.
From Verif Require Import MExp MExpMx Ridge2Fold Ridge2FoldMx MxFrobP Ridge2FoldP Ridge2FoldEx.
Set Implicit Arguments.
Unset Strict Implicit.
Unset Printing Implicit Defensive.
Import Order.TTheory GRing.Theory Num.Theory.
Local Open Scope ring_scope.

Lemma F06_old_component (F : rcfType) :
  (col ord_max (c_env (ex_c F) 2%N 2%N vV))^T *m (coef_n (ex_c F) 2)^T = 1%:M.
Proof.
  rewrite /coef_n /coef_prog /w_prog /= trmxK /genv_n !env_set_same !env_set_other //.
  rewrite /= /ex_env /= !inj_mxE trmx1 !mul1mx tr_col trmx1 -row_mul mul1mx mul_diag_mx.
  rewrite /gfull_n /gvec [c_cutoff _]/= /filt_tik /sfull.
  apply/matrixP => a b; rewrite !ord1 !mxE nth_map_upto ?size_col_list // nth_col_list.
  rewrite /= /ex_env /= inj_mxE !mxE /= mulr1.
  have -> : best_scaled_alpha (ex_c F) = 0.
    by rewrite /best_scaled_alpha /salphas /=; case: (best_idx (ex_c F)) => [|[|?]].
  by rewrite addr0 mulr1 divff ?oner_eq0.
Qed.

Theorem C10_rank_refuted :
  forall F : rcfType, exists (d : r2f_dims) (c : r2f_cfg F (d_t d)),
    r2f_hyps c /\
    exists i : 'I_(d_k d),
      c_env c (d_k d) 1%N vS i ord0 <= c_rcond c /\
      (col i (c_env c (d_p d) (d_k d) vV))^T *m (coef_n c (d_k d))^T != 0.
Proof.
  move=> F; exists (ex_d), (ex_c F); split; first exact: ex_hyps.
  exists ord_max; split; first exact: ex_cut.
  rewrite [X in X != 0]F06_old_component; apply/eqP => /matrixP /(_ ord0 ord0).
  by rewrite !mxE /= => /eqP; rewrite oner_eq0.
Qed.
Print Assumptions C10_rank_refuted.
