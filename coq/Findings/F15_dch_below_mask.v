(* F15 — DirectionalConvexHull._directional_convex_hull_distance, "below" branch.
   The code as found masks the facet distances that are > 0 and takes the maximum of the
   rest; a facet distance that is exactly 0 (the query lies on the extension of another
   lower facet's plane) survives the mask, so a query far below the hull is reported with
   distance 0 ("on the hull").  Model of the code as found: [hull_distance_found].
   Witness: the V-shaped hull through (x,y) = (-1,1), (0,0), (1,1); query (1/2, -1/2) lies
   1 below the surface (which is 1/2 there) and on the plane y = -x of the left facet. *)
From Coq Require Import QArith.
From Verif Require Import ListX DCH.

Definition F15_fs : list facet :=
  [mkFacet [-1; -1]%Q 0%Q [0; 1]%nat;      (* y >= -x *)
   mkFacet [-1; 1]%Q 0%Q [1; 2]%nat;       (* y >=  x *)
   mkFacet [1; 0]%Q (-1)%Q [0; 2]%nat].    (* y <=  1 (upper facet, filtered out) *)
Definition F15_P : list (list Q) := [[1; -1]; [0; 0]; [1; 1]]%Q.

Theorem F15_sign_refuted :
  exists fs P tol x y s dd,
    contract_h1 fs P /\ contract_h2 fs P /\ (0 <= tol)%Q /\
    surface (lower_facets fs) x = Some s /\ (y < s - tol)%Q /\
    hull_distance_found tol (lower_facets fs) (y :: x) = Some dd /\ (dd == 0)%Q.
Proof.
  exists F15_fs, F15_P, (1 # 1000000000000)%Q, [1 # 2]%Q, (- (1 # 2))%Q, (1 # 2)%Q.
  eexists. split; [|split; [|split; [|split; [|split; [|split]]]]].
  - intros f p Hf Hp. cbn in Hf, Hp.
    destruct Hf as [<-|[<-|[<-|[]]]]; destruct Hp as [<-|[<-|[<-|[]]]]; vm_compute; discriminate.
  - intros f v Hf Hv. cbn in Hf.
    destruct Hf as [<-|[<-|[]]]; cbn in Hv; destruct Hv as [<-|[<-|[]]]; split; vm_compute;
      try reflexivity; repeat constructor.
  - vm_compute. discriminate.
  - vm_compute. reflexivity.
  - vm_compute. reflexivity.
  - vm_compute. reflexivity.
  - vm_compute. reflexivity.
Qed.
Print Assumptions F15_sign_refuted.

(* the repaired mask reports the same query 1 below *)
Example F15_fixed_reports_below :
  exists dd, hull_distance (1 # 1000000000000) (lower_facets F15_fs) [- (1 # 2); 1 # 2]%Q = Some dd /\
             (dd == -1)%Q.
Proof. eexists. split; vm_compute; reflexivity. Qed.
