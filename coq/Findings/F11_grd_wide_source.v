(* F11 — pointwise/global_reconstruction_distortion with X wider than Y.

   Faithful model of the shapes in the UNREPAIRED last line of
   pointwise_global_reconstruction_distortion:
       predictions_Y_test (m x q)  -  orthogonal_predictions_Y_test (m x max(p,q))
   under numpy broadcasting.  For p > q >= 2 the subtraction raises (the measure is not
   defined); for p > q = 1 it silently broadcasts the single prediction column against all
   max(p,q) columns.  The repaired code (fixes/F11_grd_wide_source.diff, modelled by
   Model/Recon.v grd_prog) pads the linear prediction to max(p,q) columns first. *)
From Coq Require Import Arith Bool Lia.

(* columns of  (m, a) - (m, b)  under numpy broadcasting; None = ValueError *)
Definition bcast_cols (a b : nat) : option nat :=
  if Nat.eqb a b then Some a else if Nat.eqb a 1 then Some b else if Nat.eqb b 1 then Some a else None.

Definition old_grd_cols (p q : nat) : option nat := bcast_cols q (Nat.max p q).
Definition new_grd_cols (p q : nat) : option nat := bcast_cols (Nat.max p q) (Nat.max p q).

(* "defined for every pair of feature dimensions" fails for the old code *)
Theorem F11_old_grd_refuted : exists p q, 0 < q /\ old_grd_cols p q = None.
Proof. exists 3, 2. split; [lia | vm_compute; reflexivity]. Qed.

(* exactly the wide-source region with at least two targets raises ... *)
Theorem F11_old_grd_raises_iff : forall p q, 0 < p -> 0 < q ->
  old_grd_cols p q = None <-> (q < p /\ 2 <= q).
Proof.
  intros p q Hp Hq. unfold old_grd_cols, bcast_cols.
  destruct (Nat.eqb_spec q (Nat.max p q)) as [E|E];
  destruct (Nat.eqb_spec q 1) as [E1|E1];
  destruct (Nat.eqb_spec (Nat.max p q) 1) as [E2|E2]; split; intros H; try discriminate; try lia.
  reflexivity.
Qed.

(* ... and with a single target the old code does not compare like with like: one
   prediction column is subtracted from each of the p columns of the orthogonal prediction *)
Theorem F11_old_grd_silent_broadcast : forall p, 1 < p -> old_grd_cols p 1 = Some p.
Proof.
  intros p Hp. unfold old_grd_cols, bcast_cols.
  replace (Nat.max p 1) with p by lia.
  destruct (Nat.eqb_spec 1 p); [lia | reflexivity].
Qed.

(* the repaired shape is max(p, q) columns on both sides, for all widths *)
Theorem F11_new_grd_defined : forall p q, new_grd_cols p q = Some (Nat.max p q).
Proof. intros p q. unfold new_grd_cols, bcast_cols. now rewrite Nat.eqb_refl. Qed.
