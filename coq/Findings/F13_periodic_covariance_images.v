(* F13 (C17): the periodic branch of _covariance, modelled as written
   (circular mean from sin(X) * 2 pi / cell instead of sin(2 pi X / cell), not mapped back to cell
   units), is not invariant under shifting a grid point by a whole cell.  Witness: the input of
   tests/test_neighbors.py::test_covariance_periodic (X = [[1,2],[3,3],[4,6]], cell = [3,3], uniform
   weights) and the same input with the first point shifted by one cell along the first axis.
   The model reproduces the value pinned by that test on the original input and returns a
   different matrix on the shifted one.  Replayed on the implementation by the directed probe
   "F13-periodic-grid-image" of harness/props/c17.py (known finding periodic-covariance-images). *)
From Coq Require Import List PrimFloat.
From Verif Require Import MExp SparseKDEA.
Import ListNotations.
Open Scope float_scope.

Definition f13_cell : list float := [3; 3].
Definition f13_X : fmat := [[1; 2]; [3; 3]; [4; 6]].
Definition f13_X' : fmat := [[4; 2]; [3; 3]; [4; 6]].        (* first point + (3, 0) *)
Definition f13_w : list float := [0x1.5555555555555p-2; 0x1.5555555555555p-2; 0x1.5555555555555p-2].
Definition f13_pinned : fmat :=                                (* expected_cov_periodic *)
  [[1.12597216; 0.45645371]; [0.45645371; 0.82318948]].

(* the model agrees with the value the test suite pins ... *)
Lemma F13_model_matches_pinned_value :
  fclose 0x1p-23 0x1p-23 (covariance_f (Some f13_cell) 2 f13_X f13_w) f13_pinned = true.
Proof. vm_compute. reflexivity. Qed.

(* ... and is not invariant under a whole-cell shift of one point (relative change > 2^-7) *)
Lemma F13_periodic_covariance_images_refuted :
  exists (cell : list float) (X X' : fmat) (w : list float),
    X' = map (fun r => match r with [a; b] => if eqb a 1 then [a + nth 0 cell 0; b] else r | _ => r end) X /\
    fclose 0x1p-7 0 (covariance_f (Some cell) 2 X w) (covariance_f (Some cell) 2 X' w) = false.
Proof.
  exists f13_cell, f13_X, f13_X', f13_w. split; vm_compute; reflexivity.
Qed.
