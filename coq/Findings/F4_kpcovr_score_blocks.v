(* Finding F4 (C05): KernelPCovR.score before the repair multiplies  w^T K_VV w  where the
   documented loss has  w^T K_NN w  (w is n_N x n_V).  The product is ill-formed whenever the
   held-out set has a different number of samples than the training set, so score raises; the
   smallest witness is one held-out sample against three training samples.  (For n_V = n_N with
   V <> N the product is well-formed and the value is wrong; with center=True the code moreover
   hands the V x V block to KernelNormalizer.transform, which expects n_N columns.)
   The check harness/props/c05.py finds the failing inputs on the implementation; this file
   records the shape-level witness on the faithful formula. *)
From Coq Require Import List.
From Verif Require Import MExp KPCovR.

Lemma F4_score_code_before_fix_refuted :
  exists n p k v : nat, rshape (raw_score_code_before_fix n p k v) = None.
Proof. exists 3, 1, 1, 1. vm_compute. reflexivity. Qed.

(* ... while the documented formula is fine on the same shapes *)
Lemma F4_score_doc_ok : rshape (raw_score_doc 3 1 1 1) = Some (1, 1).
Proof. vm_compute. reflexivity. Qed.
