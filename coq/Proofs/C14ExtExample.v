(* C14 extension: non-vacuity of the MASKED branch of the loss / round-trip theorems.
   The environment of Proofs/PCovRExample.v with tol raised to the eigenvalue (tol = S_1 = 2):
   the single component is then zeroed by the code (S_1 > tol fails), every sample-space
   oracle hypothesis still holds. *)
From mathcomp Require Import all_ssreflect all_algebra.
From Verif Require Import MExp MExpMx PCovR PCovRP PCovRProg KyFan C14Thm C04Thm PCovRNested
  PCovRExample C14ExtP.
Set Implicit Arguments.
Unset Strict Implicit.
Unset Printing Implicit Defensive.
Import Order.TTheory GRing.Theory Num.Theory.
Local Open Scope ring_scope.

Section Masked.
  Variable F : rcfType.
  Variable mix : F.

  Definition ex_env_masked : env_mx F :=
    fun r c v => if v == vtol then const_mx 2 else ex_env mix r c v.

  Lemma ex_masked :
    [/\ nested_chain 2 1 ex_env_masked 0 1, fit_oracle 2 1 1 (0 + 1) ex_env_masked true,
        centred 2 1 ex_env_masked
      & (forall i, ~~ (e_tol ex_env_masked < e_S (0 + 1) ex_env_masked i 0))
        /\ e_X 2 1 ex_env_masked != 0].
  Proof.
    have [hn ho hc _] := ex_nested mix.
    have [_ _ _ [_ _ hx]] := ex_nonvacuous mix.
    case: ho => t0 hw hv.
    split.
    - by split.
    - split; [by rewrite /e_tol /ex_env_masked /= mxE ler0n | exact: hw | exact: hv].
    - exact: hc.
    - split; last exact: hx.
      by move=> i; rewrite /e_tol /e_S /ex_env_masked /= !mxE /ex_entry /= ltxx.
  Qed.
End Masked.
