(* C04: PCovR interpolates optimally and monotonically between PCA and regression -
   theorems about the programs of Model/PCovR.v over an arbitrary real closed field. *)
From mathcomp Require Import all_ssreflect all_algebra.
From Verif Require Import MExp MExpMx PCovR PCovRP PCovRProg KyFan C14Thm.
Set Implicit Arguments.
Unset Strict Implicit.
Unset Printing Implicit Defensive.
Import Order.TTheory GRing.Theory Num.Theory.
Local Open Scope ring_scope.

Section C04.
  Variable F : rcfType.
  Variables (n m p k : nat) (env : env_mx F).

  Local Notation tol := (e_tol env).
  Local Notation a := (e_a env).
  Local Notation S := (e_S k env).
  Local Notation X := (e_X n m env).
  Local Notation Y := (e_Y n p env).
  Local Notation Yh := (e_Yh n p env).
  Local Notation W := (e_W m p env).
  Local Notation UC := (e_UC m env).
  Local Notation vC := (e_vC m env).
  Local Notation Csq := (e_Csq m env).
  Local Notation Vs := (e_Vs n k env).
  Local Notation Vf := (e_Vf m k env).
  Local Notation Kt := (eval_mx env (kern_prog n m p)).
  Local Notation pxt := (pxt_of n m p k env).
  Local Notation ptx := (ptx_of n m k env).
  Local Notation pty := (pty_of n m p k env).

  Lemma mulmx11 (A B : 'M[F]_1) : (A *m B) ord0 ord0 = A ord0 ord0 * B ord0 ord0.
  Proof. by rewrite mxE big_ord1. Qed.

  (* ---- the loss programs -------------------------------------------------------------- *)
  Lemma lossx_formula (Qp : mexp n k) :
    (eval_mx env (lossx_prog n m k Qp)) ord0 ord0 = proj_loss (eval_mx env Qp) X.
  Proof. by rewrite /lossx_prog sqnorm_formula. Qed.

  Lemma lossy_formula (Qp : mexp n k) :
    (eval_mx env (lossy_prog n p k Qp)) ord0 ord0 = proj_loss (eval_mx env Qp) Yh.
  Proof. by rewrite /lossy_prog sqnorm_formula. Qed.

  Theorem loss_formula (Qp : mexp n k) :
    (eval_mx env (loss_prog n m p k Qp)) ord0 ord0 = mixed_loss X Yh a (eval_mx env Qp).
  Proof.
    rewrite /loss_prog eval_add mxE 2!eval_mul 2!mulmx11 sc_oma_eval lossx_formula.
    by rewrite lossy_formula.
  Qed.

  (* loss = tr K~ - tr(Q^T K~ Q) for orthonormal Q *)
  Theorem loss_trace (Qp : mexp n k) :
    (eval_mx env Qp)^T *m eval_mx env Qp = 1%:M ->
    (eval_mx env (loss_prog n m p k Qp)) ord0 ord0
    = \tr Kt - \tr ((eval_mx env Qp)^T *m Kt *m eval_mx env Qp).
  Proof. by move=> hQ; rewrite loss_formula kern_formula; exact: mixed_loss_trace. Qed.

  (* ---- optimality ---------------------------------------------------------------------- *)
  Theorem loss_optimal (U : 'M[F]_n) (L : 'cV[F]_n) (kn : (k <= n)%N) (Qp : mexp n k) :
    fit_oracle n m p k env true ->
    (* the full eigen-decomposition of K~, decreasing, whose top k the oracle returned *)
    U^T *m U = 1%:M -> Kt *m U = U *m diag_mx L^T ->
    (forall i j : 'I_n, (i <= j)%N -> L j 0 <= L i 0) ->
    (forall i : 'I_k, S i 0 = L (widen_ord kn i) 0) ->
    (eval_mx env Qp)^T *m eval_mx env Qp = 1%:M ->
    (eval_mx env (loss_prog n m p k (eVs n k))) ord0 ord0
    <= (eval_mx env (loss_prog n m p k Qp)) ord0 ord0.
  Proof.
    move=> [t0 hw [v1 v2]] u1 u2 hs htop hQ; rewrite !loss_formula.
    rewrite kern_formula in u2 v2.
    apply: (mixed_loss_optimal u1 u2 hs v1 v2 _ hQ).
    rewrite (big_ord_narrow kn) /=; apply: eq_bigr => i _; exact: htop.
  Qed.

  (* the subspace of loss_prog (eVs) is the one the fitted estimator reconstructs with *)
  Theorem own_subspace : centred n m env -> fit_oracle n m p k env true ->
    (forall i, tol < S i 0) ->
    let T := transform_prog n m p k true (eX n m) in
    eval_mx env (inverse_prog n m k true T) = Vs *m (Vs^T *m X)
    /\ eval_mx env (predict_t_prog n m p k true T) = Vs *m (Vs^T *m Y).
  Proof.
    move=> hc [t0 hw [v1 v2]] hret T; rewrite /T inverse_formula predict_t_formula.
    rewrite transform_centred // -/X /pxt_of /ptx_of /pty_of.
    rewrite kern_formula in v2.
    rewrite (s_reconstruct t0 hw v2) (s_predict Y t0 hw v2).
    have -> : dmap (g_mk tol) S = 1%:M.
      by rewrite -(dmap_1 S); apply: dmap_ext => i; rewrite /g_mk hret.
    by rewrite mulmx1 -!mulmxA.
  Qed.

  (* ---- the PCA limit: mixing = 1 -------------------------------------------------------- *)
  Theorem pca_limit_sample : a = 1 -> fit_oracle n m p k env true ->
    [/\ (pxt true)^T *m pxt true = retained_mask k env,
        (X^T *m X) *m pxt true = pxt true *m diag_mx S^T
      & ptx true = (pxt true)^T].
  Proof.
    move=> a1 [t0 hw [v1 v2]]; rewrite kern_formula in v2.
    have hK : s_Kt X Yh a = X *m X^T.
      by rewrite s_Kt_alt a1 subrr scale0r scale1r addr0.
    have hP : s_P X Yh W a = X^T.
      by rewrite /s_P a1 subrr scale0r mul0mx scale1r addr0.
    rewrite hK in v2.
    have hpxt : pxt true = X^T *m Vs *m dmap (g_isq tol) S.
      by rewrite /pxt_of /s_pxt hP /s_T mulmxA.
    have hN : (X^T *m Vs)^T *m (X^T *m Vs) = diag_mx S^T.
      by rewrite trmx_mul trmxK -mulmxA (mulmxA X) v2 mulmxA v1 mul1mx.
    split.
    - rewrite hpxt trmx_mul dmap_tr -(mulmxA (dmap _ _)) (mulmxA (X^T *m Vs)^T) hN.
      rewrite dmap_id !dmap_mul /retained_mask.
      by apply: dmap_ext => i; rewrite /= mulrA g_isq_x_isq.
    - rewrite hpxt -!mulmxA (mulmxA X X^T) (mulmxA (X *m X^T)) v2 -!mulmxA.
      congr (_ *m (_ *m _)); rewrite dmap_id !dmap_mul.
      by apply: dmap_ext => i; rewrite mulrC.
    - by rewrite hpxt /ptx_of /s_ptx /s_T !trmx_mul trmxK dmap_tr mulmxA.
  Qed.

  Theorem pca_limit_feature : a = 1 -> fit_oracle n m p k env false ->
    [/\ pxt false = Vf *m retained_mask k env,
        (X^T *m X) *m Vf = Vf *m diag_mx S^T
      & ptx false = (pxt false)^T].
  Proof.
    move=> a1 [t0 [u1 u2 u3] hp [v1 v2]].
    rewrite xtx_formula in u2; rewrite cov_formula in v2.
    rewrite /lstsq_oracle cisqrt_formula in hp.
    have hC : f_Ct X Yh a tol UC vC = X^T *m X.
      by rewrite /f_Ct a1 subrr scale0r scale1r add0r.
    rewrite hC in v2.
    have h1 : pxt false = Vf *m retained_mask k env.
      rewrite /pxt_of /f_pxt /f_A (fc_eig u1 u2 _ v2) -mulmxA dmap_mul /retained_mask.
      by congr (_ *m _); apply: dmap_ext => i; exact: g_isq_sq.
    split=> //.
    rewrite h1 /ptx_of /f_ptx (Csq_fc t0 u1 hp) trmx_mul /retained_mask dmap_tr.
    rewrite -mulmxA -[Vf^T *m _]trmxK trmx_mul trmxK fc_tr (fc_eig u1 u2 _ v2).
    rewrite trmx_mul dmap_tr mulmxA dmap_mul; congr (_ *m _).
    by apply: dmap_ext => i; exact: g_isq_sq.
  Qed.

  (* the same on the programs *)
  Theorem pca_limit_sample_prog : a = 1 -> fit_oracle n m p k env true ->
    let P := eval_mx env (pxt_prog n m p k true) in
    [/\ P^T *m P = retained_mask k env, (X^T *m X) *m P = P *m diag_mx S^T
      & eval_mx env (ptx_prog n m k true) = P^T].
  Proof. by move=> a1 ho P; rewrite /P pxt_formula ptx_formula; exact: pca_limit_sample. Qed.

  Theorem pca_limit_feature_prog : a = 1 -> fit_oracle n m p k env false ->
    let P := eval_mx env (pxt_prog n m p k false) in
    [/\ P = Vf *m retained_mask k env, (X^T *m X) *m Vf = Vf *m diag_mx S^T
      & eval_mx env (ptx_prog n m k false) = P^T].
  Proof. by move=> a1 ho P; rewrite /P pxt_formula ptx_formula; exact: pca_limit_feature. Qed.

  (* ---- the regression limit: mixing = 0, the oracle captured all of K~ = Yh Yh^T -------- *)
  Theorem regression_limit : a = 0 -> fit_oracle n m p k env true ->
    (* exact least squares: the residual is orthogonal to the features *)
    X^T *m (Y - Yh) = 0 ->
    (* k >= rank Yh: the retained eigenpairs reproduce K~ *)
    Kt = Vs *m dmap (fun x => g_mk tol x * x) S *m Vs^T ->
    X *m pxt true *m pty true = Yh.
  Proof.
    move=> a0 [t0 hw [v1 v2]] hls hfull.
    rewrite kern_formula in v2 hfull.
    have hK : s_Kt X Yh a = Yh *m Yh^T.
      by rewrite s_Kt_alt a0 subr0 scale0r scale1r add0r.
    rewrite /pxt_of /pty_of (s_predict Y t0 hw v2).
    set P := Vs *m dmap (g_mk tol) S *m Vs^T.
    have Psym : P^T = P by rewrite /P !trmx_mul trmxK dmap_tr mulmxA.
    have PK : P *m s_Kt X Yh a = s_Kt X Yh a.
      rewrite hfull /P !mulmxA -(mulmxA _ Vs^T Vs) v1 mulmx1 -(mulmxA Vs) dmap_mul.
      congr (_ *m _ *m _); apply: dmap_ext => i.
      by rewrite mulrA g_mk_mk.
    have KP : s_Kt X Yh a *m P = s_Kt X Yh a.
      by rewrite -[LHS]trmxK trmx_mul Psym s_Kt_sym PK s_Kt_sym.
    have YhtR : Yh^T *m (Y - Yh) = 0.
      by rewrite {1}hw trmx_mul -mulmxA hls mulmx0.
    (* P Yh = Yh : the retained eigenvectors span the range of Yh *)
    have PYh : P *m Yh = Yh.
      apply/eqP; rewrite -subr_eq0; apply/eqP; apply: gram_eq0r.
      have -> : (P *m Yh - Yh) *m (P *m Yh - Yh)^T
                = P *m s_Kt X Yh a *m P - P *m s_Kt X Yh a - s_Kt X Yh a *m P + s_Kt X Yh a.
        rewrite hK [(P *m Yh - Yh)^T]raddfB /= trmx_mul Psym mulmxBl !mulmxBr !mulmxA.
        by rewrite opprD opprK addrA.
      by rewrite PK KP subrr sub0r addNr.
    (* P annihilates the least-squares residual *)
    have PR : P *m (Y - Yh) = 0.
      have -> : P = Vs *m dmap (g_inv tol) S *m Vs^T *m s_Kt X Yh a.
        have h : Vs^T *m s_Kt X Yh a = diag_mx S^T *m Vs^T.
          by rewrite -[LHS]trmxK trmx_mul s_Kt_sym trmxK v2 trmx_mul tr_diag_mx.
        rewrite -(mulmxA _ Vs^T) h !mulmxA -(mulmxA Vs) dmap_id dmap_mul /P.
        by congr (_ *m _ *m _); apply: dmap_ext => i; rewrite g_inv_x.
      by rewrite hK -!mulmxA YhtR !mulmx0.
    by rewrite -(subrK Yh Y) mulmxDr PR PYh add0r.
  Qed.

  Theorem regression_limit_prog : centred n m env -> a = 0 -> fit_oracle n m p k env true ->
    X^T *m (Y - Yh) = 0 ->
    Kt = Vs *m dmap (fun x => g_mk tol x * x) S *m Vs^T ->
    eval_mx env (predict_x_prog n m p k true (eX n m)) = Yh
    /\ eval_mx env (predict_t_prog n m p k true (transform_prog n m p k true (eX n m))) = Yh.
  Proof.
    move=> hc a0 ho hls hfull.
    rewrite predict_t_formula transform_centred // predict_x_formula -/X mulmxA.
    by rewrite (regression_limit a0 ho hls hfull).
  Qed.
End C04.

(* ---- monotonicity: two fits of the same data with mixings a < b -------------------------- *)
Section C04Monotone.
  Variable F : rcfType.
  Variables (n m p k : nat) (ea eb : env_mx F).
  Variables (Ua Ub : 'M[F]_n) (La Lb : 'cV[F]_n) (kn : (k <= n)%N).

  (* a fit in sample space together with the full decreasing eigen-decomposition of K~
     whose top k eigenpairs the oracle returned *)
  Definition full_fit (e : env_mx F) (U : 'M[F]_n) (L : 'cV[F]_n) : Prop :=
    [/\ fit_oracle n m p k e true,
        U^T *m U = 1%:M /\ eval_mx e (kern_prog n m p) *m U = U *m diag_mx L^T,
        forall i j : 'I_n, (i <= j)%N -> L j 0 <= L i 0
      & forall i : 'I_k, e_S k e i 0 = L (widen_ord kn i) 0].

  Hypothesis sameX : e_X n m ea = e_X n m eb.
  Hypothesis sameYh : e_Yh n p ea = e_Yh n p eb.
  Hypothesis a0 : 0 <= e_a ea.
  Hypothesis ab : e_a ea < e_a eb.
  Hypothesis b1 : e_a eb <= 1.
  Hypothesis fa : full_fit ea Ua La.
  Hypothesis fb : full_fit eb Ub Lb.

  Lemma full_fit_optimal e U L (Q : 'M[F]_(n, k)) : full_fit e U L -> Q^T *m Q = 1%:M ->
    mixed_loss (e_X n m e) (e_Yh n p e) (e_a e) (e_Vs n k e)
    <= mixed_loss (e_X n m e) (e_Yh n p e) (e_a e) Q.
  Proof.
    move=> [[t0 hw [v1 v2]] [u1 u2] hs htop] hQ; rewrite kern_formula in u2 v2.
    apply: (mixed_loss_optimal u1 u2 hs v1 v2 _ hQ).
    by rewrite (big_ord_narrow kn) /=; apply: eq_bigr => i _; exact: htop.
  Qed.

  Theorem monotone_prog :
    (eval_mx eb (lossx_prog n m k (eVs n k))) ord0 ord0
      <= (eval_mx ea (lossx_prog n m k (eVs n k))) ord0 ord0
    /\ (eval_mx ea (lossy_prog n p k (eVs n k))) ord0 ord0
      <= (eval_mx eb (lossy_prog n p k (eVs n k))) ord0 ord0.
  Proof.
    rewrite (lossx_formula m eb) (lossx_formula m ea).
    rewrite (lossy_formula p eb) (lossy_formula p ea) -sameX -sameYh.
    have va : (e_Vs n k ea)^T *m e_Vs n k ea = 1%:M by case: fa => [[_ _ [v1 _]] _ _ _].
    have vb : (e_Vs n k eb)^T *m e_Vs n k eb = 1%:M by case: fb => [[_ _ [v1 _]] _ _ _].
    apply: (mixing_monotone a0 ab b1 va vb).
    - by move=> Q hQ; exact: full_fit_optimal fa hQ.
    - by move=> Q hQ; rewrite sameX sameYh; exact: full_fit_optimal fb hQ.
  Qed.
End C04Monotone.
