(* Algebra of the reconstruction measures (ssreflect/mathcomp style).
   Part 1: the scaler, row norms, Frobenius norms, ridge / least-squares contract over an
           arbitrary real closed field.
   Part 2: what the mexp programs of Model/Recon.v evaluate to ([eval_mx]).
   Part 3: the C13 theorems about those programs, each under its stated contract. *)
From mathcomp Require Import all_ssreflect all_algebra fingroup perm.
From Verif Require Import MExp MExpMx Recon ReconListP.
Set Implicit Arguments.
Unset Strict Implicit.
Unset Printing Implicit Defensive.
Import Order.Theory GRing.Theory Num.Theory.
Close Scope float_scope.
Local Open Scope ring_scope.

(* ================================================================== Part 1 *)
Section Algebra.
  Variable F : rcfType.

  Definition ones m n : 'M[F]_(m, n) := const_mx 1.

  Lemma ones_mulE m n p (A : 'M[F]_(n, p)) i j : (ones m n *m A) i j = \sum_k A k j.
  Proof. by rewrite mxE; apply: eq_bigr => k _; rewrite mxE mul1r. Qed.

  Lemma mul_onesE m n p (A : 'M[F]_(m, n)) i j : (A *m ones n p) i j = \sum_k A i k.
  Proof. by rewrite mxE; apply: eq_bigr => k _; rewrite mxE mulr1. Qed.

  (* ---- squared Frobenius norm ---- *)
  Definition fro2 m n (A : 'M[F]_(m, n)) : F := \tr (A^T *m A).

  Lemma fro2E m n (A : 'M[F]_(m, n)) : fro2 A = \sum_j \sum_i (A i j) ^+ 2.
  Proof.
    rewrite /fro2 /mxtrace; apply: eq_bigr => j _; rewrite mxE.
    by apply: eq_bigr => i _; rewrite mxE expr2.
  Qed.

  Lemma fro2_ge0 m n (A : 'M[F]_(m, n)) : 0 <= fro2 A.
  Proof. by rewrite fro2E; apply: sumr_ge0 => j _; apply: sumr_ge0 => i _; apply: sqr_ge0. Qed.

  Lemma fro2_eq0 m n (A : 'M[F]_(m, n)) : fro2 A = 0 -> A = 0.
  Proof.
    rewrite fro2E => /psumr_eq0P H; apply/matrixP => i j; rewrite mxE.
    have Hj : \sum_i0 (A i0 j) ^+ 2 = 0.
      by apply: H => // k _; apply: sumr_ge0 => l _; apply: sqr_ge0.
    move/psumr_eq0P: Hj => Hj; apply/eqP; rewrite -(@sqrf_eq0 F); apply/eqP.
    by apply: Hj => // k _; apply: sqr_ge0.
  Qed.

  Lemma fro2_0 m n : fro2 (0 : 'M[F]_(m, n)) = 0.
  Proof. by rewrite /fro2 mulmx0 mxtrace0. Qed.

  Lemma fro2_orth m n (A : 'M[F]_(m, n)) (R : 'M[F]_n) :
    R *m R^T = 1%:M -> fro2 (A *m R) = fro2 A.
  Proof.
    by move=> RR; rewrite /fro2 trmx_mul -mulmxA mxtrace_mulC -!mulmxA RR mulmx1.
  Qed.

  Lemma fro2B m n (A B : 'M[F]_(m, n)) :
    fro2 (A - B) = fro2 A - 2%:R * \tr (B^T *m A) + fro2 B.
  Proof.
    rewrite /fro2 mulmxBr [(A - B)^T]linearB /= !mulmxBl !linearB /=.
    rewrite -[\tr (A^T *m B)]mxtrace_tr trmx_mul trmxK.
    by rewrite opprD opprK addrA mulr_natl mulr2n opprD addrA.
  Qed.

  (* ---- row norms: np.linalg.norm(R, axis=1) ---- *)
  Definition rownorm m q (R : 'M[F]_(m, q)) : 'cV[F]_m := \col_i Num.sqrt (\sum_j (R i j) ^+ 2).

  Lemma rownorm_ge0 m q (R : 'M[F]_(m, q)) i : 0 <= rownorm R i ord0.
  Proof. by rewrite mxE sqrtr_ge0. Qed.

  Lemma rowsq_ge0 m q (R : 'M[F]_(m, q)) i : 0 <= \sum_j (R i j) ^+ 2.
  Proof. by apply: sumr_ge0 => j _; apply: sqr_ge0. Qed.

  Lemma rownorm_sq m q (R : 'M[F]_(m, q)) i : (rownorm R i ord0) ^+ 2 = \sum_j (R i j) ^+ 2.
  Proof. by rewrite mxE sqr_sqrtr // rowsq_ge0. Qed.

  Lemma rownorm_fro2 m q (R : 'M[F]_(m, q)) : \sum_i (rownorm R i ord0) ^+ 2 = fro2 R.
  Proof.
    rewrite fro2E exchange_big /=; apply: eq_bigr => i _; exact: rownorm_sq.
  Qed.

  Lemma rownorm0 m q : rownorm (0 : 'M[F]_(m, q)) = 0.
  Proof.
    apply/colP => i; rewrite !mxE big1 ?sqrtr0 // => j _.
    by rewrite mxE expr0n.
  Qed.

  Lemma rowsq_mulmx m q (R : 'M[F]_(m, q)) i :
    \sum_j (R i j) ^+ 2 = (row i R *m (row i R)^T) ord0 ord0.
  Proof. by rewrite mxE; apply: eq_bigr => j _; rewrite !mxE expr2. Qed.

  Lemma rownorm_orth m q (R : 'M[F]_(m, q)) (Q : 'M[F]_q) :
    Q *m Q^T = 1%:M -> rownorm (R *m Q) = rownorm R.
  Proof.
    move=> QQ; apply/colP => i; rewrite !mxE !rowsq_mulmx row_mul trmx_mul.
    by rewrite -mulmxA (mulmxA Q) QQ mul1mx.
  Qed.

  Lemma rownorm_row m q (R : 'M[F]_(m, q)) i : rownorm (row i R) ord0 ord0 = rownorm R i ord0.
  Proof. by rewrite !mxE; congr Num.sqrt; apply: eq_bigr => j _; rewrite mxE. Qed.

  (* ---- np.linalg.norm(pw) / np.sqrt(len(pw)) ---- *)
  Definition glob m (pw : 'cV[F]_m) : F :=
    (Num.sqrt m%:R)^-1 * Num.sqrt (\sum_i (pw i ord0) ^+ 2).

  Lemma glob_ge0 m (pw : 'cV[F]_m) : 0 <= glob pw.
  Proof. by apply: mulr_ge0; rewrite ?invr_ge0 sqrtr_ge0. Qed.

  Lemma glob_rms m (pw : 'cV[F]_m) :
    (0 < m)%N -> (glob pw) ^+ 2 * m%:R = \sum_i (pw i ord0) ^+ 2.
  Proof.
    move=> m0; have mR : 0 < (m%:R : F) by rewrite ltr0n.
    rewrite /glob exprMn exprVn sqr_sqrtr ?ltW // sqr_sqrtr; last first.
      by apply: sumr_ge0 => i _; apply: sqr_ge0.
    by rewrite mulrAC mulVf ?mul1r // gt_eqF.
  Qed.

  (* ---- StandardFlexibleScaler (defaults) ---- *)
  Section Scaler.
    Variables (n p : nat).
    Implicit Types (X : 'M[F]_(n, p)).

    Definition cmean X : 'rV[F]_p := n%:R^-1 *: (ones 1 n *m X).
    Definition center X a (A : 'M[F]_(a, p)) : 'M[F]_(a, p) := A - ones a 1 *m cmean X.
    Definition varsum X : F := \sum_j (n%:R^-1 * \sum_i (center X X i j) ^+ 2).
    Definition iscale X : F := (Num.sqrt (varsum X))^-1.
    Definition std X a (A : 'M[F]_(a, p)) : 'M[F]_(a, p) := iscale X *: center X A.

    Lemma varsum_fro2 X : varsum X = n%:R^-1 * fro2 (center X X).
    Proof. by rewrite /varsum fro2E mulr_sumr. Qed.

    Lemma varsum_ge0 X : 0 <= varsum X.
    Proof. by rewrite varsum_fro2 mulr_ge0 ?invr_ge0 ?ler0n ?fro2_ge0. Qed.

    Lemma ones_ones a b c : ones a b *m ones b c = b%:R *: ones a c :> 'M[F]_(a, c).
    Proof.
      apply/matrixP => i j; rewrite ones_mulE !mxE mulr1.
      by rewrite (eq_bigr (fun _ => 1)) ?sumr_const ?card_ord // => k _; rewrite mxE.
    Qed.

    Lemma ones11 q (b : 'rV[F]_q) : ones 1 1 *m b = b.
    Proof. by apply/rowP => j; rewrite ones_mulE big_ord1. Qed.

    (* column means of a shifted matrix *)
    Lemma cmeanD X (b : 'rV[F]_p) : (0 < n)%N -> cmean (X + ones n 1 *m b) = cmean X + b.
    Proof.
      move=> n0; rewrite /cmean mulmxDr scalerDr mulmxA ones_ones -scalemxAl scalerA.
      by rewrite mulVf ?scale1r ?ones11 // pnatr_eq0 -lt0n.
    Qed.

    Lemma cmeanZ X (c : F) : cmean (c *: X) = c *: cmean X.
    Proof. by rewrite /cmean -scalemxAr scalerA mulrC -scalerA. Qed.

    Lemma cmeanM X q (A : 'M[F]_(p, q)) : n%:R^-1 *: (ones 1 n *m (X *m A)) = cmean X *m A.
    Proof. by rewrite /cmean mulmxA scalemxAl. Qed.
  End Scaler.

  (* affine change of the fitted data and of the transformed data: same standardisation *)
  Lemma center_affine n p a (X : 'M[F]_(n, p)) (A : 'M[F]_(a, p)) (c : F) (b : 'rV[F]_p) :
    (0 < n)%N ->
    center (c *: X + ones n 1 *m b) (c *: A + ones a 1 *m b) = c *: center X A.
  Proof.
    move=> n0; rewrite /center cmeanD // cmeanZ mulmxDr opprD addrACA.
    by rewrite subrr addr0 -scalemxAr scalerBr.
  Qed.

  Lemma varsum_affine n p (X : 'M[F]_(n, p)) (c : F) (b : 'rV[F]_p) :
    (0 < n)%N -> varsum (c *: X + ones n 1 *m b) = c ^+ 2 * varsum X.
  Proof.
    move=> n0; rewrite !varsum_fro2 center_affine // mulrCA; congr (_ * _).
    rewrite !fro2E mulr_sumr; apply: eq_bigr => j _; rewrite mulr_sumr.
    by apply: eq_bigr => i _; rewrite mxE exprMn.
  Qed.

  Lemma std_affine n p a (X : 'M[F]_(n, p)) (A : 'M[F]_(a, p)) (c : F) (b : 'rV[F]_p) :
    (0 < n)%N -> 0 < c ->
    std (c *: X + ones n 1 *m b) (c *: A + ones a 1 *m b) = std X A.
  Proof.
    move=> n0 c0; rewrite /std /iscale varsum_affine // center_affine // scalerA.
    rewrite sqrtrM ?sqr_ge0 // sqrtr_sqr gtr0_norm // invfM mulrAC mulVf ?mul1r //.
    by rewrite gt_eqF.
  Qed.

  (* linear change of the features *)
  Lemma center_mul n p q a (X : 'M[F]_(n, p)) (A : 'M[F]_(a, p)) (B : 'M[F]_(p, q)) :
    center (X *m B) (A *m B) = center X A *m B.
  Proof. by rewrite /center /cmean mulmxBl mulmxA scalemxAl -!mulmxA. Qed.

  Lemma varsum_orth n p (X : 'M[F]_(n, p)) (R : 'M[F]_p) :
    R *m R^T = 1%:M -> varsum (X *m R) = varsum X.
  Proof. by move=> RR; rewrite !varsum_fro2 center_mul fro2_orth. Qed.

  Lemma std_orth n p a (X : 'M[F]_(n, p)) (A : 'M[F]_(a, p)) (R : 'M[F]_p) :
    R *m R^T = 1%:M -> std (X *m R) (A *m R) = std X A *m R.
  Proof. by move=> RR; rewrite /std /iscale varsum_orth // center_mul scalemxAl. Qed.

  (* the standardised training data: zero column means, unit total variance *)
  Lemma center_colsum n p (X : 'M[F]_(n, p)) : (0 < n)%N -> ones 1 n *m center X X = 0.
  Proof.
    move=> n0; rewrite /center mulmxBr mulmxA ones_ones /cmean -scalemxAl ones11.
    by rewrite scalerA mulfV ?scale1r ?subrr // pnatr_eq0 -lt0n.
  Qed.

  Lemma std_colsum n p (X : 'M[F]_(n, p)) : (0 < n)%N -> ones 1 n *m std X X = 0.
  Proof. by move=> n0; rewrite /std -scalemxAr center_colsum // scaler0. Qed.

  Lemma fro2Z m n (c : F) (A : 'M[F]_(m, n)) : fro2 (c *: A) = c ^+ 2 * fro2 A.
  Proof.
    rewrite !fro2E mulr_sumr; apply: eq_bigr => j _; rewrite mulr_sumr.
    by apply: eq_bigr => i _; rewrite mxE exprMn.
  Qed.

  Lemma std_fro2 n p (X : 'M[F]_(n, p)) : (0 < n)%N -> 0 < varsum X -> fro2 (std X X) = n%:R.
  Proof.
    move=> n0 v0; rewrite /std fro2Z /iscale exprVn sqr_sqrtr ?ltW //.
    have -> : fro2 (center X X) = n%:R * varsum X.
      by rewrite varsum_fro2 mulrA mulfV ?mul1r // pnatr_eq0 -lt0n.
    by rewrite mulrCA mulVf ?mulr1 // gt_eqF.
  Qed.

  Lemma iscale_gt0 n p (X : 'M[F]_(n, p)) : 0 < varsum X -> 0 < iscale X.
  Proof. by move=> v0; rewrite /iscale invr_gt0 sqrtr_gt0. Qed.

  (* ---- ridge / least-squares contract:  (X^T X + a I) W = X^T Y ---- *)
  Definition gram n p (X : 'M[F]_(n, p)) (a : F) : 'M[F]_p := X^T *m X + a%:M.
  Definition ridge_sol n p q (X : 'M[F]_(n, p)) (Y : 'M[F]_(n, q)) (a : F) (W : 'M[F]_(p, q)) :=
    gram X a *m W = X^T *m Y.

  Lemma ridge_unique n p q (X : 'M[F]_(n, p)) (Y : 'M[F]_(n, q)) a W W' :
    gram X a \in unitmx -> ridge_sol X Y a W -> ridge_sol X Y a W' -> W' = W.
  Proof.
    move=> Au H H'; rewrite -[W]mul1mx -[W']mul1mx -(mulVmx Au) -!mulmxA.
    by rewrite [_ *m W]H [_ *m W']H'.
  Qed.

  (* the fit is never worse than the zero map *)
  Lemma ridge_bound n p q (X : 'M[F]_(n, p)) (Y : 'M[F]_(n, q)) a W :
    0 <= a -> ridge_sol X Y a W -> fro2 (Y - X *m W) <= fro2 Y.
  Proof.
    move=> a0 H.
    have tE : \tr ((X *m W)^T *m Y) = fro2 (X *m W) + a * fro2 W.
      rewrite trmx_mul -mulmxA -[X^T *m Y]H /gram mulmxDl mulmxDr mxtraceD.
      congr (_ + _); first by rewrite /fro2 trmx_mul !mulmxA.
      by rewrite mul_scalar_mx -scalemxAr mxtraceZ.
    have aw : 0 <= a * fro2 W by rewrite mulr_ge0 // fro2_ge0.
    rewrite fro2B tE -addrA ger_addl mulr_natl mulr2n addrC subr_le0 -addrA ler_addl.
    by rewrite addr_ge0 // addr_ge0 // fro2_ge0.
  Qed.

  (* orthogonal-projection contract (cut-off estimators):  X W = P Y, P = U U^T, U^T U = I *)
  Lemma proj_bound n q c (U : 'M[F]_(n, c)) (Y : 'M[F]_(n, q)) :
    U^T *m U = 1%:M -> fro2 (Y - U *m U^T *m Y) <= fro2 Y.
  Proof.
    move=> UU; rewrite fro2B.
    have tE : \tr ((U *m U^T *m Y)^T *m Y) = fro2 (U^T *m Y).
      by rewrite /fro2 !trmx_mul trmxK !mulmxA.
    have fE : fro2 (U *m U^T *m Y) = fro2 (U^T *m Y).
      rewrite /fro2 !trmx_mul trmxK -!mulmxA (mulmxA U^T U) UU mul1mx.
      by rewrite !mulmxA.
    rewrite tE fE -addrA ger_addl mulr_natl mulr2n addrC subr_le0 ler_addl.
    exact: fro2_ge0.
  Qed.
End Algebra.

(* ================================================================== Part 2 *)
Definition rc_Xtr (F : rcfType) (env : env_mx F) n p : 'M[F]_(n, p) := env n p 0%N.
Definition rc_Xte (F : rcfType) (env : env_mx F) m p : 'M[F]_(m, p) := env m p 1%N.
Definition rc_Ytr (F : rcfType) (env : env_mx F) n q : 'M[F]_(n, q) := env n q 2%N.
Definition rc_Yte (F : rcfType) (env : env_mx F) m q : 'M[F]_(m, q) := env m q 3%N.
Definition rc_W (F : rcfType) (env : env_mx F) p q : 'M[F]_(p, q) := env p q 4%N.
Definition rc_Om (F : rcfType) (env : env_mx F) r : 'M[F]_r := env r r 5%N.
Definition rc_Ep (F : rcfType) (env : env_mx F) p r : 'M[F]_(p, r) := env p r 6%N.
Definition rc_Eq (F : rcfType) (env : env_mx F) q r : 'M[F]_(q, r) := env q r 7%N.
Definition rc_Sel (F : rcfType) (env : env_mx F) k n : 'M[F]_(k, n) := env k n 8%N.
Definition rc_ei (F : rcfType) (env : env_mx F) m : 'rV[F]_m := env 1%N m 9%N.
Definition rc_Wi (F : rcfType) (env : env_mx F) p q : 'M[F]_(p, q) := env p q 10%N.
Definition rc_alpha (F : rcfType) (env : env_mx F) : F := env 1%N 1%N 11%N ord0 ord0.
Definition rc_U (F : rcfType) (env : env_mx F) n c : 'M[F]_(n, c) := env n c 12%N.
Definition rc_S (F : rcfType) (env : env_mx F) c : 'cV[F]_c := env c 1%N 13%N.
Definition rc_V (F : rcfType) (env : env_mx F) p c : 'M[F]_(p, c) := env p c 14%N.

Section Programs.
  Variable F : rcfType.
  Variable env : env_mx F.

  Lemma recipE m n t (A : 'M[F]_(m, n)) i j : (map_mx (sfun_mx Frecip t) A) i j = (A i j)^-1.
  Proof. by rewrite mxE. Qed.
  Lemma sqrtE m n t (A : 'M[F]_(m, n)) i j : (map_mx (sfun_mx Fsqrt t) A) i j = Num.sqrt (A i j).
  Proof. by rewrite mxE. Qed.

  Lemma rcountE n : (eval_mx env (rcount n)) ord0 ord0 = n%:R.
  Proof.
    rewrite /= mxE (eq_bigr (fun _ => 1)) ?sumr_const ?card_ord //.
    by move=> i _; rewrite !mxE mulr1.
  Qed.
  Opaque rcount.

  Lemma meanE n p (X : mexp n p) : eval_mx env (mean_prog X) = cmean (eval_mx env X).
  Proof. by rewrite /mean_prog /= recipE rcountE. Qed.
  Opaque mean_prog.

  Lemma centerE n p a (X : mexp n p) (A : mexp a p) :
    eval_mx env (center_prog X A) = center (eval_mx env X) (eval_mx env A).
  Proof. by rewrite /center_prog /= meanE. Qed.
  Opaque center_prog.

  Lemma varsumE n p (X : mexp n p) :
    (eval_mx env (varsum_prog X)) ord0 ord0 = varsum (eval_mx env X).
  Proof.
    rewrite /varsum_prog /= mxE; apply: eq_bigr => j _.
    rewrite [in LHS]mxE [const_mx 1 j ord0]mxE mulr1 recipE rcountE; congr (_ * _).
    rewrite mxE; apply: eq_bigr => i _.
    by rewrite [const_mx _ _ _]mxE mul1r [LHS]mxE centerE expr2.
  Qed.
  Opaque varsum_prog.

  Lemma iscaleE n p (X : mexp n p) :
    (eval_mx env (iscale_prog X)) ord0 ord0 = iscale (eval_mx env X).
  Proof. by rewrite /iscale_prog /= recipE sqrtE varsumE. Qed.
  Opaque iscale_prog.

  Lemma stdE n p a (X : mexp n p) (A : mexp a p) :
    eval_mx env (std_prog X A) = std (eval_mx env X) (eval_mx env A).
  Proof. by rewrite /std_prog /= iscaleE centerE. Qed.
  Opaque std_prog.

  Lemma rownormE m q (R : mexp m q) : eval_mx env (rownorm_prog R) = rownorm (eval_mx env R).
  Proof.
    apply/colP => i; rewrite /rownorm_prog /= sqrtE !mxE; congr Num.sqrt.
    by apply: eq_bigr => j _; rewrite !mxE mulr1 expr2.
  Qed.
  Opaque rownorm_prog.

  Lemma globalE m (pw : mexp m 1) :
    (eval_mx env (global_prog pw)) ord0 ord0 = glob (eval_mx env pw).
  Proof.
    rewrite /global_prog /= mxE recipE !sqrtE rcountE; congr (_ * Num.sqrt _).
    by rewrite mxE; apply: eq_bigr => i _; rewrite mxE expr2.
  Qed.
  Opaque global_prog.
End Programs.
Global Opaque rcount mean_prog center_prog varsum_prog iscale_prog std_prog rownorm_prog global_prog.

Section Measures.
  Variable F : rcfType.
  Variables (n m p q : nat).
  Variable env : env_mx F.
  Local Notation Xtr := (rc_Xtr env n p).
  Local Notation Xte := (rc_Xte env m p).
  Local Notation Ytr := (rc_Ytr env n q).
  Local Notation Yte := (rc_Yte env m q).
  Local Notation W := (rc_W env p q).
  Local Notation alpha := (rc_alpha env).

  (* the standardised blocks *)
  Definition Xs_tr : 'M[F]_(n, p) := std Xtr Xtr.
  Definition Xs_te : 'M[F]_(m, p) := std Xtr Xte.
  Definition Ys_tr : 'M[F]_(n, q) := std Ytr Ytr.
  Definition Ys_te : 'M[F]_(m, q) := std Ytr Yte.

  Lemma xs_trE : eval_mx env (xs_tr n p) = Xs_tr. Proof. by rewrite /xs_tr stdE. Qed.
  Lemma xs_teE : eval_mx env (xs_te n m p) = Xs_te. Proof. by rewrite /xs_te stdE. Qed.
  Lemma ys_trE : eval_mx env (ys_tr n q) = Ys_tr. Proof. by rewrite /ys_tr stdE. Qed.
  Lemma ys_teE : eval_mx env (ys_te n m q) = Ys_te. Proof. by rewrite /ys_te stdE. Qed.
  Opaque xs_tr xs_te ys_tr ys_te.

  (* ---- GRE ---- *)
  Lemma greE : eval_mx env (gre_prog n m p q) = rownorm (Ys_te - Xs_te *m W).
  Proof. by rewrite /gre_prog rownormE /= ys_teE xs_teE. Qed.

  Lemma ridge_resid_evalE k (Xs : mexp k p) (Ys : mexp k q) (Wp : mexp p q) :
    eval_mx env (ridge_resid p q Xs Ys Wp)
    = gram (eval_mx env Xs) alpha *m eval_mx env Wp - (eval_mx env Xs)^T *m eval_mx env Ys.
  Proof. by rewrite /ridge_resid /gram /= mulmxDl mul_scalar_mx mulmxA. Qed.

  Lemma ridge_residE k (Xs : mexp k p) (Ys : mexp k q) (Wp : mexp p q) :
    eval_mx env (ridge_resid p q Xs Ys Wp) = 0 <->
    ridge_sol (eval_mx env Xs) (eval_mx env Ys) alpha (eval_mx env Wp).
  Proof. by rewrite ridge_resid_evalE /ridge_sol; split=> [/subr0_eq|->]; rewrite ?subrr. Qed.

  Lemma ridge_hyp_evalE :
    eval_mx env (ridge_hyp_prog n p q) = gram Xs_tr alpha *m W - Xs_tr^T *m Ys_tr.
  Proof. by rewrite /ridge_hyp_prog ridge_resid_evalE xs_trE ys_trE. Qed.

  Lemma ridge_hypE :
    eval_mx env (ridge_hyp_prog n p q) = 0 <-> ridge_sol Xs_tr Ys_tr alpha W.
  Proof. by rewrite /ridge_hyp_prog ridge_residE xs_trE ys_trE. Qed.

  (* ---- cut-off contract ---- *)
  Section Cutoff.
    Variable c : nat.
    Local Notation U := (rc_U env n c).
    Local Notation S := (rc_S env c).
    Local Notation V := (rc_V env p c).

    Definition cutoff_contract : Prop :=
      [/\ eval_mx env (svd_resid_prog n p c) = 0, eval_mx env (uorth_resid_prog n c) = 0,
          eval_mx env (cutoff_hyp_prog n p q c) = 0 & forall i, S i ord0 != 0].

    (* under the contract the fitted values are an orthogonal projection of the target *)
    Lemma cutoff_fit : cutoff_contract -> Xs_tr *m W = U *m U^T *m Ys_tr.
    Proof.
      rewrite /cutoff_contract /svd_resid_prog /uorth_resid_prog /cutoff_hyp_prog /cutoff_w_prog.
      rewrite /= xs_trE ys_trE; case=> /subr0_eq XV /subr0_eq UU /subr0_eq WE S0; rewrite /rc_W WE.
      rewrite /rc_U !mulmxA XV -!mulmxA; congr (_ *m _).
      rewrite mulmxA -[RHS]mul1mx; congr (_ *m _).
      apply/matrixP => i j; rewrite mul_diag_mx !mxE /=.
      case: eqP => [->|_]; last by rewrite mulr0n mulr0.
      by rewrite !mulr1n mulfV // (S0 j).
    Qed.

    Lemma cutoff_orth : cutoff_contract -> U^T *m U = 1%:M.
    Proof. by rewrite /cutoff_contract /uorth_resid_prog /=; case=> _ /subr0_eq ->. Qed.
  End Cutoff.
End Measures.
Global Opaque xs_tr xs_te ys_tr ys_te.

Section Measures2.
  Variable F : rcfType.
  Variables (n m p q : nat).
  Variable env : env_mx F.
  Local Notation W := (rc_W env p q).
  Local Notation alpha := (rc_alpha env).
  Local Notation Xs_tr := (Xs_tr n p env).
  Local Notation Xs_te := (Xs_te n m p env).
  Local Notation Ys_tr := (Ys_tr n q env).
  Local Notation Ys_te := (Ys_te n m q env).

  (* ---- GRD (repaired): both predictions zero-padded to r columns ---- *)
  Section GRD.
    Variable r : nat.
    Local Notation Om := (rc_Om env r).
    Local Notation Ep := (rc_Ep env p r).
    Local Notation Eq := (rc_Eq env q r).

    Lemma grdE :
      eval_mx env (grd_prog n m p q r)
      = rownorm (Xs_te *m W *m Eq - Xs_te *m Ep *m Om).
    Proof. by rewrite /grd_prog rownormE /yhat_te /= xs_teE. Qed.

    Lemma proc_mE :
      eval_mx env (proc_m n p q r) = (Xs_tr *m Ep)^T *m (Xs_tr *m W *m Eq).
    Proof. by rewrite /proc_m /yhat_tr /= xs_trE. Qed.
  End GRD.

  (* ---- LRE, one test point ---- *)
  Section LRE.
    Variable k : nat.
    Local Notation Sel := (rc_Sel env k n).
    Local Notation ei := (rc_ei env m).
    Local Notation Wi := (rc_Wi env p q).

    Definition cmean_of a b (A : 'M[F]_(a, b)) : 'rV[F]_b := cmean A.

    Lemma colmeanE a b (A : mexp a b) : eval_mx env (colmean A) = cmean (eval_mx env A).
    Proof. by rewrite /colmean /= recipE rcountE. Qed.
    Opaque colmean.

    Definition LX : 'M[F]_(k, p) := Sel *m Xs_tr.
    Definition LY : 'M[F]_(k, q) := Sel *m Ys_tr.

    Lemma loc_xcE : eval_mx env (loc_xc n p k) = center LX LX.
    Proof. by rewrite /loc_xc /loc_x /= colmeanE /= xs_trE. Qed.
    Lemma loc_ycE : eval_mx env (loc_yc n q k) = center LY LY.
    Proof. by rewrite /loc_yc /loc_y /= colmeanE /= ys_trE. Qed.

    Lemma lre_hyp_evalE :
      eval_mx env (lre_hyp_prog n p q k)
      = gram (center LX LX) alpha *m Wi - (center LX LX)^T *m center LY LY.
    Proof. by rewrite /lre_hyp_prog ridge_resid_evalE loc_xcE loc_ycE. Qed.

    Lemma lre_hypE :
      eval_mx env (lre_hyp_prog n p q k) = 0 <-> ridge_sol (center LX LX) (center LY LY) alpha Wi.
    Proof. by rewrite /lre_hyp_prog ridge_residE loc_xcE loc_ycE. Qed.

    Lemma lreE :
      eval_mx env (lre_prog n m p q k)
      = rownorm (ei *m Ys_te - (cmean LY + (ei *m Xs_te - cmean LX) *m Wi)).
    Proof.
      by rewrite /lre_prog rownormE /lre_pred /loc_x /loc_y /= !colmeanE /= xs_trE ys_trE xs_teE ys_teE.
    Qed.
  End LRE.

  Lemma sqdistE (i : 'I_m) (j : 'I_n) :
    (eval_mx env (sqdist_prog n m p)) i j
    = \sum_l (Xs_tr j l) ^+ 2 + \sum_l (Xs_te i l) ^+ 2 - 2%:R * \sum_l Xs_te i l * Xs_tr j l.
  Proof.
    rewrite /sqdist_prog /= xs_trE xs_teE !mxE /=; congr (_ + _ - _ * _).
    - rewrite big_ord1 !mxE mul1r; apply: eq_bigr => l _; by rewrite !mxE mulr1 expr2.
    - rewrite big_ord1 !mxE mulr1; apply: eq_bigr => l _; by rewrite !mxE mulr1 expr2.
    - by apply: eq_bigr => l _; rewrite !mxE.
  Qed.
End Measures2.
Global Opaque gre_prog grd_prog lre_prog ridge_hyp_prog lre_hyp_prog sqdist_prog proc_m.

(* ================================================================== Part 3 *)
Section Theorems.
  Variable F : rcfType.
  Variables (n m p q : nat).
  Implicit Types env : env_mx F.

  Local Notation gre env := (eval_mx env (gre_prog n m p q)).
  Local Notation XsTr env := (Xs_tr n p env).
  Local Notation XsTe env := (Xs_te n m p env).
  Local Notation YsTr env := (Ys_tr n q env).
  Local Notation YsTe env := (Ys_te n m q env).

  (* ---- non-negativity ---- *)
  Theorem recon_nonneg env r k :
    [/\ forall i, 0 <= gre env i ord0,
        forall i, 0 <= (eval_mx env (grd_prog n m p q r)) i ord0,
        0 <= (eval_mx env (lre_prog n m p q k)) ord0 ord0
      & forall (pw : mexp m 1), 0 <= (eval_mx env (global_prog pw)) ord0 ord0].
  Proof.
    split=> [i|i||pw]; rewrite ?greE ?grdE ?lreE ?globalE; try exact: rownorm_ge0.
    exact: glob_ge0.
  Qed.

  (* ---- global value = root mean square of the pointwise values ---- *)
  Theorem recon_rms env (pw : mexp m 1) :
    (0 < m)%N ->
    ((eval_mx env (global_prog pw)) ord0 ord0) ^+ 2 * m%:R
    = \sum_i ((eval_mx env pw) i ord0) ^+ 2.
  Proof. by move=> m0; rewrite globalE glob_rms. Qed.

  (* ---- uniform rescaling (c > 0) and shift of either space ---- *)
  Definition affine_related (cx cy : F) (bx : 'rV[F]_p) (by_ : 'rV[F]_q) env env' : Prop :=
    [/\ rc_Xtr env' n p = cx *: rc_Xtr env n p + ones F n 1 *m bx,
        rc_Xte env' m p = cx *: rc_Xte env m p + ones F m 1 *m bx,
        rc_Ytr env' n q = cy *: rc_Ytr env n q + ones F n 1 *m by_
      & rc_Yte env' m q = cy *: rc_Yte env m q + ones F m 1 *m by_].

  Definition same_oracles (r k : nat) env env' : Prop :=
    [/\ rc_W env' p q = rc_W env p q, rc_alpha env' = rc_alpha env,
        rc_Om env' r = rc_Om env r /\ rc_Ep env' p r = rc_Ep env p r /\ rc_Eq env' q r = rc_Eq env q r
      & rc_Sel env' k n = rc_Sel env k n /\ rc_ei env' m = rc_ei env m /\ rc_Wi env' p q = rc_Wi env p q].

  Lemma affine_std cx cy bx by_ env env' :
    (0 < n)%N -> 0 < cx -> 0 < cy -> affine_related cx cy bx by_ env env' ->
    [/\ XsTr env' = XsTr env, XsTe env' = XsTe env, YsTr env' = YsTr env & YsTe env' = YsTe env].
  Proof.
    move=> n0 x0 y0 [E1 E2 E3 E4].
    by split; rewrite /Xs_tr /Xs_te /Ys_tr /Ys_te ?E1 ?E2 ?E3 ?E4 std_affine.
  Qed.

  (* every measure, and every contract residual, only sees the standardised blocks *)
  Theorem recon_rescale_shift cx cy bx by_ r k env env' :
    (0 < n)%N -> 0 < cx -> 0 < cy ->
    affine_related cx cy bx by_ env env' -> same_oracles r k env env' ->
    [/\ gre env' = gre env,
        eval_mx env' (grd_prog n m p q r) = eval_mx env (grd_prog n m p q r),
        eval_mx env' (lre_prog n m p q k) = eval_mx env (lre_prog n m p q k)
      & [/\ eval_mx env' (ridge_hyp_prog n p q) = eval_mx env (ridge_hyp_prog n p q),
            eval_mx env' (lre_hyp_prog n p q k) = eval_mx env (lre_hyp_prog n p q k),
            eval_mx env' (proc_m n p q r) = eval_mx env (proc_m n p q r)
          & forall i j, (eval_mx env' (sqdist_prog n m p)) i j = (eval_mx env (sqdist_prog n m p)) i j]].
  Proof.
    move=> n0 x0 y0 /(affine_std n0 x0 y0) [E1 E2 E3 E4] [EW Ea [EO [EEp EEq]] [ES [Ee EWi]]].
    split; first by rewrite !greE E2 E4 EW.
    - by rewrite !grdE E2 EW EO EEp EEq.
    - by rewrite !lreE /LX /LY E1 E2 E3 E4 ES Ee EWi.
    - split.
      + by rewrite !ridge_hyp_evalE E1 E3 EW Ea.
      + by rewrite !lre_hyp_evalE /LX /LY E1 E3 ES EWi Ea.
      + by rewrite !proc_mE E1 EW EEp EEq.
      + by move=> i j; rewrite !sqdistE E1 E2.
  Qed.

  (* ---- Y = X A: the standardised target is a linear image of the standardised source ---- *)
  Lemma contained_std env (A : 'M[F]_(p, q)) :
    rc_Ytr env n q = rc_Xtr env n p *m A -> rc_Yte env m q = rc_Xte env m p *m A ->
    0 < varsum (rc_Xtr env n p) ->
    let B := (iscale (rc_Ytr env n q) / iscale (rc_Xtr env n p)) *: A in
    YsTr env = XsTr env *m B /\ YsTe env = XsTe env *m B.
  Proof.
    move=> Etr Ete vx B.
    have ix : iscale (rc_Xtr env n p) != 0 by rewrite gt_eqF // iscale_gt0.
    have C1 : center (rc_Ytr env n q) (rc_Ytr env n q)
              = center (rc_Xtr env n p) (rc_Xtr env n p) *m A by rewrite Etr center_mul.
    have C2 : center (rc_Ytr env n q) (rc_Yte env m q)
              = center (rc_Xtr env n p) (rc_Xte env m p) *m A by rewrite Etr Ete center_mul.
    rewrite /Ys_tr /Ys_te /Xs_tr /Xs_te /std C1 C2 /B.
    by split; rewrite -scalemxAr -scalemxAl scalerA divfK.
  Qed.

  (* GRE(X, XA) = 0: least squares (alpha = 0), standardised training source of full column rank *)
  Theorem recon_gre_zero env (A : 'M[F]_(p, q)) :
    rc_Ytr env n q = rc_Xtr env n p *m A -> rc_Yte env m q = rc_Xte env m p *m A ->
    0 < varsum (rc_Xtr env n p) -> 0 < varsum (rc_Ytr env n q) ->
    rc_alpha env = 0 -> eval_mx env (ridge_hyp_prog n p q) = 0 ->
    gram (XsTr env) 0 \in unitmx ->
    gre env = 0.
  Proof.
    move=> Etr Ete vx vy a0 /ridge_hypE H Gu.
    have [E1 E2] := contained_std Etr Ete vx.
    set B := (_ *: A) in E1 E2.
    have HB : ridge_sol (XsTr env) (YsTr env) 0 B.
      by rewrite /ridge_sol E1 /gram raddf0 addr0 mulmxA.
    have HW : ridge_sol (XsTr env) (YsTr env) 0 (rc_W env p q) by rewrite -a0.
    by rewrite greE E2 (ridge_unique Gu HB HW) subrr rownorm0.
  Qed.
End Theorems.

Section TrainBound.
  Variable F : rcfType.
  Variables (n p q : nat).

  (* evaluated on the training set (test rows = training rows) the global GRE is at most 1 *)
  Lemma train_bound_core (env : env_mx F) :
    (0 < n)%N -> rc_Xte env n p = rc_Xtr env n p -> rc_Yte env n q = rc_Ytr env n q ->
    0 < varsum (rc_Ytr env n q) ->
    fro2 (Ys_tr n q env - Xs_tr n p env *m rc_W env p q) <= fro2 (Ys_tr n q env) ->
    (eval_mx env (global_prog (gre_prog n n p q))) ord0 ord0 <= 1.
  Proof.
    move=> n0 EX EY vy Hb.
    have nR : 0 < (n%:R : F) by rewrite ltr0n.
    rewrite globalE -(@expr_le1 _ 2) ?glob_ge0 //.
    rewrite -(ler_pmul2r nR) mul1r glob_rms // greE rownorm_fro2.
    rewrite /Ys_te /Xs_te EX EY -/(Ys_tr n q env) -/(Xs_tr n p env).
    by apply: le_trans Hb _; rewrite /Ys_tr std_fro2.
  Qed.

  Theorem recon_train_bound_ridge (env : env_mx F) :
    (0 < n)%N -> rc_Xte env n p = rc_Xtr env n p -> rc_Yte env n q = rc_Ytr env n q ->
    0 < varsum (rc_Ytr env n q) -> 0 <= rc_alpha env ->
    eval_mx env (ridge_hyp_prog n p q) = 0 ->
    (eval_mx env (global_prog (gre_prog n n p q))) ord0 ord0 <= 1.
  Proof.
    move=> n0 EX EY vy a0 /ridge_hypE H; apply: train_bound_core => //.
    exact: ridge_bound a0 H.
  Qed.

  Theorem recon_train_bound_cutoff (env : env_mx F) c :
    (0 < n)%N -> rc_Xte env n p = rc_Xtr env n p -> rc_Yte env n q = rc_Ytr env n q ->
    0 < varsum (rc_Ytr env n q) -> cutoff_contract n p q env c ->
    (eval_mx env (global_prog (gre_prog n n p q))) ord0 ord0 <= 1.
  Proof.
    move=> n0 EX EY vy Hc; apply: train_bound_core => //.
    rewrite (cutoff_fit Hc); exact: proj_bound (cutoff_orth Hc).
  Qed.
End TrainBound.

Section Rotations.
  Variable F : rcfType.
  Variables (n m p q : nat).
  Implicit Types env : env_mx F.
  Local Notation gre env := (eval_mx env (gre_prog n m p q)).

  Lemma orthC k (R : 'M[F]_k) : R *m R^T = 1%:M -> R^T *m R = 1%:M.
  Proof. exact: mulmx1C. Qed.

  (* ridge solutions transform covariantly under a rotation of the source ... *)
  Lemma ridge_rot_source a (X : 'M[F]_(n, p)) (Y : 'M[F]_(n, q)) (R : 'M[F]_p) W W' :
    R *m R^T = 1%:M -> gram X a \in unitmx ->
    ridge_sol X Y a W -> ridge_sol (X *m R) Y a W' -> W' = R^T *m W.
  Proof.
    move=> RR Gu H H'; have RtR := orthC RR.
    have H2 : ridge_sol X Y a (R *m W').
      move: H'; rewrite /ridge_sol /gram trmx_mul => H'.
      have := congr1 (mulmx R) H'.
      rewrite !mulmxA RR mul1mx mulmxDr => <-.
      congr (_ *m _); rewrite mulmxDl; congr (_ + _); first by rewrite !mulmxA RR mul1mx.
      by rewrite scalar_mxC.
    by rewrite -(ridge_unique Gu H H2) mulmxA RtR mul1mx.
  Qed.

  (* ... and of the target *)
  Lemma ridge_rot_target a (X : 'M[F]_(n, p)) (Y : 'M[F]_(n, q)) (R : 'M[F]_q) W W' :
    gram X a \in unitmx ->
    ridge_sol X Y a W -> ridge_sol X (Y *m R) a W' -> W' = W *m R.
  Proof.
    move=> Gu H H'; apply: (ridge_unique Gu _ H').
    by rewrite /ridge_sol mulmxA H mulmxA.
  Qed.

  (* GRE is unchanged by a rotation / reflection of the source space; ridge contract with a
     unique solution (alpha > 0, or alpha = 0 and full column rank), same alpha on both sides *)
  Theorem recon_gre_source_rotation (R : 'M[F]_p) env env' :
    R *m R^T = 1%:M ->
    rc_Xtr env' n p = rc_Xtr env n p *m R -> rc_Xte env' m p = rc_Xte env m p *m R ->
    rc_Ytr env' n q = rc_Ytr env n q -> rc_Yte env' m q = rc_Yte env m q ->
    rc_alpha env' = rc_alpha env ->
    gram (Xs_tr n p env) (rc_alpha env) \in unitmx ->
    eval_mx env (ridge_hyp_prog n p q) = 0 -> eval_mx env' (ridge_hyp_prog n p q) = 0 ->
    gre env' = gre env.
  Proof.
    move=> RR E1 E2 E3 E4 Ea Gu /ridge_hypE H /ridge_hypE H'.
    have X1 : Xs_tr n p env' = Xs_tr n p env *m R by rewrite /Xs_tr E1 std_orth.
    have X2 : Xs_te n m p env' = Xs_te n m p env *m R by rewrite /Xs_te E1 E2 std_orth.
    have Y1 : Ys_tr n q env' = Ys_tr n q env by rewrite /Ys_tr E3.
    have Y2 : Ys_te n m q env' = Ys_te n m q env by rewrite /Ys_te E3 E4.
    rewrite X1 Y1 Ea in H'.
    rewrite !greE X2 Y2 (ridge_rot_source RR Gu H H').
    by rewrite -mulmxA (mulmxA R) RR mul1mx.
  Qed.

  (* GRE is unchanged by a rotation / reflection of the target space (fixed regularisation) *)
  Theorem recon_gre_target_rotation (R : 'M[F]_q) env env' :
    R *m R^T = 1%:M ->
    rc_Xtr env' n p = rc_Xtr env n p -> rc_Xte env' m p = rc_Xte env m p ->
    rc_Ytr env' n q = rc_Ytr env n q *m R -> rc_Yte env' m q = rc_Yte env m q *m R ->
    rc_alpha env' = rc_alpha env ->
    gram (Xs_tr n p env) (rc_alpha env) \in unitmx ->
    eval_mx env (ridge_hyp_prog n p q) = 0 -> eval_mx env' (ridge_hyp_prog n p q) = 0 ->
    gre env' = gre env.
  Proof.
    move=> RR E1 E2 E3 E4 Ea Gu /ridge_hypE H /ridge_hypE H'.
    have X1 : Xs_tr n p env' = Xs_tr n p env by rewrite /Xs_tr E1.
    have X2 : Xs_te n m p env' = Xs_te n m p env by rewrite /Xs_te E1 E2.
    have Y1 : Ys_tr n q env' = Ys_tr n q env *m R by rewrite /Ys_tr E3 std_orth.
    have Y2 : Ys_te n m q env' = Ys_te n m q env *m R by rewrite /Ys_te E3 E4 std_orth.
    rewrite X1 Y1 Ea in H'.
    rewrite !greE X2 Y2 (ridge_rot_target Gu H H') mulmxA -mulmxBl.
    exact: rownorm_orth.
  Qed.
End Rotations.

Section LocalGlobal.
  Variable F : rcfType.
  Variables (n m p q : nat).
  Implicit Types env : env_mx F.

  (* LRE with all training points as neighbours (Sel a permutation: every training row selected
     exactly once) and an order-independent estimator (ridge contract, unique solution,
     same alpha) equals the pointwise GRE of the same test point *)
  Theorem recon_lre_is_gre env (i : 'I_m) :
    (0 < n)%N ->
    (rc_Sel env n n)^T *m rc_Sel env n n = 1%:M -> ones F 1 n *m rc_Sel env n n = ones F 1 n ->
    rc_ei env m = delta_mx ord0 i ->
    gram (Xs_tr n p env) (rc_alpha env) \in unitmx ->
    eval_mx env (ridge_hyp_prog n p q) = 0 -> eval_mx env (lre_hyp_prog n p q n) = 0 ->
    (eval_mx env (lre_prog n m p q n)) ord0 ord0 = (eval_mx env (gre_prog n m p q)) i ord0.
  Proof.
    move=> n0 SS oS Ei Gu /ridge_hypE H /lre_hypE Hi.
    have mX : cmean (LX n p env n) = 0.
      by rewrite /cmean /LX mulmxA oS std_colsum // scaler0.
    have mY : cmean (LY n q env n) = 0.
      by rewrite /cmean /LY mulmxA oS std_colsum // scaler0.
    have cX : center (LX n p env n) (LX n p env n) = LX n p env n.
      by rewrite /center mX mulmx0 subr0.
    have cY : center (LY n q env n) (LY n q env n) = LY n q env n.
      by rewrite /center mY mulmx0 subr0.
    have Hi2 : ridge_sol (Xs_tr n p env) (Ys_tr n q env) (rc_alpha env) (rc_Wi env p q).
      move: Hi; rewrite cX cY /ridge_sol /gram /LX /LY !trmx_mul.
      by rewrite -!mulmxA !(mulmxA (rc_Sel env n n)^T) SS !mul1mx.
    rewrite lreE greE mX mY add0r subr0 (ridge_unique Gu H Hi2) Ei -!rowE.
    by rewrite -row_mul -linearB /= rownorm_row.
  Qed.
End LocalGlobal.

Section Distortion.
  Variable F : rcfType.
  Variables (n m p : nat).
  Implicit Types env : env_mx F.

  (* GRD(X, XQ) = 0 for orthogonal Q: least squares with full column rank, no padding (equal
     widths), Omega a minimiser of the Procrustes problem |Xs Omega - Yhat|_F over the
     orthogonal matrices (the contract of OrthogonalRegression) *)
  Theorem recon_grd_zero env (Q : 'M[F]_p) :
    Q *m Q^T = 1%:M ->
    rc_Ytr env n p = rc_Xtr env n p *m Q -> rc_Yte env m p = rc_Xte env m p *m Q ->
    0 < varsum (rc_Xtr env n p) ->
    rc_alpha env = 0 -> eval_mx env (ridge_hyp_prog n p p) = 0 ->
    gram (Xs_tr n p env) 0 \in unitmx ->
    rc_Ep env p p = 1%:M -> rc_Eq env p p = 1%:M ->
    (forall Om' : 'M[F]_p, Om'^T *m Om' = 1%:M ->
        fro2 (Xs_tr n p env *m rc_Om env p - Xs_tr n p env *m rc_W env p p)
        <= fro2 (Xs_tr n p env *m Om' - Xs_tr n p env *m rc_W env p p)) ->
    eval_mx env (grd_prog n m p p p) = 0.
  Proof.
    move=> QQ Etr Ete vx a0 /ridge_hypE H Gu EEp EEq Hmin.
    have [E1 E2] := contained_std Etr Ete vx.
    have iE : iscale (rc_Ytr env n p) = iscale (rc_Xtr env n p).
      by rewrite /iscale Etr varsum_orth.
    have ix : iscale (rc_Xtr env n p) != 0 by rewrite gt_eqF // iscale_gt0.
    rewrite iE divff // scale1r in E1 E2.
    have HB : ridge_sol (Xs_tr n p env) (Ys_tr n p env) 0 Q.
      by rewrite /ridge_sol E1 /gram raddf0 addr0 mulmxA.
    have HW : ridge_sol (Xs_tr n p env) (Ys_tr n p env) 0 (rc_W env p p) by rewrite -a0.
    have WQ := ridge_unique Gu HB HW.
    have := Hmin Q (orthC QQ); rewrite WQ subrr fro2_0 => le0.
    have /fro2_eq0 /subr0_eq XO : fro2 (Xs_tr n p env *m rc_Om env p - Xs_tr n p env *m Q) = 0.
      by apply/eqP; rewrite eq_le le0 fro2_ge0.
    have HO : ridge_sol (Xs_tr n p env) (Ys_tr n p env) 0 (rc_Om env p).
      by rewrite /ridge_sol E1 /gram raddf0 addr0 -mulmxA XO.
    by rewrite grdE EEp EEq WQ (ridge_unique Gu HB HO) !mulmx1 subrr rownorm0.
  Qed.

  (* zero padding as a matrix:  X *m embed = np.pad(X, [(0,0),(0,r-p)]) *)
  Definition embed_mx (a r : nat) : 'M[F]_(a, r) := \matrix_(i, j) ((i : nat) == j)%:R.

  Lemma mul_embed k a r (A : 'M[F]_(k, a)) (i : 'I_k) (j : 'I_r) :
    (A *m embed_mx a r) i j = if insub (j : nat) is Some l then A i l else 0.
  Proof.
    rewrite mxE; case: insubP => [l lt_ja lj|].
    - rewrite (bigD1 l) //= mxE lj eqxx mulr1 big1 ?addr0 // => l' ne.
      by move: ne; rewrite -val_eqE /= mxE -lj => /negbTE ->; rewrite mulr0.
    - rewrite -leqNgt => le_aj; rewrite big1 // => l _.
      by rewrite mxE ltn_eqF ?mulr0 // (leq_trans (ltn_ord l)).
  Qed.
End Distortion.

Section LocalRotation.
  Variable F : rcfType.
  Variables (n m p q k : nat).
  Implicit Types env : env_mx F.

  Lemma cmean_mul a b c (X : 'M[F]_(a, b)) (A : 'M[F]_(b, c)) : cmean (X *m A) = cmean X *m A.
  Proof. exact: cmeanM. Qed.

  (* the squared distances that order the neighbours are unchanged by a source rotation, and
     so is the LRE of a test point for the same neighbour set (local ridge contract with a
     unique solution, same alpha) *)
  Theorem recon_lre_source_rotation (R : 'M[F]_p) env env' :
    R *m R^T = 1%:M ->
    rc_Xtr env' n p = rc_Xtr env n p *m R -> rc_Xte env' m p = rc_Xte env m p *m R ->
    rc_Ytr env' n q = rc_Ytr env n q -> rc_Yte env' m q = rc_Yte env m q ->
    rc_alpha env' = rc_alpha env -> rc_Sel env' k n = rc_Sel env k n -> rc_ei env' m = rc_ei env m ->
    gram (center (LX n p env k) (LX n p env k)) (rc_alpha env) \in unitmx ->
    eval_mx env (lre_hyp_prog n p q k) = 0 -> eval_mx env' (lre_hyp_prog n p q k) = 0 ->
    (forall i j, (eval_mx env' (sqdist_prog n m p)) i j = (eval_mx env (sqdist_prog n m p)) i j)
    /\ eval_mx env' (lre_prog n m p q k) = eval_mx env (lre_prog n m p q k).
  Proof.
    move=> RR E1 E2 E3 E4 Ea ES Ee Gu /lre_hypE H /lre_hypE H'.
    have X1 : Xs_tr n p env' = Xs_tr n p env *m R by rewrite /Xs_tr E1 std_orth.
    have X2 : Xs_te n m p env' = Xs_te n m p env *m R by rewrite /Xs_te E1 E2 std_orth.
    have Y1 : Ys_tr n q env' = Ys_tr n q env by rewrite /Ys_tr E3.
    have Y2 : Ys_te n m q env' = Ys_te n m q env by rewrite /Ys_te E3 E4.
    have L1 : LX n p env' k = LX n p env k *m R by rewrite /LX ES X1 mulmxA.
    have L2 : LY n q env' k = LY n q env k by rewrite /LY ES Y1.
    split.
    - move=> i j; rewrite !sqdistE X1 X2.
      have rowsq a (A : 'M[F]_(a, p)) (t : 'I_a) :
          \sum_l ((A *m R) t l) ^+ 2 = \sum_l (A t l) ^+ 2.
        by rewrite -!rownorm_sq rownorm_orth.
      rewrite !rowsq; congr (_ - _ * _).
      have -> : \sum_l (Xs_te n m p env *m R) i l * (Xs_tr n p env *m R) j l
              = ((Xs_te n m p env *m R) *m (Xs_tr n p env *m R)^T) i j.
        by rewrite [RHS]mxE; apply: eq_bigr => l _; congr (_ * _); rewrite [RHS]mxE.
      rewrite trmx_mul -mulmxA (mulmxA R) RR mul1mx [LHS]mxE.
      by apply: eq_bigr => l _; congr (_ * _); rewrite [LHS]mxE.
    - rewrite L1 L2 center_mul Ea in H'.
      rewrite !lreE L1 L2 X2 Y2 Ee cmean_mul (ridge_rot_source RR Gu H H').
      by rewrite (mulmxA _ _ R) -mulmxBl -!mulmxA (mulmxA R) RR mul1mx.
  Qed.
End LocalRotation.

Section Widths.
  Variable F : rcfType.
  Variables (n m p q : nat).
  Implicit Types env : env_mx F.

  (* np.pad(A, [(0,0),(0,r-a)]) (truncation if r < a, never used) *)
  Definition padded k a r (A : 'M[F]_(k, a)) : 'M[F]_(k, r) :=
    \matrix_(i, j) (if insub (j : nat) is Some l then A i l else 0).

  Lemma padded_embed k a r (A : 'M[F]_(k, a)) : A *m embed_mx F a r = padded r A.
  Proof. by apply/matrixP => i j; rewrite mul_embed mxE. Qed.

  (* GRD is defined for every pair of widths: with r = max(p, q) columns on both sides *)
  Theorem recon_grd_all_widths env r :
    rc_Ep env p r = embed_mx F p r -> rc_Eq env q r = embed_mx F q r ->
    eval_mx env (grd_prog n m p q r)
    = rownorm (padded r (Xs_te n m p env *m rc_W env p q)
               - padded r (Xs_te n m p env) *m rc_Om env r).
  Proof. by move=> EEp EEq; rewrite grdE EEp EEq !padded_embed. Qed.

  (* the block rotation  diag(R, I)  written with the embedding E (E E^T = I) *)
  Section BlockRotation.
    Variables (r : nat) (E : 'M[F]_(p, r)) (R : 'M[F]_p).
    Hypothesis EE : E *m E^T = 1%:M.
    Hypothesis RR : R *m R^T = 1%:M.
    Definition blockrot : 'M[F]_r := E^T *m R *m E + (1%:M - E^T *m E).

    Lemma E_blockrot : E *m blockrot = R *m E.
    Proof.
      rewrite /blockrot mulmxDr mulmxBr !mulmxA EE mul1mx mulmx1.
      by rewrite mul1mx subrr addr0.
    Qed.

    Lemma blockrot_orth : blockrot^T *m blockrot = 1%:M.
    Proof.
      have RtR : R^T *m R = 1%:M by exact: mulmx1C.
      set P := E^T *m E; set Qm := 1%:M - P.
      have EP : E *m Qm = 0 by rewrite /Qm mulmxBr mulmx1 /P mulmxA EE mul1mx subrr.
      have PE : Qm *m E^T = 0 by rewrite /Qm mulmxBl mul1mx /P -mulmxA EE mulmx1 subrr.
      have Pt : Qm^T = Qm by rewrite /Qm linearB /= trmx1 /P trmx_mul trmxK.
      have PP : Qm *m Qm = Qm.
        rewrite {2}/Qm mulmxBr mulmx1 /P mulmxA PE mul0mx subr0 //.
      have bE : blockrot = E^T *m R *m E + Qm by [].
      have Tt : blockrot^T = E^T *m R^T *m E + Qm.
        by rewrite bE [LHS]linearD /= Pt !trmx_mul trmxK mulmxA.
      rewrite Tt bE mulmxDl (mulmxDr (E^T *m R^T *m E) (E^T *m R *m E) Qm).
      rewrite (mulmxDr Qm (E^T *m R *m E) Qm).
      have -> : E^T *m R^T *m E *m Qm = 0 by rewrite -mulmxA EP mulmx0.
      have -> : Qm *m (E^T *m R *m E) = 0 by rewrite !mulmxA PE !mul0mx.
      have -> : E^T *m R^T *m E *m (E^T *m R *m E) = P.
        by rewrite !mulmxA -(mulmxA _ E E^T) EE mulmx1 -(mulmxA _ R^T R) RtR mulmx1.
      by rewrite PP addr0 add0r /Qm addrC subrK.
    Qed.

    Lemma blockrot_orth' : blockrot *m blockrot^T = 1%:M.
    Proof. by apply: mulmx1C; exact: blockrot_orth. Qed.
  End BlockRotation.

  (* GRD under a source rotation, PARTIAL: under the contract that Omega is the UNIQUE orthogonal
     minimiser of the original Procrustes problem (satisfiable only when the padded problem
     has a unique solution: generic for p <= q, never for p >= q + 2) *)
  Theorem recon_grd_source_rotation_partial (R : 'M[F]_p) r env env' :
    R *m R^T = 1%:M -> rc_Ep env p r *m (rc_Ep env p r)^T = 1%:M ->
    rc_Xtr env' n p = rc_Xtr env n p *m R -> rc_Xte env' m p = rc_Xte env m p *m R ->
    rc_Ytr env' n q = rc_Ytr env n q -> rc_Yte env' m q = rc_Yte env m q ->
    rc_alpha env' = rc_alpha env ->
    rc_Ep env' p r = rc_Ep env p r -> rc_Eq env' q r = rc_Eq env q r ->
    gram (Xs_tr n p env) (rc_alpha env) \in unitmx ->
    eval_mx env (ridge_hyp_prog n p q) = 0 -> eval_mx env' (ridge_hyp_prog n p q) = 0 ->
    (rc_Om env r)^T *m rc_Om env r = 1%:M -> (rc_Om env' r)^T *m rc_Om env' r = 1%:M ->
    (forall O2 : 'M[F]_r, O2^T *m O2 = 1%:M ->
       fro2 (Xs_tr n p env' *m rc_Ep env' p r *m rc_Om env' r - Xs_tr n p env' *m rc_W env' p q *m rc_Eq env' q r)
       <= fro2 (Xs_tr n p env' *m rc_Ep env' p r *m O2 - Xs_tr n p env' *m rc_W env' p q *m rc_Eq env' q r)) ->
    (forall O2 : 'M[F]_r, O2^T *m O2 = 1%:M ->
       fro2 (Xs_tr n p env *m rc_Ep env p r *m O2 - Xs_tr n p env *m rc_W env p q *m rc_Eq env q r)
       <= fro2 (Xs_tr n p env *m rc_Ep env p r *m rc_Om env r - Xs_tr n p env *m rc_W env p q *m rc_Eq env q r) ->
       O2 = rc_Om env r) ->
    eval_mx env' (grd_prog n m p q r) = eval_mx env (grd_prog n m p q r).
  Proof.
    move=> RR EE E1 E2 E3 E4 Ea EEp EEq Gu /ridge_hypE H /ridge_hypE H' OO OO' Hmin Huniq.
    have X1 : Xs_tr n p env' = Xs_tr n p env *m R by rewrite /Xs_tr E1 std_orth.
    have X2 : Xs_te n m p env' = Xs_te n m p env *m R by rewrite /Xs_te E1 E2 std_orth.
    have Y1 : Ys_tr n q env' = Ys_tr n q env by rewrite /Ys_tr E3.
    rewrite X1 Y1 Ea in H'.
    have WE := ridge_rot_source RR Gu H H'.
    set Ep := rc_Ep env p r in EE EEp Hmin Huniq *.
    set B := blockrot Ep R.
    have EB : Ep *m B = R *m Ep := E_blockrot R EE.
    have BtB : B^T *m B = 1%:M := blockrot_orth EE RR.
    have BBt : B *m B^T = 1%:M := blockrot_orth' EE RR.
    have yhat : Xs_tr n p env *m R *m rc_W env' p q = Xs_tr n p env *m rc_W env p q.
      by rewrite WE -mulmxA (mulmxA R) RR mul1mx.
    have key : B *m rc_Om env' r = rc_Om env r.
      apply: Huniq.
      - by rewrite trmx_mul -mulmxA (mulmxA B^T) BtB mul1mx.
      - have O2o : (B^T *m rc_Om env r)^T *m (B^T *m rc_Om env r) = 1%:M.
          by rewrite trmx_mul trmxK -mulmxA (mulmxA B) BBt mul1mx.
        have := Hmin _ O2o; rewrite X1 EEp EEq yhat -/Ep.
        rewrite -!(mulmxA (Xs_tr n p env)) -EB !mulmxA.
        by rewrite -(mulmxA _ B B^T) BBt mulmx1 -!mulmxA.
    rewrite !grdE X2 EEp EEq -/Ep WE -key.
    rewrite -!(mulmxA (Xs_te n m p env)) (mulmxA R R^T) RR mul1mx.
    by rewrite (mulmxA Ep) EB !mulmxA.
  Qed.

  (* any ordering of the full training set is a permutation matrix: contract of recon_lre_is_gre *)
  Lemma perm_sel (s : 'S_n) :
    (perm_mx s : 'M[F]_n)^T *m perm_mx s = 1%:M /\ ones F 1 n *m perm_mx s = ones F 1 n.
  Proof.
    split; first by rewrite tr_perm_mx -perm_mxM mulVg perm_mx1.
    apply/rowP => j; rewrite ones_mulE mxE (bigD1 (s^-1 j)%g) //= big1 ?addr0.
    - by rewrite !mxE permKV eqxx.
    - move=> i ne; rewrite !mxE; case: eqP => // sij; case/negP: ne.
      by rewrite -sij permK.
  Qed.
End Widths.

(* ================================================================== lists as matrices *)
Definition bmat_mx (F : rcfType) a b (B : seq (seq bool)) : 'M[F]_(a, b) :=
  \matrix_(i, j) (List.nth j (List.nth i B [::]) false)%:R.

Section Bridges.
  Variable F : rcfType.

  Lemma eqb_eqn (a b : nat) : Nat.eqb a b = (a == b).
  Proof. by apply/idP/eqP => /PeanoNat.Nat.eqb_eq. Qed.

  (* the padding matrix handed to the programs is the embedding of the theorems *)
  Lemma embed_bridge p r : bmat_mx F p r (embed_rows p r) = embed_mx F p r.
  Proof.
    apply/matrixP => i j; rewrite !mxE embed_rows_spec ?eqb_eqn //; apply/ssrnat.ltP; exact: ltn_ord.
  Qed.

  (* a neighbour list that enumerates a permutation s gives the permutation matrix of s *)
  Lemma sel_bridge n (idx : seq nat) (s : 'S_n) :
    size idx = n -> (forall t : 'I_n, List.nth t idx 0%N = s t) ->
    bmat_mx F n n (sel_rows n idx) = perm_mx s.
  Proof.
    move=> sz Hs; apply/matrixP => t j; rewrite !mxE sel_rows_spec ?Hs ?eqb_eqn //.
    - by apply/ssrnat.ltP; rewrite [length idx]sz; exact: ltn_ord.
    - by apply/ssrnat.ltP; exact: ltn_ord.
  Qed.
End Bridges.

(* ================================================================== non-vacuity *)
Section NonVacuity.
  Variable F : rcfType.

  (* two samples, one feature on each side: X = Y = [[0],[2]], train = test, W = [[1]], alpha = 0 *)
  Definition tiny_recon_env : env_mx F :=
    fun a b x => \matrix_(i, j) (if (x < 4)%N then (if (i : nat) == 0%N then 0 else 2%:R)
                                 else if x == 4%N then 1 else 0).

  Lemma tiny_recon_ok :
    let env := tiny_recon_env in
    [/\ rc_Ytr env 2 1 = rc_Xtr env 2 1 *m 1%:M, rc_Yte env 2 1 = rc_Xte env 2 1 *m 1%:M,
        rc_Xte env 2 1 = rc_Xtr env 2 1 /\ rc_Yte env 2 1 = rc_Ytr env 2 1,
        0 < varsum (rc_Xtr env 2 1) /\ 0 < varsum (rc_Ytr env 2 1)
      & [/\ rc_alpha env = 0, eval_mx env (ridge_hyp_prog 2 1 1) = 0
          & gram (Xs_tr 2 1 env) 0 \in unitmx]].
  Proof.
    move=> env.
    have XY : rc_Ytr env 2 1 = rc_Xtr env 2 1 by apply/matrixP => i j; rewrite !mxE.
    have XX : rc_Xte env 2 1 = rc_Xtr env 2 1 by apply/matrixP => i j; rewrite !mxE.
    have YY : rc_Yte env 2 1 = rc_Ytr env 2 1 by apply/matrixP => i j; rewrite !mxE.
    have W1 : rc_W env 1 1 = 1%:M.
      by apply/matrixP => i j; rewrite !mxE /= !ord1 eqxx.
    have a0 : rc_alpha env = 0 by rewrite /rc_alpha mxE.
    have two : (2%:R : F) != 0 by rewrite pnatr_eq0.
    have vx : 0 < varsum (rc_Xtr env 2 1).
      have cm : cmean (rc_Xtr env 2 1) = 1%:M.
        apply/rowP => j; rewrite !mxE !big_ord_recl big_ord0 !mxE /= !ord1 /=.
        by rewrite mulr0 add0r addr0 mul1r mulVf.
      rewrite /varsum big_ord1 !big_ord_recl big_ord0 /center cm !mxE /=.
      rewrite !big_ord1 !mxE /= !mul1r !mulr1n sub0r sqrrN expr1n addr0.
      apply: mulr_gt0; first by rewrite invr_gt0 ltr0n.
      by apply: ltr_paddr ltr01; apply: sqr_ge0.
    have Ys : Ys_tr 2 1 env = Xs_tr 2 1 env by rewrite /Ys_tr XY.
    split=> //; first by rewrite XY mulmx1.
      by rewrite YY XY XX mulmx1.
    split=> //.
    - by apply/ridge_hypE; rewrite /ridge_sol Ys W1 a0 /gram raddf0 addr0 mulmx1.
    - rewrite /gram raddf0 addr0 unitmxE (mx11_scalar (_ *m _)) det_scalar1.
      have -> : ((Xs_tr 2 1 env)^T *m Xs_tr 2 1 env) ord0 ord0 = fro2 (Xs_tr 2 1 env).
        by rewrite /fro2 /mxtrace big_ord1.
      by rewrite /Xs_tr std_fro2 // unitfE.
  Qed.
End NonVacuity.

Lemma sel_perm_contract (F : rcfType) n (idx : seq nat) (s : 'S_n) :
  size idx = n -> (forall t : 'I_n, List.nth t idx 0%N = s t) ->
  bmat_mx F n n (sel_rows n idx) = perm_mx s /\
  ((perm_mx s : 'M[F]_n)^T *m perm_mx s = 1%:M /\ ones F 1 n *m perm_mx s = ones F 1 n).
Proof. by move=> sz Hs; split; [exact: sel_bridge | exact: perm_sel]. Qed.
