(* Ky Fan's maximum principle over an arbitrary real closed field, and the trace form of
   the PCovR objective (ssreflect / mathcomp style).
     - rearrange      : scalar rearrangement inequality
     - diag_proj_le1  : diagonal entries of an orthogonal projector lie in [0,1] (Bessel)
     - kyfan          : tr(Q^T K Q) <= sum of the k largest eigenvalues, Q orthonormal
     - resid_trace    : |A - Q Q^T A|^2 = tr(A^T A) - tr(Q^T A A^T Q)
     - exchange       : the scalar exchange argument behind monotonicity in the mixing    *)
From mathcomp Require Import all_ssreflect all_algebra.
From mathcomp Require Import ring.
From Verif Require Import PCovRP.
Set Implicit Arguments.
Unset Strict Implicit.
Unset Printing Implicit Defensive.
Import Order.TTheory GRing.Theory Num.Theory.
Local Open Scope ring_scope.

Section Rearrange.
  Variable F : rcfType.

  Lemma card_lt_ord (n k : nat) : (k <= n)%N -> (\sum_(i < n | (i < k)%N) (1 : F)) = k%:R.
  Proof.
    by move=> kn; rewrite (big_ord_narrow kn) /= sumr_const card_ord.
  Qed.

  (* lam_i >= c for i < k, lam_i <= c for i >= k, 0 <= p_i <= 1, sum p_i = k
     ==> sum lam_i p_i <= sum_{i<k} lam_i *)
  Lemma rearrange_thr (n k : nat) (lam p : 'I_n -> F) (c : F) :
    (k <= n)%N ->
    (forall i : 'I_n, (i < k)%N -> c <= lam i) ->
    (forall i : 'I_n, (k <= i)%N -> lam i <= c) ->
    (forall i, 0 <= p i) -> (forall i, p i <= 1) ->
    \sum_i p i = k%:R ->
    \sum_i lam i * p i <= \sum_(i < n | (i < k)%N) lam i.
  Proof.
    move=> kn hlo hhi p0 p1 hp.
    have h : \sum_i (lam i * p i - (if (i < k)%N then lam i else 0))
             <= \sum_i (c * p i - (if (i < k)%N then c else 0)).
      apply: ler_sum => i _; case: ifP => ik.
      - rewrite -{2}[lam i]mulr1 -mulrBr -{2}[c]mulr1 -mulrBr.
        by apply: ler_wnmul2r; rewrite ?subr_le0 ?p1 ?hlo.
      - by rewrite !subr0; apply: ler_wpmul2r; rewrite ?p0 ?hhi // leqNgt ik.
    move: h; rewrite !sumrB -!big_mkcond /= -mulr_sumr hp.
    rewrite [X in _ <= _ - X](big_ord_narrow kn) /= sumr_const card_ord.
    by rewrite mulr_natr subrr subr_le0.
  Qed.

  (* decreasing eigenvalues: the threshold is lam_(min k (n-1)) *)
  Lemma rearrange (n k : nat) (lam p : 'I_n -> F) :
    (k <= n)%N -> (forall i j : 'I_n, (i <= j)%N -> lam j <= lam i) ->
    (forall i, 0 <= p i) -> (forall i, p i <= 1) -> \sum_i p i = k%:R ->
    \sum_i lam i * p i <= \sum_(i < n | (i < k)%N) lam i.
  Proof.
    case: n lam p => [|n] lam p kn hs p0 p1 hp; first by rewrite !big_ord0.
    pose i0 : 'I_n.+1 := inord (minn k n).
    have hi0 : i0 = minn k n :> nat by rewrite inordK // ltnS geq_minr.
    apply: (@rearrange_thr _ _ lam p (lam i0)) => // i hi; apply: hs; rewrite hi0.
    - by rewrite leq_min (ltnW hi) /= -ltnS.
    - by rewrite geq_min hi.
  Qed.
End Rearrange.

Section Bessel.
  Variable F : rcfType.
  Variables (n : nat) (P : 'M[F]_n).
  Hypothesis Psym : P^T = P.
  Hypothesis Pidem : P *m P = P.

  Lemma proj_diag_sumsq i : P i i = \sum_j P i j ^+ 2.
  Proof.
    rewrite -{1}Pidem mxE; apply: eq_bigr => j _.
    by rewrite -{2}Psym mxE expr2.
  Qed.

  Lemma proj_diag_ge0 i : 0 <= P i i.
  Proof. by rewrite proj_diag_sumsq; apply: sumr_ge0 => j _; exact: sqr_ge0. Qed.

  Lemma proj_diag_le1 i : P i i <= 1.
  Proof.
    have h2 : P i i ^+ 2 <= P i i.
      rewrite {2}proj_diag_sumsq (bigD1 i) //= ler_addl.
      by apply: sumr_ge0 => j _; exact: sqr_ge0.
    case: (lerP (P i i) 1) => // gt1.
    have : P i i < P i i ^+ 2.
      by rewrite expr2 -{1}(mulr1 (P i i)) ltr_pmul2l // (lt_trans ltr01 gt1).
    by rewrite ltNge h2.
  Qed.
End Bessel.

Section KyFan.
  Variable F : rcfType.
  Variables (n k : nat) (K U : 'M[F]_n) (L : 'cV[F]_n) (Q : 'M[F]_(n, k)).
  Hypothesis HU1 : U^T *m U = 1%:M.
  Hypothesis HU2 : K *m U = U *m diag_mx L^T.
  Hypothesis Lsorted : forall i j : 'I_n, (i <= j)%N -> L j 0 <= L i 0.
  Hypothesis HQ : Q^T *m Q = 1%:M.

  Lemma kyfan_kn : (k <= n)%N.
  Proof. exact: mulmx1_min HQ. Qed.

  Lemma kyfan_K : K = U *m diag_mx L^T *m U^T.
  Proof. by rewrite -HU2 -mulmxA (mulmx1C HU1) mulmx1. Qed.

  Let Z : 'M[F]_(n, k) := U^T *m Q.
  Let P : 'M[F]_n := Z *m Z^T.

  Lemma kyfan_ZtZ : Z^T *m Z = 1%:M.
  Proof. by rewrite /Z trmx_mul trmxK -mulmxA (mulmxA U) (mulmx1C HU1) mul1mx. Qed.

  Lemma kyfan_Psym : P^T = P.
  Proof. by rewrite /P trmx_mul trmxK. Qed.

  Lemma kyfan_Pidem : P *m P = P.
  Proof. by rewrite /P mulmxA -(mulmxA Z) kyfan_ZtZ mulmx1. Qed.

  Lemma kyfan_trace : \tr (Q^T *m K *m Q) = \sum_i L i 0 * P i i.
  Proof.
    rewrite kyfan_K !mulmxA -(mulmxA _ U^T Q) -/Z.
    have -> : Q^T *m U = Z^T by rewrite /Z trmx_mul trmxK.
    rewrite -mulmxA mxtrace_mulC -mulmxA -/P /mxtrace.
    by apply: eq_bigr => i _; rewrite mul_diag_mx !mxE.
  Qed.

  Lemma kyfan_sum : \sum_i P i i = k%:R.
  Proof. by rewrite -/(mxtrace P) /P mxtrace_mulC kyfan_ZtZ mxtrace1. Qed.

  (* Ky Fan: no k-dimensional subspace captures more than the k largest eigenvalues *)
  Theorem kyfan : \tr (Q^T *m K *m Q) <= \sum_(i < n | (i < k)%N) L i 0.
  Proof.
    rewrite kyfan_trace.
    apply: (@rearrange _ _ _ (fun i => L i 0) (fun i => P i i)).
    - exact: kyfan_kn.
    - exact: Lsorted.
    - by move=> i; exact: (proj_diag_ge0 kyfan_Psym kyfan_Pidem).
    - by move=> i; exact: (proj_diag_le1 kyfan_Psym kyfan_Pidem).
    - exact: kyfan_sum.
  Qed.
End KyFan.

(* ---------------------------------------------------------------- the PCovR objective *)
Section Loss.
  Variable F : rcfType.
  Variables (n m p k : nat) (X : 'M[F]_(n, m)) (Yh : 'M[F]_(n, p)).

  (* squared Frobenius norm *)
  Definition fro (r c : nat) (A : 'M[F]_(r, c)) : F := \tr (A^T *m A).
  (* squared error of recovering A from its projection onto span Q *)
  Definition proj_loss (c : nat) (Q : 'M[F]_(n, k)) (A : 'M[F]_(n, c)) : F :=
    fro (A - Q *m (Q^T *m A)).
  Definition mixed_loss (a : F) (Q : 'M[F]_(n, k)) : F :=
    a * proj_loss Q X + (1 - a) * proj_loss Q Yh.

  Lemma fro_ge0 r c (A : 'M[F]_(r, c)) : 0 <= fro A.
  Proof. exact: mxtrace_gram_ge0. Qed.

  Lemma resid_trace c (Q : 'M[F]_(n, k)) (A : 'M[F]_(n, c)) : Q^T *m Q = 1%:M ->
    proj_loss Q A = \tr (A *m A^T) - \tr (Q^T *m (A *m A^T) *m Q).
  Proof.
    move=> hQ; rewrite /proj_loss /fro.
    set B := Q *m (Q^T *m A).
    have hBA : A^T *m B = B^T *m B.
      rewrite /B !trmx_mul trmxK !mulmxA -(mulmxA _ Q^T Q) hQ mulmx1.
      by [].
    have hAB : B^T *m A = B^T *m B.
      by rewrite -[LHS]trmxK trmx_mul trmxK hBA trmx_mul trmxK.
    rewrite [(A - B)^T]raddfB /= mulmxBl !mulmxBr hAB hBA subrr subr0.
    rewrite raddfB /= [\tr (A^T *m A)]mxtrace_mulC; congr (_ - _).
    rewrite -hBA /B [LHS]mxtrace_mulC -[in LHS]mulmxA [LHS]mxtrace_mulC.
    by rewrite !mulmxA.
  Qed.

  Lemma mixed_loss_trace (a : F) (Q : 'M[F]_(n, k)) : Q^T *m Q = 1%:M ->
    mixed_loss a Q = \tr (s_Kt X Yh a) - \tr (Q^T *m s_Kt X Yh a *m Q).
  Proof.
    move=> hQ; rewrite /mixed_loss !resid_trace // s_Kt_alt.
    rewrite mulmxDr mulmxDl !linearD /= -!scalemxAr -!scalemxAl !linearZ /=.
    by rewrite !mulrBr opprD addrACA.
  Qed.

  (* value attained by an orthonormal family of eigenvectors *)
  Lemma eig_trace (K : 'M[F]_n) (V : 'M[F]_(n, k)) (S : 'cV[F]_k) :
    V^T *m V = 1%:M -> K *m V = V *m diag_mx S^T ->
    \tr (V^T *m K *m V) = \sum_i S i 0.
  Proof.
    move=> h1 h2; rewrite -mulmxA h2 mulmxA h1 mul1mx /mxtrace.
    by apply: eq_bigr => i _; rewrite !mxE eqxx mulr1n.
  Qed.

  (* PCovR's subspace is optimal among ALL k-dimensional subspaces of sample space *)
  Theorem mixed_loss_optimal (a : F) (U : 'M[F]_n) (L : 'cV[F]_n)
      (V : 'M[F]_(n, k)) (S : 'cV[F]_k) (Q : 'M[F]_(n, k)) :
    U^T *m U = 1%:M -> s_Kt X Yh a *m U = U *m diag_mx L^T ->
    (forall i j : 'I_n, (i <= j)%N -> L j 0 <= L i 0) ->
    V^T *m V = 1%:M -> s_Kt X Yh a *m V = V *m diag_mx S^T ->
    \sum_i S i 0 = \sum_(i < n | (i < k)%N) L i 0 ->
    Q^T *m Q = 1%:M ->
    mixed_loss a V <= mixed_loss a Q.
  Proof.
    move=> u1 u2 hs v1 v2 htop hQ.
    rewrite !mixed_loss_trace // ler_sub // (eig_trace v1 v2) htop.
    exact: (kyfan u1 u2 hs hQ).
  Qed.
End Loss.

(* ---------------------------------------------------------------- exchange argument *)
Section Exchange.
  Variable F : rcfType.
  (* lxa, lya: the two losses of the subspace optimal for mixing a; lxb, lyb: for b *)
  Lemma exchange (a b lxa lya lxb lyb : F) :
    0 <= a -> a < b -> b <= 1 ->
    a * lxa + (1 - a) * lya <= a * lxb + (1 - a) * lyb ->
    b * lxb + (1 - b) * lyb <= b * lxa + (1 - b) * lya ->
    lxb <= lxa /\ lya <= lyb.
  Proof.
    move=> a0 ab b1 h1 h2.
    pose dx := lxa - lxb; pose dy := lya - lyb.
    have e1 : a * dx + (1 - a) * dy <= 0.
      by rewrite /dx /dy !mulrBr addrACA -opprD subr_le0.
    have e2 : 0 <= b * dx + (1 - b) * dy.
      by rewrite /dx /dy !mulrBr addrACA -opprD subr_ge0.
    have ba : 0 < b - a by rewrite subr_gt0.
    have dxy : dy <= dx.
      have : 0 <= (b - a) * (dx - dy).
        have -> : (b - a) * (dx - dy) = (b * dx + (1 - b) * dy) - (a * dx + (1 - a) * dy).
          by ring.
        by rewrite subr_ge0 (le_trans e1 e2).
      by rewrite pmulr_rge0 // subr_ge0.
    have dx0 : 0 <= dx.
      apply: (le_trans e2).
      have h : b * dx + (1 - b) * dx = dx by ring.
      by rewrite -[X in _ <= X]h ler_add2l ler_wpmul2l // subr_ge0.
    have dy0 : dy <= 0.
      apply: le_trans e1.
      have h : a * dy + (1 - a) * dy = dy by ring.
      by rewrite -[X in X <= _]h ler_add2r ler_wpmul2l.
    by rewrite -subr_ge0 -/dx dx0 -subr_le0 -/dy dy0.
  Qed.
End Exchange.

(* ---------------------------------------------------------------- monotonicity in the mixing *)
Section Monotone.
  Variable F : rcfType.
  Variables (n m p k : nat) (X : 'M[F]_(n, m)) (Yh : 'M[F]_(n, p)).
  Variables (a b : F) (Qa Qb : 'M[F]_(n, k)).
  Hypothesis a0 : 0 <= a.
  Hypothesis ab : a < b.
  Hypothesis b1 : b <= 1.
  Hypothesis hQa : Qa^T *m Qa = 1%:M.
  Hypothesis hQb : Qb^T *m Qb = 1%:M.
  Hypothesis opt_a : forall Q : 'M[F]_(n, k), Q^T *m Q = 1%:M ->
    mixed_loss X Yh a Qa <= mixed_loss X Yh a Q.
  Hypothesis opt_b : forall Q : 'M[F]_(n, k), Q^T *m Q = 1%:M ->
    mixed_loss X Yh b Qb <= mixed_loss X Yh b Q.

  (* more weight on X: the X-loss cannot grow, the Y-loss cannot shrink *)
  Theorem mixing_monotone :
    proj_loss Qb X <= proj_loss Qa X /\ proj_loss Qa Yh <= proj_loss Qb Yh.
  Proof. exact: (exchange a0 ab b1 (opt_a hQb) (opt_b hQa)). Qed.
End Monotone.
