(* Proofs about Ridge2FoldCV.fit as a function of the data (Model/Ridge2FoldFit.v,
   Model/Ridge2FoldFitMx.v): guards, uniqueness of the explicit regularised fit, distance
   between the data matrix and its rank-truncated version, the data-level statements of the
   cv values / coefficients.  ssreflect style. *)
From mathcomp Require Import all_ssreflect all_algebra.
From mathcomp Require Import ring.
From Verif Require Import MExp MExpMx Ridge2Fold Ridge2FoldMx MxFrobP Ridge2FoldP.
From Verif Require Import Ridge2FoldFit Ridge2FoldFitMx.
Set Implicit Arguments.
Unset Strict Implicit.
Unset Printing Implicit Defensive.
Import Order.TTheory GRing.Theory Num.Theory.
Local Open Scope ring_scope.

(* ---- guards ------------------------------------------------------------------------- *)
Section GuardP.
  Variable F : rcfType.
  Local Notation rops := (rops F).

  Lemma existsb_has (T : Type) (f : T -> bool) (l : seq T) : List.existsb f l = has f l.
  Proof. by elim: l => //= x l ->. Qed.

  Lemma any_lt0E (l : seq F) : any_lt0 rops l = has (fun a => a < 0) l.
  Proof. by rewrite /any_lt0 existsb_has. Qed.

  Lemma any_ge1E (l : seq F) : any_ge1 rops l = has (fun a => 1 <= a) l.
  Proof. by rewrite /any_ge1 existsb_has; apply: eq_has => a /=; rewrite leNgt. Qed.

  Lemma range_ok (l : seq F) :
    ~~ (any_lt0 rops l || any_ge1 rops l) = all (fun a => (0 <= a) && (a < 1)) l.
  Proof.
    rewrite any_lt0E any_ge1E -has_predU -all_predC; apply: eq_all => a /=.
    by rewrite negb_or -leNgt -ltNge.
  Qed.

  Lemma eqbE a b : Nat.eqb a b = (a == b).
  Proof. by elim: a b => [|a IH] [|b] //=; rewrite IH. Qed.

  (* which guard fires, exactly *)
  Lemma fit_guard_spec method atype (alphas : seq F) :
    fit_guard rops method atype alphas =
      if (1 < method)%N then Some ErrMethod
      else if (1 < atype)%N then Some ErrAlphaType
      else if (atype == 1%N) && ~~ all (fun a => (0 <= a) && (a < 1)) alphas then Some ErrRelativeRange
      else None.
  Proof.
    rewrite /fit_guard !lebE -!ltnNge eqbE -range_ok negbK.
    by case: (1 < method)%N => //; case: (1 < atype)%N.
  Qed.

  Lemma fit_guard_accepts method atype (alphas : seq F) :
    fit_guard rops method atype alphas = None <->
    [/\ (method <= 1)%N, (atype <= 1)%N
      & atype = 1%N -> all (fun a => (0 <= a) && (a < 1)) alphas].
  Proof.
    rewrite fit_guard_spec !ltnNge; case: (method <= 1)%N => /=; last by split=> // -[].
    case: (atype <= 1)%N => /=; last by split=> // -[].
    case: eqP => [->|Hne] /=; last by split.
    by case: (all _ _) => /=; split=> // -[_ _ /(_ erefl)].
  Qed.
End GuardP.

(* ---- uniqueness of the explicit regularised fit -------------------------------------- *)
Section Inj.
  Variable F : rcfType.
  Variables (m p t : nat) (X : 'M[F]_(m, p)) (y : 'M[F]_(m, t)).

  (* a = 0: the solution of the normal equations inside the row space is unique *)
  Lemma rowspace_unique (w w' : 'M[F]_(p, t)) (z z' : 'M[F]_(m, t)) :
    X^T *m X *m w = X^T *m y -> w = X^T *m z ->
    X^T *m X *m w' = X^T *m y -> w' = X^T *m z' -> w' = w.
  Proof.
    move=> H Hz H' Hz'.
    have Hd : X *m (w' - w) = 0.
      apply: fn2_eq0; rewrite /fn2 ip_mull mulmxA mulmxBr H H' subrr.
      by rewrite /ip trmx0 mul0mx mxtrace0.
    apply/eqP; rewrite -subr_eq0; apply/eqP; apply: fn2_eq0.
    have -> : fn2 (w' - w) = ip (X^T *m (z' - z)) (w' - w) by rewrite mulmxBr -Hz -Hz'.
    by rewrite ipC ip_mull trmxK Hd /ip trmx0 mul0mx mxtrace0.
  Qed.
End Inj.

Section RegInj.
  Variable F : rcfType.
  Variables (m p k t : nat) (U : 'M[F]_(m, k)) (sr : 'cV[F]_k) (V : 'M[F]_(p, k)).
  Variables (y : 'M[F]_(m, t)) (a : F).

  (* for a >= 0 there is exactly one [reg_solution] *)
  Lemma reg_solution_inj (W W' : 'M[F]_(p, t)) :
    0 <= a -> reg_solution U sr V y a W -> reg_solution U sr V y a W' -> W' = W.
  Proof.
    rewrite le_eqVlt => /orP[/eqP a0|a0] [H [z Hz]] [H' [z' Hz']].
    - move: H H'; rewrite -a0 -scalemx1 scale0r !addr0 => H H'.
      exact: (rowspace_unique H Hz H' Hz').
    - exact: (normal_eq_unique a0 H H').
  Qed.
End RegInj.

(* ---- distance between the data matrix and its rank-truncated version ------------------ *)
Section TruncErr.
  Variable F : rcfType.
  Variables (m p k : nat) (U : 'M[F]_(m, k)) (V : 'M[F]_(p, k)) (s : 'cV[F]_k).
  Hypothesis UU : U^T *m U = 1%:M.
  Hypothesis VV : V^T *m V = 1%:M.
  Hypothesis s0 : forall i, 0 <= s i ord0.

  Lemma fn2_scalar1 : fn2 (1%:M : 'M[F]_k) = k%:R.
  Proof. by rewrite /fn2 /ip trmx1 mulmx1 mxtrace1. Qed.

  (* dropped singular values are at most thr = rcond (Tikhonov) resp. max(rcond, alpha) *)
  Definition thr (cutoff : bool) (rcond alpha : F) : F := if cutoff then Num.max rcond alpha else rcond.

  Lemma trunc_error cutoff (rcond alpha : F) :
    0 <= rcond ->
    fn2 (U *m diag_mx s^T *m V^T - U *m diag_mx (strunc cutoff rcond alpha s)^T *m V^T)
    <= k%:R * thr cutoff rcond alpha ^+ 2.
  Proof.
    move=> rc0.
    have t0 : 0 <= thr cutoff rcond alpha.
      by rewrite /thr; case: cutoff => //; rewrite le_maxr rc0.
    rewrite -mulmxBl -mulmxBr fn2_isor // fn2_isol // -raddfB /= -linearB /=.
    rewrite -[diag_mx _]mulmx1 mulrC -fn2_scalar1.
    apply: fn2_diag_le => i; rewrite !mxE.
    case Hk: (keep _ _ _ _); first by rewrite subrr expr0n /= exprn_ge0.
    rewrite subr0; apply: ler_expn2r; rewrite ?nnegrE //.
    move/negbT: Hk; rewrite /keep /thr negb_and -leNgt.
    case: (cutoff) => /=; last by rewrite orbF.
    by rewrite -leNgt le_maxr.
  Qed.
End TruncErr.

(* ---- fit as a function of the data ------------------------------------------------------ *)
Section DataP.
  Variable F : rcfType.
  Local Notation rops := (rops F).

  (* X[idx]: row i of the result is row idx[i] of X *)
  Lemma take_rowsE n q (idx : seq nat) (A : 'M[F]_(n, q)) (i : 'I_(size idx)) (r : 'I_n) j :
    nth 0%N idx i = r -> take_rows idx A i j = A r j.
  Proof. by move=> E; rewrite mxE E insubT // => H; congr (A _ _); exact: val_inj. Qed.

  Lemma svd_hyp_of (env : env_mx F) m p k xX xU xS xV :
    is_svd (env m p xX) (env m k xU) (env k 1%N xS) (env p k xV) -> svd_hyp env m p k xX xU xS xV.
  Proof. by case=> UU VV XE Hs H0; split=> //=; rewrite ?UU ?VV ?subrr // -XE subrr. Qed.

  Variable a : r2f_data F.
  Variable q : r2f_oracles a.
  Variable w : r2f_params F (a_t a).
  Local Notation c := (data_cfg q w).
  Local Notation n1 := (size (a_f1 a)).
  Local Notation n2 := (size (a_f2 a)).

  Lemma env_X1 : data_env q n1 (a_p a) vX1 = X_fold1 a. Proof. by rewrite /data_env /= inj_mxE. Qed.
  Lemma env_y1 : data_env q n1 (a_t a) vy1 = y_fold1 a. Proof. by rewrite /data_env /= inj_mxE. Qed.
  Lemma env_X2 : data_env q n2 (a_p a) vX2 = X_fold2 a. Proof. by rewrite /data_env /= inj_mxE. Qed.
  Lemma env_y2 : data_env q n2 (a_t a) vy2 = y_fold2 a. Proof. by rewrite /data_env /= inj_mxE. Qed.
  Lemma env_X : data_env q (a_n a) (a_p a) vX = a_X a. Proof. by rewrite /data_env /= inj_mxE. Qed.
  Lemma env_y : data_env q (a_n a) (a_t a) vy = a_y a. Proof. by rewrite /data_env /= inj_mxE. Qed.
  Lemma env_U1 : data_env q n1 (a_k1 a) vU1 = q_U1 q. Proof. by rewrite /data_env /= inj_mxE. Qed.
  Lemma env_S1 : data_env q (a_k1 a) 1%N vS1 = q_S1 q. Proof. by rewrite /data_env /= inj_mxE. Qed.
  Lemma env_V1 : data_env q (a_p a) (a_k1 a) vV1 = q_V1 q. Proof. by rewrite /data_env /= inj_mxE. Qed.
  Lemma env_U2 : data_env q n2 (a_k2 a) vU2 = q_U2 q. Proof. by rewrite /data_env /= inj_mxE. Qed.
  Lemma env_S2 : data_env q (a_k2 a) 1%N vS2 = q_S2 q. Proof. by rewrite /data_env /= inj_mxE. Qed.
  Lemma env_V2 : data_env q (a_p a) (a_k2 a) vV2 = q_V2 q. Proof. by rewrite /data_env /= inj_mxE. Qed.
  Lemma env_U : data_env q (a_n a) (a_k a) vU = q_U q. Proof. by rewrite /data_env /= inj_mxE. Qed.
  Lemma env_S : data_env q (a_k a) 1%N vS = q_S q. Proof. by rewrite /data_env /= inj_mxE. Qed.
  Lemma env_V : data_env q (a_p a) (a_k a) vV = q_V q. Proof. by rewrite /data_env /= inj_mxE. Qed.
  Lemma env_Xnew : data_env q (a_nn a) (a_p a) vXnew = a_Xnew a. Proof. by rewrite /data_env /= inj_mxE. Qed.
  Definition envE := (env_X1, env_y1, env_X2, env_y2, env_X, env_y, env_U1, env_S1, env_V1,
                      env_U2, env_S2, env_V2, env_U, env_S, env_V, env_Xnew).

  (* the scaled value of a grid entry, in terms of the data *)
  Definition scaled_alpha (x : F) : F :=
    if p_atype w == 1%N
    then x * Num.max (lmax rops (col_list (q_S1 q))) (lmax rops (col_list (q_S2 q))) else x.

  Hypothesis Hyp : data_hyps q w.
  Hypothesis HG : fit_guard rops (p_method w) (p_atype w) (p_alphas w) = None.

  Lemma data_r2f_hyps : r2f_hyps c.
  Proof.
    case: Hyp => H1 H2 H3 rc0 [Hn Hal]; split=> //.
    - by apply: svd_hyp_of; rewrite /= !envE.
    - by apply: svd_hyp_of; rewrite /= !envE.
    - by apply: svd_hyp_of; rewrite /= !envE.
    - split=> //=; case: (fit_guard_accepts (p_method w) (p_atype w) (p_alphas w)) => /(_ HG) [_ _ Hr] _.
      case: (p_atype w =P 1%N) => [/Hr|/eqP /Hal //].
      by apply: sub_all => x /andP[].
  Qed.

  Lemma data_salphas j : (j < size (p_alphas w))%N ->
    nth 0 (salphas c) j = scaled_alpha (nth 0 (p_alphas w) j).
  Proof. by move=> Hj; rewrite salphas_nth // /scaled_alpha /s1 /s2 /= !envE. Qed.

  (* cv_values_[j] is the mean of the scorer for ANY explicit regularised fits on the rows of
     fold 1 / fold 2 *)
  Lemma data_cv_values_explicit j (W1' W2' : 'M[F]_(a_p a, a_t a)) :
    (j < size (p_alphas w))%N ->
    let al := scaled_alpha (nth 0 (p_alphas w) j) in
    explicit_fit (q_U1 q) (q_S1 q) (q_V1 q) (y_fold1 a) (p_method w == 1%N) (p_rcond w) al W1' ->
    explicit_fit (q_U2 q) (q_S2 q) (q_V2 q) (y_fold2 a) (p_method w == 1%N) (p_rcond w) al W2' ->
    nth 0 (cv_values c) j =
    (p_scorer w (y_fold2 a) (X_fold2 a *m W1') + p_scorer w (y_fold1 a) (X_fold1 a *m W2')) / 2%:R.
  Proof.
    move=> Hj al E1 E2; have Hc := data_r2f_hyps.
    have al0 : 0 <= nth 0 (salphas c) j by exact: salphas_ge0.
    have ae0 : 0 <= aeff (p_method w == 1%N) al.
      by rewrite /aeff; case: (_ == _) => //; rewrite /al -data_salphas.
    have c0 : c_cutoff c || (0 <= nth 0 (salphas c) j) by rewrite al0 orbT.
    have := W1_reg_solution Hc c0; have := W2_reg_solution Hc c0.
    rewrite /= !envE data_salphas // -/al => R2 R1.
    rewrite (@cv_values_nth F _ c j Hj) /= !envE data_salphas // -/al.
    by rewrite (reg_solution_inj ae0 R1 E1) (reg_solution_inj ae0 R2 E2).
  Qed.

  (* the selected index: first arg-max of the cv values *)
  Lemma data_selection :
    let r := argmax rops (cv_values c) in
    [/\ (r < size (p_alphas w))%N, alpha_ c = nth 0 (p_alphas w) r,
        best_score c = nth 0 (cv_values c) r,
        forall j, (j < size (p_alphas w))%N -> nth 0 (cv_values c) j <= nth 0 (cv_values c) r
      & forall j, (j < r)%N -> nth 0 (cv_values c) j < nth 0 (cv_values c) r].
  Proof. exact: (alpha_first_argmax data_r2f_hyps). Qed.

  (* coef_ is the transpose of ANY explicit regularised fit on the full data for the selected
     (scaled) alpha; predict multiplies by it *)
  Lemma data_coef_explicit (W' : 'M[F]_(a_p a, a_t a)) :
    let r := argmax rops (cv_values c) in
    let al := scaled_alpha (nth 0 (p_alphas w) r) in
    explicit_fit (q_U q) (q_S q) (q_V q) (a_y a) (p_method w == 1%N) (p_rcond w) al W' ->
    coef_ c = W'^T /\ predict c = a_Xnew a *m W'.
  Proof.
    move=> r al E; have Hc := data_r2f_hyps.
    have [Hr _ _ _ _] := data_selection.
    have Eb : best_scaled_alpha c = al by rewrite /best_scaled_alpha data_salphas.
    have ae0 : 0 <= aeff (p_method w == 1%N) al.
      rewrite /aeff; case: (_ == _) => //; rewrite -Eb; exact: best_scaled_alpha_ge0.
    have := coef_reg_solution Hc; rewrite /= !envE Eb => R.
    have EW : (coef_ c)^T = W' by apply/esym; exact: (reg_solution_inj ae0 R E).
    by rewrite predict_E /= !envE EW -EW trmxK.
  Qed.
End DataP.

(* ---- the outcome of fit ------------------------------------------------------------------ *)
Section FitP.
  Variable F : rcfType.
  Local Notation rops := (rops F).
  Variable a : r2f_data F.
  Variable q : r2f_oracles a.
  Variable w : r2f_params F (a_t a).
  Local Notation c := (data_cfg q w).

  Lemma fit_mx_inr r : fit_mx q w = inr r ->
    fit_guard rops (p_method w) (p_atype w) (p_alphas w) = None /\
    [/\ res_cv r = cv_values c, res_alpha r = alpha_ c, res_best r = best_score c,
        res_coef r = coef_ c & res_predict r = predict c].
  Proof. by rewrite /fit_mx; case: (fit_guard _ _ _ _) => // -[<-]. Qed.

  (* which configurations are rejected, and with which error *)
  Lemma fit_mx_outcome :
    match fit_mx q w return Prop with
    | inl ErrMethod => (1 < p_method w)%N
    | inl ErrAlphaType => (p_method w <= 1)%N /\ (1 < p_atype w)%N
    | inl ErrRelativeRange =>
        [/\ (p_method w <= 1)%N, p_atype w = 1%N & has (fun x => (x < 0) || (1 <= x)) (p_alphas w)]
    | inr _ =>
        [/\ (p_method w <= 1)%N, (p_atype w <= 1)%N
          & p_atype w = 1%N -> all (fun x => (0 <= x) && (x < 1)) (p_alphas w)]
    end.
  Proof.
    rewrite /fit_mx fit_guard_spec.
    case: ltnP => // Hm; case: ltnP => // Ha.
    case: eqP => /= [E|NE]; last by split=> // /NE.
    case Hall: (all _ _) => /=; first by split.
    split=> //; move/negbT: Hall; rewrite -has_predC => H.
    rewrite -(@eq_has _ (predC (fun x : F => (0 <= x) && (x < 1)))) // => x /=.
    by rewrite negb_and -ltNge -leNgt.
  Qed.

  Section Accepted.
    Variable r : r2f_result F (a_t a) (a_p a) (a_nn a).
    Hypothesis Hyp : data_hyps q w.
    Hypothesis Hr : fit_mx q w = inr r.

    Lemma fit_cv_values_explicit j (W1' W2' : 'M[F]_(a_p a, a_t a)) :
      (j < size (p_alphas w))%N ->
      let al := scaled_alpha q w (nth 0 (p_alphas w) j) in
      explicit_fit (q_U1 q) (q_S1 q) (q_V1 q) (y_fold1 a) (p_method w == 1%N) (p_rcond w) al W1' ->
      explicit_fit (q_U2 q) (q_S2 q) (q_V2 q) (y_fold2 a) (p_method w == 1%N) (p_rcond w) al W2' ->
      nth 0 (res_cv r) j =
      (p_scorer w (y_fold2 a) (X_fold2 a *m W1') + p_scorer w (y_fold1 a) (X_fold1 a *m W2')) / 2%:R.
    Proof.
      have [HG [-> _ _ _ _]] := fit_mx_inr Hr.
      exact: data_cv_values_explicit.
    Qed.

    Lemma fit_selection :
      let b := argmax rops (res_cv r) in
      size (res_cv r) = size (p_alphas w) /\
      [/\ (b < size (p_alphas w))%N,
          res_alpha r = nth 0 (p_alphas w) b, res_best r = nth 0 (res_cv r) b,
          forall j, (j < size (p_alphas w))%N -> nth 0 (res_cv r) j <= nth 0 (res_cv r) b
        & forall j, (j < b)%N -> nth 0 (res_cv r) j < nth 0 (res_cv r) b].
    Proof.
      have [HG [-> -> -> _ _]] := fit_mx_inr Hr.
      have [H1 H2 H3 H4 H5] := data_selection Hyp HG.
      by split; [rewrite size_cv_values | split].
    Qed.

    Lemma fit_coef_explicit (W' : 'M[F]_(a_p a, a_t a)) :
      let b := argmax rops (res_cv r) in
      let al := scaled_alpha q w (nth 0 (p_alphas w) b) in
      explicit_fit (q_U q) (q_S q) (q_V q) (a_y a) (p_method w == 1%N) (p_rcond w) al W' ->
      res_coef r = W'^T /\ res_predict r = a_Xnew a *m W'.
    Proof.
      have [HG [-> _ _ -> ->]] := fit_mx_inr Hr.
      exact: data_coef_explicit.
    Qed.

    (* such explicit fits exist: the ones the code forms *)
    Lemma fit_explicit_exists j : (j < size (p_alphas w))%N ->
      let al := scaled_alpha q w (nth 0 (p_alphas w) j) in
      [/\ exists W1', explicit_fit (q_U1 q) (q_S1 q) (q_V1 q) (y_fold1 a) (p_method w == 1%N) (p_rcond w) al W1',
          exists W2', explicit_fit (q_U2 q) (q_S2 q) (q_V2 q) (y_fold2 a) (p_method w == 1%N) (p_rcond w) al W2'
        & exists W', explicit_fit (q_U q) (q_S q) (q_V q) (a_y a) (p_method w == 1%N) (p_rcond w) al W'].
    Proof.
      move=> Hj al; have [HG _] := fit_mx_inr Hr.
      have Hc := data_r2f_hyps Hyp HG.
      have al0 : 0 <= nth 0 (salphas c) j by exact: salphas_ge0.
      have c0 : c_cutoff c || (0 <= nth 0 (salphas c) j) by rewrite al0 orbT.
      have := W1_reg_solution Hc c0; have := W2_reg_solution Hc c0.
      rewrite /= !envE data_salphas // -/al => R2 R1.
      split; [by exists (W1 c al) | by exists (W2 c al) |].
      case: Hc => _ _ H3 rc0 _.
      exists (eval_mx (env_set (data_env q) vG
                (list_col (a_k a) (gvec rops (p_method w == 1%N)
                   (count_gt rops (p_rcond w) (col_list (q_S q))) al (col_list (q_S q)))))
              (w_prog (a_n a) (a_p a) (a_k a) (a_t a) vV vG vU vy)).
      have c1 : (p_method w == 1%N) || (0 <= al) by rewrite /al -data_salphas // al0 orbT.
      have := @fold_reg_solution F (a_n a) (a_p a) (a_k a) (a_t a) (data_env q) vX vU vS vV vy
                (p_method w == 1%N) (p_rcond w) al isT H3 rc0 c1.
      by rewrite /= !envE.
    Qed.
  End Accepted.
End FitP.
