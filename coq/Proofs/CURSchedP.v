(* C07, layer D: theorems about the refresh schedule / zeroing / arg-max model of
   Model/CURSched.v.  Stdlib style. *)
From Verif Require Import ListX Greedy ListXP GreedyP CURSched.

(* ---- arithmetic of the schedule ------------------------------------------------------- *)
Lemma due_div re m : refresh_due re (S m) = true -> (S m / re = S (m / re))%nat /\ re <> O.
Proof.
  unfold refresh_due. intros H. apply andb_prop in H as [H1 H2].
  apply negb_true_iff, Nat.eqb_neq in H1. apply Nat.eqb_eq in H2. split; [|exact H1].
  pose proof (Nat.div_mod (S m) re H1) as E. rewrite H2, Nat.add_0_r in E.
  destruct (S m / re)%nat as [|q] eqn:Eq; [lia|].
  f_equal. apply (Nat.div_unique m re q (re - 1)); [lia|]. nia.
Qed.

Lemma notdue_div re m : re <> O -> refresh_due re (S m) = false -> (S m / re = m / re)%nat.
Proof.
  unfold refresh_due. intros Hre H. apply andb_false_iff in H as [H|H].
  - apply negb_false_iff, Nat.eqb_eq in H. contradiction.
  - apply Nat.eqb_neq in H.
    pose proof (Nat.div_mod (S m) re Hre) as E.
    pose proof (Nat.mod_upper_bound (S m) re Hre) as Hb.
    apply (Nat.div_unique m re (S m / re) (S m mod re - 1)); lia.
Qed.

Lemma due_re0 m : refresh_due 0 m = false.
Proof. reflexivity. Qed.

Lemma idx_after_ge re m c k : (c <= idx_after re m c k)%nat.
Proof.
  revert m c; induction k as [|k IH]; intros m c; cbn; [lia|].
  destruct (refresh_due re (S m)); [specialize (IH (S m) (S c)); lia|apply IH].
Qed.

Lemma idx_after_mono re m c k k' : (k <= k')%nat -> (idx_after re m c k <= idx_after re m c k')%nat.
Proof.
  revert m c k'; induction k as [|k IH]; intros m c k' H; cbn.
  - apply idx_after_ge.
  - destruct k' as [|k']; [lia|]. cbn. apply IH. lia.
Qed.

Lemma idx_steps_length re m c k : length (idx_steps re m c k) = k.
Proof. revert m c; induction k as [|k IH]; intros m c; cbn; [reflexivity|]. now rewrite IH. Qed.

(* closed forms: with recompute_every = re <> 0 the vector in force after m selections of a
   cold start is number m / re; with recompute_every = 0 it never changes *)
Lemma idx_steps_closed re m k :
  re <> O -> idx_steps re m (m / re) k = map (fun j => ((m + j) / re)%nat) (seq 0 k).
Proof.
  intros Hre. revert m; induction k as [|k IH]; intros m; [reflexivity|].
  cbn [idx_steps seq map]. rewrite Nat.add_0_r. f_equal.
  rewrite <- seq_shift, map_map.
  destruct (refresh_due re (S m)) eqn:Ed.
  - destruct (due_div _ _ Ed) as [E _]. rewrite <- E, IH.
    apply map_ext. intros j. f_equal. lia.
  - rewrite <- (notdue_div _ _ Hre Ed), IH. apply map_ext. intros j. f_equal. lia.
Qed.

Lemma idx_after_closed re m k : re <> O -> idx_after re m (m / re) k = ((m + k) / re)%nat.
Proof.
  intros Hre. revert m; induction k as [|k IH]; intros m; cbn [idx_after].
  - now rewrite Nat.add_0_r.
  - destruct (refresh_due re (S m)) eqn:Ed.
    + destruct (due_div _ _ Ed) as [E _]. rewrite <- E, IH. f_equal. lia.
    + rewrite <- (notdue_div _ _ Hre Ed), IH. f_equal. lia.
Qed.

Lemma idx_steps_re0 m c k : idx_steps 0 m c k = repeat c k.
Proof. revert m; induction k as [|k IH]; intros m; cbn; [reflexivity|]. now rewrite IH. Qed.

Lemma idx_after_re0 m c k : idx_after 0 m c k = c.
Proof. revert m; induction k as [|k IH]; intros m; cbn; [reflexivity|]. apply IH. Qed.

(* ---- one stage of the loop -------------------------------------------------------------- *)
Section Stage.
  Variable re : nat.
  Variable cand : list (list Z).
  Let n := length cand.
  Variable R : list (list Z).              (* refresh vectors of this stage, R_0 = the one loaded at its start *)

  Definition cP (s : cst) : Prop :=
    length (c_vec s) = n /\ Forall (fun r => length r = n) (c_rest s).

  Lemma cP_len s : cP s -> length (c_score s) = n.
  Proof. intros [H _]. exact H. Qed.

  Lemma cP_upd s i : cP s -> (i < n)%nat -> cP (c_upd re s i).
  Proof.
    intros [Hv Hr] _. unfold c_upd, cP.
    destruct (refresh_due re (S (c_nsel s))).
    - destruct (c_rest s) as [|r rest] eqn:Er; cbn.
      + split; [now rewrite upd_nth_length|constructor].
      + inversion Hr; subst. split; [now rewrite upd_nth_length|assumption].
    - cbn. split; [now rewrite upd_nth_length|assumption].
  Qed.

  Notation GI := (GInv cst cand None cP).

  (* the current vector agrees with refresh vector V on every item not yet selected *)
  Definition agree_off (chosen : list nat) (v V : list Z) : Prop :=
    forall u, (u < n)%nat -> ~ In u chosen -> nth u v 0 = nth u V 0.

  Lemma agree_upd chosen v V i :
    agree_off chosen v V -> agree_off (chosen ++ [i]) (upd_nth i 0 v) V.
  Proof.
    intros H u Hu Hn. rewrite nth_upd_nth_neq.
    - apply H; [exact Hu|]. intros Hin. apply Hn. apply in_or_app. now left.
    - intros ->. apply Hn. apply in_or_app. right. now left.
  Qed.

  Lemma agree_fresh chosen V i : agree_off (chosen ++ [i]) (upd_nth i 0 V) V.
  Proof. apply agree_upd. intros u _ _. reflexivity. Qed.

  Lemma is_best_wrt g i c :
    agree_off (sel g) (c_vec (sst g)) (nth c R []) ->
    is_best cst c_score cand g i -> best_wrt n (nth c R []) (sel g) i.
  Proof.
    intros Ha (Hi & Hni & Hmax & Hfirst). unfold c_score in *.
    split; [exact Hi|]. split; [exact Hni|]. split.
    - intros u Hu Hnu. rewrite <- (Ha u Hu Hnu), <- (Ha i Hi Hni). now apply Hmax.
    - intros u Hu Hnu. rewrite <- (Ha u) by (try lia; assumption).
      rewrite <- (Ha i Hi Hni). now apply Hfirst.
  Qed.

  Lemma skipn_cons_nth (l : list (list Z)) c :
    (c < length l)%nat -> skipn c l = nth c l [] :: skipn (S c) l.
  Proof.
    revert c; induction l as [|a l IH]; intros [|c] H; cbn in *; try lia; [reflexivity|].
    apply IH. lia.
  Qed.

  Theorem stage_gen t k : forall g c g' st,
    GI g -> c_nsel (sst g) = length (sel g) ->
    c_rest (sst g) = skipn (S c) R ->
    agree_off (sel g) (c_vec (sst g)) (nth c R []) ->
    (idx_after re (length (sel g)) c k < length R)%nat ->
    c_run re cand t k g = (g', st) ->
    exists new, sel g' = sel g ++ new /\ (length new <= k)%nat /\ (st = false -> length new = k) /\
      (forall j, (j < length new)%nat ->
         best_wrt n (nth (nth j (idx_steps re (length (sel g)) c k) O) R [])
                  (sel g ++ firstn j new) (nth j new O)) /\
      GI g' /\ c_nsel (sst g') = length (sel g') /\
      c_rest (sst g') = skipn (S (idx_after re (length (sel g)) c (length new))) R /\
      agree_off (sel g') (c_vec (sst g')) (nth (idx_after re (length (sel g)) c (length new)) R []) /\
      c_ok (sst g') = c_ok (sst g).
  Proof.
    induction k as [|k IH]; intros g c g' st HI Hn Hrest Hag Hen H; unfold c_run in H; cbn [run] in H.
    - injection H as <- <-. exists []. rewrite app_nil_r. cbn [length idx_after].
      split; [reflexivity|]. split; [lia|]. split; [reflexivity|].
      split; [intros j Hj; lia|]. auto.
    - destruct (best_new cst c_score t g) as [[i|] g1] eqn:Eb.
      + assert (HP : cP (sst g)) by apply HI.
        destruct (best_new_some cst c_score cand cP cP_len _ _ _ _ HP Eb)
          as (Hb & Hs & Hx & Hy & Hss & _).
        assert (HI1 : GI g1) by (eapply GInv_same; eauto).
        pose proof Hb as (Hi & Hni & _).
        assert (HI2 : GI (post cst (c_upd re) cand None g1 i)).
        { apply (post_inv cst (c_upd re) cand None cP cP_upd); [exact HI1|exact Hi|now rewrite Hs]. }
        set (g2 := post cst (c_upd re) cand None g1 i) in *.
        assert (Hsel2 : sel g2 = sel g ++ [i]) by (unfold g2; cbn; now rewrite Hs).
        assert (Hlen2 : length (sel g2) = S (length (sel g))) by (rewrite Hsel2, app_length; cbn; lia).
        cbn [idx_after] in Hen.
        set (c' := if refresh_due re (S (length (sel g))) then S c else c) in *.
        (* the state after the update *)
        assert (Hst2 : c_nsel (sst g2) = length (sel g2) /\ c_rest (sst g2) = skipn (S c') R /\
                       agree_off (sel g2) (c_vec (sst g2)) (nth c' R []) /\
                       c_ok (sst g2) = c_ok (sst g)).
        { assert (Hsst2 : sst g2 = c_upd re (sst g) i) by (unfold g2; cbn; now rewrite Hss).
          rewrite Hsst2, Hlen2, Hsel2. unfold c_upd. rewrite Hn. unfold c'.
          destruct (refresh_due re (S (length (sel g)))) eqn:Ed.
          - assert (Hc : (S c < length R)%nat).
            { eapply Nat.le_lt_trans; [apply (idx_after_ge re (S (length (sel g))) (S c) k)|exact Hen]. }
            rewrite Hrest, (skipn_cons_nth R (S c) Hc). cbn [c_nsel c_rest c_vec c_ok].
            split; [reflexivity|]. split; [reflexivity|]. split; [apply agree_fresh|reflexivity].
          - cbn [c_nsel c_rest c_vec c_ok].
            split; [reflexivity|]. split; [exact Hrest|]. split; [apply agree_upd; exact Hag|reflexivity]. }
        destruct Hst2 as (Hn2 & Hrest2 & Hag2 & Hok2).
        rewrite <- Hlen2 in Hen.
        destruct (IH g2 c' g' st HI2 Hn2 Hrest2 Hag2 Hen H)
          as (new & Hnew & Hle & Hst & Hbest & HIf & Hnf & Hrf & Haf & Hokf).
        exists (i :: new). cbn [length].
        split; [rewrite Hnew, Hsel2, <- app_assoc; reflexivity|]. split; [lia|]. split; [intros E; rewrite (Hst E); reflexivity|].
        split.
        2:{ rewrite Hlen2 in Hrf, Haf. cbn [idx_after]. fold c'.
            split; [exact HIf|]. split; [exact Hnf|]. split; [exact Hrf|]. split; [exact Haf|].
            rewrite Hokf. exact Hok2. }
        intros [|j] Hj.
        * cbn [idx_steps nth firstn]. rewrite app_nil_r. apply is_best_wrt; [exact Hag|exact Hb].
        * cbn [idx_steps nth firstn]. fold c'. rewrite <- Hlen2.
          specialize (Hbest j ltac:(cbn in Hj; lia)).
          rewrite Hsel2, <- app_assoc in Hbest. rewrite Hsel2. exact Hbest.
      + injection H as <- <-.
        apply (best_new_none cst c_score) in Eb as (Hs & Hx & Hy & Hss).
        exists []. rewrite app_nil_r. cbn [length firstn].
        split; [exact Hs|]. split; [lia|]. split; [discriminate|].
        split; [intros j Hj; cbn in Hj; lia|].
        cbn [idx_after].
        split; [eapply GInv_same; eauto|]. split; [rewrite Hss, Hs; exact Hn|].
        split; [rewrite Hss; exact Hrest|]. split; [rewrite Hs, Hss; exact Hag|].
        rewrite Hss; reflexivity.
  Qed.
End Stage.

(* ---- cold start: C07_step_argmax ---------------------------------------------------------- *)
Definition force_idx (re j : nat) : nat := if Nat.eqb re 0 then O else (j / re)%nat.

Lemma GI_cold n R :
  Forall (fun r => length r = n) R -> R <> [] ->
  GInv cst (repeat [] n) None (cP (repeat [] n)) (g_cold R).
Proof.
  intros HR Hne. destruct R as [|r rest]; [contradiction|].
  unfold g_cold, GInv; cbn. rewrite repeat_length.
  inversion HR as [|r0 rest0 Hr0 Hrest0].
  split; [constructor|]. split; [constructor|]. split; [reflexivity|].
  split; [intros y Hy; discriminate|]. unfold cP; cbn. rewrite repeat_length. split; assumption.
Qed.

Theorem step_argmax_cold n re R t k g' st :
  Forall (fun r => length r = n) R ->
  (force_idx re k < length R)%nat ->
  c_run re (repeat [] n) t k (g_cold R) = (g', st) ->
  (length (sel g') <= k)%nat /\ (st = false -> length (sel g') = k) /\
  c_ok (sst g') = true /\
  forall j, (j < length (sel g'))%nat ->
    best_wrt n (nth (force_idx re j) R []) (firstn j (sel g')) (nth j (sel g') O).
Proof.
  intros HR Hen H.
  assert (Hne : R <> []) by (intros ->; cbn in Hen; lia).
  pose proof (GI_cold n R HR Hne) as HI.
  assert (HRl : Forall (fun r => length r = length (repeat (@nil Z) n)) R) by (now rewrite repeat_length).
  destruct R as [|r rest] eqn:ER; [contradiction|]. rewrite <- ER in *.
  assert (Hg : g_cold R = mk_gst [] [] [] (mk_cst r 0 rest true) None) by (now rewrite ER).
  assert (Hen' : (idx_after re (length (sel (g_cold R))) 0 k < length R)%nat).
  { rewrite Hg. cbn [sel length]. unfold force_idx in Hen.
    destruct (Nat.eqb re 0) eqn:Ere.
    - apply Nat.eqb_eq in Ere. subst re. now rewrite idx_after_re0.
    - apply Nat.eqb_neq in Ere.
      replace O with (0 / re)%nat at 2 by (now apply Nat.div_0_l).
      now rewrite idx_after_closed. }
  assert (A1 : c_nsel (sst (g_cold R)) = length (sel (g_cold R))) by (now rewrite Hg).
  assert (A2 : c_rest (sst (g_cold R)) = skipn 1 R) by (rewrite Hg, ER; reflexivity).
  assert (A3 : agree_off (repeat [] n) (sel (g_cold R)) (c_vec (sst (g_cold R))) (nth 0 R [])).
  { rewrite Hg, ER. intros u _ _. reflexivity. }
  destruct (stage_gen re (repeat [] n) R t k (g_cold R) 0 g' st HI A1 A2 A3 Hen' H) as
    (new & Hnew & Hle & Hst & Hbest & _ & _ & _ & _ & Hok).
  - rewrite Hg in Hnew, Hok, Hbest. cbn [sel sst c_ok app length] in Hnew, Hok, Hbest.
    rewrite Hnew. split; [exact Hle|]. split; [exact Hst|]. split; [exact Hok|].
    intros j Hj. specialize (Hbest j Hj). rewrite repeat_length in Hbest.
    replace (force_idx re j) with (nth j (idx_steps re 0 0 k) O); [exact Hbest|].
    unfold force_idx. destruct (Nat.eqb re 0) eqn:Ere.
    + apply Nat.eqb_eq in Ere. subst re. rewrite idx_steps_re0.
      apply nth_repeat.
    + apply Nat.eqb_neq in Ere.
      replace O with (0 / re)%nat at 2 by (now apply Nat.div_0_l).
      rewrite idx_steps_closed by exact Ere.
      rewrite (nth_map_lt _ (seq 0 k) j O O) by (rewrite seq_length; lia).
      rewrite seq_nth by lia. reflexivity.
Qed.

(* ---- warm start: the next refresh vector is loaded, then the same schedule continues ------ *)
Theorem step_argmax_warm n re t k g g' st :
  let cand := repeat (@nil Z) n in
  let R := c_vec (c_warm (sst g)) :: c_rest (c_warm (sst g)) in
  GInv cst cand None (cP cand) g -> c_nsel (sst g) = length (sel g) ->
  c_rest (sst g) <> [] ->
  (idx_after re (length (sel g)) 0 k < length R)%nat ->
  c_run re cand t k (g_warm g) = (g', st) ->
  exists new, sel g' = sel g ++ new /\ (length new <= k)%nat /\ (st = false -> length new = k) /\
    c_ok (sst g') = c_ok (sst g) /\
    forall j, (j < length new)%nat ->
      best_wrt n (nth (nth j (idx_steps re (length (sel g)) 0 k) O) R [])
               (sel g ++ firstn j new) (nth j new O).
Proof.
  intros cand R HI Hn Hne Hen H.
  assert (HPg : cP cand (sst g)) by apply HI.
  destruct (c_rest (sst g)) as [|r rest] eqn:Er; [contradiction|].
  assert (Hw : c_warm (sst g) = mk_cst r (c_nsel (sst g)) rest (c_ok (sst g))).
  { unfold c_warm. now rewrite Er. }
  assert (HIw : GInv cst cand None (cP cand) (g_warm g)).
  { destruct HI as (A & B & Cc & D & E). unfold g_warm, GInv; cbn [sel xsel ysel sst].
    split; [exact A|]. split; [exact B|]. split; [exact Cc|]. split; [exact D|].
    rewrite Hw. destruct HPg as [_ Hr]. rewrite Er in Hr.
    inversion Hr as [|r0 rest0 Hr0 Hrest0]. split; assumption. }
  assert (A1 : c_nsel (sst (g_warm g)) = length (sel (g_warm g))).
  { unfold g_warm; cbn. rewrite Hw. exact Hn. }
  assert (A2 : c_rest (sst (g_warm g)) = skipn 1 R).
  { unfold g_warm, R; cbn. rewrite Hw. reflexivity. }
  assert (A3 : agree_off cand (sel (g_warm g)) (c_vec (sst (g_warm g))) (nth 0 R [])).
  { unfold g_warm, R; cbn. rewrite Hw. intros u _ _. reflexivity. }
  destruct (stage_gen re cand R t k (g_warm g) 0 g' st HIw A1 A2 A3 Hen H) as
    (new & Hnew & Hle & Hst & Hbest & _ & _ & _ & _ & Hok).
  exists new. cbn [g_warm sel sst] in *. unfold cand in Hbest. rewrite repeat_length in Hbest.
  split; [exact Hnew|]. split; [exact Hle|]. split; [exact Hst|]. split; [|exact Hbest].
    rewrite Hok, Hw. reflexivity.
Qed.

Lemma schedule_closed_form re m k : re <> O ->
  idx_steps re m (m / re) k = map (fun j => ((m + j) / re)%nat) (seq 0 k) /\
  idx_after re m (m / re) k = ((m + k) / re)%nat.
Proof. intros H. split; [now apply idx_steps_closed|now apply idx_after_closed]. Qed.

Lemma schedule_never m c k : idx_steps 0 m c k = repeat c k /\ idx_after 0 m c k = c.
Proof. split; [apply idx_steps_re0|apply idx_after_re0]. Qed.

Lemma nonvacuous_schedule :
  let R := [[5; 9; 7]; [1; 0; 3]] in
  Forall (fun r => length r = 3%nat) R /\ (force_idx 2 3 < length R)%nat /\
  sel (fst (c_run 2 (repeat [] 3) NoThr 3 (g_cold R))) = [1; 2; 0]%nat /\
  c_trace 2 (repeat [] 3) NoThr 3 (g_cold R) = [[5; 9; 7]; [5; 0; 7]; [1; 0; 0]].
Proof.
  cbv zeta. split; [repeat constructor|]. split; [vm_compute; lia|].
  split; vm_compute; reflexivity.
Qed.
