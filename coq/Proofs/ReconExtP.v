(* Extension (round 3) of the algebra of the reconstruction measures (ssreflect/mathcomp style).
   Part 1: the orthogonal Procrustes problem over a real closed field, WITHOUT a spectral theorem:
           the checkable contract  O^T O = I, O^T M = L^T L  implies global optimality
           (proc_sufficient); two solutions of the contract have the same symmetric factor
           (proc_factor_eq); for a source of full column rank the padded GRD rows are determined
           (grd_determined_mx).
   Part 2: the contract on the environment of Model/Recon.v (slot 15 = L) and the theorems:
           GRD under source / target rotation for every pair of widths, LRE under target
           rotation, GRD(X, XQ) = 0 under the checked contract. *)
From mathcomp Require Import all_ssreflect all_algebra fingroup perm.
From Verif Require Import MExp MExpMx Recon ReconExt ReconListP ReconP.
Set Implicit Arguments.
Unset Strict Implicit.
Unset Printing Implicit Defensive.
Import Order.Theory GRing.Theory Num.Theory.
Close Scope float_scope.
Local Open Scope ring_scope.

(* ================================================================== Part 1 *)
Section Procrustes.
  Variable F : rcfType.

  (* tr(O2^T M) <= tr(O^T M) for every orthogonal O2 when O^T M = L^T L:
     0 <= |L - L Q|^2 = 2 |L|^2 - 2 tr(Q^T L^T L),  Q = O^T O2 *)
  Lemma proc_psd_max r c (M O O2 : 'M[F]_r) (L : 'M[F]_(c, r)) :
    O^T *m O = 1%:M -> O2^T *m O2 = 1%:M -> O^T *m M = L^T *m L ->
    \tr (O2^T *m M) <= \tr (O^T *m M).
  Proof.
    move=> OO O22 HP.
    have OOt : O *m O^T = 1%:M by apply: mulmx1C.
    have ME : M = O *m (L^T *m L) by rewrite -HP mulmxA OOt mul1mx.
    pose Q := O^T *m O2.
    have QQ : Q *m Q^T = 1%:M.
      by rewrite /Q trmx_mul trmxK -mulmxA (mulmxA O2) (mulmx1C O22) mul1mx.
    have tE : \tr (O2^T *m M) = \tr ((L *m Q)^T *m L).
      by rewrite {1}ME /Q !trmx_mul trmxK !mulmxA.
    have := fro2_ge0 (L - L *m Q).
    rewrite fro2B fro2_orth // -tE HP -/(fro2 L) => Hge.
    rewrite -(@ler_pmul2l _ 2%:R) ?ltr0n // -subr_ge0.
    by rewrite (mulr_natl (fro2 L)) mulr2n addrAC.
  Qed.

  (* the Procrustes objective in terms of tr(O^T A^T C) *)
  Lemma proc_obj n r (A C : 'M[F]_(n, r)) (O : 'M[F]_r) :
    O *m O^T = 1%:M ->
    fro2 (A *m O - C) = fro2 A - 2%:R * \tr (O^T *m (A^T *m C)) + fro2 C.
  Proof.
    move=> OOt; rewrite fro2B fro2_orth //.
    have -> // : \tr (C^T *m (A *m O)) = \tr (O^T *m (A^T *m C)).
    by rewrite -mxtrace_tr !trmx_mul trmxK -mulmxA.
  Qed.

  (* the contract is SUFFICIENT for global optimality *)
  Lemma proc_sufficient n r c (A C : 'M[F]_(n, r)) (O O2 : 'M[F]_r) (L : 'M[F]_(c, r)) :
    O^T *m O = 1%:M -> O^T *m (A^T *m C) = L^T *m L -> O2^T *m O2 = 1%:M ->
    fro2 (A *m O - C) <= fro2 (A *m O2 - C).
  Proof.
    move=> OO HP O22; rewrite !proc_obj; try exact: mulmx1C.
    rewrite ler_add2r ler_add2l ler_opp2 ler_pmul2l ?ltr0n //.
    exact: proc_psd_max HP.
  Qed.

  (* two solutions of the contract share the symmetric factor O^T M *)
  Lemma proc_factor_eq r c1 c2 (M O1 O2 : 'M[F]_r) (L1 : 'M[F]_(c1, r)) (L2 : 'M[F]_(c2, r)) :
    O1^T *m O1 = 1%:M -> O2^T *m O2 = 1%:M ->
    O1^T *m M = L1^T *m L1 -> O2^T *m M = L2^T *m L2 -> O2^T *m M = O1^T *m M.
  Proof.
    move=> O11 O22 H1 H2.
    have tE : \tr (O2^T *m M) = \tr (O1^T *m M).
      by apply/eqP; rewrite eq_le (proc_psd_max O11 O22 H1) (proc_psd_max O22 O11 H2).
    have O1t : O1 *m O1^T = 1%:M by apply: mulmx1C.
    pose Q := O1^T *m O2.
    have QQ : Q *m Q^T = 1%:M.
      by rewrite /Q trmx_mul trmxK -mulmxA (mulmxA O2) (mulmx1C O22) mul1mx.
    have P2 : O2^T *m M = Q^T *m (L1^T *m L1).
      by rewrite -H1 /Q trmx_mul trmxK -mulmxA (mulmxA O1) O1t mul1mx.
    have /fro2_eq0 /subr0_eq LQ : fro2 (L1 - L1 *m Q) = 0.
      rewrite fro2B fro2_orth //.
      have -> : \tr ((L1 *m Q)^T *m L1) = fro2 L1.
        by rewrite trmx_mul -mulmxA -P2 tE H1.
      by rewrite mulr_natl mulr2n opprD addrA subrr sub0r addNr.
    have PQ : L1^T *m L1 = L1^T *m L1 *m Q by rewrite -mulmxA -LQ.
    rewrite P2 H1; apply: trmx_inj.
    by rewrite [LHS]trmx_mul trmxK !trmx_mul !trmxK -PQ.
  Qed.

  Lemma cancel_right a b c (A1 A2 : 'M[F]_(a, b)) (N : 'M[F]_(b, c)) (K : 'M[F]_(c, b)) :
    N *m K = 1%:M -> A1 *m N = A2 *m N -> A1 = A2.
  Proof. by move=> NK /(congr1 (mulmxr K)) /=; rewrite -!mulmxA NK !mulmx1. Qed.

  Lemma rownorm_gramE m q (D1 D2 : 'M[F]_(m, q)) :
    D1 *m D1^T = D2 *m D2^T -> rownorm D1 = rownorm D2.
  Proof.
    move=> H; apply/colP => i; rewrite !mxE; congr Num.sqrt.
    have E (D : 'M[F]_(m, q)) : \sum_j (D i j) ^+ 2 = (D *m D^T) i i.
      by rewrite mxE; apply: eq_bigr => j _; rewrite mxE expr2.
    by rewrite !E H.
  Qed.

  (* the rows of  A - B O  only depend on O through A O^T *)
  Lemma resid_gram m r (A B : 'M[F]_(m, r)) (O : 'M[F]_r) :
    O^T *m O = 1%:M ->
    (A - B *m O) *m (A - B *m O)^T = (A *m O^T - B) *m (A *m O^T - B)^T.
  Proof.
    move=> OO; have OOt : O *m O^T = 1%:M by apply: mulmx1C.
    have -> : A *m O^T - B = (A - B *m O) *m O^T by rewrite mulmxBl -mulmxA OOt mulmx1.
    by rewrite [in RHS]trmx_mul trmxK mulmxA -(mulmxA _ O^T O) OO mulmx1.
  Qed.

  (* for a training source X of full column rank (X^T X invertible) and p <= r (Ep Ep^T = I),
     every solution of the contract gives the same padded GRD rows on any test block T *)
  Lemma grd_determined_mx n m p q r c1 c2 (X : 'M[F]_(n, p)) (T : 'M[F]_(m, p))
        (W : 'M[F]_(p, q)) (Ep : 'M[F]_(p, r)) (Eq : 'M[F]_(q, r)) (O1 O2 : 'M[F]_r)
        (L1 : 'M[F]_(c1, r)) (L2 : 'M[F]_(c2, r)) :
    Ep *m Ep^T = 1%:M -> gram X 0 \in unitmx ->
    O1^T *m O1 = 1%:M -> O2^T *m O2 = 1%:M ->
    O1^T *m ((X *m Ep)^T *m (X *m W *m Eq)) = L1^T *m L1 ->
    O2^T *m ((X *m Ep)^T *m (X *m W *m Eq)) = L2^T *m L2 ->
    rownorm (T *m W *m Eq - T *m Ep *m O1) = rownorm (T *m W *m Eq - T *m Ep *m O2).
  Proof.
    move=> EE Gu O11 O22 H1 H2.
    set M := (X *m Ep)^T *m (X *m W *m Eq) in H1 H2.
    have PE := proc_factor_eq O11 O22 H1 H2.
    have O1t : O1 *m O1^T = 1%:M by apply: mulmx1C.
    have O2t : O2 *m O2^T = 1%:M by apply: mulmx1C.
    have G0 : gram X 0 = X^T *m X by rewrite /gram raddf0 addr0.
    rewrite G0 in Gu.
    have MtE : M^T = (W *m Eq)^T *m (X^T *m X) *m Ep.
      by rewrite /M !trmx_mul !trmxK !mulmxA.
    have Psym : M^T *m O1 = O1^T *m M.
      by apply: trmx_inj; rewrite [LHS]trmx_mul trmxK H1 trmx_mul trmxK.
    have O1P : O1 *m (O1^T *m M) = M by rewrite mulmxA O1t mul1mx.
    have O2P : O2 *m (O2^T *m M) = M by rewrite mulmxA O2t mul1mx.
    have EQ : O1 *m (M^T *m O1) = O2 *m (M^T *m O1) by rewrite Psym O1P -PE O2P.
    pose N := (X^T *m X) *m Ep *m O1.
    pose K := O1^T *m Ep^T *m invmx (X^T *m X).
    have RI : N *m K = 1%:M.
      rewrite /N /K !mulmxA -(mulmxA _ O1 O1^T) O1t mulmx1 -(mulmxA _ Ep Ep^T) EE mulmx1.
      exact: mulmxV.
    have MN : M^T *m O1 = (W *m Eq)^T *m N by rewrite MtE /N !mulmxA.
    rewrite MN in EQ.
    have key : O1 *m (W *m Eq)^T = O2 *m (W *m Eq)^T.
      by apply: (cancel_right RI); rewrite -!mulmxA.
    have keyT : W *m Eq *m O1^T = W *m Eq *m O2^T.
      by have := congr1 trmx key; rewrite !trmx_mul !trmxK.
    apply: rownorm_gramE; rewrite !resid_gram //.
    have -> // : T *m W *m Eq *m O1^T = T *m W *m Eq *m O2^T.
    by rewrite -!(mulmxA T) keyT.
  Qed.
End Procrustes.

(* ================================================================== Part 2 *)
Definition rc_L (F : rcfType) (env : env_mx F) r : 'M[F]_r := env r r 15%N.

Section Contract.
  Variable F : rcfType.
  Variables (n p q r : nat).
  Implicit Types env : env_mx F.

  (* the cross-covariance of the padded Procrustes problem *)
  Definition proc_M env : 'M[F]_r :=
    (Xs_tr n p env *m rc_Ep env p r)^T *m (Xs_tr n p env *m rc_W env p q *m rc_Eq env q r).

  (* what the correspondence evaluates: Omega orthogonal, Omega^T M = L^T L *)
  Definition proc_contract env : Prop :=
    (rc_Om env r)^T *m rc_Om env r = 1%:M /\ eval_mx env (omega_psd_resid n p q r) = 0.

  Lemma omega_psdE env :
    eval_mx env (omega_psd_resid n p q r)
    = (rc_Om env r)^T *m proc_M env - (rc_L env r)^T *m rc_L env r.
  Proof. by rewrite /omega_psd_resid /= proc_mE. Qed.

  Lemma proc_contractP env :
    proc_contract env ->
    (rc_Om env r)^T *m rc_Om env r = 1%:M /\ (rc_Om env r)^T *m proc_M env = (rc_L env r)^T *m rc_L env r.
  Proof. by case=> OO; rewrite omega_psdE => /subr0_eq. Qed.

  (* the contract implies that Omega is a global minimiser of the padded Procrustes problem *)
  Theorem recon_procrustes_sufficient env :
    proc_contract env ->
    forall O2 : 'M[F]_r, O2^T *m O2 = 1%:M ->
      fro2 (Xs_tr n p env *m rc_Ep env p r *m rc_Om env r - Xs_tr n p env *m rc_W env p q *m rc_Eq env q r)
      <= fro2 (Xs_tr n p env *m rc_Ep env p r *m O2 - Xs_tr n p env *m rc_W env p q *m rc_Eq env q r).
  Proof.
    by move=> /proc_contractP [OO HP] O2 O22; apply: proc_sufficient OO HP O22.
  Qed.
End Contract.
Global Opaque omega_psd_resid.

Section Determined.
  Variable F : rcfType.
  Variables (n m p q r : nat).
  Implicit Types env : env_mx F.
  Local Notation grd env := (eval_mx env (grd_prog n m p q r)).

  (* GRD does not depend on WHICH solution of the contract the orthogonal regression returns
     (two environments that differ in Omega, L only) *)
  Theorem recon_grd_determined env env' :
    rc_Xtr env' n p = rc_Xtr env n p -> rc_Xte env' m p = rc_Xte env m p ->
    rc_W env' p q = rc_W env p q ->
    rc_Ep env' p r = rc_Ep env p r -> rc_Eq env' q r = rc_Eq env q r ->
    rc_Ep env p r *m (rc_Ep env p r)^T = 1%:M ->
    gram (Xs_tr n p env) 0 \in unitmx ->
    proc_contract n p q r env -> proc_contract n p q r env' ->
    grd env' = grd env.
  Proof.
    move=> E1 E2 EW EEp EEq EE Gu /proc_contractP [OO HP] /proc_contractP [OO' HP'].
    have X1 : Xs_tr n p env' = Xs_tr n p env by rewrite /Xs_tr E1.
    have X2 : Xs_te n m p env' = Xs_te n m p env by rewrite /Xs_te E1 E2.
    rewrite /proc_M X1 EW EEp EEq in HP'.
    rewrite !grdE X2 EW EEp EEq.
    exact: (grd_determined_mx _ EE Gu OO' OO HP' HP).
  Qed.

  (* GRD is unchanged by a rotation / reflection of the source space, for every pair of widths
     (p <= r: Ep Ep^T = I).  Ridge contract with a unique solution, training source of full
     column rank, Procrustes contract on both sides. *)
  Theorem recon_grd_source_rotation (R : 'M[F]_p) env env' :
    R *m R^T = 1%:M -> rc_Ep env p r *m (rc_Ep env p r)^T = 1%:M ->
    rc_Xtr env' n p = rc_Xtr env n p *m R -> rc_Xte env' m p = rc_Xte env m p *m R ->
    rc_Ytr env' n q = rc_Ytr env n q -> rc_Yte env' m q = rc_Yte env m q ->
    rc_alpha env' = rc_alpha env ->
    rc_Ep env' p r = rc_Ep env p r -> rc_Eq env' q r = rc_Eq env q r ->
    gram (Xs_tr n p env) (rc_alpha env) \in unitmx -> gram (Xs_tr n p env) 0 \in unitmx ->
    eval_mx env (ridge_hyp_prog n p q) = 0 -> eval_mx env' (ridge_hyp_prog n p q) = 0 ->
    proc_contract n p q r env -> proc_contract n p q r env' ->
    grd env' = grd env.
  Proof.
    move=> RR EE E1 E2 E3 E4 Ea EEp EEq Gu Gu0 /ridge_hypE H /ridge_hypE H'.
    move=> /proc_contractP [OO HP] /proc_contractP [OO' HP'].
    have X1 : Xs_tr n p env' = Xs_tr n p env *m R by rewrite /Xs_tr E1 std_orth.
    have X2 : Xs_te n m p env' = Xs_te n m p env *m R by rewrite /Xs_te E1 E2 std_orth.
    have Y1 : Ys_tr n q env' = Ys_tr n q env by rewrite /Ys_tr E3.
    rewrite X1 Y1 Ea in H'.
    have WE := ridge_rot_source RR Gu H H'.
    set Ep := rc_Ep env p r in EE EEp HP *.
    set B := blockrot Ep R.
    have EB : Ep *m B = R *m Ep := E_blockrot R EE.
    have BtB : B^T *m B = 1%:M := blockrot_orth EE RR.
    have RW : R *m rc_W env' p q = rc_W env p q by rewrite WE mulmxA RR mul1mx.
    (* B Omega' solves the contract of the original problem *)
    have OB : (B *m rc_Om env' r)^T *m (B *m rc_Om env' r) = 1%:M.
      by rewrite trmx_mul -mulmxA (mulmxA B^T) BtB mul1mx.
    have HB : (B *m rc_Om env' r)^T
              *m ((Xs_tr n p env *m Ep)^T *m (Xs_tr n p env *m rc_W env p q *m rc_Eq env q r))
              = (rc_L env' r)^T *m rc_L env' r.
      rewrite -HP' /proc_M X1 EEp EEq -/Ep trmx_mul -!mulmxA; congr (_ *m _).
      rewrite (mulmxA R) RW !mulmxA; congr (_ *m _ *m _ *m _).
      by rewrite -trmx_mul -(mulmxA _ Ep B) EB mulmxA.
    rewrite !grdE X2 EEp EEq -/Ep.
    have -> : Xs_te n m p env *m R *m rc_W env' p q = Xs_te n m p env *m rc_W env p q.
      by rewrite -mulmxA RW.
    have -> : Xs_te n m p env *m R *m Ep *m rc_Om env' r
              = Xs_te n m p env *m Ep *m (B *m rc_Om env' r).
      by rewrite -!mulmxA (mulmxA R) -EB !mulmxA.
    exact: (grd_determined_mx _ EE Gu0 OB OO HB HP).
  Qed.

  (* ... and of the target space (q <= r: Eq Eq^T = I), for an estimator with fixed
     regularisation *)
  Theorem recon_grd_target_rotation (R : 'M[F]_q) env env' :
    R *m R^T = 1%:M ->
    rc_Ep env p r *m (rc_Ep env p r)^T = 1%:M -> rc_Eq env q r *m (rc_Eq env q r)^T = 1%:M ->
    rc_Xtr env' n p = rc_Xtr env n p -> rc_Xte env' m p = rc_Xte env m p ->
    rc_Ytr env' n q = rc_Ytr env n q *m R -> rc_Yte env' m q = rc_Yte env m q *m R ->
    rc_alpha env' = rc_alpha env ->
    rc_Ep env' p r = rc_Ep env p r -> rc_Eq env' q r = rc_Eq env q r ->
    gram (Xs_tr n p env) (rc_alpha env) \in unitmx -> gram (Xs_tr n p env) 0 \in unitmx ->
    eval_mx env (ridge_hyp_prog n p q) = 0 -> eval_mx env' (ridge_hyp_prog n p q) = 0 ->
    proc_contract n p q r env -> proc_contract n p q r env' ->
    grd env' = grd env.
  Proof.
    move=> RR EE EEq1 E1 E2 E3 E4 Ea EEp EEq Gu Gu0 /ridge_hypE H /ridge_hypE H'.
    move=> /proc_contractP [OO HP] /proc_contractP [OO' HP'].
    have X1 : Xs_tr n p env' = Xs_tr n p env by rewrite /Xs_tr E1.
    have X2 : Xs_te n m p env' = Xs_te n m p env by rewrite /Xs_te E1 E2.
    have Y1 : Ys_tr n q env' = Ys_tr n q env *m R by rewrite /Ys_tr E3 std_orth.
    rewrite X1 Y1 Ea in H'.
    have WE := ridge_rot_target Gu H H'.
    set Eq := rc_Eq env q r in EEq1 EEq HP *.
    set B := blockrot Eq R.
    have EB : Eq *m B = R *m Eq := E_blockrot R EEq1.
    have BtB : B^T *m B = 1%:M := blockrot_orth EEq1 RR.
    have BBt : B *m B^T = 1%:M := blockrot_orth' EEq1 RR.
    pose O2 := rc_Om env' r *m B^T.
    have O22 : O2^T *m O2 = 1%:M.
      by rewrite /O2 trmx_mul trmxK -mulmxA (mulmxA _^T) OO' mul1mx.
    have HB : O2^T *m ((Xs_tr n p env *m rc_Ep env p r)^T
                        *m (Xs_tr n p env *m rc_W env p q *m Eq))
              = (rc_L env' r *m B^T)^T *m (rc_L env' r *m B^T).
      rewrite [in RHS]trmx_mul trmxK -!mulmxA (mulmxA _^T (rc_L env' r)) -HP'.
      rewrite /proc_M X1 EEp EEq -/Eq WE /O2 trmx_mul trmxK -!mulmxA.
      congr (_ *m (_ *m (_ *m (_ *m _)))).
      by rewrite (mulmxA R) -EB -!mulmxA BBt mulmx1.
    rewrite !grdE X2 EEp EEq -/Eq WE.
    have -> : Xs_te n m p env *m (rc_W env p q *m R) *m Eq
              - Xs_te n m p env *m rc_Ep env p r *m rc_Om env' r
              = (Xs_te n m p env *m rc_W env p q *m Eq
                 - Xs_te n m p env *m rc_Ep env p r *m O2) *m B.
      rewrite mulmxBl /O2 -!mulmxA BtB mulmx1; congr (_ - _).
      by rewrite EB.
    rewrite (rownorm_orth _ BBt).
    exact: (grd_determined_mx _ EE Gu0 O22 OO HB HP).
  Qed.
End Determined.

Section LocalTarget.
  Variable F : rcfType.
  Variables (n m p q k : nat).
  Implicit Types env : env_mx F.

  (* LRE is unchanged by a rotation / reflection of the target space: the neighbours only
     depend on the source, and for the same neighbour set the local ridge solution (unique,
     fixed regularisation) turns with the target *)
  Theorem recon_lre_target_rotation (R : 'M[F]_q) env env' :
    R *m R^T = 1%:M ->
    rc_Xtr env' n p = rc_Xtr env n p -> rc_Xte env' m p = rc_Xte env m p ->
    rc_Ytr env' n q = rc_Ytr env n q *m R -> rc_Yte env' m q = rc_Yte env m q *m R ->
    rc_alpha env' = rc_alpha env -> rc_Sel env' k n = rc_Sel env k n -> rc_ei env' m = rc_ei env m ->
    gram (center (LX n p env k) (LX n p env k)) (rc_alpha env) \in unitmx ->
    eval_mx env (lre_hyp_prog n p q k) = 0 -> eval_mx env' (lre_hyp_prog n p q k) = 0 ->
    (forall i j, (eval_mx env' (sqdist_prog n m p)) i j = (eval_mx env (sqdist_prog n m p)) i j)
    /\ eval_mx env' (lre_prog n m p q k) = eval_mx env (lre_prog n m p q k).
  Proof.
    move=> RR E1 E2 E3 E4 Ea ES Ee Gu /lre_hypE H /lre_hypE H'.
    have X1 : Xs_tr n p env' = Xs_tr n p env by rewrite /Xs_tr E1.
    have X2 : Xs_te n m p env' = Xs_te n m p env by rewrite /Xs_te E1 E2.
    have Y1 : Ys_tr n q env' = Ys_tr n q env *m R by rewrite /Ys_tr E3 std_orth.
    have Y2 : Ys_te n m q env' = Ys_te n m q env *m R by rewrite /Ys_te E3 E4 std_orth.
    have L1 : LX n p env' k = LX n p env k by rewrite /LX ES X1.
    have L2 : LY n q env' k = LY n q env k *m R by rewrite /LY ES Y1 mulmxA.
    split; first by move=> i j; rewrite !sqdistE X1 X2.
    rewrite L1 L2 center_mul Ea in H'.
    rewrite !lreE L1 L2 X2 Y2 Ee cmean_mul (ridge_rot_target Gu H H').
    rewrite !mulmxA -mulmxDl -mulmxBl.
    exact: rownorm_orth.
  Qed.
End LocalTarget.

Section ZeroChecked.
  Variable F : rcfType.
  Variables (n m p : nat).

  (* GRD(X, XQ) = 0 with the global optimality of Omega DERIVED from the checked contract *)
  Theorem recon_grd_zero_checked (env : env_mx F) (Q : 'M[F]_p) :
    Q *m Q^T = 1%:M ->
    rc_Ytr env n p = rc_Xtr env n p *m Q -> rc_Yte env m p = rc_Xte env m p *m Q ->
    0 < varsum (rc_Xtr env n p) ->
    rc_alpha env = 0 -> eval_mx env (ridge_hyp_prog n p p) = 0 ->
    gram (Xs_tr n p env) 0 \in unitmx ->
    rc_Ep env p p = 1%:M -> rc_Eq env p p = 1%:M ->
    proc_contract n p p p env ->
    eval_mx env (grd_prog n m p p p) = 0.
  Proof.
    move=> QQ Etr Ete vx a0 Hr Gu EEp EEq Hc.
    apply: (recon_grd_zero QQ Etr Ete vx a0 Hr Gu EEp EEq) => Om' OO'.
    by have := recon_procrustes_sufficient Hc OO'; rewrite EEp EEq !mulmx1.
  Qed.
End ZeroChecked.

(* ================================================================== non-vacuity *)
Section NonVacuity2.
  Variable F : rcfType.

  (* the environment of tiny_recon_env (X = Y = [[0],[2]], W = 1, alpha = 0) with
     Omega = E_p = E_q = 1 and L = sqrt 2:  M = Xs^T Xs = 2 *)
  Definition tiny_recon_env2 : env_mx F :=
    fun a b x => if x == 15%N then \matrix_(i, j) Num.sqrt 2%:R
                 else if [|| x == 5%N, x == 6%N | x == 7%N] then \matrix_(i, j) 1
                 else tiny_recon_env F a b x.

  Lemma tiny_recon2_ok :
    let env := tiny_recon_env2 in
    [/\ proc_contract 2 1 1 1 env, rc_Ep env 1 1 *m (rc_Ep env 1 1)^T = 1%:M,
        rc_Eq env 1 1 *m (rc_Eq env 1 1)^T = 1%:M, gram (Xs_tr 2 1 env) 0 \in unitmx
      & rc_alpha env = 0 /\ eval_mx env (ridge_hyp_prog 2 1 1) = 0].
  Proof.
    move=> env.
    have [_ _ _ [vx _] [a0 /ridge_hypE Hr Gu]] := tiny_recon_ok F.
    have c1 : (\matrix_(i, j) 1 : 'M[F]_1) = 1%:M.
      by apply/matrixP => i j; rewrite !mxE !ord1 eqxx.
    have EO : rc_Om env 1 = 1%:M by rewrite /rc_Om /env /tiny_recon_env2 /= c1.
    have EEp : rc_Ep env 1 1 = 1%:M by rewrite /rc_Ep /env /tiny_recon_env2 /= c1.
    have EEq : rc_Eq env 1 1 = 1%:M by rewrite /rc_Eq /env /tiny_recon_env2 /= c1.
    have EL : rc_L env 1 = (Num.sqrt 2%:R)%:M.
      by apply/matrixP => i j; rewrite /rc_L /env /tiny_recon_env2 /= !mxE !ord1 eqxx mulr1n.
    have EW : rc_W env 1 1 = 1%:M.
      by apply/matrixP => i j; rewrite !mxE /= !ord1 eqxx.
    have EX : Xs_tr 2 1 env = Xs_tr 2 1 (tiny_recon_env F) by [].
    split.
    - split; first by rewrite EO trmx1 mulmx1.
      rewrite omega_psdE /proc_M EO EEp EEq EW EL trmx1 !mulmx1 mul1mx EX.
      rewrite tr_scalar_mx -scalar_mxM -expr2 sqr_sqrtr ?ler0n //.
      rewrite (mx11_scalar (_ *m _)).
      have -> : ((Xs_tr 2 1 (tiny_recon_env F))^T *m Xs_tr 2 1 (tiny_recon_env F)) ord0 ord0
                = fro2 (Xs_tr 2 1 (tiny_recon_env F)).
        by rewrite /fro2 /mxtrace big_ord1.
      by rewrite /Xs_tr std_fro2 // subrr.
    - by rewrite EEp trmx1 mulmx1.
    - by rewrite EEq trmx1 mulmx1.
    - exact: Gu.
    - split; first exact: a0.
      by apply/ridge_hypE; exact: Hr.
  Qed.
End NonVacuity2.
