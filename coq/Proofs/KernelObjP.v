(* C12 (extension) — statements about the object state machines of Model/KernelObj.v, for
   every interpretation of the numerics (stdlib style). *)
From Coq Require Import List Bool Arith.
From Verif Require Import KernelObj.
Import ListNotations.

Section KnObjP.
  Variable T : Type.
  Variables nrows ncols : T -> nat.
  Variable norm_w : T -> T.
  Variable fit_num : bool -> bool -> T -> option T -> T * T * T.
  Variable tr_num : bool -> option T -> T -> T -> T -> T -> T.

  Notation obj := (kn_obj T).
  Notation do_fit := (kn_do_fit T nrows ncols norm_w fit_num).
  Notation do_transform := (kn_do_transform T nrows ncols tr_num).
  Notation step := (kn_step T nrows ncols norm_w fit_num tr_num).
  Notation run := (kn_run T nrows ncols norm_w fit_num tr_num).
  Notation w_ok := (kn_w_ok T nrows).

  (* a successful fit overwrites every fitted attribute: the object afterwards is the one a
     NEW estimator with the same constructor flags would be after the same fit *)
  Lemma kn_refit_fresh (o : obj) K w :
    w_ok K w = true ->
    do_fit o K w = do_fit (kn_new T (o_center T o) (o_trace T o)) K w.
  Proof.
    intros Hw; unfold kn_do_fit; rewrite Hw; cbn [o_center o_trace kn_new].
    destruct (fit_num _ _ K _) as [[r a] s]; reflexivity.
  Qed.

  Lemma kn_fit_accepts (o : obj) K w :
    w_ok K w = true -> snd (do_fit o K w) = RDone.
  Proof.
    intros Hw; unfold kn_do_fit; rewrite Hw.
    destruct (fit_num _ _ K _) as [[r a] s]; reflexivity.
  Qed.

  (* ... hence everything a history does after a successful fit is independent of what
     happened before it (only the flags in force at the fit matter) *)
  Lemma kn_history_irrelevant (h tail : list (kn_op T)) (o0 : obj) K w :
    w_ok K w = true ->
    let o := fst (run o0 h) in
    run o (OFit K w :: tail) = run (kn_new T (o_center T o) (o_trace T o)) (OFit K w :: tail).
  Proof.
    intros Hw o; cbn [kn_run kn_step]. rewrite (kn_refit_fresh o K w Hw). reflexivity.
  Qed.

  (* same for fit_transform *)
  Lemma kn_history_irrelevant_ft (h tail : list (kn_op T)) (o0 : obj) K w :
    w_ok K w = true ->
    let o := fst (run o0 h) in
    run o (OFitTransform K w :: tail)
    = run (kn_new T (o_center T o) (o_trace T o)) (OFitTransform K w :: tail).
  Proof.
    intros Hw o; cbn [kn_run kn_step]. rewrite (kn_refit_fresh o K w Hw). reflexivity.
  Qed.

  (* a rejected fit (ValueError) leaves the fitted attributes and the flags as they were *)
  Lemma kn_rejected_fit (o : obj) K w :
    w_ok K w = false ->
    let (o1, r) := do_fit o K w in
    r = RRaise /\ o_attrs T o1 = o_attrs T o /\ o_center T o1 = o_center T o /\ o_trace T o1 = o_trace T o.
  Proof. intros Hw; unfold kn_do_fit; rewrite Hw; cbn; auto. Qed.

  (* transform never changes the object *)
  Lemma kn_transform_pure (o : obj) Kt : fst (do_transform o Kt) = o.
  Proof.
    unfold kn_do_transform. destruct (o_attrs T o) as [a|]; [|reflexivity].
    destruct (o_nfeat T o) as [nf|]; [|reflexivity].
    match goal with |- context [if ?b then _ else _] => destruct b end; reflexivity.
  Qed.

  (* an estimator that was never (successfully) fitted rejects transform *)
  Lemma kn_unfitted_raises (o : obj) Kt :
    o_attrs T o = None -> snd (do_transform o Kt) = RRaise.
  Proof. intros H; unfold kn_do_transform; rewrite H; reflexivity. Qed.

  (* fit_transform is fit followed by transform of the same kernel: same final object, and the
     value returned is the one transform returns *)
  Lemma kn_fit_transform_steps (o : obj) K w :
    w_ok K w = true ->
    let (o2, rs) := run o [OFit K w; OTransform K] in
    run o [OFitTransform K w] = (o2, [last rs RDone]).
  Proof.
    intros Hw; cbn [kn_run kn_step].
    pose proof (kn_fit_accepts o K w Hw) as Ha.
    destruct (do_fit o K w) as [o1 r]; cbn [snd] in Ha; subst r.
    destruct (do_transform o1 K) as [o2 r2]; cbn; reflexivity.
  Qed.

  (* set_params touches the flags only *)
  Lemma kn_set_keeps_attrs (o : obj) c t :
    o_attrs T (fst (step o (OSet c t))) = o_attrs T o.
  Proof. reflexivity. Qed.
End KnObjP.

Section SkObjP.
  Variables T C H : Type.
  Variables nrows ncols : T -> nat.
  Variable sfit_num : bool -> bool -> C -> T -> T -> H -> option T -> T * T.
  Variable str_num : T -> T -> T -> T.

  Notation obj := (sk_obj T C).
  Notation do_fit := (sk_do_fit T C nrows ncols H sfit_num).
  Notation do_transform := (sk_do_transform T C ncols str_num).
  Notation run := (sk_run T C nrows ncols H sfit_num str_num).
  Notation fit_ok := (sk_fit_ok T nrows ncols).

  Lemma sk_refit_fresh (o : obj) Knm Kmm h w :
    fit_ok Knm Kmm w = true ->
    do_fit o Knm Kmm h w = do_fit (sk_new T C (so_center T C o) (so_trace T C o) (so_rcond T C o)) Knm Kmm h w.
  Proof.
    intros Hw; unfold sk_do_fit; rewrite Hw; cbn [so_center so_trace so_rcond sk_new].
    destruct (sfit_num _ _ _ Knm Kmm h w) as [r s]; reflexivity.
  Qed.

  Lemma sk_history_irrelevant (hist tail : list (sk_op T C H)) (o0 : obj) Knm Kmm h w :
    fit_ok Knm Kmm w = true ->
    let o := fst (run o0 hist) in
    run o (SFit Knm Kmm h w :: tail)
    = run (sk_new T C (so_center T C o) (so_trace T C o) (so_rcond T C o)) (SFit Knm Kmm h w :: tail).
  Proof.
    intros Hw o; cbn [sk_run sk_step]. rewrite (sk_refit_fresh o Knm Kmm h w Hw). reflexivity.
  Qed.

  (* the three shape checks precede every assignment: a rejected fit changes nothing *)
  Lemma sk_rejected_fit (o : obj) Knm Kmm h w :
    fit_ok Knm Kmm w = false -> do_fit o Knm Kmm h w = (o, RRaise).
  Proof. intros Hw; unfold sk_do_fit; rewrite Hw; reflexivity. Qed.

  Lemma sk_transform_pure (o : obj) Kt : fst (do_transform o Kt) = o.
  Proof.
    unfold sk_do_transform. destruct (so_attrs T C o) as [a|]; [|reflexivity].
    match goal with |- context [if ?b then _ else _] => destruct b end; reflexivity.
  Qed.

  (* transform accepts exactly the kernels with n_active_ columns (of the LAST fit) *)
  Lemma sk_transform_accepts (o : obj) Kt a :
    so_attrs T C o = Some a ->
    snd (do_transform o Kt) = if Nat.eqb (ncols Kt) (s_nact T a)
                              then ROut (str_num (s_rows T a) (s_scale T a) Kt) else RRaise.
  Proof.
    intros Ha; unfold sk_do_transform; rewrite Ha.
    destruct (Nat.eqb (ncols Kt) (s_nact T a)); reflexivity.
  Qed.

  Lemma sk_fit_transform_steps (o : obj) Knm Kmm h w :
    fit_ok Knm Kmm w = true ->
    let (o2, rs) := run o [SFit Knm Kmm h w; STransform Knm] in
    run o [SFitTransform Knm Kmm h w] = (o2, [last rs RDone]).
  Proof.
    intros Hw; cbn [sk_run sk_step]. unfold sk_do_fit; rewrite Hw.
    destruct (sfit_num _ _ _ Knm Kmm h w) as [r s].
    match goal with |- context [sk_do_transform ?a ?b ?c ?d ?e ?f] => destruct (sk_do_transform a b c d e f) as [o2 r2] end.
    cbn; reflexivity.
  Qed.
End SkObjP.
