(* C11 (extension, round 3) — invariants of the scaler object (Model/ScalerObjMx.v) over
   arbitrary sequences of set_params / fit / transform / inverse_transform calls. *)
From mathcomp Require Import all_ssreflect all_algebra.
From Verif Require Import MExp MExpMx MxBox MxBoxP Scaler ScalerMx ScalerP ScalerObjMx.
Set Implicit Arguments.
Unset Strict Implicit.
Unset Printing Implicit Defensive.
Import Order.Theory GRing.Theory Num.Theory.
Local Open Scope ring_scope.

Section RoundTrip.
  Variable F : rcfType.
  Variables (d k : nat) (st : 'rV[F]_d * 'rV[F]_d).
  Hypothesis s0 : forall j, st.2 ord0 j != 0.

  Lemma sc_inverseK_nz (Y : 'M[F]_(k, d)) : sc_inverse_mx st (sc_transform_mx st Y) = Y.
  Proof.
    by apply/matrixP => i j; rewrite sc_inverse_mxE sc_transform_mx_ij divfK // subrK.
  Qed.

  Lemma sc_transformK_nz (T : 'M[F]_(k, d)) : sc_transform_mx st (sc_inverse_mx st T) = T.
  Proof.
    by apply/matrixP => i j; rewrite sc_transform_mx_ij sc_inverse_mxE addrK mulfK.
  Qed.
End RoundTrip.

Section ObjP.
  Variable F : rcfType.
  Variable a0 : F.
  Hypothesis a0_pos : 0 < a0.
  Notation so_par := (so_par F).
  Notation so_obj := (so_obj F).
  Notation so_op := (so_op F).

  (* whatever fit stores — accepted or rejected by the guard — is safe to divide by *)
  Lemma so_fit_good (p : so_par) n d (X : 'M[F]_(n, d)) hw (w : 'cV[F]_n) f out :
    par_ok a0 p -> hw ==> (wsum w != 0) ->
    so_fit p X hw w = (Some f, out) -> fit_good a0 f.
  Proof.
    case/andP => aa r0 wok; rewrite /so_fit.
    have at0 : 0 < p_atol p by apply: lt_le_trans aa.
    case E: (sc_fit_mx _ _ _ _ _) => [st|]; last first.
      case: (n < 2)%N => // -[<- _] j /=; rewrite mxE; split; [exact: ltr01 | by left].
    case=> <- _ j /=.
    have ok : sc_wok (so_cfg p hw) w by [].
    have [n1 S0 g e1 e2] := fit_some ok E.
    split; first by rewrite e2; apply: (scale_of_pos at0 r0 g).
    case ws: (p_ws p); last by left; rewrite e2 /scale_of /= ws mxE.
    right; have := sc_scale_bounded ok E ws (ltW at0) r0.
    case: (column_wise _) => /(_ j) [_ H]; apply: le_trans H; apply: le_trans aa _.
      by rewrite ler_addl mulr_ge0.
    by rewrite ler_addr mulr_ge0.
  Qed.

  Lemma so_step_good (o : so_obj) (op : so_op) :
    obj_good a0 o -> op_ok a0 op -> obj_good a0 (so_step o op).1.
  Proof.
    case=> pk fk; case: op => [p|n d X hw w|k c Y|k c T] /= okop.
    - by split.
    - case E: (so_fit _ _ _ _) => [[f|] out] //=; split=> // f' [<-].
      exact: (so_fit_good pk okop E).
    - by case: (o_fit o) => [f|] //=; case: (c == f_d f).
    - by case: (o_fit o) => [f|] //=; case: (c == f_d f).
  Qed.

  Lemma so_run_good (ops : seq so_op) (o : so_obj) :
    obj_good a0 o -> all (op_ok a0) ops -> obj_good a0 (so_run o ops).1.
  Proof.
    elim: ops o => [|op ops IH] o //= og /andP [ok1 okr].
    have := so_step_good og ok1; case: (so_step o op) => o1 out /= og1.
    by have := IH o1 og1 okr; case: (so_run o1 ops).
  Qed.

  (* the invariant, from a freshly constructed estimator *)
  Lemma so_reachable_scale (p0 : so_par) (ops : seq so_op) f :
    par_ok a0 p0 -> all (op_ok a0) ops ->
    o_fit (so_run (SoObj p0 None) ops).1 = Some f -> fit_good a0 f.
  Proof.
    move=> pk okr; have og : obj_good a0 (SoObj p0 None) by split.
    by case: (so_run_good og okr) => _; apply.
  Qed.

  (* in such a state transform and inverse_transform return matrices and undo each other *)
  Lemma so_roundtrip (o : so_obj) f k (Y : 'M[F]_(k, f_d f)) :
    o_fit o = Some f -> fit_good a0 f ->
    let T := sc_transform_mx (f_st f) Y in
    [/\ so_step o (OpTransform Y) = (o, OutMat (box T)),
        so_step o (OpInverse T) = (o, OutMat (box Y))
      & so_step o (OpTransform (sc_inverse_mx (f_st f) Y)) = (o, OutMat (box Y))].
  Proof.
    move=> E fg /=; rewrite E eqxx !unbox_box.
    have s0 j : (f_st f).2 ord0 j != 0 by apply: lt0r_neq0; case: (fg j).
    by rewrite sc_inverseK_nz // sc_transformK_nz.
  Qed.

  Lemma so_reachable_roundtrip (p0 : so_par) (ops : seq so_op) f :
    par_ok a0 p0 -> all (op_ok a0) ops ->
    let o := (so_run (SoObj p0 None) ops).1 in
    o_fit o = Some f ->
    forall (k : nat) (Y : 'M[F]_(k, f_d f)),
      let T := sc_transform_mx (f_st f) Y in
      [/\ so_step o (OpTransform Y) = (o, OutMat (box T)),
          so_step o (OpInverse T) = (o, OutMat (box Y))
        & so_step o (OpTransform (sc_inverse_mx (f_st f) Y)) = (o, OutMat (box Y))].
  Proof.
    move=> pk okr o E k Y.
    exact: (so_roundtrip Y E (so_reachable_scale pk okr E)).
  Qed.

  (* transform / inverse_transform: which of the three outcomes, in any state *)
  Lemma so_transform_outcome (o : so_obj) k c (Y : 'M[F]_(k, c)) :
    (so_step o (OpTransform Y)).1 = o
    /\ match (so_step o (OpTransform Y)).2, (so_step o (OpInverse Y)).2 with
       | OutNotFitted, OutNotFitted => o_fit o = None
       | OutValueError, OutValueError => exists2 f, o_fit o = Some f & c != f_d f
       | OutMat _, OutMat _ => exists2 f, o_fit o = Some f & c = f_d f
       | _, _ => False
       end.
  Proof.
    rewrite /=; case E: (o_fit o) => [f|] //=; case ce: (c == f_d f) => /=; split=> //.
      by exists f => //; apply/eqP.
    by exists f => //; rewrite ce.
  Qed.
End ObjP.

(* a fit with at least 2 rows overwrites every fitted attribute: what is stored and what is
   returned depends on the current parameters and the arguments only, never on earlier
   fits (no stale state) *)
Lemma so_refit_fresh (F : rcfType) (o o' : so_obj F) n d (X : 'M[F]_(n, d)) hw (w : 'cV[F]_n) :
  o_par o = o_par o' -> (1 < n)%N ->
  so_step o (OpFit X hw w) = so_step o' (OpFit X hw w)
  /\ isSome (o_fit (so_step o (OpFit X hw w)).1).
Proof.
  case: o o' => [p fo] [p' fo'] /= <- n1; rewrite /so_fit ltnNge n1 /=.
  by case: (sc_fit_mx _ _ _ _ _).
Qed.

(* with fewer than 2 rows nothing is touched *)
Lemma so_fit_small (F : rcfType) (o : so_obj F) n d (X : 'M[F]_(n, d)) hw (w : 'cV[F]_n) :
  (n < 2)%N -> so_step o (OpFit X hw w) = (o, OutValueError F).
Proof. by move=> n1; rewrite /= /so_fit /sc_fit_mx n1. Qed.

(* the state a rejected (re)fit leaves behind: fitted, the NEW mean_, scale_ = 1 *)
Lemma so_fit_rejected (F : rcfType) (o : so_obj F) n d (X : 'M[F]_(n, d)) hw (w : 'cV[F]_n) :
  (1 < n)%N -> sc_fit_mx (so_cfg (o_par o) hw) (p_rtol (o_par o)) (p_atol (o_par o)) X w = None ->
  exists f, [/\ so_step o (OpFit X hw w) = (SoObj (o_par o) (Some f), OutValueError F),
                f_n f = n, f_arr f = false
              & exists e : f_d f = d,
                  castmx (erefl, e) (f_st f).2 = const_mx 1
                  /\ castmx (erefl, e) (f_st f).1
                     = eval_mx (sc_env_fit_mx X w) (sc_mean (so_cfg (o_par o) hw) n d)].
Proof.
  move=> n1 E; rewrite /= /so_fit E ltnNge n1 /=.
  eexists; split; [reflexivity | by [] | by [] |].
  by exists erefl; rewrite !castmx_id.
Qed.

(* non-vacuity: a concrete trace over every real closed field — fit (accepted), refit on
   constant data (rejected by the guard), transform with the wrong and the right width *)
Lemma so_nonvacuous (F : rcfType) :
  let p : so_par F := SoPar true true true 0 (2%:R^-1) in
  let X : 'M[F]_(2, 1) := \matrix_(i, j) (i : nat)%:R *+ 2 in
  let C : 'M[F]_(2, 1) := const_mx 1 in
  let Y2 : 'M[F]_(1, 2) := 0 in
  let ops := [:: OpFit X false 0; OpFit C false 0; OpTransform Y2; OpTransform C] in
  par_ok (2%:R^-1) p /\ all (op_ok (2%:R^-1)) ops
  /\ exists f B, [/\ (so_run (SoObj p None) [:: OpFit X false 0]).2 = [:: OutSelf F],
                    o_fit (so_run (SoObj p None) ops).1 = Some f,
                    (so_run (SoObj p None) ops).2
                    = [:: OutSelf F; OutValueError F; OutValueError F; OutMat B]
                  & f_arr f = false].
Proof.
  move=> p X C Y2 ops; split; first by rewrite /par_ok /= !lexx.
  split=> //.
  have [_ e] := sc_nonvacuous F.
  have eC : sc_fit_mx (so_cfg p false) 0 (2%:R^-1) C 0 = None.
    have ok : sc_wok (so_cfg p false) (0 : 'cV[F]_2) by [].
    have H : [exists j, (wvar (sc_effw (so_cfg p false) 0) C) ord0 j
                        < 2%:R^-1 + `|(wmean (sc_effw (so_cfg p false) 0) C) ord0 j| * 0].
      apply/existsP; exists ord0.
      suff -> : (wvar (sc_effw (so_cfg p false) 0) C) ord0 ord0 = 0.
        by rewrite mulr0 addr0 invr_gt0 ltr0n.
      rewrite wvarE /sc_effw /= !wmean_ones !mxE big1 ?mul0r // => i _.
      rewrite !mxE (eq_bigr (fun=> 1)) => [|l _]; last by rewrite mxE.
      by rewrite sumr_const card_ord divff ?subrr ?expr0n // pnatr_eq0.
    have := sc_rejected_iff 0 (2%:R^-1) C ok; rewrite /= H /=.
    by case: (sc_fit_mx _ _ _ _ _).
  rewrite /ops /= /so_fit /= e /= eC /=.
  by eexists; eexists; split; reflexivity.
Qed.
