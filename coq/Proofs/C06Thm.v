(* C06: VoronoiFPS = plain FPS for every branch schedule. *)
From Verif Require Import ListX Greedy FPS Voronoi ListXP GreedyP FPSP FPSInst GeomP VoronoiP SimP C02Thm.

Section C06.
  Variable cs : list (list Z).
  Variable d : nat.
  Hypothesis Hdim : dims d cs.
  Variable br : nat -> nat -> bool.
  Variable ycand : option (list (list Z)).
  Notation n := (length cs).
  Notation dist := (fps_dist cs).

  Definition VR (vs : vst) (fs : dst) (sl : list nat) : Prop :=
    VInv cs vs sl /\ haus fs = v_haus vs /\ hsel fs = v_hsel vs.

  Lemma VR_score vs fs sl : VR vs fs sl -> vscore vs = dscore fs.
  Proof. intros (_ & H & _). unfold vscore, dscore. now rewrite H. Qed.

  Lemma VR_len vs fs sl : VR vs fs sl -> length (vscore vs) = n.
  Proof. intros ((_ & _ & H & _) & _). unfold vscore. now rewrite map_length. Qed.

  Lemma VR_upd vs fs sl i :
    VR vs fs sl -> (i < n)%nat ->
    VR (vupd cs br vs i) (dupd (fps_norms cs) (fps_cross cs) fs i) (sl ++ [i]).
  Proof.
    intros (HV & Hh & Hs) Hi.
    destruct (vupd_inv cs d Hdim br vs sl i HV Hi) as (HV' & Hhaus & Hhsel).
    split; [exact HV'|]. split.
    - cbn [dupd haus]. rewrite Hhaus, Hh.
      destruct HV as (_ & _ & _ & _ & _ & Ht & _). rewrite Ht.
      rewrite (fps_newdist cs d Hdim i Hi). unfold new_tab.
      rewrite map2_map_l, map2_map_r, map2_same. reflexivity.
    - cbn [dupd hsel]. rewrite Hhsel, Hh, Hs. reflexivity.
  Qed.

  Lemma VR_init : VR (vst0 cs) (dst0 n) [].
  Proof.
    split; [|split; reflexivity].
    unfold VInv, vst0; cbn.
    split; [reflexivity|]. split; [constructor|]. split; [apply repeat_length|].
    split; [apply repeat_length|]. split; [apply repeat_length|]. split.
    - generalize 0%nat. generalize (length cs). intros m. induction m as [|m IH]; intros k; cbn;
        [reflexivity|f_equal; apply IH].
    - congruence.
  Qed.

  Notation gs := (gsim vst dst VR).

  Lemma init_sim i0 : (i0 < n)%nat ->
    gs (vor_init cs br ycand i0) (fps_init cs ycand [i0]).
  Proof.
    intros Hi. unfold vor_init, vor_post, fps_init. cbn [fold_left].
    apply (post_sim vst dst (vupd cs br) (dupd (fps_norms cs) (fps_cross cs)) cs ycand VR VR_upd).
    - unfold gsim; cbn. split; [reflexivity|]. split; [reflexivity|]. split; [reflexivity|].
      split; [reflexivity|]. apply VR_init.
    - exact Hi.
  Qed.

  (* main statement, for every branch oracle *)
  Theorem voronoi_equals_fps i0 t niter :
    (i0 < n)%nat ->
    let rv := vor_fit cs br ycand i0 t niter in
    let rf := fps_fit cs ycand [i0] t niter in
    sel (fst rv) = sel (fst rf) /\ xsel (fst rv) = xsel (fst rf) /\ ysel (fst rv) = ysel (fst rf) /\
    v_haus (sst (fst rv)) = haus (sst (fst rf)) /\
    vor_select_distance (fst rv) = select_distance (fst rf) /\
    snd rv = snd rf.
  Proof.
    intros Hi rv rf. subst rv rf. unfold vor_fit, vor_run, fps_fit, fps_run.
    pose proof (init_sim i0 Hi) as Hs0.
    assert (Hk : length (sel (vor_init cs br ycand i0)) = length (sel (fps_init cs ycand [i0])))
      by (destruct Hs0 as (A & _); now rewrite A).
    rewrite Hk.
    pose proof (run_sim vst dst vscore dscore (vupd cs br) (dupd (fps_norms cs) (fps_cross cs)) cs ycand
                      VR VR_score VR_len VR_upd t
                      (niter - length (sel (fps_init cs ycand [i0]))) _ _ Hs0) as Hsim.
    set (r1 := run vst vscore (vupd cs br) cs ycand t
                   (niter - length (sel (fps_init cs ycand [i0]))) (vor_init cs br ycand i0)) in *.
    set (r2 := run dst dscore (dupd (fps_norms cs) (fps_cross cs)) cs ycand t
                   (niter - length (sel (fps_init cs ycand [i0]))) (fps_init cs ycand [i0])) in *.
    destruct Hsim as ((A & B & Cc & D & E) & F).
    destruct E as (_ & Hh & Hhs).
    split; [exact A|]. split; [exact B|]. split; [exact Cc|]. split; [symmetry; exact Hh|].
    split; [|exact F].
    unfold vor_select_distance, select_distance, vor_g, fps_g in *. rewrite A, Hhs. reflexivity.
  Qed.

  (* the cell invariant holds after every fit: each candidate's recorded cell centre is
     selected and realises its table entry *)
  Theorem voronoi_cells i0 t niter :
    (i0 < n)%nat ->
    let g := fst (vor_fit cs br ycand i0 t niter) in
    VInv cs (sst g) (sel g).
  Proof.
    intros Hi g. subst g. unfold vor_fit, vor_run.
    pose proof (init_sim i0 Hi) as Hs0.
    destruct (run_sim vst dst vscore dscore (vupd cs br) (dupd (fps_norms cs) (fps_cross cs)) cs ycand
                      VR VR_score VR_len VR_upd t
                      (niter - length (sel (vor_init cs br ycand i0))) _ _ Hs0) as ((A & B & Cc & D & E) & F).
    destruct E as (HV & _). exact HV.
  Qed.

  (* warm-started continuation preserves the correspondence: any chain of fits *)
  Theorem voronoi_warm g1 g2 t niter :
    gs g1 g2 ->
    gs (fst (vor_run cs br ycand t niter g1)) (fst (fps_run cs ycand t niter g2)) /\
    snd (vor_run cs br ycand t niter g1) = snd (fps_run cs ycand t niter g2).
  Proof.
    intros H. unfold vor_run, fps_run.
    assert (Hk : length (sel g1) = length (sel g2)) by (destruct H as (A & _); now rewrite A).
    rewrite Hk.
    exact (run_sim vst dst vscore dscore (vupd cs br) (dupd (fps_norms cs) (fps_cross cs)) cs ycand
                   VR VR_score VR_len VR_upd t (niter - length (sel g2)) g1 g2 H).
  Qed.
End C06.

(* ---- the calibrated switching point is always in [0,1) ------------------------------------ *)
From Verif Require Import VorCalib.

Lemma calib_range fuel outs k lo :
  0 <= lo < 2 ^ Z.of_nat k ->
  let '(k', lo') := calib fuel outs k lo in 0 <= lo' < 2 ^ Z.of_nat k'.
Proof.
  revert k lo; induction fuel as [|f IH]; intros k lo H; cbn [calib]; [exact H|].
  destruct (calib_continue k); [|exact H].
  apply IH. rewrite Nat2Z.inj_succ, Z.pow_succ_r by lia. destruct (outs k); lia.
Qed.

Lemma calibrate_terminates outs : fst (calibrate outs) = 7%nat.
Proof. unfold calibrate. cbn [calib]. unfold calib_continue. cbn. reflexivity. Qed.

Theorem calibrate_range outs :
  let '(k, lo) := calibrate outs in k = 7%nat /\ 0 <= lo < 128.
Proof.
  pose proof (calibrate_terminates outs) as Hk.
  pose proof (calib_range 8 outs 0 0 ltac:(cbn; lia)) as Hr. fold (calibrate outs) in Hr.
  destruct (calibrate outs) as [k lo]. cbn in Hk. subst k. split; [reflexivity|].
  change (2 ^ Z.of_nat 7) with 128 in Hr. exact Hr.
Qed.

(* the STORED value (lower if lower > 0 else top) is k/128 with 0 < k < 128 *)
Theorem calibrate_stored_range outs :
  let '(k, v) := calibrate_stored outs in k = 7%nat /\ 0 < v < 128.
Proof.
  unfold calibrate_stored. pose proof (calibrate_range outs) as H.
  destruct (calibrate outs) as [k lo]. destruct H as (-> & Hr). cbn [calib_store].
  split; [reflexivity|]. destruct (0 <? lo) eqn:E; [apply Z.ltb_lt in E|apply Z.ltb_ge in E]; lia.
Qed.
