(* C05 — proofs about the rejection branches of KernelPCovR.fit (Model/KPCovRGuard.v).  Stdlib style. *)
From Coq Require Import ZArith Bool Lia.
From Verif Require Import KPCovRGuard.
Open Scope Z_scope.

(* the regressor argument passes checks 1-3 *)
Definition regressor_ok (g : gin) : Prop :=
  match g_reg g with
  | GNone | GPre => True
  | GOther => False
  | GKrr m f =>
      m = true /\
      match f with
      | None => True
      | Some (d0, nd, cols) => d0 = g_d g /\ nd = g_yndim g /\ (g_yndim g = 2 -> cols = g_p g)
      end
  end.

Definition ncomp_ok (g : gin) : Prop := 0 <= ncomp g <= g_n g.

Lemma guard_ncomp_spec g :
  (guard_ncomp g = Accept <-> ncomp_ok g) /\ (guard_ncomp g = RejNComponents <-> ~ ncomp_ok g) /\
  (guard_ncomp g = Accept \/ guard_ncomp g = RejNComponents).
Proof.
  unfold guard_ncomp, ncomp_ok.
  destruct (0 <=? ncomp g) eqn:Ha; destruct (ncomp g <=? g_n g) eqn:Hb; cbn;
    try apply Z.leb_le in Ha; try apply Z.leb_le in Hb;
    try apply Z.leb_gt in Ha; try apply Z.leb_gt in Hb;
    repeat split; intros; try discriminate; try lia; auto.
Qed.

(* fit goes through iff the regressor argument is acceptable and 0 <= n_components_ <= n_samples *)
Theorem fit_accepts_iff g : fit_guard g = Accept <-> regressor_ok g /\ ncomp_ok g.
Proof.
  destruct (guard_ncomp_spec g) as [Hacc [_ _]].
  unfold fit_guard, regressor_ok.
  destruct (g_reg g) as [| | |m [[[d0 nd] cols]|]].
  - rewrite Hacc; tauto.
  - rewrite Hacc; tauto.
  - split; [discriminate | tauto].
  - destruct m.
    + unfold guard_krr.
      destruct (d0 =? g_d g) eqn:H1; cbn [negb].
      2:{ apply Z.eqb_neq in H1. split; [discriminate | tauto]. }
      apply Z.eqb_eq in H1.
      destruct (nd =? g_yndim g) eqn:H2; cbn [negb].
      2:{ apply Z.eqb_neq in H2. split; [discriminate | tauto]. }
      apply Z.eqb_eq in H2.
      destruct (g_yndim g =? 2) eqn:H3; cbn [andb].
      * apply Z.eqb_eq in H3.
        destruct (cols =? g_p g) eqn:H4; cbn [negb].
        -- apply Z.eqb_eq in H4. rewrite Hacc. tauto.
        -- apply Z.eqb_neq in H4. split; [discriminate | tauto].
      * apply Z.eqb_neq in H3. rewrite Hacc. tauto.
    + split; [discriminate | intros [[H _] _]; discriminate].
  - destruct m.
    + rewrite Hacc; tauto.
    + split; [discriminate | intros [[H _] _]; discriminate].
Qed.

(* the n_components error is only ever reported for an acceptable regressor argument: the
   regressor checks come first *)
Theorem ncomp_rejection_iff g : fit_guard g = RejNComponents <-> regressor_ok g /\ ~ ncomp_ok g.
Proof.
  destruct (guard_ncomp_spec g) as [_ [Hrej _]].
  unfold fit_guard, regressor_ok.
  destruct (g_reg g) as [| | |m [[[d0 nd] cols]|]].
  - rewrite Hrej; tauto.
  - rewrite Hrej; tauto.
  - split; [discriminate | tauto].
  - destruct m.
    + unfold guard_krr.
      destruct (d0 =? g_d g) eqn:H1; cbn [negb].
      2:{ apply Z.eqb_neq in H1. split; [discriminate | tauto]. }
      apply Z.eqb_eq in H1.
      destruct (nd =? g_yndim g) eqn:H2; cbn [negb].
      2:{ apply Z.eqb_neq in H2. split; [discriminate | tauto]. }
      apply Z.eqb_eq in H2.
      destruct (g_yndim g =? 2) eqn:H3; cbn [andb].
      * apply Z.eqb_eq in H3.
        destruct (cols =? g_p g) eqn:H4; cbn [negb].
        -- apply Z.eqb_eq in H4. rewrite Hrej. tauto.
        -- apply Z.eqb_neq in H4. split; [discriminate | tauto].
      * apply Z.eqb_neq in H3. rewrite Hrej. tauto.
    + split; [discriminate | intros [[H _] _]; discriminate].
  - destruct m.
    + rewrite Hrej; tauto.
    + split; [discriminate | intros [[H _] _]; discriminate].
Qed.

(* a non-KernelRidge object is refused whatever the rest of the call looks like, and a
   kernel-argument mismatch is reported before anything about the data is looked at *)
Theorem regressor_checks_first g :
  (g_reg g = GOther -> fit_guard g = RejRegressorType) /\
  (forall f, g_reg g = GKrr false f -> fit_guard g = RejKernelMismatch).
Proof. unfold fit_guard; split; [intros -> | intros f ->]; reflexivity. Qed.

(* n_components=None never trips the n_components check; the number of components is then n *)
Theorem default_ncomp g : g_k g = None -> 0 <= g_n g -> ncomp g = g_n g /\ ncomp_ok g.
Proof. unfold ncomp_ok, ncomp; intros ->; lia. Qed.

(* satisfiable / not trivial: an accepted and a rejected call *)
Definition guard_examples_stmt : Prop :=
  fit_guard (mk_gin (GKrr true (Some (3, 2, 2))) 6 3 2 2 (Some 2)) = Accept /\
  fit_guard (mk_gin (GKrr true (Some (3, 1, 6))) 6 3 2 2 (Some 2)) = RejDualNdim /\
  fit_guard (mk_gin GNone 6 3 2 2 (Some 7)) = RejNComponents /\
  fit_guard (mk_gin GNone 6 3 2 2 (Some 0)) = Accept /\
  fit_guard (mk_gin GNone 6 3 2 2 None) = Accept.
Example guard_examples : guard_examples_stmt.
Proof. repeat split. Qed.

(* ---- svd_solver resolution -------------------------------------------------------------------- *)
(* small problems (max(n_samples, n_features) <= 500, the bound INCLUDED) always get the full SVD *)
Theorem auto_small_is_full n d k : Z.max n d <= 500 -> resolve_solver SAuto n d k = SFull.
Proof.
  intros H. unfold resolve_solver.
  destruct (Z.max n d <=? 500) eqn:E; [reflexivity | apply Z.leb_gt in E; lia].
Qed.

(* above 500: randomized iff 1 <= k < 0.8 * max(n, d), otherwise full; never anything else *)
Theorem auto_large_spec n d k :
  500 < Z.max n d ->
  (resolve_solver SAuto n d k = SRandomized <-> 1 <= k /\ 5 * k < 4 * Z.max n d) /\
  (resolve_solver SAuto n d k = SFull <-> ~ (1 <= k /\ 5 * k < 4 * Z.max n d)).
Proof.
  intros H. unfold resolve_solver.
  destruct (Z.max n d <=? 500) eqn:E; [apply Z.leb_le in E; lia |].
  destruct (1 <=? k) eqn:E1; destruct (5 * k <? 4 * Z.max n d) eqn:E2; cbn [andb];
    try apply Z.leb_le in E1; try apply Z.leb_gt in E1;
    try apply Z.ltb_lt in E2; try apply Z.ltb_ge in E2;
    (split; split; intro Hx); try discriminate; try reflexivity; try lia; try (exfalso; apply Hx; lia).
Qed.

(* an explicit svd_solver is kept, and the resolved solver is never "auto" *)
Theorem explicit_solver_kept s n d k :
  (s <> SAuto -> resolve_solver s n d k = s) /\ resolve_solver s n d k <> SAuto.
Proof.
  split.
  - destruct s; intros H; try reflexivity; contradiction.
  - destruct s; try (cbn [resolve_solver]; discriminate).
    unfold resolve_solver.
    destruct (Z.max n d <=? 500); [discriminate |].
    destruct ((1 <=? k) && (5 * k <? 4 * Z.max n d)); discriminate.
Qed.

Definition solver_examples_stmt : Prop :=
  resolve_solver SAuto 499 3 4 = SFull /\ resolve_solver SAuto 500 3 4 = SFull /\
  resolve_solver SAuto 501 3 4 = SRandomized /\ resolve_solver SAuto 5 501 3 = SRandomized /\
  resolve_solver SAuto 501 3 401 = SFull /\ resolve_solver SArpack 6 3 2 = SArpack.
Example solver_examples : solver_examples_stmt.
Proof. repeat split. Qed.
