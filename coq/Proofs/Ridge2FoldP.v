(* Proofs about the Ridge2FoldCV model (Model/Ridge2Fold.v, Model/Ridge2FoldMx.v) over an
   arbitrary real closed field.  ssreflect style. *)
From mathcomp Require Import all_ssreflect all_algebra.
From mathcomp Require Import ring.
From Verif Require Import MExp MExpMx Ridge2Fold Ridge2FoldMx MxFrobP.
Set Implicit Arguments.
Unset Strict Implicit.
Unset Printing Implicit Defensive.
Import Order.TTheory GRing.Theory Num.Theory.
Local Open Scope ring_scope.

(* ---- the shared scalar/list code at the field operations -------------------------- *)
Section Lists.
  Variable F : rcfType.
  Local Notation rops := (rops F).

  Lemma size_col_list k (s : 'cV[F]_k) : size (col_list s) = k.
  Proof. by rewrite /col_list size_map size_enum_ord. Qed.

  Lemma nth_col_list k (s : 'cV[F]_k) (i : 'I_k) : nth 0 (col_list s) i = s i ord0.
  Proof.
    rewrite /col_list (nth_map i) ?size_enum_ord //; congr (s _ _).
    by apply: val_inj; rewrite /= nth_enum_ord.
  Qed.

  Lemma lebE a b : Nat.leb a b = (a <= b)%N.
  Proof. by elim: a b => [|a IH] [|b] //=; rewrite IH. Qed.

  Lemma nminE a b : nmin a b = minn a b.
  Proof.
    rewrite /nmin /minn lebE leq_eqVlt; case: ltngtP => //.
  Qed.

  Lemma size_map_upto (f : F -> F) n (l : seq F) : size (map_upto rops f n l) = size l.
  Proof. by elim: l n => [|x l IH] [|n] //=; rewrite IH. Qed.

  Lemma nth_map_upto (f : F -> F) n (l : seq F) i :
    (i < size l)%N -> nth 0 (map_upto rops f n l) i = if (i < n)%N then f (nth 0 l i) else 0.
  Proof.
    elim: l n i => [|x l IH] n i //=.
    case: n => [|n]; case: i => [|i] //= Hi; rewrite IH //.
  Qed.

  (* non-increasing list *)
  Definition desc (l : seq F) := forall i j, (i <= j)%N -> (j < size l)%N -> nth 0 l j <= nth 0 l i.

  Lemma desc_tl x l : desc (x :: l) -> desc l.
  Proof. by move=> H i j ij jl; apply: (H i.+1 j.+1). Qed.

  Lemma count_gt_all_le t (l : seq F) : (forall i, (i < size l)%N -> nth 0 l i <= t) -> count_gt rops t l = 0%N.
  Proof.
    elim: l => [|x l IH] //= H.
    have /= := H 0%N isT; rewrite leNgt => /negbTE ->.
    by apply: IH => i Hi; apply: (H i.+1).
  Qed.

  (* for a non-increasing list, position i lies in the counted prefix iff its value exceeds t:
     slicing [:sum(s > t)] keeps exactly the entries > t *)
  Lemma count_gt_cons t x (l : seq F) :
    count_gt rops t (x :: l) = ((t < x)%R + count_gt rops t l)%N.
  Proof. by rewrite /=; case: (t < x). Qed.

  Lemma count_gt_desc t (l : seq F) i :
    desc l -> (i < size l)%N -> (i < count_gt rops t l)%N = (t < nth 0 l i).
  Proof.
    elim: l i => [|x l IH] i // Hd Hi; rewrite count_gt_cons.
    case tx: (t < x).
      case: i Hi => [|i] Hi //=.
      by rewrite add1n ltnS IH //; exact: desc_tl Hd.
    have Hle : forall j, (j < size l)%N -> nth 0 l j <= t.
      by move=> j Hj; apply: le_trans (Hd 0%N j.+1 isT Hj) _; rewrite /= leNgt tx.
    rewrite count_gt_all_le //; case: i Hi => [|i] Hi /=; first by rewrite tx.
    by rewrite ltn0; apply/esym/negbTE; rewrite -leNgt; exact: Hle.
  Qed.

  Lemma count_gt_size t (l : seq F) : (count_gt rops t l <= size l)%N.
  Proof. by elim: l => [|x l IH] //=; case: ifP => _ //; exact: leqW. Qed.

  Lemma desc_col_list k (s : 'cV[F]_k) :
    (forall i j : 'I_k, (i <= j)%N -> s j ord0 <= s i ord0) -> desc (col_list s).
  Proof.
    move=> H i j ij; rewrite size_col_list => jk.
    have ik : (i < k)%N by exact: leq_ltn_trans ij jk.
    by rewrite (nth_col_list s (Ordinal jk)) (nth_col_list s (Ordinal ik)); exact: H.
  Qed.

  (* entries of the filter vectors *)
  Lemma list_col_map_upto k (f : F -> F) n (s : 'cV[F]_k) (i : 'I_k) :
    list_col k (map_upto rops f n (col_list s)) i ord0 = if (i < n)%N then f (s i ord0) else 0.
  Proof. by rewrite mxE nth_map_upto ?size_col_list // nth_col_list. Qed.

  (* first arg-max *)
  Lemma argmax_from_inv (L : seq F) l best bi i :
    l = drop i L -> (i <= size L)%N -> (bi < i)%N -> best = nth 0 L bi ->
    (forall j, (j < i)%N -> nth 0 L j <= best) ->
    (forall j, (j < bi)%N -> nth 0 L j < best) ->
    let r := argmax_from rops best bi i l in
    [/\ (r < size L)%N, forall j, (j < size L)%N -> nth 0 L j <= nth 0 L r
      & forall j, (j < r)%N -> nth 0 L j < nth 0 L r].
  Proof.
    elim: l best bi i => [|x l IH] best bi i Hl iL bii Hb Hle Hlt /=.
      have Hi : i = size L.
        apply/eqP; rewrite eqn_leq iL /= -subn_eq0 -size_drop -Hl //.
      rewrite -Hb; split=> //; first by rewrite -Hi.
      by move=> j; rewrite -Hi; exact: Hle.
    have iL' : (i < size L)%N.
      by rewrite ltnNge; apply/negP => Hge; move: Hl; rewrite drop_oversize.
    move: Hl; rewrite (drop_nth 0 iL') => -[Hx Hl'].
    case: ifP => [bx|/negbT]; [|rewrite -leNgt => xb].
      have bx' : best < x by exact: bx.
      apply: IH => //.
      - move=> j; rewrite ltnS leq_eqVlt => /orP[/eqP->|ji]; first by rewrite Hx.
        by apply: ltW; apply: le_lt_trans (Hle j ji) bx'.
      - by move=> j ji; apply: le_lt_trans (Hle j ji) bx'.
    apply: IH => //; first exact: ltnW.
    move=> j; rewrite ltnS leq_eqVlt => /orP[/eqP->|ji]; first by rewrite -Hx.
    exact: Hle.
  Qed.

  Lemma argmax_spec (l : seq F) :
    (0 < size l)%N ->
    let r := argmax rops l in
    [/\ (r < size l)%N, forall j, (j < size l)%N -> nth 0 l j <= nth 0 l r
      & forall j, (j < r)%N -> nth 0 l j < nth 0 l r].
  Proof.
    case: l => [|x l] // _; rewrite /argmax.
    apply: (@argmax_from_inv (x :: l) l x 0%N 1%N) => //.
    - by rewrite drop1.
    - by move=> j; rewrite ltnS leqn0 => /eqP->.
  Qed.

  (* np.max returns the value at the arg-max *)
  Lemma fold_omax a (l : seq F) :
    let m := List.fold_left (omax rops) l a in
    [/\ m \in a :: l, a <= m & forall x, x \in l -> x <= m].
  Proof.
    elim: l a => [|x l IH] a /=; first by split=> //; rewrite inE.
    have [Ha Hx] : a <= omax rops a x /\ x <= omax rops a x.
      by rewrite /omax /=; case: (ltP a x) => [/ltW|].
    have [Hin Hge Hall] := IH (omax rops a x); split.
    - move: Hin; rewrite !inE => /orP[/eqP->|->]; last by rewrite !orbT.
      by rewrite /omax /=; case: ifP => _; rewrite eqxx ?orbT.
    - exact: le_trans Ha Hge.
    - by move=> z; rewrite inE => /orP[/eqP->|/Hall] //; exact: le_trans Hx Hge.
  Qed.

  Lemma lmax_argmax (l : seq F) : (0 < size l)%N -> lmax rops l = nth 0 l (argmax rops l).
  Proof.
    move=> Hl; have [Hr Hmax _] := argmax_spec Hl.
    case: l Hl Hr Hmax => [|x l] // _ Hr Hmax; rewrite /lmax /=.
    have [Hin Hge Hall] := fold_omax x l.
    apply/eqP; rewrite eq_le; apply/andP; split.
      by have /(nthP 0) [j Hj <-] := Hin; exact: Hmax.
    have := mem_nth 0 Hr; rewrite inE => /orP[/eqP->|/Hall] //.
  Qed.
End Lists.

(* ---- the SVD-filter algebra -------------------------------------------------------- *)
Section SvdFilter.
  Variable F : rcfType.
  Variables (m p k t : nat).
  Variables (U : 'M[F]_(m, k)) (V : 'M[F]_(p, k)) (y : 'M[F]_(m, t)).
  Hypothesis UU : U^T *m U = 1%:M.
  Hypothesis VV : V^T *m V = 1%:M.

  (* X(s) = U diag(s) V^T,  W(g) = V diag(g) U^T y *)
  Definition Xof (s : 'cV[F]_k) : 'M[F]_(m, p) := U *m diag_mx s^T *m V^T.
  Definition Wof (g : 'cV[F]_k) : 'M[F]_(p, t) := V *m diag_mx g^T *m (U^T *m y).

  Lemma Xof_tr s : (Xof s)^T = V *m diag_mx s^T *m U^T.
  Proof. by rewrite /Xof !trmx_mul trmxK tr_diag_mx mulmxA. Qed.

  Lemma XtW sr g : Xof sr *m Wof g = U *m (diag_mx sr^T *m diag_mx g^T) *m (U^T *m y).
  Proof.
    rewrite /Xof /Wof !mulmxA -[_ *m V^T *m V]mulmxA VV mulmx1.
    by rewrite -!mulmxA.
  Qed.

  Lemma XtXW sr g :
    (Xof sr)^T *m Xof sr *m Wof g
    = V *m (diag_mx sr^T *m diag_mx sr^T *m diag_mx g^T) *m (U^T *m y).
  Proof.
    rewrite -mulmxA XtW Xof_tr !mulmxA -[_ *m U^T *m U]mulmxA UU mulmx1.
    by rewrite -!mulmxA.
  Qed.

  Lemma Xty sr : (Xof sr)^T *m y = V *m diag_mx sr^T *m (U^T *m y).
  Proof. by rewrite Xof_tr -!mulmxA. Qed.

  (* (X^T X + a I) W = X^T y as soon as the filter satisfies (s^2 + a) g = s entrywise *)
  Lemma filter_normal_eq (a : F) (sr g : 'cV[F]_k) :
    (forall i, (sr i ord0 * sr i ord0 + a) * g i ord0 = sr i ord0) ->
    ((Xof sr)^T *m Xof sr + a%:M) *m Wof g = (Xof sr)^T *m y.
  Proof.
    move=> H; rewrite mulmxDl XtXW Xty mul_scalar_mx /Wof.
    rewrite scalemxAl scalemxAr -mulmxDl -mulmxDr; congr (_ *m _ *m _).
    rewrite !mulmx_diag; apply/matrixP => i j; rewrite !mxE.
    case: (i == j); rewrite ?mulr1n ?mulr0n ?mulr0 ?addr0 //.
    by rewrite -mulrDl; exact: H.
  Qed.

  (* W lies in the row space of X(sr) when g = sr * h entrywise *)
  Lemma filter_rowspace (sr g h : 'cV[F]_k) :
    (forall i, g i ord0 = sr i ord0 * h i ord0) ->
    Wof g = (Xof sr)^T *m (U *m diag_mx h^T *m (U^T *m y)).
  Proof.
    move=> H; rewrite Xof_tr /Wof !mulmxA -[_ *m U^T *m U]mulmxA UU mulmx1.
    rewrite -!mulmxA; congr (_ *m _); rewrite !mulmxA; congr (_ *m _ *m _).
    rewrite mulmx_diag; congr diag_mx; apply/rowP => i; rewrite !mxE; exact: H.
  Qed.

  (* no component along the right singular vectors with g_i = 0 *)
  Lemma filter_component (g : 'cV[F]_k) (i : 'I_k) :
    g i ord0 = 0 -> (col i V)^T *m Wof g = 0.
  Proof.
    move=> Hg; rewrite tr_col /Wof -row_mul !mulmxA VV mul1mx mul_diag_mx.
    apply/matrixP => a b; rewrite !mxE; apply: big1 => j _.
    by rewrite !mxE Hg !mul0r.
  Qed.

  (* |W|^2 <= c2 |y|^2 when every g_i^2 <= c2 *)
  Lemma filter_bounded (g : 'cV[F]_k) (c2 : F) :
    0 <= c2 -> (forall i, g i ord0 ^+ 2 <= c2) -> fn2 (Wof g) <= c2 * fn2 y.
  Proof.
    move=> c0 Hg; rewrite /Wof -mulmxA fn2_isol //.
    apply: le_trans (fn2_diag_le (c2:=c2) _ _) _; first by move=> i; rewrite mxE.
    by apply: ler_wpmul2l => //; exact: fn2_bessel.
  Qed.
End SvdFilter.

(* ---- what the normal equations mean: minimiser of the regularised objective ---------- *)
Section RegLS.
  Variable F : rcfType.
  Variables (m p t : nat) (X : 'M[F]_(m, p)) (y : 'M[F]_(m, t)).

  (* |y - X w|^2 + a |w|^2 *)
  Definition ridge_obj (a : F) (w : 'M[F]_(p, t)) : F := fn2 (y - X *m w) + a * fn2 w.

  Lemma ridge_obj_expand a (w d : 'M[F]_(p, t)) :
    (X^T *m X + a%:M) *m w = X^T *m y ->
    ridge_obj a (w + d) = ridge_obj a w + (fn2 (X *m d) + a * fn2 d).
  Proof.
    move=> H.
    have Hr : X^T *m (y - X *m w) = a *: w.
      move: H; rewrite mulmxDl mul_scalar_mx mulmxBr mulmxA => <-.
      by rewrite addrC addKr.
    rewrite /ridge_obj.
    have -> : y - X *m (w + d) = (y - X *m w) - X *m d by rewrite mulmxDr opprD addrA.
    rewrite (fn2B (y - X *m w)) (fn2D w d) ip_mull Hr ipZl.
    ring.
  Qed.

  (* the solution of the normal equations minimises the regularised objective ... *)
  Lemma normal_eq_min a (w : 'M[F]_(p, t)) :
    0 <= a -> (X^T *m X + a%:M) *m w = X^T *m y ->
    forall w', ridge_obj a w <= ridge_obj a w'.
  Proof.
    move=> a0 H w'; rewrite -[w'](subrK w) addrC ridge_obj_expand // ler_addl.
    by apply: addr_ge0; [exact: fn2_ge0 | apply: mulr_ge0 => //; exact: fn2_ge0].
  Qed.

  (* ... and is the only solution when a > 0 *)
  Lemma normal_eq_unique a (w w' : 'M[F]_(p, t)) :
    0 < a -> (X^T *m X + a%:M) *m w = X^T *m y -> (X^T *m X + a%:M) *m w' = X^T *m y ->
    w' = w.
  Proof.
    move=> a0 H H'.
    have E := ridge_obj_expand (w' - w) H; have E' := ridge_obj_expand (w - w') H'.
    rewrite addrC subrK in E; rewrite addrC subrK in E'.
    have Hd : fn2 (w' - w) = fn2 (w - w') by rewrite -fn2N opprB.
    have HX : fn2 (X *m (w' - w)) = fn2 (X *m (w - w')) by rewrite -fn2N -mulmxN opprB.
    rewrite -HX -Hd in E'; set S := fn2 (X *m (w' - w)) + a * fn2 (w' - w) in E E'.
    have S0 : S = 0.
      have : S + S = 0 by apply: (addrI (ridge_obj a w)); rewrite addr0 addrA -E -E'.
      by rewrite -mulr2n => /eqP; rewrite mulrn_eq0 /= => /eqP.
    move/eqP: S0; rewrite /S paddr_eq0 ?fn2_ge0 //; last by rewrite mulr_ge0 ?fn2_ge0 // ltW.
    case/andP => _; rewrite mulf_eq0 (gt_eqF a0) /= => /eqP/fn2_eq0/eqP.
    by rewrite subr_eq0 => /eqP.
  Qed.

  (* a = 0: among all least-squares solutions the one in the row space has minimum norm *)
  Lemma min_norm (w w' : 'M[F]_(p, t)) (z : 'M[F]_(m, t)) :
    X^T *m X *m w = X^T *m y -> w = X^T *m z -> X^T *m X *m w' = X^T *m y ->
    fn2 w <= fn2 w'.
  Proof.
    move=> H Hz H'.
    have Hd : X *m (w' - w) = 0.
      apply: fn2_eq0; rewrite /fn2 ip_mull mulmxA mulmxBr H H' subrr.
      by rewrite /ip trmx0 mul0mx mxtrace0.
    have Hip : ip w (w' - w) = 0.
      by rewrite {1}Hz -ip_mull Hd /ip mulmx0 mxtrace0.
    rewrite -[w'](subrK w) addrC fn2D Hip mulr0 addr0 ler_addl; exact: fn2_ge0.
  Qed.
End RegLS.

(* ---- one regularised fit as the code computes it ---------------------------------------- *)
Section Fold.
  Variable F : rcfType.
  Local Notation rops := (rops F).

  Lemma inj_mxE m n (A : 'M[F]_(m, n)) : inj_mx A m n = A.
  Proof.
    rewrite /inj_mx; case: eqP => // e1; case: eqP => // e2.
    by rewrite (eq_axiomK e1) (eq_axiomK e2) castmx_id.
  Qed.

  Lemma env_set_same (env : env_mx F) x m n (A : 'M[F]_(m, n)) : env_set env x A m n x = A.
  Proof. by rewrite /env_set eqxx inj_mxE. Qed.

  Lemma env_set_other (env : env_mx F) x0 m0 n0 (A : 'M[F]_(m0, n0)) m n x :
    x != x0 -> env_set env x0 A m n x = env m n x.
  Proof. by rewrite /env_set => /negbTE ->. Qed.

  (* entries of the filter the code builds by slicing [:n] / [:n_alpha] *)
  Lemma gvecE k cutoff rcond alpha (s : 'cV[F]_k) (i : 'I_k) :
    (forall i j : 'I_k, (i <= j)%N -> s j ord0 <= s i ord0) ->
    list_col k (gvec rops cutoff (count_gt rops rcond (col_list s)) alpha (col_list s)) i ord0
    = if keep cutoff rcond alpha (s i ord0)
      then (if cutoff then 1 / s i ord0 else s i ord0 / (s i ord0 * s i ord0 + alpha))
      else 0.
  Proof.
    move=> Hs; have Hd := desc_col_list Hs.
    have Hi : (i < size (col_list s))%N by rewrite size_col_list.
    rewrite /gvec /keep; case: cutoff => /=.
    - by rewrite /filt_cut list_col_map_upto nminE leq_min !count_gt_desc // nth_col_list.
    - by rewrite /filt_tik list_col_map_upto count_gt_desc // nth_col_list andbT.
  Qed.

  Section One.
    Variables (m p k t : nat) (env : env_mx F) (xX xU xS xV xy : nat).
    Variables (cutoff : bool) (rcond alpha : F).
    Hypothesis HG : [&& xV != vG, xU != vG & xy != vG].
    Hypothesis Hsvd : svd_hyp env m p k xX xU xS xV.
    Hypothesis rc0 : 0 <= rcond.
    Hypothesis al0 : cutoff || (0 <= alpha).
    Let U := env m k xU.
    Let V := env p k xV.
    Let s := env k 1%N xS.
    Let y := env m t xy.
    Let X := env m p xX.
    Let g := list_col k (gvec rops cutoff (count_gt rops rcond (col_list s)) alpha (col_list s)).
    Let W := eval_mx (env_set env vG g) (w_prog m p k t xV vG xU xy).
    Let Xr := U *m diag_mx (strunc cutoff rcond alpha s)^T *m V^T.

    Let UU : U^T *m U = 1%:M.
    Proof. by case: Hsvd => /= /eqP; rewrite subr_eq0 => /eqP. Qed.
    Let VV : V^T *m V = 1%:M.
    Proof. by case: Hsvd => _ /= /eqP; rewrite subr_eq0 => /eqP. Qed.
    Let XE : X = U *m diag_mx s^T *m V^T.
    Proof. by case: Hsvd => _ _ /= /eqP; rewrite subr_eq0 => /eqP. Qed.
    Let Hs : forall i j : 'I_k, (i <= j)%N -> s j ord0 <= s i ord0.
    Proof. by case: Hsvd. Qed.

    Lemma fold_W : W = Wof U V y g.
    Proof.
      case/and3P: HG => h1 h2 h3.
      by rewrite /W /Wof /= env_set_same !env_set_other.
    Qed.

    Let gE i : g i ord0 = if keep cutoff rcond alpha (s i ord0)
      then (if cutoff then 1 / s i ord0 else s i ord0 / (s i ord0 * s i ord0 + alpha)) else 0.
    Proof. exact: gvecE. Qed.

    Let kept_pos i : keep cutoff rcond alpha (s i ord0) -> 0 < s i ord0.
    Proof. by case/andP => /(le_lt_trans rc0). Qed.

    Let den_pos i : keep cutoff rcond alpha (s i ord0) -> ~~ cutoff -> 0 < s i ord0 * s i ord0 + alpha.
    Proof.
      move=> Hk Hc; move: al0; rewrite (negbTE Hc) /= => a0.
      by apply: ltr_paddr => //; apply: mulr_gt0; exact: kept_pos.
    Qed.

    (* W solves the (regularised) normal equations of the rank-truncated fold matrix ... *)
    Lemma fold_normal_eq : (Xr^T *m Xr + (aeff cutoff alpha)%:M) *m W = Xr^T *m y.
    Proof.
      rewrite fold_W; apply: filter_normal_eq => // i; rewrite gE !mxE.
      case Hk: (keep _ _ _ _); last by rewrite mulr0.
      have sp := kept_pos Hk; rewrite /aeff.
      case Hc: cutoff; first by rewrite addr0 mul1r -mulrA mulfV ?mulr1 // gt_eqF.
      by rewrite mulrC -mulrA mulVf ?mulr1 // gt_eqF // den_pos // Hc.
    Qed.

    (* ... and lies in its row space *)
    Lemma fold_rowspace : exists z, W = Xr^T *m z.
    Proof.
      pose h : 'cV[F]_k := \col_i (if keep cutoff rcond alpha (s i ord0)
        then (if cutoff then (s i ord0 * s i ord0)^-1 else (s i ord0 * s i ord0 + alpha)^-1) else 0).
      exists (U *m diag_mx h^T *m (U^T *m y)); rewrite fold_W.
      apply: filter_rowspace => // i; rewrite gE !mxE.
      case Hk: (keep _ _ _ _); last by rewrite mulr0.
      have sp := kept_pos Hk.
      case Hc: cutoff => //.
      by rewrite mul1r invfM mulrA mulfV ?mul1r // gt_eqF.
    Qed.

    (* the truncated matrix is X itself when every dropped singular value is exactly 0 *)
    Lemma fold_trunc_exact :
      (forall i, ~~ keep cutoff rcond alpha (s i ord0) -> s i ord0 = 0) -> Xr = X.
    Proof.
      move=> H; rewrite XE /Xr; congr (_ *m diag_mx _^T *m _).
      by apply/colP => i; rewrite mxE; case Hk: (keep _ _ _ _) => //; rewrite H // Hk.
    Qed.

    (* no component along dropped right singular vectors *)
    Lemma fold_excluded (i : 'I_k) :
      ~~ keep cutoff rcond alpha (s i ord0) -> (col i V)^T *m W = 0.
    Proof.
      by move=> Hk; rewrite fold_W; apply: filter_component => //; rewrite gE (negbTE Hk).
    Qed.

    (* |W| <= |y| / rcond *)
    Lemma fold_bounded : 0 < rcond -> rcond ^+ 2 * fn2 W <= fn2 y.
    Proof.
      move=> rp; rewrite fold_W.
      have rn : rcond ^+ 2 != 0 by rewrite expf_neq0 // gt_eqF.
      have r2 : 0 < rcond ^+ 2 by rewrite exprn_gt0.
      rewrite -(ler_pdivl_mull _ _ r2).
      apply: filter_bounded => //; first by rewrite invr_ge0 ltW.
      move=> i; rewrite gE -exprVn.
      case Hk: (keep _ _ _ _); last by rewrite expr0n /= exprn_ge0 // invr_ge0 ltW.
      have sp := kept_pos Hk.
      have rs : rcond < s i ord0 by case/andP: Hk.
      have H1 : (s i ord0)^-1 <= rcond^-1 by rewrite lef_pinv ?posrE // ltW.
      have V0 : 0 <= (s i ord0)^-1 by rewrite invr_ge0 ltW.
      have [g0 gle] : 0 <= (if cutoff then 1 / s i ord0 else s i ord0 / (s i ord0 * s i ord0 + alpha))
                      /\ (if cutoff then 1 / s i ord0 else s i ord0 / (s i ord0 * s i ord0 + alpha))
                         <= rcond^-1.
        case Hc: cutoff; first by rewrite mul1r.
        have dp : 0 < s i ord0 * s i ord0 + alpha by apply: den_pos; rewrite ?Hk ?Hc.
        have a0 : 0 <= alpha by move: al0; rewrite Hc.
        split; first by apply: divr_ge0; exact: ltW.
        apply: le_trans H1.
        by rewrite ler_pdivr_mulr // mulrDr mulrA mulVf ?gt_eqF // mul1r ler_addl mulr_ge0.
      by apply: ler_expn2r; rewrite ?nnegrE ?invr_ge0 ?(ltW rp).
    Qed.

    Lemma fold_reg_solution :
      reg_solution U (strunc cutoff rcond alpha s) V y (aeff cutoff alpha) W.
    Proof. split; [exact: fold_normal_eq | exact: fold_rowspace]. Qed.
  End One.
End Fold.

(* ---- meaning of [reg_solution] ----------------------------------------------------------- *)
Section RegSolution.
  Variable F : rcfType.
  Variables (m p k t : nat) (U : 'M[F]_(m, k)) (sr : 'cV[F]_k) (V : 'M[F]_(p, k)).
  Variables (y : 'M[F]_(m, t)) (a : F) (W : 'M[F]_(p, t)).
  Hypothesis H : reg_solution U sr V y a W.
  Let Xr := U *m diag_mx sr^T *m V^T.

  Lemma reg_solution_min : 0 <= a -> forall w', ridge_obj Xr y a W <= ridge_obj Xr y a w'.
  Proof. by move=> a0; apply: normal_eq_min => //; case: H. Qed.

  Lemma reg_solution_unique w' : 0 < a -> (Xr^T *m Xr + a%:M) *m w' = Xr^T *m y -> w' = W.
  Proof. by move=> a0; apply: normal_eq_unique => //; case: H. Qed.

  Lemma reg_solution_min_norm w' : a = 0 -> Xr^T *m Xr *m w' = Xr^T *m y -> fn2 W <= fn2 w'.
  Proof.
    case: H => H1 [z Hz] a0; apply: min_norm Hz; move: H1.
    by rewrite a0 -scalemx1 scale0r addr0.
  Qed.
End RegSolution.

(* ---- the whole fit ---------------------------------------------------------------------- *)
Section Whole.
  Variable F : rcfType.
  Variable d : r2f_dims.
  Variable c : r2f_cfg F (d_t d).
  Local Notation rops := (rops F).
  Local Notation n1 := (d_n1 d).  Local Notation n2 := (d_n2 d).  Local Notation n := (d_n d).
  Local Notation p := (d_p d).    Local Notation t := (d_t d).
  Local Notation k1 := (d_k1 d).  Local Notation k2 := (d_k2 d).  Local Notation k := (d_k d).
  Local Notation nn := (d_nn d).
  Local Notation env := (c_env c).        Local Notation scorer := (c_scorer c).
  Local Notation alphas := (c_alphas c).  Local Notation relative := (c_relative c).
  Local Notation cutoff := (c_cutoff c).  Local Notation rcond := (c_rcond c).
  Hypothesis Hyp : r2f_hyps c.

  Lemma size_salphas : size (salphas c) = size alphas.
  Proof. by rewrite /salphas /scaled_alphas; case: relative => //; rewrite size_map. Qed.

  Lemma size_cv_values : size (cv_values c) = size alphas.
  Proof. by rewrite /cv_values size_map size_salphas. Qed.

  (* weights fitted on fold 1 / fold 2 / the full data for the (scaled) parameter a *)
  Definition W1 (a : F) : 'M[F]_(p, t) :=
    eval_mx (env_set env vG (g1 c a)) (w_prog n1 p k1 t vV1 vG vU1 vy1).
  Definition W2 (a : F) : 'M[F]_(p, t) :=
    eval_mx (env_set env vG (g2 c a)) (w_prog n2 p k2 t vV2 vG vU2 vy2).
  Definition Wfull (a : F) : 'M[F]_(p, t) :=
    eval_mx (env_set env vG (gfull c a)) (w_prog n p k t vV vG vU vy).

  (* cv_values_[j] = mean of the scorer on (fold-1 model, fold-2 data) and (fold-2 model,
     fold-1 data): the cached products reproduce X_other @ W_fold *)
  Lemma cv_values_nth j : (j < size alphas)%N ->
    nth 0 (cv_values c) j =
    (scorer (env n2 t vy2) (env n2 p vX2 *m W1 (nth 0 (salphas c) j))
     + scorer (env n1 t vy1) (env n1 p vX1 *m W2 (nth 0 (salphas c) j))) / 2%:R.
  Proof.
    move=> Hj; rewrite /cv_values (nth_map 0) ?size_salphas // /cv_value /pred12 /pred21 /W1 /W2.
    by rewrite /pred_prog /w_prog /= !env_set_same !env_set_other // !mulmxA.
  Qed.

  (* relative alphas are scaled by the largest singular value of the two folds *)
  Lemma lmax_in (l : seq F) : (0 < size l)%N ->
    lmax rops l \in l /\ forall x, x \in l -> x <= lmax rops l.
  Proof.
    case: l => [|x l] // _; rewrite /lmax /=.
    have [Hin Hge Hall] := fold_omax x l; split=> // z.
    by rewrite inE => /orP[/eqP->|/Hall].
  Qed.

  Lemma salphas_nth j : (j < size alphas)%N ->
    nth 0 (salphas c) j
    = if relative then nth 0 alphas j * Num.max (lmax rops (s1 c)) (lmax rops (s2 c))
      else nth 0 alphas j.
  Proof.
    move=> Hj; rewrite /salphas /scaled_alphas; case: relative => //.
    by rewrite (nth_map 0).
  Qed.

  Lemma col_list_ge0 kk (s : 'cV[F]_kk) : (forall i, 0 <= s i ord0) -> forall x, x \in col_list s -> 0 <= x.
  Proof. by move=> H x /mapP [i _ ->]. Qed.

  Lemma lmax_ge0 (l : seq F) : (forall x, x \in l -> 0 <= x) -> 0 <= lmax rops l.
  Proof.
    case: l => [|x l] H; first by rewrite /lmax /=.
    have [Hin _] := @lmax_in (x :: l) isT; exact: H.
  Qed.

  Lemma salphas_ge0 j : (j < size alphas)%N -> 0 <= nth 0 (salphas c) j.
  Proof.
    case: Hyp => -[_ _ _ _ H1] [_ _ _ _ H2] _ _ [_ /allP Ha] Hj.
    have aj : 0 <= nth 0 alphas j by apply: Ha; exact: mem_nth.
    rewrite salphas_nth //; case: relative => //; apply: mulr_ge0 => //.
    rewrite le_maxr; apply/orP; left; apply: lmax_ge0; exact: col_list_ge0.
  Qed.

  (* alpha_ is the first grid value attaining the best cv value; best_score_ is that value *)
  Lemma alpha_first_argmax :
    let r := best_idx c in
    [/\ (r < size alphas)%N, alpha_ c = nth 0 alphas r,
        best_score c = nth 0 (cv_values c) r,
        forall j, (j < size alphas)%N -> nth 0 (cv_values c) j <= nth 0 (cv_values c) r
      & forall j, (j < r)%N -> nth 0 (cv_values c) j < nth 0 (cv_values c) r].
  Proof.
    case: Hyp => _ _ _ _ [Hn _].
    have Hs : (0 < size (cv_values c))%N by rewrite size_cv_values.
    have [H1 H2 H3] := argmax_spec Hs.
    split=> //; first by rewrite -size_cv_values.
    - by rewrite /best_score lmax_argmax.
    - by move=> j Hj; apply: H2; rewrite size_cv_values.
  Qed.

  (* every fold model and the final model is the explicit regularised fit *)
  Lemma W1_reg_solution a : cutoff || (0 <= a) ->
    reg_solution (env n1 k1 vU1) (strunc cutoff rcond a (env k1 1%N vS1)) (env p k1 vV1)
                 (env n1 t vy1) (aeff cutoff a) (W1 a).
  Proof.
    case: Hyp => H1 _ _ rc0 _ a0; split.
    - exact: (@fold_normal_eq F n1 p k1 t env vX1 vU1 vS1 vV1 vy1 cutoff rcond a).
    - exact: (@fold_rowspace F n1 p k1 t env vX1 vU1 vS1 vV1 vy1 cutoff rcond a).
  Qed.

  Lemma W2_reg_solution a : cutoff || (0 <= a) ->
    reg_solution (env n2 k2 vU2) (strunc cutoff rcond a (env k2 1%N vS2)) (env p k2 vV2)
                 (env n2 t vy2) (aeff cutoff a) (W2 a).
  Proof.
    case: Hyp => _ H2 _ rc0 _ a0; split.
    - exact: (@fold_normal_eq F n2 p k2 t env vX2 vU2 vS2 vV2 vy2 cutoff rcond a).
    - exact: (@fold_rowspace F n2 p k2 t env vX2 vU2 vS2 vV2 vy2 cutoff rcond a).
  Qed.

  Lemma coef_E : coef_ c = (Wfull (best_scaled_alpha c))^T.
  Proof. by []. Qed.

  Lemma best_scaled_alpha_ge0 : 0 <= best_scaled_alpha c.
  Proof. by have [Hr _ _ _ _] := alpha_first_argmax; exact: salphas_ge0. Qed.

  Lemma coef_reg_solution :
    let a := best_scaled_alpha c in
    reg_solution (env n k vU) (strunc cutoff rcond a (env k 1%N vS)) (env p k vV)
                 (env n t vy) (aeff cutoff a) (coef_ c)^T.
  Proof.
    case: Hyp => _ _ H3 rc0 _ /=; rewrite coef_E trmxK.
    have a0 : cutoff || (0 <= best_scaled_alpha c) by rewrite best_scaled_alpha_ge0 orbT.
    split.
    - exact: (@fold_normal_eq F n p k t env vX vU vS vV vy cutoff rcond _).
    - exact: (@fold_rowspace F n p k t env vX vU vS vV vy cutoff rcond _).
  Qed.

  Lemma predict_E : predict c = env nn p vXnew *m (coef_ c)^T.
  Proof. by rewrite /predict /predict_prog /= {1}/genv /genv_n env_set_other. Qed.

  (* directions of the full data with singular value <= rcond are excluded from coef_ *)
  Lemma coef_rank_excluded (i : 'I_k) :
    env k 1%N vS i ord0 <= rcond -> (col i (env p k vV))^T *m (coef_ c)^T = 0.
  Proof.
    case: Hyp => _ _ H3 _ _ Hi; rewrite coef_E trmxK.
    apply: (@fold_excluded F n p k t env vX vU vS vV vy cutoff rcond _) => //.
    by rewrite /keep ltNge Hi.
  Qed.

  (* ... so the coefficients stay bounded: |coef_| <= |y| / rcond *)
  Lemma coef_bounded : 0 < rcond -> rcond ^+ 2 * fn2 (coef_ c) <= fn2 (env n t vy).
  Proof.
    case: Hyp => _ _ H3 rc0 _ rp; rewrite -fn2_tr coef_E trmxK.
    apply: (@fold_bounded F n p k t env vX vU vS vV vy cutoff rcond _) => //.
    by rewrite best_scaled_alpha_ge0 orbT.
  Qed.
End Whole.
