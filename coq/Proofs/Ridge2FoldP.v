(* Proofs about the Ridge2FoldCV model (Model/Ridge2Fold.v, Model/Ridge2FoldMx.v) over an
   arbitrary real closed field.  ssreflect style. *)
From mathcomp Require Import all_ssreflect all_algebra.
From mathcomp Require Import ring.
From Verif Require Import MExp MExpMx Ridge2Fold Ridge2FoldMx MxFrobP.
Set Implicit Arguments.
Unset Strict Implicit.
Unset Printing Implicit Defensive.
Import Order.TTheory GRing.Theory Num.Theory.
Local Open Scope ring_scope.

(* ---- the shared scalar/list code at the field operations -------------------------- *)
Section Lists.
  Variable F : rcfType.
  Local Notation rops := (rops F).

  Lemma size_col_list k (s : 'cV[F]_k) : size (col_list s) = k.
  Proof. by rewrite /col_list size_map size_enum_ord. Qed.

  Lemma nth_col_list k (s : 'cV[F]_k) (i : 'I_k) : nth 0 (col_list s) i = s i ord0.
  Proof.
    rewrite /col_list (nth_map i) ?size_enum_ord //; congr (s _ _).
    by apply: val_inj; rewrite /= nth_enum_ord.
  Qed.

  Lemma lebE a b : Nat.leb a b = (a <= b)%N.
  Proof. by elim: a b => [|a IH] [|b] //=; rewrite IH. Qed.

  Lemma nminE a b : nmin a b = minn a b.
  Proof.
    rewrite /nmin /minn lebE leq_eqVlt; case: ltngtP => //.
  Qed.

  Lemma size_map_upto (f : F -> F) n (l : seq F) : size (map_upto rops f n l) = size l.
  Proof. by elim: l n => [|x l IH] [|n] //=; rewrite IH. Qed.

  Lemma nth_map_upto (f : F -> F) n (l : seq F) i :
    (i < size l)%N -> nth 0 (map_upto rops f n l) i = if (i < n)%N then f (nth 0 l i) else 0.
  Proof.
    elim: l n i => [|x l IH] n i //=.
    case: n => [|n]; case: i => [|i] //= Hi; rewrite IH //.
  Qed.

  (* non-increasing list *)
  Definition desc (l : seq F) := forall i j, (i <= j)%N -> (j < size l)%N -> nth 0 l j <= nth 0 l i.

  Lemma desc_tl x l : desc (x :: l) -> desc l.
  Proof. by move=> H i j ij jl; apply: (H i.+1 j.+1). Qed.

  Lemma count_gt_all_le t (l : seq F) : (forall i, (i < size l)%N -> nth 0 l i <= t) -> count_gt rops t l = 0%N.
  Proof.
    elim: l => [|x l IH] //= H.
    have /= := H 0%N isT; rewrite leNgt => /negbTE ->.
    by apply: IH => i Hi; apply: (H i.+1).
  Qed.

  (* for a non-increasing list, position i lies in the counted prefix iff its value exceeds t:
     slicing [:sum(s > t)] keeps exactly the entries > t *)
  Lemma count_gt_cons t x (l : seq F) :
    count_gt rops t (x :: l) = ((t < x)%R + count_gt rops t l)%N.
  Proof. by rewrite /=; case: (t < x). Qed.

  Lemma count_gt_desc t (l : seq F) i :
    desc l -> (i < size l)%N -> (i < count_gt rops t l)%N = (t < nth 0 l i).
  Proof.
    elim: l i => [|x l IH] i // Hd Hi; rewrite count_gt_cons.
    case tx: (t < x).
      case: i Hi => [|i] Hi //=.
      by rewrite add1n ltnS IH //; exact: desc_tl Hd.
    have Hle : forall j, (j < size l)%N -> nth 0 l j <= t.
      by move=> j Hj; apply: le_trans (Hd 0%N j.+1 isT Hj) _; rewrite /= leNgt tx.
    rewrite count_gt_all_le //; case: i Hi => [|i] Hi /=; first by rewrite tx.
    by rewrite ltn0; apply/esym/negbTE; rewrite -leNgt; exact: Hle.
  Qed.

  Lemma count_gt_size t (l : seq F) : (count_gt rops t l <= size l)%N.
  Proof. by elim: l => [|x l IH] //=; case: ifP => _ //; exact: leqW. Qed.

  Lemma desc_col_list k (s : 'cV[F]_k) :
    (forall i j : 'I_k, (i <= j)%N -> s j ord0 <= s i ord0) -> desc (col_list s).
  Proof.
    move=> H i j ij; rewrite size_col_list => jk.
    have ik : (i < k)%N by exact: leq_ltn_trans ij jk.
    by rewrite (nth_col_list s (Ordinal jk)) (nth_col_list s (Ordinal ik)); exact: H.
  Qed.

  (* entries of the filter vectors *)
  Lemma list_col_map_upto k (f : F -> F) n (s : 'cV[F]_k) (i : 'I_k) :
    list_col k (map_upto rops f n (col_list s)) i ord0 = if (i < n)%N then f (s i ord0) else 0.
  Proof. by rewrite mxE nth_map_upto ?size_col_list // nth_col_list. Qed.

  (* first arg-max *)
  Lemma argmax_from_inv (L : seq F) l best bi i :
    l = drop i L -> (i <= size L)%N -> (bi < i)%N -> best = nth 0 L bi ->
    (forall j, (j < i)%N -> nth 0 L j <= best) ->
    (forall j, (j < bi)%N -> nth 0 L j < best) ->
    let r := argmax_from rops best bi i l in
    [/\ (r < size L)%N, forall j, (j < size L)%N -> nth 0 L j <= nth 0 L r
      & forall j, (j < r)%N -> nth 0 L j < nth 0 L r].
  Proof.
    elim: l best bi i => [|x l IH] best bi i Hl iL bii Hb Hle Hlt /=.
      have Hi : i = size L.
        apply/eqP; rewrite eqn_leq iL /= -subn_eq0 -size_drop -Hl //.
      rewrite -Hb; split=> //; first by rewrite -Hi.
      by move=> j; rewrite -Hi; exact: Hle.
    have iL' : (i < size L)%N.
      by rewrite ltnNge; apply/negP => Hge; move: Hl; rewrite drop_oversize.
    move: Hl; rewrite (drop_nth 0 iL') => -[Hx Hl'].
    case: ifP => [bx|/negbT]; [|rewrite -leNgt => xb].
      have bx' : best < x by exact: bx.
      apply: IH => //.
      - move=> j; rewrite ltnS leq_eqVlt => /orP[/eqP->|ji]; first by rewrite Hx.
        by apply: ltW; apply: le_lt_trans (Hle j ji) bx'.
      - by move=> j ji; apply: le_lt_trans (Hle j ji) bx'.
    apply: IH => //; first exact: ltnW.
    move=> j; rewrite ltnS leq_eqVlt => /orP[/eqP->|ji]; first by rewrite -Hx.
    exact: Hle.
  Qed.

  Lemma argmax_spec (l : seq F) :
    (0 < size l)%N ->
    let r := argmax rops l in
    [/\ (r < size l)%N, forall j, (j < size l)%N -> nth 0 l j <= nth 0 l r
      & forall j, (j < r)%N -> nth 0 l j < nth 0 l r].
  Proof.
    case: l => [|x l] // _; rewrite /argmax.
    apply: (@argmax_from_inv (x :: l) l x 0%N 1%N) => //.
    - by rewrite drop1.
    - by move=> j; rewrite ltnS leqn0 => /eqP->.
  Qed.

  (* np.max returns the value at the arg-max *)
  Lemma fold_omax a (l : seq F) :
    let m := List.fold_left (omax rops) l a in
    [/\ m \in a :: l, a <= m & forall x, x \in l -> x <= m].
  Proof.
    elim: l a => [|x l IH] a /=; first by split=> //; rewrite inE.
    have [Ha Hx] : a <= omax rops a x /\ x <= omax rops a x.
      by rewrite /omax /=; case: (ltP a x) => [/ltW|].
    have [Hin Hge Hall] := IH (omax rops a x); split.
    - move: Hin; rewrite !inE => /orP[/eqP->|->]; last by rewrite !orbT.
      by rewrite /omax /=; case: ifP => _; rewrite eqxx ?orbT.
    - exact: le_trans Ha Hge.
    - by move=> z; rewrite inE => /orP[/eqP->|/Hall] //; exact: le_trans Hx Hge.
  Qed.

  Lemma lmax_argmax (l : seq F) : (0 < size l)%N -> lmax rops l = nth 0 l (argmax rops l).
  Proof.
    move=> Hl; have [Hr Hmax _] := argmax_spec Hl.
    case: l Hl Hr Hmax => [|x l] // _ Hr Hmax; rewrite /lmax /=.
    have [Hin Hge Hall] := fold_omax x l.
    apply/eqP; rewrite eq_le; apply/andP; split.
      by have /(nthP 0) [j Hj <-] := Hin; exact: Hmax.
    have := mem_nth 0 Hr; rewrite inE => /orP[/eqP->|/Hall] //.
  Qed.
End Lists.

(* ---- the SVD-filter algebra -------------------------------------------------------- *)
Section SvdFilter.
  Variable F : rcfType.
  Variables (m p k t : nat).
  Variables (U : 'M[F]_(m, k)) (V : 'M[F]_(p, k)) (y : 'M[F]_(m, t)).
  Hypothesis UU : U^T *m U = 1%:M.
  Hypothesis VV : V^T *m V = 1%:M.

  (* X(s) = U diag(s) V^T,  W(g) = V diag(g) U^T y *)
  Definition Xof (s : 'cV[F]_k) : 'M[F]_(m, p) := U *m diag_mx s^T *m V^T.
  Definition Wof (g : 'cV[F]_k) : 'M[F]_(p, t) := V *m diag_mx g^T *m (U^T *m y).

  Lemma Xof_tr s : (Xof s)^T = V *m diag_mx s^T *m U^T.
  Proof. by rewrite /Xof !trmx_mul trmxK tr_diag_mx mulmxA. Qed.

  Lemma XtW sr g : Xof sr *m Wof g = U *m (diag_mx sr^T *m diag_mx g^T) *m (U^T *m y).
  Proof.
    rewrite /Xof /Wof !mulmxA -[_ *m V^T *m V]mulmxA VV mulmx1.
    by rewrite -!mulmxA.
  Qed.

  Lemma XtXW sr g :
    (Xof sr)^T *m Xof sr *m Wof g
    = V *m (diag_mx sr^T *m diag_mx sr^T *m diag_mx g^T) *m (U^T *m y).
  Proof.
    rewrite -mulmxA XtW Xof_tr !mulmxA -[_ *m U^T *m U]mulmxA UU mulmx1.
    by rewrite -!mulmxA.
  Qed.

  Lemma Xty sr : (Xof sr)^T *m y = V *m diag_mx sr^T *m (U^T *m y).
  Proof. by rewrite Xof_tr -!mulmxA. Qed.

  (* (X^T X + a I) W = X^T y as soon as the filter satisfies (s^2 + a) g = s entrywise *)
  Lemma filter_normal_eq (a : F) (sr g : 'cV[F]_k) :
    (forall i, (sr i ord0 * sr i ord0 + a) * g i ord0 = sr i ord0) ->
    ((Xof sr)^T *m Xof sr + a%:M) *m Wof g = (Xof sr)^T *m y.
  Proof.
    move=> H; rewrite mulmxDl XtXW Xty mul_scalar_mx /Wof.
    rewrite scalemxAl scalemxAr -mulmxDl -mulmxDr; congr (_ *m _ *m _).
    rewrite !mulmx_diag; apply/matrixP => i j; rewrite !mxE.
    case: (i == j); rewrite ?mulr1n ?mulr0n ?mulr0 ?addr0 //.
    by rewrite -mulrDl; exact: H.
  Qed.

  (* W lies in the row space of X(sr) when g = sr * h entrywise *)
  Lemma filter_rowspace (sr g h : 'cV[F]_k) :
    (forall i, g i ord0 = sr i ord0 * h i ord0) ->
    Wof g = (Xof sr)^T *m (U *m diag_mx h^T *m (U^T *m y)).
  Proof.
    move=> H; rewrite Xof_tr /Wof !mulmxA -[_ *m U^T *m U]mulmxA UU mulmx1.
    rewrite -!mulmxA; congr (_ *m _); rewrite !mulmxA; congr (_ *m _ *m _).
    rewrite mulmx_diag; congr diag_mx; apply/rowP => i; rewrite !mxE; exact: H.
  Qed.

  (* no component along the right singular vectors with g_i = 0 *)
  Lemma filter_component (g : 'cV[F]_k) (i : 'I_k) :
    g i ord0 = 0 -> (col i V)^T *m Wof g = 0.
  Proof.
    move=> Hg; rewrite tr_col /Wof -row_mul !mulmxA VV mul1mx mul_diag_mx.
    apply/matrixP => a b; rewrite !mxE; apply: big1 => j _.
    by rewrite !mxE Hg !mul0r.
  Qed.

  (* |W|^2 <= c2 |y|^2 when every g_i^2 <= c2 *)
  Lemma filter_bounded (g : 'cV[F]_k) (c2 : F) :
    0 <= c2 -> (forall i, g i ord0 ^+ 2 <= c2) -> fn2 (Wof g) <= c2 * fn2 y.
  Proof.
    move=> c0 Hg; rewrite /Wof -mulmxA fn2_isol //.
    apply: le_trans (fn2_diag_le (c2:=c2) _ _) _; first by move=> i; rewrite mxE.
    by apply: ler_wpmul2l => //; exact: fn2_bessel.
  Qed.
End SvdFilter.

(* ---- what the normal equations mean: minimiser of the regularised objective ---------- *)
Section RegLS.
  Variable F : rcfType.
  Variables (m p t : nat) (X : 'M[F]_(m, p)) (y : 'M[F]_(m, t)).

  (* |y - X w|^2 + a |w|^2 *)
  Definition ridge_obj (a : F) (w : 'M[F]_(p, t)) : F := fn2 (y - X *m w) + a * fn2 w.

  Lemma ridge_obj_expand a (w d : 'M[F]_(p, t)) :
    (X^T *m X + a%:M) *m w = X^T *m y ->
    ridge_obj a (w + d) = ridge_obj a w + (fn2 (X *m d) + a * fn2 d).
  Proof.
    move=> H.
    have Hr : X^T *m (y - X *m w) = a *: w.
      move: H; rewrite mulmxDl mul_scalar_mx mulmxBr mulmxA => <-.
      by rewrite addrC addKr.
    rewrite /ridge_obj.
    have -> : y - X *m (w + d) = (y - X *m w) - X *m d by rewrite mulmxDr opprD addrA.
    rewrite (fn2B (y - X *m w)) (fn2D w d) ip_mull Hr ipZl.
    ring.
  Qed.

  (* the solution of the normal equations minimises the regularised objective ... *)
  Lemma normal_eq_min a (w : 'M[F]_(p, t)) :
    0 <= a -> (X^T *m X + a%:M) *m w = X^T *m y ->
    forall w', ridge_obj a w <= ridge_obj a w'.
  Proof.
    move=> a0 H w'; rewrite -[w'](subrK w) addrC ridge_obj_expand // ler_addl.
    by apply: addr_ge0; [exact: fn2_ge0 | apply: mulr_ge0 => //; exact: fn2_ge0].
  Qed.

  (* ... and is the only solution when a > 0 *)
  Lemma normal_eq_unique a (w w' : 'M[F]_(p, t)) :
    0 < a -> (X^T *m X + a%:M) *m w = X^T *m y -> (X^T *m X + a%:M) *m w' = X^T *m y ->
    w' = w.
  Proof.
    move=> a0 H H'.
    have E := ridge_obj_expand (w' - w) H; have E' := ridge_obj_expand (w - w') H'.
    rewrite addrC subrK in E; rewrite addrC subrK in E'.
    have Hd : fn2 (w' - w) = fn2 (w - w') by rewrite -fn2N opprB.
    have HX : fn2 (X *m (w' - w)) = fn2 (X *m (w - w')) by rewrite -fn2N -mulmxN opprB.
    rewrite -HX -Hd in E'; set S := fn2 (X *m (w' - w)) + a * fn2 (w' - w) in E E'.
    have S0 : S = 0.
      have : S + S = 0 by apply: (addrI (ridge_obj a w)); rewrite addr0 addrA -E -E'.
      by rewrite -mulr2n => /eqP; rewrite mulrn_eq0 /= => /eqP.
    move/eqP: S0; rewrite /S paddr_eq0 ?fn2_ge0 //; last by rewrite mulr_ge0 ?fn2_ge0 // ltW.
    case/andP => _; rewrite mulf_eq0 (gt_eqF a0) /= => /eqP/fn2_eq0/eqP.
    by rewrite subr_eq0 => /eqP.
  Qed.

  (* a = 0: among all least-squares solutions the one in the row space has minimum norm *)
  Lemma min_norm (w w' : 'M[F]_(p, t)) (z : 'M[F]_(m, t)) :
    X^T *m X *m w = X^T *m y -> w = X^T *m z -> X^T *m X *m w' = X^T *m y ->
    fn2 w <= fn2 w'.
  Proof.
    move=> H Hz H'.
    have Hd : X *m (w' - w) = 0.
      apply: fn2_eq0; rewrite /fn2 ip_mull mulmxA mulmxBr H H' subrr.
      by rewrite /ip trmx0 mul0mx mxtrace0.
    have Hip : ip w (w' - w) = 0.
      by rewrite {1}Hz -ip_mull Hd /ip mulmx0 mxtrace0.
    rewrite -[w'](subrK w) addrC fn2D Hip mulr0 addr0 ler_addl; exact: fn2_ge0.
  Qed.
End RegLS.
