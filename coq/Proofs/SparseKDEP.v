(* C17, layer D — proofs about Model/SparseKDE.v (stdlib style). *)
From Verif Require Import ListX ListXP SparseKDE.
From Coq Require Import QArith Qabs Permutation Sorting.Sorted.
Open Scope Z_scope.

(* ---- first arg-min ------------------------------------------------------------------- *)
Lemma amin_spec l i v :
  amin l = Some (i, v) ->
  (i < length l)%nat /\ nth i l 0 = v /\
  (forall j, (j < length l)%nat -> v <= nth j l 0) /\
  (forall j, (j < i)%nat -> v < nth j l 0).
Proof.
  revert i v; induction l as [|x t IH]; intros i v H; cbn in H; [discriminate|].
  destruct (amin t) as [[j w]|] eqn:Et.
  - specialize (IH j w eq_refl) as (Hj & Hn & Hmin & Hfirst).
    destruct (x <=? w) eqn:Hc; injection H as <- <-.
    + apply Z.leb_le in Hc. split; [cbn; lia|]. split; [reflexivity|]. split.
      * intros [|k] Hk; cbn in *; [lia|]. specialize (Hmin k). lia.
      * intros k Hk; lia.
    + apply Z.leb_gt in Hc. split; [cbn; lia|]. split; [exact Hn|]. split.
      * intros [|k] Hk; cbn in *; [lia|]. apply Hmin; lia.
      * intros [|k] Hk; cbn; [lia|]. apply Hfirst; lia.
  - injection H as <- <-. destruct t as [|y t].
    + split; [cbn; lia|]. split; [reflexivity|]. split.
      * intros [|[|k]] Hk; cbn in *; lia.
      * intros k Hk; lia.
    + cbn in Et. destruct (amin t) as [[? ?]|]; [destruct (y <=? z)|]; discriminate.
Qed.

Lemma amin_some l : l <> [] -> exists i v, amin l = Some (i, v).
Proof.
  destruct l as [|x t]; [congruence|]. intros _. cbn.
  destruct (amin t) as [[j w]|]; [destruct (x <=? w)|]; eauto.
Qed.

(* ---- the label is a first nearest grid point -------------------------------------------- *)
Lemma drow_length cell G p : length (drow cell G p) = length G.
Proof. apply map_length. Qed.

Lemma drow_nth cell G p k :
  (k < length G)%nat -> nth k (drow cell G p) 0 = pdist cell p (nth k G []).
Proof. intros H. unfold drow. now rewrite nth_map_lt with (d' := []). Qed.

Lemma label_spec cell G p :
  G <> [] ->
  let j := label cell G p in
  (j < length G)%nat /\
  (forall k, (k < length G)%nat -> pdist cell p (nth j G []) <= pdist cell p (nth k G [])) /\
  (forall k, (k < j)%nat -> pdist cell p (nth j G []) < pdist cell p (nth k G [])).
Proof.
  intros HG. cbv zeta. unfold label.
  destruct (amin_some (drow cell G p)) as (i & v & E).
  { intros H. apply (f_equal (@length Z)) in H. rewrite drow_length in H.
    destruct G; [congruence|discriminate]. }
  rewrite E. apply amin_spec in E as (Hi & Hn & Hmin & Hfirst).
  rewrite drow_length in *. rewrite drow_nth in Hn by assumption. subst v.
  split; [assumption|]. split.
  - intros k Hk. rewrite <- (drow_nth cell G p k) by assumption. now apply Hmin.
  - intros k Hk. rewrite <- (drow_nth cell G p k) by lia. now apply Hfirst.
Qed.

(* ---- rational sums --------------------------------------------------------------------------- *)
Lemma qsum_nil : qsum [] = 0%Q. Proof. reflexivity. Qed.
Lemma qsum_cons a l : qsum (a :: l) = (a + qsum l)%Q. Proof. reflexivity. Qed.

Lemma qsum_app l m : (qsum (l ++ m) == qsum l + qsum m)%Q.
Proof.
  induction l as [|a l IH]; cbn [app]; [rewrite qsum_nil; ring|].
  rewrite !qsum_cons, IH. ring.
Qed.

Lemma qsum_upd_nth j a l :
  (j < length l)%nat -> (qsum (upd_nth j (nth j l 0 + a) l) == qsum l + a)%Q.
Proof.
  revert j; induction l as [|x l IH]; intros [|j] H; cbn [length] in H; try lia;
    cbn [upd_nth nth]; rewrite !qsum_cons; [ring|].
  rewrite IH by lia. ring.
Qed.

Lemma qsum_scale (W : Q) l : (qsum (map (fun x => x / W) l) == qsum l / W)%Q.
Proof.
  induction l as [|a l IH]; cbn [map]; [rewrite qsum_nil; unfold Qdiv; ring|].
  rewrite !qsum_cons, IH. unfold Qdiv. ring.
Qed.

Lemma map_nth_seq {A} (l : list A) d : map (fun i => nth i l d) (seq 0 (length l)) = l.
Proof.
  induction l as [|a l IH]; [reflexivity|].
  cbn [length seq map nth]. f_equal. rewrite <- seq_shift, map_map. exact IH.
Qed.

Lemma qsum_repeat0 n : (qsum (repeat 0%Q n) == 0)%Q.
Proof. induction n as [|n IH]; cbn [repeat]; [reflexivity|]. rewrite qsum_cons, IH. ring. Qed.

(* ---- the accumulation loop --------------------------------------------------------------------- *)
Lemma concat_upd_nth_snoc (mem : list (list nat)) l x :
  (l < length mem)%nat ->
  Permutation (concat (upd_nth l (nth l mem [] ++ [x]) mem)) (x :: concat mem).
Proof.
  revert l; induction mem as [|m mem IH]; intros [|l] H; cbn [length] in H; try lia;
    cbn [upd_nth nth concat].
  - rewrite <- app_assoc. cbn [app]. symmetry. apply Permutation_middle.
  - rewrite IH by lia. symmetry. apply Permutation_middle.
Qed.

Section Loop.
  Variables (cell : cellT) (G : list (list Z)) (sw : list Q).
  Hypothesis HG : G <> [].
  Let ng := length G.
  Let lab := label cell G.
  Let run (D : list (list Z)) := fold_left (astep cell G sw) D (ast0 ng).
  Let memf (D : list (list Z)) (j : nat) : list nat :=
    filter (fun i => Nat.eqb (lab (nth i D [])) j) (seq 0 (length D)).
  Let wof (i : nat) : Q := nth i sw 0%Q.

  Lemma lab_lt p : (lab p < ng)%nat.
  Proof. apply (label_spec cell G p HG). Qed.

  Lemma memf_snoc D p j :
    memf (D ++ [p]) j = memf D j ++ (if Nat.eqb (lab p) j then [length D] else []).
  Proof.
    unfold memf. rewrite app_length. cbn [length]. rewrite Nat.add_1_r, seq_S, filter_app.
    cbn [filter Nat.add]. rewrite app_nth2, Nat.sub_diag by lia. cbn [nth]. f_equal.
    apply filter_ext_in. intros i Hi. apply in_seq in Hi. now rewrite app_nth1 by lia.
  Qed.

  Lemma run_spec D :
    let s := run D in
    labels s = map lab D /\
    (length (npoints s) = ng /\ length (gweight s) = ng /\ length (members s) = ng) /\
    (forall j, (j < ng)%nat -> nth j (members s) [] = memf D j) /\
    (forall j, (j < ng)%nat -> nth j (npoints s) 0 = Z.of_nat (length (nth j (members s) []))) /\
    (forall j, (j < ng)%nat -> (nth j (gweight s) 0 == qsum (map wof (nth j (members s) [])))%Q) /\
    (qsum (gweight s) == qsum (map wof (seq 0 (length D))))%Q /\
    Permutation (concat (members s)) (seq 0 (length D)).
  Proof.
    induction D as [|p D IH] using rev_ind.
    - cbn. repeat split; try (apply repeat_length).
      + intros j Hj. unfold ast0; cbn. now rewrite nth_repeat.
      + intros j Hj. unfold ast0; cbn. now rewrite !nth_repeat.
      + intros j Hj. unfold ast0; cbn. rewrite !nth_repeat. reflexivity.
      + unfold ast0; cbn. apply qsum_repeat0.
      + unfold ast0; cbn. clear. induction ng as [|n IHn]; cbn; auto.
    - cbv zeta in *. unfold run in *. rewrite fold_left_app. cbn [fold_left].
      set (s := fold_left (astep cell G sw) D (ast0 ng)) in *.
      destruct IH as (Hl & (Ln & Lw & Lm) & Hm & Hn & Hw & Ht & Hp).
      assert (Hlen : length (labels s) = length D) by (rewrite Hl; apply map_length).
      pose proof (lab_lt p) as Hlt. fold lab in Hlt.
      unfold astep. fold lab. cbn [labels npoints gweight members]. rewrite Hlen.
      split; [rewrite Hl, map_app; reflexivity|].
      split; [rewrite !upd_nth_length; auto|].
      assert (Hm' : forall j, (j < ng)%nat ->
                nth j (upd_nth (lab p) (nth (lab p) (members s) [] ++ [length D]) (members s)) []
                = memf (D ++ [p]) j).
      { intros j Hj. rewrite memf_snoc. destruct (Nat.eqb (lab p) j) eqn:E.
        - apply Nat.eqb_eq in E. subst j. rewrite nth_upd_nth_eq by lia. now rewrite Hm.
        - apply Nat.eqb_neq in E. rewrite nth_upd_nth_neq by assumption.
          rewrite app_nil_r. now apply Hm. }
      split; [exact Hm'|]. split; [|split; [|split]].
      + intros j Hj. rewrite Hm' by assumption. rewrite memf_snoc.
        destruct (Nat.eqb (lab p) j) eqn:E.
        * apply Nat.eqb_eq in E. subst j. rewrite nth_upd_nth_eq by lia.
          rewrite Hn by assumption. rewrite Hm by assumption.
          rewrite app_length. cbn [length]. lia.
        * apply Nat.eqb_neq in E. rewrite nth_upd_nth_neq by assumption.
          rewrite app_nil_r, Hn by assumption. now rewrite Hm.
      + intros j Hj. rewrite Hm' by assumption. rewrite memf_snoc.
        destruct (Nat.eqb (lab p) j) eqn:E.
        * apply Nat.eqb_eq in E. subst j. rewrite nth_upd_nth_eq by lia.
          rewrite map_app, qsum_app. cbn [map qsum fold_right].
          rewrite Hw by assumption. rewrite Hm by assumption. fold (wof (length D)). ring.
        * apply Nat.eqb_neq in E. rewrite nth_upd_nth_neq by assumption.
          rewrite app_nil_r, Hw by assumption. now rewrite Hm.
      + rewrite qsum_upd_nth by lia. rewrite Ht.
        rewrite app_length. cbn [length]. rewrite Nat.add_1_r, seq_S, map_app, qsum_app.
        cbn [Nat.add map qsum fold_right]. fold (wof (length D)). ring.
      + rewrite concat_upd_nth_snoc by lia.
        rewrite app_length. cbn [length]. rewrite Nat.add_1_r, seq_S. cbn [Nat.add].
        rewrite <- Permutation_cons_append. now constructor.
  Qed.
End Loop.

Lemma predict_some cell G D sw s :
  predict cell G D sw = Some s ->
  s = fold_left (astep cell G sw) D (ast0 (length G)) /\ (G <> [] \/ D = []).
Proof.
  unfold predict. destruct G as [|g G]; destruct D as [|p D]; intros H; try discriminate;
    injection H as <-; split; try reflexivity; try (left; discriminate); now right.
Qed.

(* ---- C17_assignment_nearest ----------------------------------------------------------------------- *)
Lemma assignment_nearest cell G D sw s :
  predict cell G D sw = Some s ->
  length (labels s) = length D /\
  forall i, (i < length D)%nat ->
    let j := nth i (labels s) O in
    let p := nth i D [] in
    (j < length G)%nat /\
    (forall k, (k < length G)%nat -> pdist cell p (nth j G []) <= pdist cell p (nth k G [])) /\
    (forall k, (k < j)%nat -> pdist cell p (nth j G []) < pdist cell p (nth k G [])).
Proof.
  intros H. apply predict_some in H as (-> & [HG | ->]).
  - pose proof (run_spec cell G sw HG D) as (Hl & _). cbv zeta in Hl.
    split; [rewrite Hl; apply map_length|].
    intros i Hi. cbv zeta. rewrite Hl. rewrite nth_map_lt with (d' := []) by assumption.
    apply (label_spec cell G (nth i D []) HG).
  - cbn. split; [reflexivity|]. intros i Hi; cbn in Hi; lia.
Qed.

(* ---- C17_weights_partition --------------------------------------------------------------------------- *)
Definition members_of (lbl : list nat) (j : nat) : list nat :=
  filter (fun i => Nat.eqb (nth i lbl O) j) (seq 0 (length lbl)).

Lemma weights_partition cell G D sw s :
  predict cell G D sw = Some s -> length sw = length D ->
  length (members s) = length G /\ length (gweight s) = length G /\ length (npoints s) = length G /\
  (forall j, (j < length G)%nat ->
     nth j (members s) [] = members_of (labels s) j /\
     nth j (npoints s) 0 = Z.of_nat (length (nth j (members s) [])) /\
     (nth j (gweight s) 0 == qsum (map (fun i => nth i sw 0%Q) (nth j (members s) [])))%Q) /\
  (forall i, (i < length D)%nat ->
     exists j, (j < length G)%nat /\ In i (nth j (members s) []) /\
               forall j', (j' < length G)%nat -> In i (nth j' (members s) []) -> j' = j) /\
  Permutation (concat (members s)) (seq 0 (length D)) /\
  (qsum (gweight s) == qsum sw)%Q.
Proof.
  intros H Hsw. pose proof (assignment_nearest _ _ _ _ _ H) as (HlenL & Hnear).
  apply predict_some in H as (-> & [HG | ->]).
  - pose proof (run_spec cell G sw HG D) as (Hl & (Ln & Lw & Lm) & Hm & Hn & Hw & Ht & Hp).
    cbv zeta in *.
    set (s := fold_left (astep cell G sw) D (ast0 (length G))) in *.
    assert (Hmo : forall j, (j < length G)%nat -> nth j (members s) [] = members_of (labels s) j).
    { intros j Hj. rewrite Hm by assumption. unfold members_of. rewrite HlenL.
      apply filter_ext_in. intros i Hi. apply in_seq in Hi. rewrite Hl.
      now rewrite nth_map_lt with (d' := []) by lia. }
    repeat split; auto.
    + intros i Hi. destruct (Hnear i Hi) as (Hj & _). cbv zeta in Hj.
      exists (nth i (labels s) O). split; [assumption|]. split.
      * rewrite Hmo by assumption. unfold members_of. apply filter_In. split.
        -- apply in_seq. lia.
        -- apply Nat.eqb_refl.
      * intros j' Hj' Hin. rewrite Hmo in Hin by assumption. unfold members_of in Hin.
        apply filter_In in Hin as (_ & E). apply Nat.eqb_eq in E. now subst.
    + rewrite Ht. rewrite <- Hsw at 1. now rewrite map_nth_seq.
  - cbn. destruct sw; [|discriminate]. unfold ast0; cbn.
    repeat split; try apply repeat_length.
    + now rewrite nth_repeat.
    + now rewrite !nth_repeat.
    + rewrite !nth_repeat. reflexivity.
    + intros i Hi; lia.
    + clear. induction (length G) as [|n IHn]; cbn; auto.
    + apply qsum_repeat0.
Qed.

(* constructor normalisation: the weights, hence the grid weights, total one *)
Lemma norm_weights_total w n :
  ~ (qsum (raw_weights w n) == 0)%Q -> (qsum (norm_weights w n) == 1)%Q.
Proof.
  intros H. unfold norm_weights. rewrite qsum_scale. field. exact H.
Qed.

Lemma norm_weights_length w n :
  (forall l, w = Some l -> length l = n) -> length (norm_weights w n) = n.
Proof.
  intros H. unfold norm_weights. rewrite map_length. destruct w as [l|]; cbn.
  - now apply H.
  - apply repeat_length.
Qed.

Lemma weights_total cell G D w s :
  (forall l, w = Some l -> length l = length D) ->
  ~ (qsum (raw_weights w (length D)) == 0)%Q ->
  assign cell G D w = Some s ->
  (qsum (norm_weights w (length D)) == 1)%Q /\ (qsum (gweight s) == 1)%Q.
Proof.
  intros Hl HW H. unfold assign in H.
  pose proof (norm_weights_total w (length D) HW) as H1. split; [exact H1|].
  apply weights_partition in H; [|now apply norm_weights_length].
  destruct H as (_ & _ & _ & _ & _ & _ & Ht). now rewrite Ht.
Qed.

(* ---- the assignment depends on the data only through the labels -------------------------------------- *)
Lemma fold_astep_ext cell G cell' G' sw D D' s :
  Forall2 (fun p p' => label cell G p = label cell' G' p') D D' ->
  fold_left (astep cell G sw) D s = fold_left (astep cell' G' sw) D' s.
Proof.
  intros H; revert s; induction H as [|p p' D D' E _ IH]; intros s; [reflexivity|].
  cbn [fold_left]. unfold astep at 2 4. rewrite E. apply IH.
Qed.

Lemma predict_ext cell G cell' G' sw D D' :
  length G = length G' ->
  Forall2 (fun p p' => label cell G p = label cell' G' p') D D' ->
  predict cell G D sw = predict cell' G' D' sw.
Proof.
  intros HL HF. unfold predict.
  rewrite (fold_astep_ext cell G cell' G' sw D D' _ HF), HL.
  destruct G as [|g G], G' as [|g' G']; try discriminate; [|reflexivity].
  destruct HF; reflexivity.
Qed.

(* ---- C17_translation (assignment): positions enter only through differences ------------------------- *)
Lemma vsub_vadd t : forall p g, length p = length t -> length g = length t ->
  vsub (vaddZ t p) (vaddZ t g) = vsub p g.
Proof.
  induction t as [|a t IH]; intros [|x p] [|y g] Hp Hg; cbn [length] in *; try discriminate;
    try reflexivity.
  unfold vsub, vaddZ in *. cbn [map2]. f_equal; [lia|]. apply IH; lia.
Qed.

Lemma pdist_translate cell t p g : length p = length t -> length g = length t ->
  pdist cell (vaddZ t p) (vaddZ t g) = pdist cell p g.
Proof. intros Hp Hg. unfold pdist, delta. now rewrite vsub_vadd. Qed.

Lemma label_translate cell d t G p :
  length t = d -> dimsZ d G -> length p = d ->
  label cell (map (vaddZ t) G) (vaddZ t p) = label cell G p.
Proof.
  intros Ht HG Hp. unfold label, drow. rewrite map_map.
  assert (E : map (fun g => pdist cell (vaddZ t p) (vaddZ t g)) G = map (pdist cell p) G).
  { apply map_ext_in. intros g Hg. apply pdist_translate; [congruence|].
    unfold dimsZ in HG. rewrite Forall_forall in HG. rewrite (HG g Hg). congruence. }
  now rewrite E.
Qed.

Lemma Forall2_map_l_in {A} (R : A -> A -> Prop) (f : A -> A) l :
  (forall x, In x l -> R x (f x)) -> Forall2 R l (map f l).
Proof.
  induction l as [|a l IH]; intros H; cbn; constructor.
  - apply H; now left.
  - apply IH. intros x Hx. apply H; now right.
Qed.

Lemma assignment_translation cell d t G D sw :
  length t = d -> dimsZ d G -> dimsZ d D ->
  predict cell (map (vaddZ t) G) (map (vaddZ t) D) sw = predict cell G D sw.
Proof.
  intros Ht HG HD. symmetry. apply predict_ext; [now rewrite map_length|].
  apply Forall2_map_l_in. intros p Hp. symmetry. apply (label_translate cell d); auto.
  unfold dimsZ in HD. rewrite Forall_forall in HD. now apply HD.
Qed.

(* ---- C17_images (assignment): whole-cell shifts leave the minimum-image distance unchanged ------------ *)
Lemma wrap_sq c x :
  0 < c ->
  wrap c x * wrap c x =
  let r := x mod c in if 2 * r <? c then r * r else (r - c) * (r - c).
Proof.
  intros Hc. unfold wrap, rhe. cbv zeta.
  pose proof (Z.div_mod x c ltac:(lia)) as Hx.
  pose proof (Z.mod_pos_bound x c Hc) as Hr.
  set (q := x / c) in *. set (r := x mod c) in *.
  destruct (2 * r <? c) eqn:E1.
  - replace (x - q * c) with r by lia. reflexivity.
  - apply Z.ltb_ge in E1. destruct (c <? 2 * r) eqn:E2.
    + replace (x - (q + 1) * c) with (r - c) by lia. reflexivity.
    + apply Z.ltb_ge in E2. assert (Hh : c = 2 * r) by lia.
      destruct (Z.even q).
      * replace (x - q * c) with r by lia. rewrite Hh at 1 2. nia.
      * replace (x - (q + 1) * c) with (r - c) by lia. reflexivity.
Qed.

Lemma wrap_sq_shift c x k : 0 < c -> wrap c (x + k * c) * wrap c (x + k * c) = wrap c x * wrap c x.
Proof. intros Hc. rewrite !wrap_sq by assumption. cbv zeta. now rewrite Z.mod_add by lia. Qed.

(* the wrapped displacement is a minimum image: |wrap c x| <= c/2 and it differs from x by a
   multiple of c *)
Lemma wrap_bound c x : 0 < c -> - c <= 2 * wrap c x <= c /\ exists k, wrap c x = x - k * c.
Proof.
  intros Hc. split; [|exists (rhe x c); reflexivity].
  unfold wrap, rhe. cbv zeta.
  pose proof (Z.div_mod x c ltac:(lia)) as Hx.
  pose proof (Z.mod_pos_bound x c Hc) as Hr.
  set (q := x / c) in *. set (r := x mod c) in *.
  destruct (2 * r <? c) eqn:E1; [apply Z.ltb_lt in E1; lia|].
  apply Z.ltb_ge in E1. destruct (c <? 2 * r) eqn:E2; [apply Z.ltb_lt in E2; lia|].
  apply Z.ltb_ge in E2. destruct (Z.even q); lia.
Qed.

Lemma sqn_cons a u : sqn (a :: u) = a * a + sqn u.
Proof. unfold sqn. now rewrite dot_cons. Qed.

Lemma pdist_image c :
  cell_pos c -> forall p g m m',
  length p = length c -> length g = length c -> length m = length c -> length m' = length c ->
  pdist (Some c) (map2 Z.add p (map2 Z.mul m c)) (map2 Z.add g (map2 Z.mul m' c))
  = pdist (Some c) p g.
Proof.
  unfold pdist, delta, vsub.
  induction c as [|a c IH]; intros Hc [|x p] [|y g] [|k m] [|k' m'] Hp Hg Hm Hm';
    cbn [length] in *; try discriminate; [reflexivity|].
  inversion Hc as [|? ? Ha Hc']; subst.
  cbn [map2]. rewrite !sqn_cons. rewrite IH by (auto; lia). f_equal.
  replace (x + k * a - (y + k' * a)) with ((x - y) + (k - k') * a) by ring.
  now apply wrap_sq_shift.
Qed.

Lemma label_image c d G G' p p' :
  cell_pos c -> length c = d -> dimsZ d G -> length p = d ->
  Forall2 (image_of c) G G' -> image_of c p p' ->
  label (Some c) G' p' = label (Some c) G p.
Proof.
  intros Hc Hd HG Hp HGG (m & Hm & ->). unfold label, drow.
  assert (E : map (pdist (Some c) (map2 Z.add p (map2 Z.mul m c))) G' = map (pdist (Some c) p) G).
  { induction HGG as [|g g' G G' (m' & Hm' & ->) _ IH]; [reflexivity|].
    inversion HG as [|? ? Hg HG']; subst. cbn [map]. f_equal; [|now apply IH].
    apply pdist_image; auto; congruence. }
  now rewrite E.
Qed.

Lemma Forall2_len {A B} (R : A -> B -> Prop) l m : Forall2 R l m -> length l = length m.
Proof. induction 1; cbn; congruence. Qed.

Lemma assignment_images c d G G' D D' sw :
  cell_pos c -> length c = d -> dimsZ d G -> dimsZ d D ->
  Forall2 (image_of c) G G' -> Forall2 (image_of c) D D' ->
  predict (Some c) G' D' sw = predict (Some c) G D sw.
Proof.
  intros Hc Hd HG HD HGG HDD. symmetry. apply predict_ext.
  - now apply Forall2_len in HGG.
  - induction HDD as [|p p' D D' Hpp _ IH]; constructor.
    + inversion HD; subst. symmetry. now apply (label_image c (length c)).
    + inversion HD; subst. now apply IH.
Qed.

(* ---- homogeneity: scaling all positions (and the cell) by k > 0 leaves the labels unchanged.
   This is what allows the harness to feed dyadic data as integers. --------------------------------------- *)
Definition vscale (k : Z) (u : list Z) : list Z := map (Z.mul k) u.
Definition cscale (k : Z) (cell : cellT) : cellT := option_map (vscale k) cell.

Lemma wrap_scale k c x : 0 < k -> 0 < c -> wrap (k * c) (k * x) = k * wrap c x.
Proof.
  intros Hk Hc. unfold wrap, rhe. cbv zeta.
  rewrite Z.div_mul_cancel_l by lia. rewrite Z.mul_mod_distr_l by lia.
  pose proof (Z.mod_pos_bound x c Hc) as Hr.
  set (q := x / c). set (r := x mod c) in *.
  replace (2 * (k * r) <? k * c) with (2 * r <? c).
  2:{ destruct (2 * r <? c) eqn:E; symmetry; [apply Z.ltb_lt in E; apply Z.ltb_lt; nia|
      apply Z.ltb_ge in E; apply Z.ltb_ge; nia]. }
  replace (k * c <? 2 * (k * r)) with (c <? 2 * r).
  2:{ destruct (c <? 2 * r) eqn:E; symmetry; [apply Z.ltb_lt in E; apply Z.ltb_lt; nia|
      apply Z.ltb_ge in E; apply Z.ltb_ge; nia]. }
  destruct (2 * r <? c); [ring|]. destruct (c <? 2 * r); [ring|]. destruct (Z.even q); ring.
Qed.

Lemma pdist_scale k cell : 0 < k -> (forall c, cell = Some c -> cell_pos c) ->
  forall p g, pdist (cscale k cell) (vscale k p) (vscale k g) = k * k * pdist cell p g.
Proof.
  intros Hk Hc p g. unfold pdist, delta, vsub. destruct cell as [c|]; cbn [cscale option_map].
  - specialize (Hc c eq_refl). revert p g.
    induction Hc as [|a c Ha _ IH]; intros p g.
    + cbn. unfold sqn, dot; cbn; ring.
    + destruct p as [|x p], g as [|y g]; try (cbn; unfold sqn, dot; cbn; ring).
      cbn [vscale map map2]. rewrite !sqn_cons. unfold vscale in IH. rewrite IH.
      replace (k * x - k * y) with (k * (x - y)) by ring. rewrite wrap_scale by assumption. ring.
  - revert g; induction p as [|x p IH]; intros [|y g]; try (cbn; unfold sqn, dot; cbn; ring).
    cbn [vscale map map2]. rewrite !sqn_cons. unfold vscale in IH. rewrite IH. ring.
Qed.

Lemma amin_scale K l : 0 < K ->
  amin (map (Z.mul K) l) = option_map (fun jv => (fst jv, K * snd jv)) (amin l).
Proof.
  intros HK. induction l as [|x t IH]; [reflexivity|]. cbn [map amin]. rewrite IH.
  destruct (amin t) as [[j w]|]; cbn [option_map fst snd]; [|reflexivity].
  replace (K * x <=? K * w) with (x <=? w).
  2:{ destruct (x <=? w) eqn:E; symmetry; [apply Z.leb_le in E; apply Z.leb_le; nia|
      apply Z.leb_gt in E; apply Z.leb_gt; nia]. }
  destruct (x <=? w); reflexivity.
Qed.

Lemma label_scale k cell G p : 0 < k -> (forall c, cell = Some c -> cell_pos c) ->
  label (cscale k cell) (map (vscale k) G) (vscale k p) = label cell G p.
Proof.
  intros Hk Hc. unfold label, drow. rewrite map_map.
  rewrite (map_ext _ (fun g => (k * k) * pdist cell p g)) by (intros g; now apply pdist_scale).
  rewrite <- (map_map (pdist cell p) (Z.mul (k * k))). rewrite amin_scale by nia.
  destruct (amin (map (pdist cell p) G)) as [[j w]|]; reflexivity.
Qed.

Lemma assignment_scale k cell G D sw : 0 < k -> (forall c, cell = Some c -> cell_pos c) ->
  predict (cscale k cell) (map (vscale k) G) (map (vscale k) D) sw = predict cell G D sw.
Proof.
  intros Hk Hc. symmetry. apply predict_ext; [now rewrite map_length|].
  apply Forall2_map_l_in. intros p _. symmetry. now apply label_scale.
Qed.
