(* C08 instances: FPS family (exact models), Voronoi FPS, oracle-stream scorers (CUR family). *)
From Verif Require Import ListX Greedy FPS Voronoi Select ListXP GreedyP FPSP FPSInst GeomP
  VoronoiP SimP SelectP HistoryP C02Thm C01Thm.

(* ---- plain FPS --------------------------------------------------------------------------- *)
Section FPS08.
  Variables (cs : list (list Z)) (d : nat) (ycand : option (list (list Z))).
  Hypothesis Hd : dims d cs.
  Notation n := (length cs).
  Notation fupd := (dupd (fps_norms cs) (fps_cross cs)).
  Notation FPc := (FP cs).

  Lemma FPS_len s : FPc s -> length (dscore s) = n.
  Proof. apply FP_len. Qed.
  Lemma FPS_upd s i : FPc s -> (i < n)%nat -> FPc (fupd s i).
  Proof. eapply FP_upd. intros l Hl. eapply fps_newdist; eauto. Qed.

  Definition fps_chain (g : fps_g) (sched : list nat) : fps_g :=
    fold_left (fun g nj => fst (fps_run cs ycand NoThr nj g)) sched g.

  Theorem fps_chain_equals_cold g sched nr :
    GInv dst cs ycand FPc g -> nondecreasing_from (length (sel g)) (sched ++ [nr]) -> (nr <= n)%nat ->
    fps_chain g (sched ++ [nr]) = fst (fps_run cs ycand NoThr nr g).
  Proof.
    intros HG Hm Hn.
    exact (chain_equals_cold dst dscore fupd cs ycand FPc FPS_len FPS_upd g sched nr HG Hm Hn).
  Qed.

  (* FPS initialised with its own selected prefix starts from the very state the cold fit had *)
  Theorem fps_init_prefix i0 k :
    let g := fst (fps_fit cs ycand [i0] NoThr k) in
    fps_init cs ycand (sel g) = g.
  Proof.
    intros g. subst g. unfold fps_fit, fps_run, fps_g.
    destruct (run_is_fold dst dscore fupd cs ycand
                (k - length (sel (fps_init cs ycand [i0]))) (fps_init cs ycand [i0])) as (new & H1 & H2).
    rewrite H1, H2. change (sel (fps_init cs ycand [i0])) with [i0].
    unfold fps_init. rewrite fold_left_app. reflexivity.
  Qed.

  Theorem fps_init_prefix_continues i0 k m :
    let g := fst (fps_fit cs ycand [i0] NoThr k) in
    fst (fps_fit cs ycand (sel g) NoThr m) = fst (fps_run cs ycand NoThr m g).
  Proof.
    intros g. unfold fps_fit at 1. f_equal. f_equal. exact (fps_init_prefix i0 k).
  Qed.
End FPS08.

(* ---- Voronoi FPS ----------------------------------------------------------------------------- *)
Section Vor08.
  Variables (cs : list (list Z)) (d : nat) (ycand : option (list (list Z))).
  Hypothesis Hd : dims d cs.
  Variable br : nat -> nat -> bool.
  Notation n := (length cs).

  Definition VP (s : vst) : Prop := exists sl, VInv cs s sl.
  Lemma VP_len s : VP s -> length (vscore s) = n.
  Proof. intros (sl & _ & _ & H & _). unfold vscore. now rewrite map_length. Qed.
  Lemma VP_upd s i : VP s -> (i < n)%nat -> VP (vupd cs br s i).
  Proof.
    intros (sl & HV) Hi. exists (sl ++ [i]).
    exact (proj1 (vupd_inv cs d Hd br s sl i HV Hi)).
  Qed.

  Definition vor_chain (g : vor_g) (sched : list nat) : vor_g :=
    fold_left (fun g nj => fst (vor_run cs br ycand NoThr nj g)) sched g.

  Theorem vor_chain_equals_cold g sched nr :
    GInv vst cs ycand VP g -> nondecreasing_from (length (sel g)) (sched ++ [nr]) -> (nr <= n)%nat ->
    vor_chain g (sched ++ [nr]) = fst (vor_run cs br ycand NoThr nr g).
  Proof.
    intros HG Hm Hn.
    exact (chain_equals_cold vst vscore (vupd cs br) cs ycand VP VP_len VP_upd g sched nr HG Hm Hn).
  Qed.
End Vor08.

(* ---- oracle-stream scorers (CUR family): conditional on the scores being the same ------------- *)
Section Stream08.
  Variables (cand : list (list Z)) (ycand : option (list (list Z))).
  Notation n := (length cand).

  Definition s_chain (g : gst stream) (sched : list nat) : gst stream :=
    fold_left (fun g nj => fst (s_run cand ycand NoThr (nj - length (sel g)) g)) sched g.

  Theorem stream_chain_equals_cold g sched nr :
    GInv stream cand ycand (SP cand) g ->
    nondecreasing_from (length (sel g)) (sched ++ [nr]) -> (nr <= n)%nat ->
    s_chain g (sched ++ [nr]) = fst (s_run cand ycand NoThr (nr - length (sel g)) g).
  Proof.
    intros HG Hm Hn.
    exact (chain_equals_cold stream (s_score n) s_upd cand ycand (SP cand)
                             (SP_len cand) (SP_upd cand) g sched nr HG Hm Hn).
  Qed.
End Stream08.
