(* C14, extension (round 3): statements that were missing or partial.
     - losses_monotone_all : the training reconstruction and regression losses do not increase
       from k to k+1 in BOTH spaces and WITHOUT assuming that every component is retained
       (a component with eigenvalue <= tol is zeroed by the code and then contributes nothing);
     - nested_le / losses_antitone : the same for every j <= k (induction over the difference);
     - transform_general : sklearn's transform on data that is not centred;
     - the reconstruction / prediction of the training set is the orthogonal projection onto the
       retained eigenvectors (both spaces).
   (ssreflect / mathcomp style; imports the shared PCovR files, changes none of them) *)
From mathcomp Require Import all_ssreflect all_algebra.
From Verif Require Import MExp MExpMx PCovR PCovRP PCovRProg KyFan C14Thm C04Thm PCovRNested.
Set Implicit Arguments.
Unset Strict Implicit.
Unset Printing Implicit Defensive.
Import Order.TTheory GRing.Theory Num.Theory.
Local Open Scope ring_scope.

(* ---- residual of a symmetric idempotent ------------------------------------------------ *)
Section ProjResidual.
  Variable F : rcfType.

  Lemma fro2_proj n c (P : 'M[F]_n) (A : 'M[F]_(n, c)) :
    P^T = P -> P *m P = P ->
    fro2 (A - P *m A) = \tr (A^T *m A) - \tr (A^T *m P *m A).
  Proof.
    move=> hs hi; rewrite /fro2 [(A - _)^T]linearB /= trmx_mul hs mulmxBl !mulmxBr.
    by rewrite !mulmxA -(mulmxA A^T P P) hi subrr subr0 linearB.
  Qed.
End ProjResidual.

(* ---- one more (possibly masked) component ---------------------------------------------- *)
Section MaskedStep.
  Variable F : rcfType.
  Variables (n k : nat) (tol : F) (Q' : 'M[F]_(n, k + 1)) (S' : 'cV[F]_(k + 1)).
  Hypothesis tol_ge0 : 0 <= tol.
  Let Q : 'M[F]_(n, k) := lsubmx Q'.
  Let v : 'M[F]_(n, 1) := rsubmx Q'.
  Let S : 'cV[F]_k := usubmx S'.
  Let M' := dmap (g_mk tol) S'.
  Let M := dmap (g_mk tol) S.
  Let mu : 'M[F]_1 := dmap (g_mk tol) (dsubmx S').
  (* the retained columns of Q' are orthonormal (all that the two spaces provide) *)
  Hypothesis hQM : Q'^T *m Q' *m M' = M'.

  Definition mproj (j : nat) (Qj : 'M[F]_(n, j)) (Sj : 'cV[F]_j) : 'M[F]_n :=
    Qj *m dmap (g_mk tol) Sj *m Qj^T.

  Lemma MM j (Sj : 'cV[F]_j) :
    dmap (g_mk tol) Sj *m dmap (g_mk tol) Sj = dmap (g_mk tol) Sj.
  Proof. by rewrite dmap_mul; apply: dmap_ext => i; exact: g_mk_mk. Qed.

  Lemma mproj_sym j (Qj : 'M[F]_(n, j)) (Sj : 'cV[F]_j) : (mproj Qj Sj)^T = mproj Qj Sj.
  Proof. by rewrite /mproj !trmx_mul trmxK dmap_tr mulmxA. Qed.

  Lemma mproj_idem j (Qj : 'M[F]_(n, j)) (Sj : 'cV[F]_j) :
    Qj^T *m Qj *m dmap (g_mk tol) Sj = dmap (g_mk tol) Sj ->
    mproj Qj Sj *m mproj Qj Sj = mproj Qj Sj.
  Proof.
    move=> h; rewrite /mproj !mulmxA -(mulmxA _ Qj^T Qj) -(mulmxA _ (Qj^T *m Qj)) h.
    by rewrite -(mulmxA Qj) MM.
  Qed.

  Lemma hQM_trunc : Q^T *m Q *m M = M.
  Proof.
    have := hQM; rewrite /M' gram_blocks dmap_block mulmx_block !mulmx0 !addr0 !add0r.
    by move=> /eq_block_mx [h _ _ _].
  Qed.

  Lemma mproj_step : mproj Q' S' = mproj Q S + v *m mu *m v^T.
  Proof.
    rewrite /mproj -{1 2}(hsubmxK Q') dmap_block mul_row_block !mulmx0 addr0 add0r.
    by rewrite tr_row_mx mul_row_col.
  Qed.

  Lemma mu_sym : mu^T = mu. Proof. exact: dmap_tr. Qed.
  Lemma mu_idem : mu *m mu = mu. Proof. exact: MM. Qed.

  Lemma masked_loss_more c (A : 'M[F]_(n, c)) :
    fro2 (A - mproj Q' S' *m A) <= fro2 (A - mproj Q S *m A).
  Proof.
    rewrite !fro2_proj ?mproj_sym //; try exact: mproj_idem hQM_trunc; try exact: mproj_idem hQM.
    rewrite ler_sub // mproj_step mulmxDr mulmxDl linearD /= ler_addl.
    have -> : A^T *m (v *m mu *m v^T) *m A = (mu *m v^T *m A)^T *m (mu *m v^T *m A).
      by rewrite !trmx_mul trmxK mu_sym !mulmxA -(mulmxA _ mu mu) mu_idem.
    exact: mxtrace_gram_ge0.
  Qed.
End MaskedStep.

(* ---- the fitted estimator reconstructs / predicts the training set by such a projector --- *)
Section OwnProjector.
  Variable F : rcfType.
  Variables (n m p k : nat) (env : env_mx F).
  Local Notation tol := (e_tol env).
  Local Notation S := (e_S k env).
  Local Notation X := (e_X n m env).
  Local Notation Y := (e_Y n p env).

  (* orthonormal directions in sample space spanned by the latent coordinates:
     V (sample space), X C^-1/2 V (feature space) *)
  Definition own_Q (sp : bool) : 'M[F]_(n, k) :=
    if sp then e_Vs n k env
    else f_U X tol (e_UC m env) (e_vC m env) (e_Vf m k env).

  Lemma own_projector sp : centred n m env -> fit_oracle n m p k env sp ->
    let T := transform_prog n m p k sp (eX n m) in
    eval_mx env (inverse_prog n m k sp T) = mproj tol (own_Q sp) S *m X
    /\ eval_mx env (predict_t_prog n m p k sp T) = mproj tol (own_Q sp) S *m Y.
  Proof.
    move=> hc ho T; rewrite /T {T} inverse_formula predict_t_formula transform_centred //.
    rewrite -/X /mproj; case: sp ho => /=.
    - case=> t0 hw [v1 v2]; rewrite kern_formula in v2.
      by rewrite /pxt_of /ptx_of /pty_of (s_reconstruct t0 hw v2) (s_predict Y t0 hw v2).
    - case=> t0 [u1 u2 u3] hp [v1 v2].
      rewrite /lstsq_oracle cisqrt_formula in hp.
      by rewrite /pxt_of /ptx_of /pty_of (f_reconstruct _ _ t0 u1 u2 hp) (f_predict _ _ _ _ _ _ t0).
  Qed.

  Lemma own_QM sp : fit_oracle n m p k env sp ->
    (own_Q sp)^T *m own_Q sp *m dmap (g_mk tol) S = dmap (g_mk tol) S.
  Proof.
    case: sp => /=.
    - by case=> t0 hw [v1 v2]; rewrite v1 mul1mx.
    - case=> t0 [u1 u2 u3] hp [v1 v2]; rewrite cov_formula in v2.
      apply: (f_UtU t0 u1 u2 u3 v1 v2) => i.
      by rewrite g_mk_mk.
  Qed.
End OwnProjector.

Section LossesAll.
  Variable F : rcfType.
  Variables (n m p : nat) (env : env_mx F).

  (* training losses in the given space (train_loss_x / _y of PCovRNested.v are sp = true) *)
  Definition train_loss_x_in (sp : bool) (j : nat) : F :=
    fro2 (e_X n m env
          - eval_mx env (inverse_prog n m j sp (transform_prog n m p j sp (eX n m)))).
  Definition train_loss_y_in (sp : bool) (j : nat) : F :=
    fro2 (e_Y n p env
          - eval_mx env (predict_t_prog n m p j sp (transform_prog n m p j sp (eX n m)))).

  (* truncating the oracle answer for k+1 gives an oracle answer for k, both spaces *)
  Lemma fit_oracle_trunc_all k sp :
    nested_oracle n m k env -> fit_oracle n m p (k + 1) env sp -> fit_oracle n m p k env sp.
  Proof.
    case: sp; first exact: fit_oracle_trunc.
    move=> [_ hvf hs] [t0 hu hp [v1 v2]]; split=> //; split.
    - by rewrite hvf; exact: lsub_orth v1.
    - by rewrite hvf mulmx_lsub v2 hs !dmap_id lsub_mul_dmap.
  Qed.

  Lemma own_Q_trunc k sp : nested_oracle n m k env ->
    own_Q n m k env sp = lsubmx (own_Q n m (k + 1) env sp).
  Proof.
    move=> [hvs hvf _]; case: sp; rewrite /own_Q //.
    by rewrite /f_U hvf mulmx_lsub.
  Qed.

  Theorem losses_monotone_all k sp :
    centred n m env -> nested_oracle n m k env -> fit_oracle n m p (k + 1) env sp ->
    train_loss_x_in sp (k + 1) <= train_loss_x_in sp k
    /\ train_loss_y_in sp (k + 1) <= train_loss_y_in sp k.
  Proof.
    move=> hc hn ho.
    have ho0 := fit_oracle_trunc_all hn ho.
    have [x1 y1] := own_projector hc ho.
    have [x0 y0] := own_projector hc ho0.
    rewrite /train_loss_x_in /train_loss_y_in x1 y1 x0 y0 (own_Q_trunc sp hn).
    have -> : e_S k env = usubmx (e_S (k + 1) env) by case: hn.
    have t0 : 0 <= e_tol env by case: sp ho {ho0 x1 y1 x0 y0} => /= [[]|[]].
    have hq := own_QM ho.
    by split; exact: (masked_loss_more hq).
  Qed.
End LossesAll.

(* ---- every j <= k: nestedness and antitone losses by induction --------------------------- *)
Section Chain.
  Variable F : rcfType.
  Variables (n m p : nat) (env : env_mx F).

  (* the oracle answers for all sizes j .. j + d are truncations of each other *)
  Fixpoint nested_chain (j d : nat) : Prop :=
    match d with
    | 0 => True
    | d'.+1 => nested_oracle n m j env /\ nested_chain (j + 1)%N d'
    end.

  Lemma fit_oracle_chain sp d : forall j,
    nested_chain j d -> fit_oracle n m p (j + d) env sp -> fit_oracle n m p j env sp.
  Proof.
    elim: d => [|d ih] j /=; first by rewrite addn0.
    case=> hn hch; rewrite -addn1 (addnC d) addnA => ho.
    exact: (fit_oracle_trunc_all hn (ih _ hch ho)).
  Qed.

  Theorem losses_antitone sp d : forall j,
    centred n m env -> nested_chain j d -> fit_oracle n m p (j + d) env sp ->
    train_loss_x_in n m p env sp (j + d) <= train_loss_x_in n m p env sp j
    /\ train_loss_y_in n m p env sp (j + d) <= train_loss_y_in n m p env sp j.
  Proof.
    elim: d => [|d ih] j hc /=; first by rewrite addn0.
    case=> hn hch; rewrite -addn1 (addnC d) addnA => ho.
    have [lx ly] := ih (j + 1)%N hc hch ho.
    have ho1 := fit_oracle_chain hch ho.
    have [sx sy] := losses_monotone_all hc hn ho1.
    by split; [exact: le_trans lx sx | exact: le_trans ly sy].
  Qed.
End Chain.

(* ---- transform on data that is not centred: sklearn subtracts mean_ ----------------------- *)
Section General.
  Variable F : rcfType.
  Variables (n m p k : nat) (env : env_mx F).

  Theorem transform_general sp q (Z : mexp q m) :
    eval_mx env (transform_prog n m p k sp Z)
    = (eval_mx env Z - const_mx 1 *m e_mean n m env) *m eval_mx env (pxt_prog n m p k sp).
  Proof. by rewrite transform_formula pxt_formula mulmxBl mulmxA. Qed.

  (* round trip for an ARBITRARY T (not only one produced by transform): the retained
     coordinates come back, the masked ones are zeroed; with every component retained it is T *)
  Theorem roundtrip_any_retained sp q (T : mexp q k) :
    centred n m env -> fit_oracle n m p k env sp -> (forall i, e_tol env < e_S k env i 0) ->
    eval_mx env (transform_prog n m p k sp (inverse_prog n m k sp T)) = eval_mx env T.
  Proof.
    by move=> hc ho hr; rewrite roundtrip_any // (mask_eq1 hr) mulmx1.
  Qed.
End General.
