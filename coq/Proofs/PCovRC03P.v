(* C03, extension round 3 (ssreflect style).  New algebra for the route-independence theorems:

   1. TopKMasked: top-k uniqueness WITHOUT "all k components retained": the second family only
      has to be orthonormal on the retained components (what the feature route delivers), the
      gap is only required between the rest of the spectrum and the RETAINED eigenvalues;
      conclusion for every function f that vanishes on the masked eigenvalues.
   2. Signs: when the retained eigenvalues are simple, the two families differ by a diagonal
      matrix of signs on the retained components ("up to the sign of each component").
   3. SvdEigen: the contract of the LAPACK call the code makes (a singular value decomposition
      M = U diag(s) V^T of a symmetric positive semi-definite matrix) implies the eigen-equation
      M V = V diag(s) that the PCovR theorems take as oracle hypothesis, also after the
      truncation [:, :k].
   4. Flip: svd_flip (multiplying the retained vectors by signs) preserves the oracle hypotheses.
   5. Ridge: the normal equations of a ridge regressor with alpha != 0 put the weights into the
      row space of X; for such weights the projectors pxt_ ptx_ and pxy_ themselves (hence
      reconstruction and prediction of NEW data) are route independent. *)
From mathcomp Require Import all_ssreflect all_algebra.
From Verif Require Import MExp MExpMx PCovR PCovRC03 PCovRP PCovRProg C14Thm C03Thm.
Set Implicit Arguments.
Unset Strict Implicit.
Unset Printing Implicit Defensive.
Import Order.TTheory GRing.Theory Num.Theory.
Local Open Scope ring_scope.

(* ------------------------------------------------------------------ more diagonal calculus *)
Section Diag2.
  Variable F : rcfType.

  Lemma dmap_add k f g (v : 'cV[F]_k) : dmap f v + dmap g v = dmap (fun x => f x + g x) v.
  Proof. by apply/matrixP=> i j; rewrite mxE !dmapE mulrnDl. Qed.

  Lemma dmap_0 k (v : 'cV[F]_k) : dmap (fun=> 0) v = 0.
  Proof. by apply/matrixP=> i j; rewrite dmapE mxE mul0rn. Qed.

  Lemma dmap_diag_entry k f (v : 'cV[F]_k) i : dmap f v i i = f (v i 0).
  Proof. by rewrite dmapE eqxx mulr1n. Qed.
End Diag2.

(* ------------------------------------------------------------------ masked top-k uniqueness *)
Section TopKMasked.
  Variable F : rcfType.
  Variables (n k r : nat) (K : 'M[F]_n) (tol : F).
  Variables (U1 U2 : 'M[F]_(n, k)) (S : 'cV[F]_k) (Uc : 'M[F]_(n, r)) (Sc : 'cV[F]_r).
  Local Notation M := (dmap (g_mk tol) S).
  Local Notation E := (dmap (fun x => 1 - g_mk tol x) S).
  Hypothesis Ksym : K^T = K.
  Hypothesis H11 : U1^T *m U1 = 1%:M.
  Hypothesis H12 : K *m U1 = U1 *m diag_mx S^T.
  (* the second family: eigenvectors, orthonormal only on the retained components *)
  Hypothesis H21 : U2^T *m U2 *m M = M.
  Hypothesis H22 : K *m U2 = U2 *m diag_mx S^T.
  Hypothesis Hc2 : K *m Uc = Uc *m diag_mx Sc^T.
  Hypothesis Hcomplete : U1 *m U1^T + Uc *m Uc^T = 1%:M.
  (* the rest of the spectrum is separated from the RETAINED eigenvalues only *)
  Hypothesis Hgap : forall i j, tol < S j 0 -> Sc i 0 != S j 0.

  Let R : 'M[F]_k := U1^T *m U2.
  Let N : 'M[F]_k := R *m M.

  Lemma mk_ME : M + E = 1%:M.
  Proof. by rewrite dmap_add -(dmap_1 S); apply: dmap_ext => i; rewrite addrC subrK. Qed.

  Lemma mk_MM : M *m M = M.
  Proof. by rewrite dmap_mul; apply: dmap_ext => i; exact: g_mk_mk. Qed.

  Lemma mk_EE : E *m E = E.
  Proof.
    rewrite dmap_mul; apply: dmap_ext => i.
    by rewrite /g_mk; case: ifP => _; rewrite ?subrr ?subr0 ?mulr0 ?mulr1.
  Qed.

  Lemma mk_MEz : M *m E = 0.
  Proof.
    rewrite dmap_mul -(dmap_0 S); apply: dmap_ext => i.
    by rewrite /g_mk; case: ifP => _; rewrite ?subrr ?subr0 ?mulr0 ?mul0r.
  Qed.

  Lemma mk_EMz : E *m M = 0.
  Proof.
    rewrite dmap_mul -(dmap_0 S); apply: dmap_ext => i.
    by rewrite /g_mk; case: ifP => _; rewrite ?subrr ?subr0 ?mulr0 ?mul0r.
  Qed.

  Lemma mtopk_Z0 : Uc^T *m U2 *m M = 0.
  Proof.
    set Z := Uc^T *m U2.
    have hZ : diag_mx Sc^T *m Z = Z *m diag_mx S^T.
      by rewrite /Z mulmxA -(tr_eig Ksym Hc2) -!mulmxA H22.
    apply/matrixP=> i j; rewrite mul_mx_dmap [RHS]mxE /g_mk.
    case: ifP => [tj|_]; last by rewrite mulr0.
    rewrite mulr1; move/matrixP/(_ i j): hZ.
    rewrite mul_diag_mx mul_mx_diag !mxE [X in _ = X]mulrC => /eqP.
    by rewrite -subr_eq0 -mulrBl mulf_eq0 subr_eq0 (negbTE (Hgap i tj)) /= => /eqP.
  Qed.

  Lemma mtopk_RM : R *m M = M *m R.
  Proof. by rewrite /R (topk_comm Ksym H12 H22). Qed.

  Lemma mtopk_RE : R *m E = E *m R.
  Proof. by rewrite /R (topk_comm Ksym H12 H22). Qed.

  Lemma mtopk_comm f : dmap f S *m N = N *m dmap f S.
  Proof.
    have hc : dmap f S *m M = M *m dmap f S.
      by rewrite !dmap_mul; apply: dmap_ext => i; rewrite mulrC.
    by rewrite /N mulmxA /R (topk_comm Ksym H12 H22) -mulmxA hc mulmxA.
  Qed.

  Lemma mtopk_U2 : U2 *m M = U1 *m N.
  Proof.
    rewrite /N /R !mulmxA -[LHS]mul1mx -Hcomplete mulmxDl.
    by rewrite -!mulmxA (mulmxA Uc^T) mtopk_Z0 mulmx0 addr0.
  Qed.

  Lemma mtopk_NtN : N^T *m N = M.
  Proof.
    have <- : (U2 *m M)^T *m (U2 *m M) = N^T *m N.
      by rewrite mtopk_U2 trmx_mul -mulmxA (mulmxA U1^T) H11 mul1mx.
    by rewrite trmx_mul dmap_tr -mulmxA (mulmxA U2^T) H21 mk_MM.
  Qed.

  Lemma mtopk_NE : N *m E = 0.
  Proof. by rewrite /N -mulmxA mk_MEz mulmx0. Qed.

  Lemma mtopk_EN : E *m N = 0.
  Proof. by rewrite /N mulmxA -mtopk_RE -mulmxA mk_EMz mulmx0. Qed.

  Lemma mtopk_NNt : N *m N^T = M.
  Proof.
    have hEt : E^T = E by exact: dmap_tr.
    have hNtE : N^T *m E = 0.
      by apply: trmx_inj; rewrite trmx_mul trmxK hEt mtopk_EN trmx0.
    have hENt : E *m N^T = 0.
      by apply: trmx_inj; rewrite trmx_mul trmxK hEt mtopk_NE trmx0.
    have h1 : (N + E)^T *m (N + E) = 1%:M.
      have -> : (N + E)^T = N^T + E by rewrite linearD /= dmap_tr.
      rewrite mulmxDl !mulmxDr mtopk_NtN hNtE mtopk_EN mk_EE.
      by rewrite addr0 add0r mk_ME.
    have := mulmx1C h1.
    have -> : (N + E)^T = N^T + E by rewrite linearD /= dmap_tr.
    rewrite mulmxDl !mulmxDr mtopk_NE hENt mk_EE addr0 add0r -mk_ME.
    exact: addIr.
  Qed.

  (* every function of the retained part coincides *)
  Theorem topk_unique_masked f :
    (forall i, f (S i 0) = g_mk tol (S i 0) * f (S i 0)) ->
    U2 *m dmap f S *m U2^T = U1 *m dmap f S *m U1^T.
  Proof.
    move=> hf.
    have hfM1 : dmap f S *m M = dmap f S.
      by rewrite dmap_mul; apply: dmap_ext => i; rewrite mulrC -hf.
    have hfM2 : M *m dmap f S = dmap f S.
      by rewrite dmap_mul; apply: dmap_ext => i; rewrite -hf.
    have -> : U2 *m dmap f S *m U2^T = (U2 *m M) *m dmap f S *m (U2 *m M)^T.
      by rewrite trmx_mul dmap_tr mulmxA -(mulmxA (U2 *m M)) hfM1 -(mulmxA U2 M) hfM2.
    rewrite mtopk_U2 trmx_mul.
    have -> : U1 *m N *m dmap f S *m (N^T *m U1^T) = U1 *m (N *m dmap f S *m N^T) *m U1^T.
      by rewrite !mulmxA.
    by rewrite -mtopk_comm -(mulmxA (dmap f S)) mtopk_NNt hfM1.
  Qed.

  (* ---- simple retained eigenvalues: the families differ by SIGNS on the retained components *)
  Hypothesis Hsimple : forall i j, tol < S j 0 -> i != j -> S i 0 != S j 0.

  Lemma mtopk_N_offdiag i j : i != j -> N i j = 0.
  Proof.
    move=> ij; rewrite /N mul_mx_dmap /g_mk; case: ifP => [tj|_]; last by rewrite mulr0.
    rewrite mulr1.
    have hR : diag_mx S^T *m R = R *m diag_mx S^T.
      by rewrite /R mulmxA -(tr_eig Ksym H12) -!mulmxA H22.
    move/matrixP/(_ i j): hR; rewrite mul_diag_mx mul_mx_diag !mxE [X in _ = X]mulrC => /eqP.
    by rewrite -subr_eq0 -mulrBl mulf_eq0 subr_eq0 (negbTE (Hsimple tj ij)) /= => /eqP.
  Qed.

  Definition sign_vec : 'rV[F]_k := \row_i (if tol < S i 0 then N i i else 1).

  Lemma sign_vec_pm1 i : (sign_vec 0 i == 1) || (sign_vec 0 i == -1).
  Proof.
    rewrite -eqf_sqr expr1n expr2 /sign_vec mxE; case: ifP => [ti|_]; last by rewrite mulr1.
    have := mtopk_NNt => /matrixP/(_ i i).
    rewrite dmap_diag_entry /g_mk ti mxE (bigD1 i) //= big1 ?addr0; last first.
      by move=> j ji; rewrite (mtopk_N_offdiag (_ : i != j)) ?mul0r // eq_sym.
    by rewrite [N^T i i]mxE => ->.
  Qed.

  Theorem topk_signs g :
    (forall i, g (S i 0) = g_mk tol (S i 0) * g (S i 0)) ->
    U2 *m dmap g S = U1 *m dmap g S *m diag_mx sign_vec.
  Proof.
    move=> hg.
    have hgM : M *m dmap g S = dmap g S.
      by rewrite dmap_mul; apply: dmap_ext => i; rewrite -hg.
    rewrite -{1}hgM mulmxA mtopk_U2 -(mulmxA U1 N) -mtopk_comm -[RHS]mulmxA; congr (_ *m _).
    apply/matrixP=> i j; rewrite mul_dmap_mx mul_dmap_mx [in RHS]mxE.
    have [<-|ij] := eqVneq i j.
      rewrite mulr1n [sign_vec 0 i]mxE; case: ifP => // /negbT ti.
      by rewrite hg /g_mk (negbTE ti) !mul0r.
    by rewrite mtopk_N_offdiag // mulr0n.
  Qed.
End TopKMasked.

(* ------------------------------------------------------------------ SVD contract => eigen *)
Section SvdEigen.
  Variable F : rcfType.

  Definition psd d (M : 'M[F]_d) : Prop := forall x : 'cV[F]_d, 0 <= (x^T *m M *m x) 0 0.

  Lemma cv_sq_ge0 d (w : 'cV[F]_d) : 0 <= (w^T *m w) 0 0.
  Proof. by rewrite trmx_mul_diag_entry; apply: sumr_ge0 => i _; exact: sqr_ge0. Qed.

  Lemma cv_sq_eq0 d (w : 'cV[F]_d) : (w^T *m w) 0 0 = 0 -> w = 0.
  Proof. by move=> h; apply: gram_eq0; apply/matrixP=> i j; rewrite !ord1 h mxE. Qed.

  (* a positive semi-definite matrix has the same eigenvectors as its square *)
  Lemma psd_sq_eig d (M : 'M[F]_d) (v : 'cV[F]_d) (s : F) :
    psd M -> 0 < s -> M *m (M *m v) = (s * s) *: v -> M *m v = s *: v.
  Proof.
    move=> hp s0 h; set w := M *m v - s *: v.
    have hw : M *m w = - s *: w.
      rewrite /w mulmxBr h -scalemxAr scalerBr scalerA mulNr !scaleNr opprK.
      by rewrite [LHS]addrC.
    have h0 : (w^T *m M *m w) 0 0 = - s * (w^T *m w) 0 0.
      by rewrite -mulmxA hw -scalemxAr mxE.
    have := hp w; rewrite h0 mulNr oppr_ge0 (pmulr_rle0 _ s0) => hle.
    have /cv_sq_eq0/eqP : (w^T *m w) 0 0 = 0.
      by apply/eqP; rewrite eq_le hle cv_sq_ge0.
    by rewrite subr_eq0 => /eqP.
  Qed.

  (* numpy / scipy svd of a symmetric PSD matrix: M = U diag(s) V^T, U and V orthogonal, s >= 0.
     Then the columns of V are eigenvectors of M for the eigenvalues s. *)
  Lemma svd_psd_eigen d (M U V : 'M[F]_d) (s : 'cV[F]_d) :
    M^T = M -> psd M -> U^T *m U = 1%:M -> V^T *m V = 1%:M -> (forall i, 0 <= s i 0) ->
    M = U *m diag_mx s^T *m V^T -> M *m V = V *m diag_mx s^T.
  Proof.
    move=> hs hp hU hV s0 hM.
    have hMV : M *m V = U *m diag_mx s^T by rewrite {1}hM -!mulmxA hV mulmx1.
    have hMt : M = V *m diag_mx s^T *m U^T.
      by rewrite -hs {1}hM !trmx_mul trmxK tr_diag_mx mulmxA.
    have hMM : M *m M *m V = V *m diag_mx s^T *m diag_mx s^T.
      by rewrite -mulmxA hMV {1}hMt -!mulmxA (mulmxA U^T) hU mul1mx.
    apply/matrixP=> i j.
    have [sj0|sj0] := eqVneq (s j 0) 0.
      by rewrite hMV !mul_mx_diag !mxE sj0 !mulr0.
    have sjp : 0 < s j 0 by rewrite lt_def sj0 s0.
    have hv : M *m (M *m col j V) = (s j 0 * s j 0) *: col j V.
      rewrite !colE !mulmxA hMM -!colE; apply/matrixP=> a b.
      by rewrite [LHS]mxE [RHS]mxE [col j V a b]mxE !mul_mx_diag !mxE [RHS]mulrC mulrA.
    have hc : col j (M *m V) = s j 0 *: col j V.
      by rewrite colE -mulmxA -colE; exact: psd_sq_eig hp sjp hv.
    move/matrixP/(_ i 0): hc; rewrite [LHS]mxE [RHS]mxE [col j V i 0]mxE => ->.
    by rewrite mul_mx_diag !mxE mulrC.
  Qed.

  (* component truncation  U[:, :k], S[:k], Vt[:k]  of _decompose_full *)
  Lemma svd_truncate k r (M V : 'M[F]_(k + r)) (s : 'cV[F]_(k + r)) :
    V^T *m V = 1%:M -> M *m V = V *m diag_mx s^T ->
    (lsubmx V)^T *m lsubmx V = 1%:M /\ M *m lsubmx V = lsubmx V *m diag_mx (usubmx s)^T.
  Proof.
    move=> hV hMV; split.
    - apply/matrixP=> i j; move/matrixP/(_ (lshift r i) (lshift r j)): hV.
      rewrite !mxE (inj_eq (@lshift_inj _ _)) => <-.
      by apply: eq_bigr => l _; rewrite !mxE.
    - rewrite mulmx_lsub hMV; apply/matrixP=> i j.
      by rewrite [LHS]mxE !mul_mx_diag !mxE.
  Qed.
End SvdEigen.

(* ------------------------------------------------------------------ the programs *)
Section C03Ext.
  Variable F : rcfType.
  Variables (n m p k : nat) (env : env_mx F).

  Local Notation tol := (e_tol env).
  Local Notation a := (e_a env).
  Local Notation S := (e_S k env).
  Local Notation X := (e_X n m env).
  Local Notation Y := (e_Y n p env).
  Local Notation Yh := (e_Yh n p env).
  Local Notation W := (e_W m p env).
  Local Notation UC := (e_UC m env).
  Local Notation vC := (e_vC m env).
  Local Notation Vs := (e_Vs n k env).
  Local Notation Vf := (e_Vf m k env).
  Local Notation Kt := (eval_mx env (kern_prog n m p)).
  Local Notation Ct := (eval_mx env (cov_prog n m p)).
  Local Notation A := (eval_mx env (cisqrt_prog m)).
  Local Notation pxt := (pxt_of n m p k env).
  Local Notation ptx := (ptx_of n m k env).
  Local Notation pty := (pty_of n m p k env).

  (* ---- route independence WITHOUT "all k components retained" --------------------------- *)
  Section Routes.
    Variables (r : nat) (Uc : 'M[F]_(n, r)) (Sc : 'cV[F]_r).
    Hypothesis hs : fit_oracle n m p k env true.
    Hypothesis hf : fit_oracle n m p k env false.
    Hypothesis hc2 : Kt *m Uc = Uc *m diag_mx Sc^T.
    Hypothesis hcomplete : Vs *m Vs^T + Uc *m Uc^T = 1%:M.
    (* the rest of the spectrum of K~ is separated from the RETAINED eigenvalues *)
    Hypothesis hgap : forall i j, tol < S j 0 -> Sc i 0 != S j 0.

    Let U := f_U X tol UC vC Vf.

    Lemma ext_U_orth : U^T *m U *m dmap (g_mk tol) S = dmap (g_mk tol) S.
    Proof.
      case: hs => t0 hw [v1 v2]; case: hf => _ [u1 u2 u3] hp [w1 w2].
      rewrite xtx_formula in u2; rewrite cov_formula in w2.
      by apply: (f_UtU t0 u1 u2 u3 w1 w2) => i; rewrite g_mk_mk.
    Qed.

    Lemma ext_U_eig : Kt *m U = U *m diag_mx S^T.
    Proof.
      case: hs => t0 hw [v1 v2]; case: hf => _ [u1 u2 u3] hp [w1 w2].
      rewrite xtx_formula in u2; rewrite cov_formula in w2.
      by rewrite kern_formula; exact: (f_U_eig (W:=W) t0 u1 u2 u3 hw w2).
    Qed.

    Lemma routes_unique_masked f :
      (forall i, f (S i 0) = g_mk tol (S i 0) * f (S i 0)) ->
      U *m dmap f S *m U^T = Vs *m dmap f S *m Vs^T.
    Proof.
      move=> hfm; case: (hs) => t0 hw [v1 v2].
      exact: (topk_unique_masked (kernel_sym n m p env) v1 v2 ext_U_orth ext_U_eig hc2
                hcomplete hgap hfm).
    Qed.

    Theorem reconstruction_equal_masked :
      X *m pxt false *m ptx false = X *m pxt true *m ptx true.
    Proof.
      case: (hs) => t0 hw [v1 v2]; case: (hf) => _ [u1 u2 u3] hp [w1 w2].
      rewrite xtx_formula in u2; rewrite kern_formula in v2.
      rewrite /lstsq_oracle cisqrt_formula in hp.
      rewrite /pxt_of /ptx_of (f_reconstruct Vf S t0 u1 u2 hp) (s_reconstruct t0 hw v2).
      by rewrite -/U routes_unique_masked // => i; rewrite g_mk_mk.
    Qed.

    Theorem predictions_equal_masked :
      X *m pxt false *m pty false = X *m pxt true *m pty true.
    Proof.
      case: (hs) => t0 hw [v1 v2]; rewrite kern_formula in v2.
      rewrite /pxt_of /pty_of (f_predict X Y UC vC Vf S t0) (s_predict Y t0 hw v2).
      by rewrite -/U routes_unique_masked // => i; rewrite g_mk_mk.
    Qed.

    Theorem gram_equal_masked :
      X *m pxt false *m (X *m pxt false)^T = X *m pxt true *m (X *m pxt true)^T.
    Proof.
      case: (hs) => t0 hw [v1 v2]; rewrite kern_formula in v2.
      rewrite /pxt_of f_scores (s_scores t0 hw v2) -/U trmx_mul [in RHS]trmx_mul !dmap_tr.
      rewrite (mulmxA (U *m _)) (mulmxA (Vs *m _)) -(mulmxA U) -(mulmxA Vs) !dmap_mul.
      by apply: routes_unique_masked => i; rewrite g_sq_sq // mulrA g_mk_mk.
    Qed.

    Hypothesis hcen : centred n m env.
    Let Tp sp := transform_prog n m p k sp (eX n m).

    Theorem route_reconstruction_masked :
      eval_mx env (inverse_prog n m k false (Tp false))
      = eval_mx env (inverse_prog n m k true (Tp true)).
    Proof. by rewrite !inverse_formula !transform_centred // -/X reconstruction_equal_masked. Qed.

    Theorem route_predictions_masked :
      eval_mx env (predict_t_prog n m p k false (Tp false))
      = eval_mx env (predict_t_prog n m p k true (Tp true)).
    Proof. by rewrite !predict_t_formula !transform_centred // -/X predictions_equal_masked. Qed.

    Theorem route_gram_masked :
      eval_mx env (Tp false) *m (eval_mx env (Tp false))^T
      = eval_mx env (Tp true) *m (eval_mx env (Tp true))^T.
    Proof. by rewrite !transform_centred // -/X gram_equal_masked. Qed.

    (* ---- "up to the sign of each component": simple retained eigenvalues ----------------- *)
    Hypothesis hsimple : forall i j : 'I_k, tol < S j 0 -> i != j -> S i 0 != S j 0.

    Theorem latent_up_to_sign :
      exists d : 'rV[F]_k,
        (forall i, (d 0 i == 1) || (d 0 i == -1))
        /\ eval_mx env (Tp false) = eval_mx env (Tp true) *m diag_mx d.
    Proof.
      case: (hs) => t0 hw [v1 v2].
      exists (sign_vec tol Vs U S); split.
        move=> i; exact: (sign_vec_pm1 (kernel_sym n m p env) v1 v2 ext_U_orth ext_U_eig hc2
                            hcomplete hgap hsimple).
      rewrite !transform_centred // -/X /pxt_of f_scores.
      rewrite kern_formula in v2; rewrite (s_scores t0 hw v2) -/U.
      rewrite -kern_formula in v2.
      apply: (topk_signs (kernel_sym n m p env) v2 ext_U_eig hc2 hcomplete hgap hsimple) => i.
      by rewrite g_mk_sq.
    Qed.
  End Routes.
End C03Ext.

(* ------------------------------------------------------------------ the svd call of the code *)
Section PsdProgs.
  Variable F : rcfType.

  Lemma psd_gram d q (B : 'M[F]_(d, q)) : psd (B *m B^T).
  Proof.
    move=> x.
    have -> : x^T *m (B *m B^T) *m x = (B^T *m x)^T *m (B^T *m x).
      by rewrite trmx_mul trmxK !mulmxA.
    exact: cv_sq_ge0.
  Qed.

  Lemma psd_lin d (a b : F) (A B : 'M[F]_d) :
    0 <= a -> 0 <= b -> psd A -> psd B -> psd (a *: A + b *: B).
  Proof.
    move=> a0 b0 hA hB x.
    rewrite mulmxDr mulmxDl -!scalemxAr -!scalemxAl [X in 0 <= X]mxE [X in X + _]mxE.
    by rewrite [X in _ + X]mxE addr_ge0 // mulr_ge0.
  Qed.

  Variables (n m p : nat) (env : env_mx F).

  Lemma kern_psd : 0 <= e_a env -> e_a env <= 1 -> psd (eval_mx env (kern_prog n m p)).
  Proof.
    move=> a0 a1; rewrite kernel_formula.
    by apply: psd_lin => //; rewrite ?subr_ge0 //; exact: psd_gram.
  Qed.

  Lemma cov_psd : 0 <= e_a env -> e_a env <= 1 -> psd (eval_mx env (cov_prog n m p)).
  Proof.
    move=> a0 a1; rewrite cov_formula /f_Ct.
    apply: psd_lin => //; rewrite ?subr_ge0 //; first exact: psd_gram.
    by rewrite -{2}(trmxK (e_X n m env)); exact: psd_gram.
  Qed.
End PsdProgs.

Section SvdContract.
  Variable F : rcfType.
  Variables (k r : nat) (env : env_mx F).

  (* sample space: K~ is n x n with n = k + r; the code keeps the first k columns *)
  Theorem svd_contract_sample m p (U V : 'M[F]_(k + r)) (s : 'cV[F]_(k + r)) :
    0 <= e_a env -> e_a env <= 1 ->
    U^T *m U = 1%:M -> V^T *m V = 1%:M -> (forall i, 0 <= s i 0) ->
    eval_mx env (kern_prog (k + r) m p) = U *m diag_mx s^T *m V^T ->
    e_Vs (k + r) k env = lsubmx V -> e_S k env = usubmx s ->
    svd_oracle_sample (k + r) m p k env.
  Proof.
    move=> a0 a1 hU hV s0 hM eV eS; rewrite /svd_oracle_sample eV eS.
    apply: svd_truncate => //.
    exact: (svd_psd_eigen (kernel_sym _ _ _ _) (kern_psd _ _ a0 a1) hU hV s0 hM).
  Qed.

  (* feature space: C~ is m x m with m = k + r *)
  Theorem svd_contract_feature n p (U V : 'M[F]_(k + r)) (s : 'cV[F]_(k + r)) :
    0 <= e_a env -> e_a env <= 1 ->
    U^T *m U = 1%:M -> V^T *m V = 1%:M -> (forall i, 0 <= s i 0) ->
    eval_mx env (cov_prog n (k + r) p) = U *m diag_mx s^T *m V^T ->
    e_Vf (k + r) k env = lsubmx V -> e_S k env = usubmx s ->
    svd_oracle_feature n (k + r) p k env.
  Proof.
    move=> a0 a1 hU hV s0 hM eV eS; rewrite /svd_oracle_feature eV eS.
    apply: svd_truncate => //.
    exact: (svd_psd_eigen (covariance_sym _ _ _ _) (cov_psd _ _ a0 a1) hU hV s0 hM).
  Qed.
End SvdContract.

(* ------------------------------------------------------------------ svd_flip *)
Section Flip.
  Variable F : rcfType.
  Variables (d k : nat) (M : 'M[F]_d) (V : 'M[F]_(d, k)) (S : 'cV[F]_k) (sg : 'rV[F]_k).
  Hypothesis hsg : forall i, sg 0 i * sg 0 i = 1.
  Local Notation D := (diag_mx sg).

  Lemma flip_DD : D *m D = 1%:M.
  Proof.
    rewrite mulmx_diag; apply/matrixP=> i j; rewrite !mxE hsg.
    by case: (i == j).
  Qed.

  Lemma flip_comm f : D *m dmap f S = dmap f S *m D.
  Proof. by rewrite /dmap !mulmx_diag; congr diag_mx; apply/rowP=> i; rewrite !mxE mulrC. Qed.

  (* the flipped vectors satisfy the same oracle hypotheses *)
  Theorem flip_oracle :
    V^T *m V = 1%:M -> M *m V = V *m diag_mx S^T ->
    (V *m D)^T *m (V *m D) = 1%:M /\ M *m (V *m D) = (V *m D) *m diag_mx S^T.
  Proof.
    move=> h1 h2; split.
    - by rewrite trmx_mul tr_diag_mx -mulmxA (mulmxA V^T) h1 mul1mx flip_DD.
    - by rewrite mulmxA h2 -!mulmxA dmap_id flip_comm.
  Qed.

  (* sample-space projectors of the flipped vectors *)
  Theorem flip_sample m p (X : 'M[F]_(d, m)) (Y Yh : 'M[F]_(d, p)) (W : 'M[F]_(m, p)) (a tol : F) :
    [/\ s_pxt X Yh W a tol (V *m D) S = s_pxt X Yh W a tol V S *m D,
        s_ptx X tol (V *m D) S = D *m s_ptx X tol V S,
        s_pty Y tol (V *m D) S = D *m s_pty Y tol V S
      & s_pxt X Yh W a tol (V *m D) S *m s_ptx X tol (V *m D) S
        = s_pxt X Yh W a tol V S *m s_ptx X tol V S].
  Proof.
    have hT : s_T tol (V *m D) S = s_T tol V S *m D.
      by rewrite /s_T -!mulmxA flip_comm.
    have hTt : (s_T tol (V *m D) S)^T = D *m (s_T tol V S)^T.
      by rewrite hT trmx_mul tr_diag_mx.
    have e1 : s_pxt X Yh W a tol (V *m D) S = s_pxt X Yh W a tol V S *m D.
      by rewrite /s_pxt hT mulmxA.
    have e2 : s_ptx X tol (V *m D) S = D *m s_ptx X tol V S.
      by rewrite /s_ptx hTt mulmxA.
    split=> //; first by rewrite /s_pty hTt mulmxA.
    by rewrite e1 e2 mulmxA -(mulmxA _ D D) flip_DD mulmx1.
  Qed.
End Flip.

Section FlipFeature.
  Variable F : rcfType.
  Variables (m k : nat) (V : 'M[F]_(m, k)) (S : 'cV[F]_k) (sg : 'rV[F]_k).
  Hypothesis hsg : forall i, sg 0 i * sg 0 i = 1.
  Local Notation D := (diag_mx sg).

  Theorem flip_feature n p (X : 'M[F]_(n, m)) (Y : 'M[F]_(n, p)) (tol : F)
                       (UC : 'M[F]_m) (vC : 'cV[F]_m) (Csq : 'M[F]_m) :
    [/\ f_pxt tol UC vC (V *m D) S = f_pxt tol UC vC V S *m D,
        f_ptx tol (V *m D) S Csq = D *m f_ptx tol V S Csq,
        f_pty X Y tol UC vC (V *m D) S = D *m f_pty X Y tol UC vC V S
      & f_pxt tol UC vC (V *m D) S *m f_ptx tol (V *m D) S Csq
        = f_pxt tol UC vC V S *m f_ptx tol V S Csq].
  Proof.
    have hc f : D *m dmap f S = dmap f S *m D by exact: flip_comm.
    have e1 : f_pxt tol UC vC (V *m D) S = f_pxt tol UC vC V S *m D.
      by rewrite /f_pxt -!mulmxA hc.
    have e2 : f_ptx tol (V *m D) S Csq = D *m f_ptx tol V S Csq.
      by rewrite /f_ptx trmx_mul tr_diag_mx !mulmxA -hc.
    split=> //; first by rewrite /f_pty trmx_mul tr_diag_mx !mulmxA -hc.
    by rewrite e1 e2 mulmxA -(mulmxA _ D D) (flip_DD hsg) mulmx1.
  Qed.
End FlipFeature.

(* ------------------------------------------------------------------ ridge regressors *)
Section Ridge.
  Variable F : rcfType.
  Variables (n m p : nat) (env : env_mx F).
  Local Notation X := (e_X n m env).
  Local Notation Y := (e_Y n p env).
  Local Notation W := (e_W m p env).
  Local Notation tol := (e_tol env).
  Local Notation A := (eval_mx env (cisqrt_prog m)).
  Definition e_alpha : F := env 1%N 1%N valpha ord0 ord0.

  Lemma ridge_res_formula :
    eval_mx env (ridge_res_prog n m p) = (X^T *m X + e_alpha *: 1%:M) *m W - X^T *m Y.
  Proof. by []. Qed.

  (* Ridge(alpha != 0): the weights lie in the row space of X (Pi = C^-1/2 X^T X C^-1/2 is the
     projector onto it, C03_isqrt_spec) *)
  Theorem ridge_rowspace :
    0 <= tol -> eigh_oracle n m env -> e_alpha != 0 ->
    eval_mx env (ridge_res_prog n m p) = 0 ->
    A *m (X^T *m X) *m A *m W = W.
  Proof.
    move=> t0 [u1 u2 u3] al0; rewrite xtx_formula in u2.
    rewrite ridge_res_formula cisqrt_formula A_XtX_A // => /eqP; rewrite subr_eq0 => /eqP hr.
    set Pi := f_Pi _ _ _.
    have hPiXt : Pi *m X^T = X^T.
      by apply: trmx_inj; rewrite trmx_mul trmxK fc_tr (X_Pi u1 u2 u3).
    have hW : e_alpha *: W = X^T *m (Y - X *m W).
      rewrite mulmxBr mulmxA -hr mulmxDl -scalemxAl mul1mx.
      by rewrite addrC addKr.
    apply: (scalerI al0).
    by rewrite scalemxAr hW mulmxA hPiXt.
  Qed.

  (* and then Yhat = X W is reproduced from the row-space part alone *)
  Definition ridge_contract : Prop :=
    eval_mx env (ridge_res_prog n m p) = 0 /\ regressor_contract n m p env.
End Ridge.
