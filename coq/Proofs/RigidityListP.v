(* List bookkeeping of Model/Rigidity.v (stdlib style): the split of the per-environment
   values by structure lengths, the component masks, the membership rows. *)
From Coq Require Import List Arith Bool Lia.
From Verif Require Import Rigidity.
Import ListNotations.

(* ------------------------------------------------------------------ split by lengths *)
(* reference: cut [l] into consecutive chunks *)
Fixpoint chunks {A} (lens : list nat) (l : list A) : list (list A) :=
  match lens with [] => [] | x :: r => firstn x l :: chunks r (skipn x l) end.

Lemma skipn_add : forall A (l : list A) a b, skipn (a + b) l = skipn b (skipn a l).
Proof.
  intros A l a. revert l. induction a as [|a IH]; intros l b; [reflexivity|].
  destruct l as [|x l]; cbn [Nat.add skipn]; [now rewrite skipn_nil|]. apply IH.
Qed.

Definition split_from {A} (acc : nat) (lens : list nat) (l : list A) : list (list A) :=
  let idx := cumsum_from acc lens in
  map (fun i => slice (nth i idx 0) (nth (S i) idx 0) l) (seq 0 (length lens)).

Lemma cumsum_from_hd : forall lens acc, nth 0 (cumsum_from acc lens) 0 = acc.
Proof. now intros [|x r] acc. Qed.

Lemma split_from_cons : forall A acc x r (l : list A),
  split_from acc (x :: r) l = slice acc (acc + x) l :: split_from (acc + x) r l.
Proof.
  intros A acc x r l. unfold split_from. cbn [length cumsum_from].
  rewrite <- cons_seq. cbn [map]. f_equal.
  - cbn [nth]. now rewrite cumsum_from_hd.
  - rewrite <- seq_shift, map_map. apply map_ext. intros i. reflexivity.
Qed.

Lemma split_from_chunks : forall A lens acc (l : list A),
  split_from acc lens l = chunks lens (skipn acc l).
Proof.
  intros A lens. induction lens as [|x r IH]; intros acc l; [reflexivity|].
  rewrite split_from_cons, IH. cbn [chunks]. f_equal.
  - unfold slice. f_equal. lia.
  - now rewrite skipn_add.
Qed.

Lemma split_lens_chunks : forall A lens (l : list A), split_lens lens l = chunks lens l.
Proof. intros A lens l. exact (split_from_chunks A lens 0 l). Qed.

Lemma chunks_concat : forall A lens (l : list A),
  lsum lens = length l -> concat (chunks lens l) = l.
Proof.
  intros A lens. induction lens as [|x r IH]; intros l H; cbn [lsum chunks concat] in *.
  - destruct l; [reflexivity|discriminate].
  - rewrite IH; [apply firstn_skipn|]. rewrite skipn_length. lia.
Qed.

Lemma chunks_lengths : forall A lens (l : list A),
  lsum lens <= length l -> map (@length A) (chunks lens l) = lens.
Proof.
  intros A lens. induction lens as [|x r IH]; intros l H; cbn [lsum chunks map] in *; [reflexivity|].
  rewrite IH; [|rewrite skipn_length; lia]. f_equal. apply firstn_length_le. lia.
Qed.

(* the i-th returned list, position j, is the value of environment offset(i)+j *)
Lemma chunks_nth : forall A (dflt : A) lens (l : list A) i j,
  lsum lens <= length l -> i < length lens -> j < nth i lens 0 ->
  nth j (nth i (chunks lens l) []) dflt = nth (lsum (firstn i lens) + j) l dflt.
Proof.
  intros A dflt lens. induction lens as [|x r IH]; intros l i j Hs Hi Hj; cbn [length] in Hi; [lia|].
  cbn [lsum] in Hs. destruct i as [|i]; cbn [chunks nth firstn lsum] in *.
  - rewrite <- (firstn_skipn x l) at 2. rewrite app_nth1; [reflexivity|].
    rewrite firstn_length_le; lia.
  - rewrite IH; [|rewrite skipn_length; lia|lia|assumption].
    rewrite <- (firstn_skipn x l) at 2. rewrite app_nth2; rewrite firstn_length_le; try lia.
    f_equal. lia.
Qed.

(* C20_order_and_split *)
Theorem split_lens_order_and_split : forall A (lens : list nat) (l : list A),
  lsum lens = length l ->
  concat (split_lens lens l) = l /\ map (@length A) (split_lens lens l) = lens.
Proof.
  intros A lens l H. rewrite split_lens_chunks. split.
  - now apply chunks_concat.
  - apply chunks_lengths. lia.
Qed.

Theorem split_lens_nth : forall A (dflt : A) lens (l : list A) i j,
  lsum lens = length l -> i < length lens -> j < nth i lens 0 ->
  nth j (nth i (split_lens lens l) []) dflt = nth (lsum (firstn i lens) + j) l dflt.
Proof. intros. rewrite split_lens_chunks. apply chunks_nth; try assumption. lia. Qed.

(* ------------------------------------------------------------------ cumulative offsets *)
Lemma cumsum_from_nth : forall lens acc i, i <= length lens ->
  nth i (cumsum_from acc lens) 0 = acc + lsum (firstn i lens).
Proof.
  induction lens as [|x r IH]; intros acc i Hi; cbn [length] in Hi.
  - assert (i = 0) by lia. subst. cbn. lia.
  - destruct i as [|i]; cbn [cumsum_from nth firstn lsum]; [lia|]. rewrite IH; lia.
Qed.

Lemma cumsum0_nth : forall lens i, i <= length lens -> nth i (cumsum0 lens) 0 = lsum (firstn i lens).
Proof. intros. unfold cumsum0. now rewrite cumsum_from_nth. Qed.

Lemma lsum_firstn_S : forall lens i, i < length lens ->
  lsum (firstn (S i) lens) = lsum (firstn i lens) + nth i lens 0.
Proof.
  induction lens as [|x r IH]; intros i Hi; cbn [length] in Hi; [lia|].
  destruct i as [|i]; [cbn [firstn lsum nth]; lia|].
  specialize (IH i ltac:(lia)). rewrite !firstn_cons. cbn [lsum nth]. lia.
Qed.

Lemma lsum_firstn_le : forall lens i, lsum (firstn i lens) <= lsum lens.
Proof.
  induction lens as [|x r IH]; intros [|i]; cbn [firstn lsum]; try lia. specialize (IH i). lia.
Qed.

(* ------------------------------------------------------------------ component masks *)
Lemma comp_mask_length : forall dims ci, length (comp_mask dims ci) = lsum dims.
Proof. intros. unfold comp_mask. now rewrite map_length, seq_length. Qed.

(* feature t belongs to component ci iff  offset(ci) <= t < offset(ci) + dims[ci] *)
Lemma comp_mask_nth : forall dims ci t, ci < length dims -> t < lsum dims ->
  nth t (comp_mask dims ci) false
  = (lsum (firstn ci dims) <=? t) && (t <? lsum (firstn ci dims) + nth ci dims 0).
Proof.
  intros dims ci t Hci Ht. unfold comp_mask.
  rewrite (nth_indep _ false (Nat.leb (nth ci (cumsum0 dims) 0) 0 && Nat.ltb 0 (nth (S ci) (cumsum0 dims) 0)))
    by (rewrite map_length, seq_length; exact Ht).
  rewrite (map_nth (fun t => Nat.leb (nth ci (cumsum0 dims) 0) t && Nat.ltb t (nth (S ci) (cumsum0 dims) 0))).
  rewrite seq_nth by exact Ht. cbn [Nat.add].
  rewrite !cumsum0_nth by lia. now rewrite lsum_firstn_S.
Qed.

(* a single component covers every feature: comp_dims = [d] *)
Theorem comp_mask_single : forall d t, t < d -> nth t (comp_mask [d] 0) false = true.
Proof.
  intros d t Ht. rewrite comp_mask_nth; cbn [length lsum firstn nth]; try lia.
  apply andb_true_intro. split; [apply Nat.leb_le|apply Nat.ltb_lt]; lia.
Qed.

(* the masks partition the features: every feature lies in exactly one component *)
Theorem comp_mask_partition : forall dims t, t < lsum dims ->
  exists ci, ci < length dims /\ nth t (comp_mask dims ci) false = true /\
    forall cj, cj < length dims -> nth t (comp_mask dims cj) false = true -> cj = ci.
Proof.
  intros dims t Ht.
  assert (Hex : exists ci, ci < length dims /\
            lsum (firstn ci dims) <= t < lsum (firstn ci dims) + nth ci dims 0).
  { revert t Ht. induction dims as [|x r IH]; intros t Ht; cbn [lsum] in Ht; [lia|].
    destruct (Nat.lt_ge_cases t x) as [Hlt|Hge].
    - exists 0. cbn [length firstn lsum nth]. lia.
    - destruct (IH (t - x)) as [ci [Hci Hr]]; [lia|]. exists (S ci).
      cbn [length firstn lsum nth]. lia. }
  destruct Hex as [ci [Hci Hr]]. exists ci. split; [exact Hci|]. split.
  - rewrite comp_mask_nth by assumption. apply andb_true_intro.
    split; [apply Nat.leb_le|apply Nat.ltb_lt]; lia.
  - intros cj Hcj Hm. rewrite comp_mask_nth in Hm by assumption.
    apply andb_prop in Hm. destruct Hm as [H1 H2]. apply Nat.leb_le in H1. apply Nat.ltb_lt in H2.
    (* offsets are monotone: two half-open blocks that both contain t coincide *)
    assert (Hmono : forall a b, a < b -> b < length dims ->
              lsum (firstn a dims) + nth a dims 0 <= lsum (firstn b dims)).
    { intros a b Hab Hb. induction b as [|b IHb]; [lia|].
      destruct (Nat.eq_dec a b) as [->|Hne].
      - rewrite lsum_firstn_S; lia.
      - rewrite lsum_firstn_S by lia. specialize (IHb ltac:(lia) ltac:(lia)). lia. }
    destruct (Nat.lt_trichotomy cj ci) as [Hlt|[Heq|Hgt]]; [|exact Heq|].
    + specialize (Hmono cj ci Hlt Hci). lia.
    + specialize (Hmono ci cj Hgt Hcj). lia.
Qed.

(* ------------------------------------------------------------------ membership rows *)
Fixpoint ntrue (l : list bool) : nat := match l with [] => 0 | b :: r => (if b then 1 else 0) + ntrue r end.

Lemma ntrue_app : forall a b, ntrue (a ++ b) = ntrue a + ntrue b.
Proof. induction a as [|x a IH]; intros b; cbn [app ntrue]; [reflexivity|]. rewrite IH. lia. Qed.
Lemma ntrue_repeat_true : forall n, ntrue (repeat true n) = n.
Proof. induction n as [|n IH]; cbn [repeat ntrue]; [reflexivity|]. now rewrite IH. Qed.
Lemma ntrue_repeat_false : forall n, ntrue (repeat false n) = 0.
Proof. induction n as [|n IH]; cbn [repeat ntrue]; [reflexivity|]. now rewrite IH. Qed.

Lemma member_rows_from_length : forall lens b, length (member_rows_from b lens) = length lens.
Proof. induction lens as [|x r IH]; intros b; cbn [member_rows_from length]; [reflexivity|]. now rewrite IH. Qed.

Lemma member_rows_from_nth : forall lens b s, s < length lens ->
  nth s (member_rows_from b lens) []
  = repeat false (b + lsum (firstn s lens)) ++ repeat true (nth s lens 0)
    ++ repeat false (lsum lens - lsum (firstn (S s) lens)).
Proof.
  induction lens as [|x r IH]; intros b s Hs; cbn [length] in Hs; [lia|].
  destruct s as [|s]; cbn [member_rows_from nth].
  - cbn [firstn lsum]. f_equal; [f_equal; lia|]. f_equal. f_equal. lia.
  - rewrite IH by lia. rewrite !firstn_cons. cbn [lsum].
    f_equal; [f_equal; lia|]. f_equal. f_equal. lia.
Qed.

Lemma member_rows_length : forall lens, length (member_rows lens) = length lens.
Proof. intros. apply member_rows_from_length. Qed.

Lemma member_row_length : forall lens s, s < length lens ->
  length (nth s (member_rows lens) []) = lsum lens.
Proof.
  intros lens s Hs. unfold member_rows. rewrite member_rows_from_nth by exact Hs.
  rewrite !app_length, !repeat_length. pose proof (lsum_firstn_le lens (S s)).
  rewrite lsum_firstn_S in * by exact Hs. lia.
Qed.

Lemma nth_repeat_lt : forall A (x dflt : A) n k, k < n -> nth k (repeat x n) dflt = x.
Proof.
  intros A x dflt n. induction n as [|n IH]; intros k Hk; [lia|].
  destruct k as [|k]; cbn [repeat nth]; [reflexivity|]. apply IH. lia.
Qed.

(* structure s owns exactly the rows offset(s) <= a < offset(s) + lens[s] of the stacked matrix *)
Theorem member_rows_spec : forall lens s a, s < length lens -> a < lsum lens ->
  nth a (nth s (member_rows lens) []) false
  = (lsum (firstn s lens) <=? a) && (a <? lsum (firstn s lens) + nth s lens 0).
Proof.
  intros lens s a Hs Ha. unfold member_rows. rewrite member_rows_from_nth by exact Hs.
  cbn [Nat.add]. set (o := lsum (firstn s lens)). set (n := nth s lens 0).
  destruct (Nat.lt_ge_cases a o) as [H1|H1].
  - rewrite app_nth1 by (rewrite repeat_length; lia). rewrite nth_repeat.
    symmetry. apply andb_false_intro1. apply Nat.leb_gt. lia.
  - rewrite app_nth2 by (rewrite repeat_length; lia). rewrite repeat_length.
    destruct (Nat.lt_ge_cases a (o + n)) as [H2|H2].
    + rewrite app_nth1 by (rewrite repeat_length; lia). rewrite nth_repeat_lt by lia.
      symmetry. apply andb_true_intro. split; [apply Nat.leb_le|apply Nat.ltb_lt]; lia.
    + rewrite app_nth2 by (rewrite repeat_length; lia). rewrite nth_repeat.
      symmetry. apply andb_false_intro2. apply Nat.ltb_ge. lia.
Qed.

(* ... and their number is lens[s] *)
Theorem member_rows_count : forall lens s, s < length lens ->
  ntrue (nth s (member_rows lens) []) = nth s lens 0.
Proof.
  intros lens s Hs. unfold member_rows. rewrite member_rows_from_nth by exact Hs.
  rewrite !ntrue_app, !ntrue_repeat_false, ntrue_repeat_true. lia.
Qed.

(* a one-environment structure owns the single row offset(s) *)
Theorem member_rows_single : forall lens s a, s < length lens -> a < lsum lens ->
  nth s lens 0 = 1 ->
  nth a (nth s (member_rows lens) []) false = (a =? lsum (firstn s lens)).
Proof.
  intros lens s a Hs Ha H1. rewrite member_rows_spec by assumption. rewrite H1.
  destruct (Nat.eqb_spec a (lsum (firstn s lens))) as [->|Hne].
  - apply andb_true_intro. split; [apply Nat.leb_le|apply Nat.ltb_lt]; lia.
  - destruct (Nat.leb_spec (lsum (firstn s lens)) a); [|reflexivity].
    cbn [andb]. apply Nat.ltb_ge. lia.
Qed.
