(* C04, round 5: properties of the resolution rule of a fractional n_components
   (Model/PCovRFrac.v).  Stdlib style.                                                        *)
From Coq Require Import ZArith QArith List Bool Lia.
From Verif Require Import PCovRFrac.
Import ListNotations.

(* every entry before the returned index is <= f, the entry at it (if any) is > f *)
Lemma ssr_before (f : Q) (c : list Q) (j : nat) :
  (j < searchsorted_right_q f c)%nat -> (nth j c 0 <= f)%Q.
Proof.
  revert j; induction c as [|x t IH]; intros j Hj; cbn [searchsorted_right_q] in Hj.
  - lia.
  - destruct (Qle_bool x f) eqn:E; [|lia].
    destruct j as [|j]; cbn [nth].
    + now apply Qle_bool_iff.
    + apply IH; lia.
Qed.

Lemma ssr_at (f : Q) (c : list Q) :
  (searchsorted_right_q f c < length c)%nat -> (f < nth (searchsorted_right_q f c) c 0)%Q.
Proof.
  induction c as [|x t IH]; cbn [searchsorted_right_q length]; intros H.
  - lia.
  - destruct (Qle_bool x f) eqn:E; cbn [nth].
    + apply IH; lia.
    + apply Qnot_le_lt; intros Hle; apply Qle_bool_iff in Hle; congruence.
Qed.

(* it is the SMALLEST such index *)
Lemma ssr_least (f : Q) (c : list Q) (i : nat) :
  (i < length c)%nat -> (f < nth i c 0)%Q -> (searchsorted_right_q f c <= i)%nat.
Proof.
  intros Hi Hf; destruct (Nat.le_gt_cases (searchsorted_right_q f c) i) as [|Hgt]; [assumption|].
  exfalso; apply (Qlt_not_le _ _ Hf); now apply ssr_before.
Qed.

(* some entry exceeds f (the last cumulative ratio is 1 > f): the index is inside the list *)
Lemma ssr_inside (f : Q) (c : list Q) (i : nat) :
  (i < length c)%nat -> (f < nth i c 0)%Q -> (searchsorted_right_q f c < length c)%nat.
Proof. intros Hi Hf; pose proof (ssr_least f c i Hi Hf); lia. Qed.

(* the resolved number of components: the smallest k >= 1 whose cumulative explained-variance
   ratio exceeds f; it never exceeds the number of eigenvalues when some cumulative ratio does *)
Theorem resolve_q_spec (f : Q) (sv : list Q) (n1 : Q) :
  let c := ratio_cumsum_q sv n1 in
  let k := resolve_q f sv n1 in
  (1 <= k)%nat
  /\ (forall j, (S j < k)%nat -> (nth j c 0 <= f)%Q)
  /\ ((k <= length c)%nat -> (f < nth (k - 1) c 0)%Q)
  /\ (forall k', (1 <= k' <= length c)%nat -> (f < nth (k' - 1) c 0)%Q -> (k <= k')%nat).
Proof.
  intros c k; unfold k, resolve_q; fold c.
  split; [lia|]; split; [|split].
  - intros j Hj; apply ssr_before; lia.
  - intros Hk; replace (S (searchsorted_right_q f c) - 1)%nat with (searchsorted_right_q f c) by lia.
    apply ssr_at; lia.
  - intros k' Hk' Hf.
    assert (searchsorted_right_q f c <= k' - 1)%nat by (apply ssr_least; [lia|assumption]).
    lia.
Qed.

Theorem resolve_q_bound (f : Q) (sv : list Q) (n1 : Q) (i : nat) :
  let c := ratio_cumsum_q sv n1 in
  (i < length c)%nat -> (f < nth i c 0)%Q -> (resolve_q f sv n1 <= length c)%nat.
Proof.
  intros c Hi Hf; unfold resolve_q; fold c.
  pose proof (ssr_inside f c i Hi Hf); lia.
Qed.

Lemma cumsum_q_length (acc : Q) (l : list Q) : length (cumsum_q acc l) = length l.
Proof. revert acc; induction l as [|x t IH]; intros acc; cbn; [reflexivity|now rewrite IH]. Qed.

Theorem ratio_cumsum_q_length (sv : list Q) (n1 : Q) : length (ratio_cumsum_q sv n1) = length sv.
Proof. unfold ratio_cumsum_q; now rewrite cumsum_q_length, !map_length. Qed.

(* non-vacuity / the side="right" corner: eigenvalues 5,3,1,1 (n_samples = 4), f = 9/10: the
   cumulative ratios are 1/2, 4/5, 9/10, 1; the third EQUALS f, so it still counts as "<= f" and
   four components are kept (f = 89/100 gives three) *)
Example resolve_q_example :
  resolve_q (9 # 10) [5; 3; 1; 1]%Q 3 = 4%nat /\ resolve_q (89 # 100) [5; 3; 1; 1]%Q 3 = 3%nat
  /\ (9 # 10 < nth 3 (ratio_cumsum_q [5; 3; 1; 1]%Q 3) 0)%Q.
Proof. vm_compute; repeat split; reflexivity. Qed.
