(* C03, extension round 3: non-vacuity of the hypotheses of the new theorems, on the concrete
   environment of Proofs/PCovRExample.v (two centred samples of one feature, any mixing). *)
From mathcomp Require Import all_ssreflect all_algebra.
From Verif Require Import MExp MExpMx PCovR PCovRC03 PCovRP PCovRProg PCovRExample C14Thm C03Thm
  PCovRC03P.
Set Implicit Arguments.
Unset Strict Implicit.
Unset Printing Implicit Defensive.
Import Order.TTheory GRing.Theory Num.Theory.
Local Open Scope ring_scope.

Section Ex.
  Variable F : rcfType.

  (* both routes' oracles, the (weaker) gap to the retained eigenvalues, simple retained
     eigenvalues, centred data, a non-zero X, any mixing *)
  Lemma ex_c03_ext (mix : F) :
    exists (env : env_mx F) (Uc : 'M[F]_(2, 1)) (Sc : 'cV[F]_1),
      [/\ [/\ centred 2 1 env, fit_oracle 2 1 1 1 env true, fit_oracle 2 1 1 1 env false
            & e_a env = mix /\ e_X 2 1 env != 0],
          eval_mx env (kern_prog 2 1 1) *m Uc = Uc *m diag_mx Sc^T,
          e_Vs 2 1 env *m (e_Vs 2 1 env)^T + Uc *m Uc^T = 1%:M,
          forall i j, e_tol env < e_S 1 env j 0 -> Sc i 0 != e_S 1 env j 0
        & forall i j : 'I_1, e_tol env < e_S 1 env j 0 -> i != j -> e_S 1 env i 0 != e_S 1 env j 0].
  Proof.
    have [env [Uc [Sc [[h1 h2 h3 [h4 h5 h6]] h7 h8 h9]]]] := ex_c03 mix.
    exists env, Uc, Sc; split.
    - by split.
    - exact: h7.
    - exact: h8.
    - by move=> i j _; exact: h9.
    - by move=> i j _; rewrite !ord1 eqxx.
  Qed.

  (* the svd contract of the 2 x 2 modified Gram matrix (n = k + r = 1 + 1), mixing in [0, 1] *)
  Lemma ex_c03_svd (mix : F) : 0 <= mix -> mix <= 1 ->
    exists (env : env_mx F) (U V : 'M[F]_(1 + 1)) (s : 'cV[F]_(1 + 1)),
      [/\ 0 <= e_a env /\ e_a env <= 1, U^T *m U = 1%:M /\ V^T *m V = 1%:M,
          forall i, 0 <= s i 0,
          eval_mx env (kern_prog (1 + 1) 1 1) = U *m diag_mx s^T *m V^T
        & e_Vs (1 + 1) 1 env = lsubmx V /\ e_S 1 env = usubmx s].
  Proof.
    move=> m0 m1; exists (ex_env mix), (ex_U F), (ex_U F), (ex_L F).
    have [h1 h2 h3 h4] := ex_full mix.
    split.
    - by rewrite ex_mixing.
    - by [].
    - by move=> i; rewrite mxE; case: ifP => _; rewrite ?ler0n ?lexx.
    - by rewrite -[LHS]mulmx1 -(mulmx1C h1) mulmxA h2.
    - split; apply/matrixP=> i j; rewrite !mxE /ex_entry /= ?(ord1 j) ?(ord1 i) //=.
  Qed.

End Ex.
