(* C17 — the estimator object as a state machine (Model/SparseKDEH.v): invariants over ALL histories
   of fit / score_samples / attribute reads / parameter assignments on one object (ssreflect style). *)
From mathcomp Require Import all_ssreflect all_algebra.
From Verif Require Import MExp MExpMx SparseKDEA SparseKDEAP SparseKDEH.
Set Implicit Arguments.
Unset Strict Implicit.
Unset Printing Implicit Defensive.
Import GRing.Theory Num.Theory.

Section MachineP.
  Variables (P G S CI CN Qy O : Type).
  Variable fitf : P -> G -> S.
  Variable invf : S -> CI.
  Variable nkf : S -> CN.
  Variable needs_nk : S -> Qy -> bool.
  Variable scoref : P -> S -> CI -> CN -> Qy -> O.
  Variable peekf : S -> O.

  Let step := kstep fitf invf nkf needs_nk scoref peekf.
  Let run := krun fitf invf nkf needs_nk scoref peekf.
  Let coh := @coherent P S CI CN invf nkf.
  Let st := @kst P S CI CN.
  Let op := @kop P G Qy.

  Lemma kinit_coherent p : coh (kinit p).
  Proof. by []. Qed.

  Lemma kstep_coherent (s : st) (o : op) : coh s -> coh (step s o).1.
  Proof.
    rewrite /coh /coherent. case: s => p [f|] ci cn /=; case: o => [g|q||p'] //=.
    - by move=> _; split; left.
    - move=> [Hi Hn]. split.
        by right; case: Hi => ->.
      case: (needs_nk f q) => //. by right; case: Hn => ->.
    - by move=> _; split; left.
  Qed.

  Lemma krun_coherent (ops : seq op) (s : st) : coh s -> coh (run s ops).1.
  Proof.
    elim: ops s => [|o r IH] s Hs //=.
    rewrite /run /= -/(step s o). case E1: (step s o) => [s1 out].
    have H1 : coh s1 by have := kstep_coherent o Hs; rewrite E1.
    have := IH s1 H1. rewrite /run. by case: (krun _ _ _ _ _ _ s1 r) => s2 outs.
  Qed.

  (* every state reachable from the constructor is coherent *)
  Lemma reachable_coherent p (ops : seq op) : coh (run (kinit p) ops).1.
  Proof. exact: krun_coherent. Qed.

  Lemma krun_cat (a b : seq op) (s : st) :
    run s (a ++ b) = ((run (run s a).1 b).1, (run s a).2 ++ (run (run s a).1 b).2).
  Proof.
    elim: a s => [|o a IH] s /=; first by case: (run s b).
    rewrite /run /= -/(step s o). case: (step s o) => s1 out.
    rewrite -/run IH. case: (run s1 a) => s2 outs /=. by case: (run s2 b).
  Qed.

  (* the parameters and the fitted state after a history are those of its last assignment / fit *)
  Lemma krun_last_fit (ops : seq op) (s : st) :
    (k_pars (run s ops).1, k_fit (run s ops).1) = last_fit fitf (k_pars s) (k_fit s) ops.
  Proof.
    elim: ops s => [|o r IH] s //=.
    rewrite /run /= -/(step s o). case E1: (step s o) => [s1 out]. rewrite -/run.
    have := IH s1. case: (run s1 r) => s2 outs /= ->.
    move: E1. rewrite /step. case: s => p f ci cn. case: o => [g|q||p'] /=.
    - by case=> <- _.
    - by case: f => [f|] [<- _].
    - by case=> <- _.
    - by case=> <- _.
  Qed.

  (* in a coherent state score_samples uses the inverse / normalisation of the CURRENT fit *)
  Lemma score_current (s : st) f q :
    coh s -> k_fit s = Some f ->
    (step s (OScore q)).2 = Some (scoref (k_pars s) f (invf f) (nkf f) q).
  Proof.
    rewrite /coh /coherent /step. case: s => p f0 ci cn /= Hc Hf. move: Hc. rewrite Hf /=.
    by move=> [[->|->] [->|->]].
  Qed.

  (* for EVERY history: the outcome of score_samples depends only on the parameters in force, on the
     last fit and on the query (never on earlier fits, earlier queries or filled caches) *)
  Lemma score_after_history p0 (h : seq op) q :
    (step (run (kinit p0) h).1 (OScore q)).2 =
    let pf := last_fit fitf p0 None h in
    omap (fun f => scoref pf.1 f (invf f) (nkf f) q) pf.2.
  Proof.
    have Hc := reachable_coherent p0 h.
    have := krun_last_fit h (kinit p0). rewrite [k_pars _]/= [k_fit _]/=.
    case: (last_fit _ _ _ _) => p ofit /= [Hp Hf].
    case: ofit Hf => [f|] Hf /=.
      by rewrite (score_current q Hc Hf) Hp.
    rewrite /step. move: Hf. by case: (run _ _).1 => p1 [f1|] ci cn.
  Qed.

  (* reading bandwidth_ / _sample_weights after any history shows the last fit *)
  Lemma peek_after_history p0 (h : seq op) :
    (step (run (kinit p0) h).1 OPeek).2 = omap peekf (last_fit fitf p0 None h).2.
  Proof.
    have := krun_last_fit h (kinit p0). rewrite [k_fit (kinit _)]/=.
    case: (last_fit _ _ _ _) => p ofit /= [_ Hf]. by rewrite /step /= Hf.
  Qed.

  (* re-fitting an object = fitting a fresh object constructed with the current parameters:
     the complete states coincide, hence so does everything observable afterwards *)
  Lemma refit_state (s : st) g :
    (step s (OFit g)).1 = (step (kinit (k_pars s)) (OFit g)).1.
  Proof. by []. Qed.

  Lemma refit_is_fresh_fit p0 (h : seq op) g (h' : seq op) :
    let s := (run (kinit p0) h).1 in
    run (kinit p0) (h ++ OFit g :: h') =
    ((run (kinit (k_pars s)) (OFit g :: h')).1,
     (run (kinit p0) h).2 ++ (run (kinit (k_pars s)) (OFit g :: h')).2).
  Proof.
    move=> s. rewrite krun_cat -/s. congr (_, _ ++ _).
  Qed.
End MachineP.

(* ---- the instance over a real closed field: after ANY history score_samples is the logarithm of
   the documented mixture of the LAST fit, with the inverse bandwidths / normalisations that
   belong to that fit --------------------------------------------------------------------------- *)
Section InstP.
  Local Open Scope ring_scope.
  Variable F : rcfType.
  Variables (fexp flog frnd : F -> F).
  Hypothesis exp_add : forall a b, fexp (a + b) = fexp a * fexp b.
  Hypothesis exp_gt0 : forall a, 0 < fexp a.
  Hypothesis exp_log : forall a, 0 < a -> fexp (flog a) = a.
  Hypothesis log_exp : forall a, flog (fexp a) = a.

  Let N := rops fexp flog frnd.
  Variable Gt : Type.
  Variable fitf : kpars N -> Gt -> kfit N.
  Variable invf : kfit N -> seq (seq (seq F)).
  Variable nkf : kfit N -> seq F.

  Definition log_mixture (p : kpars N) (f : kfit N) (x : seq F) : option F :=
    let m := mixture fexp flog frnd (kp_cell N p) (kf_G N f) (kp_D N p) (kp_w N p) (kf_W N f) (kf_mem N f)
                     (invf f) (nkf f) (kp_dim N p) x in
    if m == 0 then None else Some (flog m).

  Lemma history_mixture p0 (h : seq (@kop (kpars N) Gt (seq (seq F)))) (q : seq (seq F)) p f :
    last_fit fitf p0 None h = (p, Some f) ->
    (forall i : nat, 0 <= List.nth i (kp_w N p) 0) ->
    (forall j : nat, 0 <= List.nth j (kf_W N f) 0) ->
    0 < \sum_(v <- (kf_W N f)) v ->
    (kstep fitf invf nkf (@kde_needs_nk N) (@kde_scoref N) (@kde_peekf N)
           (krun fitf invf nkf (@kde_needs_nk N) (@kde_scoref N) (@kde_peekf N) (kinit p0) h).1
           (OScore q)).2
    = Some (@KScores N (List.map (log_mixture p f) q)
              (score N (kp_cell N p) (kf_G N f) (kp_D N p) (kp_w N p) (kf_W N f) (kf_mem N f)
                     (invf f) (nkf f) (kp_dim N p) q)).
  Proof.
    move=> Hl Hw HW Hpos. rewrite score_after_history Hl /= /kde_scoref.
    f_equal. f_equal.
    rewrite /score_samples. apply: List.map_ext => x.
    rewrite /log_mixture. by apply: mixture_formula.
  Qed.
End InstP.
