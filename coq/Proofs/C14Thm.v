(* C14: PCovR's projectors form a consistent, orthogonal decomposition - theorems about
   the programs of Model/PCovR.v (interpreted over an arbitrary real closed field). *)
From mathcomp Require Import all_ssreflect all_algebra.
From Verif Require Import MExp MExpMx PCovR PCovRP PCovRProg.
Set Implicit Arguments.
Unset Strict Implicit.
Unset Printing Implicit Defensive.
Import Order.TTheory GRing.Theory Num.Theory.
Local Open Scope ring_scope.

Section C14.
  Variable F : rcfType.
  Variables (n m p k : nat) (env : env_mx F).

  Local Notation tol := (e_tol env).
  Local Notation S := (e_S k env).
  Local Notation X := (e_X n m env).
  Local Notation pxt := (pxt_of n m p k env).
  Local Notation ptx := (ptx_of n m k env).
  Local Notation pty := (pty_of n m p k env).
  Local Notation mask := (retained_mask k env).

  (* ---- round trip ---------------------------------------------------------------- *)
  Lemma roundtrip_of sp : fit_oracle n m p k env sp -> ptx sp *m pxt sp = mask.
  Proof.
    case: sp => /=.
    - case=> t0 hw [v1 v2]; rewrite kern_formula in v2.
      exact: (s_roundtrip t0 hw v1 v2).
    - case=> t0 [u1 u2 u3] hp [v1 v2].
      rewrite cov_formula in v2; rewrite /lstsq_oracle cisqrt_formula in hp.
      exact: (f_roundtrip t0 u1 u2 u3 hp v1 v2).
  Qed.

  Theorem roundtrip_prog sp :
    fit_oracle n m p k env sp ->
    eval_mx env (ptx_prog n m k sp) *m eval_mx env (pxt_prog n m p k sp) = mask.
  Proof. by rewrite ptx_formula pxt_formula; exact: roundtrip_of. Qed.

  Lemma mask_meaning_ i j :
    mask i j = (if tol < S i 0 then 1 else 0) *+ (i == j).
  Proof. by rewrite /retained_mask dmapE. Qed.

  Lemma mask_eq1 : (forall i, tol < S i 0) -> mask = 1%:M.
  Proof.
    move=> h; rewrite /retained_mask -(dmap_1 S); apply: dmap_ext => i.
    by rewrite /g_mk h.
  Qed.

  Theorem roundtrip_prog_id sp :
    fit_oracle n m p k env sp -> (forall i, tol < S i 0) ->
    eval_mx env (ptx_prog n m k sp) *m eval_mx env (pxt_prog n m p k sp) = 1%:M.
  Proof. by move=> h /mask_eq1 <-; exact: roundtrip_prog. Qed.

  (* the masked components of pxt_ are zero columns *)
  Lemma pxt_mask sp : pxt sp *m mask = pxt sp.
  Proof.
    case: sp; rewrite /pxt_of /retained_mask.
    - rewrite /s_pxt /s_T -!mulmxA dmap_mul; congr (_ *m (_ *m _)).
      by apply: dmap_ext => i; rewrite mulrC g_mk_isq.
    - rewrite /f_pxt -!mulmxA dmap_mul; congr (_ *m (_ *m _)).
      by apply: dmap_ext => i; rewrite mulrC g_mk_sq.
  Qed.

  Lemma mean_centred : centred n m env -> e_mean n m env = 0.
  Proof. by rewrite /centred /e_mean => ->; rewrite scaler0. Qed.

  Lemma transform_centred sp q (Z : mexp q m) : centred n m env ->
    eval_mx env (transform_prog n m p k sp Z) = eval_mx env Z *m pxt sp.
  Proof. by move=> /mean_centred h; rewrite transform_formula h mul0mx mulmx0 subr0. Qed.

  (* transform(inverse_transform(T)) = T for every T produced by transform *)
  Theorem roundtrip_idempotent sp q (Z : mexp q m) :
    centred n m env -> fit_oracle n m p k env sp ->
    let T := transform_prog n m p k sp Z in
    eval_mx env (transform_prog n m p k sp (inverse_prog n m k sp T)) = eval_mx env T.
  Proof.
    move=> hc ho T; rewrite /T !transform_centred // inverse_formula transform_centred //.
    by rewrite -!mulmxA roundtrip_of // pxt_mask.
  Qed.

  (* and for an arbitrary T: the retained coordinates are recovered, the masked are zeroed *)
  Theorem roundtrip_any sp q (T : mexp q k) :
    centred n m env -> fit_oracle n m p k env sp ->
    eval_mx env (transform_prog n m p k sp (inverse_prog n m k sp T)) = eval_mx env T *m mask.
  Proof.
    by move=> hc ho; rewrite transform_centred // inverse_formula -mulmxA roundtrip_of.
  Qed.

  (* ---- orthogonal scores ---------------------------------------------------------- *)
  Lemma scores_orth_of sp : fit_oracle n m p k env sp ->
    (X *m pxt sp)^T *m (X *m pxt sp) = dmap (fun x => g_mk tol x * x) S.
  Proof.
    case: sp => /=.
    - case=> t0 hw [v1 v2]; rewrite kern_formula in v2.
      exact: (s_orth t0 hw v1 v2).
    - case=> t0 [u1 u2 u3] hp [v1 v2].
      rewrite cov_formula in v2; rewrite /lstsq_oracle cisqrt_formula in hp.
      exact: (f_orth t0 u1 u2 u3 v1 v2).
  Qed.

  Theorem orthogonal_scores sp :
    centred n m env -> fit_oracle n m p k env sp ->
    let T := eval_mx env (transform_prog n m p k sp (eX n m)) in
    T^T *m T = diag_mx (\row_i (if tol < S i 0 then S i 0 else 0)).
  Proof.
    move=> hc ho T; rewrite /T transform_centred // -/X scores_orth_of //.
    rewrite /dmap; congr diag_mx; apply/matrixP=> i j; rewrite !mxE /g_mk (ord1 i).
    by case: ifP => _; rewrite ?mul1r ?mul0r.
  Qed.

  (* ---- predict consistency -------------------------------------------------------- *)
  Theorem predict_consistent_general sp q (Z : mexp q m) :
    eval_mx env (predict_t_prog n m p k sp (transform_prog n m p k sp Z))
    = eval_mx env (predict_x_prog n m p k sp Z)
      - const_mx 1 *m (e_mean n m env *m eval_mx env (pxy_prog n m p k sp)).
  Proof.
    rewrite predict_t_formula transform_formula predict_x_formula pxy_formula.
    by rewrite mulmxBl -!mulmxA.
  Qed.

  Theorem predict_consistent sp q (Z : mexp q m) : centred n m env ->
    eval_mx env (predict_t_prog n m p k sp (transform_prog n m p k sp Z))
    = eval_mx env (predict_x_prog n m p k sp Z).
  Proof.
    move=> /mean_centred h; rewrite predict_consistent_general h mul0mx mulmx0 subr0 //.
  Qed.

  (* pxy_ = pxt_ pty_, and transform(X) = X pxt_ on centred data *)
  Theorem transform_is_projection sp q (Z : mexp q m) : centred n m env ->
    eval_mx env (transform_prog n m p k sp Z)
    = eval_mx env Z *m eval_mx env (pxt_prog n m p k sp).
  Proof. by move=> hc; rewrite transform_centred // pxt_formula. Qed.

  (* ---- score ---------------------------------------------------------------------- *)
  Definition fro2 r c (A : 'M[F]_(r, c)) : F := \tr (A^T *m A).

  Theorem score_formula sp q (Z : mexp q m) (Yz : mexp q p) :
    let T := transform_prog n m p k sp Z in
    let lx := fro2 (eval_mx env Z - eval_mx env (inverse_prog n m k sp T)) / fro2 (eval_mx env Z) in
    let ly := fro2 (eval_mx env Yz - eval_mx env (predict_t_prog n m p k sp T))
              / fro2 (eval_mx env Yz) in
    (eval_mx env (score_prog n m p k sp Z Yz)) ord0 ord0 = - (lx + ly).
  Proof.
    rewrite /score_prog /lx_prog /ly_prog /= !mxE /=.
    rewrite !big_ord_recl !big_ord0 !addr0 !mxE /= !mulr1n.
    by [].
  Qed.
End C14.

Lemma mask_meaning (F : rcfType) (k : nat) (env : env_mx F) i j :
  retained_mask k env i j = (if e_tol env < e_S k env i 0 then 1 else 0) *+ (i == j).
Proof. exact: mask_meaning_. Qed.
