(* Frobenius norm / trace inner product toolkit over a real closed field, shared by the
   layer-A proofs of C10 (Ridge2FoldCV) and C18 (OrthogonalRegression).  ssreflect style. *)
From mathcomp Require Import all_ssreflect all_algebra.
Set Implicit Arguments.
Unset Strict Implicit.
Unset Printing Implicit Defensive.
Import GRing.Theory Num.Theory.
Local Open Scope ring_scope.

Section Frob.
  Variable F : rcfType.

  (* <A, B> = tr(A^T B),  |A|^2 = <A, A> *)
  Definition ip m n (A B : 'M[F]_(m, n)) : F := \tr (A^T *m B).
  Definition fn2 m n (A : 'M[F]_(m, n)) : F := ip A A.

  Lemma ipE m n (A B : 'M[F]_(m, n)) : ip A B = \sum_j \sum_i A i j * B i j.
  Proof.
    rewrite /ip /mxtrace; apply: eq_bigr => j _; rewrite mxE.
    by apply: eq_bigr => i _; rewrite mxE.
  Qed.

  Lemma fn2E m n (A : 'M[F]_(m, n)) : fn2 A = \sum_j \sum_i A i j ^+ 2.
  Proof. by rewrite /fn2 ipE; apply: eq_bigr => j _; apply: eq_bigr => i _; rewrite expr2. Qed.

  Lemma fn2_ge0 m n (A : 'M[F]_(m, n)) : 0 <= fn2 A.
  Proof.
    rewrite fn2E; apply: sumr_ge0 => j _; apply: sumr_ge0 => i _; exact: sqr_ge0.
  Qed.

  Lemma fn2_eq0 m n (A : 'M[F]_(m, n)) : fn2 A = 0 -> A = 0.
  Proof.
    rewrite fn2E => /eqP; rewrite psumr_eq0; last first.
      by move=> j _; apply: sumr_ge0 => i _; exact: sqr_ge0.
    move=> /allP H; apply/matrixP => i j; rewrite mxE.
    have := H j (mem_index_enum _); rewrite /= psumr_eq0; last by move=> ? _; exact: sqr_ge0.
    by move=> /allP /(_ i (mem_index_enum _)) /=; rewrite sqrf_eq0 => /eqP.
  Qed.

  Lemma fn2_0 m n : fn2 (0 : 'M[F]_(m, n)) = 0.
  Proof. by rewrite /fn2 /ip mulmx0 mxtrace0. Qed.

  Lemma ipC m n (A B : 'M[F]_(m, n)) : ip A B = ip B A.
  Proof. by rewrite /ip -mxtrace_tr trmx_mul trmxK. Qed.

  Lemma ipDl m n (A B C : 'M[F]_(m, n)) : ip (A + B) C = ip A C + ip B C.
  Proof. by rewrite /ip linearD /= mulmxDl linearD. Qed.

  Lemma ipDr m n (A B C : 'M[F]_(m, n)) : ip A (B + C) = ip A B + ip A C.
  Proof. by rewrite /ip mulmxDr linearD. Qed.

  Lemma ipNl m n (A B : 'M[F]_(m, n)) : ip (- A) B = - ip A B.
  Proof. by rewrite /ip linearN /= mulNmx linearN. Qed.

  Lemma ipNr m n (A B : 'M[F]_(m, n)) : ip A (- B) = - ip A B.
  Proof. by rewrite /ip mulmxN linearN. Qed.

  Lemma ipZr m n a (A B : 'M[F]_(m, n)) : ip A (a *: B) = a * ip A B.
  Proof. by rewrite /ip -scalemxAr linearZ. Qed.

  Lemma ipZl m n a (A B : 'M[F]_(m, n)) : ip (a *: A) B = a * ip A B.
  Proof. by rewrite ipC ipZr ipC. Qed.

  (* <A, B C> = <B^T A, C>   and   <A, B C> = <A C^T, B> *)
  Lemma ip_mull m n q (A : 'M[F]_(m, n)) (B : 'M[F]_(m, q)) (C : 'M[F]_(q, n)) :
    ip A (B *m C) = ip (B^T *m A) C.
  Proof. by rewrite /ip trmx_mul trmxK mulmxA. Qed.

  Lemma ip_mulr m n q (A : 'M[F]_(m, n)) (B : 'M[F]_(m, q)) (C : 'M[F]_(q, n)) :
    ip A (B *m C) = ip (A *m C^T) B.
  Proof. by rewrite /ip trmx_mul trmxK mulmxA mxtrace_mulC mulmxA. Qed.

  Lemma fn2D m n (A B : 'M[F]_(m, n)) : fn2 (A + B) = fn2 A + 2%:R * ip A B + fn2 B.
  Proof.
    rewrite /fn2 ipDl !ipDr (ipC B A) mulr2n mulrDl mul1r.
    by rewrite addrA [in RHS]addrA.
  Qed.

  Lemma fn2N m n (A : 'M[F]_(m, n)) : fn2 (- A) = fn2 A.
  Proof. by rewrite /fn2 ipNl ipNr opprK. Qed.

  Lemma fn2B m n (A B : 'M[F]_(m, n)) : fn2 (A - B) = fn2 A - 2%:R * ip A B + fn2 B.
  Proof. by rewrite fn2D fn2N ipNr mulrN. Qed.

  Lemma fn2_tr m n (A : 'M[F]_(m, n)) : fn2 A^T = fn2 A.
  Proof. by rewrite /fn2 /ip trmxK mxtrace_mulC. Qed.

  (* isometries: V^T V = 1 -> |V A| = |A| ;  |A V^T| = |A| *)
  Lemma fn2_isol m n q (V : 'M[F]_(m, n)) (A : 'M[F]_(n, q)) :
    V^T *m V = 1%:M -> fn2 (V *m A) = fn2 A.
  Proof. by move=> VV; rewrite /fn2 ip_mull mulmxA VV mul1mx. Qed.

  Lemma fn2_isor m n q (V : 'M[F]_(m, n)) (A : 'M[F]_(q, n)) :
    V^T *m V = 1%:M -> fn2 (A *m V^T) = fn2 A.
  Proof. by move=> VV; rewrite -fn2_tr trmx_mul trmxK fn2_isol // fn2_tr. Qed.

  (* Bessel: U^T U = 1 -> |U^T y| <= |y| *)
  Lemma fn2_bessel m k t (U : 'M[F]_(m, k)) (y : 'M[F]_(m, t)) :
    U^T *m U = 1%:M -> fn2 (U^T *m y) <= fn2 y.
  Proof.
    move=> UU.
    have E : fn2 (y - U *m (U^T *m y)) = fn2 y - fn2 (U^T *m y).
      rewrite fn2B fn2_isol // ip_mull /fn2 mulr2n mulrDl mul1r opprD addrA.
      by rewrite addrNK.
    by rewrite -subr_ge0 -E fn2_ge0.
  Qed.

  (* |diag(g) B|^2 <= c^2 |B|^2 when every g_i^2 <= c2 *)
  Lemma fn2_diag_le k t (g : 'rV[F]_k) (B : 'M[F]_(k, t)) (c2 : F) :
    (forall i, g ord0 i ^+ 2 <= c2) -> fn2 (diag_mx g *m B) <= c2 * fn2 B.
  Proof.
    move=> Hg; rewrite !fn2E mulr_sumr; apply: ler_sum => j _.
    rewrite mulr_sumr; apply: ler_sum => i _.
    rewrite mul_diag_mx mxE exprMn; apply: ler_wpmul2r; [exact: sqr_ge0 | exact: Hg].
  Qed.
End Frob.
