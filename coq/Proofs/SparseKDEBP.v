(* C17 (extension) — bandwidths, continued (ssreflect style):
   - gram_prog: the weighted Gram matrix that BOTH branches of _covariance end with is symmetric
     positive semi-definite for arbitrary displacements (so also for the periodic branch, whatever its
     circular mean is), and its trace is positive as soon as one point of positive weight is displaced;
   - the proviso of the statement ("the localisation reaches at least one other grid point") discharges
     the positive-trace hypothesis of the bandwidth theorem in free space;
   - score_samples depends on positions only through differences (translation in free space). *)
From mathcomp Require Import all_ssreflect all_algebra.
From Verif Require Import MExp MExpMx SparseKDEA SparseKDEAP.
Set Implicit Arguments.
Unset Strict Implicit.
Unset Printing Implicit Defensive.
Import Order.TTheory GRing.Theory Num.Theory.
Local Open Scope ring_scope.

Section Gram.
  Variable F : rcfType.

  Lemma diag_mulE (n D : nat) (P : 'cV[F]_n) (Xc : 'M[F]_(n, D)) :
    diag_mx P^T *m Xc = \matrix_(i, k) (P i ord0 * Xc i k).
  Proof. by rewrite mul_diag_mx; apply/matrixP => i k; rewrite !mxE. Qed.

  Lemma gram_traceE (n D : nat) (P : 'cV[F]_n) (Xc : 'M[F]_(n, D)) (cinv : F) :
    \tr (cinv *: ((diag_mx P^T *m Xc)^T *m Xc)) =
    cinv * \sum_(k < D) \sum_(i < n) P i ord0 * Xc i k * Xc i k.
  Proof.
    rewrite mxtraceZ diag_mulE. congr (_ * _). apply: eq_bigr => k _.
    rewrite mxE. by apply: eq_bigr => i _; rewrite !mxE.
  Qed.

  (* one point of positive weight with a non-zero displacement makes the trace positive *)
  Lemma gram_trace_pos (n D : nat) (P : 'cV[F]_n) (Xc : 'M[F]_(n, D)) (cinv : F) (i : 'I_n) :
    (forall j, 0 <= P j ord0) -> 0 < cinv -> 0 < P i ord0 -> row i Xc != 0 ->
    0 < \tr (cinv *: ((diag_mx P^T *m Xc)^T *m Xc)).
  Proof.
    move=> HP Hc Hi Hrow. rewrite gram_traceE. apply: mulr_gt0 => //.
    have Hterm k j : 0 <= P j ord0 * Xc j k * Xc j k.
      by rewrite -mulrA -expr2; apply: mulr_ge0; [exact: HP | rewrite sqr_ge0].
    have [k Hk] : exists k, Xc i k != 0.
      apply/existsP. move: Hrow. apply: contraR. rewrite negb_exists => /forallP H0.
      apply/eqP/rowP => k. rewrite !mxE. by move: (H0 k); rewrite negbK => /eqP.
    rewrite (bigD1 k) //=. apply: ltr_paddr.
      by apply: sumr_ge0 => k' _; apply: sumr_ge0 => j _.
    rewrite (bigD1 i) //=. apply: ltr_paddr.
      by apply: sumr_ge0 => j _.
    rewrite -mulrA -expr2. apply: mulr_gt0 => //. by rewrite lt_neqAle eq_sym sqrf_eq0 Hk sqr_ge0.
  Qed.

  Section GramProg.
    Variables (n D : nat) (env : env_mx F).
    Let P : 'cV[F]_n := eval_mx env (cp_p n).
    Let Xc : 'M[F]_(n, D) := env n D 0%N.
    Let c : F := (eval_mx env (cp_c n)) ord0 ord0.

    Lemma gram_prog_formula :
      eval_mx env (gram_prog n D) = c^-1 *: ((diag_mx P^T *m Xc)^T *m Xc).
    Proof. rewrite /gram_prog ev_scale /m_recip sv_map. reflexivity. Qed.

    Lemma gram_prog_sym : (eval_mx env (gram_prog n D))^T = eval_mx env (gram_prog n D).
    Proof.
      by rewrite gram_prog_formula linearZ /= !trmx_mul !trmxK tr_diag_mx mulmxA.
    Qed.

    Lemma gram_prog_psd :
      (forall i, 0 <= P i ord0) -> 0 < c -> psd (eval_mx env (gram_prog n D)).
    Proof.
      move=> HP Hc. rewrite gram_prog_formula. apply: gram_psd => //. by rewrite invr_ge0 ltW.
    Qed.

    Lemma gram_prog_trace_pos (i : 'I_n) :
      (forall j, 0 <= P j ord0) -> 0 < c -> 0 < P i ord0 -> row i Xc != 0 ->
      0 < \tr (eval_mx env (gram_prog n D)).
    Proof.
      move=> HP Hc Hi Hrow. rewrite gram_prog_formula. apply: (@gram_trace_pos n D P Xc c^-1 i) => //.
      by rewrite invr_gt0.
    Qed.
  End GramProg.

  Lemma covariance_psd_any_centre (n D : nat) (env : env_mx F) :
    (eval_mx env (gram_prog n D))^T = eval_mx env (gram_prog n D) /\
    ((forall i : 'I_n, 0 <= eval_mx env (cp_p n) i ord0) -> 0 < eval_mx env (cp_c n) ord0 ord0 ->
     psd (eval_mx env (gram_prog n D)) /\
     forall i : 'I_n, 0 < eval_mx env (cp_p n) i ord0 -> row i (env n D 0%N) != 0 ->
       0 < \tr (eval_mx env (gram_prog n D))).
  Proof.
    split; first exact: gram_prog_sym.
    move=> HP Hc; split; first exact: gram_prog_psd.
    move=> i Hi Hr; exact: (@gram_prog_trace_pos n D env i).
  Qed.

  (* free space: the centred positions X - 1 xm; if two rows of X differ, one of them is displaced *)
  Lemma cov_centred_row (n D : nat) (env : env_mx F) (i : 'I_n) :
    row i (eval_mx env (cp_xxm n D)) = row i (env n D 0%N) - eval_mx env (cp_xm n D).
  Proof.
    rewrite /cp_xxm /=. rewrite linearB /= row_mul. congr (_ - _).
    have -> : row i (const_mx 1 : 'M[F]_(n, 1)) = 1%:M.
      by apply/matrixP => a b; rewrite !mxE !ord1.
    by rewrite mul1mx.
  Qed.

  Lemma cov_prog_trace_pos (n D : nat) (env : env_mx F) (i0 j0 : 'I_n) :
    (forall j, 0 <= eval_mx env (cp_p n) j ord0) -> 0 < (eval_mx env (cp_c n)) ord0 ord0 ->
    0 < eval_mx env (cp_p n) i0 ord0 -> 0 < eval_mx env (cp_p n) j0 ord0 ->
    row i0 (env n D 0%N) != row j0 (env n D 0%N) ->
    0 < \tr (eval_mx env (cov_prog n D)).
  Proof.
    move=> HP Hc Hi Hj Hrows. rewrite cov_prog_formula.
    have Hci : 0 < ((eval_mx env (cp_c n)) ord0 ord0)^-1 by rewrite invr_gt0.
    case E: (row i0 (eval_mx env (cp_xxm n D)) == 0).
    - apply: (@gram_trace_pos n D _ _ _ j0) => //.
      apply: contra Hrows => /eqP Ej. move/eqP: E.
      rewrite !cov_centred_row in Ej *. move=> Ei.
      by rewrite -[row i0 _](subrK (eval_mx env (cp_xm n D))) Ei add0r
                 -[row j0 _](subrK (eval_mx env (cp_xm n D))) Ej add0r.
    - by apply: (@gram_trace_pos n D _ _ _ i0) => //; rewrite E.
  Qed.

  (* C17_bandwidth_spd_reach: free space, from the raw local weights and the grid positions alone:
     non-negative local weights, two grid points of positive local weight at different positions
     ("the localisation reaches at least one other grid point"), at least two dimensions: the
     bandwidth is symmetric positive definite.  No hypothesis on the covariance is left. *)
  Lemma bandwidth_spd_reach (n D : nat) (envC envO : env_mx F) (i0 j0 : 'I_n) :
    let w : 'cV[F]_n := envC n 1%N 1%N in
    (forall i, 0 <= w i ord0) -> 0 < w i0 ord0 -> 0 < w j0 ord0 ->
    row i0 (envC n D 0%N) != row j0 (envC n D 0%N) ->
    envO D D 0%N = eval_mx envC (cov_prog n D) ->
    (2 <= D)%N -> 0 < (envO 1%N 1%N 2%N) ord0 ord0 ->
    (eval_mx envO (oas_prog D))^T = eval_mx envO (oas_prog D) /\ pd (eval_mx envO (oas_prog D)).
  Proof.
    move=> w Hw Hi Hj Hrows Hcov HD Hs.
    have Hij : i0 != j0 by apply: contra Hrows => /eqP ->.
    have Htot : 0 < \sum_k w k ord0.
      rewrite (bigD1 i0) //=. apply: ltr_paddr => //. by apply: sumr_ge0.
    have Hp0 i : 0 <= eval_mx envC (cp_p n) i ord0.
      by rewrite cov_prog_pE; apply: mulr_ge0 => //; rewrite invr_ge0 ltW.
    have Hpi : 0 < eval_mx envC (cp_p n) i0 ord0.
      by rewrite cov_prog_pE; apply: mulr_gt0 => //; rewrite invr_gt0.
    have Hpj : 0 < eval_mx envC (cp_p n) j0 ord0.
      by rewrite cov_prog_pE; apply: mulr_gt0 => //; rewrite invr_gt0.
    have Hc : 0 < eval_mx envC (cp_c n) ord0 ord0.
      rewrite cov_prog_cE.
      apply: (@reach_pos _ n (fun i => eval_mx envC (cp_p n) i ord0) i0 j0) => //.
      under eq_bigr => i _ do rewrite cov_prog_pE.
      by rewrite -mulr_sumr mulVf // gt_eqF.
    apply: (@bandwidth_spd_free _ n D envC envO i0 j0) => //.
    rewrite Hcov. exact: (@cov_prog_trace_pos n D envC i0 j0).
  Qed.

  (* with a cell: the local covariance is gram_prog on the wrapped displacements from the circular
     mean (variable 0 of envC), whatever that mean is.  Two positive local weights and one reached
     grid point that is displaced from the centre: the bandwidth is symmetric positive definite. *)
  Lemma bandwidth_spd_periodic (n D : nat) (envC envO : env_mx F) (i0 j0 k0 : 'I_n) :
    let w : 'cV[F]_n := envC n 1%N 1%N in
    (forall i, 0 <= w i ord0) -> i0 != j0 -> 0 < w i0 ord0 -> 0 < w j0 ord0 ->
    0 < w k0 ord0 -> row k0 (envC n D 0%N) != 0 ->
    envO D D 0%N = eval_mx envC (gram_prog n D) ->
    (2 <= D)%N -> 0 < (envO 1%N 1%N 2%N) ord0 ord0 ->
    (eval_mx envO (oas_prog D))^T = eval_mx envO (oas_prog D) /\ pd (eval_mx envO (oas_prog D)).
  Proof.
    move=> w Hw Hij Hi Hj Hk Hrow Hcov HD Hs.
    have Htot : 0 < \sum_k w k ord0.
      rewrite (bigD1 i0) //=. apply: ltr_paddr => //. by apply: sumr_ge0.
    have Hp0 i : 0 <= eval_mx envC (cp_p n) i ord0.
      by rewrite cov_prog_pE; apply: mulr_ge0 => //; rewrite invr_ge0 ltW.
    have Hpos (i : 'I_n) : 0 < w i ord0 -> 0 < eval_mx envC (cp_p n) i ord0.
      by move=> H; rewrite cov_prog_pE; apply: mulr_gt0 => //; rewrite invr_gt0.
    have Hc : 0 < eval_mx envC (cp_c n) ord0 ord0.
      rewrite cov_prog_cE.
      apply: (@reach_pos _ n (fun i => eval_mx envC (cp_p n) i ord0) i0 j0) => //; try exact: Hpos.
      under eq_bigr => i _ do rewrite cov_prog_pE.
      by rewrite -mulr_sumr mulVf // gt_eqF.
    apply: bandwidth_spd => //.
    - by rewrite Hcov gram_prog_sym.
    - by rewrite Hcov; apply: gram_prog_psd.
    - rewrite Hcov. apply: (@gram_prog_trace_pos n D envC k0) => //. exact: Hpos.
  Qed.
End Gram.

(* ---- translation in free space: score_samples sees positions only through differences ---------- *)
Section Translation.
  Variable F : rcfType.
  Variables (fexp flog frnd : F -> F).
  Let N := rops fexp flog frnd.

  (* u + t, coordinate by coordinate *)
  Definition vaddF (t u : seq F) : seq F := lmap2 +%R u t.

  Lemma delta_translate (t u v : seq F) :
    (size u <= size t)%N || (size v <= size t)%N ->
    lmap2 (fun a b : F => a - b) (vaddF t u) (vaddF t v) = lmap2 (fun a b : F => a - b) u v.
  Proof.
    rewrite /vaddF. elim: t u v => [|s t IH] [|a u] [|b v] //= H.
    rewrite IH //. congr (_ :: _). by rewrite opprD addrACA subrr addr0.
  Qed.

  Lemma rowneq_translate (t u v : seq F) :
    (size u <= size t)%N || (size v <= size t)%N ->
    row_neq N (vaddF t u) (vaddF t v) = row_neq N u v.
  Proof.
    rewrite /row_neq /vaddF. elim: t u v => [|s t IH] [|a u] [|b v] //= H.
    rewrite IH //. congr (negb _ || _). exact: (inj_eq (addIr s)).
  Qed.

  Lemma maha_translate (Hj : seq (seq F)) (t u v : seq F) :
    (size u <= size t)%N || (size v <= size t)%N ->
    nmaha N None Hj (vaddF t u) (vaddF t v) = nmaha N None Hj u v.
  Proof. by move=> H; rewrite /nmaha /ndelta (delta_translate H). Qed.

  Lemma nth_vadd (t : seq F) (l : seq (seq F)) i :
    List.nth i (List.map (vaddF t) l) [::] = vaddF t (List.nth i l [::]).
  Proof. by rewrite -[X in List.nth _ _ X]/(vaddF t [::]) List.map_nth. Qed.

  Lemma nth_small (t : seq F) (l : seq (seq F)) i :
    (forall r, List.In r l -> (size r <= size t)%N) -> (size (List.nth i l [::]) <= size t)%N.
  Proof.
    move=> H. case: (List.nth_in_or_default i l [::]) => [Hin|->] //. exact: H.
  Qed.

  Variables (G D : seq (seq F)) (w W : seq F) (mem : seq (seq nat)).
  Variables (Hinv : seq (seq (seq F))) (nk : seq F) (dim : BinNums.Z) (t : seq F).
  Hypothesis G_small : forall r, List.In r G -> (size r <= size t)%N.
  Hypothesis D_small : forall r, List.In r D -> (size r <= size t)%N.

  Lemma kde_step_translate x prob j :
    kde_step N None (List.map (vaddF t) G) (List.map (vaddF t) D) w W mem Hinv nk dim (vaddF t x) prob j
    = kde_step N None G D w W mem Hinv nk dim x prob j.
  Proof.
    rewrite /kde_step nth_vadd.
    rewrite (@maha_translate _ t x); last by rewrite (nth_small j G_small) orbT.
    case: ifP => // _.
    have -> : List.filter (fun i => row_neq N (List.nth i (List.map (vaddF t) D) [::]) (vaddF t x))
                          (List.nth j mem [::])
            = List.filter (fun i => row_neq N (List.nth i D [::]) x) (List.nth j mem [::]).
      apply: List.filter_ext => i. rewrite nth_vadd rowneq_translate //.
      by rewrite (nth_small i D_small).
    case: (List.filter _ _) => // i0 nb. congr (lse _ (_ :: _)).
    apply: List.map_ext => i. rewrite nth_vadd maha_translate //.
    by rewrite (nth_small i D_small).
  Qed.

  (* C17_translation_mixture *)
  Lemma score_point_translate x :
    score_point N None (List.map (vaddF t) G) (List.map (vaddF t) D) w W mem Hinv nk dim (vaddF t x)
    = score_point N None G D w W mem Hinv nk dim x.
  Proof.
    rewrite /score_point List.map_length. congr (option_map _ _).
    have Hext (A B : Type) (f g : A -> B -> A) (l : seq B) (a : A) :
        (forall a b, f a b = g a b) -> List.fold_left f l a = List.fold_left g l a.
      by move=> H; elim: l a => [|b l IH] a //=; rewrite H IH.
    apply: Hext => prob j. exact: kde_step_translate.
  Qed.
End Translation.
