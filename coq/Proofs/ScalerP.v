(* C11 — proofs about Model/ScalerMx.v (ssreflect / mathcomp style).
   Part 1: algebra of weighted means and variances (any weights with non-zero sum).
   Part 2: what the mexp programs evaluate to (formula lemmas).
   Part 3: the theorems. *)
From mathcomp Require Import all_ssreflect all_algebra.
From mathcomp Require Import ring.
From Verif Require Import MExp MExpMx MxBox MxBoxP Scaler ScalerMx.
Set Implicit Arguments.
Unset Strict Implicit.
Unset Printing Implicit Defensive.
Import Order.Theory GRing.Theory Num.Theory.
Local Open Scope ring_scope.

(* ---- Part 1: weighted statistics ------------------------------------------------------ *)
Section Stats.
  Variable F : rcfType.
  Variable n : nat.
  Implicit Types (w : 'cV[F]_n).

  (* the entrywise affine map  a_ij |-> (a_ij - m_j) * c_j *)
  Definition affine (k p : nat) (A : 'M[F]_(k, p)) (m c : 'rV[F]_p) : 'M[F]_(k, p) :=
    \matrix_(i, j) ((A i j - m ord0 j) * c ord0 j).
  (* squared deviations from a row of centres *)
  Definition sqdev (k p : nat) (A : 'M[F]_(k, p)) (m : 'rV[F]_p) : 'M[F]_(k, p) :=
    \matrix_(i, j) (A i j - m ord0 j) ^+ 2.

  Lemma wvarE p w (A : 'M[F]_(n, p)) : wvar w A = wmean w (sqdev A (wmean w A)).
  Proof. by []. Qed.

  Lemma wmean_affine p w (A : 'M[F]_(n, p)) (m c : 'rV[F]_p) :
    wsum w != 0 ->
    wmean w (affine A m c) = \row_j ((wmean w A ord0 j - m ord0 j) * c ord0 j).
  Proof.
    move=> S0; apply/rowP => j; rewrite !mxE.
    have -> : \sum_i w i ord0 * (affine A m c) i j
              = ((\sum_i w i ord0 * A i j) - m ord0 j * wsum w) * c ord0 j.
      rewrite /wsum mulr_sumr -sumrB mulr_suml; apply: eq_bigr => i _.
      by rewrite !mxE; ring.
    by field.
  Qed.

  Lemma wvar_affine p w (A : 'M[F]_(n, p)) (m c : 'rV[F]_p) :
    wsum w != 0 ->
    wvar w (affine A m c) = \row_j ((wvar w A) ord0 j * (c ord0 j) ^+ 2).
  Proof.
    move=> S0; rewrite !wvarE wmean_affine //.
    have -> : sqdev (affine A m c) (\row_j ((wmean w A ord0 j - m ord0 j) * c ord0 j))
              = affine (sqdev A (wmean w A)) 0 (\row_j (c ord0 j) ^+ 2).
      by apply/matrixP => i j; rewrite !mxE; ring.
    by rewrite wmean_affine //; apply/rowP => j; rewrite !mxE subr0.
  Qed.

  (* rescaling all weights by a non-zero factor changes nothing *)
  Lemma wsum_scale (a : F) w : wsum (a *: w) = a * wsum w.
  Proof. by rewrite /wsum mulr_sumr; apply: eq_bigr => i _; rewrite mxE. Qed.

  Lemma wmean_scale_w p (a : F) w (A : 'M[F]_(n, p)) :
    a != 0 -> wsum w != 0 -> wmean (a *: w) A = wmean w A.
  Proof.
    move=> a0 S0; apply/rowP => j; rewrite !mxE wsum_scale.
    have -> : \sum_i (a *: w) i ord0 * A i j = a * \sum_i w i ord0 * A i j.
      by rewrite mulr_sumr; apply: eq_bigr => i _; rewrite mxE mulrA.
    by field; rewrite a0 S0.
  Qed.

  Lemma wsum_ones : wsum (const_mx 1 : 'cV[F]_n) = n%:R.
  Proof.
    rewrite /wsum (eq_bigr (fun=> 1)) => [|i _]; last by rewrite mxE.
    by rewrite sumr_const card_ord.
  Qed.
End Stats.

(* ---- evaluation steps of [eval_mx] (all by computation), used instead of /= so that
        sub-programs stay folded ------------------------------------------------------ *)
Section Steps.
  Variable F : rcfType.
  Variable env : env_mx F.
  Lemma evVar m n x : eval_mx env (@MVar m n x) = env m n x. Proof. by []. Qed.
  Lemma evZero m n : eval_mx env (MZero m n) = 0. Proof. by []. Qed.
  Lemma evOnes m n : eval_mx env (MOnes m n) = const_mx 1. Proof. by []. Qed.
  Lemma evId n : eval_mx env (MId n) = 1%:M. Proof. by []. Qed.
  Lemma evAdd m n (a b : mexp m n) : eval_mx env (MAdd a b) = eval_mx env a + eval_mx env b.
  Proof. by []. Qed.
  Lemma evSub m n (a b : mexp m n) : eval_mx env (MSub a b) = eval_mx env a - eval_mx env b.
  Proof. by []. Qed.
  Lemma evMul m n p (a : mexp m n) (b : mexp n p) :
    eval_mx env (MMul a b) = eval_mx env a *m eval_mx env b.
  Proof. by []. Qed.
  Lemma evScale m n (c : mexp 1 1) (a : mexp m n) :
    eval_mx env (MScale c a) = (eval_mx env c) ord0 ord0 *: eval_mx env a.
  Proof. by []. Qed.
  Lemma evTr m n (a : mexp m n) : eval_mx env (MTr a) = (eval_mx env a)^T. Proof. by []. Qed.
  Lemma evMap m n f (t : mexp 1 1) (a : mexp m n) :
    eval_mx env (MMap f t a) = map_mx (sfun_mx f ((eval_mx env t) ord0 ord0)) (eval_mx env a).
  Proof. by []. Qed.
  Lemma evHad m n (a b : mexp m n) :
    eval_mx env (MHad a b) = \matrix_(i, j) ((eval_mx env a) i j * (eval_mx env b) i j).
  Proof. by []. Qed.
  Lemma evTrace n (a : mexp n n) : eval_mx env (MTrace a) = (\tr (eval_mx env a))%:M.
  Proof. by []. Qed.
  Lemma evDiagOf n (a : mexp n n) : eval_mx env (MDiagOf a) = \col_i (eval_mx env a) i i.
  Proof. by []. Qed.

  (* ones (k x 1) times a row: every row of the result is that row *)
  Lemma ones_mul_row k p (r : 'rV[F]_p) i j : ((const_mx 1 : 'cV[F]_k) *m r) i j = r ord0 j.
  Proof. by rewrite !mxE big_ord1 !mxE mul1r. Qed.
End Steps.

(* ---- Part 2: what the programs evaluate to --------------------------------------------- *)
Section Formulas.
  Variable F : rcfType.
  Variables (cfg : sc_cfg) (n d : nat).
  Variables (X : 'M[F]_(n, d)) (w : 'cV[F]_n).
  Let env := sc_env_fit_mx X w.
  Let ew := sc_effw cfg w.

  Lemma ev_vX : eval_mx env (vX n d) = X.
  Proof. by rewrite /vX evVar /env /sc_env_fit_mx /env_of /= unbox_box. Qed.
  Lemma ev_vW : eval_mx env (vW n) = w.
  Proof. by rewrite /vW evVar /env /sc_env_fit_mx /env_of /= unbox_box. Qed.

  Lemma ev_wts : eval_mx env (sc_wts cfg n) = if has_w cfg then (wsum w)^-1 *: w else const_mx 1.
  Proof.
    rewrite /sc_wts; case: (has_w cfg) => //.
    rewrite evScale evMap evMul evTr evOnes ev_vW; congr (_ *: _).
    rewrite !mxE /wsum; congr (_ ^-1); apply: eq_bigr => i _.
    by rewrite !mxE mul1r.
  Qed.

  Lemma ev_avg (p : nat) (A : mexp n p) :
    eval_mx env (sc_avg cfg n A) = wmean (eval_mx env (sc_wts cfg n)) (eval_mx env A).
  Proof.
    apply/rowP => j; rewrite /sc_avg evScale evMap !evMul !evTr evOnes !mxE /wsum mulrC.
    congr (_ / _); first by apply: eq_bigr => i _; rewrite !mxE.
    by apply: eq_bigr => i _; rewrite !mxE mul1r.
  Qed.

  Lemma wmean_wts (p : nat) (A : 'M[F]_(n, p)) :
    sc_wok cfg w -> wmean (eval_mx env (sc_wts cfg n)) A = wmean ew A.
  Proof.
    rewrite ev_wts /sc_wok /ew /sc_effw; case: (has_w cfg) => //= S0.
    by rewrite wmean_scale_w // invr_eq0.
  Qed.

  Lemma ev_xmean : sc_wok cfg w -> eval_mx env (sc_xmean cfg n d) = wmean ew X.
  Proof. by move=> ok; rewrite /sc_xmean ev_avg wmean_wts // ev_vX. Qed.

  Lemma ev_var : sc_wok cfg w -> eval_mx env (sc_var cfg n d) = wvar ew X.
  Proof.
    move=> ok; rewrite /sc_var ev_avg wmean_wts // wvarE; congr (wmean _ _).
    apply/matrixP => i j.
    rewrite evMap evSub evMul evOnes ev_xmean // ev_vX.
    by rewrite !mxE /= big_ord1 !mxE mul1r expr2.
  Qed.

  Lemma ev_varsum : sc_wok cfg w ->
    (eval_mx env (sc_varsum cfg n d)) ord0 ord0 = \sum_j (wvar ew X) ord0 j.
  Proof.
    move=> ok; rewrite /sc_varsum evMul evOnes ev_var // !mxE.
    by apply: eq_bigr => j _; rewrite !mxE mulr1.
  Qed.

  Lemma ev_avgmean : sc_wok cfg w ->
    (eval_mx env (sc_avgmean cfg n d)) ord0 ord0 = (\sum_j (wmean ew X) ord0 j) / d%:R.
  Proof.
    move=> ok; rewrite /sc_avgmean evScale evMap !evMul !evOnes ev_xmean // !mxE mulrC.
    congr (_ / _); first by apply: eq_bigr => j _; rewrite !mxE mulr1.
    rewrite (eq_bigr (fun=> 1)) => [|j _]; last by rewrite !mxE mulr1.
    by rewrite sumr_const card_ord.
  Qed.

  (* scale_ in terms of the weighted variances *)
  Definition scale_of (v : 'rV[F]_d) : 'rV[F]_d :=
    if with_std cfg then
      if column_wise cfg then map_mx Num.sqrt v else const_mx (Num.sqrt (\sum_j v ord0 j))
    else const_mx 1.

  Lemma ev_scale : sc_wok cfg w -> eval_mx env (sc_scale cfg n d) = scale_of (wvar ew X).
  Proof.
    move=> ok; rewrite /sc_scale /scale_of; case: (with_std cfg) => //.
    case: (column_wise cfg); first by rewrite evMap ev_var.
    apply/rowP => j; rewrite evMul evMap evOnes.
    rewrite (mx11_scalar (eval_mx env (sc_varsum cfg n d))) ev_varsum //.
    by rewrite !mxE big_ord1 !mxE mulr1 /= mulr1n.
  Qed.

  Definition mean_of (m : 'rV[F]_d) : 'rV[F]_d := if with_mean cfg then m else 0.

  Lemma ev_mean : sc_wok cfg w -> eval_mx env (sc_mean cfg n d) = mean_of (wmean ew X).
  Proof.
    by move=> ok; rewrite /sc_mean /mean_of; case: (with_mean cfg) => //; rewrite ev_xmean.
  Qed.

  (* the guard in terms of the weighted statistics *)
  Definition guard_of (rtol atol : F) (m v : 'rV[F]_d) : bool :=
    if with_std cfg then
      if column_wise cfg then [exists j, v ord0 j < atol + `|m ord0 j| * rtol]
      else \sum_j v ord0 j < `|(\sum_j m ord0 j) / d%:R| * rtol + atol
    else false.

  Lemma ev_guard rtol atol : sc_wok cfg w ->
    sc_guard_mx cfg n d rtol atol env = guard_of rtol atol (wmean ew X) (wvar ew X).
  Proof.
    move=> ok; rewrite /sc_guard_mx /guard_of; case: (with_std cfg) => //.
    case: (column_wise cfg); first by rewrite ev_var // ev_xmean.
    by rewrite ev_varsum // ev_avgmean.
  Qed.

  (* fit as a function of (n < 2), the weighted means and the weighted variances only *)
  Definition fit_of (rtol atol : F) (small : bool) (m v : 'rV[F]_d) : option ('rV[F]_d * 'rV[F]_d) :=
    if small then None else if guard_of rtol atol m v then None else Some (mean_of m, scale_of v).

  Lemma sc_fit_mxE rtol atol : sc_wok cfg w ->
    sc_fit_mx cfg rtol atol X w = fit_of rtol atol (n < 2)%N (wmean ew X) (wvar ew X).
  Proof.
    by move=> ok; rewrite /sc_fit_mx /fit_of -/env ev_guard // ev_mean // ev_scale.
  Qed.
End Formulas.

Section TransformFormulas.
  Variable F : rcfType.
  Variables (d k : nat) (st : 'rV[F]_d * 'rV[F]_d) (Y : 'M[F]_(k, d)).
  Let env := sc_env_tr_mx Y st.1 st.2.

  Lemma ev_vY : eval_mx env (vY d k) = Y.
  Proof. by rewrite /vY evVar /env /sc_env_tr_mx /env_of /= unbox_box. Qed.
  Lemma ev_vMean : eval_mx env (vMean d) = st.1.
  Proof. by rewrite /vMean evVar /env /sc_env_tr_mx /env_of /= unbox_box. Qed.
  Lemma ev_vScale : eval_mx env (vScale d) = st.2.
  Proof. by rewrite /vScale evVar /env /sc_env_tr_mx /env_of /= unbox_box. Qed.

  Lemma sc_transform_mxE :
    sc_transform_mx st Y = affine Y st.1 (map_mx (fun x => x^-1) st.2).
  Proof.
    apply/matrixP => i j; rewrite /sc_transform_mx -/env /sc_transform.
    rewrite evHad evSub !evMul evMap !evOnes ev_vY ev_vMean ev_vScale.
    by rewrite !mxE /= !big_ord1 !mxE !mul1r.
  Qed.

  Lemma sc_transform_mx_ij i j :
    (sc_transform_mx st Y) i j = (Y i j - st.1 ord0 j) / st.2 ord0 j.
  Proof. by rewrite sc_transform_mxE !mxE. Qed.

  Lemma sc_inverse_mxE i j :
    (sc_inverse_mx st Y) i j = Y i j * st.2 ord0 j + st.1 ord0 j.
  Proof.
    rewrite /sc_inverse_mx -/env /sc_inverse.
    rewrite evAdd evHad !evMul !evOnes ev_vY ev_vMean ev_vScale.
    by rewrite !mxE /= !big_ord1 !mxE !mul1r.
  Qed.
End TransformFormulas.

(* ---- Part 3: the theorems --------------------------------------------------------------- *)
Section FitFacts.
  Variable F : rcfType.
  Variables (cfg : sc_cfg) (n d : nat).
  Variables (rtol atol : F).

  Lemma effw_sum_nz (w : 'cV[F]_n) : sc_wok cfg w -> (1 < n)%N -> wsum (sc_effw cfg w) != 0.
  Proof.
    rewrite /sc_wok /sc_effw; case: (has_w cfg) => //= _ n1.
    by rewrite wsum_ones pnatr_eq0 -lt0n ltnW.
  Qed.

  Lemma fit_of_some small (m v : 'rV[F]_d) st :
    fit_of cfg rtol atol small m v = Some st ->
    [/\ ~~ small, ~~ guard_of cfg rtol atol m v, st.1 = mean_of cfg m & st.2 = scale_of cfg v].
  Proof.
    rewrite /fit_of; case: small => //; case: (guard_of _ _ _ _ _) => //.
    by case=> <-.
  Qed.

  Lemma fit_some (X : 'M[F]_(n, d)) (w : 'cV[F]_n) st :
    sc_wok cfg w -> sc_fit_mx cfg rtol atol X w = Some st ->
    let ew := sc_effw cfg w in
    [/\ (1 < n)%N, wsum ew != 0, ~~ guard_of cfg rtol atol (wmean ew X) (wvar ew X),
        st.1 = mean_of cfg (wmean ew X) & st.2 = scale_of cfg (wvar ew X)].
  Proof.
    move=> ok; rewrite sc_fit_mxE // => /fit_of_some [n1 g e1 e2].
    have n2 : (1 < n)%N by rewrite ltnNge.
    by split=> //; apply: effw_sum_nz.
  Qed.

  (* when the guard does not fire and the tolerances are sane, the scale is positive and
     its square is the variance it was computed from *)
  Lemma scale_of_pos (m v : 'rV[F]_d) :
    0 < atol -> 0 <= rtol -> ~~ guard_of cfg rtol atol m v ->
    forall j, 0 < (scale_of cfg v) ord0 j.
  Proof.
    move=> a0 r0; rewrite /guard_of /scale_of; case: (with_std cfg); last first.
      by move=> _ j; rewrite mxE ltr01.
    case: (column_wise cfg).
      rewrite negb_exists => /forallP H j; rewrite mxE sqrtr_gt0.
      have := H j; rewrite -leNgt; apply: lt_le_trans.
      by rewrite ltr_paddr // mulr_ge0.
    rewrite -leNgt => H j; rewrite mxE sqrtr_gt0; apply: lt_le_trans H.
    by rewrite ltr_paddl // mulr_ge0.
  Qed.

  Lemma guard_var_ge (m v : 'rV[F]_d) :
    with_std cfg -> ~~ guard_of cfg rtol atol m v ->
    if column_wise cfg then forall j, atol + `|m ord0 j| * rtol <= v ord0 j
    else `|(\sum_j m ord0 j) / d%:R| * rtol + atol <= \sum_j v ord0 j.
  Proof.
    rewrite /guard_of => ->; case: (column_wise cfg); last by rewrite -leNgt.
    by rewrite negb_exists => /forallP H j; rewrite leNgt.
  Qed.

  Lemma scale_of_sqr (m v : 'rV[F]_d) :
    0 <= atol -> 0 <= rtol -> with_std cfg -> ~~ guard_of cfg rtol atol m v ->
    forall j, (scale_of cfg v) ord0 j ^+ 2
              = if column_wise cfg then v ord0 j else \sum_j v ord0 j.
  Proof.
    move=> a0 r0 ws g j; have := guard_var_ge ws g; rewrite /scale_of ws.
    case: (column_wise cfg) => H; rewrite mxE sqr_sqrtr //.
      by apply: le_trans (H j); rewrite addr_ge0 // mulr_ge0.
    by apply: le_trans H; rewrite addr_ge0 // mulr_ge0.
  Qed.
End FitFacts.

Section Theorems.
  Variable F : rcfType.
  Variables (cfg : sc_cfg) (n d : nat).
  Variables (rtol atol : F) (X : 'M[F]_(n, d)) (w : 'cV[F]_n).
  Variable st : 'rV[F]_d * 'rV[F]_d.
  Let ew := sc_effw cfg w.
  Hypothesis ok : sc_wok cfg w.
  Hypothesis fitS : sc_fit_mx cfg rtol atol X w = Some st.

  (* weighted column means of the transformed training data vanish *)
  Lemma sc_mean_zero :
    with_mean cfg -> 0 < atol -> 0 <= rtol -> wmean ew (sc_transform_mx st X) = 0.
  Proof.
    move=> wm _ _; have [n1 S0 g e1 e2] := fit_some ok fitS.
    rewrite sc_transform_mxE wmean_affine // e1 /mean_of wm; apply/rowP => j.
    by rewrite [LHS]mxE subrr mul0r mxE.
  Qed.

  Lemma sc_wvar_transform j :
    (wvar ew (sc_transform_mx st X)) ord0 j = (wvar ew X) ord0 j / (st.2 ord0 j) ^+ 2.
  Proof.
    have [n1 S0 g e1 e2] := fit_some ok fitS.
    by rewrite sc_transform_mxE wvar_affine // !mxE exprVn.
  Qed.

  (* column-wise mode: every weighted column variance of the transformed data is one *)
  Lemma sc_unit_variance_columnwise :
    with_std cfg -> column_wise cfg -> 0 < atol -> 0 <= rtol ->
    wvar ew (sc_transform_mx st X) = const_mx 1.
  Proof.
    move=> ws cw a0 r0; have [n1 S0 g e1 e2] := fit_some ok fitS.
    apply/rowP => j; rewrite sc_wvar_transform e2 (scale_of_sqr (ltW a0) r0 ws g) cw.
    have : 0 < (scale_of cfg (wvar ew X)) ord0 j ^+ 2.
      by rewrite exprn_gt0 // (scale_of_pos a0 r0 g).
    rewrite (scale_of_sqr (ltW a0) r0 ws g) cw => /lt0r_neq0 v0.
    by rewrite divff // mxE.
  Qed.

  (* whole-matrix mode: the weighted column variances of the transformed data sum to one *)
  Lemma sc_unit_total_variance :
    with_std cfg -> ~~ column_wise cfg -> 0 < atol -> 0 <= rtol ->
    \sum_j (wvar ew (sc_transform_mx st X)) ord0 j = 1.
  Proof.
    move=> ws /negbTE cw a0 r0; have [n1 S0 g e1 e2] := fit_some ok fitS.
    have sq j := scale_of_sqr (ltW a0) r0 ws g j; rewrite cw in sq.
    rewrite (eq_bigr (fun j => (wvar ew X) ord0 j / (\sum_j (wvar ew X) ord0 j))); last first.
      by move=> j _; rewrite sc_wvar_transform e2 sq.
    rewrite -mulr_suml divff // lt0r_neq0 //.
    have := guard_var_ge ws g; rewrite cw; apply: lt_le_trans.
    by rewrite ltr_paddl // mulr_ge0.
  Qed.

  (* inverse_transform undoes transform (on any data), and conversely *)
  Lemma sc_inverseK k (Y : 'M[F]_(k, d)) :
    0 < atol -> 0 <= rtol -> sc_inverse_mx st (sc_transform_mx st Y) = Y.
  Proof.
    move=> a0 r0; have [n1 S0 g e1 e2] := fit_some ok fitS.
    apply/matrixP => i j; rewrite sc_inverse_mxE sc_transform_mx_ij.
    have s0 : st.2 ord0 j != 0 by rewrite e2 lt0r_neq0 // (scale_of_pos a0 r0 g).
    by rewrite divfK // subrK.
  Qed.

  Lemma sc_transformK k (T : 'M[F]_(k, d)) :
    0 < atol -> 0 <= rtol -> sc_transform_mx st (sc_inverse_mx st T) = T.
  Proof.
    move=> a0 r0; have [n1 S0 g e1 e2] := fit_some ok fitS.
    apply/matrixP => i j; rewrite sc_transform_mx_ij sc_inverse_mxE.
    have s0 : st.2 ord0 j != 0 by rewrite e2 lt0r_neq0 // (scale_of_pos a0 r0 g).
    by rewrite addrK mulfK.
  Qed.

  (* no division by a scale below sqrt(tolerance) *)
  Lemma sc_scale_bounded :
    with_std cfg -> 0 <= atol -> 0 <= rtol ->
    if column_wise cfg
    then forall j, (st.2 ord0 j) ^+ 2 = (wvar ew X) ord0 j
                   /\ atol + `|(wmean ew X) ord0 j| * rtol <= (st.2 ord0 j) ^+ 2
    else forall j, (st.2 ord0 j) ^+ 2 = \sum_j (wvar ew X) ord0 j
                   /\ `|(\sum_j (wmean ew X) ord0 j) / d%:R| * rtol + atol <= (st.2 ord0 j) ^+ 2.
  Proof.
    move=> ws a0 r0; have [n1 S0 g e1 e2] := fit_some ok fitS.
    have sq j := scale_of_sqr a0 r0 ws g j; have := guard_var_ge ws g.
    by case: (column_wise cfg) sq => sq H j; rewrite e2 sq.
  Qed.
End Theorems.

(* ---- shifts, rescalings, replicated rows: effect on the weighted statistics ------------- *)
Section StatsMaps.
  Variable F : rcfType.
  Variables (n p : nat) (w : 'cV[F]_n) (A : 'M[F]_(n, p)).
  Hypothesis S0 : wsum w != 0.

  Lemma wmean_shift (c : 'rV[F]_p) : wmean w (A + rows_of n c) = wmean w A + c.
  Proof.
    have -> : A + rows_of n c = affine A (- c) (const_mx 1).
      by apply/matrixP => i j; rewrite !mxE opprK mulr1.
    rewrite wmean_affine //; move: (wmean w A) => m.
    by apply/rowP => j; rewrite !mxE opprK mulr1.
  Qed.

  Lemma wvar_shift (c : 'rV[F]_p) : wvar w (A + rows_of n c) = wvar w A.
  Proof.
    have -> : A + rows_of n c = affine A (- c) (const_mx 1).
      by apply/matrixP => i j; rewrite !mxE opprK mulr1.
    rewrite wvar_affine //; move: (wvar w A) => v.
    by apply/rowP => j; rewrite !mxE expr1n mulr1.
  Qed.

  Lemma wmean_rescale (a : F) : wmean w (a *: A) = a *: wmean w A.
  Proof.
    have -> : a *: A = affine A 0 (const_mx a).
      by apply/matrixP => i j; rewrite !mxE subr0 mulrC.
    rewrite wmean_affine //; move: (wmean w A) => m.
    by apply/rowP => j; rewrite !mxE subr0 mulrC.
  Qed.

  Lemma wvar_rescale (a : F) : wvar w (a *: A) = a ^+ 2 *: wvar w A.
  Proof.
    have -> : a *: A = affine A 0 (const_mx a).
      by apply/matrixP => i j; rewrite !mxE subr0 mulrC.
    rewrite wvar_affine //; move: (wvar w A) => v.
    by apply/rowP => j; rewrite !mxE mulrC.
  Qed.

  Lemma wmean_ones (B : 'M[F]_(n, p)) :
    wmean (const_mx 1) B = \row_j ((\sum_i B i j) / n%:R).
  Proof.
    apply/rowP => j; rewrite !mxE wsum_ones; congr (_ / _).
    by apply: eq_bigr => i _; rewrite mxE mul1r.
  Qed.
End StatsMaps.

Section Replicated.
  Variable F : rcfType.
  Variables (n N : nat) (w : 'cV[F]_n) (f : 'I_N -> 'I_n).
  (* w_i is the number of rows of the replicated data that are copies of row i *)
  Hypothesis count : forall i, w i ord0 = #|[pred k | f k == i]|%:R.

  Lemma sum_rep (g : 'I_n -> F) : \sum_(k < N) g (f k) = \sum_(i < n) w i ord0 * g i.
  Proof.
    rewrite (partition_big f xpredT) //=; apply: eq_bigr => i _.
    rewrite (eq_bigr (fun=> g i)) => [|k /eqP -> //].
    by rewrite sumr_const count mulr_natl.
  Qed.

  Lemma wsum_rep : wsum (const_mx 1 : 'cV[F]_N) = wsum w.
  Proof.
    rewrite wsum_ones /wsum -[N]card_ord -sum1_card natr_sum.
    rewrite (sum_rep (fun=> 1)); apply: eq_bigr => i _; by rewrite mulr1.
  Qed.

  Lemma wmean_rep p (A : 'M[F]_(n, p)) :
    wmean (const_mx 1) (\matrix_(k, j) A (f k) j : 'M[F]_(N, p)) = wmean w A.
  Proof.
    apply/rowP => j; rewrite !mxE wsum_rep; congr (_ / _).
    rewrite -(sum_rep (fun i => A i j)); apply: eq_bigr => k _.
    by rewrite !mxE mul1r.
  Qed.

  Lemma wvar_rep p (A : 'M[F]_(n, p)) :
    wvar (const_mx 1) (\matrix_(k, j) A (f k) j : 'M[F]_(N, p)) = wvar w A.
  Proof.
    rewrite !wvarE wmean_rep -(wmean_rep (sqdev A (wmean w A))); congr (wmean _ _).
    by apply/matrixP => k j; rewrite !mxE.
  Qed.
End Replicated.

Section MoreTheorems.
  Variable F : rcfType.
  Variables (cfg : sc_cfg) (n d : nat).
  Variables (rtol atol : F) (X : 'M[F]_(n, d)) (w : 'cV[F]_n).
  Let ew := sc_effw cfg w.
  Hypothesis ok : sc_wok cfg w.

  (* unweighted column-wise mode is the textbook z-score with the population variance *)
  Lemma sc_textbook st k (Y : 'M[F]_(k, d)) i j :
    sc_fit_mx cfg rtol atol X w = Some st ->
    ~~ has_w cfg -> with_mean cfg -> with_std cfg -> column_wise cfg ->
    let mu := (\sum_l X l j) / n%:R in
    (sc_transform_mx st Y) i j
    = (Y i j - mu) / Num.sqrt ((\sum_l (X l j - mu) ^+ 2) / n%:R).
  Proof.
    move=> fitS /negbTE hw wm ws cw; have [n1 S0 g e1 e2] := fit_some ok fitS.
    rewrite sc_transform_mx_ij e1 e2 /mean_of /scale_of wm ws cw /sc_effw hw /=.
    rewrite [in X in _ / X]mxE wvarE !wmean_ones !mxE.
    by congr (_ / Num.sqrt (_ / _)); apply: eq_bigr => l _; rewrite !mxE.
  Qed.

  (* the guard fires exactly when the variance is below the configured tolerance *)
  Lemma sc_rejected_iff :
    isSome (sc_fit_mx cfg rtol atol X w)
    = ~~ ((n < 2)%N
          || with_std cfg
             && (if column_wise cfg
                 then [exists j, (wvar ew X) ord0 j < atol + `|(wmean ew X) ord0 j| * rtol]
                 else \sum_j (wvar ew X) ord0 j
                      < `|(\sum_j (wmean ew X) ord0 j) / d%:R| * rtol + atol)).
  Proof.
    rewrite sc_fit_mxE // /fit_of /guard_of -/ew; case: (n < 2)%N => //=.
    by case: (with_std cfg) => //=; case: (if column_wise cfg then _ else _).
  Qed.

  (* a prior shift of the input: same scale; with centring on, same transformed data *)
  Lemma sc_shift st st' (c : 'rV[F]_d) :
    sc_fit_mx cfg rtol atol X w = Some st ->
    sc_fit_mx cfg rtol atol (X + rows_of n c) w = Some st' ->
    st'.2 = st.2
    /\ (with_mean cfg -> forall k (Y : 'M[F]_(k, d)),
          sc_transform_mx st' (Y + rows_of k c) = sc_transform_mx st Y).
  Proof.
    move=> fitS fitS'; have [n1 S0 g e1 e2] := fit_some ok fitS.
    have [_ _ g' e1' e2'] := fit_some ok fitS'.
    move: e1' e2'; rewrite wmean_shift // wvar_shift // -e2 => e1' e2'; split=> // wm k Y.
    apply/matrixP => i j; rewrite !sc_transform_mx_ij e2' e1' e1 /mean_of wm.
    move: (wmean _ X) => m; rewrite !mxE.
    by congr (_ / _); rewrite opprD addrA addrAC addrK.
  Qed.

  (* with rtol = 0 the guard itself is shift invariant: the shifted fit succeeds too *)
  Lemma sc_shift_fit st (c : 'rV[F]_d) :
    rtol = 0 -> sc_fit_mx cfg rtol atol X w = Some st ->
    sc_fit_mx cfg rtol atol (X + rows_of n c) w
    = Some (if with_mean cfg then st.1 + c else st.1, st.2).
  Proof.
    move=> r0 fitS; have [n1 S0 g e1 e2] := fit_some ok fitS.
    rewrite sc_fit_mxE // wmean_shift // wvar_shift // /fit_of ltnNge n1 /=.
    have -> : guard_of cfg rtol atol (wmean ew X + c) (wvar ew X)
              = guard_of cfg rtol atol (wmean ew X) (wvar ew X).
      rewrite /guard_of r0; case: (with_std cfg) => //.
      case: (column_wise cfg); last by rewrite !mulr0.
      by apply: eq_existsb => j; rewrite !mulr0.
    by rewrite (negbTE g) e1 e2 /mean_of; case: (with_mean cfg).
  Qed.

  (* a prior uniform rescaling by a != 0: the transformed data is multiplied by sign a *)
  Lemma sc_rescale st st' (a : F) :
    a != 0 -> with_std cfg ->
    sc_fit_mx cfg rtol atol X w = Some st ->
    sc_fit_mx cfg rtol atol (a *: X) w = Some st' ->
    forall k (Y : 'M[F]_(k, d)),
      sc_transform_mx st' (a *: Y) = Num.sg a *: sc_transform_mx st Y.
  Proof.
    move=> a0 ws fitS fitS' k Y; have [n1 S0 g e1 e2] := fit_some ok fitS.
    have [_ _ g' e1' e2'] := fit_some ok fitS'.
    move: e1' e2'; rewrite wmean_rescale // wvar_rescale // => e1' e2'.
    have m' : st'.1 = a *: st.1.
      by rewrite e1' e1 /mean_of; case: (with_mean cfg); rewrite ?scaler0.
    have s' j : st'.2 ord0 j = `|a| * st.2 ord0 j.
      rewrite e2' e2 /scale_of ws; case: (column_wise cfg); rewrite !mxE.
        by rewrite sqrtrM ?sqr_ge0 // sqrtr_sqr.
      rewrite (eq_bigr (fun j => a ^+ 2 * (wvar ew X) ord0 j)) => [|l _]; last by rewrite mxE.
      by rewrite -mulr_sumr sqrtrM ?sqr_ge0 // sqrtr_sqr.
    have sg : a / `|a| = Num.sg a by rewrite {1}(numEsg a) mulfK // normr_eq0.
    apply/matrixP => i j; rewrite [RHS]mxE !sc_transform_mx_ij m' s' !mxE -mulrBr invfM -sg.
    by rewrite mulrACA.
  Qed.
End MoreTheorems.

Section ReplicateTheorem.
  Variable F : rcfType.
  Variables (wm ws cw : bool) (n N d : nat).
  Variables (rtol atol : F) (X : 'M[F]_(n, d)) (w : 'cV[F]_n) (f : 'I_N -> 'I_n).
  Hypothesis count : forall i, w i ord0 = #|[pred k | f k == i]|%:R.

  (* integer weights are equivalent to repeating rows: fitting with sample_weight = w gives
     the same outcome (same mean_, same scale_, or rejected alike) as fitting without
     weights on the data in which row i occurs w_i times (in any order) *)
  Lemma sc_replicate (w' : 'cV[F]_N) :
    (1 < n)%N -> (1 < N)%N ->
    sc_fit_mx (ScCfg wm ws cw false) rtol atol (\matrix_(k, j) X (f k) j : 'M[F]_(N, d)) w'
    = sc_fit_mx (ScCfg wm ws cw true) rtol atol X w.
  Proof.
    move=> n1 N1; rewrite !sc_fit_mxE //; last first.
      rewrite /sc_wok /= -(wsum_rep count) wsum_ones pnatr_eq0 -lt0n; exact: ltnW.
    have -> : (n < 2)%N = false by rewrite ltnNge n1.
    have -> : (N < 2)%N = false by rewrite ltnNge N1.
    by rewrite /sc_effw /= (wmean_rep count) (wvar_rep count).
  Qed.
End ReplicateTheorem.

(* ---- a concrete accepted input over every real closed field (non-vacuity) ------------------ *)
Lemma sc_nonvacuous (F : rcfType) :
  let X : 'M[F]_(2, 1) := \matrix_(i, j) (i : nat)%:R *+ 2 in
  sc_wok (ScCfg true true true false) (0 : 'cV[F]_2)
  /\ sc_fit_mx (ScCfg true true true false) 0 (2%:R^-1) X 0 = Some (const_mx 1, const_mx 1).
Proof.
  move=> X; split=> //; rewrite sc_fit_mxE // /sc_effw /=.
  have two : (2%:R : F) != 0 by rewrite pnatr_eq0.
  have m1 : wmean (const_mx 1) X = const_mx 1.
    apply/rowP => j; rewrite wmean_ones !mxE !big_ord_recl big_ord0 !mxE /=.
    have -> : bump 0 0 = 1%N by [].
    by rewrite !add0r addr0; apply: divff.
  have v1 : wvar (const_mx 1) X = const_mx 1.
    rewrite wvarE m1 wmean_ones; apply/rowP => j.
    rewrite !mxE !big_ord_recl big_ord0 !mxE /=.
    have -> : bump 0 0 = 1%N by [].
    rewrite !add0r sqrrN expr1n addrK expr1n addr0.
    exact: divff.
  rewrite m1 v1 /fit_of /guard_of /mean_of /scale_of /=.
  have -> : [exists j, (const_mx 1 : 'rV[F]_1) ord0 j < 2%:R^-1 + `|(const_mx 1 : 'rV[F]_1) ord0 j| * 0] = false.
    apply/negbTE; rewrite negb_exists; apply/forallP => j.
    by rewrite !mxE mulr0 addr0 -leNgt invf_le1 ?ler1n // ltr0n.
  congr (Some (_, _)); apply/rowP => j; by rewrite !mxE sqrtr1.
Qed.
