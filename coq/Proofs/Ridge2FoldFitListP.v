(* The fold choice of Ridge2FoldCV.fit for unshuffled KFold (Model/Ridge2FoldFit.v,
   [kfold_first]): arithmetic and list facts.  Stdlib style. *)
From Coq Require Import ZArith List Bool Arith Lia.
From Verif Require Import MExp Ridge2Fold Ridge2FoldFit.
Import ListNotations.

(* h = ceil(n / k) *)
Lemma kfold_h_spec n k : 2 <= k -> k <= n ->
  n <= kfold_h n k * k /\ kfold_h n k * k < n + k /\ 0 < kfold_h n k /\ kfold_h n k < n.
Proof.
  intros Hk Hn. unfold kfold_h.
  assert (k0 : k <> 0) by lia.
  pose proof (Nat.div_mod n k k0) as E.
  pose proof (Nat.mod_upper_bound n k k0) as B.
  destruct (Nat.eqb_spec (n mod k) 0) as [Z | NZ].
  - rewrite Z in E. assert (D : 1 <= n / k) by nia. nia.
  - assert (D : 1 <= n / k) by (destruct (n / k) eqn:Q; [ nia | lia ]). nia.
Qed.

(* the first yield of KFold(k).split on n samples: fold 2 (the test part) is the block
   [0, h), fold 1 (the training part) the block [h, n), h = ceil(n / k); together they list
   every sample exactly once, in order; both are non-empty *)
Lemma kfold_first_spec n k : 2 <= k -> k <= n ->
  let h := kfold_h n k in
  let f1 := fst (kfold_first n k) in
  let f2 := snd (kfold_first n k) in
  f2 = seq 0 h /\ f1 = seq h (n - h) /\ f2 ++ f1 = seq 0 n /\
  length f2 = h /\ length f1 = n - h /\ 0 < h /\ h < n.
Proof.
  intros Hk Hn h f1 f2.
  destruct (kfold_h_spec n k Hk Hn) as (H1 & H2 & H3 & H4).
  unfold f1, f2, kfold_first; cbn [fst snd]; fold h.
  repeat split; try (rewrite seq_length; reflexivity); try assumption.
  replace n with (h + (n - h)) at 2 by (unfold h; lia).
  now rewrite seq_app.
Qed.

(* cv=None (two splits): the folds differ in size by at most one, fold 2 gets the extra sample *)
Lemma kfold2_sizes n : 2 <= n ->
  let f1 := fst (kfold_first n 2) in
  let f2 := snd (kfold_first n 2) in
  length f1 + length f2 = n /\ length f1 <= length f2 /\ length f2 <= S (length f1).
Proof.
  intros Hn f1 f2.
  destruct (kfold_first_spec n 2 (le_n 2) Hn) as (_ & _ & _ & L2 & L1 & _ & _).
  destruct (kfold_h_spec n 2 (le_n 2) Hn) as (H1 & H2 & H3 & H4).
  unfold f1, f2; rewrite L1, L2. lia.
Qed.

(* every index of the two folds addresses a row of the data *)
Lemma kfold_first_in_range n k : 2 <= k -> k <= n ->
  forall i, In i (fst (kfold_first n k) ++ snd (kfold_first n k)) -> i < n.
Proof.
  intros Hk Hn i Hi.
  destruct (kfold_h_spec n k Hk Hn) as (H1 & H2 & H3 & H4).
  unfold kfold_first in Hi; cbn [fst snd] in Hi.
  apply in_app_or in Hi; destruct Hi as [Hi | Hi]; apply in_seq in Hi; lia.
Qed.
