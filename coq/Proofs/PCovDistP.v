(* C02 extension (round 3): the distance PCov-FPS reads off pcovr_distance_,
       d(i, j) = D_ii + D_jj - 2 D_ij,
   for the layer-A programs cov_prog (pcovr_covariance, feature direction) and kern_prog
   (pcovr_kernel, sample direction) of Model/PCovR.v, over an arbitrary real closed field and
   for all shapes: it is the mixed squared Euclidean distance of the embedded items, hence
   symmetric, zero on the diagonal and non-negative for 0 <= mixing <= 1 (which is what makes
   "farthest" meaningful and lets the loop theorems of Proofs/FPSP.v apply).  ssreflect style. *)
From mathcomp Require Import all_ssreflect all_algebra.
From mathcomp Require Import ring.
From Verif Require Import MExp MExpMx PCovR PCovRP PCovRProg.
Import GRing.Theory Num.Theory.
Set Implicit Arguments.
Unset Strict Implicit.
Unset Printing Implicit Defensive.
Local Open Scope ring_scope.

Section InducedDistance.
  Variable F : rcfType.

  (* the distance _PCovFPS._update_hausdorff forms from a matrix *)
  Definition idist r (M : 'M[F]_r) (i j : 'I_r) : F := M i i + M j j - 2%:R * M i j.

  (* scalar identities (ring), applied up to conversion below *)
  Lemma sc_self (x : F) : x + x - 2%:R * x = 0.
  Proof. ring. Qed.
  Lemma sc_lin (s t a1 a2 a3 b1 b2 b3 : F) :
    s * a1 + t * b1 + (s * a2 + t * b2) - 2%:R * (s * a3 + t * b3)
    = s * (a1 + a2 - 2%:R * a3) + t * (b1 + b2 - 2%:R * b3).
  Proof. ring. Qed.
  Lemma sc_sq (x y : F) : x * x + y * y - 2%:R * (x * y) = (x - y) ^+ 2.
  Proof. ring. Qed.
  Lemma sc_swap (x y z : F) : x + y - 2%:R * z = y + x - 2%:R * z.
  Proof. ring. Qed.
  Lemma sc_sqC (x y : F) : (x - y) ^+ 2 = (y - x) ^+ 2.
  Proof. ring. Qed.

  Lemma idist_self r (M : 'M[F]_r) i : idist M i i = 0.
  Proof. exact: sc_self. Qed.

  Lemma idist_lin r (s t : F) (A B : 'M[F]_r) i j :
    idist (s *: A + t *: B) i j = s * idist A i j + t * idist B i j.
  Proof. rewrite /idist !mxE; exact: sc_lin. Qed.

  (* Gram matrix: the induced distance is the squared Euclidean distance of the rows *)
  Lemma idist_gram r c (B : 'M[F]_(r, c)) i j :
    idist (B *m B^T) i j = \sum_q (B i q - B j q) ^+ 2.
  Proof.
    rewrite /idist !mxE mulr_sumr -big_split /= -sumrB; apply: eq_bigr => q _.
    rewrite !mxE; exact: sc_sq.
  Qed.

  Lemma idist_gram_ge0 r c (B : 'M[F]_(r, c)) i j : 0 <= idist (B *m B^T) i j.
  Proof. by rewrite idist_gram sumr_ge0 // => q _; rewrite sqr_ge0. Qed.

  Lemma idist_sym r (M : 'M[F]_r) i j : M^T = M -> idist M i j = idist M j i.
  Proof.
    move=> hs; rewrite /idist; have -> : M j i = M i j by rewrite -[in LHS]hs mxE.
    exact: sc_swap.
  Qed.
End InducedDistance.

Section ProgDistance.
  Variable F : rcfType.
  Variables (n m p : nat) (env : env_mx F).
  Local Notation X := (e_X n m env).
  Local Notation Yh := (e_Yh n p env).
  Local Notation a := (e_a env).
  Local Notation Ct := (eval_mx env (cov_prog n m p)).
  Local Notation Kt := (eval_mx env (kern_prog n m p)).
  Local Notation CY := (eval_mx env (cy_prog n m p)).

  Lemma cov_as_gram : Ct = a *: (X^T *m (X^T)^T) + (1 - a) *: (CY *m CY^T).
  Proof. by rewrite cov_formula cy_formula /f_Ct trmxK addrC. Qed.

  (* feature direction: mixing * |x_i - x_j|^2 + (1 - mixing) * |cy_i - cy_j|^2, x_i = column i of X,
     cy_i = row i of C_Y = C^(-1/2) X^T Y *)
  Theorem cov_distance (i j : 'I_m) :
    idist Ct i j = a * (\sum_q (X q i - X q j) ^+ 2) + (1 - a) * (\sum_q (CY i q - CY j q) ^+ 2).
  Proof.
    rewrite cov_as_gram idist_lin !idist_gram; congr (_ * _ + _).
    by apply: eq_bigr => q _; rewrite !mxE.
  Qed.

  (* sample direction: mixing * |x_i - x_j|^2 + (1 - mixing) * |y_i - y_j|^2 on rows *)
  Theorem kern_distance (i j : 'I_n) :
    idist Kt i j = a * (\sum_q (X i q - X j q) ^+ 2) + (1 - a) * (\sum_q (Yh i q - Yh j q) ^+ 2).
  Proof. by rewrite kern_formula s_Kt_alt idist_lin !idist_gram. Qed.

  Theorem cov_distance_ge0 (i j : 'I_m) : 0 <= a <= 1 -> 0 <= idist Ct i j.
  Proof.
    case/andP=> a0 a1; rewrite cov_distance addr_ge0 // mulr_ge0 ?subr_ge0 //;
      by rewrite sumr_ge0 // => q _; rewrite sqr_ge0.
  Qed.

  Theorem kern_distance_ge0 (i j : 'I_n) : 0 <= a <= 1 -> 0 <= idist Kt i j.
  Proof.
    case/andP=> a0 a1; rewrite kern_distance addr_ge0 // mulr_ge0 ?subr_ge0 //;
      by rewrite sumr_ge0 // => q _; rewrite sqr_ge0.
  Qed.

  (* rows and columns of the matrix agree (np.take(.., axis=1) reads a column): *)
  Theorem cov_distance_sym (i j : 'I_m) : idist Ct i j = idist Ct j i.
  Proof. by rewrite !cov_distance; congr (_ * _ + _ * _); apply: eq_bigr => q _; exact: sc_sqC. Qed.

  Theorem cov_column_is_row (i j : 'I_m) : Ct i j = Ct j i.
  Proof.
    have h : Ct^T = Ct by rewrite cov_formula f_Ct_sym.
    by rewrite -[in LHS]h mxE.
  Qed.

  (* the whole statement in one piece, as used by Properties/C02.v *)
  Theorem cov_distance_spec : 0 <= a <= 1 ->
    forall i j : 'I_m,
      [/\ idist Ct i j = a * (\sum_q (X q i - X q j) ^+ 2) + (1 - a) * (\sum_q (CY i q - CY j q) ^+ 2),
          0 <= idist Ct i j, idist Ct i i = 0 & Ct i j = Ct j i].
  Proof.
    move=> ha i j; split; [exact: cov_distance|exact: cov_distance_ge0|exact: idist_self|exact: cov_column_is_row].
  Qed.

  Theorem kern_distance_spec : 0 <= a <= 1 ->
    forall i j : 'I_n,
      [/\ idist Kt i j = a * (\sum_q (X i q - X j q) ^+ 2) + (1 - a) * (\sum_q (Yh i q - Yh j q) ^+ 2),
          0 <= idist Kt i j, idist Kt i i = 0 & Kt i j = Kt j i].
  Proof.
    move=> ha i j; split; [exact: kern_distance|exact: kern_distance_ge0|exact: idist_self|].
    have h : Kt^T = Kt by rewrite kern_formula s_Kt_sym.
    by rewrite -[in LHS]h mxE.
  Qed.
End ProgDistance.

(* non-vacuity: an environment with 0 < mixing < 1 and X <> 0 (the two-sample example of
   Proofs/PCovRExample.v at mixing 1/2), on which the sample-direction distance between the two
   items is 4 *)
From Verif Require Import PCovRExample.
Section DistExample.
  Variable F : rcfType.
  Lemma dist_example :
    exists env : env_mx F,
      [/\ 0 <= e_a env <= 1, e_X 2 1 env != 0
        & idist (eval_mx env (kern_prog 2 1 1)) ord0 (lift ord0 ord0) = 4%:R].
  Proof.
    exists (ex_env (2^-1 : F)); split.
    - rewrite ex_mixing invr_ge0 ler0n /= invf_le1 ?ltr0n // ler1n //.
    - exact: ex_X_neq0.
    - rewrite kern_distance ex_mixing !big_ord_recl !big_ord0 /e_X /e_Yh !mxE /ex_entry /= /pm1 /=.
      have h : (1 - 2^-1 : F) = 2^-1.
        by apply: (mulfI (x := 2%:R)); rewrite ?pnatr_eq0 // mulrBr mulfV ?pnatr_eq0 // mulr1; ring.
      rewrite h; have -> : (1 - -1 : F) = 2%:R by ring.
      rewrite addr0 -mulrDr -mulr2n -mulr_natl mulrA mulVf ?pnatr_eq0 // mul1r; ring.
  Qed.
End DistExample.
