(* C01 (extension): theorems about the buffer-level model Model/SelBuf.v, for every threshold
   test, every score stream, every capacity.  Stdlib style. *)
From Verif Require Import ListX Greedy Select ListXP C01Thm SelBuf.
From Coq Require Import Sorting.Permutation.

(* ---- list helpers ------------------------------------------------------------------------- *)
Lemma firstn_app_le {A} j (s r : list A) : (j <= length s)%nat -> firstn j (s ++ r) = firstn j s.
Proof.
  intros H. rewrite firstn_app. replace (j - length s)%nat with O by lia.
  cbn. now rewrite app_nil_r.
Qed.

Lemma firstn_app_exact {A} (s r : list A) : firstn (length s) (s ++ r) = s.
Proof. rewrite firstn_app_le by lia. apply firstn_all. Qed.

Lemma skipn_repeat {A} (d : A) m k : skipn m (repeat d k) = repeat d (k - m).
Proof.
  revert m; induction k as [|k IH]; intros [|m]; cbn; auto.
Qed.

Lemma set_nth_app_repeat {A} (s : list A) d x m p :
  p = length s -> set_nth p x (s ++ repeat d (S m)) = Some ((s ++ [x]) ++ repeat d m).
Proof.
  intros ->. unfold set_nth. rewrite app_length. cbn [repeat length].
  destruct (Nat.ltb_spec (length s) (length s + S (length (repeat d m)))) as [_|H]; [|lia].
  f_equal. induction s as [|a s IH]; cbn; [reflexivity|]. now rewrite IH.
Qed.

Lemma NoDup_snoc (s : list nat) i : NoDup s -> ~ In i s -> NoDup (s ++ [i]).
Proof.
  intros Hnd Hni. rewrite <- (rev_involutive (s ++ [i])). apply NoDup_rev.
  rewrite rev_app_distr. cbn. constructor; [rewrite <- in_rev; exact Hni|now apply NoDup_rev].
Qed.

Lemma NoDup_app_l {A} (l m : list A) : NoDup (l ++ m) -> NoDup l.
Proof.
  induction l as [|a l IH]; cbn; intros H; [constructor|].
  inversion H as [|? ? Hn Hd]; subst. constructor; [|now apply IH].
  intros Hin. apply Hn. apply in_or_app. now left.
Qed.

Lemma firstn_NoDup {A} j (s : list A) : NoDup s -> NoDup (firstn j s).
Proof. intros H. rewrite <- (firstn_skipn j s) in H. now apply NoDup_app_l in H. Qed.

Lemma firstn_Forall {A} (P : A -> Prop) j s : Forall P s -> Forall P (firstn j s).
Proof.
  intros H. apply Forall_forall. intros x Hx. rewrite Forall_forall in H. apply H.
  rewrite <- (firstn_skipn j s). apply in_or_app. now left.
Qed.

Section SelBufP.
  Variable cand : list (list Z).
  Variable ycand : option (list (list Z)).
  Notation n := (length cand).
  Notation cx := (fun i => nth i cand []).
  Definition ymap (s : list nat) : option (list (list Z)) :=
    match ycand with Some y => Some (map (fun i => nth i y []) s) | None => None end.
  Definition ypad (s : list nat) (m : nat) : option (list (list Z)) :=
    match ycand with
    | Some y => Some (map (fun i => nth i y []) s ++ repeat (zy ycand) m)
    | None => None end.

  Notation b_post := (b_post cand ycand).
  Notation b_best := (b_best cand).
  Notation b_run := (b_run cand ycand).
  Notation b_inits := (b_inits cand ycand).
  Notation bfit := (bfit cand ycand).

  (* loop invariant: the buffers are the selections made so far followed by the zero padding
     up to the capacity K *)
  Definition LInv (K : nat) (b : bst) (s : list nat) : Prop :=
    NoDup s /\ in_rng n s /\ (length s <= K)%nat /\ b_n b = length s /\
    b_idx b = s ++ repeat O (K - length s) /\
    b_x b = map cx s ++ repeat (zx cand) (K - length s) /\
    b_y b = ypad s (K - length s).

  (* state of a fitted object whose buffers are consistent *)
  Definition BOk (b : bst) : Prop :=
    NoDup (b_idx b) /\ in_rng n (b_idx b) /\ b_n b = length (b_idx b) /\
    b_x b = map cx (b_idx b) /\ b_y b = ymap (b_idx b).

  Lemma b_post_inv K b s i :
    LInv K b s -> (length s < K)%nat -> (i < n)%nat -> ~ In i s ->
    exists b', b_post b i = Ok b' /\ LInv K b' (s ++ [i]) /\
               b_first b' = b_first b /\ b_str b' = b_str b.
  Proof.
    intros (Hnd & Hr & Hle & Hn & Hi & Hx & Hy) Hlt Hin Hni.
    unfold SelBuf.b_post. destruct (Nat.leb_spec n i) as [H|_]; [lia|].
    destruct (K - length s)%nat as [|m] eqn:Em; [lia|].
    rewrite Hn, Hx, Hi, Hy.
    rewrite (set_nth_app_repeat (map cx s) (zx cand) (nth i cand []) m) by now rewrite map_length.
    rewrite (set_nth_app_repeat s O i m) by reflexivity.
    assert (Em' : (K - length (s ++ [i]))%nat = m) by (rewrite app_length; cbn; lia).
    unfold ypad. destruct ycand as [y|] eqn:Ey.
    - rewrite (set_nth_app_repeat (map (fun i => nth i y []) s) (zy (Some y)) (nth i y []) m)
        by now rewrite map_length.
      eexists. split; [reflexivity|]. split; [|split; reflexivity].
      unfold LInv, ypad; cbn. rewrite Em', Ey, !map_app, app_length. cbn.
      repeat split; auto; try lia.
      + now apply NoDup_snoc.
      + apply Forall_app. split; [exact Hr|constructor; [exact Hin|constructor]].
    - eexists. split; [reflexivity|]. split; [|split; reflexivity].
      unfold LInv, ypad; cbn. rewrite Em', Ey, !map_app, app_length. cbn.
      repeat split; auto; try lia.
      + now apply NoDup_snoc.
      + apply Forall_app. split; [exact Hr|constructor; [exact Hin|constructor]].
  Qed.

  Lemma LInv_same K b b' s :
    LInv K b s -> b_n b' = b_n b -> b_idx b' = b_idx b -> b_x b' = b_x b -> b_y b' = b_y b ->
    LInv K b' s.
  Proof. unfold LInv. intros H -> -> -> ->. exact H. Qed.

  (* _get_best_new_selection never raises on a well-formed stream, returns an unselected
     in-range index, and keeps it exactly when the threshold test says so *)
  Lemma b_best_spec tst K b s :
    LInv K b s ->
    match b_best tst b with
    | Err e => e = EOut
    | Ok (oi, te, b') =>
        LInv K b' s /\ (exists sc, b_str b = sc :: b_str b') /\
        (forall below, tst = Some below -> te_below below te = negb (te_kept te)) /\
        match oi with
        | Some i => (i < n)%nat /\ ~ In i s /\ te_idx te = i /\ te_kept te = true
        | None => te_kept te = false /\ has_tst tst = true
        end
    end.
  Proof.
    intros HI. unfold SelBuf.b_best.
    destruct (b_str b) as [|sc rest] eqn:Es; [reflexivity|].
    destruct (Nat.eqb_spec (length sc) n) as [Hl|Hl]; cbn [negb]; [|reflexivity].
    assert (Hf : firstn (b_n b) (b_idx b) = s).
    { destruct HI as (_ & _ & _ & Hn & Hi & _). rewrite Hn, Hi. apply firstn_app_exact. }
    rewrite Hf.
    destruct (amax (mask s sc)) as [[i v]|] eqn:Ea; [|reflexivity].
    apply amax_mask_spec in Ea as (Hi & Hns & _). rewrite Hl in Hi.
    destruct tst as [below|].
    - destruct (below _ v) eqn:Hb.
      + split; [eapply LInv_same; eauto|]. split; [eexists; reflexivity|].
        split; [|split; reflexivity].
        intros below' E; injection E as <-. unfold te_below, te_kept; cbn. exact Hb.
      + split; [eapply LInv_same; eauto|]. split; [eexists; reflexivity|].
        split; [|repeat split; auto].
        intros below' E; injection E as <-. unfold te_below, te_kept; cbn. exact Hb.
    - split; [eapply LInv_same; eauto|]. split; [eexists; reflexivity|].
      split; [intros below' E; discriminate|repeat split; auto].
  Qed.

  Definition kept_idx (tr : list tentry) : list nat := map te_idx (filter te_kept tr).

  (* what the loop leaves behind: [s'] all selections, reported through the truncated views
     when the threshold stopped the search at loop counter j + (number of kept steps) *)
  Definition run_post (tst : tstfun) (K j : nat) (s : list nat)
             (r : bst * bool * list tentry) : Prop :=
    let '(bf, st, tr) := r in
    let s' := s ++ kept_idx tr in
    let cut := fun (A : Type) (l : list A) => if st then firstn (j + length (kept_idx tr)) l else l in
    NoDup s' /\ in_rng n s' /\ (length s' <= K)%nat /\ (st = false -> length s' = K) /\
    b_n bf = length s' /\ b_x bf = map cx s' /\
    b_idx bf = cut _ s' /\
    b_y bf = match ycand with
             | Some y => Some (cut _ (map (fun i => nth i y []) s')) | None => None end /\
    (forall below, tst = Some below ->
       Forall (fun e => te_below below e = negb (te_kept e)) tr) /\
    (st = true -> has_tst tst = true /\ exists e, In e tr /\ te_kept e = false).

  Theorem b_run_spec tst K : forall fuel j b s,
    LInv K b s -> (length s + fuel = K)%nat -> (j <= length s)%nat ->
    match b_run tst j fuel b with
    | Err e => e = EOut
    | Ok r => run_post tst K j s r
    end.
  Proof.
    induction fuel as [|fuel IH]; intros j b s HI Hk Hj; cbn [SelBuf.b_run].
    - destruct HI as (Hnd & Hr & Hle & Hn & Hi & Hx & Hy).
      unfold run_post, kept_idx; cbn. rewrite app_nil_r.
      replace (K - length s)%nat with O in * by lia. cbn in Hi, Hx, Hy.
      rewrite app_nil_r in Hi, Hx.
      repeat split; auto; try lia.
      + rewrite Hy. unfold ypad. destruct ycand; [now rewrite app_nil_r|reflexivity].
    - pose proof (b_best_spec tst K b s HI) as Hb.
      destruct (b_best tst b) as [[[oi te] b1]|e]; [|exact Hb].
      destruct Hb as (HI1 & _ & Hte & Hoi).
      destruct oi as [i|].
      + destruct Hoi as (Hi & Hni & Hti & Htk).
        destruct (b_post_inv K b1 s i HI1 ltac:(lia) Hi Hni) as (b2 & -> & HI2 & _).
        assert (Hk2 : (length (s ++ [i]) + fuel = K)%nat) by (rewrite app_length; cbn; lia).
        assert (Hj2 : (S j <= length (s ++ [i]))%nat) by (rewrite app_length; cbn; lia).
        specialize (IH (S j) b2 (s ++ [i]) HI2 Hk2 Hj2).
        destruct (b_run tst (S j) fuel b2) as [[[bf st] tr]|e]; [|exact IH].
        unfold run_post in *. unfold kept_idx in *. cbn [filter]. rewrite Htk. cbn [map].
        rewrite Hti. rewrite <- app_assoc in IH. cbn [app] in IH.
        replace (j + length (i :: map te_idx (filter te_kept tr)))%nat
          with (S j + length (map te_idx (filter te_kept tr)))%nat by (cbn; lia).
        destruct IH as (A1 & A2 & A3 & A4 & A5 & A6 & A7 & A8 & A9 & A10).
        repeat split; auto.
        * now apply A10.
        * destruct (A10 H) as (_ & e & He & Hk'). exists e. split; [now right|exact Hk'].
      + destruct Hoi as (Htk & Htst).
        destruct HI1 as (Hnd & Hr & Hle & Hn & Hi & Hx & Hy).
        unfold b_truncate. rewrite Hx, Hn, app_length, map_length.
        destruct (Nat.ltb_spec (length s + length (repeat (zx cand) (K - length s))) (length s))
          as [H|_]; [lia|].
        unfold run_post, kept_idx. cbn [filter]. rewrite Htk. cbn [map length b_n b_x b_idx b_y].
        rewrite app_nil_r, Nat.add_0_r.
        replace (firstn (length s) (map cx s ++ repeat (zx cand) (K - length s))) with (map cx s)
          by (rewrite <- (map_length cx s) at 1; now rewrite firstn_app_exact).
        rewrite Hi, Hy, firstn_app_le by lia.
        repeat split; auto; try lia; try discriminate.
        * unfold ypad. destruct ycand as [y|]; [|reflexivity].
          rewrite firstn_app_le by (rewrite map_length; lia). reflexivity.
        * exists te. split; [now left|exact Htk].
  Qed.

  Lemma b_inits_inv K : forall inits b s,
    LInv K b s -> NoDup (s ++ inits) -> in_rng n inits -> (length s + length inits <= K)%nat ->
    exists b', b_inits inits b = Ok b' /\ LInv K b' (s ++ inits) /\
               b_first b' = b_first b /\ b_str b' = b_str b.
  Proof.
    induction inits as [|i r IH]; intros b s HI Hnd Hr Hle; cbn [SelBuf.b_inits].
    - exists b. rewrite app_nil_r. auto.
    - inversion Hr as [|? ? Hi Hr']; subst.
      assert (Hni : ~ In i s).
      { intros Hin. apply NoDup_remove_2 in Hnd. apply Hnd. apply in_or_app. now left. }
      cbn in Hle.
      destruct (b_post_inv K b s i HI ltac:(lia) Hi Hni) as (b1 & -> & HI1 & Hf1 & Hs1).
      destruct (IH b1 (s ++ [i]) HI1) as (b2 & E & HI2 & Hf2 & Hs2).
      + now rewrite <- app_assoc.
      + exact Hr'.
      + rewrite app_length; cbn; lia.
      + exists b2. rewrite <- app_assoc in HI2. cbn in HI2.
        split; [exact E|]. split; [exact HI2|]. split; congruence.
  Qed.

  Lemma b_init_inv K str : LInv K (b_init cand ycand K str) [].
  Proof.
    unfold LInv, b_init, ypad; cbn. rewrite Nat.sub_0_r.
    repeat split; auto; try lia; try (now constructor).
    all: destruct ycand; reflexivity.
  Qed.

  Lemma b_continue_inv K str b :
    BOk b -> (b_n b <= K)%nat ->
    exists b', b_continue cand ycand K str b = Ok b' /\ LInv K b' (b_idx b) /\
               b_first b' = b_first b /\ b_str b' = str.
  Proof.
    intros (Hnd & Hr & Hn & Hx & Hy) Hle. unfold b_continue.
    destruct (Nat.ltb_spec K (b_n b)) as [H|_]; [lia|].
    unfold assign_prefix. rewrite repeat_length.
    replace (Nat.min (b_n b) K) with (b_n b) by lia.
    rewrite <- Hn, Nat.eqb_refl, skipn_repeat.
    eexists. split; [reflexivity|]. split; [|split; reflexivity].
    unfold LInv; cbn. rewrite <- Hn, Hx, Hy. unfold ymap, ypad.
    repeat split; auto. destruct ycand; reflexivity.
  Qed.

  (* ---- one call of fit ----------------------------------------------------------------- *)
  Definition bprev_ok (prev : option bst) : Prop :=
    match prev with Some b => BOk b | None => True end.
  (* selections present before the loop of this fit, and how many *)
  Definition sel_before (prev : option bst) (c : bcfg) (inits : list nat) : list nat :=
    if bc_warm c then match prev with Some b => b_idx b | None => [] end else inits.

  Definition fit_post (prev : option bst) (c : bcfg) (inits : list nat) (k : nat)
             (b : bst) (st : bool) (tr : list tentry) : Prop :=
    let s0 := sel_before prev c inits in
    let s := s0 ++ kept_idx tr in
    let cut := fun (A : Type) (l : list A) => if st then firstn (length s - length s0) l else l in
    NoDup s /\ in_rng n s /\ (length s <= k)%nat /\ (st = false -> length s = k) /\
    b_n b = length s /\ b_x b = map cx s /\ b_idx b = cut _ s /\
    b_y b = match ycand with
            | Some y => Some (cut _ (map (fun i => nth i y []) s)) | None => None end /\
    (forall below, bc_tst c = Some below ->
       Forall (fun e => te_below below e = negb (te_kept e)) tr) /\
    (st = true -> has_tst (bc_tst c) = true /\ exists e, In e tr /\ te_kept e = false).

  Theorem bfit_spec prev c inits str k :
    (bc_warm c = true -> bprev_ok prev) ->
    (bc_warm c = false -> NoDup inits /\ in_rng n inits) ->
    resolve_n n (bc_nts c) = Some k ->
    (length (sel_before prev c inits) <= k)%nat ->
    match bfit prev c inits str with
    | BRejected => True
    | BRaised e => e = EOut
    | BFitted b st tr => fit_post prev c inits k b st tr
    end.
  Proof.
    intros Hp Hin Hk Hle. unfold SelBuf.bfit, sel_before in *.
    destruct (bc_full c && has_tst (bc_tst c)); [exact I|]. rewrite Hk.
    destruct (bc_warm c) eqn:Hw.
    - destruct prev as [b0|]; [|exact I].
      destruct (Nat.eqb (b_n b0) O); [exact I|].
      specialize (Hp eq_refl). cbn in Hp.
      assert (Hn0 : b_n b0 = length (b_idx b0)) by apply Hp.
      destruct (b_continue_inv k str b0 Hp ltac:(lia)) as (b1 & -> & HI & _ & _).
      assert (Hn1 : b_n b1 = length (b_idx b0)) by apply HI.
      pose proof (b_run_spec (bc_tst c) k (k - b_n b1) O b1 (b_idx b0) HI ltac:(lia) ltac:(lia)) as R.
      destruct (b_run (bc_tst c) O (k - b_n b1) b1) as [[[bf st] tr]|e]; [|exact R].
      unfold run_post in R. unfold fit_post, sel_before. rewrite Hw.
      replace (length (b_idx b0 ++ kept_idx tr) - length (b_idx b0))%nat
        with (O + length (kept_idx tr))%nat by (rewrite app_length; lia).
      exact R.
    - destruct (Hin eq_refl) as (Hnd & Hr).
      destruct (b_inits_inv k inits (b_init cand ycand k str) [] (b_init_inv k str)
                  Hnd Hr ltac:(cbn; lia)) as (b1 & -> & HI & _ & _).
      cbn [app] in HI.
      assert (Hn1 : b_n b1 = length inits) by apply HI.
      pose proof (b_run_spec (bc_tst c) k (k - b_n b1) O b1 inits HI ltac:(lia) ltac:(lia)) as R.
      destruct (b_run (bc_tst c) O (k - b_n b1) b1) as [[[bf st] tr]|e]; [|exact R].
      unfold run_post in R. unfold fit_post, sel_before. rewrite Hw.
      replace (length (inits ++ kept_idx tr) - length inits)%nat
        with (O + length (kept_idx tr))%nat by (rewrite app_length; lia).
      exact R.
  Qed.

  (* consistency of the reported buffers: exactly when no selection is cut off *)
  Lemma fit_post_bok prev c inits k b st tr :
    fit_post prev c inits k b st tr ->
    (st = false \/ sel_before prev c inits = []) -> BOk b.
  Proof.
    unfold fit_post. intros (A1 & A2 & A3 & A4 & A5 & A6 & A7 & A8 & _) H.
    assert (E : forall A (l : list A),
               (if st then firstn (length (sel_before prev c inits ++ kept_idx tr)
                                   - length (sel_before prev c inits)) l else l) = l
               \/ (st = true /\ sel_before prev c inits = [])).
    { intros A l. destruct H as [->|H]; [now left|]. destruct st; [now right|now left]. }
    assert (Hidx : b_idx b = sel_before prev c inits ++ kept_idx tr).
    { rewrite A7. destruct (E _ (sel_before prev c inits ++ kept_idx tr)) as [->|(-> & E0)]; [reflexivity|].
      rewrite E0. cbn. rewrite Nat.sub_0_r. apply firstn_all. }
    unfold BOk. rewrite Hidx. repeat split; auto.
    rewrite A8. unfold ymap. destruct ycand as [y|]; [|reflexivity]. f_equal.
    destruct (E _ (map (fun i => nth i y []) (sel_before prev c inits ++ kept_idx tr)))
      as [->|(-> & E0)]; [reflexivity|].
    rewrite E0. cbn. rewrite Nat.sub_0_r.
    rewrite <- (map_length (fun i => nth i y []) (kept_idx tr)). apply firstn_all.
  Qed.

  (* the reported index buffer is always a duplicate-free, in-range prefix of the selections,
     and the reported targets are y sliced at exactly that prefix *)
  Lemma fit_post_reported prev c inits k b st tr :
    fit_post prev c inits k b st tr ->
    NoDup (b_idx b) /\ in_rng n (b_idx b) /\ b_y b = ymap (b_idx b) /\
    firstn (length (b_idx b)) (b_x b) = map cx (b_idx b) /\
    length (b_idx b) = (b_n b - (if st then length (sel_before prev c inits) else O))%nat.
  Proof.
    unfold fit_post. intros (A1 & A2 & A3 & A4 & A5 & A6 & A7 & A8 & _).
    set (s := sel_before prev c inits ++ kept_idx tr) in *.
    set (s0 := sel_before prev c inits) in *.
    rewrite A7, A8, A6, A5. unfold ymap. destruct st.
    - split; [now apply firstn_NoDup|]. split; [now apply firstn_Forall|].
      split; [destruct ycand; [now rewrite firstn_map|reflexivity]|].
      rewrite firstn_length. split; [|lia].
      rewrite firstn_map. rewrite Nat.min_l by lia. reflexivity.
    - split; [exact A1|]. split; [exact A2|]. split; [reflexivity|].
      rewrite Nat.sub_0_r. split; [|reflexivity].
      rewrite <- (map_length cx s). apply firstn_all.
  Qed.

  Lemma bfit_rejections prev c inits str :
    (bc_full c = true /\ has_tst (bc_tst c) = true) \/ resolve_n n (bc_nts c) = None \/
    (bc_warm c = true /\ (prev = None \/ exists b0, prev = Some b0 /\ b_n b0 = O)) ->
    bfit prev c inits str = BRejected.
  Proof.
    unfold SelBuf.bfit. intros [[A B]|[A|[A B]]].
    - now rewrite A, B.
    - destruct (bc_full c && has_tst (bc_tst c)); [reflexivity|]. now rewrite A.
    - destruct (bc_full c && has_tst (bc_tst c)); [reflexivity|].
      destruct (resolve_n _ _); [|reflexivity]. rewrite A.
      destruct B as [->|(b0 & -> & E)]; [reflexivity|]. now rewrite E.
  Qed.

  (* a cold fit does not look at what an earlier fit left behind *)
  Lemma bfit_cold_history prev prev' c inits str :
    bc_warm c = false -> bfit prev c inits str = bfit prev' c inits str.
  Proof. intros H. unfold SelBuf.bfit. now rewrite H. Qed.
  (* corollaries in the form used by Properties/C01.v *)
  Section Hyps.
    Variables (prev : option bst) (c : bcfg) (inits : list nat) (str : stream) (k : nat).
    Hypothesis Hp : bc_warm c = true -> bprev_ok prev.
    Hypothesis Hin : bc_warm c = false -> NoDup inits /\ in_rng n inits.
    Hypothesis Hk : resolve_n n (bc_nts c) = Some k.
    Hypothesis Hle : (length (sel_before prev c inits) <= k)%nat.

    Lemma bfit_fitted b st tr :
      bfit prev c inits str = BFitted b st tr -> fit_post prev c inits k b st tr.
    Proof.
      intros E. pose proof (bfit_spec prev c inits str k Hp Hin Hk Hle) as H.
      rewrite E in H. exact H.
    Qed.

    Lemma bfit_no_buffer_error e : bfit prev c inits str = BRaised e -> e = EOut.
    Proof.
      intros E. pose proof (bfit_spec prev c inits str k Hp Hin Hk Hle) as H.
      rewrite E in H. exact H.
    Qed.

    Lemma bfit_consistent b st tr :
      bfit prev c inits str = BFitted b st tr ->
      (st = false \/ sel_before prev c inits = []) -> BOk b.
    Proof. intros E H. eapply fit_post_bok; [apply bfit_fitted; exact E|exact H]. Qed.

    Lemma bfit_reported b st tr :
      bfit prev c inits str = BFitted b st tr ->
      NoDup (b_idx b) /\ in_rng n (b_idx b) /\ b_y b = ymap (b_idx b) /\
      firstn (length (b_idx b)) (b_x b) = map cx (b_idx b) /\
      length (b_idx b) = (b_n b - (if st then length (sel_before prev c inits) else O))%nat.
    Proof. intros E. eapply fit_post_reported. apply bfit_fitted. exact E. Qed.
  End Hyps.
End SelBufP.

(* ---- the faithful model after a threshold stop with earlier selections (finding F2) -------- *)
Definition bout_b (o : bout) : bst :=
  match o with BFitted b _ _ => b | _ => mk_bst O [] [] None None [] end.
Definition bout_tr (o : bout) : list tentry := match o with BFitted _ _ tr => tr | _ => [] end.

(* cold fit with one initial selection, one kept step, threshold stop; then a warm start:
   the length-1 index buffer is BROADCAST into the two-slot prefix -> duplicate index *)
Definition f2_cand : list (list Z) := [[0;0];[3;0];[0;4];[1;1]].
Definition f2_stage1 :=
  bfit f2_cand None None (mk_bcfg (NtsInt 4) (tst_of_thr (AbsThr 10 1)) false false)
       [O] [[0;9;16;2];[0;9;0;2]].
Definition f2_b1 : bst := Eval vm_compute in bout_b f2_stage1.
Definition f2_tr1 : list tentry := Eval vm_compute in bout_tr f2_stage1.
Definition f2_stage2 :=
  bfit f2_cand None (Some f2_b1) (mk_bcfg (NtsInt 4) None false true) [] [[0;9;0;2];[0;0;0;2]].
Definition f2_b2 : bst := Eval vm_compute in bout_b f2_stage2.
Definition f2_tr2 : list tentry := Eval vm_compute in bout_tr f2_stage2.

Lemma f2_warm_broadcast_duplicates :
  f2_stage1 = BFitted f2_b1 true f2_tr1 /\ b_idx f2_b1 = [O] /\ b_n f2_b1 = 2%nat /\
  f2_stage2 = BFitted f2_b2 false f2_tr2 /\ ~ NoDup (b_idx f2_b2).
Proof.
  split; [vm_compute; reflexivity|]. split; [reflexivity|]. split; [reflexivity|].
  split; [vm_compute; reflexivity|].
  change (b_idx f2_b2) with [O; O; 1%nat; 3%nat].
  intros H. inversion H as [|? ? Hn _]; subst. apply Hn. now left.
Qed.

(* two kept steps before the stop: the prefix assignment cannot broadcast -> ValueError *)
Definition f2v_stage1 :=
  bfit f2_cand None None (mk_bcfg (NtsInt 4) (tst_of_thr (AbsThr 5 1)) false false)
       [O] [[0;9;16;2];[0;9;0;2];[0;0;0;2]].
Definition f2v_b1 : bst := Eval vm_compute in bout_b f2v_stage1.
Definition f2v_tr1 : list tentry := Eval vm_compute in bout_tr f2v_stage1.

Lemma f2_warm_value_error :
  f2v_stage1 = BFitted f2v_b1 true f2v_tr1 /\
  length (b_idx f2v_b1) = 2%nat /\ b_n f2v_b1 = 3%nat /\
  bfit f2_cand None (Some f2v_b1) (mk_bcfg (NtsInt 4) None false true) [] [[0;0;0;2]]
    = BRaised EValue.
Proof.
  split; [vm_compute; reflexivity|]. split; [reflexivity|]. split; [reflexivity|].
  vm_compute; reflexivity.
Qed.

(* with targets the truncated y buffer is padded too short -> IndexError in the warm loop *)
Definition f2_y : option (list (list Z)) := Some [[1];[2];[3];[4]].
Definition f2i_stage1 :=
  bfit f2_cand f2_y None (mk_bcfg (NtsInt 4) (tst_of_thr (AbsThr 10 1)) false false)
       [O] [[0;9;16;2];[0;9;0;2]].
Definition f2i_b1 : bst := Eval vm_compute in bout_b f2i_stage1.
Definition f2i_tr1 : list tentry := Eval vm_compute in bout_tr f2i_stage1.

Lemma f2_warm_index_error :
  f2i_stage1 = BFitted f2i_b1 true f2i_tr1 /\
  bfit f2_cand f2_y (Some f2i_b1) (mk_bcfg (NtsInt 4) None false true) []
       [[0;9;0;2];[0;0;0;2]] = BRaised EIndex.
Proof. split; vm_compute; reflexivity. Qed.
