(* C08 extension (round 3): sessions on one selector object (Model/SelSession.v). *)
From Verif Require Import ListX Greedy Select ListXP GreedyP SelectP SelSession.

Section SelSessionP.
  Variable cand : list (list Z).
  Variable ycand : option (list (list Z)).
  Notation n := (length cand).
  Notation sfit := (sfit cand ycand).
  Notation sess_fit := (sess_fit cand ycand).
  Notation sess_step := (sess_step cand ycand).
  Notation sess_run := (sess_run cand ycand).
  Notation sess_kept := (sess_kept cand ycand).
  Notation never_returned := (never_returned cand ycand).

  (* what sess_fit returns, case by case *)
  Lemma sess_fit_cases o c r str :
    (sess_fit o c r str = (o, RPre)) \/
    (sess_fit o c r str = (Some g_reset, RInit) /\ c_warm c = false) \/
    (exists g st, sess_fit o c r str = (Some g, ROk g st)).
  Proof.
    unfold SelSession.sess_fit.
    destruct (c_full c && has_thr (c_thr c)); [now left|].
    destruct (resolve_n _ _) as [k|]; [|now left].
    destruct (c_warm c) eqn:Hw.
    - destruct (match o with Some g0 => Nat.ltb k (length (sel g0)) | None => false end); [now left|].
      destruct (Select.sfit _ _ _ _ _ _) as [|g st]; [now left|]. right; right. now exists g, st.
    - destruct (init_check _ _ _) as [inits|]; [|right; left; auto].
      destruct (Select.sfit _ _ _ _ _ _) as [|g st]; [now left|]. right; right. now exists g, st.
  Qed.

  (* a rejected call leaves no trace *)
  Theorem sess_fit_rejected_same o c r str :
    snd (sess_fit o c r str) = RPre -> fst (sess_fit o c r str) = o.
  Proof.
    destruct (sess_fit_cases o c r str) as [E|[[E _]|(g & st & E)]]; rewrite E; cbn; auto; discriminate.
  Qed.

  Theorem sess_step_rejected_same o e :
    snd (sess_step o e) = Some RPre -> fst (sess_step o e) = o.
  Proof.
    destruct e as [c r str| |]; cbn; auto.
    pose proof (sess_fit_rejected_same o c r str) as H.
    destruct (sess_fit o c r str) as [o' res]; cbn in *. intros E. apply H. congruence.
  Qed.

  (* ... so the rejected calls of a session can be deleted without changing where it ends *)
  Theorem sess_drop_rejected evs : forall o, sess_run o (sess_kept o evs) = sess_run o evs.
  Proof.
    induction evs as [|e rest IH]; intros o; cbn [SelSession.sess_kept SelSession.sess_run]; [reflexivity|].
    pose proof (sess_step_rejected_same o e) as Hsame.
    destruct (sess_step o e) as [o' res] eqn:Es. cbn [fst snd] in *.
    destruct res as [[| |g st]|].
    - assert (Eo : o' = o) by (apply Hsame; reflexivity). subst o'. apply IH.
    - cbn [SelSession.sess_run]. rewrite Es. cbn [fst]. apply IH.
    - cbn [SelSession.sess_run]. rewrite Es. cbn [fst]. apply IH.
    - cbn [SelSession.sess_run]. rewrite Es. cbn [fst]. apply IH.
  Qed.

  (* warm_start on an object without selections is rejected, whatever else is configured *)
  Theorem sess_unfitted_warm_rejected o c r str :
    unfitted o -> c_warm c = true -> sess_fit o c r str = (o, RPre).
  Proof.
    intros Hu Hw. unfold SelSession.sess_fit.
    destruct (c_full c && has_thr (c_thr c)) eqn:Ef; [reflexivity|].
    destruct (resolve_n n (c_nts c)) as [k|] eqn:Er; [|reflexivity].
    rewrite Hw.
    destruct (match o with Some g0 => Nat.ltb k (length (sel g0)) | None => false end); [reflexivity|].
    assert (E : sfit o c [] str = Rejected).
    { unfold Select.sfit. rewrite Ef, Er, Hw.
      destruct Hu as [->|(g & -> & Hs)]; [reflexivity|]. now rewrite Hs. }
    now rewrite E.
  Qed.

  Lemma step_keeps_unfitted o e :
    unfitted o -> returned (snd (sess_step o e)) = false -> unfitted (fst (sess_step o e)).
  Proof.
    intros Hu. destruct e as [c r str| |]; cbn; auto.
    destruct (sess_fit_cases o c r str) as [E|[[E _]|(g & st & E)]]; rewrite E; cbn; auto.
    - intros _. right. exists g_reset. split; reflexivity.
    - intros H. right. exists g. split; [reflexivity|].
      destruct (sel g); [reflexivity|discriminate].
  Qed.

  (* HISTORIES WITHOUT A RETURNED FIT: after any sequence of calls none of which returned with
     a selection (fresh object, rejected calls, cold fits that raised during initialisation,
     set_params in between) the object is not fitted ... *)
  Theorem sess_never_returned_unfitted evs : forall o,
    unfitted o -> never_returned o evs = true -> unfitted (sess_run o evs).
  Proof.
    induction evs as [|e rest IH]; intros o Hu Hn; cbn [SelSession.sess_run]; [exact Hu|].
    cbn [SelSession.never_returned] in Hn.
    pose proof (step_keeps_unfitted o e Hu) as Hk.
    destruct (sess_step o e) as [o' res]. cbn [fst snd] in *.
    apply andb_true_iff in Hn as [H1 H2]. apply IH; [|exact H2].
    apply Hk. now destruct (returned res).
  Qed.

  (* ... and warm_start on it is rejected *)
  Theorem sess_never_fitted_rejected evs c r str :
    never_returned None evs = true -> c_warm c = true ->
    sess_fit (sess_run None evs) c r str = (sess_run None evs, RPre).
  Proof.
    intros Hn Hw. apply sess_unfitted_warm_rejected; [|exact Hw].
    apply sess_never_returned_unfitted; [now left|exact Hn].
  Qed.

  (* a cold fit does not see the history of the object *)
  Theorem sess_cold_history_free o c r str :
    c_warm c = false ->
    snd (sess_fit o c r str) = snd (sess_fit None c r str) /\
    (snd (sess_fit o c r str) <> RPre -> fst (sess_fit o c r str) = fst (sess_fit None c r str)).
  Proof.
    intros Hw. unfold SelSession.sess_fit.
    destruct (c_full c && has_thr (c_thr c)) eqn:Ef; [cbn; split; [reflexivity|congruence]|].
    destruct (resolve_n n (c_nts c)) as [k|] eqn:Er; [|cbn; split; [reflexivity|congruence]].
    rewrite Hw.
    destruct (init_check n k r) as [inits|]; [|cbn; split; reflexivity].
    assert (E : sfit o c inits str = sfit None c inits str).
    { unfold Select.sfit. now rewrite Ef, Er, Hw. }
    rewrite E. destruct (sfit None c inits str) as [|g st]; cbn; split; auto; congruence.
  Qed.

  (* a cold fit whose initial selections are invalid is not a fit: the object is reset, and
     the next warm start is rejected *)
  Theorem sess_failed_init_then_warm o c r str c' r' str' :
    snd (sess_fit o c r str) = RInit -> c_warm c' = true ->
    snd (sess_fit (fst (sess_fit o c r str)) c' r' str') = RPre.
  Proof.
    intros Hi Hw.
    destruct (sess_fit_cases o c r str) as [E|[[E _]|(g & st & E)]]; rewrite E in *; cbn in Hi; try discriminate.
    cbn [fst]. rewrite sess_unfitted_warm_rejected; [reflexivity| |exact Hw].
    right. exists g_reset. split; reflexivity.
  Qed.
End SelSessionP.

(* ---- initial selections -------------------------------------------------------------------- *)
Lemma init_check_sound n k r l :
  init_check n k r = Some l ->
  (length l <= k)%nat /\ Forall (fun i => (i < n)%nat) l.
Proof.
  destruct r as [zl| |]; cbn; [|intros H; injection H as <-; split; [cbn; lia|constructor]|discriminate].
  destruct (Nat.leb (length zl) k) eqn:El; [|discriminate]. cbn [andb].
  destruct (forallb _ zl) eqn:Ef; [|discriminate]. intros H; injection H as <-.
  apply Nat.leb_le in El. rewrite map_length. split; [exact El|].
  rewrite forallb_forall in Ef. apply Forall_forall. intros i Hi.
  apply in_map_iff in Hi as (z & <- & Hz). specialize (Ef z Hz).
  apply andb_true_iff in Ef as [A B]. apply Z.leb_le in A. apply Z.ltb_lt in B.
  assert (Hn : 0 < Z.of_nat n) by lia.
  pose proof (Z.mod_pos_bound z (Z.of_nat n) Hn). lia.
Qed.

(* an entry below -n (or above n-1) anywhere in the list makes the cold fit fail *)
Lemma init_check_out_of_range n k l z :
  In z l -> (z < - Z.of_nat n \/ Z.of_nat n <= z) -> init_check n k (InitIdx l) = None.
Proof.
  intros Hz Hr. cbn. destruct (Nat.leb (length l) k); [|reflexivity]. cbn [andb].
  destruct (forallb _ l) eqn:Ef; [|reflexivity].
  rewrite forallb_forall in Ef. specialize (Ef z Hz).
  apply andb_true_iff in Ef as [A B]. apply Z.leb_le in A. apply Z.ltb_lt in B. lia.
Qed.

Lemma init_check_too_long n k l : (k < length l)%nat -> init_check n k (InitIdx l) = None.
Proof. intros H. cbn. apply Nat.leb_gt in H. now rewrite H. Qed.

(* a warm start that asks for fewer items than are selected is rejected and leaves no trace *)
Lemma sess_shrinking_warm_rejected cand ycand g c r str k :
  c_full c && has_thr (c_thr c) = false -> resolve_n (length cand) (c_nts c) = Some k ->
  c_warm c = true -> (k < length (sel g))%nat ->
  sess_fit cand ycand (Some g) c r str = (Some g, RPre).
Proof.
  intros Hf Hr Hw Hk. unfold sess_fit. rewrite Hf, Hr, Hw.
  apply Nat.ltb_lt in Hk. now rewrite Hk.
Qed.
