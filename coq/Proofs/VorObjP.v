(* C06 extension (round 3): the object-level model of VoronoiFPS (Model/VorObj.v) computes
   what the data-level model (Model/Voronoi.v) computes, hence what plain FPS computes —
   whatever an earlier use of the same object left in its attributes. *)
From Verif Require Import ListX Greedy FPS Voronoi VorCalib VorObj ListXP GreedyP FPSP FPSInst GeomP
  VoronoiP SimP C02Thm C06Thm.

(* ---- list helpers ------------------------------------------------------------------------ *)
Lemma map2_map_diag {A B C} (f : A -> B -> C) (g : A -> B) l :
  map2 f l (map g l) = map (fun x => f x (g x)) l.
Proof. induction l as [|a l IH]; cbn; [reflexivity|now rewrite IH]. Qed.

Lemma map_const_len {A B C} (c : C) (a : list A) (b : list B) :
  length a = length b -> map (fun _ => c) a = map (fun _ => c) b.
Proof.
  revert b; induction a as [|x a IH]; intros [|y b] H; cbn in *; try discriminate; [reflexivity|].
  f_equal. apply IH. lia.
Qed.

Lemma map2_ext_Forall {A B C} (P : A -> Prop) (f g : A -> B -> C) l m :
  Forall P l -> (forall a b, P a -> f a b = g a b) -> map2 f l m = map2 g l m.
Proof.
  intros HF Hfg. revert m; induction HF as [|a l Ha HF IH]; intros [|b m]; cbn; try reflexivity.
  now rewrite (Hfg a b Ha), IH.
Qed.

Lemma Forall_of_nth (P : nat -> Prop) (l : list nat) :
  (forall j, (j < length l)%nat -> P (nth j l O)) -> Forall P l.
Proof.
  intros H. apply Forall_forall. intros x Hx. destruct (In_nth l x O Hx) as (j & Hj & <-). now apply H.
Qed.

Lemma count_true_const {A} (l : list A) : count_true (map (fun _ => true) l) = length l.
Proof. unfold count_true. induction l as [|a l IH]; cbn; [reflexivity|now rewrite IH]. Qed.

Lemma write_prefix_length new old :
  (length new <= length old)%nat -> length (write_prefix new old) = length old.
Proof. intros H. unfold write_prefix. rewrite app_length, skipn_length. lia. Qed.

Lemma best_new_keeps {S} (score : S -> list Z) t (g : gst S) :
  sst (snd (best_new S score t g)) = sst g /\ sel (snd (best_new S score t g)) = sel g.
Proof.
  unfold best_new. destruct (amax _) as [[i v]|]; [|now cbn].
  destruct (has_thr t); [|now cbn]. destruct (below t _ v); now cbn.
Qed.

Lemma run_sel_len {S} (score : S -> list Z) upd cand ycand t k : forall g,
  (length (sel (fst (run S score upd cand ycand t k g))) <= length (sel g) + k)%nat.
Proof.
  induction k as [|k IH]; intros g; cbn; [lia|].
  destruct (best_new_keeps score t g) as (_ & Kl).
  destruct (best_new S score t g) as [[i|] g']; cbn in *; rewrite <- Kl; [|lia].
  specialize (IH (post S upd cand ycand g' i)). cbn [post sel] in IH.
  rewrite app_length in IH. cbn [length] in IH. lia.
Qed.

Section ObjP.
  Variable X : list (list Z).
  Variable d : nat.
  Hypothesis Hdim : dims d X.
  Notation n := (length X).

  (* the attributes of the object agree with the data-level state [v] on data X *)
  Definition OR (o : ost) (v : vst) (sl : list nat) : Prop :=
    VInv X v sl /\ o_norms o = fps_norms X /\ o_xs o = map (fun i => nth i X []) sl /\
    o_sel o = sl /\ o_haus o = v_haus v /\ o_hsel o = v_hsel v /\ o_vloc o = v_vloc v.

  Lemma OR_vloc o v sl : OR o v sl -> sl <> [] -> Forall (fun c => (c < length sl)%nat) (o_vloc o).
  Proof.
    intros (HV & _ & _ & _ & _ & _ & Hvl) Hne. rewrite Hvl.
    destruct HV as (_ & _ & _ & _ & Hl3 & _ & Hc).
    apply Forall_of_nth. intros j Hj. rewrite Hl3 in Hj. now destruct (Hc Hne j Hj).
  Qed.

  Lemma dslnew_eq o v sl l : OR o v sl -> o_dslnew X o l = dSL4 X v l.
  Proof.
    intros (HV & Hn & Hx & Hs & _). destruct HV as (Hvs & _).
    unfold o_dslnew, dSL4. rewrite Hn, Hx, Hs, Hvs, map2_map_diag.
    apply map_ext. intros k. unfold d2. now rewrite (dot_comm (nth k X []) (nth l X [])).
  Qed.

  Lemma active_eq o v sl l : OR o v sl -> o_active X o l = active X v l.
  Proof.
    intros H. pose proof H as (HV & Hn & Hx & Hs & Hh & Hhs & Hvl).
    pose proof HV as (Hvs & _ & Hl1 & _).
    unfold o_active, active, o_buf. rewrite Hs, Hvs.
    destruct sl as [|a sl'] eqn:Esl.
    - apply map_const_len. now rewrite seq_length, Hl1.
    - rewrite <- Esl in *. rewrite <- Hh, <- Hvl.
      apply (map2_ext_Forall (fun c => (c < length sl)%nat)).
      + apply (OR_vloc o v sl H). rewrite Esl. discriminate.
      + intros c h Hc. destruct h as [hz|]; [|reflexivity].
        unfold write_prefix. rewrite (dslnew_eq o v sl l H).
        rewrite app_nth1; [reflexivity|]. unfold dSL4. now rewrite map_length, Hvs.
  Qed.

  Lemma onew_eq o v sl l act full : OR o v sl -> onew X o l act full = vnew X v l act full.
  Proof.
    intros (_ & Hn & _ & _ & Hh & _). unfold onew, vnew, o_d2, d2. now rewrite Hn, Hh.
  Qed.

  Variable br : nat -> nat -> bool.

  (* one call of _update_post_selection on the object = one step of the data-level model *)
  Theorem oupd_sim o v sl i :
    OR o v sl -> (i < n)%nat -> OR (oupd X br o i) (vupd X br v i) (sl ++ [i]).
  Proof.
    intros H Hi. pose proof H as (HV & Hn & Hx & Hs & Hh & Hhs & Hvl).
    pose proof HV as (Hvs & _).
    destruct (vupd_inv X d Hdim br v sl i HV Hi) as (HV' & _ & _).
    split; [exact HV'|].
    unfold oupd, vupd. rewrite (active_eq o v sl i H), Hs, Hvs.
    destruct (Nat.eqb (count_true (active X v i)) 0); cbn [o_norms o_xs o_sel o_haus o_hsel o_vloc
                                                             v_haus v_hsel v_vloc].
    - rewrite Hx, Hh, Hhs, Hvl, map_app. cbn [map]. repeat split; auto.
    - rewrite (onew_eq o v sl i _ _ H), Hx, Hh, Hhs, Hvl, map_app. cbn [map]. repeat split; auto.
  Qed.

  (* no numpy shape / index error, and the dSL_ buffer keeps its capacity *)
  Lemma oupd_ok o v sl i :
    OR o v sl -> (i < n)%nat -> o_ok o = true -> (length sl <= length (o_dsl o))%nat ->
    o_ok (oupd X br o i) = true /\ length (o_dsl (oupd X br o i)) = length (o_dsl o).
  Proof.
    intros H Hi Hok Hcap. pose proof H as (HV & Hn & Hx & Hs & Hh & Hhs & Hvl).
    assert (Hbuf : length (o_buf X o i) = length (o_dsl o)).
    { unfold o_buf. rewrite Hs. destruct sl as [|a sl'] eqn:E; [reflexivity|]. rewrite <- E in *.
      apply write_prefix_length. rewrite (dslnew_eq o v sl i H). unfold dSL4.
      destruct HV as (Hvs & _). now rewrite map_length, Hvs. }
    assert (Hstep : o_step_ok X o i = true).
    { unfold o_step_ok. apply Nat.ltb_lt in Hi. rewrite Hi. rewrite Hn. unfold fps_norms.
      rewrite map_length, Nat.eqb_refl. cbn [andb]. rewrite Hs.
      destruct sl as [|a sl'] eqn:E; [reflexivity|]. rewrite <- E in *.
      apply Nat.leb_le in Hcap. rewrite Hcap. cbn [andb]. apply forallb_forall. intros c Hc.
      assert (Hne : sl <> []) by (rewrite E; discriminate).
      pose proof (OR_vloc o v sl H Hne) as HF. rewrite Forall_forall in HF. specialize (HF c Hc).
      apply Nat.ltb_lt. rewrite Hbuf. apply Nat.leb_le in Hcap. lia. }
    unfold oupd. rewrite Hok, Hstep.
    destruct (Nat.eqb (count_true (o_active X o i)) 0); cbn [o_ok o_dsl]; split; auto.
  Qed.

  (* ---- object vs plain FPS, through the data-level model -------------------------------- *)
  Definition ORF (o : ost) (f : dst) (sl : list nat) : Prop :=
    exists v, OR o v sl /\ VR X v f sl.

  Lemma ORF_score o f sl : ORF o f sl -> oscore o = dscore f.
  Proof.
    intros (v & (_ & _ & _ & _ & Hh & _) & HR). unfold oscore. rewrite Hh.
    exact (VR_score X v f sl HR).
  Qed.

  Lemma ORF_len o f sl : ORF o f sl -> length (oscore o) = n.
  Proof.
    intros (v & (_ & _ & _ & _ & Hh & _) & HR). unfold oscore. rewrite Hh.
    exact (VR_len X v f sl HR).
  Qed.

  Lemma ORF_upd o f sl i :
    ORF o f sl -> (i < n)%nat ->
    ORF (oupd X br o i) (dupd (fps_norms X) (fps_cross X) f i) (sl ++ [i]).
  Proof.
    intros (v & HO & HR) Hi. exists (vupd X br v i). split.
    - now apply oupd_sim.
    - exact (VR_upd X d Hdim br v f sl i HR Hi).
  Qed.

  Variable ycand : option (list (list Z)).
  Notation gs := (gsim ost dst ORF).

  Lemma cold_ORF prev k : ORF (ost_cold X prev k) (dst0 n) [].
  Proof.
    exists (vst0 X). split; [|exact (VR_init X)].
    destruct (VR_init X) as (HV & _). split; [exact HV|].
    unfold ost_cold, vst0. cbn. repeat split; reflexivity.
  Qed.

  Lemma obj_cold_sim prev i0 k : (i0 < n)%nat ->
    gs (obj_cold X br ycand prev i0 k) (fps_init X ycand [i0]).
  Proof.
    intros Hi. unfold obj_cold, obj_post, fps_init. cbn [fold_left].
    apply (post_sim ost dst (oupd X br) (dupd (fps_norms X) (fps_cross X)) X ycand ORF ORF_upd);
      [|exact Hi].
    unfold gsim; cbn. repeat split; auto. apply cold_ORF.
  Qed.

  Lemma obj_run_sim t k g1 g2 :
    gs g1 g2 ->
    gs (fst (obj_run X br ycand t k g1)) (fst (fps_run X ycand t k g2)) /\
    snd (obj_run X br ycand t k g1) = snd (fps_run X ycand t k g2).
  Proof.
    intros H. unfold obj_run, fps_run.
    assert (Hk : length (sel g1) = length (sel g2)) by (destruct H as (A & _); now rewrite A).
    rewrite Hk.
    exact (run_sim ost dst oscore dscore (oupd X br) (dupd (fps_norms X) (fps_cross X)) X ycand
                   ORF ORF_score ORF_len ORF_upd t (k - length (sel g2)) g1 g2 H).
  Qed.

  (* what a related pair of states says about the public outputs *)
  Lemma gs_outputs g1 g2 :
    gs g1 g2 ->
    sel g1 = sel g2 /\ xsel g1 = xsel g2 /\ ysel g1 = ysel g2 /\
    o_haus (sst g1) = haus (sst g2) /\ obj_select_distance g1 = select_distance g2 /\
    o_norms (sst g1) = fps_norms X /\ o_sel (sst g1) = sel g1 /\
    o_xs (sst g1) = map (fun i => nth i X []) (sel g1) /\
    (exists v, OR (sst g1) v (sel g1)).
  Proof.
    intros (A & B & Cc & D & (v & HO & HR)).
    pose proof HO as (HV & Hn & Hx & Hs & Hh & Hhs & Hvl). destruct HR as (_ & Hfh & Hfs).
    repeat split; auto.
    - now rewrite Hh, Hfh.
    - unfold obj_select_distance, select_distance. now rewrite A, Hhs, Hfs.
    - exists v. exact HO.
  Qed.

  (* cold fit on an object with ANY past = plain FPS on the data of this call *)
  Theorem obj_cold_equals_fps prev i0 t k :
    (i0 < n)%nat ->
    let rv := obj_fit_cold X br ycand prev i0 t k in
    let rf := fps_fit X ycand [i0] t k in
    gs (fst rv) (fst rf) /\ snd rv = snd rf.
  Proof.
    intros Hi rv rf. subst rv rf. unfold obj_fit_cold, fps_fit.
    apply obj_run_sim. now apply obj_cold_sim.
  Qed.

  (* warm-started continuation (np.pad of dSL_) keeps object and plain FPS in step *)
  Theorem obj_warm_equals_fps g1 g2 t k :
    gs g1 g2 ->
    gs (fst (obj_fit_warm X br ycand g1 t k)) (fst (fps_run X ycand t k g2)) /\
    snd (obj_fit_warm X br ycand g1 t k) = snd (fps_run X ycand t k g2).
  Proof.
    intros (A & B & Cc & D & (v & HO & HR)). unfold obj_fit_warm.
    apply obj_run_sim. unfold gsim; cbn. repeat split; auto.
    exists v. split; [|exact HR].
    destruct HO as (HV & Hn & Hx & Hs0 & Hh & Hhs & Hvl). split; [exact HV|].
      unfold ost_warm; cbn. repeat split; assumption.
  Qed.

  (* ---- the loop never overflows the dSL_ buffer / raises --------------------------------- *)
  Lemma obj_loop_ok t k : forall g1 g2,
    gs g1 g2 -> o_ok (sst g1) = true ->
    (length (sel g1) + k <= length (o_dsl (sst g1)))%nat ->
    let g' := fst (run ost oscore (oupd X br) X ycand t k g1) in
    o_ok (sst g') = true /\ length (o_dsl (sst g')) = length (o_dsl (sst g1)).
  Proof.
    induction k as [|k IH]; intros g1 g2 H Hok Hcap; cbn; [auto|].
    destruct (best_new_sim ost dst oscore dscore X ORF ORF_score ORF_len t g1 g2 H) as (A & B & Cc).
    destruct (best_new_keeps oscore t g1) as (Ks & Kl).
    destruct (best_new ost oscore t g1) as [o1 g1'] eqn:E1.
    destruct (best_new dst dscore t g2) as [o2 g2'] eqn:E2. cbn in A, B, Cc, Ks, Kl. subst o2.
    destruct o1 as [i|]; cbn; [|now rewrite Ks].
    assert (Hi : (i < n)%nat) by now apply Cc.
    pose proof B as (A' & _ & _ & _ & (v & HO & _)).
    destruct (oupd_ok (sst g1') v (sel g1') i HO Hi) as (Hok' & Hcap'); [now rewrite Ks|rewrite Ks, Kl; lia|].
    pose proof (post_sim ost dst (oupd X br) (dupd (fps_norms X) (fps_cross X)) X ycand ORF ORF_upd
                         g1' g2' i B Hi) as Hs'.
    specialize (IH _ _ Hs'). cbn [post sst sel] in IH. rewrite app_length in IH. cbn [length] in IH.
    destruct IH as (I1 & I2); [exact Hok'|rewrite Hcap', Ks, Kl; lia|].
    split; [exact I1|]. now rewrite I2, Hcap', Ks.
  Qed.

  Theorem obj_cold_no_error prev i0 t k :
    (i0 < n)%nat -> (1 <= k)%nat ->
    let g := fst (obj_fit_cold X br ycand prev i0 t k) in
    o_ok (sst g) = true /\ length (o_dsl (sst g)) = k.
  Proof.
    intros Hi Hk g. subst g. unfold obj_fit_cold, obj_run.
    pose proof (obj_cold_sim prev i0 k Hi) as Hs.
    assert (H0 : o_ok (sst (obj_cold X br ycand prev i0 k)) = true /\
                 length (o_dsl (sst (obj_cold X br ycand prev i0 k))) = k /\
                 length (sel (obj_cold X br ycand prev i0 k)) = 1%nat).
    { unfold obj_cold, obj_post, post; cbn [sst sel app length].
      destruct (cold_ORF (option_map sst prev) k) as (v & HO & _).
      destruct (oupd_ok _ v [] i0 HO Hi) as (A & B); [reflexivity|cbn; lia|].
      split; [exact A|]. split; [|reflexivity]. rewrite B. cbn. apply repeat_length. }
    destruct H0 as (A & B & Cc). rewrite Cc.
    destruct (obj_loop_ok t (k - 1) _ _ Hs A) as (I1 & I2); [rewrite Cc, B; lia|].
    split; [exact I1|]. etransitivity; [exact I2|exact B].
  Qed.

  Theorem obj_warm_no_error g1 g2 t k :
    gs g1 g2 -> o_ok (sst g1) = true -> (length (sel g1) <= length (o_dsl (sst g1)))%nat ->
    let g := fst (obj_fit_warm X br ycand g1 t k) in
    o_ok (sst g) = true /\ (k <= length (o_dsl (sst g)))%nat.
  Proof.
    intros H Hok Hcap g. subst g. unfold obj_fit_warm, obj_run.
    pose proof H as (A & B & Cc & D & (v & HO & HR)).
    set (g1w := mk_gst (sel g1) (xsel g1) (ysel g1) (ost_warm k (sst g1)) (first g1)).
    assert (Hs : gs g1w g2).
    { unfold gsim, g1w; cbn. repeat split; auto. exists v. split; [|exact HR].
      destruct HO as (HV & Hn & Hx & Hs0 & Hh & Hhs & Hvl). split; [exact HV|].
      unfold ost_warm; cbn. repeat split; assumption. }
    assert (Hos : o_sel (sst g1) = sel g1) by (destruct HO as (_ & _ & _ & Hs0 & _); exact Hs0).
    assert (Hlen : length (o_dsl (sst g1w)) = (length (o_dsl (sst g1)) + (k - length (sel g1)))%nat).
    { unfold g1w, ost_warm; cbn. now rewrite app_length, repeat_length, Hos. }
    destruct (obj_loop_ok t (k - length (sel g1w)) g1w g2 Hs) as (I1 & I2).
    - exact Hok.
    - rewrite Hlen. unfold g1w; cbn [sel]. lia.
    - split; [exact I1|].
      apply Nat.le_trans with (length (o_dsl (sst g1w))); [rewrite Hlen; lia|].
      apply Nat.eq_le_incl. symmetry. exact I2.
  Qed.

  (* new_dist_ is the one attribute a cold fit does not reset: its first step rewrites it *)
  Theorem obj_cold_forgets prev1 prev2 i0 k :
    (0 < n)%nat -> obj_cold X br ycand prev1 i0 k = obj_cold X br ycand prev2 i0 k.
  Proof.
    intros Hn. unfold obj_cold, obj_post, post. cbn [sel xsel ysel sst first]. f_equal.
    unfold oupd. cbn [ost_cold o_sel o_norms o_xs o_haus o_hsel o_vloc o_dsl o_new o_ok o_active
                      o_buf o_step_ok length].
    unfold o_active, o_buf, o_step_ok. cbn [ost_cold o_sel o_norms o_dsl o_vloc o_haus o_ok].
    rewrite count_true_const, seq_length.
    destruct (Nat.eqb n 0) eqn:E; [apply Nat.eqb_eq in E; lia|]. reflexivity.
  Qed.
End ObjP.

(* ---- sessions ----------------------------------------------------------------------------- *)
(* an accepted cold fit forgets everything that happened on the object before *)
Theorem sess_cold_history_independent s1 s2 X br i0 p k :
  shape_ok X = true -> resolve_n (length X) p = Some k ->
  sess_step s1 (VCold X br i0 p) = sess_step s2 (VCold X br i0 p) \/
  (fst (sess_step s1 (VCold X br i0 p)) = None /\ fst (sess_step s2 (VCold X br i0 p)) = None).
Proof.
  intros Hsh Hr. unfold sess_step. rewrite Hsh, Hr. cbn [negb].
  destruct ((i0 <? length X)%nat && (1 <=? k)%nat) eqn:E; [left|right; auto].
  unfold obj_fit_cold. rewrite (obj_cold_forgets X br None s1 s2 i0 k); [reflexivity|].
  apply andb_prop in E as (E & _). apply Nat.ltb_lt in E. lia.
Qed.

(* the state a session is in after an accepted call, in terms of plain FPS *)
Definition sess_inv (X : list (list Z)) (s : option ogst) (g2 : fps_g) : Prop :=
  exists g, s = Some g /\ gsim ost dst (ORF X) g g2 /\ o_ok (sst g) = true /\
            (length (sel g) <= length (o_dsl (sst g)))%nat.

Theorem sess_cold_equals_fps s X d br i0 p k :
  dims d X -> shape_ok X = true -> resolve_n (length X) p = Some k ->
  (i0 < length X)%nat -> (1 <= k)%nat ->
  snd (sess_step s (VCold X br i0 p)) = true /\
  sess_inv X (fst (sess_step s (VCold X br i0 p))) (fst (fps_fit X None [i0] NoThr k)).
Proof.
  intros Hd Hsh Hr Hi Hk. unfold sess_step. rewrite Hsh, Hr. cbn [negb].
  assert (E : ((i0 <? length X)%nat && (1 <=? k)%nat) = true).
  { apply andb_true_intro. split; [now apply Nat.ltb_lt|now apply Nat.leb_le]. }
  rewrite E. cbn [fst snd]. split; [reflexivity|].
  destruct (obj_cold_equals_fps X d Hd br None s i0 NoThr k Hi) as (Hs & _).
  destruct (obj_cold_no_error X d Hd br None s i0 NoThr k Hi Hk) as (Hok & Hcap).
  eexists. split; [reflexivity|]. split; [exact Hs|]. split; [exact Hok|].
  rewrite Hcap. unfold obj_fit_cold, obj_run.
  pose proof (run_sel_len oscore (oupd X br) X None NoThr (k - 1) (obj_cold X br None s i0 k)) as Hl.
  apply Nat.le_trans with (1 + (k - 1))%nat; [exact Hl|lia].
Qed.

Theorem sess_warm_equals_fps s g2 X d br p k :
  dims d X -> shape_ok X = true -> resolve_n (length X) p = Some k ->
  sess_inv X s g2 -> (length (sel g2) <= k)%nat ->
  snd (sess_step s (VWarm X br p)) = true /\
  sess_inv X (fst (sess_step s (VWarm X br p))) (fst (fps_run X None NoThr k g2)).
Proof.
  intros Hd Hsh Hr (g & -> & Hs & Hok & Hcap) Hk. unfold sess_step. rewrite Hsh, Hr. cbn [negb].
  assert (Hsel : sel g = sel g2) by (destruct Hs as (A & _); exact A).
  assert (E : (k <? length (sel g))%nat = false) by (apply Nat.ltb_ge; rewrite Hsel; exact Hk).
  rewrite E. cbn [fst snd]. split; [reflexivity|].
  destruct (obj_warm_equals_fps X d Hd br None g g2 NoThr k Hs) as (Hs' & _).
  destruct (obj_warm_no_error X d Hd br None g g2 NoThr k Hs Hok Hcap) as (Hok' & Hcap').
  eexists. split; [reflexivity|]. split; [exact Hs'|]. split; [exact Hok'|].
  unfold obj_fit_warm, obj_run in *. cbn [sel] in *.
  pose proof (run_sel_len oscore (oupd X br) X None NoThr (k - length (sel g))
                (mk_gst (sel g) (xsel g) (ysel g) (ost_warm k (sst g)) (first g))) as Hl.
  apply Nat.le_trans with (length (sel g) + (k - length (sel g)))%nat; [exact Hl|].
  apply Nat.le_trans with k; [rewrite Hsel; lia|exact Hcap'].
Qed.

(* ---- parameter validation ------------------------------------------------------------------ *)
(* the cold fit accepts exactly the parameter region the property quantifies over *)
Theorem vor_validate_spec n p ff nt ini :
  (forall num den, ff = FFReal num den -> 0 < den) ->
  vor_validate n p ff nt ini = None <-> in_quantifier n p ff nt ini.
Proof.
  intros Hden. unfold vor_validate, in_quantifier, ff_check.
  destruct (resolve_n n p) as [k|].
  2:{ split; [discriminate|]. intros ((k & Hk & _) & _). discriminate. }
  split.
  - intros H.
    destruct ff as [|num den|]; [destruct nt as [z|]; [destruct (z <=? 0) eqn:Ez|]| |]; try discriminate.
    + apply Z.leb_gt in Ez.
      destruct ini as [i| |]; try discriminate.
      * destruct ((i <? n)%nat && (1 <=? k)%nat) eqn:E; [|discriminate].
        apply andb_prop in E as (E1 & E2). apply Nat.ltb_lt in E1. apply Nat.leb_le in E2.
        split; [exists k; auto|]. split; [exists z; split; [reflexivity|lia]|exact E1].
      * destruct (1 <=? k)%nat eqn:E; [|discriminate]. apply Nat.leb_le in E.
        split; [exists k; auto|]. split; [exists z; split; [reflexivity|lia]|exact I].
    + destruct ((0 <? num) && (num <=? den)) eqn:Ef; [|discriminate].
      apply andb_prop in Ef as (F1 & F2). apply Z.ltb_lt in F1. apply Z.leb_le in F2.
      destruct ini as [i| |]; try discriminate.
      * destruct ((i <? n)%nat && (1 <=? k)%nat) eqn:E; [|discriminate].
        apply andb_prop in E as (E1 & E2). apply Nat.ltb_lt in E1. apply Nat.leb_le in E2.
        split; [exists k; auto|]. split; [lia|exact E1].
      * destruct (1 <=? k)%nat eqn:E; [|discriminate]. apply Nat.leb_le in E.
        split; [exists k; auto|]. split; [lia|exact I].
  - intros ((k' & Hk & Hk1) & Hff & Hini). injection Hk as <-.
    assert (Ek : (1 <=? k)%nat = true) by now apply Nat.leb_le.
    assert (Hf : match ff with
                 | FFNone => match nt with NTOther => Some ETypeError
                                         | NTInt z => if z <=? 0 then Some EValueError else None end
                 | FFReal num den => if (0 <? num) && (num <=? den) then None else Some EValueError
                 | FFOther => Some EValueError end = None).
    { destruct ff as [|num den|]; [| |contradiction].
      - destruct Hff as (z & -> & Hz). destruct (z <=? 0) eqn:Ez; [apply Z.leb_le in Ez; lia|reflexivity].
      - destruct Hff as (F1 & F2). apply Z.ltb_lt in F1. apply Z.leb_le in F2. now rewrite F1, F2. }
    rewrite Hf. destruct ini as [i| |]; [| |contradiction].
    + apply Nat.ltb_lt in Hini. now rewrite Hini, Ek.
    + now rewrite Ek.
Qed.

(* the value a timing calibration stores is accepted when the object is fitted again *)
Theorem calibrated_value_accepted outs nt :
  let '(k, v) := calibrate_stored outs in ff_check (FFReal v (2 ^ Z.of_nat k)) nt = None.
Proof.
  pose proof (calibrate_stored_range outs) as H. destruct (calibrate_stored outs) as [k v].
  destruct H as (-> & Hv). change (2 ^ Z.of_nat 7) with 128. unfold ff_check.
  assert (A : (0 <? v) = true) by (apply Z.ltb_lt; lia).
  assert (B : (v <=? 128) = true) by (apply Z.leb_le; lia). now rewrite A, B.
Qed.

(* explicit form of obj_cold_equals_fps: every public output, and the attributes later fits read *)
Theorem obj_cold_outputs X d br ycand prev i0 t k :
  dims d X -> (i0 < length X)%nat ->
  let rv := obj_fit_cold X br ycand prev i0 t k in
  let rf := fps_fit X ycand [i0] t k in
  sel (fst rv) = sel (fst rf) /\ xsel (fst rv) = xsel (fst rf) /\ ysel (fst rv) = ysel (fst rf) /\
  o_haus (sst (fst rv)) = haus (sst (fst rf)) /\
  obj_select_distance (fst rv) = select_distance (fst rf) /\
  snd rv = snd rf /\
  o_norms (sst (fst rv)) = fps_norms X /\
  o_sel (sst (fst rv)) = sel (fst rv) /\
  o_xs (sst (fst rv)) = map (fun i => nth i X []) (sel (fst rv)).
Proof.
  intros Hd Hi rv rf.
  destruct (obj_cold_equals_fps X d Hd br ycand prev i0 t k Hi) as (Hs & Hst).
  destruct (gs_outputs X _ _ Hs) as (A & B & Cc & D & E & F & G & H & _).
  subst rv rf. repeat split; assumption.
Qed.

(* ---- a cold fit rejected for its switching-point parameters (/repo ac09377) ----------------- *)
(* ... leaves the whole object unchanged, whatever state it was in *)
Theorem sess_rejected_keeps_state s X ff nt br i0 p e :
  ff_check ff nt = Some e -> sess_step s (VColdFF X ff nt br i0 p) = (s, false).
Proof.
  intros H. unfold sess_step. destruct (negb (shape_ok X)); [reflexivity|].
  destruct (resolve_n (length X) p); [|reflexivity]. now rewrite H.
Qed.

(* ... so the session invariant survives it: the object is still in plain FPS's state on the data
   of its last accepted cold fit, and a following warm start continues from there *)
Theorem sess_rejected_then_warm s g2 X d X' ff nt br' i0 p' e br p k :
  dims d X -> shape_ok X = true -> resolve_n (length X) p = Some k ->
  sess_inv X s g2 -> (length (sel g2) <= k)%nat -> ff_check ff nt = Some e ->
  let s1 := fst (sess_step s (VColdFF X' ff nt br' i0 p')) in
  snd (sess_step s1 (VWarm X br p)) = true /\
  sess_inv X (fst (sess_step s1 (VWarm X br p))) (fst (fps_run X None NoThr k g2)).
Proof.
  intros Hd Hsh Hr Hinv Hk He s1. subst s1.
  rewrite (sess_rejected_keeps_state s X' ff nt br' i0 p' e He). cbn [fst].
  exact (sess_warm_equals_fps s g2 X d br p k Hd Hsh Hr Hinv Hk).
Qed.

(* with accepted switching-point parameters the call is an ordinary cold fit *)
Theorem sess_coldff_accepted s X ff nt br i0 p :
  ff_check ff nt = None -> sess_step s (VColdFF X ff nt br i0 p) = sess_step s (VCold X br i0 p).
Proof. intros H. unfold sess_step. now rewrite H. Qed.

(* ---- score thresholds ---------------------------------------------------------------------- *)
(* for EVERY threshold (none / absolute / relative, any value): the object stops exactly when plain
   FPS stops, after the same selections, with the same tables.  The threshold is consulted by the
   shared best_new only; oupd (= _get_active + the update) does not take it. *)
Theorem obj_threshold_stop X d br ycand prev i0 (t : thr) k :
  dims d X -> (i0 < length X)%nat ->
  let rv := obj_fit_cold X br ycand prev i0 t k in
  let rf := fps_fit X ycand [i0] t k in
  snd rv = snd rf /\ length (sel (fst rv)) = length (sel (fst rf)) /\
  sel (fst rv) = sel (fst rf) /\ o_haus (sst (fst rv)) = haus (sst (fst rf)) /\
  first (fst rv) = first (fst rf).
Proof.
  intros Hd Hi rv rf.
  destruct (obj_cold_equals_fps X d Hd br ycand prev i0 t k Hi) as (Hs & Hst).
  pose proof Hs as (A & _ & _ & D & _).
  destruct (gs_outputs X _ _ Hs) as (_ & _ & _ & Hh & _).
  subst rv rf. repeat split; try assumption. now rewrite A.
Qed.
