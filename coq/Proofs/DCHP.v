(* Proofs about Model/DCH.v.  Stdlib style.
   Part 1: theorems about the model over Q under the oracle contract h1-h3.
   Part 2: the specification over Z (affine invariance, adding points above, simplex form,
           monotone chain). *)
From Coq Require Import QArith Qabs Lqa Sorting.Sorted.
From Verif Require Import ListX ListXP DCH.

(* ================================================================ Part 1 *)
Local Open Scope Q_scope.

Lemma Qltb_lt a b : Qltb a b = true <-> a < b.
Proof.
  unfold Qltb. rewrite negb_true_iff. split.
  - intros H. apply Qnot_le_lt. intros Hle. apply Qle_bool_iff in Hle. congruence.
  - intros H. destruct (Qle_bool b a) eqn:E; [|reflexivity].
    apply Qle_bool_iff in E. apply Qlt_not_le in H. contradiction.
Qed.

Lemma Qltb_ge a b : Qltb a b = false <-> b <= a.
Proof.
  unfold Qltb. rewrite negb_false_iff. apply Qle_bool_iff.
Qed.

Lemma Qle_bool_false a b : Qle_bool a b = false <-> b < a.
Proof.
  split.
  - intros H. apply Qnot_le_lt. intros Hle. apply Qle_bool_iff in Hle. congruence.
  - intros H. destruct (Qle_bool a b) eqn:E; [|reflexivity].
    apply Qle_bool_iff in E. apply Qlt_not_le in H. contradiction.
Qed.

(* ---- qmin_list / qmax_list ------------------------------------------------------ *)
Lemma qmin_list_none l : qmin_list l = None -> l = [].
Proof. destruct l as [|a t]; [reflexivity|]. cbn. destruct (qmin_list t); discriminate. Qed.

Lemma qmax_list_none l : qmax_list l = None -> l = [].
Proof. destruct l as [|a t]; [reflexivity|]. cbn. destruct (qmax_list t); discriminate. Qed.

Lemma qmin_list_spec l m :
  qmin_list l = Some m -> In m l /\ forall a, In a l -> m <= a.
Proof.
  revert m; induction l as [|x t IH]; intros m H; cbn in H; [discriminate|].
  destruct (qmin_list t) as [m'|] eqn:E.
  - specialize (IH m' eq_refl) as [Hin Hle]. injection H as <-. unfold qmin.
    destruct (Qle_bool x m') eqn:C.
    + apply Qle_bool_iff in C. split; [now left|]. intros a [<-|Ha]; [lra|].
      specialize (Hle a Ha). lra.
    + apply Qle_bool_false in C. split; [now right|]. intros a [<-|Ha]; [lra|]. auto.
  - injection H as <-. apply qmin_list_none in E. subst t. split; [now left|].
    intros a [<-|[]]. lra.
Qed.

Lemma qmax_list_spec l m :
  qmax_list l = Some m -> In m l /\ forall a, In a l -> a <= m.
Proof.
  revert m; induction l as [|x t IH]; intros m H; cbn in H; [discriminate|].
  destruct (qmax_list t) as [m'|] eqn:E.
  - specialize (IH m' eq_refl) as [Hin Hle]. injection H as <-. unfold qmax.
    destruct (Qle_bool x m') eqn:C.
    + apply Qle_bool_iff in C. split; [now right|]. intros a [<-|Ha]; [lra|]. auto.
    + apply Qle_bool_false in C. split; [now left|]. intros a [<-|Ha]; [lra|].
      specialize (Hle a Ha). lra.
  - injection H as <-. apply qmax_list_none in E. subst t. split; [now left|].
    intros a [<-|[]]. lra.
Qed.

Lemma qmin_list_some l : l <> [] -> exists m, qmin_list l = Some m.
Proof.
  destruct l as [|a t]; [congruence|]. intros _. cbn. destruct (qmin_list t); eauto.
Qed.

Lemma qmax_list_some l : l <> [] -> exists m, qmax_list l = Some m.
Proof.
  destruct l as [|a t]; [congruence|]. intros _. cbn. destruct (qmax_list t); eauto.
Qed.

(* ---- unique_sorted -------------------------------------------------------------- *)
Lemma insu_In x l i : In i (insu x l) <-> i = x \/ In i l.
Proof.
  induction l as [|y t IH]; cbn [insu In]; [firstorder congruence|].
  destruct (Nat.ltb x y) eqn:L; [cbn [In]; firstorder congruence|].
  destruct (Nat.eqb x y) eqn:E.
  - apply Nat.eqb_eq in E. subst. cbn [In]. firstorder congruence.
  - cbn [In]. rewrite IH. firstorder congruence.
Qed.

Lemma unique_sorted_In l i : In i (unique_sorted l) <-> In i l.
Proof.
  induction l as [|x t IH]; cbn; [tauto|]. rewrite insu_In, IH. firstorder congruence.
Qed.

Lemma insu_sorted x l : StronglySorted lt l -> StronglySorted lt (insu x l).
Proof.
  induction l as [|y t IH]; cbn [insu]; intros H; [repeat constructor|].
  inversion H as [|? ? Ht Hall]; subst.
  destruct (Nat.ltb x y) eqn:L.
  - apply Nat.ltb_lt in L. constructor; [assumption|]. constructor; [assumption|].
    eapply Forall_impl; [|exact Hall]. intros a Ha. cbn in Ha. lia.
  - apply Nat.ltb_ge in L. destruct (Nat.eqb x y) eqn:E; [assumption|].
    apply Nat.eqb_neq in E. constructor; [auto|].
    apply Forall_forall. intros a Ha. apply insu_In in Ha as [->|Ha]; [lia|].
    rewrite Forall_forall in Hall. auto.
Qed.

Lemma unique_sorted_sorted l : StronglySorted lt (unique_sorted l).
Proof. induction l as [|x t IH]; cbn; [constructor|]. now apply insu_sorted. Qed.

(* selected_idx_ is strictly increasing and lists exactly the vertices of the kept facets *)
Lemma selected_spec fs :
  StronglySorted lt (selected fs) /\
  forall i, In i (selected fs) <-> exists f, In f (lower_facets fs) /\ In i (fverts f).
Proof.
  split; [apply unique_sorted_sorted|]. intros i. unfold selected.
  rewrite unique_sorted_In, in_flat_map. tauto.
Qed.

Lemma lower_facets_In fs f : In f (lower_facets fs) <-> In f fs /\ f_ny f < 0.
Proof.
  unfold lower_facets. rewrite filter_In. unfold is_lower. now rewrite Qltb_lt.
Qed.

(* ---- the facet distance ---------------------------------------------------------- *)
Lemma qdot_cons a u b v : qdot (a :: u) (b :: v) = a * b + qdot u v.
Proof. reflexivity. Qed.

Lemma ddist_gval f p : ddist f p == gval f p / f_ny f.
Proof. unfold ddist, gval. unfold Qdiv. ring. Qed.

Lemma ny_nonempty f : ~ f_ny f == 0 -> exists nx, fnormal f = f_ny f :: nx.
Proof.
  unfold f_ny. destruct (fnormal f) as [|a nx]; cbn; intros H; [exfalso; apply H; reflexivity|].
  now exists nx.
Qed.

(* the directional distance is the vertical offset from the facet's plane *)
Lemma ddist_plane f y x : ~ f_ny f == 0 -> ddist f (y :: x) == y - plane f x.
Proof.
  intros Hny. destruct (ny_nonempty f Hny) as [nx Hn].
  unfold ddist, plane. rewrite Hn at 1 2. cbn [tl]. rewrite qdot_cons.
  field. exact Hny.
Qed.

Lemma div_neg g ny : ny < 0 ->
  (0 <= g / ny <-> g <= 0) /\ (0 < g / ny <-> g < 0) /\ (g / ny == 0 <-> g == 0).
Proof.
  intros Hny. assert (E : (g / ny) * ny == g) by (field; lra).
  set (d := g / ny) in *. clearbody d. repeat split; intros H; nra.
Qed.

Section Contract.
  Variable fs : list facet.
  Variable P : list (list Q).
  Variable tol : Q.
  Hypothesis Htol : 0 <= tol.
  Let lf := lower_facets fs.

  Lemma lf_ny f : In f lf -> f_ny f < 0.
  Proof. intros H. apply lower_facets_In in H. tauto. Qed.

  Lemma sample_dist_nonneg f p :
    contract_h1 fs P -> In f lf -> In p P -> 0 <= ddist f p.
  Proof.
    intros H1 Hf Hp. rewrite ddist_gval. apply (div_neg _ _ (lf_ny f Hf)).
    apply H1; [|assumption]. apply lower_facets_In in Hf. tauto.
  Qed.

  Lemma not_below_all p :
    (forall f, In f lf -> - tol <= ddist f p) ->
    existsb (fun d => Qltb d (- tol)) (map (fun f => ddist f p) lf) = false.
  Proof.
    intros H. destruct (existsb _ _) eqn:E; [|reflexivity]. exfalso.
    apply existsb_exists in E as (d & Hd & Hlt). apply in_map_iff in Hd as (f & <- & Hf).
    apply Qltb_lt in Hlt. specialize (H f Hf). lra.
  Qed.

  (* no training sample lies below the hull: its distance exists and is >= 0 *)
  Lemma no_sample_below p :
    contract_h1 fs P -> lf <> [] -> In p P ->
    exists dd, hull_distance tol lf p = Some dd /\ 0 <= dd.
  Proof.
    intros H1 Hne Hp. unfold hull_distance, hull_distance_with.
    rewrite not_below_all.
    - destruct (qmin_list_some (map (fun f => ddist f p) lf)) as [m Hm].
      { destruct lf; [congruence|discriminate]. }
      exists m. split; [exact Hm|]. apply qmin_list_spec in Hm as [Hin _].
      apply in_map_iff in Hin as (f & <- & Hf). now apply sample_dist_nonneg.
    - intros f Hf. pose proof (sample_dist_nonneg f p H1 Hf Hp). lra.
  Qed.

  (* every selected sample has distance zero *)
  Lemma selected_zero i :
    contract_h1 fs P -> contract_h2 fs P -> In i (selected fs) ->
    exists dd, hull_distance tol lf (nth i P []) = Some dd /\ dd == 0.
  Proof.
    intros H1 H2 Hi. apply selected_spec in Hi as (f & Hf & Hv).
    destruct (H2 f i Hf Hv) as [Hlt Hg].
    assert (Hp : In (nth i P []) P) by now apply nth_In.
    assert (Hne : lf <> []).
    { fold lf in Hf. intros E. rewrite E in Hf. exact Hf. }
    destruct (no_sample_below (nth i P []) H1 Hne Hp) as (dd & Hd & Hge).
    exists dd. split; [exact Hd|].
    unfold hull_distance, hull_distance_with in Hd. rewrite not_below_all in Hd.
    - apply qmin_list_spec in Hd as [_ Hle].
      assert (Hz : ddist f (nth i P []) == 0).
      { rewrite ddist_gval. apply (div_neg _ _ (lf_ny f Hf)). exact Hg. }
      specialize (Hle (ddist f (nth i P [])) (in_map _ _ _ Hf)). lra.
    - intros g Hg'. pose proof (sample_dist_nonneg g _ H1 Hg' Hp). lra.
  Qed.

  (* an unselected sample (general position w.r.t. the hull) has positive distance *)
  Lemma unselected_positive i :
    contract_h1 fs P -> contract_gp fs P -> lf <> [] ->
    (i < length P)%nat -> ~ In i (selected fs) ->
    exists dd, hull_distance tol lf (nth i P []) = Some dd /\ 0 < dd.
  Proof.
    intros H1 Hgp Hne Hi Hns.
    assert (Hp : In (nth i P []) P) by now apply nth_In.
    destruct (no_sample_below (nth i P []) H1 Hne Hp) as (dd & Hd & Hge).
    exists dd. split; [exact Hd|].
    unfold hull_distance, hull_distance_with in Hd. rewrite not_below_all in Hd.
    - apply qmin_list_spec in Hd as [Hin _]. apply in_map_iff in Hin as (f & <- & Hf).
      rewrite ddist_gval. apply (div_neg _ _ (lf_ny f Hf)).
      assert (Hle : gval f (nth i P []) <= 0).
      { apply H1; [|exact Hp]. apply lower_facets_In in Hf. tauto. }
      destruct (Qlt_le_dec (gval f (nth i P [])) 0) as [Hl|Hg0]; [exact Hl|]. exfalso.
      apply Hns. apply selected_spec. exists f. split; [exact Hf|].
      apply Hgp; [exact Hf|exact Hi|]. lra.
    - intros g Hg'. pose proof (sample_dist_nonneg g _ H1 Hg' Hp). lra.
  Qed.
End Contract.

(* ---- queries: vertical offset and sign -------------------------------------------- *)
Section Query.
  Variable lf : list facet.
  Variable tol : Q.
  Hypothesis Hlow : forall f, In f lf -> f_ny f < 0.

  Lemma ddist_plane_lf f y x : In f lf -> ddist f (y :: x) == y - plane f x.
  Proof. intros Hf. apply ddist_plane. pose proof (Hlow f Hf). lra. Qed.

  Lemma surface_spec x s :
    surface lf x = Some s ->
    (exists f, In f lf /\ s = plane f x) /\ forall f, In f lf -> plane f x <= s.
  Proof.
    intros H. apply qmax_list_spec in H as [Hin Hle]. split.
    - apply in_map_iff in Hin as (f & E & Hf). eauto.
    - intros f Hf. apply Hle. now apply in_map with (f := fun f => plane f x).
  Qed.

  (* on or above the surface (up to tol below it) the distance is the vertical offset
     y - max_f plane_f(x) *)
  Lemma offset_above x y s :
    surface lf x = Some s -> s - tol <= y ->
    exists dd, hull_distance tol lf (y :: x) = Some dd /\ dd == y - s.
  Proof.
    intros Hs Hy. destruct (surface_spec x s Hs) as [(f1 & Hf1 & E1) Hmax].
    unfold hull_distance, hull_distance_with.
    assert (Hnb : existsb (fun d => Qltb d (- tol)) (map (fun f => ddist f (y :: x)) lf) = false).
    { destruct (existsb _ _) eqn:E; [|reflexivity]. exfalso.
      apply existsb_exists in E as (d & Hd & Hlt). apply in_map_iff in Hd as (f & <- & Hf).
      apply Qltb_lt in Hlt. rewrite (ddist_plane_lf f y x Hf) in Hlt.
      specialize (Hmax f Hf). lra. }
    rewrite Hnb.
    destruct (qmin_list_some (map (fun f => ddist f (y :: x)) lf)) as [m Hm].
    { destruct lf; [destruct Hf1|discriminate]. }
    exists m. split; [exact Hm|]. apply qmin_list_spec in Hm as [Hin Hle].
    apply in_map_iff in Hin as (f0 & E0 & Hf0).
    pose proof (ddist_plane_lf f0 y x Hf0) as D0. pose proof (Hmax f0 Hf0) as M0.
    specialize (Hle (ddist f1 (y :: x)) (in_map _ _ _ Hf1)).
    pose proof (ddist_plane_lf f1 y x Hf1) as D1. subst s m. lra.
  Qed.

  (* positive above, negative below, zero on the surface; below beyond the tolerance the
     reported distance is itself beyond the tolerance *)
  Lemma distance_sign x y s dd :
    0 <= tol -> surface lf x = Some s -> hull_distance tol lf (y :: x) = Some dd ->
    (0 < dd <-> s < y) /\ (dd < 0 <-> y < s) /\ (dd == 0 <-> y == s) /\
    (y < s - tol -> dd < - tol).
  Proof.
    intros Htol Hs Hd. destruct (surface_spec x s Hs) as [(f1 & Hf1 & E1) Hmax].
    destruct (Qlt_le_dec y (s - tol)) as [Hbelow|Hab].
    - (* below: the maximum over the facets violated beyond the tolerance *)
      unfold hull_distance, hull_distance_with in Hd.
      assert (Hb : existsb (fun d => Qltb d (- tol)) (map (fun f => ddist f (y :: x)) lf) = true).
      { apply existsb_exists. exists (ddist f1 (y :: x)). split; [exact (in_map (fun f => ddist f (y :: x)) lf f1 Hf1)|].
        apply Qltb_lt. rewrite (ddist_plane_lf f1 y x Hf1). subst s. lra. }
      rewrite Hb in Hd. apply qmax_list_spec in Hd as [Hin _].
      apply filter_In in Hin as [Hin Hk]. unfold keep_fixed in Hk. apply Qltb_lt in Hk.
      apply in_map_iff in Hin as (f & E & Hf). rewrite <- E in Hk.
      rewrite (ddist_plane_lf f y x Hf) in Hk. specialize (Hmax f Hf).
      rewrite <- E. rewrite (ddist_plane_lf f y x Hf).
      repeat split; intros; lra.
    - destruct (offset_above x y s Hs Hab) as (dd' & Hd' & E).
      rewrite Hd in Hd'. injection Hd' as <-. repeat split; intros; lra.
  Qed.
End Query.

(* ---- linear combinations --------------------------------------------------------- *)
Lemma qsum_map2_add {A} (F G : A -> Q) ws (Ps : list A) :
  qsum (map2 (fun w p => w * (F p + G p)) ws Ps)
  == qsum (map2 (fun w p => w * F p) ws Ps) + qsum (map2 (fun w p => w * G p) ws Ps).
Proof.
  revert Ps; induction ws as [|w ws IH]; intros [|p Ps]; cbn; try ring.
  rewrite IH. ring.
Qed.

Lemma qsum_map2_scale {A} (F : A -> Q) k ws (Ps : list A) :
  qsum (map2 (fun w p => w * (F p * k)) ws Ps) == k * qsum (map2 (fun w p => w * F p) ws Ps).
Proof.
  revert Ps; induction ws as [|w ws IH]; intros [|p Ps]; cbn; try ring.
  rewrite IH. ring.
Qed.

Lemma qsum_map2_ext {A} (F G : Q -> A -> Q) ws (Ps : list A) :
  (forall w p, In p Ps -> F w p == G w p) ->
  qsum (map2 F ws Ps) == qsum (map2 G ws Ps).
Proof.
  revert Ps; induction ws as [|w ws IH]; intros [|p Ps] H; cbn; try reflexivity.
  rewrite H by now left. rewrite IH; [reflexivity|]. intros; apply H; now right.
Qed.

Lemma qsum_map2_const {A} k ws (Ps : list A) :
  length ws = length Ps -> qsum (map2 (fun w _ => w * k) ws Ps) == k * qsum ws.
Proof.
  revert Ps; induction ws as [|w ws IH]; intros [|p Ps] H; cbn in *; try discriminate; try ring.
  rewrite IH by congruence. ring.
Qed.

Lemma qdot_qcol ws (Ps : list (list Q)) c :
  qdot ws (qcol Ps c) = qsum (map2 (fun w p => w * nth c p 0) ws Ps).
Proof. unfold qdot, qcol. now rewrite map2_map_r. Qed.

(* sum_k w_k (p_k . n) = v . n  when v is the combination of the p_k, coordinate by coordinate *)
Lemma qdot_combo n : forall (Ps : list (list Q)) ws v,
  (forall p, In p Ps -> length p = length n) -> length v = length n ->
  (forall c, (c < length n)%nat -> qdot ws (qcol Ps c) == nth c v 0) ->
  qsum (map2 (fun w p => w * qdot p n) ws Ps) == qdot v n.
Proof.
  induction n as [|n0 n' IH]; intros Ps ws v Hlen Hv Hc.
  - destruct v; [|discriminate]. cbn.
    rewrite (qsum_map2_ext _ (fun w _ => w * 0)).
    + clear. revert Ps; induction ws as [|w ws IH]; intros [|p Ps]; cbn; try reflexivity.
      rewrite IH. ring.
    + intros w p Hp. specialize (Hlen p Hp). destruct p; [|discriminate]. reflexivity.
  - destruct v as [|v0 v']; [discriminate|]. rewrite qdot_cons.
    rewrite (qsum_map2_ext _ (fun w p => w * (nth 0 p 0 * n0 + qdot (tl p) n'))).
    2:{ intros w p Hp. specialize (Hlen p Hp). destruct p as [|p0 p']; [discriminate|].
        cbn [nth tl]. rewrite qdot_cons. reflexivity. }
    rewrite (qsum_map2_add (fun p => nth 0 p 0 * n0) (fun p => qdot (tl p) n')).
    rewrite qsum_map2_scale. rewrite <- qdot_qcol. rewrite (Hc 0%nat) by (cbn; lia).
    cbn [nth].
    assert (E : qsum (map2 (fun w p => w * qdot (tl p) n') ws Ps)
                == qsum (map2 (fun w p => w * qdot p n') ws (map (@tl Q) Ps))).
    { now rewrite map2_map_r. }
    rewrite E. rewrite (IH (map (@tl Q) Ps) ws v').
    + ring.
    + intros p Hp. apply in_map_iff in Hp as (p1 & <- & Hp1). specialize (Hlen p1 Hp1).
      destruct p1; [discriminate|]. cbn in *. congruence.
    + cbn in Hv. congruence.
    + intros c Hlt. specialize (Hc (S c)). cbn [nth length] in Hc.
      rewrite <- Hc by lia. unfold qcol. rewrite map_map. unfold qdot.
      rewrite !map2_map_r. apply qsum_map2_ext. intros w p _.
      destruct p as [|p0 p']; [destruct c; reflexivity|reflexivity].
Qed.

(* the affine form n.p + b of a facet is affine along combinations with total weight 1 *)
Lemma gval_combo f (Ps : list (list Q)) ws t x :
  (forall p, In p Ps -> length p = length (fnormal f)) ->
  length (t :: x) = length (fnormal f) -> length ws = length Ps -> qsum ws == 1 ->
  qdot ws (qcol Ps 0) == t ->
  (forall c, (c < length x)%nat -> qdot ws (qcol Ps (S c)) == nth c x 0) ->
  qsum (map2 (fun w p => w * gval f p) ws Ps) == gval f (t :: x).
Proof.
  intros Hlen Hv Hws Hs Ht Hx. unfold gval.
  rewrite (qsum_map2_add (fun p => qdot p (fnormal f)) (fun _ => foffset f)).
  rewrite qsum_map2_const by assumption. rewrite Hs.
  rewrite (qdot_combo (fnormal f) Ps ws (t :: x)); [ring|assumption|assumption|].
  intros [|c] Hc; cbn [nth]; [exact Ht|]. apply Hx. cbn in Hv. lia.
Qed.

Lemma qsum_nonneg_le ws (gs : list Q) :
  (forall w, In w ws -> 0 <= w) -> (forall g, In g gs -> g <= 0) ->
  qsum (map2 Qmult ws gs) <= 0.
Proof.
  revert gs; induction ws as [|w ws IH]; intros [|g gs] Hw Hg; cbn; try lra.
  assert (0 <= w) by (apply Hw; now left). assert (g <= 0) by (apply Hg; now left).
  assert (qsum (map2 Qmult ws gs) <= 0).
  { apply IH; intros; [apply Hw|apply Hg]; now right. }
  nra.
Qed.

Section Surface.
  Variable d : nat.
  Variable fs : list facet.
  Variable P : list (list Q).
  Hypothesis Hwf : wf_dim d fs P.
  Hypothesis H1 : contract_h1 fs P.
  Hypothesis H2 : contract_h2 fs P.

  (* every convex combination of the samples lies on or above every lower facet's plane *)
  Lemma combo_above_plane f w x :
    In f (lower_facets fs) -> length x = d -> is_combo d P w x ->
    plane f x <= combo_target P w.
  Proof.
    intros Hf Hx (Hlw & Hpos & Hsum & Hc).
    destruct Hwf as [Wf Wp]. pose proof Hf as Hf'. apply lower_facets_In in Hf' as [Hfs Hny].
    assert (E : qsum (map2 (fun w p => w * gval f p) w P) == gval f (combo_target P w :: x)).
    { apply gval_combo.
      - intros p Hp. rewrite (Wf f Hfs). now apply Wp.
      - cbn. rewrite (Wf f Hfs). congruence.
      - assumption.
      - assumption.
      - reflexivity.
      - intros c Hlt. apply Hc. lia. }
    assert (L : qsum (map2 (fun w p => w * gval f p) w P) <= 0).
    { assert (E2 : qsum (map2 (fun w p => w * gval f p) w P)
                   = qsum (map2 Qmult w (map (gval f) P))) by now rewrite map2_map_r.
      rewrite E2. apply qsum_nonneg_le; [assumption|].
      intros g Hg. apply in_map_iff in Hg as (p & <- & Hp). now apply H1. }
    rewrite E in L.
    assert (D : ddist f (combo_target P w :: x) == combo_target P w - plane f x).
    { apply ddist_plane. lra. }
    rewrite ddist_gval in D. pose proof (proj1 (div_neg (gval f (combo_target P w :: x)) _ Hny)) as S1.
    assert (0 <= gval f (combo_target P w :: x) / f_ny f) by (apply S1; exact L).
    lra.
  Qed.

  (* over a position covered by a lower facet, that facet's plane is attained by a convex
     combination of the facet's vertices (which are samples) *)
  Lemma covered_attains f lam x :
    In f (lower_facets fs) -> length x = d -> covers d P f lam x ->
    plane f x == qdot lam (map (fun v => nth 0 (nth v P []) 0) (fverts f)).
  Proof.
    intros Hf Hx (Hll & Hpos & Hsum & Hc).
    destruct Hwf as [Wf Wp]. pose proof Hf as Hf'. apply lower_facets_In in Hf' as [Hfs Hny].
    set (Ps := map (fun v => nth v P []) (fverts f)).
    set (t := qdot lam (map (fun v => nth 0 (nth v P []) 0) (fverts f))).
    assert (HPs : forall p, In p Ps -> In p P).
    { intros p Hp. apply in_map_iff in Hp as (v & <- & Hv). apply nth_In.
      apply (H2 f v Hf Hv). }
    assert (Ecol : forall c, qcol Ps c = map (fun v => nth c (nth v P []) 0) (fverts f)).
    { intros c. unfold qcol, Ps. now rewrite map_map. }
    assert (E : qsum (map2 (fun w p => w * gval f p) lam Ps) == gval f (t :: x)).
    { apply gval_combo.
      - intros p Hp. rewrite (Wf f Hfs). apply Wp. now apply HPs.
      - cbn. rewrite (Wf f Hfs). congruence.
      - unfold Ps. now rewrite map_length.
      - assumption.
      - rewrite Ecol. reflexivity.
      - intros c Hlt. rewrite Ecol. apply Hc. lia. }
    assert (Z : qsum (map2 (fun w p => w * gval f p) lam Ps) == 0).
    { rewrite (qsum_map2_ext _ (fun w _ => w * 0)).
      - rewrite qsum_map2_const by (unfold Ps; now rewrite map_length). ring.
      - intros w p Hp. apply in_map_iff in Hp as (v & <- & Hv).
        destruct (H2 f v Hf Hv) as [_ Hg]. rewrite Hg. reflexivity. }
    rewrite Z in E.
    assert (D : ddist f (t :: x) == t - plane f x) by (apply ddist_plane; lra).
    rewrite ddist_gval in D. pose proof (proj2 (proj2 (div_neg (gval f (t :: x)) _ Hny))) as S1.
    assert (gval f (t :: x) / f_ny f == 0) by (apply S1; symmetry; exact E).
    fold t. lra.
  Qed.

  (* hence max_f plane_f(x) is the lower hull of the samples over any covered position:
     it is the target of a convex combination of samples at x, and no convex combination of
     samples at x has a smaller target *)
  Lemma surface_is_hull x s :
    length x = d -> in_footprint d fs P x -> surface (lower_facets fs) x = Some s ->
    (exists f lam, In f (lower_facets fs) /\ covers d P f lam x /\
        s == qdot lam (map (fun v => nth 0 (nth v P []) 0) (fverts f))) /\
    (forall w, is_combo d P w x -> s <= combo_target P w).
  Proof.
    intros Hx (f & lam & Hf & Hcov) Hs.
    assert (Hlow : forall g, In g (lower_facets fs) -> f_ny g < 0).
    { intros g Hg. apply lower_facets_In in Hg. tauto. }
    destruct (surface_spec _ x s Hs) as [(f1 & Hf1 & E1) Hmax].
    assert (Hall : forall w, is_combo d P w x -> s <= combo_target P w).
    { intros w Hw. subst s. now apply combo_above_plane. }
    split; [|exact Hall].
    exists f, lam. split; [exact Hf|]. split; [exact Hcov|].
    pose proof (covered_attains f lam x Hf Hx Hcov) as Eq.
    (* plane_f(x) <= s, and s = plane_f1(x) <= the facet-local combination = plane_f(x) *)
    pose proof (Hmax f Hf) as Up.
    assert (Lo : s <= plane f x).
    { (* the facet-local combination is a point of the hull: above plane f1 *)
      subst s. destruct Hcov as (Hll & Hpos & Hsum & Hc).
      destruct Hwf as [Wf Wp]. pose proof Hf1 as Hf1'. apply lower_facets_In in Hf1' as [Hfs1 Hny1].
      set (Ps := map (fun v => nth v P []) (fverts f)).
      set (t := qdot lam (map (fun v => nth 0 (nth v P []) 0) (fverts f))) in *.
      assert (HPs : forall p, In p Ps -> In p P).
      { intros p Hp. apply in_map_iff in Hp as (v & <- & Hv). apply nth_In. apply (H2 f v Hf Hv). }
      assert (Ecol : forall c, qcol Ps c = map (fun v => nth c (nth v P []) 0) (fverts f)).
      { intros c. unfold qcol, Ps. now rewrite map_map. }
      assert (E : qsum (map2 (fun w p => w * gval f1 p) lam Ps) == gval f1 (t :: x)).
      { apply gval_combo.
        - intros p Hp. rewrite (Wf f1 Hfs1). apply Wp. now apply HPs.
        - cbn. rewrite (Wf f1 Hfs1). congruence.
        - unfold Ps. now rewrite map_length.
        - assumption.
        - rewrite Ecol. reflexivity.
        - intros c Hlt. rewrite Ecol. apply Hc. lia. }
      assert (L : qsum (map2 (fun w p => w * gval f1 p) lam Ps) <= 0).
      { assert (E2 : qsum (map2 (fun w p => w * gval f1 p) lam Ps)
                     = qsum (map2 Qmult lam (map (gval f1) Ps))) by now rewrite map2_map_r.
        rewrite E2. apply qsum_nonneg_le; [assumption|].
        intros g Hg. apply in_map_iff in Hg as (p & <- & Hp). apply H1; [exact Hfs1|now apply HPs]. }
      rewrite E in L.
      assert (D : ddist f1 (t :: x) == t - plane f1 x) by (apply ddist_plane; lra).
      rewrite ddist_gval in D. pose proof (proj1 (div_neg (gval f1 (t :: x)) _ Hny1)) as S1.
      assert (0 <= gval f1 (t :: x) / f_ny f1) by (apply S1; exact L).
      lra. }
    lra.
  Qed.

  (* an unselected sample is not a lower vertex: a convex combination of OTHER samples (the
     vertices of the facet covering its position) at its position has a target <= its own *)
  Lemma unselected_not_lower i :
    contract_h3 d fs P -> (i < length P)%nat -> ~ In i (selected fs) ->
    exists f lam, In f (lower_facets fs) /\ covers d P f lam (tl (nth i P [])) /\
      ~ In i (fverts f) /\
      qdot lam (map (fun v => nth 0 (nth v P []) 0) (fverts f)) <= nth 0 (nth i P []) 0.
  Proof.
    intros H3 Hi Hns.
    assert (Hp : In (nth i P []) P) by now apply nth_In.
    destruct (H3 _ Hp) as (f & lam & Hf & Hcov).
    exists f, lam. split; [exact Hf|]. split; [exact Hcov|]. split.
    - intros Hv. apply Hns. apply selected_spec. eauto.
    - destruct Hwf as [Wf Wp]. pose proof (Wp _ Hp) as Hl.
      destruct (nth i P []) as [|yi xi] eqn:Ep; [discriminate|]. cbn [tl nth] in *.
      assert (Hx : length xi = d) by (cbn in Hl; congruence).
      rewrite <- (covered_attains f lam xi Hf Hx Hcov).
      pose proof Hf as Hf'. apply lower_facets_In in Hf' as [Hfs Hny].
      assert (G : gval f (yi :: xi) <= 0) by (apply H1; assumption).
      assert (D : ddist f (yi :: xi) == yi - plane f xi) by (apply ddist_plane; lra).
      rewrite ddist_gval in D. pose proof (proj1 (div_neg (gval f (yi :: xi)) _ Hny)) as S1.
      assert (0 <= gval f (yi :: xi) / f_ny f) by (apply S1; exact G). lra.
  Qed.

  (* a selected sample lies on the lower hull: no convex combination of samples at its
     position has a smaller target *)
  Lemma selected_on_surface i w :
    In i (selected fs) -> is_combo d P w (tl (nth i P [])) ->
    nth 0 (nth i P []) 0 <= combo_target P w.
  Proof.
    intros Hi Hw. apply selected_spec in Hi as (f & Hf & Hv).
    destruct (H2 f i Hf Hv) as [Hlt Hg].
    assert (Hp : In (nth i P []) P) by now apply nth_In.
    destruct Hwf as [Wf Wp]. pose proof (Wp _ Hp) as Hl.
    destruct (nth i P []) as [|yi xi] eqn:Ep; [discriminate|]. cbn [tl nth] in *.
    assert (Hx : length xi = d) by (cbn in Hl; congruence).
    pose proof (combo_above_plane f w xi Hf Hx Hw) as Hab.
    pose proof Hf as Hf'. apply lower_facets_In in Hf' as [Hfs Hny].
    assert (D : ddist f (yi :: xi) == yi - plane f xi) by (apply ddist_plane; lra).
    rewrite ddist_gval in D. pose proof (proj2 (proj2 (div_neg (gval f (yi :: xi)) _ Hny))) as S1.
    assert (gval f (yi :: xi) / f_ny f == 0) by (apply S1; exact Hg). lra.
  Qed.
End Surface.

(* ---- positive affine change of the target, positive rescaling of facets ------------- *)
Lemma Forall2_existsb {A} (R : A -> A -> Prop) (p p' : A -> bool) l l' :
  Forall2 R l l' -> (forall x x', R x x' -> p x = p' x') -> existsb p l = existsb p' l'.
Proof. intros H E. induction H as [|x x' l l' Hx _ IH]; cbn; [reflexivity|]. now rewrite (E _ _ Hx), IH. Qed.

Lemma Forall2_filter {A} (R : A -> A -> Prop) (p p' : A -> bool) l l' :
  Forall2 R l l' -> (forall x x', R x x' -> p x = p' x') ->
  Forall2 R (filter p l) (filter p' l').
Proof.
  intros H E. induction H as [|x x' l l' Hx _ IH]; cbn; [constructor|].
  rewrite <- (E _ _ Hx). destruct (p x); [constructor|]; assumption.
Qed.

Section Scale.
  Variable a : Q.
  Hypothesis Ha : 0 < a.
  Let srel (x x' : Q) : Prop := x' == a * x.

  Lemma qle_bool_scale x y x' y' : srel x x' -> srel y y' -> Qle_bool x' y' = Qle_bool x y.
  Proof.
    unfold srel. intros Hx Hy. apply Bool.eq_true_iff_eq. rewrite !Qle_bool_iff.
    split; intros H; nra.
  Qed.

  Lemma qltb_scale x y x' y' : srel x x' -> srel y y' -> Qltb x' y' = Qltb x y.
  Proof. intros Hx Hy. unfold Qltb. f_equal. now apply qle_bool_scale. Qed.

  Lemma qmin_list_scale l l' : Forall2 srel l l' -> orel a (qmin_list l) (qmin_list l').
  Proof.
    intros H. induction H as [|x x' l l' Hx _ IH]; cbn; [exact I|].
    destruct (qmin_list l) as [m|], (qmin_list l') as [m'|]; cbn in IH; try contradiction.
    - cbn. unfold qmin. rewrite (qle_bool_scale x m x' m' Hx IH).
      destruct (Qle_bool x m); assumption.
    - exact Hx.
  Qed.

  Lemma qmax_list_scale l l' : Forall2 srel l l' -> orel a (qmax_list l) (qmax_list l').
  Proof.
    intros H. induction H as [|x x' l l' Hx _ IH]; cbn; [exact I|].
    destruct (qmax_list l) as [m|], (qmax_list l') as [m'|]; cbn in IH; try contradiction.
    - cbn. unfold qmax. rewrite (qle_bool_scale x m x' m' Hx IH).
      destruct (Qle_bool x m); assumption.
    - exact Hx.
  Qed.

  (* the whole below/above logic commutes with scaling all facet distances and the tolerance *)
  Lemma hull_logic_scale tol tol' all all' :
    tol' == a * tol -> Forall2 srel all all' ->
    orel a (if existsb (fun d => Qltb d (- tol)) all
            then qmax_list (filter (keep_fixed tol) all) else qmin_list all)
           (if existsb (fun d => Qltb d (- tol')) all'
            then qmax_list (filter (keep_fixed tol') all') else qmin_list all').
  Proof.
    intros Ht H.
    assert (E : forall x x', srel x x' -> Qltb x (- tol) = Qltb x' (- tol')).
    { intros x x' Hx. symmetry. apply qltb_scale; [exact Hx|]. unfold srel. rewrite Ht. ring. }
    rewrite (Forall2_existsb srel _ (fun d => Qltb d (- tol')) all all' H E).
    destruct (existsb _ all').
    - apply qmax_list_scale. apply Forall2_filter; [exact H|exact E].
    - now apply qmin_list_scale.
  Qed.

  Variable c : Q.

  Lemma is_lower_taffine f : is_lower (taffine a c f) = is_lower f.
  Proof.
    unfold is_lower, taffine, f_ny. cbn [fnormal hd].
    apply Bool.eq_true_iff_eq. rewrite !Qltb_lt.
    set (ny := hd 0 (fnormal f)).
    assert (E : (ny / a) * a == ny) by (field; lra).
    set (q := ny / a) in *. clearbody q. split; intros H; nra.
  Qed.

  Lemma lower_facets_taffine fs :
    lower_facets (map (taffine a c) fs) = map (taffine a c) (lower_facets fs).
  Proof.
    induction fs as [|f fs IH]; [reflexivity|]. cbn [map lower_facets filter].
    rewrite is_lower_taffine. destruct (is_lower f); cbn [map]; fold (lower_facets fs);
      fold (lower_facets (map (taffine a c) fs)); now rewrite IH.
  Qed.

  (* selection is unchanged *)
  Lemma selected_taffine fs : selected (map (taffine a c) fs) = selected fs.
  Proof.
    unfold selected. rewrite lower_facets_taffine. f_equal.
    induction (lower_facets fs) as [|f l IH]; [reflexivity|]. cbn. now rewrite IH.
  Qed.

  Lemma gval_taffine f y x : gval (taffine a c f) ((a * y + c) :: x) == gval f (y :: x).
  Proof.
    unfold gval, taffine, f_ny. cbn [fnormal foffset].
    destruct (fnormal f) as [|ny nx]; cbn [hd tl]; rewrite ?qdot_cons.
    - assert (E0 : forall p, qdot p [] = 0) by (intros [|? ?]; reflexivity).
      rewrite !E0. field. lra.
    - field. lra.
  Qed.

  Lemma ddist_taffine f y x :
    ~ f_ny f == 0 -> ddist (taffine a c f) ((a * y + c) :: x) == a * ddist f (y :: x).
  Proof.
    intros Hny. destruct (ny_nonempty f Hny) as [nx Hn].
    unfold ddist, taffine. rewrite Hn. unfold f_ny at 3 4. rewrite Hn. cbn [fnormal foffset hd tl f_ny].
    rewrite !qdot_cons. field. split; lra.
  Qed.

  (* distances scale by a (tolerance scaled alike) *)
  Lemma hull_distance_taffine tol lf y x :
    (forall f, In f lf -> ~ f_ny f == 0) ->
    orel a (hull_distance tol lf (y :: x))
           (hull_distance (a * tol) (map (taffine a c) lf) ((a * y + c) :: x)).
  Proof.
    intros Hny. unfold hull_distance, hull_distance_with.
    apply hull_logic_scale; [reflexivity|]. rewrite map_map.
    induction lf as [|f lf IH]; cbn [map]; constructor.
    - unfold srel. apply ddist_taffine. apply Hny. now left.
    - apply IH. intros g Hg. apply Hny. now right.
  Qed.

  (* the transformed facets satisfy the contract for the transformed samples *)
  Lemma contract_taffine fs P :
    (forall p, In p P -> p <> []) ->
    contract_h1 fs P -> contract_h2 fs P ->
    contract_h1 (map (taffine a c) fs) (map (paffine a c) P) /\
    contract_h2 (map (taffine a c) fs) (map (paffine a c) P).
  Proof.
    intros Hne H1 H2.
    assert (G : forall f p, p <> [] -> gval (taffine a c f) (paffine a c p) == gval f p).
    { intros f [|y x] Hp; [congruence|]. unfold paffine. cbn [hd tl]. apply gval_taffine. }
    split.
    - intros f' p' Hf Hp. apply in_map_iff in Hf as (f & <- & Hf).
      apply in_map_iff in Hp as (p & <- & Hp). rewrite G by now apply Hne. now apply H1.
    - intros f' v Hf Hv. rewrite lower_facets_taffine in Hf.
      apply in_map_iff in Hf as (f & <- & Hf). cbn [taffine fverts] in Hv.
      destruct (H2 f v Hf Hv) as [Hlt Hg]. rewrite map_length. split; [exact Hlt|].
      assert (E : nth v (map (paffine a c) P) [] = paffine a c (nth v P [])).
      { apply nth_map_lt. exact Hlt. }
      rewrite E, G; [exact Hg|]. apply Hne. now apply nth_In.
  Qed.
End Scale.

Lemma qdot_scale_r k p n : qdot p (map (Qmult k) n) == k * qdot p n.
Proof.
  revert n; induction p as [|p0 p IH]; intros [|n0 n]; cbn [map]; unfold qdot; cbn; try ring.
  fold (qdot p (map (Qmult k) n)). fold (qdot p n). rewrite IH. ring.
Qed.

(* qhull's normalisation of the facet equations does not matter *)
Lemma fscale_invariant k f p :
  0 < k ->
  is_lower (fscale k f) = is_lower f /\ gval (fscale k f) p == k * gval f p /\
  (~ f_ny f == 0 -> ddist (fscale k f) p == ddist f p).
Proof.
  intros Hk.
  assert (Eny : f_ny (fscale k f) == k * f_ny f).
  { unfold f_ny, fscale. cbn [fnormal]. destruct (fnormal f); cbn; ring. }
  assert (Eg : gval (fscale k f) p == k * gval f p).
  { unfold gval, fscale. cbn [fnormal foffset]. rewrite qdot_scale_r. ring. }
  split; [|split; [exact Eg|]].
  - unfold is_lower. apply Bool.eq_true_iff_eq. rewrite !Qltb_lt. rewrite Eny.
    split; intros H; nra.
  - intros Hny. rewrite !ddist_gval, Eg, Eny. field. split; lra.
Qed.

(* score_feature_matrix: where the interpolant reproduces the high-dimensional features (the
   interpolator's contract at its nodes, the selected samples) the residual row is zero *)
Lemma sfm_node_zero interp low high x :
  Forall2 Qeq (interp (select 0 low x)) (select 0 high x) ->
  score_feature_matrix interp low high [x]
    = [map2 Qminus (select 0 high x) (interp (select 0 low x))] /\
  Forall (fun r => r == 0) (map2 Qminus (select 0 high x) (interp (select 0 low x))).
Proof.
  intros H. split; [reflexivity|].
  induction H as [|a b l m Hab _ IH]; cbn; [constructor|]. constructor; [lra|exact IH].
Qed.
