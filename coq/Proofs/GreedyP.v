(* Theorems about the generic greedy loop (Model/Greedy.v), for every scorer. *)
From Verif Require Import ListX Greedy ListXP.
From Coq Require Import Sorting.Permutation Sorting.Sorted.

Section GreedyP.
  Variable S : Type.
  Variable score : S -> list Z.
  Variable upd : S -> nat -> S.
  Variable cand : list (list Z).
  Variable ycand : option (list (list Z)).
  Let n := length cand.

  (* scorer invariant: scores have one entry per candidate, preserved by updates *)
  Variable P : S -> Prop.
  Hypothesis P_len : forall s, P s -> length (score s) = n.
  Hypothesis P_upd : forall s i, P s -> (i < n)%nat -> P (upd s i).

  Notation gst := (gst S).
  Notation post := (post S upd cand ycand).
  Notation best_new := (best_new S score).
  Notation run := (run S score upd cand ycand).

  Definition GInv (g : gst) : Prop :=
    NoDup (sel g) /\ Forall (fun i => (i < n)%nat) (sel g) /\
    xsel g = map (fun i => nth i cand []) (sel g) /\
    (forall y, ycand = Some y -> ysel g = map (fun i => nth i y []) (sel g)) /\
    P (sst g).

  (* what one successful call of _get_best_new_selection returns *)
  Definition is_best (g : gst) (i : nat) : Prop :=
    (i < n)%nat /\ ~ In i (sel g) /\
    (forall j, (j < n)%nat -> ~ In j (sel g) -> nth j (score (sst g)) 0 <= nth i (score (sst g)) 0) /\
    (forall j, (j < i)%nat -> ~ In j (sel g) -> nth j (score (sst g)) 0 < nth i (score (sst g)) 0).

  Lemma best_new_some t g i g' :
    P (sst g) -> best_new t g = (Some i, g') ->
    is_best g i /\ sel g' = sel g /\ xsel g' = xsel g /\ ysel g' = ysel g /\ sst g' = sst g /\
    (has_thr t = true ->
       exists f, first g' = Some f /\ (first g = None -> f = nth i (score (sst g)) 0) /\
                 (forall f0, first g = Some f0 -> f = f0) /\
                 below t f (nth i (score (sst g)) 0) = false) /\
    (has_thr t = false -> g' = g).
  Proof.
    intros HP H. unfold Greedy.best_new in H.
    destruct (amax (mask (sel g) (score (sst g)))) as [[i0 v]|] eqn:Ea; [|discriminate].
    apply amax_mask_spec in Ea as (Hi & Hns & Hv & Hmax & Hfirst).
    rewrite (P_len _ HP) in Hi, Hmax.
    destruct (has_thr t) eqn:Ht.
    - destruct (below t _ v) eqn:Hb; [discriminate|]. injection H as <- <-. cbn.
      split; [|repeat split; try reflexivity].
      + unfold is_best. rewrite Hv. auto.
      + intros _. eexists; split; [reflexivity|]. rewrite Hv.
        split; [intros ->; reflexivity|]. split; [intros f0 ->; reflexivity|exact Hb].
      + discriminate.
    - injection H as <- <-.
      split; [unfold is_best; rewrite Hv; auto|]. repeat split; try reflexivity. discriminate.
  Qed.

  Lemma best_new_none t g g' :
    best_new t g = (None, g') ->
    sel g' = sel g /\ xsel g' = xsel g /\ ysel g' = ysel g /\ sst g' = sst g.
  Proof.
    unfold Greedy.best_new.
    destruct (amax _) as [[i0 v]|]; [|intros H; injection H as <-; auto].
    destruct (has_thr t); [|discriminate].
    destruct (below _ _ _); [|discriminate]. intros H; injection H as <-. cbn. auto.
  Qed.

  Lemma post_inv g i : GInv g -> (i < n)%nat -> ~ In i (sel g) -> GInv (post g i).
  Proof.
    intros (Hnd & Hr & Hx & Hy & HP) Hi Hni. unfold GInv, Greedy.post; cbn.
    split; [|split; [|split; [|split]]].
    - apply NoDup_app_remove_l with (l := []) || idtac.
      rewrite <- (rev_involutive (sel g ++ [i])). apply NoDup_rev.
      rewrite rev_app_distr. cbn. constructor.
      + rewrite <- in_rev. exact Hni.
      + apply NoDup_rev. exact Hnd.
    - apply Forall_app. split; [exact Hr|constructor; [exact Hi|constructor]].
    - rewrite map_app, Hx. reflexivity.
    - intros y Hyc. rewrite Hyc. rewrite map_app, (Hy y Hyc). reflexivity.
    - apply P_upd; assumption.
  Qed.

  Lemma GInv_same g g' :
    GInv g -> sel g' = sel g -> xsel g' = xsel g -> ysel g' = ysel g -> sst g' = sst g -> GInv g'.
  Proof. unfold GInv. intros H -> -> -> ->. exact H. Qed.

  (* ---- the loop: every reachable state satisfies the invariant ------------------ *)
  Theorem run_inv t k g g' st : GInv g -> run t k g = (g', st) -> GInv g'.
  Proof.
    revert g; induction k as [|k IH]; intros g HI H; cbn in H.
    - injection H as <- <-. exact HI.
    - destruct (best_new t g) as [[i|] g1] eqn:Eb.
      + assert (HP : P (sst g)) by apply HI.
        destruct (best_new_some _ _ _ _ HP Eb) as ((Hi & Hni & _) & Hs & Hx & Hy & Hss & _).
        apply (IH (post g1 i)); [|exact H].
        apply post_inv; [eapply GInv_same; eauto|exact Hi|rewrite Hs; exact Hni].
      + injection H as <- <-. apply best_new_none in Eb as (Hs & Hx & Hy & Hss).
        eapply GInv_same; eauto.
  Qed.

  (* selections are only appended; the count is exact unless the threshold stopped *)
  Theorem run_extends t k g g' st :
    GInv g -> run t k g = (g', st) ->
    exists new, sel g' = sel g ++ new /\ (length new <= k)%nat /\
                (st = false -> length new = k).
  Proof.
    revert g; induction k as [|k IH]; intros g HI H; cbn in H.
    - injection H as <- <-. exists []. rewrite app_nil_r. auto.
    - destruct (best_new t g) as [[i|] g1] eqn:Eb.
      + assert (HP : P (sst g)) by apply HI.
        destruct (best_new_some _ _ _ _ HP Eb) as ((Hi & Hni & _) & Hs & Hx & Hy & Hss & _).
        assert (HI1 : GInv (post g1 i)).
        { apply post_inv; [eapply GInv_same; eauto|exact Hi|rewrite Hs; exact Hni]. }
        destruct (IH _ HI1 H) as (new & Hn & Hl & Hst).
        exists (i :: new). cbn [Greedy.post sel] in Hn. rewrite Hs in Hn.
        rewrite Hn, <- app_assoc. cbn. split; [reflexivity|]. split; [lia|].
        intros E; rewrite (Hst E); reflexivity.
      + injection H as <- <-. apply best_new_none in Eb as (Hs & _).
        exists []. rewrite app_nil_r. split; [exact Hs|]. split; [cbn; lia|discriminate].
  Qed.

  (* without a threshold the loop never stops early while candidates remain *)
  Theorem run_nothr_full k g g' st :
    GInv g -> (length (sel g) + k <= n)%nat -> run NoThr k g = (g', st) -> st = false.
  Proof.
    revert g; induction k as [|k IH]; intros g HI Hk H; cbn in H.
    - injection H as _ <-. reflexivity.
    - destruct (best_new NoThr g) as [[i|] g1] eqn:Eb.
      + assert (HP : P (sst g)) by apply HI.
        destruct (best_new_some _ _ _ _ HP Eb) as ((Hi & Hni & _) & Hs & Hx & Hy & Hss & _).
        apply (IH (post g1 i)); [|cbn; rewrite Hs, app_length; cbn; lia|exact H].
        apply post_inv; [eapply GInv_same; eauto|exact Hi|rewrite Hs; exact Hni].
      + exfalso. unfold Greedy.best_new in Eb.
        destruct (amax (mask (sel g) (score (sst g)))) as [[i0 v]|] eqn:Ea; [discriminate|].
        (* pigeonhole: fewer than n selected, so an unselected index exists *)
        destruct HI as (Hnd & Hr & _ & _ & HP).
        assert (Hex : exists j, (j < n)%nat /\ ~ In j (sel g)) by (apply fresh_index; lia).
        destruct Hex as (j & Hj & Hnj).
        eapply amax_mask_some; [|exact Hnj|exact Ea]. rewrite (P_len _ HP). exact Hj.
  Qed.

  (* ---- threshold semantics: trace of (index, score, first_score) per step taken -- *)
  Fixpoint run_tr (t : thr) (k : nat) (g : gst) : list (nat * Z * Z) :=
    match k with
    | O => []
    | Datatypes.S k' =>
        match best_new t g with
        | (None, _) => []
        | (Some i, g1) =>
            (i, nth i (score (sst g)) 0, match first g1 with Some f => f | None => 0 end)
              :: run_tr t k' (post g1 i)
        end
    end.

  Theorem run_tr_sel t k g g' st :
    run t k g = (g', st) -> sel g' = sel g ++ map (fun x => fst (fst x)) (run_tr t k g).
  Proof.
    revert g; induction k as [|k IH]; intros g H; cbn in *.
    - injection H as <- _. now rewrite app_nil_r.
    - destruct (Greedy.best_new S score t g) as [[i|] g1] eqn:Eb.
      + rewrite (IH _ H). cbn [Greedy.post sel map fst].
        assert (Hs : sel g1 = sel g).
        { unfold Greedy.best_new in Eb. destruct (amax _) as [[i0 v]|]; [|discriminate].
          destruct (has_thr t); [destruct (below _ _ _); [discriminate|]|];
            injection Eb as _ <-; reflexivity. }
        rewrite Hs, <- app_assoc. reflexivity.
      + injection H as <- _. apply best_new_none in Eb as (Hs & _). now rewrite Hs, app_nil_r.
  Qed.

  (* every kept selection had a score at or above the threshold when taken *)
  Theorem run_tr_above t k g :
    GInv g -> has_thr t = true ->
    Forall (fun x => below t (snd x) (snd (fst x)) = false) (run_tr t k g).
  Proof.
    revert g; induction k as [|k IH]; intros g HI Ht; cbn; [constructor|].
    destruct (Greedy.best_new S score t g) as [[i|] g1] eqn:Eb; [|constructor].
    assert (HP : P (sst g)) by apply HI.
    destruct (best_new_some _ _ _ _ HP Eb) as ((Hi & Hni & _) & Hs & Hx & Hy & Hss & Hthr & _).
    destruct (Hthr Ht) as (f & Hf & _ & _ & Hb).
    constructor.
    - cbn. rewrite Hf. exact Hb.
    - apply IH; [|exact Ht].
      apply post_inv; [eapply GInv_same; eauto|exact Hi|rewrite Hs; exact Hni].
  Qed.

  (* when the loop reports a threshold stop, the best remaining score is below it *)
  Theorem run_stop_below t k g g' :
    GInv g -> (length (sel g) + k <= n)%nat -> run t k g = (g', true) ->
    exists i f, is_best g' i /\ first g' = Some f /\ below t f (nth i (score (sst g')) 0) = true.
  Proof.
    revert g; induction k as [|k IH]; intros g HI Hk H; cbn in H; [discriminate|].
    destruct (best_new t g) as [[i|] g1] eqn:Eb.
    - assert (HP : P (sst g)) by apply HI.
      destruct (best_new_some _ _ _ _ HP Eb) as ((Hi & Hni & _) & Hs & Hx & Hy & Hss & _).
      apply (IH (post g1 i)); [|cbn; rewrite Hs, app_length; cbn; lia|exact H].
      apply post_inv; [eapply GInv_same; eauto|exact Hi|rewrite Hs; exact Hni].
    - injection H as <-. unfold Greedy.best_new in Eb.
      destruct (amax (mask (sel g) (score (sst g)))) as [[i0 v]|] eqn:Ea.
      + destruct (has_thr t); [|discriminate].
        destruct (below t _ v) eqn:Hb; [|discriminate]. injection Eb as <-. cbn.
        apply amax_mask_spec in Ea as (Hi & Hns & Hv & Hmax & Hfirst).
        assert (HP : P (sst g)) by apply HI.
        rewrite (P_len _ HP) in Hi, Hmax.
        exists i0. eexists. split; [|split; [reflexivity|rewrite Hv; exact Hb]].
        unfold is_best; cbn. rewrite Hv. auto.
      + exfalso.
        destruct HI as (Hnd & Hr & _ & _ & HP).
        assert (Hex : exists j, (j < n)%nat /\ ~ In j (sel g)) by (apply fresh_index; lia).
        destruct Hex as (j & Hj & Hnj).
        eapply amax_mask_some; [|exact Hnj|exact Ea]. rewrite (P_len _ HP). exact Hj.
  Qed.


  (* ---- induction principle over the loop for scorer-specific invariants ----------- *)
  Theorem run_ind (Q : gst -> Prop) t k g g' st :
    (forall a b, Q a -> sel b = sel a -> xsel b = xsel a -> ysel b = ysel a -> sst b = sst a -> Q b) ->
    (forall a i, GInv a -> Q a -> is_best a i -> Q (post a i)) ->
    GInv g -> Q g -> run t k g = (g', st) -> Q g'.
  Proof.
    intros Hsame Hpost. revert g; induction k as [|k IH]; intros g HI HQ H; cbn in H.
    - injection H as <- <-. exact HQ.
    - destruct (best_new t g) as [[i|] g1] eqn:Eb.
      + assert (HP : P (sst g)) by apply HI.
        destruct (best_new_some _ _ _ _ HP Eb) as (Hb & Hs & Hx & Hy & Hss & _).
        assert (HI1 : GInv g1) by (eapply GInv_same; eauto).
        assert (HQ1 : Q g1) by (eapply Hsame; eauto).
        assert (Hb1 : is_best g1 i) by (unfold is_best in *; rewrite Hs, Hss; exact Hb).
        apply (IH (post g1 i)); [|apply Hpost; assumption|exact H].
        destruct Hb1 as (Hi & Hni & _). apply post_inv; assumption.
      + injection H as <- <-. apply best_new_none in Eb as (Hs & Hx & Hy & Hss).
        eapply Hsame; eauto.
  Qed.

  (* the sequence appended by the loop: each element is a best new selection for the
     state reached so far (trace-level form of run_ind) *)
  Fixpoint best_seq (g : gst) (new : list nat) : Prop :=
    match new with
    | [] => True
    | i :: rest => exists g1, sel g1 = sel g /\ sst g1 = sst g /\ xsel g1 = xsel g /\ ysel g1 = ysel g /\
                              is_best g i /\ best_seq (post g1 i) rest
    end.

  Theorem run_best_seq t k g g' st :
    GInv g -> run t k g = (g', st) -> exists new, sel g' = sel g ++ new /\ best_seq g new.
  Proof.
    revert g; induction k as [|k IH]; intros g HI H; cbn in H.
    - injection H as <- <-. exists []. rewrite app_nil_r. cbn. auto.
    - destruct (best_new t g) as [[i|] g1] eqn:Eb.
      + assert (HP : P (sst g)) by apply HI.
        destruct (best_new_some _ _ _ _ HP Eb) as (Hb & Hs & Hx & Hy & Hss & _).
        assert (HI1 : GInv (post g1 i)).
        { destruct Hb as (Hi & Hni & _).
          apply post_inv; [eapply GInv_same; eauto|exact Hi|rewrite Hs; exact Hni]. }
        destruct (IH _ HI1 H) as (new & Hn & Hseq).
        exists (i :: new). cbn [Greedy.post sel] in Hn. rewrite Hs in Hn.
        rewrite Hn, <- app_assoc. split; [reflexivity|]. cbn. exists g1. auto 10.
      + injection H as <- <-. apply best_new_none in Eb as (Hs & _).
        exists []. rewrite app_nil_r. cbn. auto.
  Qed.

  (* ---- views ---------------------------------------------------------------------- *)
  Lemma support_spec s i : (i < n)%nat -> nth i (support n s) false = true <-> In i s.
  Proof.
    intros Hi. unfold support.
    rewrite nth_indep with (d' := memb n s) by (rewrite map_length, seq_length; exact Hi).
    rewrite (map_nth (fun i => memb i s)), seq_nth by exact Hi. cbn. apply memb_In.
  Qed.

  Lemma support_length s : length (support n s) = n.
  Proof. unfold support. now rewrite map_length, seq_length. Qed.

  Lemma support_indices_spec s :
    Permutation s (support_indices s) /\ Sorted le (support_indices s).
  Proof. split; [apply sort_nat_perm|apply sort_nat_sorted]. Qed.
End GreedyP.
