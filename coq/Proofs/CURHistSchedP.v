(* C07, layer D, histories: every selection of every fit of a history (cold fit, then warm starts
   with recompute_every changed in between) is the first maximiser, among the items not yet
   selected, of the refresh vector in force under the schedule of Model/CURHistSched.v.
   Stdlib style; builds on [stage_gen] of Proofs/CURSchedP.v (one loop, any recompute_every). *)
From Verif Require Import ListX Greedy ListXP GreedyP CURSched CURSchedP CURHistSched.

(* the selections [new] appended to [base] are each best w.r.t. the vector whose number is listed *)
Definition sel_ok (n : nat) (R : list (list Z)) (base : list nat) (idxs new : list nat) : Prop :=
  forall j, (j < length new)%nat ->
    best_wrt n (nth (nth j idxs O) R []) (base ++ firstn j new) (nth j new O).

Lemma sel_ok_app n R base idxs1 new1 idxs2 new2 :
  length idxs1 = length new1 ->
  sel_ok n R base idxs1 new1 -> sel_ok n R (base ++ new1) idxs2 new2 ->
  sel_ok n R base (idxs1 ++ idxs2) (new1 ++ new2).
Proof.
  intros Hl H1 H2 j Hj. rewrite app_length in Hj.
  destruct (Nat.lt_ge_cases j (length new1)) as [Hlt|Hge].
  - rewrite (app_nth1 idxs1) by lia. rewrite (app_nth1 new1) by lia.
    rewrite firstn_app. replace (j - length new1)%nat with O by lia.
    cbn [firstn]. rewrite app_nil_r. apply H1. exact Hlt.
  - rewrite (app_nth2 idxs1) by lia. rewrite (app_nth2 new1) by lia.
    rewrite firstn_app, (firstn_all2 new1) by lia.
    rewrite Hl, app_assoc. apply H2. lia.
Qed.

Lemma idx_after_le re m c k : (idx_after re m c k <= c + k)%nat.
Proof.
  revert m c; induction k as [|k IH]; intros m c; cbn [idx_after]; [lia|].
  destruct (refresh_due re (S m)); [specialize (IH (S m) (S c))|specialize (IH (S m) c)]; lia.
Qed.

Lemma hw_last_ge m c sts : (c <= hw_last m c sts)%nat.
Proof.
  revert m c; induction sts as [|[re k] sts IH]; intros m c; cbn [hw_last]; [lia|].
  specialize (IH (m + (k - m))%nat (idx_after re m (S c) (k - m))).
  pose proof (idx_after_ge re m (S c) (k - m)). lia.
Qed.

Section Hist.
  Variable n : nat.
  Variable R : list (list Z).
  Let cand := repeat (@nil Z) n.
  Notation GI := (GInv cst cand None (cP cand)).

  Lemma cand_len : length cand = n.
  Proof. apply repeat_length. Qed.

  (* the warm part of a history, from any consistent state whose stream position is known *)
  Lemma hw_gen : forall sts g c acc g' tr,
    GI g -> c_nsel (sst g) = length (sel g) ->
    c_rest (sst g) = skipn (S c) R ->
    stages_ok n (length (sel g)) sts ->
    (hw_last (length (sel g)) c sts < length R)%nat ->
    h_chain cand g sts acc = (g', tr) ->
    exists new, sel g' = sel g ++ new /\
      length new = length (hw_idx (length (sel g)) c sts) /\
      c_ok (sst g') = c_ok (sst g) /\
      c_rest (sst g') = skipn (S (hw_last (length (sel g)) c sts)) R /\
      sel_ok n R (sel g) (hw_idx (length (sel g)) c sts) new.
  Proof.
    induction sts as [|[re k] sts IH]; intros g c acc g' tr HI Hn Hrest Hso Hen H.
    - cbn in H. injection H as <- _. exists []. rewrite app_nil_r. cbn [hw_idx hw_last length].
      split; [reflexivity|]. split; [reflexivity|]. split; [reflexivity|]. split; [exact Hrest|].
      intros j Hj; cbn in Hj; lia.
    - cbn [h_chain] in H. cbn [hw_idx hw_last] in *. cbn [stages_ok] in Hso.
      destruct Hso as (Hmk & Hkn & Hso).
      set (m := length (sel g)) in *.
      set (steps := (k - m)%nat) in *.
      assert (Hsel1 : sel (g_warm g) = sel g) by reflexivity.
      rewrite Hsel1 in H. fold m in H. fold steps in H.
      (* the stream is long enough for this stage *)
      pose proof (hw_last_ge (m + steps) (idx_after re m (S c) steps) sts) as Hge.
      pose proof (idx_after_ge re m (S c) steps) as Hge2.
      assert (HSc : (S c < length R)%nat) by lia.
      assert (Er : c_rest (sst g) = nth (S c) R [] :: skipn (S (S c)) R).
      { rewrite Hrest. exact (skipn_cons_nth cand R (S c) HSc). }
      assert (Hw : c_warm (sst g) = mk_cst (nth (S c) R []) (c_nsel (sst g)) (skipn (S (S c)) R) (c_ok (sst g))).
      { unfold c_warm. now rewrite Er. }
      assert (HPg : cP cand (sst g)) by apply HI.
      assert (HIw : GI (g_warm g)).
      { destruct HI as (A & B & Cc & D & E). unfold g_warm, GInv; cbn [sel xsel ysel sst].
        split; [exact A|]. split; [exact B|]. split; [exact Cc|]. split; [exact D|].
        rewrite Hw. destruct HPg as [_ Hr]. rewrite Er in Hr.
        inversion Hr as [|r0 rest0 Hr0 Hrest0]. split; assumption. }
      assert (A1 : c_nsel (sst (g_warm g)) = length (sel (g_warm g))).
      { unfold g_warm; cbn [sst sel]. rewrite Hw. exact Hn. }
      assert (A2 : c_rest (sst (g_warm g)) = skipn (S (S c)) R).
      { unfold g_warm; cbn [sst]. rewrite Hw. reflexivity. }
      assert (A3 : agree_off cand (sel (g_warm g)) (c_vec (sst (g_warm g))) (nth (S c) R [])).
      { unfold g_warm; cbn [sst sel]. rewrite Hw. intros u _ _. reflexivity. }
      destruct (c_run re cand NoThr steps (g_warm g)) as [g2 st] eqn:Erun.
      assert (A4 : (idx_after re (length (sel (g_warm g))) (S c) steps < length R)%nat).
      { rewrite Hsel1. fold m. lia. }
      destruct (stage_gen re cand R NoThr steps (g_warm g) (S c) g2 st HIw A1 A2 A3 A4 Erun)
        as (new & Hnew & Hle & Hst & Hbest & HI2 & Hn2 & Hr2 & _ & Hok2).
      assert (Est : st = false).
      { unfold c_run in Erun.
        eapply (run_nothr_full cst c_score (c_upd re) cand None (cP cand) (cP_len cand) (cP_upd re cand)
                               steps (g_warm g) g2 st HIw); [|exact Erun].
        rewrite cand_len, Hsel1. fold m. unfold steps. lia. }
      specialize (Hst Est).
      rewrite Hsel1 in Hnew, Hr2, Hbest. fold m in Hr2, Hbest.
      rewrite Hst in Hr2.
      assert (Hlen2 : length (sel g2) = (m + steps)%nat).
      { rewrite Hnew, app_length. fold m. lia. }
      cbn [fst] in H.
      assert (Hk : (m + steps)%nat = k) by (unfold steps; lia).
      assert (Hso' : stages_ok n (length (sel g2)) sts) by (rewrite Hlen2, Hk; exact Hso).
      assert (Hen' : (hw_last (length (sel g2)) (idx_after re m (S c) steps) sts < length R)%nat)
        by (rewrite Hlen2; exact Hen).
      destruct (IH g2 (idx_after re m (S c) steps) _ g' tr HI2 Hn2 Hr2 Hso' Hen' H)
        as (new' & Hnew' & Hlen' & Hok' & Hrest' & Hbest').
      exists (new ++ new').
      rewrite Hlen2 in Hlen', Hrest', Hbest'.
      split; [rewrite Hnew', Hnew, app_assoc; reflexivity|].
      split; [rewrite !app_length, idx_steps_length, Hlen'; lia|].
      split; [rewrite Hok', Hok2; unfold g_warm; cbn [sst]; rewrite Hw; reflexivity|].
      split; [exact Hrest'|].
      apply sel_ok_app.
      + rewrite idx_steps_length. lia.
      + intros j Hj. specialize (Hbest j Hj). rewrite cand_len in Hbest. exact Hbest.
      + rewrite <- Hnew. exact Hbest'.
  Qed.

  (* C07_history_argmax *)
  Theorem history_argmax (sts : list (nat * nat)) g' tr :
    Forall (fun r => length r = n) R ->
    sts <> [] -> stages_ok n 0 sts ->
    (h_last sts < length R)%nat ->
    h_fit cand R sts = (g', tr) ->
    length (sel g') = length (h_idx sts) /\
    c_ok (sst g') = true /\
    c_rest (sst g') = skipn (S (h_last sts)) R /\
    forall j, (j < length (sel g'))%nat ->
      best_wrt n (nth (nth j (h_idx sts) O) R []) (firstn j (sel g')) (nth j (sel g') O).
  Proof.
    intros HR Hne Hso Hen H.
    destruct sts as [|[re k] sts]; [contradiction|]. clear Hne.
    cbn [h_fit h_idx h_last stages_ok] in *. destruct Hso as (_ & Hkn & Hso).
    pose proof (hw_last_ge k (idx_after re 0 0 k) sts) as Hge.
    assert (HRne : R <> []) by (intros ->; cbn in Hen; lia).
    pose proof (GI_cold n R HR HRne) as HI. fold cand in HI.
    assert (HRl : Forall (fun r => length r = length cand) R) by (now rewrite cand_len).
    destruct R as [|r0 rest] eqn:ER; [contradiction|]. rewrite <- ER in *.
    assert (Hg : g_cold R = mk_gst [] [] [] (mk_cst r0 0 rest true) None) by (now rewrite ER).
    assert (A1 : c_nsel (sst (g_cold R)) = length (sel (g_cold R))) by (now rewrite Hg).
    assert (A2 : c_rest (sst (g_cold R)) = skipn 1 R) by (rewrite Hg, ER; reflexivity).
    assert (A3 : agree_off cand (sel (g_cold R)) (c_vec (sst (g_cold R))) (nth 0 R [])).
    { rewrite Hg, ER. intros u _ _. reflexivity. }
    assert (A4 : (idx_after re (length (sel (g_cold R))) 0 k < length R)%nat).
    { rewrite Hg. cbn [sel length]. lia. }
    destruct (c_run re cand NoThr k (g_cold R)) as [g1 st] eqn:Erun.
    destruct (stage_gen re cand R NoThr k (g_cold R) 0 g1 st HI A1 A2 A3 A4 Erun)
      as (new & Hnew & Hle & Hst & Hbest & HI1 & Hn1 & Hr1 & _ & Hok1).
    assert (Est : st = false).
    { unfold c_run in Erun.
      eapply (run_nothr_full cst c_score (c_upd re) cand None (cP cand) (cP_len cand) (cP_upd re cand)
                             k (g_cold R) g1 st HI); [|exact Erun].
      rewrite cand_len, Hg. cbn [sel length]. lia. }
    specialize (Hst Est).
    rewrite Hg in Hnew, Hr1, Hbest, Hok1. cbn [sel sst c_ok app length] in Hnew, Hr1, Hbest, Hok1.
    rewrite Hst in Hr1.
    assert (Hlen1 : length (sel g1) = k) by (rewrite Hnew; exact Hst).
    cbn [fst] in H.
    assert (Hso' : stages_ok n (length (sel g1)) sts) by (rewrite Hlen1; exact Hso).
    assert (Hen' : (hw_last (length (sel g1)) (idx_after re 0 0 k) sts < length R)%nat)
      by (rewrite Hlen1; exact Hen).
    destruct (hw_gen sts g1 (idx_after re 0 0 k) _ g' tr HI1 Hn1 Hr1 Hso' Hen' H)
      as (new' & Hnew' & Hlen' & Hok' & Hrest' & Hbest').
    rewrite Hlen1 in Hlen', Hrest', Hbest'.
    split; [rewrite Hnew', Hnew, !app_length, idx_steps_length, Hlen'; lia|].
    split; [rewrite Hok', Hok1; reflexivity|].
    split; [exact Hrest'|].
    assert (Hall : sel_ok n R [] (idx_steps re 0 0 k ++ hw_idx k (idx_after re 0 0 k) sts) (new ++ new')).
    { apply sel_ok_app.
      - rewrite idx_steps_length. lia.
      - intros j Hj. specialize (Hbest j Hj). rewrite cand_len in Hbest. exact Hbest.
      - cbn [app]. rewrite <- Hnew. exact Hbest'. }
    rewrite Hnew', Hnew. intros j Hj. specialize (Hall j Hj). cbn [app] in Hall. exact Hall.
  Qed.
End Hist.

(* non-vacuity: three candidates; fit 1 with recompute_every = 0 selects two items on the first
   vector; the warm start (recompute_every = 1) loads the second vector and selects the third *)
Lemma nonvacuous_history :
  let R := [[5; 9; 7]; [1; 0; 3]; [0; 0; 0]] in
  let sts := [(0, 2); (1, 3)]%nat in
  Forall (fun r => length r = 3%nat) R /\ stages_ok 3 0 sts /\ (h_last sts < length R)%nat /\
  sel (fst (h_fit (repeat [] 3) R sts)) = [1; 2; 0]%nat /\
  h_idx sts = [0; 0; 1]%nat /\
  snd (h_fit (repeat [] 3) R sts) = [[5; 9; 7]; [5; 0; 7]; [1; 0; 3]].
Proof.
  cbv zeta. split; [repeat constructor|]. split; [cbn; lia|]. split; [vm_compute; lia|].
  split; [vm_compute; reflexivity|]. split; vm_compute; reflexivity.
Qed.
